import MokapotVerif.Lemmas.PinClassify
/-! Helper lemmas for C10: labels, column checks, and the main correctness
statement of `readPercolatorSched`. Core Lean only. -/
namespace Mk.Pin

/-! ### labels -/

theorem pm1_cases {c : Cell} (h : c.isPm1 = true) : c = .int 1 ∨ c = .int 0 ∨ c = .int (-1) := by
  unfold Cell.isPm1 at h
  simpa [Bool.or_eq_true, or_assoc] using h

theorem isTarget_of_isBool {c : Cell} (h : c.isBool = true) : c.boolVal = c.isTarget := by
  cases c with
  | bool b => cases b <;> decide
  | na => cases h
  | int i => cases h
  | str s => cases h

theorem isTarget_of_pm1 {c : Cell} (h : c.isPm1 = true) : (c.intVal == 1) = c.isTarget := by
  rcases pm1_cases h with rfl | rfl | rfl <;> decide

/-- `convert_targets_column` on admissible labels: target iff labelled 1 / true -/
theorem convertTargets_ok {cells : List Cell} (h : labelOk cells = true) :
    convertTargets cells = .ok (cells.map Cell.isTarget) := by
  unfold convertTargets
  by_cases hb : cells.all Cell.isBool = true
  · rw [if_pos hb]
    congr 1
    apply List.map_congr_left
    intro c hc
    exact isTarget_of_isBool (List.all_eq_true.mp hb c hc)
  · rw [if_neg hb]
    have hp : cells.all Cell.isPm1 = true := by
      unfold labelOk at h
      rcases Bool.or_eq_true_iff.mp h with h | h
      · exact absurd h hb
      · exact h
    have hp' := List.all_eq_true.mp hp
    have hint : cells.all Cell.isInt = true := by
      apply List.all_eq_true.mpr
      intro c hc
      rcases pm1_cases (hp' c hc) with rfl | rfl | rfl <;> rfl
    have hlo : cells.any (fun c => c.intVal < -1) = false := by
      rw [List.any_eq_false]
      intro c hc
      rcases pm1_cases (hp' c hc) with rfl | rfl | rfl <;> decide
    have hhi : cells.any (fun c => c.intVal > 1) = false := by
      rw [List.any_eq_false]
      intro c hc
      rcases pm1_cases (hp' c hc) with rfl | rfl | rfl <;> decide
    simp only [hint, hlo, hhi, Bool.not_true, Bool.or_false, Bool.false_eq_true, if_false]
    congr 1
    apply List.map_congr_left
    intro c hc
    exact isTarget_of_pm1 (hp' c hc)

/-- an integer label outside {-1, 0, 1} is rejected -/
theorem convertTargets_range {cells : List Cell} (hint : cells.all Cell.isInt = true)
    (hbad : ∃ c ∈ cells, c.intVal < -1 ∨ 1 < c.intVal) :
    convertTargets cells = .error .labelRange := by
  unfold convertTargets
  obtain ⟨c, hc, hv⟩ := hbad
  have hb : ¬ cells.all Cell.isBool = true := by
    intro hb
    have h1 := List.all_eq_true.mp hb c hc
    have h2 := List.all_eq_true.mp hint c hc
    cases c <;> simp_all [Cell.isBool, Cell.isInt]
  rw [if_neg hb]
  simp only [hint, Bool.not_true, Bool.false_eq_true, if_false]
  have : (cells.any (fun c => c.intVal < -1) || cells.any (fun c => c.intVal > 1)) = true := by
    rw [Bool.or_eq_true, List.any_eq_true, List.any_eq_true]
    rcases hv with hv | hv
    · exact Or.inl ⟨c, hc, by simpa using hv⟩
    · exact Or.inr ⟨c, hc, by simpa using hv⟩
  rw [if_pos this]

/-! ### every column found by the look-ups is a column of the file -/

theorem requireOne_mem {l : List Name} {c : Name} (h : requireOne l = .ok c) : c ∈ l := by
  match l, h with
  | [x], h => simp only [requireOne, Except.ok.injEq] at h; subst h; exact List.mem_cons_self

theorem pickUnique_mem {b : Bool} {l : List Name} {o : Option Name} (h : pickUnique b l = .ok o) :
    ∀ c ∈ o.toList, c ∈ l := by
  cases l with
  | nil =>
    cases b
    · simp only [pickUnique, Bool.false_eq_true, if_false, Except.ok.injEq] at h
      subst h; intro c hc; cases hc
    · simp [pickUnique] at h
  | cons x rest =>
    cases rest with
    | nil =>
      simp only [pickUnique, Except.ok.injEq] at h; subst h
      intro c hc; simpa using hc
    | cons y r => simp [pickUnique] at h

theorem findRequired_mem {q : Name} {hdr : List Name} {c : Name}
    (h : findRequiredColumn q hdr = .ok c) : c ∈ hdr :=
  (List.mem_filter.mp (requireOne_mem h)).1

theorem findOptional_mem {a : Option Name} {q : Name} {hdr : List Name} {o : Option Name}
    (h : findOptionalColumn a hdr q = .ok o) : ∀ c ∈ o.toList, c ∈ hdr :=
  fun c hc => (List.mem_filter.mp (pickUnique_mem h c hc)).1

theorem bind_ok {ε α β : Type} {x : Except ε α} {f : α → Except ε β} {b : β}
    (h : x.bind f = .ok b) : ∃ a, x = .ok a ∧ f a = .ok b := by
  cases x with
  | error e => cases h
  | ok a => exact ⟨a, rfl, h⟩

/-- all names of a classification are columns of the file -/
structure Within (k : Classified) (hdr : List Name) : Prop where
  specid : k.specid ∈ hdr
  peptides : k.peptides ∈ hdr
  proteins : k.proteins ∈ hdr
  labels : k.labels ∈ hdr
  scan : k.scan ∈ hdr
  modpep : ∀ c ∈ k.modpep, c ∈ hdr
  precursors : ∀ c ∈ k.precursors, c ∈ hdr
  pepgroups : ∀ c ∈ k.pepgroups, c ∈ hdr
  filename : ∀ c ∈ k.filename.toList, c ∈ hdr
  calcmass : ∀ c ∈ k.calcmass.toList, c ∈ hdr
  expmass : ∀ c ∈ k.expmass.toList, c ∈ hdr
  rt : ∀ c ∈ k.rt.toList, c ∈ hdr
  charge : ∀ c ∈ k.charge.toList, c ∈ hdr

theorem lookupColumns_within {args : PinArgs} {hdr : List Name} {k : Classified}
    (h : lookupColumns args hdr = .ok k) : Within k hdr := by
  unfold lookupColumns at h
  obtain ⟨a1, h1, h⟩ := bind_ok h
  obtain ⟨a2, h2, h⟩ := bind_ok h
  obtain ⟨a3, h3, h⟩ := bind_ok h
  obtain ⟨a4, h4, h⟩ := bind_ok h
  obtain ⟨a5, h5, h⟩ := bind_ok h
  obtain ⟨o1, g1, h⟩ := bind_ok h
  obtain ⟨o2, g2, h⟩ := bind_ok h
  obtain ⟨o3, g3, h⟩ := bind_ok h
  obtain ⟨o4, g4, h⟩ := bind_ok h
  obtain ⟨o5, g5, h⟩ := bind_ok h
  simp only [pure, Except.pure, Except.ok.injEq] at h
  subst h
  exact
    { specid := findRequired_mem h1, peptides := findRequired_mem h2, proteins := findRequired_mem h3,
      labels := findRequired_mem h4, scan := findRequired_mem h5,
      modpep := fun c hc => (List.mem_filter.mp hc).1,
      precursors := fun c hc => (List.mem_filter.mp hc).1,
      pepgroups := fun c hc => (List.mem_filter.mp hc).1,
      filename := findOptional_mem g1, calcmass := findOptional_mem g2, expmass := findOptional_mem g3,
      rt := findOptional_mem g4, charge := findOptional_mem g5 }

theorem within_spectra {k : Classified} {hdr : List Name} (w : Within k hdr) :
    ∀ c ∈ k.spectra, c ∈ hdr := by
  intro c hc
  unfold Classified.spectra at hc
  simp only [List.mem_append, List.mem_singleton] at hc
  rcases hc with ((hc | rfl) | hc) | hc
  · exact w.filename c hc
  · exact w.scan
  · exact w.rt c hc
  · exact w.expmass c hc

theorem within_level {k : Classified} {hdr : List Name} (w : Within k hdr) :
    ∀ c ∈ k.level, c ∈ hdr := by
  intro c hc
  unfold Classified.level at hc
  simp only [List.mem_append, List.mem_singleton] at hc
  rcases hc with ((rfl | hc) | hc) | hc
  · exact w.peptides
  · exact w.modpep c hc
  · exact w.precursors c hc
  · exact w.pepgroups c hc

theorem within_nonfeat {k : Classified} {hdr : List Name} (w : Within k hdr) :
    ∀ c ∈ k.nonfeat hdr, c ∈ hdr := by
  intro c hc
  unfold Classified.nonfeat Classified.chargeMeta at hc
  simp only [List.mem_append, List.mem_cons, List.not_mem_nil, or_false] at hc
  rcases hc with (((((((((rfl | rfl | rfl | rfl | rfl) | hc) | hc) | hc) | hc) | hc) | hc) | hc) | hc)
  · exact w.specid
  · exact w.scan
  · exact w.peptides
  · exact w.proteins
  · exact w.labels
  · exact w.modpep c hc
  · exact w.precursors c hc
  · exact w.pepgroups c hc
  · split at hc
    · exact w.charge c hc
    · cases hc
  · exact w.filename c hc
  · exact w.calcmass c hc
  · exact w.expmass c hc
  · exact w.rt c hc

theorem checkColumn_of_mem {hdr : List Name} {c : Name} (h : c ∈ hdr) : checkColumn hdr c = true := by
  unfold checkColumn; simp [h]

theorem checkColumns_of_mem {hdr cs : List Name} (h : ∀ c ∈ cs, c ∈ hdr) :
    checkColumns hdr cs = true := by
  unfold checkColumns
  exact List.all_eq_true.mpr (fun c hc => checkColumn_of_mem (h c hc))

/-- the column existence checks of `OnDiskPsmDataset.__init__` never fire for
a dataset built by `read_percolator` -/
theorem datasetChecks_mkDataset (t : Table) {k : Classified} (w : Within k t.header)
    (frames : List (Name → List Cell)) (drops : List (List Name)) (targets : List Bool) :
    datasetChecks t.header (mkDataset t k frames drops targets) = true := by
  unfold datasetChecks mkDataset
  simp only [Bool.and_eq_true]
  refine ⟨⟨⟨⟨⟨⟨⟨⟨⟨⟨⟨⟨⟨⟨?_, ?_⟩, ?_⟩, ?_⟩, ?_⟩, ?_⟩, ?_⟩, ?_⟩, ?_⟩, ?_⟩, ?_⟩, ?_⟩, ?_⟩, ?_⟩, ?_⟩
  · exact checkColumns_of_mem (fun c hc => hc)
  · exact checkColumn_of_mem w.labels
  · exact checkColumn_of_mem w.peptides
  · exact checkColumn_of_mem w.proteins
  · exact checkColumns_of_mem (within_spectra w)
  · exact checkColumns_of_mem (fun c hc => (List.mem_filter.mp (List.mem_filter.mp hc).1).1)
  · exact checkColumns_of_mem (within_nonfeat w)
  · exact checkColumns_of_mem (within_level w)
  · exact checkColumns_of_mem w.filename
  · exact checkColumn_of_mem w.scan
  · exact checkColumns_of_mem w.calcmass
  · exact checkColumns_of_mem w.expmass
  · exact checkColumns_of_mem w.rt
  · exact checkColumns_of_mem w.charge
  · exact checkColumn_of_mem w.specid

/-! ### the main statement -/

theorem wf_headerOk {t : Table} (h : WellFormed t) : HeaderOk t.header := ⟨h.required, h.optional⟩

theorem default_within {hdr : List Name} (h : HeaderOk hdr) : Within (defaultClassified hdr) hdr :=
  lookupColumns_within (lookupColumns_default h)

theorem lowerName_nil_of_isEmpty {c : Name} (h : c.isEmpty = true) : lowerName c = [] := by
  have : c = [] := by simpa using h
  subst this; rfl

/-- the spectrum key columns of a classified header have non-empty names -/
theorem default_spectra_nonempty {hdr : List Name} (h : HeaderOk hdr) :
    (defaultClassified hdr).spectra.any (fun s => s.isEmpty) = false := by
  rw [List.any_eq_false]
  intro c hc he
  have hl := lowerName_nil_of_isEmpty he
  obtain ⟨_, _, _, _, r5⟩ := req_count h
  obtain ⟨o1, _, o3, o4, _⟩ := opt_count h
  unfold Classified.spectra defaultClassified at hc
  simp only [] at hc
  rw [pickD_toList r5] at hc
  simp only [List.mem_append] at hc
  rcases hc with ((hc | hc) | hc) | hc
  · have := ((mem_pick_iff o1).mp hc).2; rw [hl] at this; exact absurd this (by decide)
  · have := ((mem_pick_iff (Nat.le_of_eq r5)).mp hc).2; rw [hl] at this; exact absurd this (by decide)
  · have := ((mem_pick_iff o4).mp hc).2; rw [hl] at this; exact absurd this (by decide)
  · have := ((mem_pick_iff o3).mp hc).2; rw [hl] at this; exact absurd this (by decide)

/-- identifier columns are metadata, hence never features (any classification) -/
theorem ids_not_features (k : Classified) (hdr : List Name) :
    ∀ x ∈ k.spectra ++ [k.labels], x ∉ k.features hdr := by
  intro x hx hf
  have hnf : x ∈ k.nonfeat hdr := by
    unfold Classified.spectra at hx
    unfold Classified.nonfeat
    simp only [List.mem_append, List.mem_cons, List.not_mem_nil, or_false] at hx ⊢
    rcases hx with (((hx | rfl) | hx) | hx) | rfl
    · simp [hx]
    · simp
    · simp [hx]
    · simp [hx]
    · simp
  unfold Classified.features at hf
  rw [List.mem_filter] at hf
  have := hf.2
  simp [hnf] at this

theorem range_map_isEmpty {β : Type} {m : Nat} (hm : 0 < m) (f : Nat → β) :
    ((List.range m).map f).isEmpty = false := by
  cases m with
  | zero => omega
  | succ n => rw [List.range_succ_eq_map]; rfl

/-- the specified dataset with a given target column -/
def specDatasetT (t : Table) (targets : List Bool) : Dataset := { specDataset t with targets := targets }

/-- **Core statement**: for a table whose reserved columns are unique up to
letter case and whose columns have the same positive length, for every
column-chunk size, row-chunk size and completion order of the tasks, the model
of `read_percolator` fails or succeeds exactly as `convert_targets_column` does
on the label column, and on success returns the specified dataset. -/
theorem readPercolatorSched_core {t : Table} (hok : HeaderOk t.header)
    (hrows : ∀ p ∈ t.cols, p.2.length = t.nrows) (hn : 0 < t.nrows)
    {c r : Nat} (hc : 0 < c) (hr : 0 < r)
    (order : List (List Name) → List (List Name)) (hord : ∀ l, (order l).Perm l) :
    readPercolatorSched {} c r t order
      = (convertTargets (t.column (pickD t.header nLabel))).bind (fun tg => .ok (specDatasetT t tg)) := by
  have hw := default_within hok
  unfold readPercolatorSched
  rw [lookupColumns_default hok]
  simp only [Except.bind]
  rw [if_neg (by rw [default_spectra_nonempty hok]; simp), if_neg (by omega)]
  -- the appended frames
  have hm : 0 < numRowChunks t.nrows r := numRowChunks_pos hn hr
  have hcount : (order (featSlices (defaultClassified t.header) t.header c)).countP
      (hasIds ((defaultClassified t.header).spectra ++ [(defaultClassified t.header).labels])) = 1 := by
    rw [(hord _).countP_eq]
    exact countP_hasIds_idChunks hc _ _ (by simp) (ids_not_features _ _)
  rw [flatMap_scanFrames, hcount]
  simp only [List.replicate_one, List.flatten_singleton]
  have hcol : ∀ x ∈ t.header,
      concatCol ((List.range (numRowChunks t.nrows r)).map (fun k c => cellsOf t r k c)) x = t.column x := by
    intro x hx
    have := concatCol_frames t hr x
    rwa [column_length t hrows hx] at this
  unfold assemble
  rw [range_map_isEmpty hm]
  simp only [Bool.false_eq_true, if_false]
  rw [hcol _ hw.labels]
  have hlab : (defaultClassified t.header).labels = pickD t.header nLabel := rfl
  rw [hlab]
  congr 1
  funext tg
  rw [datasetChecks_mkDataset t hw]
  simp only [if_true]
  congr 1
  unfold mkDataset specDatasetT specDataset
  have hfeat : ((defaultClassified t.header).features t.header).filter
      (fun f => !((featSlices (defaultClassified t.header) t.header c).map
        (scanDrop t ((defaultClassified t.header).spectra ++ [(defaultClassified t.header).labels]) r
          (numRowChunks t.nrows r))).flatten.contains f) = specFeatures t := by
    unfold specFeatures
    rw [default_features hok, List.filter_filter]
    apply List.filter_congr
    intro x hx
    by_cases hres : isReserved t.header x = true
    · simp [hres]
    · have hres' : isReserved t.header x = false := by simpa using hres
      have hxf : x ∈ (defaultClassified t.header).features t.header := by
        rw [default_features hok, List.mem_filter]; exact ⟨hx, by simp [hres']⟩
      have hxi : x ∉ (defaultClassified t.header).spectra ++ [(defaultClassified t.header).labels] :=
        fun hxi => ids_not_features _ _ x hxi hxf
      have hiff := mem_scanDrop_iff t hc hr ((defaultClassified t.header).features t.header)
        ((defaultClassified t.header).spectra ++ [(defaultClassified t.header).labels]) hxf hxi
        (column_length t hrows hx)
      rw [List.flatMap_def] at hiff
      unfold featSlices
      rw [hres']
      simp only [Bool.not_false, Bool.and_true, Bool.true_and]
      congr 1
      rw [Bool.eq_iff_iff, List.contains_iff_mem]
      exact hiff
  have hspec : (defaultClassified t.header).spectra.map
      (fun c => (c, concatCol ((List.range (numRowChunks t.nrows r)).map (fun k c => cellsOf t r k c)) c))
      = (specSpectrum t.header).map (fun c => (c, t.column c)) := by
    rw [← default_spectra hok]
    apply List.map_congr_left
    intro x hx
    rw [hcol x (within_spectra hw x hx)]
  rw [hlab] at hfeat
  rw [hfeat, hspec, default_spectra hok, default_nonfeat hok, default_level]
  rfl

/-- **Main statement**: for a well-formed table, every column-chunk size, every
row-chunk size and every completion order of the tasks, the model of
`read_percolator` returns exactly the specified dataset. -/
theorem readPercolatorSched_wf {t : Table} (h : WellFormed t) {c r : Nat} (hc : 0 < c) (hr : 0 < r)
    (order : List (List Name) → List (List Name)) (hord : ∀ l, (order l).Perm l) :
    readPercolatorSched {} c r t order = .ok (specDataset t) := by
  rw [readPercolatorSched_core (wf_headerOk h) h.rows h.nonempty hc hr order hord,
    convertTargets_ok h.label]
  rfl

/-! ### rejection -/

theorem findRequired_ok_count {q : Name} (hq : lowerName q = q) {hdr : List Name} {c : Name}
    (h : findRequiredColumn q hdr = .ok c) : countLower hdr q = 1 := by
  unfold findRequiredColumn at h
  rw [foundColumns_lower hq] at h
  unfold countLower
  rw [List.countP_eq_length_filter]
  generalize hdr.filter (fun c => lowerName c == q) = l at h
  cases l with
  | nil => cases h
  | cons x rest =>
    cases rest with
    | nil => rfl
    | cons y r => cases h

theorem findOptional_default_ok_count {q : Name} (hq : lowerName q = q) {hdr : List Name} {o : Option Name}
    (h : findOptionalColumn none hdr q = .ok o) : countLower hdr q ≤ 1 := by
  unfold findOptionalColumn at h
  have : orDefault none q = q := rfl
  rw [this] at h
  simp only [Option.isNone_none, Option.isSome_none] at h
  rw [foundColumns_lower hq] at h
  unfold countLower
  rw [List.countP_eq_length_filter]
  generalize hdr.filter (fun c => lowerName c == q) = l at h
  cases l with
  | nil => simp
  | cons x rest =>
    cases rest with
    | nil => simp
    | cons y r => cases h

/-- the look-ups succeed only if every required column occurs exactly once (any arguments) -/
theorem lookupColumns_ok_required {args : PinArgs} {hdr : List Name} {k : Classified}
    (h : lookupColumns args hdr = .ok k) : ∀ q ∈ requiredNames, countLower hdr q = 1 := by
  obtain ⟨l1, l2, l3, l4, l5, _⟩ := lower_lit
  unfold lookupColumns at h
  obtain ⟨a1, h1, h⟩ := bind_ok h
  obtain ⟨a2, h2, h⟩ := bind_ok h
  obtain ⟨a3, h3, h⟩ := bind_ok h
  obtain ⟨a4, h4, h⟩ := bind_ok h
  obtain ⟨a5, h5, h⟩ := bind_ok h
  intro q hq
  unfold requiredNames at hq
  simp only [List.mem_cons, List.not_mem_nil, or_false] at hq
  rcases hq with rfl | rfl | rfl | rfl | rfl
  · exact findRequired_ok_count l1 h1
  · exact findRequired_ok_count l2 h2
  · exact findRequired_ok_count l3 h3
  · exact findRequired_ok_count l4 h4
  · exact findRequired_ok_count l5 h5

/-- with default arguments the look-ups succeed only on a header whose reserved
columns are unique up to letter case -/
theorem lookupColumns_ok_headerOk {hdr : List Name} {k : Classified}
    (h : lookupColumns {} hdr = .ok k) : HeaderOk hdr := by
  refine ⟨lookupColumns_ok_required h, ?_⟩
  obtain ⟨_, _, _, _, _, _, _, _, l9, l10, l11, l12, l13⟩ := lower_lit
  unfold lookupColumns at h
  obtain ⟨a1, h1, h⟩ := bind_ok h
  obtain ⟨a2, h2, h⟩ := bind_ok h
  obtain ⟨a3, h3, h⟩ := bind_ok h
  obtain ⟨a4, h4, h⟩ := bind_ok h
  obtain ⟨a5, h5, h⟩ := bind_ok h
  obtain ⟨o1, g1, h⟩ := bind_ok h
  obtain ⟨o2, g2, h⟩ := bind_ok h
  obtain ⟨o3, g3, h⟩ := bind_ok h
  obtain ⟨o4, g4, h⟩ := bind_ok h
  obtain ⟨o5, g5, h⟩ := bind_ok h
  intro q hq
  unfold optionalNames at hq
  simp only [List.cons_append, List.nil_append, List.mem_cons, List.not_mem_nil, or_false] at hq
  rcases hq with rfl | rfl | rfl | rfl | rfl
  · exact findOptional_default_ok_count l9 g1
  · exact findOptional_default_ok_count l10 g2
  · exact findOptional_default_ok_count l11 g3
  · exact findOptional_default_ok_count l12 g4
  · exact findOptional_default_ok_count l13 g5

/-- a successful parse went through successful look-ups -/
theorem readPercolatorSched_ok_lookup {args : PinArgs} {c r : Nat} {t : Table}
    {order : List (List Name) → List (List Name)} {d : Dataset}
    (h : readPercolatorSched args c r t order = .ok d) : ∃ k, lookupColumns args t.header = .ok k := by
  unfold readPercolatorSched at h
  obtain ⟨k, hk, _⟩ := bind_ok h
  exact ⟨k, hk⟩

/-- `convert_targets_column` succeeds exactly on admissible label columns -/
theorem convertTargets_ok_iff (cells : List Cell) :
    (∃ bs, convertTargets cells = .ok bs) ↔ labelOk cells = true := by
  constructor
  · rintro ⟨bs, h⟩
    unfold convertTargets at h
    unfold labelOk
    by_cases hb : cells.all Cell.isBool = true
    · simp [hb]
    · rw [if_neg hb] at h
      by_cases hi : cells.all Cell.isInt = true
      · simp only [hi, Bool.not_true, Bool.false_eq_true, if_false] at h
        by_cases hr : (cells.any (fun c => c.intVal < -1) || cells.any (fun c => c.intVal > 1)) = true
        · rw [if_pos hr] at h; cases h
        · rw [Bool.or_eq_true]; right
          rw [List.all_eq_true]
          intro c hc
          have hci := List.all_eq_true.mp hi c hc
          rw [Bool.or_eq_true, not_or, List.any_eq_true, List.any_eq_true] at hr
          have h1 : ¬ c.intVal < -1 := fun hlt => hr.1 ⟨c, hc, by simpa using hlt⟩
          have h2 : ¬ c.intVal > 1 := fun hgt => hr.2 ⟨c, hc, by simpa using hgt⟩
          cases c with
          | int i =>
            simp only [Cell.intVal] at h1 h2
            have : i = 1 ∨ i = 0 ∨ i = -1 := by omega
            rcases this with rfl | rfl | rfl <;> decide
          | na => cases hci
          | bool b => cases hci
          | str s => cases hci
      · have : (!cells.all Cell.isInt) = true := by simpa using hi
        rw [if_pos this] at h; cases h
  · intro h
    exact ⟨_, convertTargets_ok h⟩

theorem bind_error {ε α β : Type} {x : Except ε α} {f : α → Except ε β} {e : ε}
    (h : x.bind f = .error e) : x = .error e ∨ ∃ a, x = .ok a ∧ f a = .error e := by
  cases x with
  | error e' => left; simpa [Except.bind] using h
  | ok a => right; exact ⟨a, rfl, h⟩

theorem requireOne_error_kind {l : List Name} {e : PinErr} (h : requireOne l = .error e) :
    e = .missing ∨ e = .ambiguous := by
  cases l with
  | nil => simp only [requireOne, Except.error.injEq] at h; left; exact h.symm
  | cons x rest =>
    cases rest with
    | nil => cases h
    | cons y r => simp only [requireOne, Except.error.injEq] at h; right; exact h.symm

theorem pickUnique_error_kind {b : Bool} {l : List Name} {e : PinErr} (h : pickUnique b l = .error e) :
    e = .missing ∨ e = .ambiguous := by
  cases l with
  | nil =>
    cases b
    · simp [pickUnique] at h
    · simp only [pickUnique, if_true, Except.error.injEq] at h; left; exact h.symm
  | cons x rest =>
    cases rest with
    | nil => cases h
    | cons y r => simp only [pickUnique, Except.error.injEq] at h; right; exact h.symm

/-- the look-ups only raise "not found" / "should be unique" -/
theorem lookupColumns_error_kind {args : PinArgs} {hdr : List Name} {e : PinErr}
    (h : lookupColumns args hdr = .error e) : e = .missing ∨ e = .ambiguous := by
  unfold lookupColumns at h
  rcases bind_error h with h | ⟨_, _, h⟩
  · exact requireOne_error_kind h
  rcases bind_error h with h | ⟨_, _, h⟩
  · exact requireOne_error_kind h
  rcases bind_error h with h | ⟨_, _, h⟩
  · exact requireOne_error_kind h
  rcases bind_error h with h | ⟨_, _, h⟩
  · exact requireOne_error_kind h
  rcases bind_error h with h | ⟨_, _, h⟩
  · exact requireOne_error_kind h
  rcases bind_error h with h | ⟨_, _, h⟩
  · exact pickUnique_error_kind h
  rcases bind_error h with h | ⟨_, _, h⟩
  · exact pickUnique_error_kind h
  rcases bind_error h with h | ⟨_, _, h⟩
  · exact pickUnique_error_kind h
  rcases bind_error h with h | ⟨_, _, h⟩
  · exact pickUnique_error_kind h
  rcases bind_error h with h | ⟨_, _, h⟩
  · exact pickUnique_error_kind h
  cases h

/-- if the look-ups fail, parsing fails with the same error -/
theorem readPercolatorSched_lookup_error {args : PinArgs} {c r : Nat} {t : Table}
    {order : List (List Name) → List (List Name)} {e : PinErr}
    (h : lookupColumns args t.header = .error e) : readPercolatorSched args c r t order = .error e := by
  unfold readPercolatorSched; rw [h]; rfl

theorem convertTargets_error_kind {cells : List Cell} {e : PinErr} (h : convertTargets cells = .error e) :
    e = .labelCast ∨ e = .labelRange := by
  unfold convertTargets at h
  split at h
  · cases h
  · split at h
    · simp only [Except.error.injEq] at h; left; exact h.symm
    · split at h
      · simp only [Except.error.injEq] at h; right; exact h.symm
      · cases h

/-- the column existence checks of the dataset constructor never fire (any arguments) -/
theorem readPercolatorSched_no_columnCheck (args : PinArgs) (c r : Nat) (t : Table)
    (order : List (List Name) → List (List Name)) :
    readPercolatorSched args c r t order ≠ .error .columnCheck := by
  intro h
  unfold readPercolatorSched at h
  rcases bind_error h with h | ⟨k, hk, h⟩
  · rcases lookupColumns_error_kind h with h | h <;> cases h
  · split at h
    · cases h
    · split at h
      · cases h
      · unfold assemble at h
        split at h
        · cases h
        · rcases bind_error h with h | ⟨tg, _, h⟩
          · rcases convertTargets_error_kind h with h | h <;> cases h
          · rw [datasetChecks_mkDataset t (lookupColumns_within hk)] at h
            simp at h

/-- executable well-formedness check = `WellFormed` -/
theorem wellFormedB_iff (t : Table) : wellFormedB t = true ↔ WellFormed t := by
  unfold wellFormedB
  simp only [Bool.and_eq_true, decide_eq_true_eq, List.all_eq_true, beq_iff_eq]
  constructor
  · rintro ⟨⟨⟨⟨⟨h1, h2⟩, h3⟩, h4⟩, h5⟩, h6⟩
    exact ⟨h1, h2, h3, h4, h5, h6⟩
  · rintro ⟨h1, h2, h3, h4, h5, h6⟩
    exact ⟨⟨⟨⟨⟨h1, h2⟩, h3⟩, h4⟩, h5⟩, h6⟩

/-- test helpers for `#guard` -/
def okEq (x : Except PinErr Dataset) (d : Dataset) : Bool :=
  match x with
  | .ok d' => decide (d' = d)
  | .error _ => false

def errEq (x : Except PinErr Dataset) (e : PinErr) : Bool :=
  match x with
  | .ok _ => false
  | .error e' => decide (e' = e)

end Mk.Pin
