import MokapotVerif.Model.BrewBlocks
import MokapotVerif.Lemmas.BrewRun
/-!
# Helper lemmas for the block-wise paths of C02 (`Model/BrewBlocks.lean`)
-/
namespace Mk.Brew

/-! ## `make_train_sets`, any block size -/

theorem trainFileCr_eq (cr ds : Nat) (fold : List Nat) : trainFileCr cr ds fold = trainFile ds fold := by
  unfold trainFileCr trainFile
  rw [complementLoop_eq, complementLoop_eq]

theorem foldEnumsCr_eq (cr : Nat) (testIdx : List (List (List Nat))) (dataSize : List Nat)
    (enum : Nat → Nat → List Nat → List Nat) (f : Nat) :
    foldEnumsCr cr testIdx dataSize enum f = foldEnums testIdx dataSize enum f := by
  unfold foldEnumsCr foldEnums
  simp only [trainFileCr_eq]

theorem makeTrainSetsCr_eq (cr : Nat) (testIdx : List (List (List Nat))) (cap : Option Nat)
    (dataSize : List Nat) (enum : Nat → Nat → List Nat → List Nat) (draw : Nat → Nat → Nat → List Nat) :
    makeTrainSetsCr cr testIdx cap dataSize enum draw = makeTrainSets testIdx cap dataSize enum draw := by
  unfold makeTrainSetsCr makeTrainSets
  simp only [foldEnumsCr_eq]

/-! ## pairing the reader's chunks with the routing chunks -/

theorem pairChunk_some {β : Type} (rc : List β) (ic : List Nat) (ch : List (β × Nat))
    (h : pairChunk rc ic = some ch) : rc.length = ic.length ∧ ch = rc.zip ic := by
  unfold pairChunk at h
  split at h
  · rename_i hl
    exact ⟨hl, (Option.some.inj h).symm⟩
  · exact absurd h (by simp)

theorem pairChunks_cons_some {β : Type} (rc : List β) (rcs : List (List β)) (ic : List Nat)
    (ics : List (List Nat)) (chs : List (List (β × Nat)))
    (h : pairChunks (rc :: rcs) (ic :: ics) = some chs) :
    ∃ rest, rc.length = ic.length ∧ pairChunks rcs ics = some rest ∧ chs = rc.zip ic :: rest := by
  simp only [pairChunks] at h
  cases hp : pairChunk rc ic with
  | none => rw [hp] at h; exact absurd h (by simp)
  | some ch =>
    rw [hp] at h
    simp only [Option.bind_some] at h
    cases hr : pairChunks rcs ics with
    | none => rw [hr] at h; exact absurd h (by simp)
    | some rest =>
      rw [hr] at h
      simp only [Option.map_some, Option.some.injEq] at h
      obtain ⟨hl, hch⟩ := pairChunk_some rc ic ch hp
      exact ⟨rest, hl, rfl, by rw [← h, hch]⟩

/-- the tagged chunks, concatenated, are the rows read zipped with the routing entries popped -/
theorem pairChunks_flatten {β : Type} : ∀ (rcs : List (List β)) (ics : List (List Nat))
    (chs : List (List (β × Nat))), pairChunks rcs ics = some chs →
    chs.flatten = rcs.flatten.zip ics.flatten := by
  intro rcs
  induction rcs with
  | nil =>
    intro ics chs h
    simp only [pairChunks, Option.some.injEq] at h
    subst h
    simp
  | cons rc rcs ih =>
    intro ics chs h
    cases ics with
    | nil => simp [pairChunks] at h
    | cons ic ics =>
      obtain ⟨rest, hl, hrest, rfl⟩ := pairChunks_cons_some rc rcs ic ics chs h
      simp only [List.flatten_cons]
      rw [ih ics rest hrest, List.zip_append hl]

/-- one tagged chunk per chunk read -/
theorem pairChunks_length {β : Type} : ∀ (rcs : List (List β)) (ics : List (List Nat))
    (chs : List (List (β × Nat))), pairChunks rcs ics = some chs → chs.length = rcs.length := by
  intro rcs
  induction rcs with
  | nil =>
    intro ics chs h
    simp only [pairChunks, Option.some.injEq] at h
    subst h
    rfl
  | cons rc rcs ih =>
    intro ics chs h
    cases ics with
    | nil => simp [pairChunks] at h
    | cons ic ics =>
      obtain ⟨rest, _, hrest, rfl⟩ := pairChunks_cons_some rc rcs ic ics chs h
      simp [ih ics rest hrest]

/-- the loop goes through exactly when the chunk lengths of the reader are an initial segment of
the chunk lengths of `create_chunks` -/
theorem pairChunks_isSome_iff {β : Type} : ∀ (rcs : List (List β)) (ics : List (List Nat)),
    (pairChunks rcs ics).isSome ↔ rcs.map List.length <+: ics.map List.length := by
  intro rcs
  induction rcs with
  | nil => intro ics; simp [pairChunks]
  | cons rc rcs ih =>
    intro ics
    cases ics with
    | nil => simp [pairChunks]
    | cons ic ics =>
      simp only [pairChunks, List.map_cons, List.cons_prefix_cons]
      rw [← ih ics]
      unfold pairChunk
      by_cases hl : rc.length = ic.length
      · rw [if_pos hl]
        simp [hl]
      · rw [if_neg hl]
        simp [hl]

/-! ## chunk lengths depend on the length only -/

theorem chunksFuel_lengths {β γ : Type} (c : Nat) : ∀ (fuel : Nat) (xs : List β) (ys : List γ),
    xs.length = ys.length →
    (chunksFuel c fuel xs).map List.length = (chunksFuel c fuel ys).map List.length := by
  intro fuel
  induction fuel with
  | zero => intro xs ys _; simp [chunksFuel]
  | succ n ih =>
    intro xs ys h
    cases xs with
    | nil =>
      have : ys = [] := List.eq_nil_of_length_eq_zero (by simpa using h.symm)
      subst this
      simp [chunksFuel]
    | cons x xs =>
      cases ys with
      | nil => simp at h
      | cons y ys =>
        simp only [chunksFuel, List.map_cons]
        rw [ih ((x :: xs).drop c) ((y :: ys).drop c) (by simp only [List.length_drop]; omega)]
        simp only [List.length_take]
        rw [h]

theorem chunks_lengths {β γ : Type} (c : Nat) (xs : List β) (ys : List γ) (h : xs.length = ys.length) :
    (chunks c xs).map List.length = (chunks c ys).map List.length := by
  unfold chunks
  rw [h]
  exact chunksFuel_lengths c ys.length xs ys h

/-! ## `predictChunks` -/

/-- the scores depend on the tagged chunks only through their concatenation -/
theorem predictChunks_congr {ρ σ : Type} [Inhabited σ] (nfolds n : Nat)
    (chs chs' : List (List ((Nat × ρ) × Nat))) (h : chs.flatten = chs'.flatten)
    (score : Nat → ρ → σ) (target : ρ → Bool) (cal : List (σ × Bool) → σ → σ) :
    predictChunks nfolds n chs score target cal = predictChunks nfolds n chs' score target cal := by
  unfold predictChunks
  simp only [foldRows_eq, h]

theorem predict_eq_predictChunks {ρ σ : Type} [Inhabited σ] (c nfolds : Nat) (rows : List ρ)
    (routing : List Nat) (score : Nat → ρ → σ) (target : ρ → Bool) (cal : List (σ × Bool) → σ → σ) :
    predict c nfolds rows routing score target cal =
      predictChunks nfolds rows.length (chunks c (tagged rows routing)) score target cal := rfl

theorem indexed_length {ρ : Type} (rows : List ρ) : (indexed rows).length = rows.length := by
  simp [indexed]

theorem sum_lengths_flatten {β : Type} (l : List (List β)) : (l.map List.length).sum = l.flatten.length := by
  rw [List.length_flatten]

theorem cutBy_flatten {β : Type} : ∀ (ls : List Nat) (xs : List β), xs.length ≤ ls.sum →
    (cutBy ls xs).flatten = xs := by
  intro ls
  induction ls with
  | nil =>
    intro xs h
    have : xs = [] := List.eq_nil_of_length_eq_zero (by simpa using h)
    simp [cutBy, this]
  | cons l ls ih =>
    intro xs h
    simp only [cutBy, List.flatten_cons]
    rw [ih (xs.drop l) (by simp only [List.length_drop, List.sum_cons] at *; omega)]
    exact List.take_append_drop l xs

/-! ## trained models given, fold number possibly absent -/

theorem pretrainedOpt_all_some {μ : Type} (ms : List (Nat × μ × Bool)) (folds : Nat) :
    pretrainedOpt (ms.map (fun m => (some m.1, m.2.1, m.2.2))) folds = pretrained ms folds := by
  unfold pretrainedOpt pretrained
  have hc : foldsComparable ((ms.map (fun m => ((some m.1 : Option Nat), m.2.1, m.2.2))).map (fun m => m.1)) = true := by
    unfold foldsComparable
    simp [List.all_map]
  rw [hc]
  simp only [List.length_map, List.all_map, List.map_map, if_true]
  rfl

end Mk.Brew
