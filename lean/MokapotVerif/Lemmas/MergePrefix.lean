import MokapotVerif.Lemmas.MergeSpec
/-! C14: what the table merger has yielded when it raises is a *prefix* of the complete
merge of the inputs cut at their first order violation. -/
namespace Mk.Merge
variable {α : Type}

/-- an open input cut at its first order violation (descending mode) -/
def truncSrc (le : α → α → Bool) (s : Src α) : Src α := (s.1, sortedPrefixFrom le true s.1 s.2)

theorem truncSrc_fst (le : α → α → Bool) (s : Src α) : (truncSrc le s).1 = s.1 := rfl

theorem nextSrc_trunc (le : α → α → Bool) (s : Src α) (hv : violates le true s = false) :
    nextSrc (truncSrc le s) = (nextSrc s).map (truncSrc le) := by
  obtain ⟨c, rest⟩ := s
  cases rest with
  | nil => simp [truncSrc, sortedPrefixFrom, nextSrc]
  | cons n rest =>
    have hnc : le n c = true := by simpa [violates] using hv
    simp [truncSrc, sortedPrefixFrom, nextSrc, hnc]

/-- the chosen index, with the explicit pieces of the state around it -/
theorem step_explicit (better : α → α → Bool) (st : List (Src α)) (h : st ≠ []) :
    ∃ s, srcAt st (argFirst better (st.map (·.1))) = [s] ∧
      advanceAt st (argFirst better (st.map (·.1))) =
        st.take (argFirst better (st.map (·.1))) ++ nextSrc s ++
          st.drop (argFirst better (st.map (·.1)) + 1) := by
  have hl := argFirst_lt better (st.map (·.1)) (by simpa using h)
  rw [List.length_map] at hl
  refine ⟨st[argFirst better (st.map (·.1))], srcAt_eq st _ hl, ?_⟩
  unfold advanceAt
  rw [srcAt_eq st _ hl]
  simp

/-- enough fuel is enough: the result does not depend on the fuel -/
theorem mergeLoop_fuel (le : α → α → Bool) :
    ∀ (f₁ f₂ : Nat) (st : List (Src α)), srcTotal st ≤ f₁ → srcTotal st ≤ f₂ →
      mergeLoop le f₁ st = mergeLoop le f₂ st := by
  intro f₁
  induction f₁ with
  | zero =>
    intro f₂ st h1 _
    have := srcTotal_eq_zero (Nat.le_zero.mp h1)
    subst this; rw [mergeLoop_nil, mergeLoop_nil]
  | succ n ih =>
    intro f₂ st h1 h2
    by_cases he : st = []
    · subst he; rw [mergeLoop_nil, mergeLoop_nil]
    · obtain ⟨A, s, B, hst, hcur, hadv⟩ := step_valid (ltMax le) st he
      have hstep := srcTotal_step A B s
      rw [← hst] at hstep
      obtain ⟨m, rfl⟩ : ∃ m, f₂ = m + 1 := ⟨f₂ - 1, by omega⟩
      rw [mergeLoop_unfold le n st A B s he hcur hadv, mergeLoop_unfold le m st A B s he hcur hadv,
        ih m _ (by omega) (by omega)]

/-- simulation: the checked loop runs like the plain merge of the truncated inputs until it raises -/
theorem checkedLoop_prefix (le : α → α → Bool) :
    ∀ (fuel : Nat) (st : List (Src α)),
      (checkedLoop le true fuel st).1 <+: mergeLoop le fuel (st.map (truncSrc le)) := by
  intro fuel
  induction fuel with
  | zero => intro st; simp [checkedLoop]
  | succ n ih =>
    intro st
    by_cases he : st = []
    · subst he; simp [checkedLoop]
    · obtain ⟨s, hcur, hadv⟩ := step_explicit (ltMax le) st he
      have hmap : (st.map (truncSrc le)).map (·.1) = st.map (·.1) := by
        simp [List.map_map, Function.comp_def, truncSrc_fst]
      have he' : st.map (truncSrc le) ≠ [] := by simpa using he
      have hcur' : srcAt (st.map (truncSrc le))
          (argFirst (ltMax le) ((st.map (truncSrc le)).map (·.1))) = [truncSrc le s] := by
        rw [hmap]
        have : srcAt (st.map (truncSrc le)) (argFirst (ltMax le) (st.map (·.1))) =
            (srcAt st (argFirst (ltMax le) (st.map (·.1)))).map (truncSrc le) := by
          simp [srcAt, List.map_take, List.map_drop]
        rw [this, hcur]; rfl
      have hadv' : advanceAt (st.map (truncSrc le))
          (argFirst (ltMax le) ((st.map (truncSrc le)).map (·.1))) =
          (st.take (argFirst (ltMax le) (st.map (·.1)))).map (truncSrc le) ++
            nextSrc (truncSrc le s) ++
            (st.drop (argFirst (ltMax le) (st.map (·.1)) + 1)).map (truncSrc le) := by
        rw [hmap]
        unfold advanceAt
        have : srcAt (st.map (truncSrc le)) (argFirst (ltMax le) (st.map (·.1))) = [truncSrc le s] := by
          rw [← hmap]; exact hcur'
        rw [this]
        simp [List.map_take, List.map_drop]
      rw [checkedLoop_unfold le n st _ _ s he hcur hadv,
        mergeLoop_unfold le n (st.map (truncSrc le)) _ _ (truncSrc le s) he' hcur' hadv']
      by_cases hv : violates le true s = true
      · rw [if_pos hv]
        simp [truncSrc_fst]
      · have hv' : violates le true s = false := by simpa using hv
        rw [if_neg hv, nextSrc_trunc le s hv']
        show s.1 :: _ <+: s.1 :: _
        rw [List.cons_prefix_cons]
        refine ⟨rfl, ?_⟩
        have := ih (st.take (argFirst (ltMax le) (st.map (·.1))) ++ nextSrc s ++
          st.drop (argFirst (ltMax le) (st.map (·.1)) + 1))
        simpa [List.map_append] using this

theorem openAll_trunc (le : α → α → Bool) (inputs : List (List α)) :
    (inputs.map (sortedPrefix le true)).flatMap openSrc =
      (inputs.flatMap openSrc).map (truncSrc le) := by
  induction inputs with
  | nil => rfl
  | cons xs rest ih =>
    cases xs with
    | nil => simpa [sortedPrefix, openSrc] using ih
    | cons x r => simp [sortedPrefix, openSrc, truncSrc, ih]

theorem sortedPrefix_isEmpty (le : α → α → Bool) (desc : Bool) (xs : List α) :
    (sortedPrefix le desc xs).isEmpty = xs.isEmpty := by
  cases xs <;> simp [sortedPrefix]

theorem srcTotal_trunc_le (le : α → α → Bool) (st : List (Src α)) :
    srcTotal (st.map (truncSrc le)) ≤ srcTotal st := by
  have hlen : ∀ (c : α) (rest : List α), (sortedPrefixFrom le true c rest).length ≤ rest.length := by
    intro c rest
    induction rest generalizing c with
    | nil => simp [sortedPrefixFrom]
    | cons n rest ih =>
      simp only [sortedPrefixFrom, ↓reduceIte]
      split
      · simp only [List.length_cons]; have := ih n; omega
      · simp
  induction st with
  | nil => simp [srcTotal]
  | cons s st ih =>
    have := hlen s.1 s.2
    simp only [srcTotal, List.map_cons, List.flatMap_cons, List.length_append, srcRows,
      List.length_cons, truncSrc] at ih ⊢
    omega

theorem sortedPrefix_asc (le : α → α → Bool) (xs : List α) :
    sortedPrefix le false xs = sortedPrefix (fun a b => le b a) true xs := by
  have h : ∀ (c : α) (rest : List α),
      sortedPrefixFrom le false c rest = sortedPrefixFrom (fun a b => le b a) true c rest := by
    intro c rest
    induction rest generalizing c with
    | nil => rfl
    | cons n rest ih => simp [sortedPrefixFrom, ih]
  cases xs with
  | nil => rfl
  | cons x r => simp [sortedPrefix, h]

/-- descending mode: the yielded rows are a prefix of the merge of the truncated inputs -/
theorem kmergeChecked_prefix_desc (le : α → α → Bool) (inputs : List (List α)) (out : List α)
    (err : Bool) (h : kmergeChecked le true inputs = some (out, err)) :
    ∃ full, kmerge le (inputs.map (sortedPrefix le true)) = some full ∧ out <+: full := by
  have hr := kmergeChecked_some h
  have hcond : (inputs.isEmpty || inputs.any List.isEmpty) = false := by
    cases hb : (inputs.isEmpty || inputs.any List.isEmpty) with
    | false => rfl
    | true => unfold kmergeChecked at h; rw [if_pos hb] at h; cases h
  have hcond' : ((inputs.map (sortedPrefix le true)).isEmpty ||
      (inputs.map (sortedPrefix le true)).any List.isEmpty) = false := by
    rw [← hcond]
    simp [List.any_map, Function.comp_def, sortedPrefix_isEmpty]
  refine ⟨_, by unfold kmerge; rw [if_neg (by rw [hcond']; exact Bool.false_ne_true)], ?_⟩
  have hout : out = (checkedLoop le true (srcTotal (inputs.flatMap openSrc))
      (inputs.flatMap openSrc)).1 := by rw [← hr]
  rw [hout, openAll_trunc]
  rw [mergeLoop_fuel le _ (srcTotal (inputs.flatMap openSrc)) _ (Nat.le_refl _)
    (srcTotal_trunc_le le _)]
  exact checkedLoop_prefix le _ _

end Mk.Merge
