import MokapotVerif.Lemmas.PepxmlPsm
import Mathlib.Order.Lattice
import Mathlib.Algebra.Order.Field.Rat
/-!
# Document level: nested generators, files, rejection, feature columns
-/
namespace Mk.Pepxml

/-! ### nested generators = comprehension over the hits -/

theorem parseSpectrum_eq (pfx file : Str) (s : Spectrum) :
    parseSpectrum pfx file s = s.results.flatten.map (parsePsm pfx (specInfo file s)) := by
  simp [parseSpectrum, List.flatMap_def, List.map_flatten]

theorem fileRows_nil (pfx : Str) : fileRows pfx [] = [] := rfl

theorem fileRows_cons (pfx : Str) (r : Run) (runs : List Run) :
    fileRows pfx (r :: runs) = (parseRun pfx r).flatten ++ fileRows pfx runs := by
  simp [fileRows]

theorem fileRows_append (pfx : Str) (xs ys : List Run) :
    fileRows pfx (xs ++ ys) = fileRows pfx xs ++ fileRows pfx ys := by
  simp [fileRows]

theorem parseSpectrum_ctx (pfx : Str) (r : Run) (s : Spectrum) :
    parseSpectrum pfx (dataFile r) s = (s.results.flatten.map (fun h => (r, s, h))).map (psmOf pfx) := by
  rw [parseSpectrum_eq, List.map_map]
  rfl

theorem runRows_eq (pfx : Str) (r : Run) :
    (parseRun pfx r).flatten
      = (r.spectra.flatMap (fun s => s.results.flatten.map (fun h => (r, s, h)))).map (psmOf pfx) := by
  unfold parseRun
  induction r.spectra with
  | nil => simp
  | cons s ss ih =>
    rw [List.map_cons, List.flatten_cons, List.flatMap_cons, List.map_append, ih, parseSpectrum_ctx]

theorem fileRows_eq (pfx : Str) (runs : List Run) :
    fileRows pfx runs = (hitContexts runs).map (psmOf pfx) := by
  induction runs with
  | nil => rfl
  | cons r runs ih =>
    rw [fileRows_cons, ih, runRows_eq]
    simp [hitContexts]

theorem length_parseSpectrum (pfx file : Str) (s : Spectrum) :
    (parseSpectrum pfx file s).length = hitsOfSpectrum s := by
  rw [parseSpectrum_eq, List.length_map, List.length_flatten]
  rfl

theorem length_runRows (pfx : Str) (r : Run) : (parseRun pfx r).flatten.length = hitsOfRun r := by
  simp only [parseRun, hitsOfRun, List.length_flatten, List.map_map]
  congr 1
  apply List.map_congr_left
  intro s _
  exact length_parseSpectrum pfx _ s

theorem length_fileRows (pfx : Str) (runs : List Run) : (fileRows pfx runs).length = hitsOfRuns runs := by
  induction runs with
  | nil => rfl
  | cons r runs ih =>
    rw [fileRows_cons, List.length_append, ih, length_runRows]
    simp [hitsOfRuns]

theorem getElem?_prefix {α : Type} (A : List α) (x : α) (B : List α) (n : Nat) (h : A.length = n) :
    (A ++ x :: B)[n]? = some x := by
  subst h; simp

/-- the row at position "number of hits before it in document order" is the PSM of that hit -/
theorem fileRows_at (pfx : Str) (R₁ R₂ : List Run) (run : Run) (S₁ S₂ : List Spectrum) (sp : Spectrum)
    (Q₁ Q₂ : List (List Hit)) (H₁ H₂ : List Hit) (hit : Hit)
    (hs : run.spectra = S₁ ++ sp :: S₂) (hq : sp.results = Q₁ ++ (H₁ ++ hit :: H₂) :: Q₂) :
    (fileRows pfx (R₁ ++ run :: R₂))[hitsOfRuns R₁ + ((S₁.map hitsOfSpectrum).sum
        + ((Q₁.map List.length).sum + H₁.length))]?
      = some (psmOf pfx (run, sp, hit)) := by
  have hsp : parseSpectrum pfx (dataFile run) sp
      = ((Q₁.flatten.map (parsePsm pfx (specInfo (dataFile run) sp))
          ++ H₁.map (parsePsm pfx (specInfo (dataFile run) sp)))
        ++ psmOf pfx (run, sp, hit)
          :: (H₂.map (parsePsm pfx (specInfo (dataFile run) sp))
              ++ Q₂.flatten.map (parsePsm pfx (specInfo (dataFile run) sp)))) := by
    rw [parseSpectrum_eq, hq]
    simp [psmOf]
  have hrun : (parseRun pfx run).flatten
      = ((S₁.map (parseSpectrum pfx (dataFile run))).flatten ++
          (Q₁.flatten.map (parsePsm pfx (specInfo (dataFile run) sp))
            ++ H₁.map (parsePsm pfx (specInfo (dataFile run) sp))))
        ++ psmOf pfx (run, sp, hit)
          :: ((H₂.map (parsePsm pfx (specInfo (dataFile run) sp))
              ++ Q₂.flatten.map (parsePsm pfx (specInfo (dataFile run) sp)))
              ++ (S₂.map (parseSpectrum pfx (dataFile run))).flatten) := by
    simp only [parseRun, hs, List.map_append, List.map_cons, List.flatten_append, List.flatten_cons, hsp]
    simp [List.append_assoc]
  have hall : fileRows pfx (R₁ ++ run :: R₂)
      = (fileRows pfx R₁ ++ ((S₁.map (parseSpectrum pfx (dataFile run))).flatten ++
          (Q₁.flatten.map (parsePsm pfx (specInfo (dataFile run) sp))
            ++ H₁.map (parsePsm pfx (specInfo (dataFile run) sp)))))
        ++ psmOf pfx (run, sp, hit)
          :: (((H₂.map (parsePsm pfx (specInfo (dataFile run) sp))
              ++ Q₂.flatten.map (parsePsm pfx (specInfo (dataFile run) sp)))
              ++ (S₂.map (parseSpectrum pfx (dataFile run))).flatten) ++ fileRows pfx R₂) := by
    rw [fileRows_append, fileRows_cons, hrun]
    simp [List.append_assoc]
  rw [hall]
  apply getElem?_prefix
  simp only [List.length_append, length_fileRows, List.length_map, List.length_flatten, List.map_map]
  congr 2
  congr 1
  apply List.map_congr_left
  intro s _
  exact length_parseSpectrum pfx _ s

/-! ### files -/

theorem parseFiles_docs (pfx : Str) (runss : List (List Run)) (h : ∀ runs ∈ runss, fileRows pfx runs ≠ []) :
    parseFiles pfx (runss.map File.doc) = .ok (runss.map (fun runs => frameOf (fileRows pfx runs))) := by
  induction runss with
  | nil => rfl
  | cons runs rest ih =>
    have h1 : (fileRows pfx runs).isEmpty = false := by
      simpa [List.isEmpty_iff] using h runs (by simp)
    simp [parseFiles, parseFile, h1, ih (fun r hr => h r (by simp [hr])), Except.bind, Except.map]

theorem parseFiles_malformed (pfx : Str) (good : List (List Run)) (rest : List File)
    (h : ∀ runs ∈ good, fileRows pfx runs ≠ []) :
    parseFiles pfx (good.map File.doc ++ File.malformed :: rest) = .error .notXml := by
  induction good with
  | nil => simp [parseFiles, parseFile, Except.bind]
  | cons runs more ih =>
    have h1 : (fileRows pfx runs).isEmpty = false := by
      simpa [List.isEmpty_iff] using h runs (by simp)
    simp [parseFiles, parseFile, h1, ih (fun r hr => h r (by simp [hr])), Except.bind, Except.map]

theorem parseFiles_noPsms (pfx : Str) (good : List (List Run)) (runs : List Run) (rest : List File)
    (h : ∀ runs ∈ good, fileRows pfx runs ≠ []) (he : fileRows pfx runs = []) :
    parseFiles pfx (good.map File.doc ++ File.doc runs :: rest) = .error .noPsms := by
  induction good with
  | nil => simp [parseFiles, parseFile, he, Except.bind]
  | cons r more ih =>
    have h1 : (fileRows pfx r).isEmpty = false := by
      simpa [List.isEmpty_iff] using h r (by simp)
    simp [parseFiles, parseFile, h1, ih (fun r hr => h r (by simp [hr])), Except.bind, Except.map]

/-- every list of files is of exactly one of the three shapes above -/
theorem files_shape (pfx : Str) (files : List File) :
    (∃ runss : List (List Run), files = runss.map File.doc ∧ ∀ runs ∈ runss, fileRows pfx runs ≠ []) ∨
    (∃ (good : List (List Run)) (rest : List File),
        files = good.map File.doc ++ File.malformed :: rest ∧ ∀ runs ∈ good, fileRows pfx runs ≠ []) ∨
    (∃ (good : List (List Run)) (runs : List Run) (rest : List File),
        files = good.map File.doc ++ File.doc runs :: rest ∧
        (∀ runs ∈ good, fileRows pfx runs ≠ []) ∧ fileRows pfx runs = []) := by
  induction files with
  | nil => exact Or.inl ⟨[], rfl, by simp⟩
  | cons f fs ih =>
    cases f with
    | malformed => exact Or.inr (Or.inl ⟨[], fs, rfl, by simp⟩)
    | doc runs =>
      by_cases he : fileRows pfx runs = []
      · exact Or.inr (Or.inr ⟨[], runs, fs, rfl, by simp, he⟩)
      · rcases ih with ⟨runss, rfl, h⟩ | ⟨good, rest, rfl, h⟩ | ⟨good, r, rest, rfl, h, he'⟩
        · exact Or.inl ⟨runs :: runss, rfl, by
            intro r hr
            rcases List.mem_cons.mp hr with rfl | hr
            · exact he
            · exact h r hr⟩
        · exact Or.inr (Or.inl ⟨runs :: good, rest, rfl, by
            intro r hr
            rcases List.mem_cons.mp hr with rfl | hr
            · exact he
            · exact h r hr⟩)
        · exact Or.inr (Or.inr ⟨runs :: good, r, rest, rfl, by
            intro r' hr
            rcases List.mem_cons.mp hr with rfl | hr
            · exact he
            · exact h r' hr, he'⟩)

theorem concat_rows (pfx : Str) (runss : List (List Run)) :
    (concatFrames (runss.map (fun runs => frameOf (fileRows pfx runs)))).rows
      = runss.flatMap (fileRows pfx) := by
  simp [concatFrames, frameOf, List.flatMap_def, List.map_map, Function.comp_def]

theorem mem_concat_cols (pfx : Str) (runss : List (List Run)) (k : String) :
    k ∈ (concatFrames (runss.map (fun runs => frameOf (fileRows pfx runs)))).cols
      ↔ ∃ runs ∈ runss, ∃ row ∈ fileRows pfx runs, k ∈ rowKeys row := by
  simp only [concatFrames, mem_unionKeys, List.mem_flatMap, List.mem_map, frameOf]
  constructor
  · rintro ⟨fr, ⟨runs, hr, rfl⟩, hk⟩
    simp only [mem_unionKeys, List.mem_flatMap] at hk
    exact ⟨runs, hr, hk⟩
  · rintro ⟨runs, hr, row, hrow, hk⟩
    refine ⟨_, ⟨runs, hr, rfl⟩, ?_⟩
    simp only [mem_unionKeys, List.mem_flatMap]
    exact ⟨row, hrow, hk⟩

theorem mem_optFeat (k k' : String) (v : Option Int) (h : k' ∈ (optFeat k v).map (·.1)) : k' = k := by
  cases v <;> simp_all [optFeat]

theorem mem_initFeats_keys (h : Hit) (k : String) (hk : k ∈ (initFeats h).map (·.1)) :
    k = "missed_cleavages" ∨ k = "ntt" ∨ k = "num_matched_peptides" := by
  simp only [initFeats, List.map_append, List.mem_append] at hk
  rcases hk with hk | hk | hk
  · exact Or.inl (mem_optFeat _ _ _ hk)
  · exact Or.inr (Or.inl (mem_optFeat _ _ _ hk))
  · exact Or.inr (Or.inr (mem_optFeat _ _ _ hk))

theorem parsePsm_feats (pfx : Str) (si : SpecInfo) (h : Hit) :
    (parsePsm pfx si h).feats = (scoresOf h).foldl scoreStep (initFeats h) := by
  simp [parsePsm, finishPsm, foldl_childStep_feats, initPsm, scoresOf]

theorem mem_rowKeys_parsePsm (pfx : Str) (si : SpecInfo) (h : Hit) (k : String) :
    k ∈ rowKeys (parsePsm pfx si h) ↔ k ∈ (initFeats h).map (·.1) ∨ k ∈ (scoresOf h).map (·.1) := by
  rw [rowKeys, parsePsm_feats, keys_foldl_scoreStep, mem_foldl_addKey]

theorem illegal_mem_cols (pfx : Str) (runss : List (List Run)) (k : String) (hk : k ∈ illegalCols) :
    k ∈ (concatFrames (runss.map (fun runs => frameOf (fileRows pfx runs)))).cols
      ↔ ∃ runs ∈ runss, ∃ c ∈ hitContexts runs, k ∈ (scoresOf c.2.2).map (·.1) := by
  have hnot : ∀ h : Hit, k ∉ (initFeats h).map (·.1) := by
    intro h hin
    have := mem_initFeats_keys h k hin
    simp only [illegalCols, List.mem_cons, List.not_mem_nil, or_false] at hk
    rcases hk with rfl | rfl | rfl <;> simp at this
  rw [mem_concat_cols]
  constructor
  · rintro ⟨runs, hr, row, hrow, hkr⟩
    rw [fileRows_eq, List.mem_map] at hrow
    obtain ⟨c, hc, rfl⟩ := hrow
    rw [psmOf, mem_rowKeys_parsePsm] at hkr
    exact ⟨runs, hr, c, hc, hkr.resolve_left (hnot _)⟩
  · rintro ⟨runs, hr, c, hc, hkc⟩
    refine ⟨runs, hr, psmOf pfx c, ?_, ?_⟩
    · rw [fileRows_eq]; exact List.mem_map_of_mem hc
    · rw [psmOf, mem_rowKeys_parsePsm]; exact Or.inr hkc

theorem readPepxml_docs (pfx : Str) (runss : List (List Run)) (hne : runss ≠ [])
    (h : ∀ runs ∈ runss, fileRows pfx runs ≠ []) :
    readPepxml pfx (runss.map File.doc)
      = if illegalCols.any (fun c =>
            (concatFrames (runss.map (fun runs => frameOf (fileRows pfx runs)))).cols.contains c)
        then .error .percolator
        else .ok (postProcess (concatFrames (runss.map (fun runs => frameOf (fileRows pfx runs))))) := by
  have : (runss.map (fun runs => frameOf (fileRows pfx runs))).isEmpty = false := by
    cases runss with
    | nil => exact absurd rfl hne
    | cons a b => rfl
  simp [readPepxml, parseFiles_docs pfx runss h, Except.bind, checkFrames, this]

theorem any_illegal_iff (pfx : Str) (runss : List (List Run)) :
    illegalCols.any (fun c =>
        (concatFrames (runss.map (fun runs => frameOf (fileRows pfx runs)))).cols.contains c) = true
      ↔ hasPercolatorScore runss := by
  rw [List.any_eq_true]
  unfold hasPercolatorScore
  constructor
  · rintro ⟨k, hk, hc⟩
    rw [List.contains_iff_mem] at hc
    exact ⟨k, hk, (illegal_mem_cols pfx runss k hk).mp hc⟩
  · rintro ⟨k, hk, hx⟩
    exact ⟨k, hk, by rw [List.contains_iff_mem]; exact (illegal_mem_cols pfx runss k hk).mpr hx⟩

/-! ### feature columns -/

theorem length_logFeature (col : Col) : (logFeature col).length = col.length := by
  unfold logFeature sciBranch stdBranch
  simp only []
  split_ifs <;> simp

/-- `_log_features` treats a column uniformly: one cell map for the whole column -/
theorem logFeature_uniform (col : Col) :
    ∃ f : Option Num → FV, (f = plainCell ∨ f = sciCell ∨ ∃ m, f = logCell m) ∧ logFeature col = col.map f := by
  unfold logFeature sciBranch stdBranch
  simp only []
  split_ifs
  · exact ⟨sciCell, Or.inr (Or.inl rfl), rfl⟩
  all_goals first
    | exact ⟨plainCell, Or.inl rfl, rfl⟩
    | exact ⟨logCell _, Or.inr (Or.inr ⟨_, rfl⟩), rfl⟩

theorem plainCell_missing (c : Option Num) : plainCell c = FV.missing ↔ c = none := by
  cases c <;> simp [plainCell]

theorem sciCell_missing (c : Option Num) : sciCell c = FV.missing ↔ c = none := by
  cases c <;> simp [sciCell]

theorem logCell_missing (m : Rat) (c : Option Num) : logCell m c = FV.missing ↔ c = none := by
  cases c with
  | none => simp [logCell]
  | some n =>
    simp only [logCell, Option.map_some, Option.getD_some, reduceCtorEq, iff_false]
    split <;> simp

/-- a feature cell is missing exactly where the raw cell is missing -/
theorem logFeature_missing (col : Col) (i : Nat) :
    (logFeature col)[i]? = some FV.missing ↔ col[i]? = some none := by
  obtain ⟨f, hf, he⟩ := logFeature_uniform col
  rw [he, List.getElem?_map]
  have hfm : ∀ c, f c = FV.missing ↔ c = none := by
    rcases hf with rfl | rfl | ⟨m, rfl⟩
    · exact plainCell_missing
    · exact sciCell_missing
    · exact logCell_missing m
  cases hc : col[i]? with
  | none => simp
  | some c => simp [hfm]

end Mk.Pepxml
