import MokapotVerif.Model.Confidence
import Mathlib.Data.List.Basic
import Mathlib.Data.List.Nodup
import Mathlib.Data.List.Perm.Basic
import Mathlib.Tactic.Linarith
/-! Helper lemmas for C03: first-seen de-duplication on a best-first sorted
stream keeps exactly one, highest-scoring, row per key. -/
namespace Mk

def SortedRows (l : List Row) : Prop := l.Pairwise (fun a b => b.score ≤ a.score)

theorem dedupFirst_sublist (key : Row → Nat) : ∀ (xs : List Row) (seen : List Nat),
    (dedupFirst key seen xs).Sublist xs := by
  intro xs
  induction xs with
  | nil => intro seen; simp [dedupFirst]
  | cons r rest ih =>
    intro seen
    simp only [dedupFirst]
    split
    · exact (ih seen).cons r
    · exact (ih _).cons₂ r

theorem dedupFirst_key_not_seen (key : Row → Nat) : ∀ (xs : List Row) (seen : List Nat),
    ∀ o ∈ dedupFirst key seen xs, key o ∉ seen := by
  intro xs
  induction xs with
  | nil => intro seen o ho; simp [dedupFirst] at ho
  | cons r rest ih =>
    intro seen o ho
    simp only [dedupFirst] at ho
    split at ho
    · exact ih seen o ho
    · rename_i hns
      rcases List.mem_cons.mp ho with rfl | ho
      · simpa using hns
      · have := ih _ o ho
        intro hmem
        exact this (List.mem_cons_of_mem _ hmem)

theorem dedupFirst_nodup (key : Row → Nat) : ∀ (xs : List Row) (seen : List Nat),
    ((dedupFirst key seen xs).map key).Nodup := by
  intro xs
  induction xs with
  | nil => intro seen; simp [dedupFirst]
  | cons r rest ih =>
    intro seen
    simp only [dedupFirst]
    split
    · exact ih seen
    · rw [List.map_cons, List.nodup_cons]
      refine ⟨?_, ih _⟩
      intro hmem
      obtain ⟨o, ho, hk⟩ := List.mem_map.mp hmem
      exact dedupFirst_key_not_seen key rest (key r :: seen) o ho (by simp [hk])

/-- every row whose key is not in `seen` is represented by a row of the output
with the same key that stands at or before it in the stream -/
theorem dedupFirst_covers (key : Row → Nat) : ∀ (xs : List Row) (seen : List Nat),
    SortedRows xs → ∀ r ∈ xs, key r ∉ seen →
      ∃ o ∈ dedupFirst key seen xs, key o = key r ∧ r.score ≤ o.score := by
  intro xs
  induction xs with
  | nil => intro seen _ r hr; simp at hr
  | cons x rest ih =>
    intro seen hs r hr hns
    have hs' : SortedRows rest := (List.pairwise_cons.mp hs).2
    have hhead : ∀ y ∈ rest, y.score ≤ x.score := (List.pairwise_cons.mp hs).1
    simp only [dedupFirst]
    split
    · rename_i hx
      rcases List.mem_cons.mp hr with rfl | hr'
      · exact absurd (by simpa using hx) hns
      · exact ih seen hs' r hr' hns
    · rename_i hx
      by_cases hk : key r = key x
      · refine ⟨x, by simp, hk.symm, ?_⟩
        rcases List.mem_cons.mp hr with rfl | hr'
        · exact le_refl _
        · exact hhead r hr'
      · have hr' : r ∈ rest := by
          rcases List.mem_cons.mp hr with rfl | h
          · exact absurd rfl hk
          · exact h
        have hns' : key r ∉ key x :: seen := by
          intro h
          rcases List.mem_cons.mp h with h | h
          · exact hk h
          · exact hns h
        obtain ⟨o, ho, h1, h2⟩ := ih (key x :: seen) hs' r hr' hns'
        exact ⟨o, List.mem_cons_of_mem _ ho, h1, h2⟩

theorem SortedRows.sublist {l l' : List Row} (h : l'.Sublist l) (hs : SortedRows l) : SortedRows l' :=
  List.Pairwise.sublist h hs

/-- first-seen de-duplication of a best-first sorted stream meets the level specification -/
theorem dedupFirst_levelSpec (key : Row → Nat) (xs : List Row) (hs : SortedRows xs) :
    LevelSpec key xs (dedupFirst key [] xs) := by
  refine ⟨SortedRows.sublist (dedupFirst_sublist key xs []) hs, dedupFirst_nodup key xs [], ?_, ?_⟩
  · intro r hr; exact (dedupFirst_sublist key xs []).subset hr
  · intro r hr; exact dedupFirst_covers key xs [] hs r hr (by simp)

/-! ### the streaming scan equals the per-level description -/

theorem foldl_levelStep (l : Nat) : ∀ (xs : List Row) (p : LvlState),
    xs.foldl (levelStep l) p =
      ((xs.foldl (levelStep l) p).1,
        (dedupFirst (fun r => r.key l) p.1 xs).reverse ++ p.2) := by
  intro xs
  induction xs with
  | nil => intro p; simp [dedupFirst]
  | cons r rest ih =>
    intro p
    simp only [List.foldl_cons]
    rw [ih]
    simp only [dedupFirst, levelStep]
    split <;> simp

theorem levelStep_snd (l : Nat) (xs : List Row) (p : LvlState) :
    (xs.foldl (levelStep l) p).2 = (dedupFirst (fun r => r.key l) p.1 xs).reverse ++ p.2 := by
  rw [foldl_levelStep]

end Mk

namespace Mk

/-- rows retained at the PSM level from a stream, given the spectra already seen -/
def psmFrom (dedup : Bool) (seen : List Nat) (xs : List Row) : List Row :=
  if dedup then dedupFirst Row.spec seen xs else xs

theorem scan_fold_outPsm (dedup : Bool) : ∀ (xs : List Row) (st : ScanState),
    (xs.foldl (scanStep dedup) st).outPsm = (psmFrom dedup st.seenPsm xs).reverse ++ st.outPsm := by
  intro xs
  induction xs with
  | nil => intro st; cases dedup <;> simp [psmFrom, dedupFirst]
  | cons x rest ih =>
    intro st
    simp only [List.foldl_cons]
    rw [ih]
    cases dedup
    · simp [scanStep, psmFrom]
    · by_cases hx : x.spec ∈ st.seenPsm
      · simp [scanStep, psmFrom, dedupFirst, hx]
      · simp [scanStep, psmFrom, dedupFirst, hx]

theorem mapIdx_self {β : Type} (l : List β) : l.mapIdx (fun _ p => p) = l := by
  apply List.ext_getElem <;> simp

theorem scan_fold_lvls (dedup : Bool) : ∀ (xs : List Row) (st : ScanState),
    (xs.foldl (scanStep dedup) st).lvls
      = st.lvls.mapIdx (fun l p => (psmFrom dedup st.seenPsm xs).foldl (levelStep l) p) := by
  intro xs
  induction xs with
  | nil => intro st; cases dedup <;> simp [psmFrom, dedupFirst, mapIdx_self]
  | cons x rest ih =>
    intro st
    simp only [List.foldl_cons]
    rw [ih]
    cases dedup
    · simp only [scanStep, psmFrom, Bool.false_and, Bool.false_eq_true, if_false, List.foldl_cons]
      apply List.ext_getElem <;> simp
    · by_cases hx : x.spec ∈ st.seenPsm
      · simp [scanStep, psmFrom, dedupFirst, hx]
      · simp only [scanStep, psmFrom, Bool.true_and, List.contains_eq_mem, hx, decide_false,
          Bool.false_eq_true, if_false, if_true, dedupFirst, List.foldl_cons]
        apply List.ext_getElem <;> simp

/-- the streaming scan writes, per level, exactly the first-seen rows: PSM level
over the merged stream, every roll-up level over the rows retained at the PSM level -/
theorem scan_eq_levels (dedup : Bool) (n : Nat) (merged : List Row) :
    scan dedup n merged
      = (psmLevel dedup merged, (List.range n).map (rollupLevel dedup merged)) := by
  unfold scan
  simp only [scan_fold_outPsm, scan_fold_lvls, scanInit, List.append_nil, List.reverse_reverse]
  congr 1
  apply List.ext_getElem
  · simp
  · intro i h1 h2
    simp only [List.getElem_map, List.getElem_mapIdx, List.getElem_replicate, List.getElem_range]
    rw [levelStep_snd]
    simp [rollupLevel, psmLevel, psmFrom]

end Mk

namespace Mk

theorem chunksFuel_flatten {β : Type} (c : Nat) (hc : 0 < c) : ∀ (fuel : Nat) (xs : List β),
    xs.length ≤ fuel → (chunksFuel c fuel xs).flatten = xs := by
  intro fuel
  induction fuel with
  | zero => intro xs h; have : xs = [] := List.eq_nil_of_length_eq_zero (by omega); simp [this, chunksFuel]
  | succ n ih =>
    intro xs h
    cases xs with
    | nil => simp [chunksFuel]
    | cons x rest =>
      simp only [chunksFuel, List.flatten_cons]
      rw [ih]
      · exact List.take_append_drop c (x :: rest)
      · simp only [List.length_drop, List.length_cons] at *; omega

theorem chunksOf_flatten {β : Type} (c : Nat) (hc : 0 < c) (xs : List β) :
    (chunksOf c xs).flatten = xs := chunksFuel_flatten c hc xs.length xs (le_refl _)

theorem forall₂_mem_left {β γ : Type} {R : β → γ → Prop} {l₁ : List β} {l₂ : List γ}
    (h : List.Forall₂ R l₁ l₂) : ∀ a ∈ l₁, ∃ b ∈ l₂, R a b := by
  induction h with
  | nil => intro a ha; simp at ha
  | cons hab _ ih =>
    intro a ha
    rcases List.mem_cons.mp ha with rfl | ha
    · exact ⟨_, by simp, hab⟩
    · obtain ⟨b, hb, hr⟩ := ih a ha
      exact ⟨b, List.mem_cons_of_mem _ hb, hr⟩

theorem forall₂_mem_right {β γ : Type} {R : β → γ → Prop} {l₁ : List β} {l₂ : List γ}
    (h : List.Forall₂ R l₁ l₂) : ∀ b ∈ l₂, ∃ a ∈ l₁, R a b := by
  induction h with
  | nil => intro b hb; simp at hb
  | cons hab _ ih =>
    intro b hb
    rcases List.mem_cons.mp hb with rfl | hb
    · exact ⟨_, by simp, hab⟩
    · obtain ⟨a, ha, hr⟩ := ih b hb
      exact ⟨a, List.mem_cons_of_mem _ ha, hr⟩

/-- what one temporary chunk file is allowed to be: some best-first arrangement of
the chunk (whatever `sort_values` does with ties), de-duplicated iff `dedup` -/
def IsChunkFile (dedup : Bool) (ch f : List Row) : Prop :=
  ∃ s, s.Perm ch ∧ SortedRows s ∧ f = chunkFile dedup s

end Mk
