import MokapotVerif.Model.ConfidenceToolKey
import MokapotVerif.Lemmas.ConfidenceKey
import MokapotVerif.Lemmas.Confidence
/-! Helper lemmas for the seen-set of the roll-up tool on cells (C03). -/
namespace Mk

theorem toolDedupBy_sublist {α κ : Type} [DecidableEq κ] (key : α → κ) : ∀ (xs : List α) (seen : List κ),
    (toolDedupBy key seen xs).Sublist xs := by
  intro xs
  induction xs with
  | nil => intro seen; simp [toolDedupBy]
  | cons r rest ih =>
    intro seen
    simp only [toolDedupBy]
    split
    · exact (ih seen).cons r
    · exact (ih _).cons_cons r

theorem toolDedupBy_key_not_seen {α κ : Type} [DecidableEq κ] (key : α → κ) : ∀ (xs : List α) (seen : List κ),
    ∀ o ∈ toolDedupBy key seen xs, key o ∉ seen := by
  intro xs
  induction xs with
  | nil => intro seen o ho; simp [toolDedupBy] at ho
  | cons r rest ih =>
    intro seen o ho
    simp only [toolDedupBy] at ho
    split at ho
    · exact ih seen o ho
    · rename_i hns
      rcases List.mem_cons.mp ho with rfl | ho
      · simpa using hns
      · have := ih _ o ho
        intro hmem
        exact this (List.mem_cons_of_mem _ hmem)

theorem toolDedupBy_nodup {α κ : Type} [DecidableEq κ] (key : α → κ) : ∀ (xs : List α) (seen : List κ),
    ((toolDedupBy key seen xs).map key).Nodup := by
  intro xs
  induction xs with
  | nil => intro seen; simp [toolDedupBy]
  | cons r rest ih =>
    intro seen
    simp only [toolDedupBy]
    split
    · exact ih seen
    · rw [List.map_cons, List.nodup_cons]
      refine ⟨?_, ih _⟩
      intro hmem
      obtain ⟨o, ho, hk⟩ := List.mem_map.mp hmem
      exact toolDedupBy_key_not_seen key rest (key r :: seen) o ho (by simp [hk])

/-- every row whose key is not in `seen` is represented by an output row of the same key standing
at or before it: with a best-first stream, one scoring at least as well -/
theorem toolDedupBy_covers {α κ : Type} [DecidableEq κ] (key : α → κ) (score : α → Int) :
    ∀ (xs : List α) (seen : List κ),
    xs.Pairwise (fun a b => score b ≤ score a) → ∀ r ∈ xs, key r ∉ seen →
      ∃ o ∈ toolDedupBy key seen xs, key o = key r ∧ score r ≤ score o := by
  intro xs
  induction xs with
  | nil => intro seen _ r hr; simp at hr
  | cons x rest ih =>
    intro seen hs r hr hns
    have hs' := (List.pairwise_cons.mp hs).2
    have hhead : ∀ y ∈ rest, score y ≤ score x := (List.pairwise_cons.mp hs).1
    simp only [toolDedupBy]
    split
    · rename_i hx
      rcases List.mem_cons.mp hr with rfl | hr'
      · exact absurd (by simpa using hx) hns
      · exact ih seen hs' r hr' hns
    · rename_i hx
      by_cases hk : key r = key x
      · refine ⟨x, by simp, hk.symm, ?_⟩
        rcases List.mem_cons.mp hr with rfl | hr'
        · exact le_refl _
        · exact hhead r hr'
      · have hr' : r ∈ rest := by
          rcases List.mem_cons.mp hr with rfl | h
          · exact absurd rfl hk
          · exact h
        have hns' : key r ∉ key x :: seen := by
          intro h
          rcases List.mem_cons.mp h with h | h
          · exact hk h
          · exact hns h
        obtain ⟨o, ho, h1, h2⟩ := ih (key x :: seen) hs' r hr' hns'
        exact ⟨o, List.mem_cons_of_mem _ ho, h1, h2⟩

/-- **two keys that identify the same rows retain the same rows**: `pre` are the rows met so far -/
theorem toolDedupBy_congr {α κ₁ κ₂ : Type} [DecidableEq κ₁] [DecidableEq κ₂] (k₁ : α → κ₁) (k₂ : α → κ₂) :
    ∀ (xs pre : List α), (∀ a ∈ pre ++ xs, ∀ b ∈ pre ++ xs, (k₁ a = k₁ b ↔ k₂ a = k₂ b)) →
      toolDedupBy k₁ (pre.map k₁) xs = toolDedupBy k₂ (pre.map k₂) xs := by
  intro xs
  induction xs with
  | nil => intro pre _; simp [toolDedupBy]
  | cons r rest ih =>
    intro pre h
    have hseen : (pre.map k₁).contains (k₁ r) = (pre.map k₂).contains (k₂ r) := by
      rw [Bool.eq_iff_iff]
      simp only [List.contains_iff_mem, List.mem_map]
      constructor
      · rintro ⟨a, ha, hk⟩
        exact ⟨a, ha, (h a (by simp [ha]) r (by simp)).mp hk⟩
      · rintro ⟨a, ha, hk⟩
        exact ⟨a, ha, (h a (by simp [ha]) r (by simp)).mpr hk⟩
    simp only [toolDedupBy, hseen]
    have h1 := ih pre (by
      intro a ha b hb
      apply h a _ b _
      · rcases List.mem_append.mp ha with ha | ha
        · simp [ha]
        · simp [ha]
      · rcases List.mem_append.mp hb with hb | hb
        · simp [hb]
        · simp [hb])
    have h2 := ih (r :: pre) (by
      intro a ha b hb
      apply h a _ b _
      · simp only [List.cons_append, List.mem_cons, List.mem_append] at ha ⊢
        tauto
      · simp only [List.cons_append, List.mem_cons, List.mem_append] at hb ⊢
        tauto)
    simp only [List.map_cons] at h2
    rw [h1, h2]

/-- the `Nat`-keyed scan of `Model/Confidence.lean` is the instance `κ = Nat` -/
theorem dedupFirst_eq_toolDedupBy (key : Row → Nat) : ∀ (xs : List Row) (seen : List Nat),
    dedupFirst key seen xs = toolDedupBy key seen xs := by
  intro xs
  induction xs with
  | nil => intro seen; simp [dedupFirst, toolDedupBy]
  | cons r rest ih =>
    intro seen
    simp only [dedupFirst, toolDedupBy, ih]

/-- de-duplicating projected rows = projecting the de-duplicated rows -/
theorem toolDedupBy_map {α β κ : Type} [DecidableEq κ] (f : α → β) (key : β → κ) : ∀ (xs : List α) (seen : List κ),
    toolDedupBy key seen (xs.map f) = (toolDedupBy (fun a => key (f a)) seen xs).map f := by
  intro xs
  induction xs with
  | nil => intro seen; simp [toolDedupBy]
  | cons r rest ih =>
    intro seen
    simp only [List.map_cons, toolDedupBy, ih]
    split <;> simp

end Mk
