import MokapotVerif.Lemmas.Brew
/-!
# Helper lemmas for C02: chunking, materialisation, routing, `_predict`
-/
namespace Mk.Brew

/-! ## chunks -/

theorem chunksFuel_flatten {β : Type} (c : Nat) (hc : 0 < c) : ∀ (fuel : Nat) (xs : List β),
    xs.length ≤ fuel → (chunksFuel c fuel xs).flatten = xs := by
  intro fuel
  induction fuel with
  | zero => intro xs h; have : xs = [] := List.eq_nil_of_length_eq_zero (by omega); simp [this, chunksFuel]
  | succ n ih =>
    intro xs h
    cases xs with
    | nil => simp [chunksFuel]
    | cons x rest =>
      simp only [chunksFuel, List.flatten_cons]
      rw [ih]
      · exact List.take_append_drop c (x :: rest)
      · simp only [List.length_drop, List.length_cons] at *; omega

theorem chunks_flatten {β : Type} (c : Nat) (hc : 0 < c) (xs : List β) :
    (chunks c xs).flatten = xs := chunksFuel_flatten c hc xs.length xs (Nat.le_refl _)

/-! ## the indexed rows `(i, rows[i])` -/

theorem mem_indexed {ρ : Type} (rows : List ρ) (i : Nat) (v : ρ) :
    (i, v) ∈ rows.zipIdx.map (fun x => (x.2, x.1)) ↔ rows[i]? = some v := by
  rw [List.mem_map]
  constructor
  · rintro ⟨⟨v', i'⟩, hmem, heq⟩
    simp only [Prod.mk.injEq] at heq
    obtain ⟨rfl, rfl⟩ := heq
    exact List.mem_zipIdx_iff_getElem?.mp hmem
  · intro h
    exact ⟨(v, i), List.mem_zipIdx_iff_getElem?.mpr h, rfl⟩

theorem indexed_map_snd {ρ : Type} (rows : List ρ) :
    (rows.zipIdx.map (fun x => (x.2, x.1))).map (·.2) = rows := by
  rw [List.map_map]
  exact List.zipIdx_map_fst 0 rows

/-! ## materialisation -/

theorem chunkPiece_flatten {ρ : Type} (train : List Nat) (chs : List (List (Nat × ρ))) :
    (chs.map (chunkPiece train)).flatten = chunkPiece train chs.flatten := by
  unfold chunkPiece
  rw [List.filter_flatten]

/-- `reindex` on any table whose entries are exactly the wanted `(label, row)` pairs -/
theorem reindex_eq {ρ : Type} (tbl : List (Nat × ρ)) (want : Nat → Option ρ) (idx : List Nat)
    (htbl : ∀ i ∈ idx, ∀ v, (i, v) ∈ tbl ↔ want i = some v) (hdef : ∀ i ∈ idx, (want i).isSome) :
    reindex tbl idx = idx.map want := by
  unfold reindex
  apply List.map_congr_left
  intro i hi
  obtain ⟨v, hv⟩ := Option.isSome_iff_exists.mp (hdef i hi)
  rw [hv]
  apply lookup_eq_of_unique
  · exact (htbl i hi v).mpr hv
  · intro w hw
    have := (htbl i hi w).mp hw
    rw [hv] at this
    exact (Option.some.inj this).symm

/-! ## routing -/

theorem mem_foldTags (folds : List (List Nat)) (p f : Nat) :
    (p, f) ∈ foldTags folds ↔ f < folds.length ∧ p ∈ folds.getD f [] := by
  unfold foldTags
  rw [List.mem_flatMap]
  constructor
  · rintro ⟨⟨fold, k⟩, hmem, hp⟩
    rw [List.mem_zipIdx_iff_getElem?] at hmem
    simp only [List.mem_map, Prod.mk.injEq] at hp hmem
    obtain ⟨q, hq, rfl, rfl⟩ := hp
    have hk : k < folds.length := by
      by_contra hcon
      rw [List.getElem?_eq_none (by omega)] at hmem
      simp at hmem
    refine ⟨hk, ?_⟩
    rw [List.getD_eq_getElem?_getD, hmem]
    exact hq
  · rintro ⟨hf, hp⟩
    refine ⟨(folds[f], f), ?_, ?_⟩
    · rw [List.mem_zipIdx_iff_getElem?]
      simp [hf]
    · rw [List.getD_eq_getElem?_getD, List.getElem?_eq_getElem hf] at hp
      simpa using hp

theorem fold_unique (folds : List (List Nat)) (hnd : folds.flatten.Nodup) (p f g : Nat)
    (hf : f < folds.length) (hg : g < folds.length)
    (hpf : p ∈ folds.getD f []) (hpg : p ∈ folds.getD g []) : f = g := by
  rw [List.nodup_flatten] at hnd
  have hpw := List.pairwise_iff_getElem.mp hnd.2
  rw [List.getD_eq_getElem?_getD, List.getElem?_eq_getElem hf] at hpf
  rw [List.getD_eq_getElem?_getD, List.getElem?_eq_getElem hg] at hpg
  simp only [Option.getD_some] at hpf hpg
  by_contra hne
  rcases Nat.lt_or_gt_of_ne hne with hlt | hlt
  · exact (hpw f g hf hg hlt) hpf hpg
  · exact (hpw g f hg hf hlt) hpg hpf

theorem route_getElem? (folds : List (List Nat)) (n p : Nat) (hp : p < n) :
    (route folds n)[p]? = some (((foldTags folds).lookup p).getD 0) := by
  unfold route
  simp [hp]

theorem route_length (folds : List (List Nat)) (n : Nat) : (route folds n).length = n := by
  simp [route]

/-- every routing entry is a valid fold number (there is at least one fold) -/
theorem route_lt (folds : List (List Nat)) (n : Nat) (hpos : 0 < folds.length) :
    ∀ f ∈ route folds n, f < folds.length := by
  intro f hf
  unfold route at hf
  rw [List.mem_map] at hf
  obtain ⟨p, _, rfl⟩ := hf
  cases hl : (foldTags folds).lookup p with
  | none => simpa using hpos
  | some g =>
    have := lookup_some_mem p g _ hl
    rw [mem_foldTags] at this
    simpa using this.1

/-! ## `_predict` -/

theorem foldRows_eq {ρ : Type} (f : Nat) : ∀ (chs : List (List ((Nat × ρ) × Nat))),
    foldRows f chs = foldSlice f chs.flatten := by
  intro chs
  induction chs with
  | nil => simp [foldRows, foldSlice]
  | cons ch rest ih =>
    unfold foldRows at ih ⊢
    simp only [List.map_cons, List.flatten_cons, ih]
    simp [foldSlice]

theorem foldRows_chunks {ρ : Type} (c : Nat) (hc : 0 < c) (f : Nat) (tagged : List ((Nat × ρ) × Nat)) :
    foldRows f (chunks c tagged) = foldSlice f tagged := by
  rw [foldRows_eq, chunks_flatten c hc]

/-- the tagged rows `((i, rows[i]), routing[i])` -/
def tagged {ρ : Type} (rows : List ρ) (routing : List Nat) : List ((Nat × ρ) × Nat) :=
  (rows.zipIdx.map (fun x => (x.2, x.1))).zip routing

theorem tagged_rows {ρ : Type} (rows : List ρ) (routing : List Nat) :
    (tagged rows routing).map (fun x => (x.1.2, x.2)) = rows.zip routing := by
  unfold tagged
  conv_rhs => rw [← indexed_map_snd rows, List.zip_map_left]
  apply List.map_congr_left
  intro x _
  rfl

theorem mem_tagged {ρ : Type} (rows : List ρ) (routing : List Nat) (i : Nat) (v : ρ) (f : Nat)
    (h : ((i, v), f) ∈ tagged rows routing) : rows[i]? = some v ∧ routing[i]? = some f := by
  unfold tagged at h
  obtain ⟨k, hk⟩ := List.mem_iff_getElem?.mp h
  rw [List.getElem?_zip_eq_some] at hk
  obtain ⟨h1, h2⟩ := hk
  simp only at h1 h2
  rw [List.getElem?_map] at h1
  cases hz : rows.zipIdx[k]? with
  | none => simp [hz] at h1
  | some z =>
    simp only [hz, Option.map_some, Option.some.injEq, Prod.mk.injEq] at h1
    have := List.mem_zipIdx_iff_getElem?.mp (List.mem_of_getElem? hz)
    have hk2 : z.2 = k := by
      have h3 := List.getElem?_zipIdx (l := rows) (i := 0) (j := k)
      rw [hz] at h3
      cases hr : rows[k]? with
      | none => simp [hr] at h3
      | some r => simp [hr] at h3; rw [h3]
    obtain ⟨h1a, h1b⟩ := h1
    rw [← h1a, ← h1b]
    refine ⟨this, ?_⟩
    rw [hk2]; exact h2

theorem tagged_mem_of_lt {ρ : Type} (rows : List ρ) (routing : List Nat)
    (hlen : routing.length = rows.length) (p : Nat) (hp : p < rows.length) :
    ((p, rows[p]), routing[p]'(by omega)) ∈ tagged rows routing := by
  unfold tagged
  apply List.mem_iff_getElem?.mpr
  refine ⟨p, ?_⟩
  rw [List.getElem?_zip_eq_some]
  simp [hp, hlen]

/-- the rows of fold `f` as the specification sees them -/
theorem mine_eq {ρ : Type} (rows : List ρ) (routing : List Nat) (f : Nat) :
    ((rows.zip routing).filter (fun y => y.2 == f)).map (·.1) =
      (foldSlice f (tagged rows routing)).map (·.2) := by
  rw [← tagged_rows, List.filter_map, List.map_map]
  unfold foldSlice
  rw [List.map_map]
  rfl

/-- one fold's `(row index, calibrated score)` list, for any chunk size -/
theorem perFold_eq {ρ σ : Type} (c : Nat) (hc : 0 < c) (rows : List ρ) (routing : List Nat)
    (score : Nat → ρ → σ) (target : ρ → Bool) (cal : List (σ × Bool) → σ → σ) (f : Nat) :
    ((foldRows f (chunks c (tagged rows routing))).map (·.1)).zip
      (((foldRows f (chunks c (tagged rows routing))).map (fun x => score f x.2)).map
        (cal (((foldRows f (chunks c (tagged rows routing))).map (fun x => score f x.2)).zip
          ((foldRows f (chunks c (tagged rows routing))).map (fun x => target x.2))))) =
    (foldSlice f (tagged rows routing)).map (fun x => (x.1,
      cal ((((rows.zip routing).filter (fun y => y.2 == f)).map (·.1)).map
        (fun r => (score f r, target r))) (score f x.2))) := by
  rw [foldRows_chunks c hc, mine_eq, List.zip_map', List.map_map, List.map_map, List.zip_map']
  rfl

end Mk.Brew
