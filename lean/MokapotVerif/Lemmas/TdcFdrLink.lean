import MokapotVerif.Lemmas.Qvalues
import MokapotVerif.Lemmas.TdcFdrDefs
/-!
# Link: the set accepted at `q ≤ a` by the C01 q-value formula is the prefix `Pstop`

For a strict best-first ranking (no ties) and `a < 1`, the items whose q-value `qSpec` is `≤ a`
are exactly the first `Pstop a xs` items.
-/
namespace Mk.Tdc
variable {α β : Type}

/-- best first, no ties: every later item is strictly worse than every earlier one -/
def StrictBestFirst (le : α → α → Bool) (xs : List (α × Bool)) : Prop :=
  xs.Pairwise (fun x y => le x.1 y.1 = false)

theorem minOver_le_iff' (ys : List Rat) (a : Rat) (ha : a < 1) :
    minOver ys ≤ a ↔ ∃ y ∈ ys, y ≤ a := by
  induction ys with
  | nil => simp [minOver]; exact ha
  | cons y ys ih =>
    have : minOver (y :: ys) = min y (minOver ys) := rfl
    rw [this, min_le_iff, ih]
    constructor
    · rintro (h | ⟨z, hz, hza⟩)
      · exact ⟨y, by simp, h⟩
      · exact ⟨z, by simp [hz], hza⟩
    · rintro ⟨z, hz, hza⟩
      rcases List.mem_cons.mp hz with rfl | hz
      · exact Or.inl hza
      · exact Or.inr ⟨z, hz, hza⟩

theorem filter_eq_take (xs : List β) (q : β → Bool) (P : Nat)
    (h : ∀ j (hj : j < xs.length), q xs[j] = true ↔ j < P) : xs.filter q = xs.take P := by
  conv_lhs => rw [← List.take_append_drop P xs]
  rw [List.filter_append]
  have h1 : (xs.take P).filter q = xs.take P := by
    rw [List.filter_eq_self]
    intro x hx
    obtain ⟨j, hj, rfl⟩ := List.mem_take_iff_getElem.mp hx
    exact (h j (by omega)).mpr (by omega)
  have h2 : (xs.drop P).filter q = [] := by
    rw [List.filter_eq_nil_iff]
    intro x hx
    obtain ⟨j, hj, rfl⟩ := List.mem_drop_iff_getElem.mp hx
    intro hq
    have := (h (P + j) (by omega)).mp hq
    omega
  rw [h1, h2, List.append_nil]

theorem le_getElem_iff (le : α → α → Bool) (hle : TotalPre le) (xs : List (α × Bool))
    (hs : StrictBestFirst le xs) (i j : Nat) (hi : i < xs.length) (hj : j < xs.length) :
    le xs[i].1 xs[j].1 = true ↔ j ≤ i := by
  have hs' := List.pairwise_iff_getElem.mp hs
  constructor
  · intro h
    by_contra hlt
    have := hs' i j hi hj (by omega)
    rw [h] at this
    exact Bool.noConfusion this
  · intro hji
    rcases Nat.lt_or_ge j i with hlt | hge
    · have := hs' j i hj hi hlt
      rcases hle.total xs[i].1 xs[j].1 with h | h
      · exact h
      · rw [h] at this; exact Bool.noConfusion this
    · have : i = j := by omega
      subst this
      exact hle.refl _

/-- the items at least as good as item `i` are the first `i+1` items -/
theorem filter_le_eq_take (le : α → α → Bool) (hle : TotalPre le) (xs : List (α × Bool))
    (hs : StrictBestFirst le xs) (i : Nat) (hi : i < xs.length) :
    xs.filter (fun y => le xs[i].1 y.1) = xs.take (i + 1) := by
  apply filter_eq_take
  intro j hj
  rw [le_getElem_iff le hle xs hs i j hi hj]
  omega

theorem cntT_eq_Tc (le : α → α → Bool) (hle : TotalPre le) (xs : List (α × Bool))
    (hs : StrictBestFirst le xs) (i : Nat) (hi : i < xs.length) :
    cntT le xs xs[i].1 = Tc xs (i + 1) := by
  unfold Tc cntT
  rw [← filter_le_eq_take le hle xs hs i hi, List.countP_filter]
  congr 1; funext y; simp [isT, Bool.and_comm]

theorem cntD_eq_Dc (le : α → α → Bool) (hle : TotalPre le) (xs : List (α × Bool))
    (hs : StrictBestFirst le xs) (i : Nat) (hi : i < xs.length) :
    cntD le xs xs[i].1 = Dc xs (i + 1) := by
  unfold Dc cntD
  rw [← filter_le_eq_take le hle xs hs i hi, List.countP_filter]
  congr 1; funext y; simp [isD, Bool.and_comm]

theorem fdrRaw_le_iff (T D : Nat) (a : Rat) (ha : a < 1) :
    fdrRaw T D ≤ a ↔ ((D + 1 : Nat) : Rat) ≤ a * ((T : Nat) : Rat) := by
  unfold fdrRaw
  split
  · rename_i hT
    subst hT
    have h1 : (1 : Rat) ≤ ((D + 1 : Nat) : Rat) := by exact_mod_cast Nat.succ_le_succ (Nat.zero_le D)
    constructor
    · intro h; linarith
    · intro h; simp at h; linarith
  · rename_i hT
    have hpos : (0 : Rat) < ((T : Nat) : Rat) := by exact_mod_cast Nat.pos_of_ne_zero hT
    rw [div_le_iff₀ hpos]

/-- item `j` has q-value `≤ a` iff it lies inside the accepted prefix -/
theorem qSpec_le_iff_lt_Pstop (le : α → α → Bool) (hle : TotalPre le) (xs : List (α × Bool))
    (hs : StrictBestFirst le xs) (a : Rat) (ha : a < 1) (j : Nat) (hj : j < xs.length) :
    qSpec le xs xs[j].1 ≤ a ↔ j < Pstop a xs := by
  unfold qSpec
  rw [minOver_le_iff' _ a ha]
  constructor
  · rintro ⟨y, hy, hya⟩
    obtain ⟨t, ht, rfl⟩ := List.mem_map.mp hy
    obtain ⟨htmem, htle⟩ := List.mem_filter.mp ht
    obtain ⟨i, hi, rfl⟩ := List.mem_iff_getElem.mp htmem
    have hji : j ≤ i := (le_getElem_iff le hle xs hs i j hi hj).mp htle
    rw [cntT_eq_Tc le hle xs hs i hi, cntD_eq_Dc le hle xs hs i hi, fdrRaw_le_iff _ _ a ha] at hya
    have hok : okAt a xs (i + 1) := hya
    have : i + 1 ≤ Pstop a xs := Nat.le_findGreatest (by omega) hok
    omega
  · intro hlt
    have hne : Pstop a xs ≠ 0 := by omega
    obtain ⟨i, hi⟩ := Nat.exists_eq_succ_of_ne_zero hne
    have hle' : Pstop a xs ≤ xs.length := Nat.findGreatest_le _
    have hok : okAt a xs (Pstop a xs) := Nat.findGreatest_of_ne_zero rfl hne
    rw [hi] at hok hlt hle'
    have hi' : i < xs.length := by omega
    refine ⟨_, List.mem_map.mpr ⟨xs[i], List.mem_filter.mpr ⟨List.getElem_mem hi', ?_⟩, rfl⟩, ?_⟩
    · exact (le_getElem_iff le hle xs hs i j hi' hj).mpr (by omega)
    · rw [cntT_eq_Tc le hle xs hs i hi', cntD_eq_Dc le hle xs hs i hi', fdrRaw_le_iff _ _ a ha]
      exact hok

/-- the accepted set (q-value `≤ a`) of a strict ranking is its first `Pstop a xs` items -/
theorem filter_qSpec_eq_take (le : α → α → Bool) (hle : TotalPre le) (xs : List (α × Bool))
    (hs : StrictBestFirst le xs) (a : Rat) (ha : a < 1) :
    xs.filter (fun x => decide (qSpec le xs x.1 ≤ a)) = xs.take (Pstop a xs) := by
  apply filter_eq_take
  intro j hj
  rw [decide_eq_true_iff]
  exact qSpec_le_iff_lt_Pstop le hle xs hs a ha j hj

end Mk.Tdc
