import MokapotVerif.Lemmas.BrewMulti
/-!
# Helper lemmas for the multi-collection part of C02: materialisation over several files,
the fit loop, trained models given, routing of all collections, the whole run
-/
namespace Mk.Brew

/-! ## `parse_in_chunks` -/

/-- what the reader tasks may do to the pieces of one (fold, file): each piece in any order
(`list(set & set)`), the pieces appended in any completion order -/
def SchedValid {ρ : Type} (sched : List (List (Nat × ρ)) → List (List (Nat × ρ))) : Prop :=
  ∀ input, ∃ ps, List.Forall₂ List.Perm input ps ∧ (sched input).Perm ps

theorem parseFile_eq {ρ : Type} (c : Nat) (hc : 0 < c)
    (sched : List (List (Nat × ρ)) → List (List (Nat × ρ))) (hs : SchedValid sched)
    (rows : List ρ) (train : List Nat) (hlt : ∀ i ∈ train, i < rows.length) :
    parseFile c sched rows train = train.map (fun i => rows[i]?) := by
  unfold parseFile
  obtain ⟨ps, hps, hpieces⟩ := hs ((chunks c (rows.zipIdx.map (fun x => (x.2, x.1)))).map (chunkPiece train))
  have hperm : (sched ((chunks c (rows.zipIdx.map (fun x => (x.2, x.1)))).map (chunkPiece train))).flatten.Perm
      (chunkPiece train (rows.zipIdx.map (fun x => (x.2, x.1)))) := by
    refine hpieces.flatten.trans ?_
    refine (List.Perm.flatten_congr hps).symm.trans ?_
    rw [chunkPiece_flatten, chunks_flatten c hc]
  apply reindex_eq
  · intro i hi v
    rw [hperm.mem_iff]
    unfold chunkPiece
    rw [List.mem_filter, mem_indexed]
    simp [hi]
  · intro i hi
    simp [hlt i hi]

theorem parseInChunks_eq {ρ : Type} (c : Nat) (hc : 0 < c)
    (sched : Nat → Nat → List (List (Nat × ρ)) → List (List (Nat × ρ)))
    (hs : ∀ f k, SchedValid (sched f k)) (files : List (List ρ)) (trains : List (List (List Nat)))
    (hlt : ∀ trF ∈ trains, ∀ (k : Nat) (rows : List ρ), files[k]? = some rows →
      ∀ i ∈ trF.getD k [], i < rows.length) :
    parseInChunks c sched files trains = trains.map (trainTable files) := by
  unfold parseInChunks
  have : trains.map (trainTable files) = trains.zipIdx.map (fun tf => trainTable files tf.1) := by
    have h := List.zipIdx_map_fst 0 trains
    conv_lhs => rw [← h]
    rw [List.map_map]
    rfl
  rw [this]
  apply List.map_congr_left
  intro tf htf
  unfold trainTable
  congr 1
  apply List.map_congr_left
  intro rk hrk
  obtain ⟨trF, f⟩ := tf
  obtain ⟨rows, k⟩ := rk
  have h1 := List.mem_zipIdx_iff_getElem?.mp htf
  have h2 := List.mem_zipIdx_iff_getElem?.mp hrk
  exact parseFile_eq c hc _ (hs f k) rows (trF.getD k []) (hlt trF (List.mem_of_getElem? h1) k rows h2)

/-! ## the fit loop -/

theorem fitAll_getElem? {τ μ : Type} (learner : τ → μ) (tables : List τ) (f : Nat) :
    (fitAll learner tables)[f]? = tables[f]?.map (fun t => (f + 1, learner t)) := by
  unfold fitAll
  rw [List.getElem?_map, List.getElem?_zipIdx]
  cases tables[f]? <;> simp

theorem fitAll_length {τ μ : Type} (learner : τ → μ) (tables : List τ) :
    (fitAll learner tables).length = tables.length := by
  simp [fitAll]

theorem mem_fitAll {τ μ : Type} (learner : τ → μ) (tables : List τ) (a : Nat × μ)
    (h : a ∈ fitAll learner tables) : ∃ i t, tables[i]? = some t ∧ a = (i + 1, learner t) := by
  obtain ⟨i, hi, rfl⟩ := List.getElem_of_mem h
  have := fitAll_getElem? learner tables i
  rw [List.getElem?_eq_getElem hi] at this
  rw [fitAll_length] at hi
  rw [List.getElem?_eq_getElem hi] at this
  exact ⟨i, tables[i], List.getElem?_eq_getElem hi, by simpa using this⟩

theorem fitAll_pairwise {τ μ : Type} (learner : τ → μ) (tables : List τ) :
    (fitAll learner tables).Pairwise (fun a b => a.1 ≤ b.1) := by
  rw [List.pairwise_iff_getElem]
  intro i j hi hj hij
  have h1 := fitAll_getElem? learner tables i
  have h2 := fitAll_getElem? learner tables j
  rw [List.getElem?_eq_getElem hi] at h1
  rw [List.getElem?_eq_getElem hj] at h2
  rw [fitAll_length] at hi hj
  rw [List.getElem?_eq_getElem hi] at h1
  rw [List.getElem?_eq_getElem hj] at h2
  simp only [Option.map_some, Option.some.injEq] at h1 h2
  rw [h1, h2]
  simp only
  omega

theorem sortByFold_pairwise {μ : Type} (l : List (Nat × μ)) :
    (sortByFold l).Pairwise (fun a b => a.1 ≤ b.1) := by
  unfold sortByFold
  have := List.pairwise_mergeSort (le := fun (a b : Nat × μ) => decide (a.1 ≤ b.1))
    (fun a b c hab hbc => by simp only [decide_eq_true_eq] at *; omega)
    (fun a b => by simp only [Bool.or_eq_true, decide_eq_true_eq]; omega) l
  exact this.imp (fun h => by simpa using h)

theorem sortByFold_perm {μ : Type} (l : List (Nat × μ)) : (sortByFold l).Perm l :=
  List.mergeSort_perm l _

/-- whatever order the fitted models come back in, after `fitted.sort(key=fold)` they are in
fold order -/
theorem sortByFold_fitAll {τ μ : Type} (learner : τ → μ) (tables : List τ) (fitted : List (Nat × μ))
    (hp : fitted.Perm (fitAll learner tables)) : sortByFold fitted = fitAll learner tables := by
  apply List.Perm.eq_of_pairwise (le := fun (a b : Nat × μ) => a.1 ≤ b.1)
  · intro a b ha hb hab hba
    have ha' : a ∈ fitAll learner tables := hp.mem_iff.mp ((sortByFold_perm fitted).mem_iff.mp ha)
    obtain ⟨i, t, hi, rfl⟩ := mem_fitAll learner tables a ha'
    obtain ⟨j, u, hj, rfl⟩ := mem_fitAll learner tables b hb
    simp only at hab hba
    have hij : i = j := by omega
    subst hij
    rw [hi] at hj
    rw [Option.some.inj hj]
  · exact sortByFold_pairwise fitted
  · exact fitAll_pairwise learner tables
  · exact (sortByFold_perm fitted).trans hp

/-! ## trained models given -/

theorem pretrained_ok_iff {μ : Type} (ms : List (Nat × μ × Bool)) (folds : Nat) (r : List (Nat × μ)) :
    pretrained ms folds = .ok r ↔
      ms.length = folds ∧ (∀ m ∈ ms, m.2.2 = true) ∧ r = sortByFold (ms.map (fun m => (m.1, m.2.1))) := by
  unfold pretrained
  by_cases h1 : ms.length = folds
  · rw [if_neg (by simpa using h1)]
    by_cases h2 : ms.all (fun m => m.2.2) = true
    · rw [if_pos h2]
      rw [List.all_eq_true] at h2
      constructor
      · intro h
        injection h with h
        exact ⟨h1, h2, h.symm⟩
      · rintro ⟨_, _, rfl⟩
        rfl
    · rw [if_neg h2]
      rw [List.all_eq_true] at h2
      constructor
      · intro h; injection h
      · rintro ⟨_, h, _⟩
        exact absurd h h2
  · rw [if_pos (by simpa using h1)]
    constructor
    · intro h; injection h
    · rintro ⟨h, _, _⟩
      exact absurd h h1

theorem pretrained_error_iff {μ : Type} (ms : List (Nat × μ × Bool)) (folds : Nat) (e : String) :
    pretrained ms folds = .error e ↔
      (ms.length ≠ folds ∧ e = "ValueError") ∨
      (ms.length = folds ∧ (∃ m ∈ ms, m.2.2 = false) ∧ e = "RuntimeError") := by
  unfold pretrained
  by_cases h1 : ms.length = folds
  · rw [if_neg (by simpa using h1)]
    by_cases h2 : ms.all (fun m => m.2.2) = true
    · rw [if_pos h2]
      rw [List.all_eq_true] at h2
      constructor
      · intro h; injection h
      · rintro (⟨h, _⟩ | ⟨_, ⟨m, hm, hmf⟩, _⟩)
        · exact absurd h1 h
        · rw [h2 m hm] at hmf
          exact absurd hmf (by simp)
    · rw [if_neg h2]
      have h3 : ∃ m ∈ ms, m.2.2 = false := by
        by_contra hcon
        apply h2
        rw [List.all_eq_true]
        intro m hm
        by_contra hmf
        exact hcon ⟨m, hm, by simpa using hmf⟩
      constructor
      · intro h
        injection h with h
        exact Or.inr ⟨h1, h3, h.symm⟩
      · rintro (⟨h, _⟩ | ⟨_, _, rfl⟩)
        · exact absurd h1 h
        · rfl
  · rw [if_pos (by simpa using h1)]
    constructor
    · intro h
      injection h with h
      exact Or.inl ⟨h1, h.symm⟩
    · rintro (⟨_, rfl⟩ | ⟨h, _, _⟩)
      · rfl
      · exact absurd h h1

/-! ## routing -/

/-- the routing vector depends on the *membership* of the folds only (not on the in-fold order
left by `rng.shuffle`) -/
theorem route_congr (fs fs' : List (List Nat)) (n : Nat) (hperm : fs.flatten.Perm (List.range n))
    (h : List.Forall₂ List.Perm fs fs') : route fs n = route fs' n := by
  have hperm' : fs'.flatten.Perm (List.range n) := (List.Perm.flatten_congr h).symm.trans hperm
  have hlen := h.length_eq
  apply List.ext_getElem?
  intro p
  by_cases hp : p < n
  · have hpm : p ∈ fs.flatten := hperm.mem_iff.mpr (List.mem_range.mpr hp)
    obtain ⟨fold, hfold, hpfold⟩ := List.mem_flatten.mp hpm
    obtain ⟨g, hg, hgfold⟩ := List.getElem_of_mem hfold
    have hpg : p ∈ fs.getD g [] := by
      rw [List.getD_eq_getElem?_getD, List.getElem?_eq_getElem hg, hgfold]
      exact hpfold
    have hpg' : p ∈ fs'.getD g [] := (forall₂_getD h g hg [] []).mem_iff.mp hpg
    have h1 : (route fs n)[p]? = some g := by
      have hnd : fs.flatten.Nodup := hperm.nodup_iff.mpr List.nodup_range
      have hlook : (foldTags fs).lookup p = some g := by
        apply lookup_eq_of_unique
        · exact (mem_foldTags fs p g).mpr ⟨hg, hpg⟩
        · intro w hw
          obtain ⟨hw1, hw2⟩ := (mem_foldTags fs p w).mp hw
          exact fold_unique fs hnd p w g hw1 hg hw2 hpg
      rw [route_getElem? fs n p hp, hlook]
      rfl
    have h2 : (route fs' n)[p]? = some g := by
      have hnd : fs'.flatten.Nodup := hperm'.nodup_iff.mpr List.nodup_range
      have hg' : g < fs'.length := by omega
      have hlook : (foldTags fs').lookup p = some g := by
        apply lookup_eq_of_unique
        · exact (mem_foldTags fs' p g).mpr ⟨hg', hpg'⟩
        · intro w hw
          obtain ⟨hw1, hw2⟩ := (mem_foldTags fs' p w).mp hw
          exact fold_unique fs' hnd p w g hw1 hg' hw2 hpg'
      rw [route_getElem? fs' n p hp, hlook]
      rfl
    rw [h1, h2]
  · rw [List.getElem?_eq_none (by rw [route_length]; omega),
      List.getElem?_eq_none (by rw [route_length]; omega)]

end Mk.Brew

namespace Mk.Brew

/-! ## all collections -/

theorem splitAll_some (sorteds : List (List (Nat × Nat))) (folds : Nat)
    (shuffle : Nat → List (List Nat) → List (List Nat)) (testIdx : List (List (List Nat)))
    (h : splitAll sorteds folds shuffle = some testIdx) :
    testIdx.length = sorteds.length ∧ ∀ k, k < sorteds.length →
      ∃ fs, splitWith (sorteds.getD k []) folds = some fs ∧ testIdx.getD k [] = shuffle k fs := by
  unfold splitAll at h
  rw [Option.map_eq_some_iff] at h
  obtain ⟨fss, hfss, rfl⟩ := h
  have hf := mapM_some_forall₂ _ _ _ hfss
  have hl := hf.length_eq
  refine ⟨by simp [hl], ?_⟩
  intro k hk
  refine ⟨fss.getD k [], forall₂_getD hf k hk [] [], ?_⟩
  have hk' : k < fss.length := by omega
  simp [hk', List.getD_eq_getElem?_getD]

theorem routeAll_length {ρ : Type} (testIdx : List (List (List Nat))) (files : List (List ρ))
    (hl : testIdx.length = files.length) : (routeAll testIdx files).length = files.length := by
  simp [routeAll, hl]

theorem routeAll_getD {ρ : Type} (testIdx : List (List (List Nat))) (files : List (List ρ))
    (hl : testIdx.length = files.length) (k : Nat) (hk : k < files.length) :
    (routeAll testIdx files).getD k [] = route (testIdx.getD k []) (files.getD k []).length := by
  unfold routeAll
  have hk' : k < testIdx.length := by omega
  have hz : (testIdx.zip files)[k]? = some (testIdx[k], files[k]) := by
    rw [List.getElem?_eq_getElem (by simp; omega)]
    simp
  simp [List.getD_eq_getElem?_getD, hk, hk', hz]

theorem mem_zip_routeAll {ρ : Type} (testIdx : List (List (List Nat))) (files : List (List ρ))
    (hl : testIdx.length = files.length) (x : List ρ × List Nat)
    (hx : x ∈ files.zip (routeAll testIdx files)) :
    ∃ k, k < files.length ∧ x.1 = files.getD k [] ∧ x.2 = route (testIdx.getD k []) (files.getD k []).length := by
  obtain ⟨k, hk, hxk⟩ := List.getElem_of_mem hx
  have hk1 : k < files.length := by
    simp only [List.length_zip] at hk; omega
  refine ⟨k, hk1, ?_, ?_⟩
  · rw [← hxk]
    simp [List.getD_eq_getElem?_getD, hk1]
  · rw [← hxk, ← routeAll_getD testIdx files hl k hk1]
    have hk2 : k < (routeAll testIdx files).length := by rw [routeAll_length _ _ hl]; exact hk1
    simp [List.getD_eq_getElem?_getD, hk2]

theorem brewRun_some {ρ σ μ : Type} [Inhabited σ] [Inhabited μ] (cRead cPred folds : Nat)
    (files : List (List ρ)) (sorteds : List (List (Nat × Nat)))
    (shuffle : Nat → List (List Nat) → List (List Nat)) (cap : Option Nat)
    (enum : Nat → Nat → List Nat → List Nat) (draw : Nat → Nat → Nat → List Nat)
    (sched : Nat → Nat → List (List (Nat × ρ)) → List (List (Nat × ρ)))
    (ret : List (Nat × μ) → List (Nat × μ))
    (learner : List (Option ρ) → μ) (apply : μ → ρ → σ) (target : ρ → Bool)
    (cal : List (σ × Bool) → σ → σ) (models : List (Nat × μ)) (scores : List (List σ))
    (h : brewRun cRead cPred folds files sorteds shuffle cap enum draw sched ret learner apply target cal
      = some (models, scores)) :
    ∃ testIdx trains, splitAll sorteds folds shuffle = some testIdx ∧
      makeTrainSets testIdx cap (files.map List.length) enum draw = some trains ∧
      models = sortByFold (ret (fitAll learner (parseInChunks cRead sched files trains))) ∧
      scores = predictAll cPred models.length files (routeAll testIdx files) (modelScore apply models)
        target cal := by
  unfold brewRun at h
  rw [Option.bind_eq_some_iff] at h
  obtain ⟨testIdx, h1, h⟩ := h
  rw [Option.map_eq_some_iff] at h
  obtain ⟨trains, h2, h⟩ := h
  simp only [Prod.mk.injEq] at h
  obtain ⟨h3, h4⟩ := h
  refine ⟨testIdx, trains, h1, h2, h3.symm, ?_⟩
  rw [← h4, ← h3]

end Mk.Brew

namespace Mk.Brew

theorem forall₂_perm_join {α : Type} : ∀ {a b c : List (List α)},
    List.Forall₂ List.Perm a b → List.Forall₂ List.Perm a c → List.Forall₂ List.Perm b c := by
  intro a b c hab
  induction hab generalizing c with
  | nil => intro hac; cases hac; exact List.Forall₂.nil
  | cons h _ ih =>
    intro hac
    cases hac with
    | cons h' hrest => exact List.Forall₂.cons (h.symm.trans h') (ih hrest)

/-- the same hash-sorted arrays with another in-fold shuffle -/
theorem splitAll_other_shuffle (sorteds : List (List (Nat × Nat))) (folds : Nat)
    (shuffle shuffle' : Nat → List (List Nat) → List (List Nat))
    (hshuf : ∀ k fs, List.Forall₂ List.Perm fs (shuffle k fs))
    (hshuf' : ∀ k fs, List.Forall₂ List.Perm fs (shuffle' k fs))
    (testIdx : List (List (List Nat))) (h : splitAll sorteds folds shuffle = some testIdx) :
    ∃ testIdx', splitAll sorteds folds shuffle' = some testIdx' ∧ testIdx'.length = testIdx.length ∧
      ∀ k, k < testIdx.length → List.Forall₂ List.Perm (testIdx.getD k []) (testIdx'.getD k []) := by
  unfold splitAll at h ⊢
  rw [Option.map_eq_some_iff] at h
  obtain ⟨fss, hfss, rfl⟩ := h
  refine ⟨fss.zipIdx.map (fun x => shuffle' x.2 x.1), by rw [hfss]; rfl, by simp, ?_⟩
  intro k hk
  simp only [List.length_map, List.length_zipIdx] at hk
  have e1 : (fss.zipIdx.map (fun x => shuffle x.2 x.1)).getD k [] = shuffle k fss[k] := by
    simp [List.getD_eq_getElem?_getD, hk]
  have e2 : (fss.zipIdx.map (fun x => shuffle' x.2 x.1)).getD k [] = shuffle' k fss[k] := by
    simp [List.getD_eq_getElem?_getD, hk]
  rw [e1, e2]
  exact forall₂_perm_join (hshuf k fss[k]) (hshuf' k fss[k])

theorem routeAll_congr {ρ : Type} (testIdx testIdx' : List (List (List Nat))) (files : List (List ρ))
    (hl : testIdx.length = files.length) (hl' : testIdx'.length = files.length)
    (h : ∀ k, k < files.length →
      route (testIdx.getD k []) (files.getD k []).length = route (testIdx'.getD k []) (files.getD k []).length) :
    routeAll testIdx files = routeAll testIdx' files := by
  apply List.ext_getElem
  · rw [routeAll_length _ _ hl, routeAll_length _ _ hl']
  · intro k hk1 hk2
    rw [routeAll_length _ _ hl] at hk1
    have e1 := routeAll_getD testIdx files hl k hk1
    have e2 := routeAll_getD testIdx' files hl' k hk1
    rw [List.getD_eq_getElem?_getD, List.getElem?_eq_getElem (by rw [routeAll_length _ _ hl]; exact hk1)] at e1
    rw [List.getD_eq_getElem?_getD, List.getElem?_eq_getElem (by rw [routeAll_length _ _ hl']; exact hk1)] at e2
    simp only [Option.getD_some] at e1 e2
    rw [e1, e2]
    exact h k hk1

end Mk.Brew

namespace Mk.Brew

theorem sizes_getD {ρ : Type} (files : List (List ρ)) (k : Nat) (hk : k < files.length) :
    (files.map List.length).getD k 0 = (files.getD k []).length := by
  simp [List.getD_eq_getElem?_getD, hk]

end Mk.Brew

/-! ## concrete instances of the nondeterminism, used by the non-vacuity examples of
`Props/C02Multi.lean` (none of them the "natural" choice: reversed enumerations, reversed
completion orders, last-first draws, an unstable `argsort`) -/
namespace Mk.Brew.Ex
open Mk.Brew

def files : List (List Nat) := [[10, 11, 12, 13], [20, 21, 22, 23, 24, 25]]
def hashes : List (List Nat) := [[7, 5, 7, 5], [3, 1, 2, 3, 2, 4]]
/-- hash-sorted, ties *not* in the stable order -/
def sorteds : List (List (Nat × Nat)) :=
  [[(5, 3), (5, 1), (7, 0), (7, 2)], [(1, 1), (2, 4), (2, 2), (3, 0), (3, 3), (4, 5)]]
def shuffle (_ : Nat) (fs : List (List Nat)) : List (List Nat) := fs.map List.reverse
def enum (_ _ : Nat) (l : List Nat) : List Nat := l.reverse
def draw (cap : Option Nat) (K : Nat) (_f k _n : Nat) : List Nat :=
  (List.range ((capsOf cap K).getD k 0)).reverse
def sched (_ _ : Nat) (ps : List (List (Nat × Nat))) : List (List (Nat × Nat)) :=
  (ps.map List.reverse).reverse
def learner (tbl : List (Option Nat)) : Nat := (tbl.map (fun o => o.getD 0)).foldl (fun a x => 3 * a + x) 0
def apply (m r : Nat) : Nat := m * 100 + r
def cal (l : List (Nat × Bool)) (s : Nat) : Nat := s * 10 + l.length

theorem shuffle_valid : ∀ k fs, List.Forall₂ List.Perm fs (shuffle k fs) := by
  intro k fs
  unfold shuffle
  induction fs with
  | nil => exact List.Forall₂.nil
  | cons x rest ih => exact List.Forall₂.cons (List.reverse_perm x).symm ih

theorem enum_valid : ∀ f k l, (enum f k l).Perm l := fun _ _ l => List.reverse_perm l

theorem draw_valid (cap : Option Nat) (K : Nat) : DrawsValid cap K (draw cap K) := by
  intro f k n hn
  unfold draw
  refine ⟨by simp, List.nodup_reverse.mpr List.nodup_range, ?_⟩
  intro j hj
  rw [List.mem_reverse, List.mem_range] at hj
  omega

theorem sched_valid : ∀ f k, SchedValid (sched f k) := by
  intro f k input
  refine ⟨input.map List.reverse, ?_, List.reverse_perm _⟩
  induction input with
  | nil => exact List.Forall₂.nil
  | cons x rest ih => exact List.Forall₂.cons (List.reverse_perm x).symm ih

/-- the whole run on two collections (4 and 6 rows, 2 folds, read chunks of 2, prediction chunks
of 3), kernel-checked: the sort of the fit loop is discharged by `sortByFold_fitAll` -/
theorem ex_run : brewRun 2 3 2 files sorteds shuffle none enum (draw none 2) sched List.reverse learner
      apply (fun r => r % 2 == 0) cal
    = some ([(1, 1556), (2, 1653)],
        [[1653102, 1556112, 1653122, 1556132], [1653203, 1556213, 1556223, 1653233, 1556243, 1653253]]) := by
  unfold brewRun
  rw [show splitAll sorteds 2 shuffle = some [[[1, 3], [2, 0]], [[2, 4, 1], [5, 3, 0]]] by decide]
  simp only [Option.bind_some]
  rw [show makeTrainSets [[[1, 3], [2, 0]], [[2, 4, 1], [5, 3, 0]]] none (files.map List.length) enum (draw none 2)
    = some [[[2, 0], [5, 3, 0]], [[3, 1], [4, 2, 1]]] by decide]
  simp only [Option.map_some]
  rw [sortByFold_fitAll _ _ _ (List.reverse_perm _)]
  decide


end Mk.Brew.Ex
