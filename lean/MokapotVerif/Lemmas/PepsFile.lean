import MokapotVerif.Model.PepsFile
import MokapotVerif.Lemmas.PepsAlign
/-! Helper lemmas for the C06 extension (`Props/C06File.lean`): the chunked writer is
chunk-size independent, `xs[ind]` for an admissible argsort is a sorted rearrangement,
bounds of the mean-PEP knots. -/
namespace Mk.Peps

/-! ### chunked writer -/

theorem maskSel_nil (keep : Bool) (qs ps : List Rat) (ts : List Bool) : maskSel keep [] qs ps ts = [] := by
  simp [maskSel]

theorem take_zip' {β γ : Type} (a : List β) (b : List γ) (n : Nat) :
    (a.zip b).take n = (a.take n).zip (b.take n) := List.take_zipWith

theorem drop_zip' {β γ : Type} (a : List β) (b : List γ) (n : Nat) :
    (a.zip b).drop n = (a.drop n).zip (b.drop n) := List.drop_zipWith

theorem maskSel_take_drop (keep : Bool) (c : Nat) (rows : List (Nat × Rat)) (qs ps : List Rat)
    (ts : List Bool) :
    maskSel keep (rows.take c) (qs.take c) (ps.take c) (ts.take c)
      ++ maskSel keep (rows.drop c) (qs.drop c) (ps.drop c) (ts.drop c) = maskSel keep rows qs ps ts := by
  unfold maskSel
  rw [← List.map_append, ← List.filter_append]
  congr 2
  rw [← take_zip', ← take_zip', ← take_zip', ← drop_zip', ← drop_zip', ← drop_zip',
    List.take_append_drop]

/-- **the chunk size is invisible**: for sequences of equal length and any chunk size `c ≥ 1`
the loop of `write_confidences` writes exactly the positional selection over the whole level -/
theorem writeGo_eq (c : Nat) (hc : 1 ≤ c) : ∀ (fuel : Nat) (rows : List (Nat × Rat)) (qs ps : List Rat)
    (ts : List Bool), qs.length = rows.length → ps.length = rows.length → ts.length = rows.length →
    rows.length ≤ fuel →
    writeGo c fuel rows qs ps ts = some (maskSel true rows qs ps ts, maskSel false rows qs ps ts) := by
  intro fuel
  induction fuel with
  | zero =>
    intro rows qs ps ts _ _ _ hf
    have : rows = [] := List.eq_nil_of_length_eq_zero (by omega)
    subst this
    simp [writeGo, maskSel_nil]
  | succ fuel ih =>
    intro rows qs ps ts hq hp ht hf
    cases rows with
    | nil => simp [writeGo, anyExhausted, maskSel_nil]
    | cons r rest =>
      have hq' : qs ≠ [] := by intro h; subst h; simp at hq
      have hp' : ps ≠ [] := by intro h; subst h; simp at hp
      have ht' : ts ≠ [] := by intro h; subst h; simp at ht
      have hex : anyExhausted (r :: rest) qs ps ts = false := by
        simp [anyExhausted, hq', hp', ht']
      have hlen : chunkLengthsOk ((r :: rest).take c) (qs.take c) (ps.take c) (ts.take c) = true := by
        simp only [chunkLengthsOk, List.length_take, hq, hp, ht, beq_self_eq_true, Bool.and_self]
      have hrec := ih ((r :: rest).drop c) (qs.drop c) (ps.drop c) (ts.drop c)
        (by simp [List.length_drop, hq]) (by simp [List.length_drop, hp]) (by simp [List.length_drop, ht])
        (by simp only [List.length_drop, List.length_cons] at hf ⊢; omega)
      rw [writeGo, hex, hlen, hrec]
      simp only [Bool.false_eq_true, if_false, if_true, Option.map_some, appendFiles]
      rw [maskSel_take_drop, maskSel_take_drop]

/-- the positional selection, restated on the level rows: a row is written to the file of its
own label together with the values at its own position -/
theorem maskSel_eq_fileSpec (keep : Bool) : ∀ (rows : List LRow) (vs : List (Rat × Rat)),
    (((((rows.map (fun r => (r.id, r.score))).zip vs).zip (rows.map (fun r => r.target))).filter
        (fun e => e.2 == keep)).map mkORow)
      = ((rows.zip vs).filter (fun e => e.1.target == keep)).map
          (fun e => { id := e.1.id, score := e.1.score, q := e.2.1, pep := e.2.2 }) := by
  intro rows
  induction rows with
  | nil => intro vs; simp
  | cons r rest ih =>
    intro vs
    cases vs with
    | nil => simp
    | cons v vt =>
      simp only [List.map_cons, List.zip_cons_cons, List.filter_cons]
      by_cases h : r.target = keep
      · simp only [h, beq_self_eq_true, if_true, List.map_cons, ih vt, mkORow]
      · have h' : (r.target == keep) = false := by simpa using h
        simp only [h', Bool.false_eq_true, if_false, ih vt]

theorem maskSel_level (keep : Bool) (rows : List LRow) (qs ps : List Rat) :
    maskSel keep (rows.map (fun r => (r.id, r.score))) qs ps (rows.map (fun r => r.target))
      = fileSpec keep rows qs ps := by
  unfold maskSel fileSpec
  exact maskSel_eq_fileSpec keep rows (qs.zip ps)

theorem writeConfidences_level (c : Nat) (hc : 1 ≤ c) (decoys : Bool) (rows : List LRow) (qs ps : List Rat)
    (hq : qs.length = rows.length) (hp : ps.length = rows.length) :
    writeConfidences c decoys (rows.map (fun r => (r.id, r.score))) qs ps (rows.map (fun r => r.target))
      = some (fileSpec true rows qs ps, if decoys then some (fileSpec false rows qs ps) else none) := by
  unfold writeConfidences
  rw [writeGo_eq c hc _ _ qs ps _ (by simpa using hq) (by simpa using hp) (by simp) (le_refl _)]
  simp [maskSel_level]

/-! ### members of the files -/

theorem mem_fileSpec {keep : Bool} {rows : List LRow} {qs ps : List Rat} {o : ORow}
    (h : o ∈ fileSpec keep rows qs ps) :
    ∃ (i : Nat) (hi : i < rows.length) (hq : i < qs.length) (hp : i < ps.length),
      rows[i].target = keep ∧ o = { id := rows[i].id, score := rows[i].score, q := qs[i], pep := ps[i] } := by
  unfold fileSpec at h
  obtain ⟨e, he, rfl⟩ := List.mem_map.mp h
  obtain ⟨hez, hk⟩ := List.mem_filter.mp he
  obtain ⟨i, hi, rfl⟩ := List.getElem_of_mem hez
  simp only [List.length_zip] at hi
  refine ⟨i, by omega, by omega, by omega, ?_, ?_⟩
  · simpa using hk
  · simp

/-! ### `xs[ind]` for an admissible argsort -/

theorem range_map_getD' {β : Type} (l : List β) (d : β) :
    (List.range l.length).map (fun i => l.getD i d) = l := by
  apply List.ext_getElem
  · simp
  · intro i h1 h2
    simp only [List.length_map, List.length_range] at h1
    simp [List.getD_eq_getElem?_getD, h1]

theorem takeIdx_perm {β : Type} (dflt : β) (l : List β) (ind : List Nat)
    (h : ind.Perm (List.range l.length)) : (takeIdx dflt l ind).Perm l := by
  unfold takeIdx
  have := h.map (fun i => l.getD i dflt)
  rwa [range_map_getD'] at this

theorem zip_getD_fst (ys : List Psm) (peps : List Rat) (hl : peps.length = ys.length) (i : Nat) :
    ((ys.zip peps).getD i ((0, false), 0)).1 = ys.getD i (0, false) := by
  by_cases hi : i < ys.length
  · have h2 : i < (ys.zip peps).length := by simp [List.length_zip, hl, hi]
    rw [List.getD_eq_getElem?_getD, List.getD_eq_getElem?_getD, List.getElem?_eq_getElem h2,
      List.getElem?_eq_getElem hi]
    simp [List.getElem_zip]
  · have h2 : ¬ i < (ys.zip peps).length := by simp [List.length_zip, hl, hi]
    rw [List.getD_eq_getElem?_getD, List.getD_eq_getElem?_getD, List.getElem?_eq_none (by omega),
      List.getElem?_eq_none (by omega)]
    rfl

theorem takeIdx_zip_sorted (ys : List Psm) (peps : List Rat) (hl : peps.length = ys.length) (ind : List Nat)
    (hv : ValidArgsort ys ind) :
    (takeIdx ((0, false), 0) (ys.zip peps) ind).Pairwise (fun a b => b.1.1 ≤ a.1.1) := by
  have h := hv.2
  unfold takeIdx
  rw [List.pairwise_map] at h ⊢
  refine h.imp ?_
  intro a b hab
  rw [zip_getD_fst ys peps hl a, zip_getD_fst ys peps hl b]
  exact hab

theorem takeIdx_psm_sorted (ys : List Psm) (ind : List Nat) (hv : ValidArgsort ys ind) :
    (takeIdx (0, false) ys ind).Pairwise (fun a b => b.1 ≤ a.1) := by
  have h := hv.2
  unfold takeIdx
  rw [List.pairwise_map] at h ⊢
  exact h

/-! ### the mean-PEP knots stay below any bound of the PEPs -/

theorem cumsumFrom_le_count (hi : Rat) (xs : List Rat) (h : ∀ x ∈ xs, x ≤ hi) :
    ∀ (acc : Rat) (k : Nat), acc ≤ (k : Rat) * hi →
      ∀ (i : Nat) (hlt : i < (cumsumFrom acc xs).length),
        (cumsumFrom acc xs)[i] ≤ ((k + i + 1 : Nat) : Rat) * hi := by
  induction xs with
  | nil => intro acc k _ i hlt; simp [cumsumFrom] at hlt
  | cons x rest ih =>
    intro acc k hacc i hlt
    have hx : x ≤ hi := h x List.mem_cons_self
    have hstep : acc + x ≤ ((k + 1 : Nat) : Rat) * hi := by
      push_cast
      linarith
    cases i with
    | zero => simpa [cumsumFrom] using hstep
    | succ j =>
      simp only [cumsumFrom, List.getElem_cons_succ]
      have := ih (fun y hy => h y (List.mem_cons_of_mem _ hy)) (acc + x) (k + 1) hstep j
        (by simpa [cumsumFrom] using hlt)
      have e : k + 1 + j + 1 = k + (j + 1) + 1 := by omega
      rw [e] at this
      exact this

theorem meanPrefix_le (hi : Rat) (ps : List Rat) (h : ∀ p ∈ ps, p ≤ hi) : ∀ y ∈ meanPrefix ps, y ≤ hi := by
  intro y hy
  unfold meanPrefix at hy
  obtain ⟨ci, hci, rfl⟩ := List.mem_map.mp hy
  obtain ⟨cv, i⟩ := ci
  obtain ⟨_, hlt, hval⟩ := List.mem_zipIdx hci
  simp only [Nat.zero_add, Nat.sub_zero] at hlt hval
  unfold divIdx
  simp only
  have hb := cumsumFrom_le_count hi ps h 0 0 (by simp) i (by simpa [cumsum] using hlt)
  have hpos : (0 : Rat) < ((i + 1 : Nat) : Rat) := by exact_mod_cast Nat.succ_pos i
  rw [div_le_iff₀ hpos]
  rw [hval]
  simp only [Nat.zero_add] at hb
  rw [mul_comm]
  exact hb

theorem pepKnots_le (hi : Rat) (sorted : List (Psm × Rat)) (h : ∀ e ∈ sorted, e.2 ≤ hi) :
    ∀ k ∈ pepKnots sorted, k.2 ≤ hi := by
  intro k hk
  unfold pepKnots at hk
  have h1 := mem_zip_snd hk
  rw [List.mem_reverse] at h1
  have h2 := runMax_mem _ _ h1
  apply meanPrefix_le hi _ _ _ h2
  intro p hp
  obtain ⟨e, he, rfl⟩ := List.mem_map.mp hp
  exact h e (List.mem_filter.mp he).1

theorem pepKnots_ne_nil (sorted : List (Psm × Rat)) (h : (sorted.filter isTgt).isEmpty = false) :
    pepKnots sorted ≠ [] := by
  unfold pepKnots
  intro hnil
  have hlen := congrArg List.length hnil
  simp only [List.length_zip, List.length_reverse, List.length_map, runMax_length, meanPrefix,
    List.length_zipIdx, cumsum, cumsumFrom_length, List.length_nil] at hlen
  cases hf : sorted.filter isTgt with
  | nil => simp [hf] at h
  | cons a t => simp [hf] at hlen

/-! ### PEPs of the hist_nnls estimator -/

theorem histNnlsOf_some (es d scores : List Rat) (r : List Rat) (h : histNnlsOf es d scores = some r) :
    r = scores.map (histPepFun es d) := by
  unfold histNnlsOf at h
  cases h
  rfl

theorem histPepFun_range (es d : List Rat) (x : Rat) : 0 ≤ histPepFun es d x ∧ histPepFun es d x ≤ 1 :=
  ⟨le_clip 0 1 _ (by norm_num), clip_le 0 1 _⟩

theorem kdePepFun_range (es d : List Rat) (x : Rat) : 0 ≤ kdePepFun es d x ∧ kdePepFun es d x ≤ 1 :=
  ⟨le_clip 0 1 _ (by norm_num), clip_le 0 1 _⟩

theorem kdePepFun_anti (es d : List Rat) (hd : ∀ x ∈ d, 0 ≤ x) {a b : Rat} (hab : a ≤ b) :
    kdePepFun es d b ≤ kdePepFun es d a :=
  clip_mono 0 1 (interp_anti _ (antiKnots_zip es _ (revCumsum_anti d hd)) hab)

theorem histPepFun_anti (es d : List Rat) (hd : ∀ x ∈ d, 0 ≤ x) {a b : Rat} (hab : a ≤ b) :
    histPepFun es d b ≤ histPepFun es d a :=
  clip_mono 0 1 (interp_anti _ (antiKnots_zip es _
    (scaleToOne_anti _ (revCumsum_anti d hd) (revCumsum_nonneg d hd))) hab)

theorem zip_map_self {β γ : Type} (l : List β) (f : β → γ) :
    l.zip (l.map f) = l.map (fun y => (y, f y)) := by
  induction l with
  | nil => rfl
  | cons a t ih => simp [ih]

/-- the kernel hypothesis of each table entry: qvality (either version) returns the response
`g` at the descending scores, `g` non-increasing with values in `[0,1]`; the NNLS estimators
have a non-negative NNLS solution -/
def PepKernelOK (a : PepAlg) (g : Rat → Rat) (k : Kern) (xs : List Psm) : Prop :=
  ((a = PepAlg.qvality ∨ a = PepAlg.qvalityBin) →
    QvalityKernelOK k.qv g xs ∧ (∀ p q, p ≤ q → g q ≤ g p) ∧ (∀ p, 0 ≤ g p ∧ g p ≤ 1)) ∧
  ((a = PepAlg.kdeNnls ∨ a = PepAlg.histNnls) → ∀ x ∈ k.d, 0 ≤ x)

/-- entries of `l[ind]` are entries of `l` or the filler -/
theorem mem_takeIdx {β : Type} (dflt : β) (l : List β) (ind : List Nat) (e : β)
    (h : e ∈ takeIdx dflt l ind) : e ∈ l ∨ e = dflt := by
  unfold takeIdx at h
  obtain ⟨i, _, rfl⟩ := List.mem_map.mp h
  by_cases hi : i < l.length
  · left
    simp [List.getD_eq_getElem?_getD, hi]
  · right
    simp [List.getD_eq_getElem?_getD, hi]

end Mk.Peps
