import MokapotVerif.Lemmas.FitLabels
/-! Helper lemmas for C12: the start labels follow a permutation of the input rows. -/
namespace Mk.Fit
variable {α β γ ρ θ : Type}

theorem dirLe_totalPre (le : α → α → Bool) (hle : TotalPre le) (desc : Bool) : TotalPre (dirLe le desc) := by
  cases desc
  · constructor
    · intro a b; simp only [dirLe, Bool.false_eq_true, if_false]; exact (hle.total b a)
    · intro a b c h1 h2
      simp only [dirLe, Bool.false_eq_true, if_false] at h1 h2 ⊢
      exact hle.trans _ _ _ h2 h1
  · constructor
    · intro a b; simp only [dirLe, if_true]; exact hle.total a b
    · intro a b c h1 h2
      simp only [dirLe, if_true] at h1 h2 ⊢
      exact hle.trans _ _ _ h1 h2

theorem gather_nil_left (p : List Nat) : gather ([] : List β) p = [] := by
  induction p with
  | nil => rfl
  | cons i p ih => rw [gather_cons, ih]; simp

theorem colLabels_nil (le : α → α → Bool) (thr : Rat) (targets : List Bool) (desc : Bool) :
    colLabels le thr targets desc [] = [] := by
  have h := colLabels_length le thr targets desc []
  simp only [List.length_nil, Nat.zero_min] at h
  exact List.eq_nil_of_length_eq_zero h

theorem colLabels_equivariant (le : α → α → Bool) (hle : TotalPre le) (thr : Rat) (targets : List Bool)
    (desc : Bool) (p : List Nat) (hp : p.Perm (List.range targets.length)) (col : List α)
    (hc : col.length = targets.length ∨ col = []) :
    colLabels le thr (gather targets p) desc (gather col p) = gather (colLabels le thr targets desc col) p := by
  rcases hc with hc | hc
  · exact tdcRelabel_equivariant (dirLe le desc) (dirLe_totalPre le hle desc) thr targets col p targets.length hp rfl hc
  · subst hc
    rw [gather_nil_left, colLabels_nil, colLabels_nil, gather_nil_left]

theorem numPos_colLabels_gather (le : α → α → Bool) (hle : TotalPre le) (thr : Rat) (targets : List Bool)
    (desc : Bool) (p : List Nat) (hp : p.Perm (List.range targets.length)) (col : List α)
    (hc : col.length = targets.length ∨ col = []) :
    numPos (colLabels le thr (gather targets p) desc (gather col p)) = numPos (colLabels le thr targets desc col) := by
  rw [colLabels_equivariant le hle thr targets desc p hp col hc]
  rcases hc with hc | hc
  · apply numPos_gather
    rw [colLabels_length, hc, Nat.min_self]
    exact hp
  · subst hc
    rw [colLabels_nil, gather_nil_left]

theorem getD_map_gather (cols : List (List α)) (p : List Nat) (i : Nat) :
    (cols.map (fun c => gather c p)).getD i [] = gather (cols.getD i []) p := by
  by_cases hi : i < cols.length
  · simp [List.getD, List.getElem?_eq_getElem hi]
  · simp [List.getD, List.getElem?_eq_none (by omega : cols.length ≤ i), gather_nil_left]

theorem getD_col_ok (cols : List (List α)) (n : Nat) (hc : ∀ c ∈ cols, c.length = n) (i : Nat) :
    (cols.getD i []).length = n ∨ cols.getD i [] = [] := by
  by_cases hi : i < cols.length
  · left
    have : cols.getD i [] = cols[i] := by simp [List.getD, List.getElem?_eq_getElem hi]
    rw [this]; exact hc _ (List.getElem_mem hi)
  · right
    simp [List.getD, List.getElem?_eq_none (by omega : cols.length ≤ i)]

theorem bestInDir_gather (le : α → α → Bool) (hle : TotalPre le) (thr : Rat) (targets : List Bool)
    (cols : List (List α)) (hc : ∀ c ∈ cols, c.length = targets.length) (p : List Nat)
    (hp : p.Perm (List.range targets.length)) (desc : Bool) :
    bestInDir le thr (gather targets p) (cols.map (fun c => gather c p)) desc = bestInDir le thr targets cols desc := by
  unfold bestInDir
  have : (cols.map (fun c => gather c p)).map (fun c => numPos (colLabels le thr (gather targets p) desc c))
      = cols.map (fun c => numPos (colLabels le thr targets desc c)) := by
    rw [List.map_map]
    apply List.map_congr_left
    intro c hcm
    exact numPos_colLabels_gather le hle thr targets desc p hp c (Or.inl (hc c hcm))
  simp only [this]

/-- the start labels of the row-permuted dataset are the permuted start labels -/
theorem startLabels_gather (le : α → α → Bool) (hle : TotalPre le) (thr : Rat) (targets : List Bool)
    (cols : List (List α)) (hc : ∀ c ∈ cols, c.length = targets.length) (p : List Nat)
    (hp : p.Perm (List.range targets.length)) (direction : Option Nat) :
    startLabels le thr (gather targets p) (cols.map (fun c => gather c p)) direction
      = (startLabels le thr targets cols direction).map (fun st => ⟨gather st.labels p, st.featPass⟩) := by
  unfold startLabels
  cases direction with
  | some j =>
    simp only [Option.map_some, Option.getD_some, dirStart]
    rw [getD_map_gather]
    have hok := getD_col_ok cols targets.length hc j
    generalize cols.getD j [] = col at hok
    have e1 := colLabels_equivariant le hle thr targets true p hp col hok
    have e2 := colLabels_equivariant le hle thr targets false p hp col hok
    have n1 := numPos_colLabels_gather le hle thr targets true p hp col hok
    have n2 := numPos_colLabels_gather le hle thr targets false p hp col hok
    rw [e1] at n1
    rw [e2] at n2
    rw [e1, e2, n1, n2]
    by_cases hge : numPos (colLabels le thr targets true col) ≥ numPos (colLabels le thr targets false col)
    · simp only [if_pos hge, n1]
      split <;> simp
    · simp only [if_neg hge, n2]
      split <;> simp
  | none =>
    simp only [Option.map_none, Option.getD_none, findBest]
    rw [bestInDir_gather le hle thr targets cols hc p hp true, bestInDir_gather le hle thr targets cols hc p hp false,
      getD_map_gather, getD_map_gather,
      colLabels_equivariant le hle thr targets false p hp _ (getD_col_ok cols targets.length hc _),
      colLabels_equivariant le hle thr targets true p hp _ (getD_col_ok cols targets.length hc _)]
    split
    · simp
    · split <;> simp

theorem all_gather (targets : List Bool) (p : List Nat) (hp : p.Perm (List.range targets.length)) (f : Bool → Bool) :
    (gather targets p).all f = targets.all f := by
  have h := gather_perm targets p hp
  rw [Bool.eq_iff_iff, List.all_eq_true, List.all_eq_true]
  constructor
  · intro hx x hm; exact hx x (h.mem_iff.mpr hm)
  · intro hx x hm; exact hx x (h.mem_iff.mp hm)

end Mk.Fit
