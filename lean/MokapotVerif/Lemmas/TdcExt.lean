import MokapotVerif.Model.TdcExt
import MokapotVerif.Props.C03Merge
import MokapotVerif.Props.C04
/-!
# Helper lemmas for the C04 extension (roll-up tool stream, ensemble scores, model order)
-/
namespace Mk.TdcX
open Mk

theorem rowLe_eq : (rowLe : Row → Row → Bool) = Mk.rowLe := rfl

theorem rowLe_totalPre : TotalPre rowLe := by rw [rowLe_eq]; exact Mk.rowLe_totalPre

/-! ## the roll-up tool -/

/-- the merged reader of the tool on non-empty input files sorted best-first: no error, and the
rows come out as the stable sort by decreasing score of the decoy files followed by the target
files -/
theorem toolStream_eq (tf df : List (List Row)) (hne : tf ++ df ≠ []) (hrow : [] ∉ tf ++ df)
    (hs : ∀ f ∈ tf ++ df, SortedRows f) :
    toolStream tf df = some (Merge.stableSortDesc rowLe (df.flatten ++ tf.flatten), false) := by
  unfold toolStream
  have hne' : df ++ tf ≠ [] := by
    intro h
    rcases List.append_eq_nil_iff.mp h with ⟨h1, h2⟩
    exact hne (by rw [h1, h2]; rfl)
  have hrow' : [] ∉ df ++ tf := by
    intro h
    exact hrow (by rw [List.mem_append] at h ⊢; exact h.symm)
  have := Merge.C14_checked_eq_stable_sort rowLe rowLe_totalPre true (df ++ tf) hne' hrow'
    (by
      intro xs hxs
      have hx : xs ∈ tf ++ df := by rw [List.mem_append] at hxs ⊢; exact hxs.symm
      have h1 := (sortedRows_iff_nonIncr xs).mp (hs xs hx)
      simpa [Merge.SortedAs, rowLe_eq] using h1)
  rw [this]
  simp [Merge.stableSortAs, List.flatten_append]

theorem stableStream_sorted (xs : List Row) : SortedRows (Merge.stableSortDesc rowLe xs) := by
  rw [sortedRows_iff_nonIncr, ← rowLe_eq]
  exact Merge.stableSortDesc_sorted rowLe rowLe_totalPre xs

/-- with key-wise distinct scores, the rows of a level are exactly the rows that score highest
within their key -/
theorem levelSpec_mem_iff_max (key : Row → Nat) (input out : List Row)
    (htf : ∀ a ∈ input, ∀ b ∈ input, key a = key b → a.score = b.score → a = b)
    (h : LevelSpec key input out) (r : Row) :
    r ∈ out ↔ r ∈ input ∧ ∀ r' ∈ input, key r' = key r → r'.score ≤ r.score := by
  obtain ⟨_, hnd, hsub, hcov⟩ := h
  constructor
  · intro hr
    refine ⟨hsub r hr, ?_⟩
    intro r' hr' hk
    obtain ⟨o, ho, hko, hso⟩ := hcov r' hr'
    have : o = r := List.inj_on_of_nodup_map hnd ho hr (hko.trans hk)
    rw [← this]; exact hso
  · rintro ⟨hr, hmax⟩
    obtain ⟨o, ho, hko, hso⟩ := hcov r hr
    have hos : o.score ≤ r.score := hmax o (hsub o ho) hko
    have : o = r := htf o (hsub o ho) r hr hko (le_antisymm hos hso)
    rw [← this]; exact ho

theorem relabel_id (f : Nat → Bool) (r : Row) : (Row.relabel f r).id = r.id := rfl
theorem relabel_score (f : Nat → Bool) (r : Row) : (Row.relabel f r).score = r.score := rfl
theorem relabel_key (f : Nat → Bool) (r : Row) (l : Nat) : (Row.relabel f r).key l = r.key l := rfl
theorem relabel_spec (f : Nat → Bool) (r : Row) : (Row.relabel f r).spec = r.spec := rfl
theorem relabel_target (f : Nat → Bool) (r : Row) : (Row.relabel f r).target = f r.id := rfl

/-- the ids surviving at a level, for a stream that is *some* best-first arrangement of the rows
labelled by `f`, when scores are distinct within every key: they are the ids of the key-wise
best rows — an expression in which neither the labelling nor the arrangement occurs -/
theorem survivors_ids_tiefree (key : Row → Nat) (hkey : ∀ f r, key (Row.relabel f r) = key r)
    (rows : List Row)
    (htf : ∀ a ∈ rows, ∀ b ∈ rows, key a = key b → a.score = b.score → a = b)
    (f : Nat → Bool) (S : List Row) (hp : S.Perm (rows.map (Row.relabel f))) (hs : SortedRows S)
    (i : Nat) :
    i ∈ (dedupFirst key [] S).map Row.id ↔
      ∃ r ∈ rows, r.id = i ∧ ∀ r' ∈ rows, key r' = key r → r'.score ≤ r.score := by
  have hspec := dedupFirst_levelSpec key S hs
  have hmemS : ∀ x, x ∈ S ↔ ∃ r ∈ rows, Row.relabel f r = x := by
    intro x; rw [hp.mem_iff, List.mem_map]
  have htfS : ∀ a ∈ S, ∀ b ∈ S, key a = key b → a.score = b.score → a = b := by
    intro a ha b hb hk hsc
    obtain ⟨a0, ha0, rfl⟩ := (hmemS a).mp ha
    obtain ⟨b0, hb0, rfl⟩ := (hmemS b).mp hb
    rw [hkey, hkey] at hk
    rw [relabel_score, relabel_score] at hsc
    rw [htf a0 ha0 b0 hb0 hk hsc]
  constructor
  · intro hi
    obtain ⟨x, hx, rfl⟩ := List.mem_map.mp hi
    obtain ⟨hxS, hmax⟩ := (levelSpec_mem_iff_max key S _ htfS hspec x).mp hx
    obtain ⟨r, hr, rfl⟩ := (hmemS x).mp hxS
    refine ⟨r, hr, rfl, ?_⟩
    intro r' hr' hk
    have := hmax (Row.relabel f r') ((hmemS _).mpr ⟨r', hr', rfl⟩) (by rw [hkey, hkey]; exact hk)
    simpa [relabel_score] using this
  · rintro ⟨r, hr, rfl, hmax⟩
    refine List.mem_map.mpr ⟨Row.relabel f r, ?_, rfl⟩
    refine (levelSpec_mem_iff_max key S _ htfS hspec _).mpr ⟨(hmemS _).mpr ⟨r, hr, rfl⟩, ?_⟩
    intro x hx hk
    obtain ⟨r', hr', rfl⟩ := (hmemS x).mp hx
    rw [hkey, hkey] at hk
    simpa [relabel_score] using hmax r' hr' hk


/-! ## the tie rule is one-sided: a surviving target strictly beats every decoy of its id -/

/-- a row kept by `dedupFirst` is the first row of its key in the stream -/
theorem dedupFirst_mem_first (key : Row → Nat) : ∀ (xs : List Row) (seen : List Nat) (r : Row),
    r ∈ dedupFirst key seen xs →
      ∃ pre post, xs = pre ++ r :: post ∧ ∀ x ∈ pre, key x ≠ key r := by
  intro xs
  induction xs with
  | nil => intro seen r h; simp [dedupFirst] at h
  | cons y ys ih =>
    intro seen r h
    unfold dedupFirst at h
    split at h
    · obtain ⟨pre, post, he, hk⟩ := ih seen r h
      rename_i hseen
      refine ⟨y :: pre, post, by rw [he]; rfl, ?_⟩
      intro x hx
      rcases List.mem_cons.mp hx with rfl | hx
      · intro hxy
        have hr := dedupFirst_key_not_seen key ys seen r h
        rw [← hxy] at hr
        exact hr (by simpa using hseen)
      · exact hk x hx
    · rcases List.mem_cons.mp h with rfl | h
      · exact ⟨[], ys, rfl, by simp⟩
      · obtain ⟨pre, post, he, hk⟩ := ih (key y :: seen) r h
        refine ⟨y :: pre, post, by rw [he]; rfl, ?_⟩
        intro x hx
        rcases List.mem_cons.mp hx with rfl | hx
        · intro hxy
          have hr := dedupFirst_key_not_seen key ys (key x :: seen) r h
          exact hr (by rw [← hxy]; simp)
        · exact hk x hx

/-- in the decoy-first stable stream a target that is the first row of its key has no decoy of the
same key and the same score anywhere in the stream -/
theorem first_target_beats_tied_decoys (key : Row → Nat) (D T : List Row)
    (hD : ∀ x ∈ D, x.target = false) (hT : ∀ x ∈ T, x.target = true)
    (r : Row) (hr : r ∈ dedupFirst key [] (Merge.stableSortDesc rowLe (D ++ T))) (hrt : r.target = true)
    (d : Row) (hd : d ∈ D ++ T) (hdt : d.target = false) (hk : key d = key r) :
    d.score < r.score := by
  set S := Merge.stableSortDesc rowLe (D ++ T) with hS
  have hspec := dedupFirst_levelSpec key S (stableStream_sorted _)
  have hdS : d ∈ S := (Merge.stableSortDesc_perm rowLe (D ++ T)).mem_iff.mpr hd
  obtain ⟨o, ho, hko, hso⟩ := hspec.2.2.2 d hdS
  have hor : o = r := List.inj_on_of_nodup_map hspec.2.1 ho hr (hko.trans hk)
  rw [hor] at hso
  rcases lt_or_eq_of_le hso with hlt | heq
  · exact hlt
  · exfalso
    obtain ⟨pre, post, he, hpre⟩ := dedupFirst_mem_first key S [] r hr
    have hfil := (Merge.C14_stable_sort_spec rowLe rowLe_totalPre (D ++ T)).2.2 r
    rw [← hS, he, List.filter_append, List.filter_append] at hfil
    have htr : Merge.tieWith rowLe r r = true := by simp [Merge.tieWith, rowLe]
    have htd : Merge.tieWith rowLe r d = true := by simp [Merge.tieWith, rowLe, heq]
    rw [List.filter_cons, htr] at hfil
    simp only [if_true] at hfil
    have hdD : d ∈ D := by
      rcases List.mem_append.mp hd with h | h
      · exact h
      · rw [hT d h] at hdt; exact absurd hdt (by simp)
    have hdA : d ∈ D.filter (Merge.tieWith rowLe r) := List.mem_filter.mpr ⟨hdD, htd⟩
    have hrA : r ∉ D.filter (Merge.tieWith rowLe r) := by
      intro h
      have := hD r (List.mem_filter.mp h).1
      rw [hrt] at this; exact absurd this (by simp)
    have hdX : d ∉ pre.filter (Merge.tieWith rowLe r) := by
      intro h
      exact hpre d (List.mem_filter.mp h).1 hk
    rcases List.append_eq_append_iff.mp hfil with ⟨a', hX, _⟩ | ⟨c', hA, hc⟩
    · -- D.filter = pre.filter ++ a'
      rw [hX] at hdA hrA
      rcases List.mem_append.mp hdA with h | h
      · exact hdX h
      · cases a' with
        | nil => simp at h
        | cons a0 as =>
          rename_i hB
          have : a0 = r := by
            have := congrArg List.head? hB
            simpa using this.symm
          rw [this] at hrA
          exact hrA (by simp)
    · -- pre.filter = D.filter ++ c'
      rw [hA] at hdX
      exact hdX (List.mem_append_left _ hdA)

/-! ## ensemble scores -/

theorem ensScores_eq {ρ : Type} (c : Nat) (hc : 0 < c) (rows : List ρ) (k : Nat) (score : Nat → ρ → Rat) :
    ensScores c rows k score = (List.range k).map (fun f => rows.map (score f)) := by
  unfold ensScores
  apply List.map_congr_left
  intro f _
  rw [← List.map_flatten, Brew.chunks_flatten c hc]

theorem predictEnsemble_eq_spec {ρ : Type} (c : Nat) (hc : 0 < c) (rows : List ρ) (k : Nat)
    (score : Nat → ρ → Rat) : predictEnsemble c rows k score = ensembleSpec rows k score := by
  unfold predictEnsemble ensembleSpec colMean
  rw [ensScores_eq c hc]
  apply List.ext_getElem
  · simp
  · intro p h1 h2
    simp only [List.length_map, List.length_range] at h1
    simp only [List.getElem_map, List.getElem_range, List.length_map, List.length_range, List.map_map]
    congr 2
    apply List.map_congr_left
    intro f _
    simp [Function.comp, List.getD_eq_getElem?_getD, h1]

/-! ## models in fold order -/

/-- comparison used by `sortByFold` (descending in this order = ascending in the fold number) -/
def foldGe {μ : Type} (a b : Nat × μ) : Bool := decide (b.1 ≤ a.1)

theorem foldGe_totalPre {μ : Type} : TotalPre (foldGe (μ := μ)) := by
  constructor
  · intro a b; simp only [foldGe, decide_eq_true_eq]; exact le_total _ _
  · intro a b c h1 h2; simp only [foldGe, decide_eq_true_eq] at *; exact le_trans h2 h1

theorem sortByFold_perm {μ : Type} (ms : List (Nat × μ)) : (sortByFold ms).Perm ms :=
  Merge.stableSortDesc_perm _ ms

theorem sortByFold_sorted {μ : Type} (ms : List (Nat × μ)) :
    (sortByFold ms).Pairwise (fun a b => a.1 ≤ b.1) := by
  have := Merge.stableSortDesc_sorted (foldGe (μ := μ)) foldGe_totalPre ms
  unfold Merge.NonIncr at this
  refine List.Pairwise.imp ?_ this
  intro a b h
  simpa [foldGe] using h

end Mk.TdcX
