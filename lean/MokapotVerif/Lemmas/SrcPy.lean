import MokapotVerif.Model.SrcPrelude
import MokapotVerif.Model.Digest
/-!
# Lemmas about the prelude of the source translation (`Model/SrcPrelude.lean`)

How the Python primitives behave on the arguments the real callers pass
(natural numbers embedded in `Int`, one-character separators), and how the loop
combinators `forM` / `forT` run a body that only appends to an insertion log.
-/
namespace Mk.Py

/-- embedding of the model's natural numbers into Python's `int` -/
abbrev ofN (n : Nat) : Int := (n : Int)

/-! ## loops whose body appends to a log -/

theorem forM_map_next {α β τ : Type} (f : List τ → α → Step (List τ)) (c : β → α) (g : β → List τ) :
    ∀ (ys : List β), (∀ acc y, y ∈ ys → f acc (c y) = Step.next (acc ++ g y)) →
      ∀ acc, forM f (ys.map c) acc = some (acc ++ ys.flatMap g)
  | [], _, acc => by simp [forM]
  | y :: ys, h, acc => by
    have ih := forM_map_next f c g ys (fun a z hz => h a z (List.mem_cons_of_mem _ hz))
    simp [forM, h acc y (List.mem_cons_self ..), ih, List.append_assoc]

theorem forT_map_next {α β τ : Type} (f : List τ → α → Step (List τ)) (c : β → α) (g : β → List τ) :
    ∀ (ys : List β), (∀ acc y, y ∈ ys → f acc (c y) = Step.next (acc ++ g y)) →
      ∀ acc, forT f (ys.map c) acc = acc ++ ys.flatMap g
  | [], _, acc => by simp [forT]
  | y :: ys, h, acc => by
    have ih := forT_map_next f c g ys (fun a z hz => h a z (List.mem_cons_of_mem _ hz))
    simp [forT, h acc y (List.mem_cons_self ..), ih, List.append_assoc]

@[simp] theorem ofOpt_some {α σ : Type} (a : α) (k : α → Step σ) : Step.ofOpt (some a) k = k a := rfl
@[simp] theorem ofOpt_none {α σ : Type} (k : α → Step σ) : Step.ofOpt (none : Option α) k = Step.err := rfl

/-! ## built-ins on embedded naturals -/

@[simp] theorem len_eq {α : Type} (l : List α) : len l = (l.length : Int) := rfl

theorem pyIdx_ofN (n a : Nat) : pyIdx n (a : Int) = min a n := by
  unfold pyIdx; simp; omega

theorem pyIdx_neg (n a : Nat) (ha : 1 ≤ a) : pyIdx n (-(a : Int)) = n - a := by
  unfold pyIdx
  have h : (-(a : Int)) < 0 := by omega
  rw [if_pos h]; omega

/-- `xs[a:b]` for `0 ≤ a, b` is the model's `slice` -/
theorem pySlice_ofN {α : Type} (l : List α) (a b : Nat) :
    pySlice l (a : Int) (b : Int) = (l.take b).drop a := by
  unfold pySlice
  rw [pyIdx_ofN, pyIdx_ofN]
  rw [List.take_eq_take_min (l := l) (i := b)] 
  by_cases h : a ≤ l.length
  · rw [Nat.min_eq_left h]
  · have h' : l.length ≤ a := by omega
    rw [Nat.min_eq_right h']
    rw [List.drop_eq_nil_of_le, List.drop_eq_nil_of_le]
    · simp; omega
    · simp; omega

theorem pySlice_str (l : Str) (a b : Nat) : pySlice l (a : Int) (b : Int) = slice l a b :=
  pySlice_ofN l a b

theorem pyFrom_ofN {α : Type} (l : List α) (a : Nat) : pyFrom l (a : Int) = l.drop a := by
  unfold pyFrom
  rw [pyIdx_ofN]
  by_cases h : a ≤ l.length
  · rw [Nat.min_eq_left h]
  · have h' : l.length ≤ a := by omega
    rw [Nat.min_eq_right h', List.drop_eq_nil_of_le (Nat.le_refl _), List.drop_eq_nil_of_le h']

theorem pyUpTo_ofN {α : Type} (l : List α) (b : Nat) : pyUpTo l (b : Int) = l.take b := by
  unfold pyUpTo
  rw [pyIdx_ofN, ← List.take_eq_take_min]

theorem pyUpTo_neg {α : Type} (l : List α) (b : Nat) (hb : 1 ≤ b) :
    pyUpTo l (-(b : Int)) = l.take (l.length - b) := by
  unfold pyUpTo
  rw [pyIdx_neg _ _ hb]

/-- `range(a, b)` on embedded naturals -/
theorem range_eq (a b : Int) (a' n : Nat) (ha : a = (a' : Int)) (hn : (b - a).toNat = n) :
    range a b = (List.range' a' n).map ofN := by
  unfold range
  rw [hn, List.range'_eq_map_range]
  simp [ha, Function.comp_def]

/-- number of elements of `range(0, n, c)` -/
theorem range3_count (n c : Nat) : (((n : Int) - 0 + (c : Int) - 1) / (c : Int)).toNat = (n + c - 1) / c := by
  by_cases hc : c = 0
  · subst hc; simp
  · have : ((n : Int) - 0 + (c : Int) - 1) = ((n + c - 1 : Nat) : Int) := by omega
    rw [this, ← Int.natCast_ediv, Int.toNat_natCast]

/-- `xs[i]` on an embedded natural -/
theorem index?_ofN {α : Type} (l : List α) (i : Nat) : index? l (i : Int) = l[i]? := by
  unfold index?; simp

theorem enumerate_map {α β : Type} (f : α → β) (l : List α) :
    enumerate (l.map f) = l.zipIdx.map (fun p => ((p.2 : Int), f p.1)) := by
  unfold enumerate
  rw [List.zipIdx_map]
  simp [Function.comp_def]

/-- `s.split(c)` for a one-character separator is `Mk.splitOn` -/
theorem splitGo_single (c : Char) : ∀ s : Str, splitGo [c] 0 s = splitOn c s
  | [] => by simp [splitGo, splitOn]
  | d :: ds => by
    have ih := splitGo_single c ds
    by_cases h : d = c
    · subst h; simp [splitGo, splitOn, ih, List.isPrefixOf]
    · have h' : ¬ c = d := fun e => h e.symm
      simp [splitGo, splitOn, ih, List.isPrefixOf, h, h']

theorem split?_single (s : Str) (c : Char) : split? s [c] = some (splitOn c s) := by
  simp [split?, splitGo_single]

end Mk.Py
