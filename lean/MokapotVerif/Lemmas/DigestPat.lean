import MokapotVerif.Lemmas.DigestGen
import Mathlib.Data.List.Sort
/-!
Facts about the left-to-right scan `matchEndsP` (general fixed-width patterns):
every reported end is the end of a match, reported matches do not overlap, no
match is left out (leftmost maximal), ends are increasing and within the
sequence; hence the list of sites has the shape required by
`Lemmas/DigestGen.lean`.
-/
namespace Mk

/-! ## the pattern matcher -/

theorem bodyRest_length (ks : List ResClass) (s r : List Char) (h : bodyRest ks s = some r) :
    s.length = ks.length + r.length := by
  induction ks generalizing s with
  | nil => simp only [bodyRest, Option.some.injEq] at h; subst h; simp
  | cons k ks ih =>
    cases s with
    | nil => simp [bodyRest] at h
    | cons c s =>
      simp only [bodyRest] at h
      split at h
      · have := ih s h
        simp only [List.length_cons]; omega
      · cases h

theorem matchHere_length (e : EnzymeP) (s : List Char) (h : matchHere e s = true) : e.width ≤ s.length := by
  unfold matchHere at h
  cases hb : bodyRest (e.first :: e.more) s with
  | none => rw [hb] at h; simp at h
  | some r =>
    have := bodyRest_length _ _ _ hb
    simp only [List.length_cons] at this
    unfold EnzymeP.width; omega

theorem matchHere_nil (e : EnzymeP) : matchHere e [] = false := by
  simp [matchHere, bodyRest]

theorem matchAt_lt (e : EnzymeP) (seq : List Char) (s : Nat) (h : matchAt e seq s = true) :
    s + e.width ≤ seq.length := by
  unfold matchAt at h
  have := matchHere_length e _ h
  rw [List.length_drop] at this
  have hw : 1 ≤ e.width := by unfold EnzymeP.width; omega
  omega

/-! ## the scan -/

theorem matchEndsP_sound (e : EnzymeP) (off skip : Nat) (suf : List Char) (x : Nat)
    (h : x ∈ matchEndsP e off skip suf) :
    ∃ j, x = off + j + e.width ∧ skip ≤ j ∧ matchHere e (suf.drop j) = true := by
  induction suf generalizing off skip with
  | nil => simp [matchEndsP] at h
  | cons c rest ih =>
    cases skip with
    | succ k =>
      simp only [matchEndsP] at h
      obtain ⟨j, h1, h2, h3⟩ := ih (off + 1) k h
      exact ⟨j + 1, by omega, by omega, by simpa using h3⟩
    | zero =>
      simp only [matchEndsP] at h
      split at h
      · rename_i hm
        rcases List.mem_cons.mp h with h | h
        · exact ⟨0, by omega, Nat.le_refl _, by simpa using hm⟩
        · obtain ⟨j, h1, h2, h3⟩ := ih (off + 1) e.more.length h
          exact ⟨j + 1, by omega, by omega, by simpa using h3⟩
      · obtain ⟨j, h1, h2, h3⟩ := ih (off + 1) 0 h
        exact ⟨j + 1, by omega, by omega, by simpa using h3⟩

theorem matchEndsP_apart (e : EnzymeP) (off skip : Nat) (suf : List Char) :
    (matchEndsP e off skip suf).Pairwise (fun x y => x + e.width ≤ y) := by
  induction suf generalizing off skip with
  | nil => simp [matchEndsP]
  | cons c rest ih =>
    cases skip with
    | succ k => simp only [matchEndsP]; exact ih _ _
    | zero =>
      simp only [matchEndsP]
      split
      · refine List.Pairwise.cons ?_ (ih _ _)
        intro y hy
        obtain ⟨j, h1, h2, -⟩ := matchEndsP_sound e _ _ _ y hy
        unfold EnzymeP.width at *; omega
      · exact ih _ _

theorem matchEndsP_leftmost (e : EnzymeP) (off skip : Nat) (suf : List Char) (j : Nat)
    (hj : skip ≤ j) (hm : matchHere e (suf.drop j) = true) :
    ∃ j', j' ≤ j ∧ j < j' + e.width ∧ skip ≤ j' ∧ off + j' + e.width ∈ matchEndsP e off skip suf := by
  induction suf generalizing off skip j with
  | nil => rw [List.drop_nil, matchHere_nil] at hm; cases hm
  | cons c rest ih =>
    cases skip with
    | succ k =>
      obtain ⟨j0, rfl⟩ : ∃ j0, j = j0 + 1 := ⟨j - 1, by omega⟩
      simp only [List.drop_succ_cons] at hm
      obtain ⟨j', h1, h2, h3, h4⟩ := ih (off + 1) k j0 (by omega) hm
      refine ⟨j' + 1, by omega, by omega, by omega, ?_⟩
      simp only [matchEndsP]
      rw [show off + (j' + 1) + e.width = off + 1 + j' + e.width by omega]; exact h4
    | zero =>
      simp only [matchEndsP]
      by_cases h0 : matchHere e (c :: rest) = true
      · rw [if_pos h0]
        by_cases hjw : j < e.width
        · exact ⟨0, Nat.zero_le _, by omega, Nat.le_refl _, by simp⟩
        · obtain ⟨j0, rfl⟩ : ∃ j0, j = j0 + 1 := ⟨j - 1, by unfold EnzymeP.width at hjw; omega⟩
          simp only [List.drop_succ_cons] at hm
          obtain ⟨j', h1, h2, h3, h4⟩ :=
            ih (off + 1) e.more.length j0 (by unfold EnzymeP.width at hjw; omega) hm
          refine ⟨j' + 1, by omega, by omega, Nat.zero_le _, ?_⟩
          rw [show off + (j' + 1) + e.width = off + 1 + j' + e.width by omega]
          exact List.mem_cons_of_mem _ h4
      · rw [if_neg h0]
        cases j with
        | zero => simp only [List.drop_zero] at hm; exact absurd hm h0
        | succ j0 =>
          simp only [List.drop_succ_cons] at hm
          obtain ⟨j', h1, h2, h3, h4⟩ := ih (off + 1) 0 j0 (Nat.zero_le _) hm
          refine ⟨j' + 1, by omega, by omega, Nat.zero_le _, ?_⟩
          rw [show off + (j' + 1) + e.width = off + 1 + j' + e.width by omega]; exact h4

/-! ## top level -/

theorem width_pos (e : EnzymeP) : 1 ≤ e.width := by unfold EnzymeP.width; omega

theorem isEndP_iff (e : EnzymeP) (seq : List Char) (p : Nat) :
    isEndP e seq p = true ↔ p ∈ matchEndsP e 0 0 seq := by
  unfold isEndP; exact List.contains_iff_mem

theorem isEndP_sound (e : EnzymeP) (seq : List Char) (p : Nat) (h : isEndP e seq p = true) :
    e.width ≤ p ∧ p ≤ seq.length ∧ matchAt e seq (p - e.width) = true := by
  rw [isEndP_iff] at h
  obtain ⟨j, h1, -, h3⟩ := matchEndsP_sound e 0 0 seq p h
  have h3' : matchAt e seq j = true := h3
  have := matchAt_lt e seq j h3'
  refine ⟨by omega, by omega, ?_⟩
  rw [show p - e.width = j by omega]; exact h3'

theorem matchEndsP_lt (e : EnzymeP) (seq : List Char) : (matchEndsP e 0 0 seq).Pairwise (· < ·) :=
  (matchEndsP_apart e 0 0 seq).imp (fun {a b} h => by have := width_pos e; omega)

theorem pairwise_mem_cases {R : Nat → Nat → Prop} {l : List Nat} (h : l.Pairwise R) {a b : Nat}
    (ha : a ∈ l) (hb : b ∈ l) : a = b ∨ R a b ∨ R b a := by
  induction h with
  | nil => cases ha
  | cons hx _ ih =>
    rcases List.mem_cons.mp ha with rfl | ha' <;> rcases List.mem_cons.mp hb with rfl | hb'
    · exact Or.inl rfl
    · exact Or.inr (Or.inl (hx _ hb'))
    · exact Or.inr (Or.inr (hx _ ha'))
    · exact ih ha' hb'

theorem leftmostMatches_matchEndsP (e : EnzymeP) (seq : List Char) :
    LeftmostMatches e seq (fun s => isEndP e seq (s + e.width) = true) := by
  refine ⟨?_, ?_, ?_⟩
  · intro s hs
    have := (isEndP_sound e seq _ hs).2.2
    rwa [Nat.add_sub_cancel] at this
  · intro s t hs ht hst
    rw [isEndP_iff] at hs ht
    rcases pairwise_mem_cases (matchEndsP_apart e 0 0 seq) hs ht with h | h | h <;> omega
  · intro s hs
    obtain ⟨j', h1, h2, -, h4⟩ := matchEndsP_leftmost e 0 0 seq s (Nat.zero_le _) hs
    refine ⟨j', ?_, h1, h2⟩
    rw [isEndP_iff]
    simpa using h4

theorem leftmostMatches_unique (e : EnzymeP) (seq : List Char) (A B : Nat → Prop)
    (hA : LeftmostMatches e seq A) (hB : LeftmostMatches e seq B) (s : Nat) : A s ↔ B s := by
  induction s using Nat.strongRecOn with
  | _ s ih =>
    constructor
    · intro h
      obtain ⟨t, ht, h1, h2⟩ := hB.leftmost s (hA.sound s h)
      by_cases hts : t = s
      · subst hts; exact ht
      · have hlt : t < s := by omega
        have := hA.apart t s ((ih t hlt).mpr ht) h hlt
        omega
    · intro h
      obtain ⟨t, ht, h1, h2⟩ := hA.leftmost s (hB.sound s h)
      by_cases hts : t = s
      · subst hts; exact ht
      · have hlt : t < s := by omega
        have := hB.apart t s ((ih t hlt).mp ht) h hlt
        omega

/-! ## the list of sites -/

theorem sorted_eq_filter (l : List Nat) (m : Nat) (h : l.Pairwise (· < ·)) (hm : ∀ x ∈ l, x < m) :
    l = (List.range m).filter (fun x => l.contains x) := by
  apply List.Pairwise.eq_of_mem_iff h (List.Pairwise.filter _ List.pairwise_lt_range)
  intro a
  simp only [List.mem_filter, List.mem_range, List.contains_iff_mem]
  exact ⟨fun ha => ⟨hm a ha, ha⟩, fun ha => ha.2⟩

/-- cleavage positions other than the C-terminal end: 0 and every match end -/
def innerSiteP (e : EnzymeP) (seq : List Char) (p : Nat) : Bool := p == 0 || isEndP e seq p

theorem cleavageSitesP_eq (e : EnzymeP) (seq : List Char) :
    cleavageSitesP e seq = sitesOf (innerSiteP e seq) seq.length := by
  unfold cleavageSitesP sitesOf
  rw [← List.cons_append]
  congr 1
  have hs : (0 :: matchEndsP e 0 0 seq).Pairwise (· < ·) := by
    refine List.Pairwise.cons ?_ (matchEndsP_lt e seq)
    intro y hy
    have := (isEndP_sound e seq y ((isEndP_iff e seq y).mpr hy)).1
    have := width_pos e
    omega
  have hb : ∀ x ∈ 0 :: matchEndsP e 0 0 seq, x < seq.length + 1 := by
    intro x hx
    rcases List.mem_cons.mp hx with hx | hx
    · omega
    · have := (isEndP_sound e seq x ((isEndP_iff e seq x).mpr hx)).2.1
      omega
  rw [sorted_eq_filter _ _ hs hb]
  apply List.filter_congr
  intro x _
  by_cases hx : x = 0 <;> simp [hx, innerSiteP, isEndP]

theorem siteOf_innerSiteP (e : EnzymeP) (seq : List Char) :
    siteOf (innerSiteP e seq) seq.length = isSiteP e seq := by
  funext p
  unfold siteOf innerSiteP isSiteP
  cases (p == 0) <;> cases (p == seq.length) <;> cases (isEndP e seq p) <;> rfl

theorem mem_digestP_iff_spec (e : EnzymeP) (seq : List Char) (mc lo hi : Nat) (clip semi : Bool) (p : Pep) :
    p ∈ digestP e seq mc lo hi clip semi ↔ DigestSpecP e seq mc lo hi clip semi p := by
  unfold digestP DigestSpecP
  rw [cleavageSitesP_eq,
    mem_cleave_sitesOf (innerSiteP e seq) (by simp [innerSiteP]) seq mc lo hi clip semi p,
    siteOf_innerSiteP]
  rfl

theorem mem_specListP (e : EnzymeP) (seq : List Char) (mc lo hi : Nat) (clip semi : Bool) (p : Pep) :
    p ∈ specListP e seq mc lo hi clip semi ↔ DigestSpecP e seq mc lo hi clip semi p := by
  show p ∈ specListS (isSiteP e seq) seq mc lo hi clip semi
      ++ (if lo == 0 && endDupP e seq then [[]] else []) ↔ _
  unfold DigestSpecP
  rw [List.mem_append, mem_specListS]
  by_cases hc : (lo == 0 && endDupP e seq) = true
  · rw [if_pos hc]
    simp only [Bool.and_eq_true, beq_iff_eq] at hc
    simp [hc.1, hc.2]
  · rw [if_neg hc]
    simp only [Bool.and_eq_true, beq_iff_eq] at hc
    simp only [List.not_mem_nil, or_false]
    constructor
    · exact Or.inl
    · rintro (h | ⟨h1, -, h3⟩)
      · exact h
      · exact absurd ⟨h1, h3⟩ hc

/-! ## the one-residue enzymes are the width-1 instance -/

theorem matchHere_toP (e : Enzyme) (c : Char) (rest : List Char) :
    matchHere e.toP (c :: rest) = isCut e c rest := by
  unfold matchHere isCut Enzyme.toP lookOk
  simp only [bodyRest]
  by_cases h1 : e.cls.contains c = true
  · have h2 : ResClass.has ⟨false, e.cls⟩ c = true := by
      unfold ResClass.has; rw [h1]; rfl
    simp only [h2, if_true, h1, Option.any_some, Bool.true_and]
    cases rest.head? <;> simp [ResClass.has]
  · have h1' : e.cls.contains c = false := by simpa using h1
    have h2 : ResClass.has ⟨false, e.cls⟩ c = false := by
      unfold ResClass.has; rw [h1']; rfl
    rw [h2, h1']
    simp

theorem matchEndsP_toP (e : Enzyme) (off : Nat) (seq : List Char) :
    matchEndsP e.toP off 0 seq = matchEnds e off seq := by
  induction seq generalizing off with
  | nil => simp [matchEndsP, matchEnds]
  | cons c rest ih =>
    simp only [matchEndsP, matchEnds, matchHere_toP]
    have hw : e.toP.width = 1 := rfl
    have hm : e.toP.more.length = 0 := rfl
    rw [hw, hm, ih]

theorem digestP_toP (e : Enzyme) (seq : List Char) (mc lo hi : Nat) (clip semi : Bool) :
    digestP e.toP seq mc lo hi clip semi = digest e seq mc lo hi clip semi := by
  unfold digestP digest cleavageSitesP cleavageSites
  rw [matchEndsP_toP]

end Mk
