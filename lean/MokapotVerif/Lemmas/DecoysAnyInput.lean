import MokapotVerif.Lemmas.DecoysInput
import MokapotVerif.Model.DecoysAnyInput
/-! Lemmas for the reader on arbitrary laid-out FASTA inputs (C18, third pass): empty files and
blank lines before the first record.  The joined text of any list of files is rewritten into a
normal form — blank lines, then records of which the last one of every file is padded with the
blank lines that follow it — and the second-pass lemmas are applied to the normal form. -/
namespace Mk.Decoys

/-! ### padding a record with empty lines -/

/-- the record followed by `j` more empty lines -/
def padRec (j : Nat) (r : FastaRec) : FastaRec := ⟨r.name, r.desc, r.lines ++ List.replicate j []⟩

/-- the last record of a list padded -/
def padLast (j : Nat) : List FastaRec → List FastaRec
  | [] => []
  | [r] => [padRec j r]
  | r :: r' :: rest => r :: padLast j (r' :: rest)

/-- every record preceded by a line break -/
def recsText (rs : List FastaRec) : List Char := rs.flatMap (fun r => '\n' :: r.text)

theorem linesText_append (a b : List (List Char)) : linesText (a ++ b) = linesText a ++ linesText b := by
  simp [linesText]

theorem linesText_replicate_nil (j : Nat) : linesText (List.replicate j []) = List.replicate j '\n' := by
  induction j with
  | zero => rfl
  | succ n ih =>
    rw [List.replicate_succ, List.replicate_succ]
    have : linesText ([] :: List.replicate n []) = '\n' :: linesText (List.replicate n []) := by
      simp [linesText]
    rw [this, ih]

theorem padRec_text (j : Nat) (r : FastaRec) : (padRec j r).text = r.text ++ List.replicate j '\n' := by
  simp [padRec, FastaRec.text, FastaRec.body, FastaRec.header, linesText_append, linesText_replicate_nil]

theorem flatten_replicate_nil' (j : Nat) : (List.replicate j ([] : List Char)).flatten = [] := by
  induction j with
  | zero => rfl
  | succ n ih => rw [List.replicate_succ, List.flatten_cons, ih]; rfl

theorem padRec_entry (j : Nat) (r : FastaRec) : (padRec j r).entry = r.entry := by
  simp [padRec, FastaRec.entry]

theorem padRec_ok (j : Nat) (r : FastaRec) (h : RecOK r) : RecOK (padRec j r) := by
  obtain ⟨h1, h2, h3, h4⟩ := h
  refine ⟨h1, h2, ?_, ?_⟩
  · intro l hl
    simp only [padRec, List.mem_append] at hl
    rcases hl with hl | hl
    · exact h3 l hl
    · have : l = [] := (List.mem_replicate.mp hl).2
      subst this
      intro c hc
      simp at hc
  · rcases h4 with h4 | h4
    · left; exact h4
    · right
      simp only [padRec]
      intro h0
      exact h4 (List.append_eq_nil_iff.mp h0).1

theorem recsText_cons (r : FastaRec) (rs : List FastaRec) :
    recsText (r :: rs) = '\n' :: r.text ++ recsText rs := by
  simp [recsText]

theorem recsText_append (a b : List FastaRec) : recsText (a ++ b) = recsText a ++ recsText b := by
  simp [recsText]

theorem recsText_padLast (j : Nat) (rs : List FastaRec) (hne : rs ≠ []) :
    recsText (padLast j rs) = recsText rs ++ List.replicate j '\n' := by
  induction rs with
  | nil => exact absurd rfl hne
  | cons r rest ih =>
    cases rest with
    | nil =>
      simp only [padLast, recsText_cons, padRec_text]
      simp [recsText]
    | cons r' rest' =>
      have ih' := ih (by simp)
      rw [padLast, recsText_cons, ih', recsText_cons r]
      simp

theorem padLast_entries (j : Nat) (rs : List FastaRec) :
    (padLast j rs).map FastaRec.entry = rs.map FastaRec.entry := by
  induction rs with
  | nil => rfl
  | cons r rest ih =>
    cases rest with
    | nil => simp [padLast, padRec_entry]
    | cons r' rest' => rw [padLast, List.map_cons, ih]; rfl

theorem padLast_ok (j : Nat) (rs : List FastaRec) (h : ∀ r ∈ rs, RecOK r) :
    ∀ r ∈ padLast j rs, RecOK r := by
  induction rs with
  | nil => intro r hr; simp [padLast] at hr
  | cons r0 rest ih =>
    cases rest with
    | nil =>
      intro r hr
      simp only [padLast, List.mem_singleton] at hr
      subst hr
      exact padRec_ok j r0 (h r0 (by simp))
    | cons r' rest' =>
      intro r hr
      rw [padLast] at hr
      rcases List.mem_cons.mp hr with rfl | hr
      · exact h _ (by simp)
      · exact ih (fun x hx => h x (List.mem_cons_of_mem _ hx)) r hr

/-- a line break in front of the joined texts = every text preceded by a line break -/
theorem nl_joinWith (xs : List (List Char)) (hne : xs ≠ []) :
    '\n' :: joinWith ['\n'] xs = xs.flatMap (fun x => '\n' :: x) := by
  induction xs with
  | nil => exact absurd rfl hne
  | cons x rest ih =>
    cases rest with
    | nil => simp [joinWith]
    | cons y rest' =>
      have ih' := ih (by simp)
      rw [joinWith, List.flatMap_cons, ← ih']
      simp

theorem nl_fastaFileText (rs : List FastaRec) (hne : rs ≠ []) :
    '\n' :: fastaFileText rs = recsText rs := by
  unfold fastaFileText recsText
  rw [nl_joinWith _ (by simpa using hne), List.flatMap_map]

/-! ### normal form of the joined text of several files -/

/-- number of blank lines before the first record, and the records, the last one of every file
padded with the blank lines (and the line breaks of empty files) that follow it -/
def normFiles : List FastaFile → Nat × List FastaRec
  | [] => (0, [])
  | f :: rest =>
    if f.recs.isEmpty then (f.lead + 1 + (normFiles rest).1, (normFiles rest).2)
    else (f.lead, padLast (normFiles rest).1 f.recs ++ (normFiles rest).2)

theorem nl_replicate (k : Nat) (t : List Char) :
    '\n' :: (List.replicate k '\n' ++ t) = List.replicate k '\n' ++ '\n' :: t := by
  induction k with
  | zero => rfl
  | succ n ih => rw [List.replicate_succ, List.cons_append, ih]; rfl

theorem replicate_nl_add (a b : Nat) :
    List.replicate (a + b) '\n' = List.replicate a '\n' ++ List.replicate b '\n' := by
  induction a with
  | zero => simp
  | succ n ih => rw [Nat.succ_add, List.replicate_succ, List.replicate_succ, ih]; rfl

theorem normFiles_text (fs : List FastaFile) :
    fs.flatMap (fun f => '\n' :: f.text)
      = List.replicate (normFiles fs).1 '\n' ++ recsText (normFiles fs).2 := by
  induction fs with
  | nil => rfl
  | cons f rest ih =>
    rw [List.flatMap_cons, ih]
    unfold FastaFile.text
    by_cases he : f.recs.isEmpty = true
    · have h0 : f.recs = [] := List.isEmpty_iff.mp he
      rw [normFiles, if_pos he, h0]
      simp only [fastaFileText, List.map_nil, joinWith, List.append_nil]
      have e : List.replicate (f.lead + 1 + (normFiles rest).1) '\n'
          = '\n' :: (List.replicate f.lead '\n' ++ List.replicate (normFiles rest).1 '\n') := by
        rw [show f.lead + 1 + (normFiles rest).1 = (f.lead + (normFiles rest).1) + 1 by omega,
          List.replicate_succ, replicate_nl_add]
      rw [e]
      simp
      rw [replicate_nl_add, List.append_assoc]
    · have hne : f.recs ≠ [] := fun h0 => he (List.isEmpty_iff.mpr h0)
      rw [normFiles, if_neg he]
      simp only []
      rw [nl_replicate, nl_fastaFileText _ hne, recsText_append, recsText_padLast _ _ hne]
      simp

theorem normFiles_entries (fs : List FastaFile) :
    (normFiles fs).2.map FastaRec.entry = fastaInputEntries fs := by
  unfold fastaInputEntries
  induction fs with
  | nil => rfl
  | cons f rest ih =>
    by_cases he : f.recs.isEmpty = true
    · have h0 : f.recs = [] := List.isEmpty_iff.mp he
      rw [normFiles, if_pos he]
      simp only [List.flatMap_cons, h0, List.nil_append]
      exact ih
    · rw [normFiles, if_neg he]
      simp only [List.flatMap_cons, List.map_append, padLast_entries, ih]

theorem normFiles_ok (fs : List FastaFile) (h : ∀ f ∈ fs, ∀ r ∈ f.recs, RecOK r) :
    ∀ r ∈ (normFiles fs).2, RecOK r := by
  induction fs with
  | nil => intro r hr; simp [normFiles] at hr
  | cons f rest ih =>
    have ih' := ih (fun g hg => h g (List.mem_cons_of_mem _ hg))
    by_cases he : f.recs.isEmpty = true
    · rw [normFiles, if_pos he]; exact ih'
    · rw [normFiles, if_neg he]
      intro r hr
      rcases List.mem_append.mp hr with hr | hr
      · exact padLast_ok _ _ (h f (by simp)) r hr
      · exact ih' r hr

/-! ### the reader on the normal form -/

theorem not_mem_replicate_nl {x : Char} (hx : x ≠ '\n') (j : Nat) : x ∉ List.replicate j '\n' := by
  intro h
  exact hx (List.mem_replicate.mp h).2

/-- blank lines, then records: the piece before the first separator is dropped, the rest are
the record bodies -/
theorem splitRecords_normal (j : Nat) (rs : List FastaRec) (h : ∀ r ∈ rs, RecOK r) :
    (splitRecords (List.replicate j '\n' ++ recsText rs)).drop 1 = rs.map FastaRec.body := by
  cases rs with
  | nil =>
    simp only [recsText, List.flatMap_nil, List.append_nil, List.map_nil]
    rw [splitRecords_last _ (not_mem_replicate_nl (by decide) j)]
    rfl
  | cons r0 rest =>
    have hne : r0 :: rest ≠ [] := by simp
    have hhead := fastaFileText_head (r0 :: rest) hne
    rw [← nl_fastaFileText _ hne]
    cases hft : fastaFileText (r0 :: rest) with
    | nil => rw [hft] at hhead; simp at hhead
    | cons c X =>
      rw [hft] at hhead
      simp only [List.head?_cons, Option.some.injEq] at hhead
      subst hhead
      rw [splitRecords_append_sep, splitRecords_last _ (not_mem_replicate_nl (by decide) j)]
      have := splitRecords_file (r0 :: rest) hne h
      rw [hft] at this
      simp only [List.drop_succ_cons, List.drop_zero] at this
      simp [this]

theorem fileText_no_cr (f : FastaFile) (h : ∀ r ∈ f.recs, RecOK r) : '\r' ∉ f.text := by
  unfold FastaFile.text
  intro hm
  rcases List.mem_append.mp hm with hm | hm
  · exact not_mem_replicate_nl (by decide) _ hm
  · exact fastaFileText_no_cr f.recs h hm

/-- **any laid-out input**: the reader returns the proteins of all records of all files -/
theorem parseFastaInput_eq (fss : List (Eol × FastaFile)) (hok : ∀ p ∈ fss, ∀ r ∈ p.2.recs, RecOK r) :
    parseFastaInput fss = some (fastaInputEntries (fss.map (·.2))) := by
  unfold parseFastaInput parseFasta parseFastaFiles
  have e1 : (fss.map (fun p => encodeEol p.1 p.2.text)).map univNL = (fss.map (·.2)).map FastaFile.text := by
    simp only [List.map_map]
    apply List.map_congr_left
    intro p hp
    simp only [Function.comp]
    exact univNL_encodeEol p.1 _ (fileText_no_cr p.2 (hok p hp))
  rw [e1]
  cases hf : fss with
  | nil => rfl
  | cons p0 rest =>
    rw [← hf]
    have hne : (fss.map (·.2)).map FastaFile.text ≠ [] := by simp [hf]
    rw [nl_joinWith _ hne, List.flatMap_map, normFiles_text]
    have hok' : ∀ f ∈ fss.map (·.2), ∀ r ∈ f.recs, RecOK r := by
      intro f hf' r hr
      obtain ⟨p, hp, rfl⟩ := List.mem_map.mp hf'
      exact hok p hp r hr
    rw [splitRecords_normal _ _ (normFiles_ok _ hok'), sequenceOpt_records _ (normFiles_ok _ hok'),
      normFiles_entries]

end Mk.Decoys
