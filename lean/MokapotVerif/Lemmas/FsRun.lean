import MokapotVerif.Model.FsRun
/-!
# Helper lemmas for C09: association-list file system, `exec`, independence of the initial
directory for well-initialised programs, frame and absence lemmas.
-/
namespace Mk.FsRun

/-! ## `get` / `set` / `del` -/

@[simp] theorem get_nil (n : Name) : FS.get [] n = none := rfl

theorem get_cons (e : Name × List Nat) (rest : FS) (n : Name) :
    FS.get (e :: rest) n = if e.1 = n then some e.2 else FS.get rest n := rfl

theorem get_set_same (fs : FS) (n : Name) (c : List Nat) : FS.get (FS.set fs n c) n = some c := by
  induction fs with
  | nil => simp [FS.set, get_cons]
  | cons e rest ih =>
    simp only [FS.set]
    split
    · simp [get_cons]
    · rename_i h
      simp [get_cons, h, ih]

theorem get_set_other (fs : FS) (n m : Name) (c : List Nat) (h : n ≠ m) :
    FS.get (FS.set fs n c) m = FS.get fs m := by
  induction fs with
  | nil => simp [FS.set, get_cons, h]
  | cons e rest ih =>
    simp only [FS.set]
    split
    · rename_i he
      have : e.1 ≠ m := by rw [he]; exact h
      simp [get_cons, h, this]
    · simp [get_cons, ih]

theorem get_del_same (fs : FS) (n : Name) : FS.get (FS.del fs n) n = none := by
  induction fs with
  | nil => rfl
  | cons e rest ih =>
    simp only [FS.del]
    split
    · exact ih
    · rename_i h
      simp [get_cons, h, ih]

theorem get_del_other (fs : FS) (n m : Name) (h : n ≠ m) :
    FS.get (FS.del fs n) m = FS.get fs m := by
  induction fs with
  | nil => rfl
  | cons e rest ih =>
    simp only [FS.del]
    split
    · rename_i he
      have : e.1 ≠ m := by rw [he]; exact h
      simp [get_cons, this, ih]
    · simp [get_cons, ih]

theorem get_set (fs : FS) (n m : Name) (c : List Nat) :
    FS.get (FS.set fs n c) m = if n = m then some c else FS.get fs m := by
  by_cases h : n = m
  · subst h; simp [get_set_same]
  · simp [h, get_set_other fs n m c h]

theorem get_del (fs : FS) (n m : Name) :
    FS.get (FS.del fs n) m = if n = m then none else FS.get fs m := by
  by_cases h : n = m
  · subst h; simp [get_del_same]
  · simp [h, get_del_other fs n m h]

theorem get_moveFs (fs : FS) (s d m : Name) :
    FS.get (moveFs fs s d) m =
      if s = d then FS.get fs m else if s = m then none
      else if d = m then some (FS.content fs s) else FS.get fs m := by
  unfold moveFs
  by_cases hsd : s = d
  · simp [hsd]
  · simp only [hsd, if_false, get_del, get_set]

theorem content_congr {fs₁ fs₂ : FS} {n : Name} (h : FS.get fs₁ n = FS.get fs₂ n) :
    FS.content fs₁ n = FS.content fs₂ n := by
  unfold FS.content; rw [h]

/-! ## `exec` -/

@[simp] theorem exec_nil (fs : FS) (outs : Outs) : exec fs outs [] = (fs, outs) := rfl

theorem exec_cons (fs : FS) (outs : Outs) (op : Op) (rest : List Op) :
    exec fs outs (op :: rest) = exec (step fs outs op).1 (step fs outs op).2 rest := rfl

theorem exec_append (fs : FS) (outs : Outs) (p q : List Op) :
    exec fs outs (p ++ q) = exec (exec fs outs p).1 (exec fs outs p).2 q := by
  induction p generalizing fs outs with
  | nil => rfl
  | cons op rest ih => simp only [List.cons_append, exec_cons, ih]

/-! ## `wellInit` / `knownAfter` -/

theorem knownStep_mono {k₁ k₂ : List Name} (h : ∀ n ∈ k₁, n ∈ k₂) (op : Op) :
    ∀ n ∈ knownStep k₁ op, n ∈ knownStep k₂ op := by
  intro n hn
  cases op <;> simp only [knownStep, List.mem_cons] at hn ⊢
  · rcases hn with hn | hn
    · exact Or.inl hn
    · exact Or.inr (h n hn)
  · exact h n hn
  · exact h n hn
  · rcases hn with hn | hn
    · exact Or.inl hn
    · exact Or.inr (h n hn)
  · rcases hn with hn | hn | hn
    · exact Or.inl hn
    · exact Or.inr (Or.inl hn)
    · exact Or.inr (Or.inr (h n hn))
  · exact h n hn

theorem okStep_mono {k₁ k₂ : List Name} (h : ∀ n ∈ k₁, n ∈ k₂) (op : Op)
    (hok : okStep k₁ op = true) : okStep k₂ op = true := by
  cases op <;> simp only [okStep, decide_eq_true_eq] at hok ⊢
  · exact h _ hok
  · exact h _ hok
  · exact h _ hok
  · exact absurd hok (by simp)

theorem wellInit_mono {k₁ k₂ : List Name} (h : ∀ n ∈ k₁, n ∈ k₂) (p : List Op)
    (hw : wellInit k₁ p = true) : wellInit k₂ p = true := by
  induction p generalizing k₁ k₂ with
  | nil => rfl
  | cons op rest ih =>
    simp only [wellInit, Bool.and_eq_true] at hw ⊢
    exact ⟨okStep_mono h op hw.1, ih (knownStep_mono h op) hw.2⟩

theorem knownAfter_mono {k₁ k₂ : List Name} (h : ∀ n ∈ k₁, n ∈ k₂) (p : List Op) :
    ∀ n ∈ knownAfter k₁ p, n ∈ knownAfter k₂ p := by
  induction p generalizing k₁ k₂ with
  | nil => exact h
  | cons op rest ih => exact ih (knownStep_mono h op)

theorem wellInit_append (known : List Name) (p q : List Op) :
    wellInit known (p ++ q) = (wellInit known p && wellInit (knownAfter known p) q) := by
  induction p generalizing known with
  | nil => simp [wellInit, knownAfter]
  | cons op rest ih => simp only [List.cons_append, wellInit, knownAfter, ih, Bool.and_assoc]

theorem knownAfter_append (known : List Name) (p q : List Op) :
    knownAfter known (p ++ q) = knownAfter (knownAfter known p) q := by
  induction p generalizing known with
  | nil => rfl
  | cons op rest ih => simp only [List.cons_append, knownAfter, ih]

theorem mem_knownStep_self {known : List Name} (op : Op) :
    ∀ n ∈ known, n ∈ knownStep known op := by
  intro n hn
  cases op <;> simp [knownStep, hn]

theorem mem_knownAfter_of_mem {known : List Name} (p : List Op) :
    ∀ n ∈ known, n ∈ knownAfter known p := by
  induction p generalizing known with
  | nil => exact fun n hn => hn
  | cons op rest ih => exact fun n hn => ih n (mem_knownStep_self op n hn)

/-- a name made known by some operation of the program is known at the end -/
theorem mem_knownAfter_of_op {known : List Name} {p : List Op} {op : Op} {n : Name}
    (hop : op ∈ p) (hn : n ∈ knownStep [] op) : n ∈ knownAfter known p := by
  induction p generalizing known with
  | nil => simp at hop
  | cons o rest ih =>
    rcases List.mem_cons.mp hop with rfl | hop
    · exact mem_knownAfter_of_mem rest n
        (knownStep_mono (k₁ := []) (by simp) op n hn)
    · exact ih hop

theorem wellInit_flatMap {β : Type} (f : β → List Op) (xs : List β) (known : List Name)
    (h : ∀ x ∈ xs, wellInit known (f x) = true) : wellInit known (xs.flatMap f) = true := by
  induction xs generalizing known with
  | nil => rfl
  | cons x rest ih =>
    rw [List.flatMap_cons, wellInit_append, Bool.and_eq_true]
    refine ⟨h x (by simp), ih _ ?_⟩
    intro y hy
    exact wellInit_mono (fun n hn => mem_knownAfter_of_mem (f x) n hn) _
      (h y (List.mem_cons_of_mem _ hy))

theorem wellInit_of_forall (known : List Name) (p : List Op)
    (h : ∀ op ∈ p, okStep known op = true) : wellInit known p = true := by
  induction p generalizing known with
  | nil => rfl
  | cons op rest ih =>
    simp only [wellInit, Bool.and_eq_true]
    refine ⟨h op (by simp), ih _ ?_⟩
    intro o ho
    exact okStep_mono (mem_knownStep_self op) o (h o (List.mem_cons_of_mem _ ho))

/-! ## independence of the initial directory -/

/-- two directories agree on the known names -/
def Agree (known : List Name) (fs₁ fs₂ : FS) : Prop := ∀ n ∈ known, FS.get fs₁ n = FS.get fs₂ n

theorem step_agree (known : List Name) (op : Op) (hok : okStep known op = true)
    (fs₁ fs₂ : FS) (outs : Outs) (ha : Agree known fs₁ fs₂) :
    (step fs₁ outs op).2 = (step fs₂ outs op).2 ∧
      Agree (knownStep known op) (step fs₁ outs op).1 (step fs₂ outs op).1 := by
  cases op with
  | trunc n f =>
    refine ⟨rfl, ?_⟩
    intro m hm
    simp only [step, get_set]
    split
    · rfl
    · rename_i h
      simp only [knownStep, List.mem_cons] at hm
      rcases hm with hm | hm
      · exact absurd hm.symm h
      · exact ha m hm
  | append n f =>
    simp only [okStep, decide_eq_true_eq] at hok
    refine ⟨rfl, ?_⟩
    intro m hm
    simp only [step, get_set, content_congr (ha n hok)]
    split
    · rfl
    · exact ha m hm
  | read n =>
    simp only [okStep, decide_eq_true_eq] at hok
    refine ⟨?_, ?_⟩
    · simp only [step, content_congr (ha n hok)]
    · exact ha
  | unlink n =>
    refine ⟨rfl, ?_⟩
    intro m hm
    simp only [step, get_del]
    split
    · rfl
    · rename_i h
      simp only [knownStep, List.mem_cons] at hm
      rcases hm with hm | hm
      · exact absurd hm.symm h
      · exact ha m hm
  | move s d =>
    simp only [okStep, decide_eq_true_eq] at hok
    refine ⟨rfl, ?_⟩
    intro m hm
    simp only [step, get_moveFs, content_congr (ha s hok)]
    simp only [knownStep, List.mem_cons] at hm
    by_cases hsd : s = d
    · simp only [hsd, if_true]
      rcases hm with hm | hm | hm
      · rw [hm, hsd]; exact hsd ▸ ha s hok
      · rw [hm]; exact hsd ▸ ha s hok
      · exact ha m hm
    · simp only [hsd, if_false]
      split
      · rfl
      · rename_i h1
        split
        · rfl
        · rename_i h2
          rcases hm with hm | hm | hm
          · exact absurd hm.symm h1
          · exact absurd hm.symm h2
          · exact ha m hm
  | globRead p => simp [okStep] at hok

/-- a well-initialised program produces the same outputs, and the same content of every name
it has made known, from any two directories that agree on the names known at the start -/
theorem exec_agree (known : List Name) (prog : List Op) (hw : wellInit known prog = true)
    (fs₁ fs₂ : FS) (outs : Outs) (ha : Agree known fs₁ fs₂) :
    (exec fs₁ outs prog).2 = (exec fs₂ outs prog).2 ∧
      Agree (knownAfter known prog) (exec fs₁ outs prog).1 (exec fs₂ outs prog).1 := by
  induction prog generalizing known fs₁ fs₂ outs with
  | nil => exact ⟨rfl, ha⟩
  | cons op rest ih =>
    simp only [wellInit, Bool.and_eq_true] at hw
    obtain ⟨ho, hag⟩ := step_agree known op hw.1 fs₁ fs₂ outs ha
    simp only [exec_cons, knownAfter]
    rw [ho]
    exact ih _ hw.2 _ _ _ hag

/-! ## frame: names the program does not write are unchanged -/

theorem step_frame (fs : FS) (outs : Outs) (op : Op) (n : Name) (h : n ∉ writesOp op) :
    FS.get (step fs outs op).1 n = FS.get fs n := by
  cases op with
  | trunc m f =>
    simp only [writesOp, List.mem_singleton] at h
    simp only [step]; exact get_set_other _ _ _ _ (Ne.symm h)
  | append m f =>
    simp only [writesOp, List.mem_singleton] at h
    simp only [step]; exact get_set_other _ _ _ _ (Ne.symm h)
  | read m => rfl
  | unlink m =>
    simp only [writesOp, List.mem_singleton] at h
    simp only [step]; exact get_del_other _ _ _ (Ne.symm h)
  | move s d =>
    simp only [writesOp, List.mem_cons, List.not_mem_nil, or_false, not_or] at h
    simp only [step, get_moveFs]
    have h1 : ¬ s = n := fun e => h.1 e.symm
    have h2 : ¬ d = n := fun e => h.2 e.symm
    simp [h1, h2]
  | globRead p => rfl

theorem exec_frame (fs : FS) (outs : Outs) (prog : List Op) (n : Name) (h : n ∉ writes prog) :
    FS.get (exec fs outs prog).1 n = FS.get fs n := by
  induction prog generalizing fs outs with
  | nil => rfl
  | cons op rest ih =>
    simp only [writes, List.flatMap_cons, List.mem_append, not_or] at h
    rw [exec_cons, ih _ _ h.2, step_frame _ _ _ _ h.1]

/-! ## absence: the last thing the program does to a name is to remove it -/

theorem step_absent (fs : FS) (outs : Outs) (op : Op) (n : Name) (b : Bool)
    (hb : b = true → FS.get fs n = none) (h : absentStep n b op = true) :
    FS.get (step fs outs op).1 n = none := by
  cases op with
  | trunc m f =>
    simp only [absentStep] at h
    split at h
    · exact absurd h (by simp)
    · rename_i hm
      simp only [step]; rw [get_set_other _ _ _ _ hm]; exact hb h
  | append m f =>
    simp only [absentStep] at h
    split at h
    · exact absurd h (by simp)
    · rename_i hm
      simp only [step]; rw [get_set_other _ _ _ _ hm]; exact hb h
  | read m => exact hb h
  | unlink m =>
    simp only [absentStep] at h
    simp only [step, get_del]
    split
    · rfl
    · rename_i hm
      simp only [hm, if_false] at h
      exact hb h
  | move s d =>
    simp only [absentStep] at h
    simp only [step, get_moveFs]
    by_cases hsd : s = d
    · simp only [hsd, if_true] at h ⊢
      exact hb h
    · simp only [hsd, if_false] at h ⊢
      by_cases h1 : s = n
      · simp [h1]
      · simp only [h1, if_false] at h ⊢
        by_cases h2 : d = n
        · simp [h2] at h
        · simp only [h2, if_false] at h ⊢
          exact hb h
  | globRead p => exact hb h

theorem exec_absent (fs : FS) (outs : Outs) (prog : List Op) (n : Name) (b : Bool)
    (hb : b = true → FS.get fs n = none) (h : absentAfter n b prog = true) :
    FS.get (exec fs outs prog).1 n = none := by
  induction prog generalizing fs outs b with
  | nil => exact hb h
  | cons op rest ih =>
    rw [exec_cons]
    exact ih _ _ (absentStep n b op) (fun hs => step_absent fs outs op n b hb hs) h

theorem absentAfter_append (n : Name) (b : Bool) (p q : List Op) :
    absentAfter n b (p ++ q) = absentAfter n (absentAfter n b p) q := by
  induction p generalizing b with
  | nil => rfl
  | cons op rest ih => simp only [List.cons_append, absentAfter, ih]

theorem absentStep_of_not_writes (n : Name) (b : Bool) (op : Op) (h : n ∉ writesOp op) :
    absentStep n b op = b := by
  cases op with
  | trunc m f =>
    simp only [writesOp, List.mem_singleton] at h
    simp [absentStep, Ne.symm h]
  | append m f =>
    simp only [writesOp, List.mem_singleton] at h
    simp [absentStep, Ne.symm h]
  | read m => rfl
  | unlink m =>
    simp only [writesOp, List.mem_singleton] at h
    simp [absentStep, Ne.symm h]
  | move s d =>
    simp only [writesOp, List.mem_cons, List.not_mem_nil, or_false, not_or] at h
    have h1 : ¬ s = n := fun e => h.1 e.symm
    have h2 : ¬ d = n := fun e => h.2 e.symm
    simp [absentStep, h1, h2]
  | globRead p => rfl

theorem absentAfter_of_not_writes (n : Name) (b : Bool) (p : List Op) (h : n ∉ writes p) :
    absentAfter n b p = b := by
  induction p generalizing b with
  | nil => rfl
  | cons op rest ih =>
    simp only [writes, List.flatMap_cons, List.mem_append, not_or] at h
    simp only [absentAfter]
    rw [absentStep_of_not_writes n b op h.1]
    exact ih b h.2

/-- operations that never re-create `n` keep it absent -/
theorem absentAfter_true (n : Name) (p : List Op)
    (h : ∀ op ∈ p, absentStep n true op = true) : absentAfter n true p = true := by
  induction p with
  | nil => rfl
  | cons op rest ih =>
    simp only [absentAfter]
    rw [h op (by simp)]
    exact ih (fun o ho => h o (List.mem_cons_of_mem _ ho))

/-- a program that unlinks `n` and never (re-)creates it leaves `n` absent -/
theorem absentAfter_of_unlink (n : Name) (b : Bool) (p : List Op) (hu : Op.unlink n ∈ p)
    (h : ∀ op ∈ p, absentStep n true op = true) : absentAfter n b p = true := by
  induction p generalizing b with
  | nil => simp at hu
  | cons op rest ih =>
    simp only [absentAfter]
    rcases List.mem_cons.mp hu with hop | hu
    · subst hop
      simp only [absentStep, if_true]
      exact absentAfter_true n rest (fun o ho => h o (List.mem_cons_of_mem _ ho))
    · exact ih _ hu (fun o ho => h o (List.mem_cons_of_mem _ ho))

/-! ## presence: the program creates the name and never removes it afterwards -/

theorem step_present (fs : FS) (outs : Outs) (op : Op) (n : Name) (b : Bool)
    (hb : b = true → (FS.get fs n).isSome = true) (h : presentStep n b op = true) :
    (FS.get (step fs outs op).1 n).isSome = true := by
  cases op with
  | trunc m f =>
    simp only [presentStep] at h
    simp only [step, get_set]
    split
    · rfl
    · rename_i hm
      simp only [hm, if_false] at h
      exact hb h
  | append m f =>
    simp only [presentStep] at h
    simp only [step, get_set]
    split
    · rfl
    · rename_i hm
      simp only [hm, if_false] at h
      exact hb h
  | read m => exact hb h
  | unlink m =>
    simp only [presentStep] at h
    split at h
    · exact absurd h (by simp)
    · rename_i hm
      simp only [step]; rw [get_del_other _ _ _ hm]; exact hb h
  | move s d =>
    simp only [presentStep] at h
    simp only [step, get_moveFs]
    by_cases hsd : s = d
    · simp only [hsd, if_true] at h ⊢
      exact hb h
    · simp only [hsd, if_false] at h ⊢
      by_cases h1 : s = n
      · simp [h1] at h
      · simp only [h1, if_false] at h ⊢
        by_cases h2 : d = n
        · simp [h2]
        · simp only [h2, if_false] at h ⊢
          exact hb h
  | globRead p => exact hb h

theorem exec_present (fs : FS) (outs : Outs) (prog : List Op) (n : Name) (b : Bool)
    (hb : b = true → (FS.get fs n).isSome = true) (h : presentAfter n b prog = true) :
    (FS.get (exec fs outs prog).1 n).isSome = true := by
  induction prog generalizing fs outs b with
  | nil => exact hb h
  | cons op rest ih =>
    rw [exec_cons]
    exact ih _ _ (presentStep n b op) (fun hs => step_present fs outs op n b hb hs) h

theorem presentAfter_true (n : Name) (p : List Op)
    (h : ∀ op ∈ p, presentStep n true op = true) : presentAfter n true p = true := by
  induction p with
  | nil => rfl
  | cons op rest ih =>
    simp only [presentAfter]
    rw [h op (by simp)]
    exact ih (fun o ho => h o (List.mem_cons_of_mem _ ho))

/-- a program that truncates `n` and never removes it leaves `n` present -/
theorem presentAfter_of_trunc (n : Name) (f : Outs → List Nat) (b : Bool) (p : List Op)
    (hu : Op.trunc n f ∈ p) (h : ∀ op ∈ p, presentStep n true op = true) :
    presentAfter n b p = true := by
  induction p generalizing b with
  | nil => simp at hu
  | cons op rest ih =>
    simp only [presentAfter]
    rcases List.mem_cons.mp hu with hop | hu
    · subst hop
      simp only [presentStep, if_true]
      exact presentAfter_true n rest (fun o ho => h o (List.mem_cons_of_mem _ ho))
    · exact ih _ hu (fun o ho => h o (List.mem_cons_of_mem _ ho))

end Mk.FsRun
