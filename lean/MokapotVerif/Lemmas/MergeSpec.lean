import MokapotVerif.Lemmas.MergeLoop
/-! C14: from the loops to the public functions `kmerge` / `kmergeChecked`, and the
meaning of the executable spec checkers. -/
namespace Mk.Merge
variable {α : Type}

/-! ## the opened state -/

theorem mem_openAll {inputs : List (List α)} {s : Src α} (h : s ∈ inputs.flatMap openSrc) :
    srcRows s ∈ inputs := by
  obtain ⟨xs, hxs, hs⟩ := List.mem_flatMap.mp h
  cases xs with
  | nil => simp [openSrc] at hs
  | cons x r =>
    have : s = (x, r) := by simpa [openSrc] using hs
    subst this; exact hxs

theorem openAll_sorted_iff (P : List α → Prop) (hnil : P []) (inputs : List (List α)) :
    (∀ s ∈ inputs.flatMap openSrc, P (srcRows s)) ↔ ∀ xs ∈ inputs, P xs := by
  constructor
  · intro h xs hxs
    cases xs with
    | nil => exact hnil
    | cons x r =>
      exact h (x, r) (List.mem_flatMap.mpr ⟨x :: r, hxs, by simp [openSrc]⟩)
  · intro h s hs
    exact h _ (mem_openAll hs)

theorem kmerge_none_iff (le : α → α → Bool) (inputs : List (List α)) :
    kmerge le inputs = none ↔ inputs = [] ∨ [] ∈ inputs := by
  unfold kmerge
  by_cases h : (inputs.isEmpty || inputs.any List.isEmpty) = true
  · rw [if_pos h]
    simp only [Bool.or_eq_true, List.isEmpty_iff, List.any_eq_true] at h
    simp only [true_iff]
    rcases h with h | ⟨xs, hxs, he⟩
    · exact Or.inl h
    · exact Or.inr (he ▸ hxs)
  · rw [if_neg h]
    simp only [Bool.or_eq_true, List.isEmpty_iff, List.any_eq_true, not_or, not_exists,
      not_and] at h
    simp only [reduceCtorEq, false_iff, not_or]
    exact ⟨h.1, fun hm => h.2 [] hm rfl⟩

theorem kmerge_some {le : α → α → Bool} {inputs : List (List α)} {out : List α}
    (h : kmerge le inputs = some out) :
    out = mergeLoop le (srcTotal (inputs.flatMap openSrc)) (inputs.flatMap openSrc) := by
  unfold kmerge at h
  split at h
  · cases h
  · exact (Option.some.inj h).symm

theorem kmergeChecked_none_iff (le : α → α → Bool) (desc : Bool) (inputs : List (List α)) :
    kmergeChecked le desc inputs = none ↔ inputs = [] ∨ [] ∈ inputs := by
  unfold kmergeChecked
  by_cases h : (inputs.isEmpty || inputs.any List.isEmpty) = true
  · rw [if_pos h]
    simp only [Bool.or_eq_true, List.isEmpty_iff, List.any_eq_true] at h
    simp only [true_iff]
    rcases h with h | ⟨xs, hxs, he⟩
    · exact Or.inl h
    · exact Or.inr (he ▸ hxs)
  · rw [if_neg h]
    simp only [Bool.or_eq_true, List.isEmpty_iff, List.any_eq_true, not_or, not_exists,
      not_and] at h
    simp only [reduceCtorEq, false_iff, not_or]
    exact ⟨h.1, fun hm => h.2 [] hm rfl⟩

theorem kmergeChecked_some {le : α → α → Bool} {desc : Bool} {inputs : List (List α)}
    {r : List α × Bool} (h : kmergeChecked le desc inputs = some r) :
    r = checkedLoop le desc (srcTotal (inputs.flatMap openSrc)) (inputs.flatMap openSrc) := by
  unfold kmergeChecked at h
  split at h
  · cases h
  · exact (Option.some.inj h).symm

theorem kmergeChecked_dual (le : α → α → Bool) (inputs : List (List α)) :
    kmergeChecked le false inputs = kmergeChecked (fun a b => le b a) true inputs := by
  unfold kmergeChecked
  rw [checkedLoop_dual]

/-- all facts about the descending table merger at once -/
theorem kmergeChecked_desc_facts (le : α → α → Bool) (hle : TotalPre le)
    (inputs : List (List α)) (out : List α) (err : Bool)
    (h : kmergeChecked le true inputs = some (out, err)) :
    (err = false ↔ ∀ xs ∈ inputs, NonIncr le xs) ∧ NonIncr le out ∧
      out.Subperm inputs.flatten ∧ (err = false → out.Perm inputs.flatten) := by
  have hr := kmergeChecked_some h
  have hout : out = (checkedLoop le true (srcTotal (inputs.flatMap openSrc))
      (inputs.flatMap openSrc)).1 := by rw [← hr]
  have herr : err = (checkedLoop le true (srcTotal (inputs.flatMap openSrc))
      (inputs.flatMap openSrc)).2 := by rw [← hr]
  have hiff : err = false ↔ ∀ xs ∈ inputs, NonIncr le xs := by
    rw [herr, checkedLoop_err_iff le hle _ _ (Nat.le_refl _)]
    exact openAll_sorted_iff (NonIncr le) (by simp [NonIncr]) inputs
  refine ⟨hiff, ?_, ?_, ?_⟩
  · rw [hout]; exact checkedLoop_sorted le hle _ _
  · rw [hout, ← openAll_rows]; exact checkedLoop_subperm le _ _
  · intro he
    have hall := (openAll_sorted_iff (NonIncr le) (by simp [NonIncr]) inputs).mpr (hiff.mp he)
    rw [hout, checkedLoop_eq_mergeLoop le hle _ _ hall, ← openAll_rows]
    exact mergeLoop_perm le _ _ (Nat.le_refl _)

/-- both modes: `ValueError` iff unsorted, output sorted, rows are input rows -/
theorem checked_facts (le : α → α → Bool) (hle : TotalPre le) (desc : Bool)
    (inputs : List (List α)) (out : List α) (err : Bool)
    (h : kmergeChecked le desc inputs = some (out, err)) :
    (err = false ↔ ∀ xs ∈ inputs, SortedAs le desc xs) ∧ SortedAs le desc out ∧
      out.Subperm inputs.flatten ∧ (err = false → out.Perm inputs.flatten) := by
  cases desc
  · rw [kmergeChecked_dual] at h
    simpa [SortedAs] using kmergeChecked_desc_facts _ (totalPre_dual hle) inputs out err h
  · simpa [SortedAs] using kmergeChecked_desc_facts le hle inputs out err h

/-! ## a single input -/

theorem mergeLoop_nil (le : α → α → Bool) (n : Nat) : mergeLoop le n ([] : List (Src α)) = [] := by
  cases n <;> simp [mergeLoop]

theorem mergeLoop_single (le : α → α → Bool) :
    ∀ (r : List α) (x : α) (n : Nat), r.length < n → mergeLoop le n [(x, r)] = x :: r := by
  intro r
  induction r with
  | nil =>
    intro x n h
    obtain ⟨m, rfl⟩ : ∃ m, n = m + 1 := ⟨n - 1, by omega⟩
    rw [mergeLoop]
    simp [argFirst, scanBest, srcAt, advanceAt, nextSrc, mergeLoop_nil]
  | cons y r ih =>
    intro x n h
    obtain ⟨m, rfl⟩ : ∃ m, n = m + 1 := ⟨n - 1, by omega⟩
    rw [mergeLoop]
    simp only [List.length_cons] at h
    simp [argFirst, scanBest, srcAt, advanceAt, nextSrc, ih y m (by omega)]

/-! ## meaning of the executable checkers -/

theorem sortedDirB_desc_iff {le : α → α → Bool} (hle : TotalPre le) :
    ∀ xs : List α, sortedDirB le true xs = true ↔ NonIncr le xs
  | [] => by simp [sortedDirB, NonIncr]
  | [a] => by simp [sortedDirB, NonIncr]
  | a :: b :: rest => by
    rw [nonIncr_cons2 hle, ← sortedDirB_desc_iff hle (b :: rest)]
    simp [sortedDirB]

theorem sortedDirB_asc (le : α → α → Bool) :
    ∀ xs : List α, sortedDirB le false xs = sortedDirB (fun a b => le b a) true xs
  | [] => rfl
  | [a] => rfl
  | a :: b :: rest => by
    simp only [sortedDirB, sortedDirB_asc le (b :: rest)]
    simp

theorem sortedDirB_iff {le : α → α → Bool} (hle : TotalPre le) (desc : Bool) (xs : List α) :
    sortedDirB le desc xs = true ↔ SortedAs le desc xs := by
  cases desc
  · rw [sortedDirB_asc, sortedDirB_desc_iff (totalPre_dual hle)]; simp [SortedAs]
  · rw [sortedDirB_desc_iff hle]; simp [SortedAs]

theorem subMultiB_iff [BEq α] [LawfulBEq α] :
    ∀ (xs pool : List α), subMultiB xs pool = true ↔ xs.Subperm pool
  | [], pool => by simp [subMultiB]
  | x :: xs, pool => by
    simp only [subMultiB, Bool.and_eq_true, List.contains_iff_mem, subMultiB_iff xs (pool.erase x)]
    constructor
    · rintro ⟨hm, hs⟩
      exact ((List.subperm_cons x).mpr hs).trans (List.perm_cons_erase hm).symm.subperm
    · intro h
      have hm : x ∈ pool := h.subset (by simp)
      refine ⟨hm, ?_⟩
      exact (List.subperm_cons x).mp (h.trans (List.perm_cons_erase hm).subperm)

/-- what `spec-merge … = ok` says -/
theorem specMerge_ok_iff [BEq α] [LawfulBEq α] {le : α → α → Bool} (hle : TotalPre le)
    (inputs : List (List α)) (out : List α) :
    specMerge le inputs out = "ok" ↔
      out.Perm inputs.flatten ∧ ((∀ xs ∈ inputs, NonIncr le xs) → NonIncr le out) := by
  have hall : inputs.all (sortedDirB le true) = true ↔ ∀ xs ∈ inputs, NonIncr le xs := by
    simp only [List.all_eq_true, sortedDirB_desc_iff hle]
  unfold specMerge
  by_cases hp : out.isPerm inputs.flatten = true
  · have hp' := List.isPerm_iff.mp hp
    by_cases hs : (inputs.all (sortedDirB le true) && !sortedDirB le true out) = true
    · simp only [hp, Bool.not_true, Bool.false_eq_true, if_false, hs, if_true]
      simp only [Bool.and_eq_true, Bool.not_eq_true', hall] at hs
      have : ¬ NonIncr le out := by
        rw [← sortedDirB_desc_iff hle]; simp [hs.2]
      constructor
      · intro h; simp at h
      · rintro ⟨_, h⟩; exact absurd (h hs.1) this
    · simp only [hp, Bool.not_true, Bool.false_eq_true, if_false, hs, true_iff]
      refine ⟨hp', fun hin => ?_⟩
      rw [← sortedDirB_desc_iff hle]
      simp only [Bool.and_eq_true, Bool.not_eq_true', not_and, Bool.not_eq_false, hall] at hs
      exact hs hin
  · have hp' : ¬ out.Perm inputs.flatten := fun h => hp (List.isPerm_iff.mpr h)
    simp only [hp, Bool.not_false, if_true]
    constructor
    · intro h; simp at h
    · rintro ⟨h, _⟩; exact absurd h hp'

/-- what `spec-checked … = ok` says -/
theorem specChecked_ok_iff [BEq α] [LawfulBEq α] {le : α → α → Bool} (hle : TotalPre le)
    (desc : Bool) (inputs : List (List α)) (out : List α) (err : Bool) :
    specChecked le desc inputs out err = "ok" ↔
      ((err = false ↔ ∀ xs ∈ inputs, SortedAs le desc xs) ∧ SortedAs le desc out ∧
        (err = false → out.Perm inputs.flatten) ∧ (err = true → out.Subperm inputs.flatten)) := by
  have hall : inputs.all (sortedDirB le desc) = true ↔ ∀ xs ∈ inputs, SortedAs le desc xs := by
    simp only [List.all_eq_true, sortedDirB_iff hle]
  unfold specChecked
  rw [← hall, ← sortedDirB_iff hle desc out, ← List.isPerm_iff, ← subMultiB_iff]
  cases err <;> cases inputs.all (sortedDirB le desc) <;> cases sortedDirB le desc out <;>
    cases out.isPerm inputs.flatten <;> cases subMultiB out inputs.flatten <;> simp

end Mk.Merge
