import MokapotVerif.Lemmas.PinTsvDoc
/-!
# The validity test, reading tables back, idempotence
-/
namespace Mk

/-! ## `is_valid_tsv` equals its declarative criterion -/

theorem restOk_eq_all (sepC : Char) (n : Nat) (more : List Str) :
    restOk sepC (n + 1) more = more.all (fun l => l.count sepC == n) := by
  induction more with
  | nil => rfl
  | cons l ls ih =>
    simp only [restOk, List.all_cons, nFields_eq_count, ih]
    by_cases e : l.count sepC = n
    · simp [e]
    · simp [e]

theorem isValidLines_spec (sepC : Char) (ls : List Str) :
    isValidLines sepC ls = if ls.length < 2 then .error .stopIteration else .ok (validSpecB sepC ls) := by
  cases ls with
  | nil => rfl
  | cons h r =>
    cases r with
    | nil => rfl
    | cons l2 more =>
      simp only [isValidLines, validSpecB, List.length_cons, List.tail_cons, List.head?_cons,
        Option.map_some, Option.getD_some, List.headD_cons, List.all_cons, nFields_eq_count, restOk_eq_all]
      have : ¬ (more.length + 1 + 1 < 2) := by omega
      rw [if_neg this]
      congr 1
      have t : decide (2 ≤ more.length + 1 + 1) = true := by simp
      rw [t]
      cases isDD l2
      · by_cases e : l2.count sepC = h.count sepC
        · simp [e]
        · simp [e]
      · simp

/-! ## DefaultDirection test and the line terminator -/

theorem isPrefixOf_append_singleton (p l : Str) (c : Char) (hc : c ∉ p) :
    p.isPrefixOf (l ++ [c]) = p.isPrefixOf l := by
  induction p generalizing l with
  | nil => simp
  | cons a p ih =>
    have hac : a ≠ c := fun e => hc (by simp [e])
    have hp : c ∉ p := fun e => hc (by simp [e])
    cases l with
    | nil => simp [List.isPrefixOf, hac]
    | cons b l => simp [List.isPrefixOf, ih l hp]

theorem isDD_append_nl (l : Str) : isDD (l ++ ['\n']) = isDD l :=
  isPrefixOf_append_singleton ddName l '\n' (by decide)

/-! ## tables -/

/-- a table whose fields contain neither separator nor newline and whose rows are non-empty -/
def TableOk (sepC : Char) (t : List (List Str)) : Prop :=
  ∀ row ∈ t, row ≠ [] ∧ ∀ f ∈ row, sepC ∉ f ∧ '\n' ∉ f

theorem TableOk.no_nl {sepC : Char} {t : List (List Str)} (h : TableOk sepC t) (hs : sepC ≠ '\n') :
    ∀ l ∈ t.map (joinWith [sepC]), '\n' ∉ l := by
  intro l hl
  obtain ⟨row, hrow, rfl⟩ := List.mem_map.mp hl
  intro hm
  rcases mem_joinWith _ _ _ hm with h' | ⟨f, hf, hc⟩
  · simp at h'; exact hs h'.symm
  · exact ((h row hrow).2 f hf).2 hc

theorem pyLines_renderTable {sepC : Char} {t : List (List Str)} (h : TableOk sepC t) (hs : sepC ≠ '\n') :
    pyLines (renderTable sepC t) = t.map (fun row => joinWith [sepC] row ++ ['\n']) := by
  unfold renderTable
  rw [pyLines_renderLines _ _ (h.no_nl hs) (Or.inl rfl), addNl_true, List.map_map]
  rfl

theorem chopNl_append_nl (l : Str) : chopNl (l ++ ['\n']) = l := by
  simp [chopNl]

/-- reading a rendered table back gives the table -/
theorem parseTable_renderTable {sepC : Char} {t : List (List Str)} (h : TableOk sepC t) (hs : sepC ≠ '\n') :
    parseTable sepC (renderTable sepC t) = t := by
  unfold parseTable
  rw [pyLines_renderTable h hs, List.map_map]
  conv => rhs; rw [← List.map_id t]
  apply List.map_congr_left
  intro row hrow
  simp only [Function.comp, chopNl_append_nl, id]
  exact splitOn_joinWith sepC row (h row hrow).1 (fun f hf => ((h row hrow).2 f hf).1)

theorem count_row_line {sepC : Char} (hs : sepC ≠ '\n') (row : List Str) (hne : row ≠ [])
    (hf : ∀ f ∈ row, sepC ∉ f) : (joinWith [sepC] row ++ ['\n']).count sepC + 1 = row.length := by
  rw [List.count_append]
  have : List.count sepC ['\n'] = 0 := by
    have : ('\n' == sepC) = false := by simpa using fun e => hs e.symm
    simp [List.count_cons, this]
  rw [this, Nat.add_zero]
  exact count_joinWith sepC row hne hf

/-- a rectangular table with at least one data row, whose first data row does
not look like a DefaultDirection line, is recognised as valid -/
theorem isValid_renderTable {sepC : Char} (hs : sepC ≠ '\n') (hdr r1 : List Str) (rest : List (List Str))
    (h : TableOk sepC (hdr :: r1 :: rest))
    (hrect : ∀ row ∈ r1 :: rest, row.length = hdr.length)
    (hdd : isDD (joinWith [sepC] r1) = false) :
    isValid sepC (renderTable sepC (hdr :: r1 :: rest)) = .ok true := by
  unfold isValid
  rw [pyLines_renderTable h hs, isValidLines_spec]
  simp only [List.map_cons, List.length_cons]
  have : ¬ ((List.map (fun row => joinWith [sepC] row ++ ['\n']) rest).length + 1 + 1 < 2) := by omega
  rw [if_neg this]
  congr 1
  simp only [validSpecB, List.length_cons, List.tail_cons, List.head?_cons, Option.map_some,
    Option.getD_some, isDD_append_nl, hdd, List.headD_cons, Bool.and_eq_true, decide_eq_true_eq,
    Bool.not_eq_true', List.all_eq_true, beq_iff_eq]
  refine ⟨⟨by omega, trivial⟩, ?_⟩
  intro l hl
  have hl' : l ∈ (r1 :: rest).map (fun row => joinWith [sepC] row ++ ['\n']) := by simpa using hl
  obtain ⟨row, hrow, rfl⟩ := List.mem_map.mp hl'
  have hmem : row ∈ hdr :: r1 :: rest := List.mem_cons_of_mem _ hrow
  have h1 := count_row_line hs row (h row hmem).1 (fun f hf => ((h row hmem).2 f hf).1)
  have h2 := count_row_line hs hdr (h hdr (by simp)).1 (fun f hf => ((h hdr (by simp)).2 f hf).1)
  have := hrect row hrow
  omega

end Mk
