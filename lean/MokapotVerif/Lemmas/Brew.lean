import MokapotVerif.Model.Brew
import Mathlib.Data.List.Forall2
import Mathlib.Data.List.Nodup
import Mathlib.Data.List.Perm.Basic
/-!
# Helper lemmas for C02 (cross-validation bookkeeping): generic list facts, `mapM` on
`Option`, `lookup`, `npSplit`, `groupStarts`, `splitPoints`, `firstGE`.
-/
namespace Mk.Brew

/-! ## generic -/

theorem forall₂_mem_left {β γ : Type} {R : β → γ → Prop} {l₁ : List β} {l₂ : List γ}
    (h : List.Forall₂ R l₁ l₂) : ∀ a ∈ l₁, ∃ b ∈ l₂, R a b := by
  induction h with
  | nil => intro a ha; simp at ha
  | cons hab _ ih =>
    intro a ha
    rcases List.mem_cons.mp ha with rfl | ha
    · exact ⟨_, by simp, hab⟩
    · obtain ⟨b, hb, hr⟩ := ih a ha
      exact ⟨b, List.mem_cons_of_mem _ hb, hr⟩

theorem forall₂_mem_right {β γ : Type} {R : β → γ → Prop} {l₁ : List β} {l₂ : List γ}
    (h : List.Forall₂ R l₁ l₂) : ∀ b ∈ l₂, ∃ a ∈ l₁, R a b := by
  induction h with
  | nil => intro b hb; simp at hb
  | cons hab _ ih =>
    intro b hb
    rcases List.mem_cons.mp hb with rfl | hb
    · exact ⟨_, by simp, hab⟩
    · obtain ⟨a, ha, hr⟩ := ih b hb
      exact ⟨a, List.mem_cons_of_mem _ ha, hr⟩

theorem forall₂_getD {β γ : Type} {R : β → γ → Prop} {l₁ : List β} {l₂ : List γ}
    (h : List.Forall₂ R l₁ l₂) (i : Nat) (hi : i < l₁.length) (d₁ : β) (d₂ : γ) :
    R (l₁.getD i d₁) (l₂.getD i d₂) := by
  induction h generalizing i with
  | nil => simp at hi
  | cons hab _ ih =>
    cases i with
    | zero => simpa using hab
    | succ k =>
      simp only [List.length_cons] at hi
      simpa using ih k (by omega)

/-- transfer of a pairwise relation along a pointwise relation -/
theorem pairwise_of_forall₂ {β γ : Type} {R : β → β → Prop} {R' : γ → γ → Prop} {S : β → γ → Prop}
    (htr : ∀ p q c d, R p q → S p c → S q d → R' c d) {ps : List β} {cs : List γ}
    (h : List.Forall₂ S ps cs) (hp : ps.Pairwise R) : cs.Pairwise R' := by
  induction h with
  | nil => exact List.Pairwise.nil
  | @cons p c ps cs hpc hrest ih =>
    rw [List.pairwise_cons] at hp ⊢
    refine ⟨?_, ih hp.2⟩
    intro d hd
    obtain ⟨q, hq, hqd⟩ := forall₂_mem_right hrest d hd
    exact htr p q c d (hp.1 q hq) hpc hqd

/-! ## `mapM` in `Option` -/

theorem mapM_some_forall₂ {β γ : Type} (g : β → Option γ) :
    ∀ (ps : List β) (cs : List γ), ps.mapM g = some cs →
      List.Forall₂ (fun p c => g p = some c) ps cs := by
  intro ps
  induction ps with
  | nil =>
    intro cs h
    simp at h
    subst h
    exact List.Forall₂.nil
  | cons p rest ih =>
    intro cs h
    rw [List.mapM_cons] at h
    cases hg : g p with
    | none => simp [hg] at h
    | some c =>
      cases hr : rest.mapM g with
      | none => simp [hg, hr] at h
      | some cs' =>
        simp [hg, hr] at h
        subst h
        exact List.Forall₂.cons hg (ih cs' hr)

theorem mapM_isSome_iff {β γ : Type} (g : β → Option γ) :
    ∀ (ps : List β), (ps.mapM g).isSome ↔ ∀ p ∈ ps, (g p).isSome := by
  intro ps
  induction ps with
  | nil => simp
  | cons p rest ih =>
    rw [List.mapM_cons]
    cases hg : g p with
    | none => simp [hg]
    | some c =>
      cases hr : rest.mapM g with
      | none =>
        have : ¬ ∀ p ∈ rest, (g p).isSome := by
          intro hall
          have := ih.mpr hall
          simp [hr] at this
        simp [hg]
        simpa using this
      | some cs' =>
        have : ∀ p ∈ rest, (g p).isSome := ih.mp (by simp [hr])
        simp [hg]
        simpa using this

/-! ## `lookup` -/

theorem lookup_some_mem {β : Type} (k : Nat) (v : β) :
    ∀ l : List (Nat × β), l.lookup k = some v → (k, v) ∈ l := by
  intro l
  induction l with
  | nil => intro h; simp at h
  | cons x rest ih =>
    intro h
    obtain ⟨x1, x2⟩ := x
    by_cases hk : k = x1
    · subst hk
      simp at h
      simp [h]
    · have hk' : (k == x1) = false := by simpa using hk
      rw [List.lookup_cons, hk'] at h
      exact List.mem_cons_of_mem _ (ih h)

theorem lookup_isSome_of_mem {β : Type} (k : Nat) (v : β) :
    ∀ l : List (Nat × β), (k, v) ∈ l → ∃ w, l.lookup k = some w := by
  intro l
  induction l with
  | nil => intro h; simp at h
  | cons x rest ih =>
    intro h
    obtain ⟨x1, x2⟩ := x
    by_cases hk : k = x1
    · subst hk
      exact ⟨x2, by simp⟩
    · have hk' : (k == x1) = false := by simpa using hk
      rw [List.lookup_cons, hk']
      rcases List.mem_cons.mp h with h | h
      · exact absurd (by simpa using congrArg Prod.fst h) hk
      · exact ih h

/-- if every entry stored under key `k` carries the value `v` and there is one, `lookup` finds `v` -/
theorem lookup_eq_of_unique {β : Type} (k : Nat) (v : β) (l : List (Nat × β))
    (hmem : (k, v) ∈ l) (huniq : ∀ w, (k, w) ∈ l → w = v) : l.lookup k = some v := by
  obtain ⟨w, hw⟩ := lookup_isSome_of_mem k v l hmem
  rw [hw, huniq w (lookup_some_mem k w l hw)]

/-! ## `npSplit` -/

theorem npSplit_length {α : Type} : ∀ (cuts : List Nat) (xs : List α) (off : Nat),
    (npSplit xs off cuts).length = cuts.length + 1 := by
  intro cuts
  induction cuts with
  | nil => intro xs off; simp [npSplit]
  | cons c cs ih => intro xs off; simp [npSplit, ih]

theorem npSplit_flatten {α : Type} : ∀ (cuts : List Nat) (xs : List α) (off : Nat),
    (npSplit xs off cuts).flatten = xs := by
  intro cuts
  induction cuts with
  | nil => intro xs off; simp [npSplit]
  | cons c cs ih =>
    intro xs off
    simp only [npSplit, List.flatten_cons, ih]
    exact List.take_append_drop _ _

/-- every piece of `np.split` at non-decreasing cuts is a slice `[l, r)` between two
consecutive boundaries, a boundary being the start, a cut, or the end -/
theorem npSplit_slices {α : Type} : ∀ (cuts : List Nat) (xs : List α) (off : Nat),
    cuts.Pairwise (· ≤ ·) → (∀ c ∈ cuts, off ≤ c) →
    ∀ fold ∈ npSplit xs off cuts, ∃ l r, (l = off ∨ l ∈ cuts) ∧ (r ∈ cuts ∨ xs.length + off ≤ r) ∧
      l ≤ r ∧ fold = (xs.take (r - off)).drop (l - off) := by
  intro cuts
  induction cuts with
  | nil =>
    intro xs off _ _ fold hfold
    simp only [npSplit, List.mem_singleton] at hfold
    subst hfold
    exact ⟨off, fold.length + off, Or.inl rfl, Or.inr (Nat.le_refl _), by omega, by simp⟩
  | cons c cs ih =>
    intro xs off hpw hoff fold hfold
    rw [List.pairwise_cons] at hpw
    have hc : off ≤ c := hoff c (by simp)
    simp only [npSplit, List.mem_cons] at hfold
    rcases hfold with rfl | hfold
    · exact ⟨off, c, Or.inl rfl, Or.inl (by simp), hc, by simp⟩
    · obtain ⟨l, r, hl, hr, hlr, heq⟩ := ih (xs.drop (c - off)) c hpw.2 hpw.1 fold hfold
      have hcl : c ≤ l := by
        rcases hl with rfl | hl
        · exact Nat.le_refl _
        · exact hpw.1 l hl
      refine ⟨l, r, ?_, ?_, hlr, ?_⟩
      · rcases hl with rfl | hl
        · exact Or.inr (by simp)
        · exact Or.inr (List.mem_cons_of_mem _ hl)
      · rcases hr with hr | hr
        · exact Or.inl (List.mem_cons_of_mem _ hr)
        · refine Or.inr ?_
          simp only [List.length_drop] at hr
          omega
      · rw [heq, List.take_drop, List.drop_drop]
        congr 1
        · omega
        · congr 1
          omega

theorem mem_drop_take {α : Type} (xs : List α) (l r : Nat) (x : α) :
    x ∈ (xs.take r).drop l ↔ ∃ k, l ≤ k ∧ k < r ∧ xs[k]? = some x := by
  rw [List.mem_iff_getElem?]
  constructor
  · rintro ⟨i, hi⟩
    rw [List.getElem?_drop, List.getElem?_take] at hi
    by_cases h : l + i < r
    · rw [if_pos h] at hi
      exact ⟨l + i, by omega, h, hi⟩
    · rw [if_neg h] at hi
      simp at hi
  · rintro ⟨k, hlk, hkr, hk⟩
    refine ⟨k - l, ?_⟩
    rw [List.getElem?_drop, List.getElem?_take]
    have : l + (k - l) = k := by omega
    rw [this, if_pos hkr, hk]

/-! ## `groupStarts` -/

theorem groupStartsAux_mem : ∀ (hs : List Nat) (i : Nat) (prev : Option Nat) (s : Nat),
    s ∈ groupStartsAux i prev hs →
      ∃ k, s = i + k ∧ k < hs.length ∧ (prev :: hs.map some)[k]? ≠ (hs.map some)[k]? := by
  intro hs
  induction hs with
  | nil => intro i prev s h; simp [groupStartsAux] at h
  | cons h rest ih =>
    intro i prev s hmem
    have key : s ∈ groupStartsAux (i + 1) (some h) rest →
        ∃ k, s = i + k ∧ k < (h :: rest).length ∧
          (prev :: (h :: rest).map some)[k]? ≠ ((h :: rest).map some)[k]? := by
      intro hm
      obtain ⟨k, hk, hlt, hne⟩ := ih (i + 1) (some h) s hm
      refine ⟨k + 1, by omega, by simp only [List.length_cons]; omega, ?_⟩
      simpa using hne
    simp only [groupStartsAux] at hmem
    by_cases hp : prev = some h
    · rw [if_pos hp] at hmem
      exact key hmem
    · rw [if_neg hp] at hmem
      rcases List.mem_cons.mp hmem with rfl | hmem
      · exact ⟨0, by omega, by simp, by simpa using hp⟩
      · exact key hmem

/-- a group start is a position of the array whose predecessor (if any) holds another value -/
theorem groupStarts_mem (hs : List Nat) (s : Nat) (h : s ∈ groupStarts hs) :
    s < hs.length ∧ ∀ k, s = k + 1 → hs[k]? ≠ hs[s]? := by
  obtain ⟨k, hk, hlt, hne⟩ := groupStartsAux_mem hs 0 none s h
  have : s = k := by omega
  subst this
  refine ⟨hlt, ?_⟩
  intro k' hk'
  subst hk'
  intro heq
  apply hne
  simp [heq]

theorem groupStartsAux_pairwise : ∀ (hs : List Nat) (i : Nat) (prev : Option Nat),
    (groupStartsAux i prev hs).Pairwise (· < ·) := by
  intro hs
  induction hs with
  | nil => intro i prev; simp [groupStartsAux]
  | cons h rest ih =>
    intro i prev
    simp only [groupStartsAux]
    by_cases hp : prev = some h
    · rw [if_pos hp]; exact ih _ _
    · rw [if_neg hp, List.pairwise_cons]
      refine ⟨?_, ih _ _⟩
      intro s hs'
      obtain ⟨k, hk, _, _⟩ := groupStartsAux_mem rest (i + 1) (some h) s hs'
      omega

theorem groupStarts_pairwise (hs : List Nat) : (groupStarts hs).Pairwise (· < ·) :=
  groupStartsAux_pairwise hs 0 none

/-- in a sorted array a group start separates strictly smaller from larger-or-equal values -/
theorem groupStarts_separates (hs : List Nat) (hsorted : hs.Pairwise (· ≤ ·)) (s : Nat)
    (h : s ∈ groupStarts hs) (i j : Nat) (hi : i < s) (hj : s ≤ j) (hjl : j < hs.length) :
    hs[i]'(by omega) < hs[j] := by
  obtain ⟨hlt, hne⟩ := groupStarts_mem hs s h
  obtain ⟨k, rfl⟩ : ∃ k, s = k + 1 := ⟨s - 1, by omega⟩
  have hne' := hne k rfl
  rw [List.pairwise_iff_getElem] at hsorted
  have h1 : hs[k]'(by omega) ≠ hs[k + 1] := by
    intro heq
    apply hne'
    rw [List.getElem?_eq_getElem (by omega), List.getElem?_eq_getElem hlt, heq]
  have h2 : hs[k]'(by omega) ≤ hs[k + 1] := hsorted k (k + 1) (by omega) hlt (by omega)
  have h3 : hs[i]'(by omega) ≤ hs[k]'(by omega) := by
    by_cases hik : i = k
    · subst hik; exact Nat.le_refl _
    · exact hsorted i k (by omega) (by omega) (by omega)
  have h4 : hs[k + 1] ≤ hs[j] := by
    by_cases hkj : k + 1 = j
    · subst hkj; exact Nat.le_refl _
    · exact hsorted (k + 1) j hlt hjl (by omega)
  omega

/-! ## `splitPoints`, `firstGE` -/

theorem splitPoints_length (n folds : Nat) : (splitPoints n folds).length = folds - 1 := by
  simp [splitPoints]

theorem splitPoints_pairwise (n folds : Nat) : (splitPoints n folds).Pairwise (· ≤ ·) := by
  unfold splitPoints
  rw [List.pairwise_map]
  refine List.pairwise_lt_range.imp ?_
  intro a b hab
  have h1 : (a + 1) * (n / folds) ≤ (b + 1) * (n / folds) := Nat.mul_le_mul_right _ (by omega)
  have h2 : min (a + 1) (n % folds) ≤ min (b + 1) (n % folds) := by omega
  omega

theorem firstGE_mem (starts : List Nat) (p s : Nat) (h : firstGE starts p = some s) :
    s ∈ starts ∧ p ≤ s := by
  unfold firstGE at h
  exact ⟨List.mem_of_find?_eq_some h, by simpa using List.find?_some h⟩

theorem firstGE_mono (starts : List Nat) (hst : starts.Pairwise (· < ·)) (p q s t : Nat) (hpq : p ≤ q)
    (hs : firstGE starts p = some s) (ht : firstGE starts q = some t) : s ≤ t := by
  have ⟨htm, hqt⟩ := firstGE_mem starts q t ht
  unfold firstGE at hs
  rw [List.find?_eq_some_iff_append] at hs
  obtain ⟨_, as, bs, heq, has⟩ := hs
  subst heq
  rcases List.mem_append.mp htm with hta | htb
  · have := has t hta
    simp at this
    omega
  · rcases List.mem_cons.mp htb with rfl | htb
    · exact Nat.le_refl _
    · have := (List.pairwise_append.mp hst).2.1
      rw [List.pairwise_cons] at this
      exact Nat.le_of_lt (this.1 t htb)

theorem firstGE_isSome_iff (starts : List Nat) (p : Nat) :
    (firstGE starts p).isSome ↔ ∃ s ∈ starts, p ≤ s := by
  unfold firstGE
  rw [List.find?_isSome]
  simp

/-- the cut positions computed by `_split`: group starts, non-decreasing -/
theorem cuts_props (starts : List Nat) (hst : starts.Pairwise (· < ·)) (ps cuts : List Nat)
    (hps : ps.Pairwise (· ≤ ·)) (h : ps.mapM (firstGE starts) = some cuts) :
    cuts.length = ps.length ∧ (∀ c ∈ cuts, c ∈ starts) ∧ cuts.Pairwise (· ≤ ·) := by
  have hf := mapM_some_forall₂ _ ps cuts h
  refine ⟨hf.length_eq.symm, ?_, ?_⟩
  · intro c hc
    obtain ⟨p, _, hpc⟩ := forall₂_mem_right hf c hc
    exact (firstGE_mem starts p c hpc).1
  · exact pairwise_of_forall₂ (fun p q c d hpq hpc hqd => firstGE_mono starts hst p q c d hpq hpc hqd)
      hf hps

end Mk.Brew
