import MokapotVerif.Lemmas.PinScan
/-! Helper lemmas for C10: the case-insensitive look-up of the reserved columns. -/
namespace Mk.Pin

theorem filter_eq_find_toList {p : Name → Bool} {l : List Name} (h : (l.filter p).length ≤ 1) :
    l.filter p = (l.find? p).toList := by
  rw [← List.head?_filter]
  cases hf : l.filter p with
  | nil => rfl
  | cons a rest =>
    rw [hf] at h
    cases rest with
    | nil => rfl
    | cons b r => simp at h

theorem foundColumns_lower {q : Name} (hq : lowerName q = q) (hdr : List Name) :
    foundColumns true q hdr = hdr.filter (fun c => lowerName c == q) := by
  unfold foundColumns strCompare; simp [hq]

theorem filter_pick {hdr : List Name} {q : Name} (h : countLower hdr q ≤ 1) :
    hdr.filter (fun c => lowerName c == q) = (pick hdr q).toList := by
  unfold pick
  apply filter_eq_find_toList
  rw [← List.countP_eq_length_filter]; exact h

theorem pick_some_of_count {hdr : List Name} {q : Name} (h : countLower hdr q = 1) :
    ∃ x, pick hdr q = some x ∧ x ∈ hdr ∧ lowerName x = q := by
  have hf := filter_pick (hdr := hdr) (q := q) (by omega)
  have hl : (hdr.filter (fun c => lowerName c == q)).length = 1 := by
    rw [← List.countP_eq_length_filter]; exact h
  cases hp : pick hdr q with
  | none => rw [hf, hp] at hl; simp at hl
  | some x =>
    refine ⟨x, rfl, ?_⟩
    have : x ∈ hdr.filter (fun c => lowerName c == q) := by rw [hf, hp]; simp
    rw [List.mem_filter] at this
    exact ⟨this.1, by simpa using this.2⟩

theorem mem_pick_iff {hdr : List Name} {q c : Name} (h : countLower hdr q ≤ 1) :
    c ∈ (pick hdr q).toList ↔ c ∈ hdr ∧ lowerName c = q := by
  rw [← filter_pick h, List.mem_filter]; simp

theorem pickD_toList {hdr : List Name} {q : Name} (h : countLower hdr q = 1) :
    [pickD hdr q] = (pick hdr q).toList := by
  obtain ⟨x, hx, _, _⟩ := pick_some_of_count h
  unfold pickD; rw [hx]; rfl

theorem findRequiredColumn_ok {hdr : List Name} {q : Name} (hq : lowerName q = q)
    (h : countLower hdr q = 1) : findRequiredColumn q hdr = .ok (pickD hdr q) := by
  unfold findRequiredColumn
  rw [foundColumns_lower hq, filter_pick (by omega), ← pickD_toList h]
  rfl

theorem findOptionalColumn_default {hdr : List Name} {q : Name} (hq : lowerName q = q)
    (h : countLower hdr q ≤ 1) : findOptionalColumn none hdr q = .ok (pick hdr q) := by
  unfold findOptionalColumn
  have : orDefault none q = q := rfl
  rw [this]
  simp only [Option.isNone_none, Option.isSome_none]
  rw [foundColumns_lower hq, filter_pick h]
  cases pick hdr q <;> rfl

/-- the classification of a header whose reserved columns are unique up to case -/
def defaultClassified (hdr : List Name) : Classified :=
  { specid := pickD hdr nSpecid, peptides := pickD hdr nPeptide, proteins := pickD hdr nProteins,
    labels := pickD hdr nLabel, scan := pickD hdr nScannr,
    modpep := hdr.filter (fun c => lowerName c == nModifiedpeptide),
    precursors := hdr.filter (fun c => lowerName c == nPrecursor),
    pepgroups := hdr.filter (fun c => lowerName c == nPeptidegroup),
    filename := pick hdr nFilename, calcmass := pick hdr nCalcmass, expmass := pick hdr nExpmass,
    rt := pick hdr nRetTime, charge := pick hdr nChargeColumn }

theorem lower_lit :
    lowerName nSpecid = nSpecid ∧ lowerName nPeptide = nPeptide ∧ lowerName nProteins = nProteins ∧
    lowerName nLabel = nLabel ∧ lowerName nScannr = nScannr ∧
    lowerName nModifiedpeptide = nModifiedpeptide ∧ lowerName nPrecursor = nPrecursor ∧
    lowerName nPeptidegroup = nPeptidegroup ∧ lowerName nFilename = nFilename ∧
    lowerName nCalcmass = nCalcmass ∧ lowerName nExpmass = nExpmass ∧ lowerName nRetTime = nRetTime ∧
    lowerName nChargeColumn = nChargeColumn := by decide

structure HeaderOk (hdr : List Name) : Prop where
  required : ∀ q ∈ requiredNames, countLower hdr q = 1
  optional : ∀ q ∈ optionalNames ++ [nChargeColumn], countLower hdr q ≤ 1

theorem lookupColumns_default {hdr : List Name} (h : HeaderOk hdr) :
    lookupColumns {} hdr = .ok (defaultClassified hdr) := by
  obtain ⟨l1, l2, l3, l4, l5, l6, l7, l8, l9, l10, l11, l12, l13⟩ := lower_lit
  unfold lookupColumns
  rw [findRequiredColumn_ok l1 (h.required _ (by simp [requiredNames])),
    findRequiredColumn_ok l2 (h.required _ (by simp [requiredNames])),
    findRequiredColumn_ok l3 (h.required _ (by simp [requiredNames])),
    findRequiredColumn_ok l4 (h.required _ (by simp [requiredNames])),
    findRequiredColumn_ok l5 (h.required _ (by simp [requiredNames]))]
  simp only [bind, Except.bind]
  rw [findOptionalColumn_default l9 (h.optional _ (by simp [optionalNames])),
    findOptionalColumn_default l10 (h.optional _ (by simp [optionalNames])),
    findOptionalColumn_default l11 (h.optional _ (by simp [optionalNames])),
    findOptionalColumn_default l12 (h.optional _ (by simp [optionalNames])),
    findOptionalColumn_default l13 (h.optional _ (by simp [optionalNames]))]
  simp only [findColumns, foundColumns_lower l6, foundColumns_lower l7, foundColumns_lower l8]
  rfl

theorem req_count {hdr : List Name} (h : HeaderOk hdr) :
    countLower hdr nSpecid = 1 ∧ countLower hdr nPeptide = 1 ∧ countLower hdr nProteins = 1 ∧
    countLower hdr nLabel = 1 ∧ countLower hdr nScannr = 1 :=
  ⟨h.required _ (by simp [requiredNames]), h.required _ (by simp [requiredNames]),
   h.required _ (by simp [requiredNames]), h.required _ (by simp [requiredNames]),
   h.required _ (by simp [requiredNames])⟩

theorem opt_count {hdr : List Name} (h : HeaderOk hdr) :
    countLower hdr nFilename ≤ 1 ∧ countLower hdr nCalcmass ≤ 1 ∧ countLower hdr nExpmass ≤ 1 ∧
    countLower hdr nRetTime ≤ 1 ∧ countLower hdr nChargeColumn ≤ 1 :=
  ⟨h.optional _ (by simp [optionalNames]), h.optional _ (by simp [optionalNames]),
   h.optional _ (by simp [optionalNames]), h.optional _ (by simp [optionalNames]),
   h.optional _ (by simp [optionalNames])⟩

/-- spectrum key of the default classification = the specified one -/
theorem default_spectra {hdr : List Name} (h : HeaderOk hdr) :
    (defaultClassified hdr).spectra = specSpectrum hdr := by
  obtain ⟨x, hx, _, _⟩ := pick_some_of_count (req_count h).2.2.2.2
  unfold Classified.spectra defaultClassified specSpectrum pickD
  simp only [hx, List.filterMap_cons, List.filterMap_nil]
  cases pick hdr nFilename <;> cases pick hdr nRetTime <;> cases pick hdr nExpmass <;> rfl

theorem altCharge_length (hdr : List Name) :
    (altCharge hdr).length = hdr.countP (fun x => nCharge.isPrefixOf (lowerName x)) := by
  unfold altCharge; rw [List.countP_eq_length_filter]

theorem default_chargeMeta {hdr : List Name} (h : HeaderOk hdr) :
    (defaultClassified hdr).chargeMeta hdr = hdr.filter (chargeReserved hdr) := by
  unfold Classified.chargeMeta chargeReserved
  rw [altCharge_length]
  by_cases hb : 1 < hdr.countP (fun x => nCharge.isPrefixOf (lowerName x))
  · simp only [hb, if_true, decide_true, Bool.and_true]
    rw [filter_pick (opt_count h).2.2.2.2]; rfl
  · simp only [hb, if_false, decide_false, Bool.and_false]
    simp

/-- metadata columns of the default classification = the specified ones -/
theorem default_nonfeat {hdr : List Name} (h : HeaderOk hdr) :
    (defaultClassified hdr).nonfeat hdr = specMetadata hdr := by
  unfold Classified.nonfeat specMetadata
  rw [default_chargeMeta h]
  unfold defaultClassified levelNames
  simp only [List.map_cons, List.map_nil, List.flatMap_cons, List.flatMap_nil, List.filterMap_cons,
    List.filterMap_nil, List.append_nil]
  cases pick hdr nFilename <;> cases pick hdr nCalcmass <;> cases pick hdr nExpmass <;>
    cases pick hdr nRetTime <;> simp [Option.toList]

theorem default_level (hdr : List Name) :
    (defaultClassified hdr).level
      = [pickD hdr nPeptide] ++ levelNames.flatMap (fun q => hdr.filter (fun c => lowerName c == q)) := by
  unfold Classified.level defaultClassified levelNames
  simp [List.flatMap_cons]

theorem mem_chargeMeta_iff {hdr : List Name} (h : HeaderOk hdr) {c : Name} :
    c ∈ (defaultClassified hdr).chargeMeta hdr ↔ c ∈ hdr ∧ chargeReserved hdr c = true := by
  rw [default_chargeMeta h, List.mem_filter]

/-- a column of the file is metadata iff it is reserved -/
theorem default_nonfeat_contains {hdr : List Name} (h : HeaderOk hdr) {c : Name} (hc : c ∈ hdr) :
    ((defaultClassified hdr).nonfeat hdr).contains c = isReserved hdr c := by
  obtain ⟨r1, r2, r3, r4, r5⟩ := req_count h
  obtain ⟨o1, o2, o3, o4, _⟩ := opt_count h
  rw [Bool.eq_iff_iff, List.contains_iff_mem]
  have hcm := mem_chargeMeta_iff h (c := c)
  unfold Classified.nonfeat
  have e1 : [(defaultClassified hdr).specid, (defaultClassified hdr).scan, (defaultClassified hdr).peptides,
      (defaultClassified hdr).proteins, (defaultClassified hdr).labels]
      = (pick hdr nSpecid).toList ++ (pick hdr nScannr).toList ++ (pick hdr nPeptide).toList
        ++ (pick hdr nProteins).toList ++ (pick hdr nLabel).toList := by
    rw [← pickD_toList r1, ← pickD_toList r5, ← pickD_toList r2, ← pickD_toList r3, ← pickD_toList r4]
    rfl
  rw [e1]
  simp only [List.mem_append, hcm]
  have m1 := mem_pick_iff (c := c) (Nat.le_of_eq r1)
  have m2 := mem_pick_iff (c := c) (Nat.le_of_eq r2)
  have m3 := mem_pick_iff (c := c) (Nat.le_of_eq r3)
  have m4 := mem_pick_iff (c := c) (Nat.le_of_eq r4)
  have m5 := mem_pick_iff (c := c) (Nat.le_of_eq r5)
  have m6 := mem_pick_iff (c := c) o1
  have m7 := mem_pick_iff (c := c) o2
  have m8 := mem_pick_iff (c := c) o3
  have m9 := mem_pick_iff (c := c) o4
  have f1 : c ∈ (defaultClassified hdr).modpep ↔ c ∈ hdr ∧ lowerName c = nModifiedpeptide := by
    unfold defaultClassified; simp [List.mem_filter]
  have f2 : c ∈ (defaultClassified hdr).precursors ↔ c ∈ hdr ∧ lowerName c = nPrecursor := by
    unfold defaultClassified; simp [List.mem_filter]
  have f3 : c ∈ (defaultClassified hdr).pepgroups ↔ c ∈ hdr ∧ lowerName c = nPeptidegroup := by
    unfold defaultClassified; simp [List.mem_filter]
  have g1 : (defaultClassified hdr).filename = pick hdr nFilename := rfl
  have g2 : (defaultClassified hdr).calcmass = pick hdr nCalcmass := rfl
  have g3 : (defaultClassified hdr).expmass = pick hdr nExpmass := rfl
  have g4 : (defaultClassified hdr).rt = pick hdr nRetTime := rfl
  rw [g1, g2, g3, g4, m1, m2, m3, m4, m5, m6, m7, m8, m9, f1, f2, f3]
  unfold isReserved requiredNames levelNames optionalNames
  simp only [List.cons_append, List.nil_append, List.contains_iff_mem, List.mem_cons, List.not_mem_nil,
    or_false, Bool.or_eq_true, hc, true_and]
  grind

/-- features of the default classification: the non-reserved columns in file order -/
theorem default_features {hdr : List Name} (h : HeaderOk hdr) :
    (defaultClassified hdr).features hdr = hdr.filter (fun c => !isReserved hdr c) := by
  unfold Classified.features
  apply List.filter_congr
  intro c hc
  rw [default_nonfeat_contains h hc]

theorem pick_eq_some_iff {hdr : List Name} {q x : Name} (h : countLower hdr q ≤ 1) (hx : x ∈ hdr) :
    pick hdr q = some x ↔ lowerName x = q := by
  have := mem_pick_iff (c := x) h
  rw [Option.mem_toList] at this
  constructor
  · intro hp; exact (this.mp hp).2
  · intro hl; exact this.mpr ⟨hx, hl⟩

theorem pickD_eq_iff {hdr : List Name} {q x : Name} (h : countLower hdr q = 1) (hx : x ∈ hdr) :
    pickD hdr q = x ↔ lowerName x = q := by
  obtain ⟨y, hy, _, _⟩ := pick_some_of_count h
  rw [← pick_eq_some_iff (Nat.le_of_eq h) hx]
  unfold pickD
  rw [hy]
  simp

end Mk.Pin
