import MokapotVerif.Lemmas.CrossKeys
import MokapotVerif.Model.CrossText
/-! Helper lemmas for `Model/CrossText.lean`. -/
namespace Mk.Cross
open Mk Mk.Brew

theorem zipWith_snd_of_length {α β : Type} : ∀ (ds : List α) (ts : List β), ds.length = ts.length →
    List.zipWith (fun _ t => t) ds ts = ts
  | [], [], _ => rfl
  | [], _ :: _, h => by simp at h
  | _ :: _, [], h => by simp at h
  | _ :: ds, t :: ts, h => by
      simp only [List.zipWith_cons_cons]
      rw [zipWith_snd_of_length ds ts (by simpa using h)]

/-- read as text, a column comes back as it is — for every chunk size -/
theorem readColumn_asText (clsOf : Nat → Nat) (canon : Nat → Nat → Nat) (c : Nat) (hc : 0 < c) (ts : List Nat) :
    readColumn true clsOf canon c ts = ts := by
  unfold readColumn
  have h : readCell true canon = fun _ t => t := by funext d t; simp [readCell]
  rw [h]
  exact zipWith_snd_of_length _ _ (by rw [chunkDtypes_length c hc, List.length_map])

theorem zipWith_setId_self : ∀ (rows : List Row),
    List.zipWith (fun t r => { r with id := t }) (rows.map (fun r => r.id)) rows = rows
  | [] => rfl
  | r :: rows => by
      simp only [List.map_cons, List.zipWith_cons_cons]
      rw [zipWith_setId_self rows]

theorem retypeIds_asText (clsOf : Nat → Nat) (canon : Nat → Nat → Nat) (c : Nat) (hc : 0 < c) (rows : List Row) :
    retypeIds true clsOf canon c rows = rows := by
  unfold retypeIds
  rw [readColumn_asText clsOf canon c hc]
  exact zipWith_setId_self rows

/-- a column all of whose cells are text that is not a number is typed `object` in every chunk: also the
reader that infers the types hands it on as it is -/
theorem readColumn_allText (asText : Bool) (clsOf : Nat → Nat) (canon : Nat → Nat → Nat) (c : Nat) (hc : 0 < c)
    (ts : List Nat) (h : ∀ t ∈ ts, clsOf t = 2) : readColumn asText clsOf canon c ts = ts := by
  unfold readColumn
  have hd : chunkDtypes c (ts.map clsOf) = ts.map clsOf :=
    chunkDtypes_uniform c hc _ 2 (by
      intro x hx
      obtain ⟨t, ht, rfl⟩ := List.mem_map.mp hx
      exact h t ht)
  rw [hd]
  clear hd
  induction ts with
  | nil => rfl
  | cons t ts ih =>
    simp only [List.map_cons, List.zipWith_cons_cons]
    rw [ih (fun t' ht' => h t' (List.mem_cons_of_mem _ ht'))]
    simp [readCell, h t (List.mem_cons_self)]

theorem textLevels_asText (clsOf : Nat → Nat) (canon : Nat → Nat → Nat) (c m : Nat) (hc : 0 < c) (hm : 0 < m)
    (dedup : Bool) (n : Nat) (md : List Row) (sc : List Int) :
    textLevels true clsOf canon c m dedup n md sc = chunkedLevels c dedup n md sc := by
  unfold textLevels chunkedLevels
  simp only [retypeIds_asText clsOf canon c hc, retypeIds_asText clsOf canon m hm]

theorem textFiles_asText (clsOf : Nat → Nat) (canon : Nat → Nat → Nat) (c m : Nat) (hc : 0 < c) (hm : 0 < m)
    (dedup : Bool) (n : Nat) (pep : List Row → List Rat) (md : List Row) (sc : List Int) :
    textFiles true clsOf canon c m dedup n pep md sc = resultFiles c dedup n pep md sc := by
  unfold textFiles resultFiles
  rw [textLevels_asText clsOf canon c m hc hm]
  apply List.map_congr_left
  intro rows _
  unfold textLevelFile
  rw [retypeIds_asText clsOf canon c hc]

theorem map_castWidth_of_kinds (t₁ t₂ : List NumType) (h : t₁.map (fun t => t.float) = t₂.map (fun t => t.float)) :
    t₁.map castWidth = t₂.map castWidth := by
  have e : ∀ ts : List NumType, ts.map castWidth
      = (ts.map (fun t => t.float)).map (fun f => ({ float := f, bits := 64, signed := true } : NumType)) := by
    intro ts; rw [List.map_map]; rfl
  rw [e t₁, e t₂, h]

theorem map_castWidth_of_64 (ts : List NumType) (h : ∀ t ∈ ts, t.bits = 64 ∧ t.signed = true) :
    ts.map castWidth = ts := by
  induction ts with
  | nil => rfl
  | cons t ts ih =>
    simp only [List.map_cons]
    rw [ih (fun t' ht' => h t' (List.mem_cons_of_mem _ ht'))]
    obtain ⟨hb, hs⟩ := h t (List.mem_cons_self)
    cases t
    simp_all [castWidth]

end Mk.Cross
