import MokapotVerif.Lemmas.DigestPat
import MokapotVerif.Model.DigestMulti
/-!
The double loop of `_cleave` over an arbitrary weakly increasing list of sites
that starts with `0`: index pairs `(i, i + d)` are re-read as decompositions
`sites = pre ++ s :: (mid ++ t :: post)` with `mid.length = d - 1`, and the
entries of `mid` are counted by `betweenM` / `beforeM`.  No hypothesis on the
bounds.
-/
namespace Mk

/-! ## list decompositions -/

theorem getElem?_some_split {α : Type} (l : List α) (i : Nat) (s : α) :
    l[i]? = some s ↔ ∃ pre post, l = pre ++ s :: post ∧ pre.length = i := by
  induction l generalizing i with
  | nil => simp
  | cons x xs ih =>
    cases i with
    | zero =>
      simp only [List.getElem?_cons_zero, Option.some.injEq]
      constructor
      · rintro rfl; exact ⟨[], xs, rfl, rfl⟩
      · rintro ⟨pre, post, h, hl⟩
        cases pre with
        | nil =>
          simp only [List.nil_append, List.cons.injEq] at h
          exact h.1
        | cons _ _ => simp at hl
    | succ j =>
      rw [List.getElem?_cons_succ, ih]
      constructor
      · rintro ⟨pre, post, rfl, rfl⟩; exact ⟨x :: pre, post, rfl, rfl⟩
      · rintro ⟨pre, post, h, hl⟩
        cases pre with
        | nil => simp at hl
        | cons y pre' =>
          simp only [List.cons_append, List.cons.injEq] at h
          exact ⟨pre', post, h.2, by simpa using hl⟩

/-- the double loop of `_cleave` as a statement about contiguous segments of the
list of sites: start entry `s`, at most `mc` entries `mid`, end entry `t` -/
theorem mem_cleave_split (seq : List Char) (sites : List Nat) (mc lo hi : Nat) (semi clip : Bool) (p : Pep) :
    p ∈ cleave seq sites mc lo hi semi clip ↔
      ∃ pre s mid t post, sites = pre ++ s :: (mid ++ t :: post) ∧ mid.length ≤ mc
        ∧ p ∈ pepsOf lo hi semi clip pre.length (slice seq s t) := by
  rw [mem_cleave]
  constructor
  · rintro ⟨i, d, s, t, hs, d1, d2, ht, hp⟩
    obtain ⟨pre, r, rfl, rfl⟩ := (getElem?_some_split _ _ _).mp hs
    obtain ⟨d', rfl⟩ : ∃ d', d = d' + 1 := ⟨d - 1, by omega⟩
    have ht' : r[d']? = some t := by
      rw [List.getElem?_append_right (by omega)] at ht
      have : pre.length + (d' + 1) - pre.length = d' + 1 := by omega
      rw [this, List.getElem?_cons_succ] at ht
      exact ht
    obtain ⟨mid, post, rfl, hm⟩ := (getElem?_some_split _ _ _).mp ht'
    exact ⟨pre, s, mid, t, post, rfl, by omega, hp⟩
  · rintro ⟨pre, s, mid, t, post, rfl, hm, hp⟩
    refine ⟨pre.length, mid.length + 1, s, t, ?_, by omega, by omega, ?_, hp⟩
    · simp
    · rw [List.getElem?_append_right (by omega)]
      have : pre.length + (mid.length + 1) - pre.length = mid.length + 1 := by omega
      rw [this, List.getElem?_cons_succ]
      simp

theorem split_first (l : List Nat) (b : Nat) (h : b ∈ l) :
    ∃ m post, l = m ++ b :: post ∧ b ∉ m := by
  induction l with
  | nil => simp at h
  | cons x xs ih =>
    by_cases hx : x = b
    · subst hx; exact ⟨[], xs, rfl, by simp⟩
    · have hb : b ∈ xs := by
        rcases List.mem_cons.mp h with h | h
        · exact absurd h.symm hx
        · exact h
      obtain ⟨m, post, rfl, hm⟩ := ih hb
      refine ⟨x :: m, post, rfl, ?_⟩
      intro hmem
      rcases List.mem_cons.mp hmem with h' | h'
      · exact hx h'.symm
      · exact hm h'

theorem split_last (l : List Nat) (a : Nat) (h : a ∈ l) :
    ∃ pre r, l = pre ++ a :: r ∧ a ∉ r := by
  induction l with
  | nil => simp at h
  | cons x xs ih =>
    by_cases ha : a ∈ xs
    · obtain ⟨pre, r, rfl, hr⟩ := ih ha
      exact ⟨x :: pre, r, rfl, hr⟩
    · have hx : a = x := by
        rcases List.mem_cons.mp h with h | h
        · exact h
        · exact absurd h ha
      subst hx
      exact ⟨[], xs, rfl, ha⟩

/-! ## weakly increasing lists -/

theorem sorted_split (pre mid post : List Nat) (s t : Nat)
    (h : (pre ++ s :: (mid ++ t :: post)).Pairwise (· ≤ ·)) :
    (∀ x ∈ pre, x ≤ s) ∧ (∀ x ∈ mid, s ≤ x ∧ x ≤ t) ∧ s ≤ t ∧ (∀ x ∈ post, t ≤ x) := by
  rw [List.pairwise_append, List.pairwise_cons, List.pairwise_append, List.pairwise_cons] at h
  obtain ⟨-, ⟨hs, -, ⟨ht, -⟩, hmt⟩, hpre⟩ := h
  refine ⟨fun x hx => hpre x hx s (by simp), fun x hx => ⟨hs x (by simp [hx]), hmt x hx t (by simp)⟩,
    hs t (by simp), ht⟩

theorem between_le_mid (pre mid post : List Nat) (s t : Nat)
    (h : (pre ++ s :: (mid ++ t :: post)).Pairwise (· ≤ ·)) :
    betweenM (pre ++ s :: (mid ++ t :: post)) s t ≤ mid.length := by
  obtain ⟨h1, -, -, h4⟩ := sorted_split pre mid post s t h
  unfold betweenM
  have e1 : pre.countP (fun x => decide (s < x) && decide (x < t)) = 0 := by
    rw [List.countP_eq_zero]
    intro x hx
    have := h1 x hx
    simp; omega
  have e2 : post.countP (fun x => decide (s < x) && decide (x < t)) = 0 := by
    rw [List.countP_eq_zero]
    intro x hx
    have := h4 x hx
    simp; omega
  have e3 := List.countP_le_length (p := fun x => decide (s < x) && decide (x < t)) (l := mid)
  simp only [List.countP_append, List.countP_cons, e1, e2, Nat.lt_irrefl, decide_false, Bool.false_and,
    Bool.and_false, Bool.false_eq_true, if_false, Nat.add_zero, Nat.zero_add]
  exact e3

theorem before_le_mid (mid post : List Nat) (t : Nat)
    (h : (0 :: (mid ++ t :: post)).Pairwise (· ≤ ·)) :
    beforeM (0 :: (mid ++ t :: post)) t ≤ mid.length := by
  obtain ⟨-, -, -, h4⟩ := sorted_split [] mid post 0 t h
  unfold beforeM
  have e2 : post.countP (fun x => decide (x < t)) = 0 := by
    rw [List.countP_eq_zero]
    intro x hx
    have := h4 x hx
    simp; omega
  have e3 := List.countP_le_length (p := fun x => decide (x < t)) (l := mid)
  simp only [List.tail_cons, List.countP_append, List.countP_cons, e2, Nat.lt_irrefl, decide_false,
    Bool.false_eq_true, if_false, Nat.add_zero]
  exact e3

/-- two listed positions `a < b`: a segment from the last `a` to the first `b`,
all of whose inner entries lie strictly between -/
theorem exists_split_between (sites : List Nat) (hs : sites.Pairwise (· ≤ ·)) (a b : Nat)
    (ha : a ∈ sites) (hb : b ∈ sites) (hab : a < b) :
    ∃ pre mid post, sites = pre ++ a :: (mid ++ b :: post) ∧ mid.length ≤ betweenM sites a b := by
  obtain ⟨pre, r, rfl, har⟩ := split_last sites a ha
  have hbr : b ∈ r := by
    rcases List.mem_append.mp hb with h | h
    · exfalso
      rw [List.pairwise_append] at hs
      have := hs.2.2 b h a (by simp)
      omega
    · rcases List.mem_cons.mp h with h | h
      · omega
      · exact h
  obtain ⟨mid, post, rfl, hbm⟩ := split_first r b hbr
  refine ⟨pre, mid, post, rfl, ?_⟩
  obtain ⟨-, h2, -, -⟩ := sorted_split pre mid post a b hs
  have hall : mid.countP (fun x => decide (a < x) && decide (x < b)) = mid.length := by
    rw [List.countP_eq_length]
    intro x hx
    have hxa : x ≠ a := fun e => har (by subst e; simp [hx])
    have hxb : x ≠ b := fun e => hbm (by subst e; exact hx)
    have := h2 x hx
    simp; omega
  have hsub : mid.Sublist (pre ++ a :: (mid ++ b :: post)) :=
    ((List.sublist_append_left mid (b :: post)).cons a).trans (List.sublist_append_right pre _)
  unfold betweenM
  rw [← hall]
  exact hsub.countP_le

/-- an N-terminal peptide ending at a listed `b > 0`: the segment from the first
entry to the first `b` -/
theorem exists_split_before (rest : List Nat) (hs : (0 :: rest).Pairwise (· ≤ ·)) (b : Nat)
    (hb : b ∈ rest) :
    ∃ mid post, rest = mid ++ b :: post ∧ mid.length ≤ beforeM (0 :: rest) b := by
  obtain ⟨mid, post, rfl, hbm⟩ := split_first rest b hb
  refine ⟨mid, post, rfl, ?_⟩
  obtain ⟨-, h2, -, -⟩ := sorted_split [] mid post 0 b hs
  have hall : mid.countP (fun x => decide (x < b)) = mid.length := by
    rw [List.countP_eq_length]
    intro x hx
    have hxb : x ≠ b := fun e => hbm (by subst e; exact hx)
    have := h2 x hx
    simp; omega
  have hsub : mid.Sublist (mid ++ b :: post) := List.sublist_append_left mid (b :: post)
  unfold beforeM
  rw [List.tail_cons, ← hall]
  exact hsub.countP_le

/-- a position listed twice: two neighbouring entries -/
theorem exists_split_twice (sites : List Nat) (hs : sites.Pairwise (· ≤ ·)) (a : Nat)
    (h2 : 2 ≤ sites.count a) :
    ∃ pre post, sites = pre ++ a :: ([] ++ a :: post) := by
  have ha : a ∈ sites := List.count_pos_iff.mp (by omega)
  obtain ⟨pre, r, rfl, hap⟩ := split_first sites a ha
  have hc : pre.count a = 0 := List.count_eq_zero.mpr hap
  rw [List.count_append, List.count_cons_self, hc] at h2
  have har : a ∈ r := List.count_pos_iff.mp (by omega)
  obtain ⟨mid, post, rfl, ham⟩ := split_first r a har
  obtain ⟨-, h2', -, -⟩ := sorted_split pre mid post a a hs
  have hmid : mid = [] := by
    apply List.eq_nil_iff_forall_not_mem.mpr
    intro x hx
    have := h2' x hx
    have hxa : x = a := by omega
    subst hxa
    exact ham hx
  subst hmid
  exact ⟨pre, post, rfl⟩

theorem count_two_of_split (pre mid post : List Nat) (a : Nat) :
    2 ≤ (pre ++ a :: (mid ++ a :: post)).count a := by
  rw [List.count_append, List.count_cons_self, List.count_append, List.count_cons_self]
  omega

theorem slice_same (seq : List Char) (a : Nat) : slice seq a a = [] := by
  unfold slice
  rw [List.drop_eq_nil_iff, List.length_take]
  omega

theorem slice_one_zero (seq : List Char) : slice seq 1 0 = [] := by
  unfold slice; simp

/-! ## main equivalence -/

theorem mem_cleave_multi (rest : List Nat) (seq : List Char) (hs : (0 :: rest).Pairwise (· ≤ ·))
    (hle : ∀ x ∈ (0 :: rest), x ≤ seq.length) (mc lo hi : Nat) (clip semi : Bool) (p : Pep) :
    p ∈ cleave seq (0 :: rest) mc lo hi semi clip ↔ DigestSpecM (0 :: rest) seq mc lo hi clip semi p := by
  rw [mem_cleave_split]
  unfold DigestSpecM
  constructor
  · rintro ⟨pre, s, mid, t, post, hsites, hm, hp⟩
    have hs' := hs
    rw [hsites] at hs'
    obtain ⟨-, -, hst, -⟩ := sorted_split pre mid post s t hs'
    have hsm : s ∈ (0 :: rest) := by rw [hsites]; simp
    have htm : t ∈ (0 :: rest) := by rw [hsites]; simp
    have htn : t ≤ seq.length := hle t htm
    rw [mem_pepsOf, slice_length, Nat.min_eq_left htn] at hp
    obtain ⟨l1, l2, hp⟩ := hp
    have hE : EnzymaticM (0 :: rest) mc lo hi s t := by
      refine ⟨hsm, htm, ?_, l1, l2⟩
      by_cases hlt : s < t
      · left
        refine ⟨hlt, Nat.le_trans ?_ hm⟩
        rw [hsites]
        exact between_le_mid pre mid post s t hs'
      · right
        have hst' : s = t := by omega
        subst hst'
        refine ⟨rfl, ?_⟩
        rw [hsites]
        exact count_two_of_split pre mid post s
    refine ⟨s, t, hE, ?_⟩
    rcases hp with hp | ⟨c1, c2, c3, c4, c5⟩ | ⟨s1, k, k1, k2, k3, k4⟩
    · exact Or.inl hp
    · have hpre : pre = [] := List.eq_nil_of_length_eq_zero c2
      subst hpre
      simp only [List.nil_append, List.cons.injEq] at hsites
      obtain ⟨hs0, hrest⟩ := hsites
      subst hs0
      have htpos : 0 < t := by
        apply Decidable.byContradiction
        intro hn
        have ht0 : t = 0 := by omega
        subst ht0
        rw [slice_same] at c3
        simp at c3
      rw [slice_head seq t htpos] at c3
      rw [slice_drop] at c5
      refine Or.inr (Or.inl ⟨c1, rfl, c3, by omega, ?_, by simpa using c5⟩)
      rw [hrest]
      exact Nat.le_trans (before_le_mid mid post t hs') hm
    · refine Or.inr (Or.inr ⟨s1, k, k1, k2, k3, ?_⟩)
      rw [slice_drop, slice_take seq s t k (by omega)] at k4
      exact k4
  · rintro ⟨a, b, ⟨ha, hb, hcase, l1, l2⟩, hp⟩
    have hbn : b ≤ seq.length := hle b hb
    rcases hcase with ⟨hab, hbt⟩ | ⟨hab, hcnt⟩
    · -- a < b
      have plain : ∀ q, (q = slice seq a b ∨ (semi = true ∧ ∃ k, 1 ≤ k ∧ k < b - a ∧ lo ≤ b - a - k
            ∧ (q = slice seq (a + k) b ∨ q = slice seq a (b - k)))) →
          ∃ pre s mid t post, (0 :: rest) = pre ++ s :: (mid ++ t :: post) ∧ mid.length ≤ mc
            ∧ q ∈ pepsOf lo hi semi clip pre.length (slice seq s t) := by
        intro q hq
        obtain ⟨pre, mid, post, hsites, hm⟩ := exists_split_between (0 :: rest) hs a b ha hb hab
        refine ⟨pre, a, mid, b, post, hsites, by omega, ?_⟩
        rw [mem_pepsOf, slice_length, Nat.min_eq_left hbn]
        refine ⟨l1, l2, ?_⟩
        rcases hq with hq | ⟨s1, k, k1, k2, k3, k4⟩
        · exact Or.inl hq
        · refine Or.inr (Or.inr ⟨s1, k, k1, k2, k3, ?_⟩)
          rw [slice_drop, slice_take seq a b k (by omega)]
          exact k4
      rcases hp with hp | ⟨c1, c2, c3, c4, c5, c6⟩ | hp
      · exact plain p (Or.inl hp)
      · subst c2
        have hbr : b ∈ rest := by
          rcases List.mem_cons.mp hb with h | h
          · omega
          · exact h
        obtain ⟨mid, post, hrest, hm⟩ := exists_split_before rest hs b hbr
        refine ⟨[], 0, mid, b, post, by rw [hrest]; rfl, by omega, ?_⟩
        rw [mem_pepsOf, slice_length, Nat.min_eq_left hbn]
        refine ⟨l1, l2, Or.inr (Or.inl ⟨c1, rfl, ?_, by omega, ?_⟩)⟩
        · rw [slice_head seq b hab]; exact c3
        · rw [slice_drop]; simpa using c6
      · exact plain p (Or.inr hp)
    · -- a = b, listed twice: the empty peptide
      subst hab
      have hp' : p = [] := by
        rcases hp with hp | ⟨-, c2, -, -, -, c6⟩ | ⟨-, k, k1, k2, -, -⟩
        · rw [hp, slice_same]
        · subst c2; rw [c6, slice_one_zero]
        · omega
      subst hp'
      obtain ⟨pre, post, hsites⟩ := exists_split_twice (0 :: rest) hs a hcnt
      refine ⟨pre, a, [], a, post, hsites, Nat.zero_le _, ?_⟩
      rw [slice_same, mem_pepsOf]
      simp only [List.length_nil]
      exact ⟨by omega, Nat.zero_le _, Or.inl trivial⟩

/-- the enumeration `specListMS` is `DigestSpecM` (all listed sites `≤ len(seq)`) -/
theorem mem_specListMS (sites : List Nat) (seq : List Char) (hle : ∀ x ∈ sites, x ≤ seq.length)
    (mc lo hi : Nat) (clip semi : Bool) (p : Pep) :
    p ∈ specListMS sites seq mc lo hi clip semi ↔ DigestSpecM sites seq mc lo hi clip semi p := by
  unfold specListMS DigestSpecM
  simp only [List.mem_flatMap, List.mem_range]
  constructor
  · rintro ⟨a, -, b, -, hp⟩
    unfold specAtM at hp
    by_cases hE : EnzymaticM sites mc lo hi a b
    · rw [if_pos hE] at hp
      refine ⟨a, b, hE, ?_⟩
      simp only [List.mem_cons, List.mem_append] at hp
      rcases hp with hp | hp | hp
      · exact Or.inl hp
      · by_cases hc : (clip && a == 0 && seq.head? == some 'M' && decide (lo ≤ b - 1)
            && decide (beforeM sites b ≤ mc)) = true
        · rw [if_pos hc] at hp
          simp only [Bool.and_eq_true, beq_iff_eq, decide_eq_true_eq] at hc
          obtain ⟨⟨⟨⟨c1, c2⟩, c3⟩, c4⟩, c5⟩ := hc
          exact Or.inr (Or.inl ⟨c1, c2, c3, c4, c5, by simpa using hp⟩)
        · rw [if_neg hc] at hp; simp at hp
      · cases semi
        · simp at hp
        · simp only [if_true, List.mem_flatMap, List.mem_range] at hp
          obtain ⟨k, hk, hp⟩ := hp
          by_cases hc : (decide (1 ≤ k) && decide (lo ≤ b - a - k)) = true
          · rw [if_pos hc] at hp
            simp only [Bool.and_eq_true, decide_eq_true_eq] at hc
            simp only [List.mem_cons, List.not_mem_nil, or_false] at hp
            exact Or.inr (Or.inr ⟨rfl, k, hc.1, hk, hc.2, hp⟩)
          · rw [if_neg hc] at hp; simp at hp
    · rw [if_neg hE] at hp; simp at hp
  · rintro ⟨a, b, hE, hp⟩
    have hE' := hE
    obtain ⟨ha, hb, -⟩ := hE'
    have han := hle a ha
    have hbn := hle b hb
    refine ⟨a, by omega, b, by omega, ?_⟩
    unfold specAtM
    rw [if_pos hE]
    simp only [List.mem_cons, List.mem_append]
    rcases hp with hp | ⟨c1, c2, c3, c4, c5, c6⟩ | ⟨s1, k, k1, k2, k3, k4⟩
    · exact Or.inl hp
    · refine Or.inr (Or.inl ?_)
      have hc : (clip && a == 0 && seq.head? == some 'M' && decide (lo ≤ b - 1)
          && decide (beforeM sites b ≤ mc)) = true := by
        simp [c1, c2, c3, c4, c5]
      rw [if_pos hc]; simp [c6]
    · refine Or.inr (Or.inr ?_)
      subst s1
      simp only [if_true, List.mem_flatMap, List.mem_range]
      refine ⟨k, k2, ?_⟩
      have hc : (decide (1 ≤ k) && decide (lo ≤ b - a - k)) = true := by simp [k1, k3]
      rw [if_pos hc]
      simpa using k4

/-! ## the hypotheses on the list of sites from those on the match ends -/

theorem sortedLE_iff : ∀ l : List Nat, sortedLE l = true ↔ l.Pairwise (· ≤ ·)
  | [] => by simp [sortedLE]
  | [a] => by simp [sortedLE]
  | a :: b :: r => by
    rw [sortedLE, Bool.and_eq_true, decide_eq_true_iff, sortedLE_iff (b :: r), List.pairwise_cons (a := a)]
    constructor
    · rintro ⟨hab, hp⟩
      refine ⟨?_, hp⟩
      intro x hx
      rcases List.mem_cons.mp hx with h | h
      · omega
      · have := (List.pairwise_cons.mp hp).1 x h
        omega
    · rintro ⟨h1, hp⟩
      exact ⟨h1 b (by simp), hp⟩

theorem sitesM_sorted (ends : List Nat) (n : Nat) (hs : ends.Pairwise (· ≤ ·)) (hle : ∀ e ∈ ends, e ≤ n) :
    (cleavageSitesM ends n).Pairwise (· ≤ ·) := by
  unfold cleavageSitesM
  rw [List.pairwise_cons, List.pairwise_append]
  refine ⟨fun _ _ => Nat.zero_le _, hs, by simp, ?_⟩
  intro a ha b hb
  rw [List.mem_singleton] at hb
  subst hb
  exact hle a ha

theorem sitesM_le (ends : List Nat) (n : Nat) (hle : ∀ e ∈ ends, e ≤ n) :
    ∀ x ∈ cleavageSitesM ends n, x ≤ n := by
  unfold cleavageSitesM
  intro x hx
  rcases List.mem_cons.mp hx with h | h
  · omega
  · rcases List.mem_append.mp h with h | h
    · exact hle x h
    · rw [List.mem_singleton] at h; omega

/-! ## every match non-empty: the specification over the set of positions -/

theorem cleavageSitesM_eq (ends : List Nat) (n : Nat) (hs : ends.Pairwise (· < ·))
    (hpos : ∀ e ∈ ends, 0 < e ∧ e ≤ n) :
    cleavageSitesM ends n = sitesOf (fun p => p == 0 || ends.contains p) n := by
  unfold cleavageSitesM sitesOf
  rw [← List.cons_append]
  congr 1
  have hs' : (0 :: ends).Pairwise (· < ·) := List.Pairwise.cons (fun y hy => (hpos y hy).1) hs
  have hb : ∀ x ∈ 0 :: ends, x < n + 1 := by
    intro x hx
    rcases List.mem_cons.mp hx with hx | hx
    · omega
    · have := (hpos x hx).2
      omega
  rw [sorted_eq_filter _ _ hs' hb]
  apply List.filter_congr
  intro x _
  by_cases hx : x = 0 <;> simp [hx]

theorem mem_digestM_set (ends : List Nat) (seq : List Char) (hs : ends.Pairwise (· < ·))
    (hpos : ∀ e ∈ ends, 0 < e ∧ e ≤ seq.length) (mc lo hi : Nat) (clip semi : Bool) (p : Pep) :
    p ∈ digestM ends seq mc lo hi clip semi ↔ DigestSpecMS ends seq mc lo hi clip semi p := by
  unfold digestM DigestSpecMS
  rw [cleavageSitesM_eq ends seq.length hs hpos,
    mem_cleave_sitesOf (fun p => p == 0 || ends.contains p) (by simp) seq mc lo hi clip semi p]
  have h1 : siteOf (fun p => p == 0 || ends.contains p) seq.length = isSiteM ends seq.length := by
    funext q
    unfold siteOf isSiteM
    simp only []
    cases (q == 0) <;> cases (q == seq.length) <;> cases (ends.contains q) <;> rfl
  rw [h1]

theorem mem_specListMSet (ends : List Nat) (seq : List Char) (mc lo hi : Nat) (clip semi : Bool) (p : Pep) :
    p ∈ specListMSet ends seq mc lo hi clip semi ↔ DigestSpecMS ends seq mc lo hi clip semi p := by
  unfold specListMSet DigestSpecMS
  rw [List.mem_append, mem_specListS]
  by_cases hc : (lo == 0 && (seq.length == 0 || ends.contains seq.length)) = true
  · rw [if_pos hc]
    rw [Bool.and_eq_true, beq_iff_eq] at hc
    simp only [List.mem_singleton]
    constructor
    · rintro (h | h)
      · exact Or.inl h
      · exact Or.inr ⟨hc.1, h, hc.2⟩
    · rintro (h | ⟨-, h, -⟩)
      · exact Or.inl h
      · exact Or.inr h
  · rw [if_neg hc]
    rw [Bool.and_eq_true, beq_iff_eq] at hc
    simp only [List.not_mem_nil, or_false]
    constructor
    · exact Or.inl
    · rintro (h | ⟨h1, -, h3⟩)
      · exact h
      · exact absurd ⟨h1, h3⟩ hc

end Mk
