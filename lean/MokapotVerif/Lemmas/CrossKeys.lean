import MokapotVerif.Lemmas.CrossStream
/-! Helper lemmas for `Model/Cross.lean` §5: the whole confidence pipeline commutes with an injective
renaming of the spectrum key or of the key of one roll-up level (key *equality* is all the code
uses), so that keying every entity by its canonical value gives the result files of the plain key. -/
namespace Mk.Cross
open Mk Mk.Brew

/-- a row transformation that renames keys injectively and leaves everything else alone -/
structure KeyMap (T : Row → Row) (gs : Nat → Nat) (gk : Nat → Nat → Nat) : Prop where
  spec : ∀ r, (T r).spec = gs r.spec
  key : ∀ l r, (T r).key l = gk l (r.key l)
  score : ∀ r, (T r).score = r.score
  target : ∀ r, (T r).target = r.target
  setScore : ∀ r s, T { r with score := s } = { T r with score := s }
  injS : ∀ x y, gs x = gs y → x = y
  injK : ∀ l x y, gk l x = gk l y → x = y

theorem contains_map_inj (g : Nat → Nat) (hg : ∀ x y, g x = g y → x = y) (seen : List Nat) (k : Nat) :
    (seen.map g).contains (g k) = seen.contains k := by
  rw [Bool.eq_iff_iff]
  simp only [List.contains_iff_mem, List.mem_map]
  constructor
  · rintro ⟨a, ha, hga⟩
    rw [← hg a k hga]; exact ha
  · intro h; exact ⟨k, h, rfl⟩

/-- first-seen de-duplication commutes with a transformation that renames the key injectively -/
theorem dedupFirst_map (T : Row → Row) (key : Row → Nat) (g : Nat → Nat) (hg : ∀ x y, g x = g y → x = y)
    (hkey : ∀ r, key (T r) = g (key r)) : ∀ (l : List Row) (seen : List Nat),
    dedupFirst key (seen.map g) (l.map T) = (dedupFirst key seen l).map T := by
  intro l
  induction l with
  | nil => intro seen; rfl
  | cons r l ih =>
    intro seen
    simp only [List.map_cons, dedupFirst, hkey, contains_map_inj g hg]
    split
    · exact ih seen
    · have := ih (key r :: seen)
      simp only [List.map_cons] at this
      rw [this]
      rfl

variable {T : Row → Row} {gs : Nat → Nat} {gk : Nat → Nat → Nat}

theorem mergeSort_keyMap (h : KeyMap T gs gk) (l : List Row) :
    (l.map T).mergeSort rowBetter = (l.mergeSort rowBetter).map T :=
  (List.map_mergeSort (r := rowBetter) (s := rowBetter) (f := T) (l := l)
    (fun a _ b _ => by simp [rowBetter, h.score])).symm

theorem chunkFile_keyMap (h : KeyMap T gs gk) (dedup : Bool) (l : List Row) :
    chunkFile dedup (l.map T) = (chunkFile dedup l).map T := by
  unfold chunkFile
  split
  · exact dedupFirst_map T Row.spec gs h.injS h.spec l []
  · rfl

theorem psmLevel_keyMap (h : KeyMap T gs gk) (dedup : Bool) (l : List Row) :
    psmLevel dedup (l.map T) = (psmLevel dedup l).map T := by
  unfold psmLevel
  split
  · exact dedupFirst_map T Row.spec gs h.injS h.spec l []
  · rfl

theorem confidenceLevels_keyMap (h : KeyMap T gs gk) (c : Nat) (dedup : Bool) (n : Nat) (rows : List Row) :
    confidenceLevels c dedup n (rows.map T)
      = ((confidenceLevels c dedup n rows).1.map T, (confidenceLevels c dedup n rows).2.map (List.map T)) := by
  unfold confidenceLevels
  simp only [scan_eq_levels]
  have hfiles : (chunksOf c (rows.map T)).map (fun ch => chunkFile dedup (ch.mergeSort rowBetter))
      = ((chunksOf c rows).map (fun ch => chunkFile dedup (ch.mergeSort rowBetter))).map (List.map T) := by
    rw [chunksOf_map, List.map_map, List.map_map]
    apply List.map_congr_left
    intro ch _
    simp only [Function.comp, mergeSort_keyMap h, chunkFile_keyMap h]
  rw [hfiles, ← List.map_flatten, mergeSort_keyMap h, psmLevel_keyMap h]
  congr 1
  rw [List.map_map]
  apply List.map_congr_left
  intro lv _
  simp only [Function.comp, rollupLevel]
  rw [psmLevel_keyMap h]
  exact dedupFirst_map T (fun r => r.key lv) (gk lv) (h.injK lv) (h.key lv) _ []

theorem scoredRows_keyMap (h : KeyMap T gs gk) (md : List Row) (sc : List Int) :
    scoredRows (md.map T) sc = (scoredRows md sc).map T := by
  unfold scoredRows
  rw [List.zip_map_left, List.map_map, List.map_map]
  apply List.map_congr_left
  intro p _
  simp only [Function.comp, withScore, Prod.map, id]
  exact (h.setScore p.1 p.2).symm

theorem levelQvalues_keyMap (h : KeyMap T gs gk) (rows : List Row) :
    levelQvalues (rows.map T) = levelQvalues rows := by
  unfold levelQvalues
  rw [List.map_map]
  congr 1
  apply List.map_congr_left
  intro r _
  simp [Function.comp, h.score, h.target]

/-- apply a function to the row component of both result files of a level -/
def mapFile {α α' β γ : Type} (f : α → α') (p : List (α × β × γ) × List (α × β × γ)) :
    List (α' × β × γ) × List (α' × β × γ) :=
  (p.1.map (fun x => (f x.1, x.2)), p.2.map (fun x => (f x.1, x.2)))

theorem writeWhole_map {α α' β γ : Type} (f : α → α') (rows : List α) (q : List β) (p : List γ) (t : List Bool) :
    writeWhole (rows.map f) q p t = mapFile f (writeWhole rows q p t) := by
  unfold writeWhole mapFile
  simp only [List.zip_map_left, List.filter_map, List.map_map]
  constructor

/-! ## the two instances: the spectrum key, the key of one roll-up level -/

theorem canonOf_injective (isText : Nat → Bool) : ∀ x y, canonOf isText x = canonOf isText y → x = y := by
  intro x y h
  unfold canonOf at h
  split at h <;> split at h <;> omega

theorem getD_append_zeros (xs : List Nat) (m i : Nat) :
    (xs ++ List.replicate m 0)[i]?.getD 0 = xs[i]?.getD 0 := by
  by_cases h : i < xs.length
  · rw [List.getElem?_append_left h]
  · have h3 : xs.length ≤ i := by omega
    rw [List.getElem?_append_right h3, List.getElem?_eq_none h3, List.getElem?_replicate]
    split <;> rfl

theorem setLevelKey_key (l x : Nat) (r : Row) (l' : Nat) :
    (setLevelKey l x r).key l' = if l' = l then x else r.key l' := by
  unfold setLevelKey Row.key
  simp only [List.getD_eq_getElem?_getD]
  have hlen : l < (r.keys ++ List.replicate (l + 1 - r.keys.length) 0).length := by
    simp only [List.length_append, List.length_replicate]; omega
  by_cases h : l' = l
  · subst h
    rw [List.getElem?_set_self hlen]
    simp
  · rw [List.getElem?_set_ne (Ne.symm h), getD_append_zeros]
    simp [h]

theorem keyMap_spec (g : Nat → Nat) (hg : ∀ x y, g x = g y → x = y) :
    KeyMap (mapKeyAt none g) g (fun _ x => x) :=
  ⟨fun _ => rfl, fun _ _ => rfl, fun _ => rfl, fun _ => rfl, fun _ _ => rfl, hg, fun _ _ _ h => h⟩

theorem keyMap_level (l : Nat) (g : Nat → Nat) (hg : ∀ x y, g x = g y → x = y) :
    KeyMap (mapKeyAt (some l) g) (fun x => x) (fun l' x => if l' = l then g x else x) := by
  refine ⟨fun _ => rfl, ?_, fun _ => rfl, fun _ => rfl, fun _ _ => rfl, fun _ _ h => h, ?_⟩
  · intro l' r
    show (setLevelKey l (g (r.key l)) r).key l' = _
    rw [setLevelKey_key]
    by_cases h : l' = l
    · subst h; simp
    · simp [h]
  · intro l' x y h
    by_cases hl : l' = l
    · simp only [hl, if_true] at h; exact hg x y h
    · simpa [hl] using h

/-- renaming the key of any key column injectively is a `KeyMap` -/
theorem keyMap_at (w : KeyCol) (g : Nat → Nat) (hg : ∀ x y, g x = g y → x = y) :
    ∃ gs gk, KeyMap (mapKeyAt w g) gs gk := by
  cases w with
  | none => exact ⟨_, _, keyMap_spec g hg⟩
  | some l => exact ⟨_, _, keyMap_level l g hg⟩

end Mk.Cross
