import MokapotVerif.Model.Tabular
/-!
# Lemmas on chunking and index labels (C13)
-/
namespace Mk.Tabular
variable {α β γ : Type}

/-! ## `chunks` -/

theorem chunksFuel_nil (c f : Nat) : chunksFuel c f ([] : List α) = [] := by
  cases f <;> simp [chunksFuel]

theorem chunksFuel_cons (c f : Nat) (xs : List α) (h : xs ≠ []) :
    chunksFuel c (f + 1) xs = xs.take c :: chunksFuel c f (xs.drop c) := by
  simp [chunksFuel, h]

theorem chunksFuel_flatten (c : Nat) (hc : 1 ≤ c) :
    ∀ (f : Nat) (xs : List α), xs.length ≤ f → (chunksFuel c f xs).flatten = xs := by
  intro f
  induction f with
  | zero => intro xs h; have : xs = [] := List.eq_nil_of_length_eq_zero (by omega); subst this; rfl
  | succ f ih =>
    intro xs h
    by_cases hx : xs = []
    · subst hx; rfl
    · rw [chunksFuel_cons c f xs hx, List.flatten_cons, ih _ (by
        have : 0 < xs.length := List.length_pos_iff.mpr hx
        simp only [List.length_drop]; omega), List.take_append_drop]

/-- fuel beyond the length changes nothing -/
theorem chunksFuel_fuel (c : Nat) (hc : 1 ≤ c) :
    ∀ (f g : Nat) (xs : List α), xs.length ≤ f → xs.length ≤ g → chunksFuel c f xs = chunksFuel c g xs := by
  intro f
  induction f with
  | zero =>
    intro g xs h _
    have : xs = [] := List.eq_nil_of_length_eq_zero (by omega)
    subst this; rw [chunksFuel_nil, chunksFuel_nil]
  | succ f ih =>
    intro g xs h hg
    by_cases hx : xs = []
    · subst hx; rw [chunksFuel_nil, chunksFuel_nil]
    · have hpos : 0 < xs.length := List.length_pos_iff.mpr hx
      obtain ⟨g', rfl⟩ : ∃ g', g = g' + 1 := ⟨g - 1, by omega⟩
      rw [chunksFuel_cons c f xs hx, chunksFuel_cons c g' xs hx]
      congr 1
      apply ih <;> simp only [List.length_drop] <;> omega

theorem chunks_nil (c : Nat) : chunks c ([] : List α) = [] := rfl

/-- unfolding `chunks` on a non-empty list -/
theorem chunks_step (c : Nat) (hc : 1 ≤ c) (xs : List α) (h : xs ≠ []) :
    chunks c xs = xs.take c :: chunks c (xs.drop c) := by
  have hpos : 0 < xs.length := List.length_pos_iff.mpr h
  unfold chunks
  obtain ⟨n, hn⟩ : ∃ n, xs.length = n + 1 := ⟨xs.length - 1, by omega⟩
  rw [hn, chunksFuel_cons c n xs h]
  congr 1
  apply chunksFuel_fuel c hc <;> simp only [List.length_drop] <;> omega

/-- strong induction principle along `chunks` -/
theorem chunks_induction (c : Nat) (hc : 1 ≤ c) (P : List α → Prop) (h0 : P [])
    (hstep : ∀ xs, xs ≠ [] → P (xs.drop c) → P xs) : ∀ xs, P xs := by
  intro xs
  generalize hn : xs.length = n
  induction n using Nat.strongRecOn generalizing xs with
  | ind n ih =>
    by_cases hx : xs = []
    · subst hx; exact h0
    · have hpos : 0 < xs.length := List.length_pos_iff.mpr hx
      exact hstep xs hx (ih (xs.drop c).length (by simp only [List.length_drop]; omega) _ rfl)

theorem chunks_flatten (c : Nat) (hc : 1 ≤ c) (xs : List α) : (chunks c xs).flatten = xs :=
  chunksFuel_flatten c hc _ _ (Nat.le_refl _)

theorem chunks_ne_nil (c : Nat) (hc : 1 ≤ c) (xs : List α) (h : xs ≠ []) : chunks c xs ≠ [] := by
  rw [chunks_step c hc xs h]; simp

theorem chunks_eq_nil_iff (c : Nat) (hc : 1 ≤ c) (xs : List α) : chunks c xs = [] ↔ xs = [] := by
  constructor
  · intro h
    by_cases hx : xs = []
    · exact hx
    · exact absurd h (chunks_ne_nil c hc xs hx)
  · rintro rfl; rfl

/-- every chunk is non-empty and at most `c` long -/
theorem chunks_length_bounds (c : Nat) (hc : 1 ≤ c) (xs : List α) :
    ∀ ch ∈ chunks c xs, 0 < ch.length ∧ ch.length ≤ c := by
  refine chunks_induction c hc (fun xs => ∀ ch ∈ chunks c xs, 0 < ch.length ∧ ch.length ≤ c) ?_ ?_ xs
  · intro ch h; simp [chunks_nil] at h
  · intro xs hx ih ch hch
    rw [chunks_step c hc xs hx] at hch
    rcases List.mem_cons.mp hch with rfl | h
    · have hpos : 0 < xs.length := List.length_pos_iff.mpr hx
      simp only [List.length_take]; omega
    · exact ih ch h

/-- every chunk except the last has exactly `c` elements -/
theorem chunks_dropLast_full (c : Nat) (hc : 1 ≤ c) (xs : List α) :
    ∀ ch ∈ (chunks c xs).dropLast, ch.length = c := by
  refine chunks_induction c hc (fun xs => ∀ ch ∈ (chunks c xs).dropLast, ch.length = c) ?_ ?_ xs
  · intro ch h; simp [chunks_nil] at h
  · intro xs hx ih ch hch
    rw [chunks_step c hc xs hx] at hch
    by_cases hd : xs.drop c = []
    · rw [hd, chunks_nil] at hch; simp at hch
    · have hne := chunks_ne_nil c hc _ hd
      rw [List.dropLast_cons_of_ne_nil hne] at hch
      rcases List.mem_cons.mp hch with rfl | h
      · have : c < xs.length := by
          by_cases hlt : c < xs.length
          · exact hlt
          · exact absurd (List.drop_eq_nil_of_le (by omega)) hd
        simp only [List.length_take]; omega
      · exact ih ch h

theorem chunks_isChunking (c : Nat) (hc : 1 ≤ c) (xs : List α) : IsChunking c xs (chunks c xs) :=
  ⟨chunks_flatten c hc xs, chunks_length_bounds c hc xs, chunks_dropLast_full c hc xs⟩

/-- the specification determines the chunking -/
theorem isChunking_unique (c : Nat) (hc : 1 ≤ c) :
    ∀ (chs : List (List α)) (xs : List α), IsChunking c xs chs → chs = chunks c xs := by
  intro chs
  induction chs with
  | nil => intro xs h; have : xs = [] := by simpa using h.1.symm
           subst this; rfl
  | cons ch rest ih =>
    intro xs ⟨hflat, hb, hfull⟩
    have hchb := hb ch (by simp)
    have hxs : xs = ch ++ rest.flatten := by simpa using hflat.symm
    have hxne : xs ≠ [] := by
      intro h; rw [h] at hxs
      have := congrArg List.length hxs
      simp at this; omega
    rw [chunks_step c hc xs hxne]
    by_cases hr : rest = []
    · subst hr
      simp only [List.flatten_nil, List.append_nil] at hxs
      subst hxs
      rw [List.take_of_length_le hchb.2, List.drop_eq_nil_of_le hchb.2, chunks_nil]
    · have hlen : ch.length = c := hfull ch (by rw [List.dropLast_cons_of_ne_nil hr]; simp)
      have htake : xs.take c = ch := by rw [hxs, ← hlen]; simp
      have hdrop : xs.drop c = rest.flatten := by rw [hxs, ← hlen]; simp
      rw [htake, hdrop]
      congr 1
      apply ih
      refine ⟨rfl, fun d hd => hb d (List.mem_cons_of_mem _ hd), fun d hd => hfull d ?_⟩
      rw [List.dropLast_cons_of_ne_nil hr]
      exact List.mem_cons_of_mem _ hd

/-- number of chunks: `⌈n / c⌉` -/
theorem chunks_length (c : Nat) (hc : 1 ≤ c) (xs : List α) :
    (chunks c xs).length = (xs.length + c - 1) / c := by
  refine chunks_induction c hc (fun xs => (chunks c xs).length = (xs.length + c - 1) / c) ?_ ?_ xs
  · simp only [chunks_nil, List.length_nil]
    rw [Nat.div_eq_of_lt] <;> omega
  · intro xs hx ih
    have hpos : 0 < xs.length := List.length_pos_iff.mpr hx
    rw [chunks_step c hc xs hx, List.length_cons, ih, List.length_drop]
    by_cases hle : c ≤ xs.length
    · have : xs.length + c - 1 = (xs.length - c + c - 1) + c := by omega
      rw [this, Nat.add_div_right _ (by omega)]
    · have h1 : xs.length - c + c - 1 < c := by omega
      have h2 : xs.length + c - 1 = (xs.length - 1) + c := by omega
      rw [Nat.div_eq_of_lt h1, h2, Nat.add_div_right _ (by omega), Nat.div_eq_of_lt (by omega)]

/-- the `k`-th chunk is the slice `[k*c, k*c + c)` -/
theorem chunks_getElem? (c : Nat) (hc : 1 ≤ c) (xs : List α) :
    ∀ k, k < (chunks c xs).length → (chunks c xs)[k]? = some ((xs.drop (k * c)).take c) := by
  refine chunks_induction c hc
    (fun xs => ∀ k, k < (chunks c xs).length → (chunks c xs)[k]? = some ((xs.drop (k * c)).take c)) ?_ ?_ xs
  · intro k hk; simp [chunks_nil] at hk
  · intro xs hx ih k hk
    rw [chunks_step c hc xs hx] at hk ⊢
    cases k with
    | zero => simp
    | succ k =>
      simp only [List.length_cons, Nat.add_lt_add_iff_right] at hk
      rw [List.getElem?_cons_succ, ih k hk, List.drop_drop]
      congr 3
      rw [Nat.succ_mul]; omega

/-- positional form of the reference chunking (the `range(0, n, c)` loop) -/
theorem chunks_eq_slices (c : Nat) (hc : 1 ≤ c) (xs : List α) :
    chunks c xs = (List.range ((xs.length + c - 1) / c)).map (fun k => (xs.drop (k * c)).take c) := by
  apply List.ext_getElem?
  intro k
  by_cases hk : k < (chunks c xs).length
  · rw [chunks_getElem? c hc xs k hk]
    rw [chunks_length c hc] at hk
    simp [List.getElem?_map, List.getElem?_range hk]
  · have h1 : (chunks c xs)[k]? = none := List.getElem?_eq_none (by omega)
    rw [h1]
    rw [chunks_length c hc] at hk
    symm
    apply List.getElem?_eq_none
    simp only [List.length_map, List.length_range]; omega

/-- chunking commutes with mapping -/
theorem chunks_map (c : Nat) (hc : 1 ≤ c) (f : α → γ) (xs : List α) :
    chunks c (xs.map f) = (chunks c xs).map (List.map f) := by
  refine chunks_induction c hc (fun xs => chunks c (xs.map f) = (chunks c xs).map (List.map f)) ?_ ?_ xs
  · rfl
  · intro xs hx ih
    have hx' : xs.map f ≠ [] := by simpa using hx
    rw [chunks_step c hc _ hx', chunks_step c hc xs hx, List.map_cons, ← List.map_drop, ih, List.map_take]

/-! ## index labels -/

theorem indexFrom_length (s : Nat) (xs : List α) : (indexFrom s xs).length = xs.length := by
  induction xs generalizing s with
  | nil => rfl
  | cons x xs ih => simp [indexFrom, ih]

theorem indexFrom_map_snd (s : Nat) (xs : List α) : (indexFrom s xs).map (fun p => p.2) = xs := by
  induction xs generalizing s with
  | nil => rfl
  | cons x xs ih => simp [indexFrom, ih]

theorem indexFrom_map_fst (s : Nat) (xs : List α) :
    (indexFrom s xs).map (fun p => p.1) = List.range' s xs.length := by
  induction xs generalizing s with
  | nil => rfl
  | cons x xs ih => simp [indexFrom, ih, List.range'_succ]

theorem indexFrom_append (s : Nat) (xs ys : List α) :
    indexFrom s (xs ++ ys) = indexFrom s xs ++ indexFrom (s + xs.length) ys := by
  induction xs generalizing s with
  | nil => simp [indexFrom]
  | cons x xs ih =>
    simp only [List.cons_append, indexFrom, ih, List.length_cons]
    congr 3; omega

theorem indexFrom_eq_nil (s : Nat) (xs : List α) : indexFrom s xs = [] ↔ xs = [] := by
  cases xs <;> simp [indexFrom]

theorem indexFrom_take (s k : Nat) (xs : List α) : (indexFrom s xs).take k = indexFrom s (xs.take k) := by
  induction xs generalizing s k with
  | nil => simp [indexFrom]
  | cons x xs ih =>
    cases k with
    | zero => simp [indexFrom]
    | succ k => simp [indexFrom, ih]

theorem indexFrom_drop (s k : Nat) (xs : List α) :
    (indexFrom s xs).drop k = indexFrom (s + min k xs.length) (xs.drop k) := by
  induction xs generalizing s k with
  | nil => simp [indexFrom]
  | cons x xs ih =>
    cases k with
    | zero => simp [indexFrom]
    | succ k =>
      simp only [indexFrom, List.drop_succ_cons, ih, List.length_cons]
      congr 1; omega

theorem indexFrom_map (s : Nat) (f : α → γ) (xs : List α) :
    indexFrom s (xs.map f) = (indexFrom s xs).map (fun p => (p.1, f p.2)) := by
  induction xs generalizing s with
  | nil => rfl
  | cons x xs ih => simp [indexFrom, ih]

/-- `df.index + k` on a fresh `RangeIndex` -/
theorem indexFrom_shift (s k : Nat) (xs : List α) :
    (indexFrom s xs).map (fun p => (p.1 + k, p.2)) = indexFrom (s + k) xs := by
  induction xs generalizing s with
  | nil => rfl
  | cons x xs ih =>
    simp only [indexFrom, List.map_cons, ih]
    congr 2; omega

/-! ## the text reader's chunk iterator -/

theorem csvIter_eq_chunks (c : Nat) (hc : 1 ≤ c) :
    ∀ (fuel cur : Nat) (rows : List α), rows.length ≤ fuel →
      csvIter c fuel cur rows = chunks c (indexFrom cur rows) := by
  intro fuel
  induction fuel with
  | zero =>
    intro cur rows h
    have : rows = [] := List.eq_nil_of_length_eq_zero (by omega)
    subst this; rfl
  | succ fuel ih =>
    intro cur rows h
    by_cases hx : rows = []
    · subst hx; rfl
    · have hpos : 0 < rows.length := List.length_pos_iff.mpr hx
      have hne : indexFrom cur rows ≠ [] := by rwa [Ne, indexFrom_eq_nil]
      rw [chunks_step c hc _ hne, indexFrom_take, indexFrom_drop]
      simp only [csvIter, hx, List.isEmpty_iff, if_false]
      rw [ih _ _ (by simp only [List.length_drop]; omega)]
      simp only [List.length_take]

/-- the chunk stream of the text reader over `rows`: the chunks of the labelled
rows, or a single empty chunk -/
theorem csvChunkRows_eq (c : Nat) (hc : 1 ≤ c) (rows : List α) :
    csvChunkRows c rows = if rows.isEmpty then [[]] else chunks c (indexFrom 0 rows) := by
  unfold csvChunkRows
  split
  · rfl
  · exact csvIter_eq_chunks c hc _ _ _ (Nat.le_refl _)

/-! ## the Parquet reader's running offset -/

theorem pqLabel_flatten (off : Nat) (bs : List (List α)) :
    (pqLabel off bs).flatten = indexFrom off bs.flatten := by
  induction bs generalizing off with
  | nil => rfl
  | cons b bs ih => simp [pqLabel, ih, indexFrom_append]

/-- labelling the reference batches with a running offset gives the chunks of
the consecutively labelled rows -/
theorem pqLabel_chunksFuel (c : Nat) :
    ∀ (fuel off : Nat) (xs : List α), pqLabel off (chunksFuel c fuel xs) = chunksFuel c fuel (indexFrom off xs) := by
  intro fuel
  induction fuel with
  | zero => intro off xs; rfl
  | succ fuel ih =>
    intro off xs
    by_cases hx : xs = []
    · subst hx; simp [chunksFuel_nil, pqLabel, indexFrom]
    · have hne : indexFrom off xs ≠ [] := by rwa [Ne, indexFrom_eq_nil]
      rw [chunksFuel_cons c fuel xs hx, chunksFuel_cons c fuel _ hne, pqLabel, ih, indexFrom_take, indexFrom_drop]
      simp only [List.length_take]

theorem pqLabel_chunks (c : Nat) (xs : List α) : pqLabel 0 (chunks c xs) = chunks c (indexFrom 0 xs) := by
  unfold chunks
  rw [pqLabel_chunksFuel, indexFrom_length]

end Mk.Tabular
