import MokapotVerif.Model.Digest
/-!
Membership characterisations of the loops of `_cleave` (valid for *any* list of
sites and any bounds), and the facts that follow from them alone: substring,
monotonicity.
-/
namespace Mk

/-- the semi loop with its `break`/`continue` adds exactly the proper suffixes and
prefixes whose length is within `[lo, hi]` -/
theorem mem_semiLoop (lo hi : Nat) (pep p : Pep) (s cnt : Nat) :
    p ∈ semiLoop lo hi pep (List.range' s cnt) ↔
      ∃ k, s ≤ k ∧ k < s + cnt ∧ lo ≤ pep.length - k ∧ pep.length - k ≤ hi ∧
        (p = pep.drop k ∨ p = pep.take (pep.length - k)) := by
  induction cnt generalizing s with
  | zero =>
    simp only [List.range'_zero, semiLoop, List.not_mem_nil, false_iff]
    rintro ⟨k, h1, h2, -⟩; omega
  | succ n ih =>
    rw [List.range'_succ]
    simp only [semiLoop]
    split
    · constructor
      · simp
      · rintro ⟨k, hk1, hk2, hk3, -⟩; omega
    · split
      · rw [ih]
        constructor
        · rintro ⟨k, h1, h2, h3, h4, h5⟩
          exact ⟨k, by omega, by omega, h3, h4, h5⟩
        · rintro ⟨k, h1, h2, h3, h4, h5⟩
          refine ⟨k, ?_, by omega, h3, h4, h5⟩
          have : k ≠ s := by rintro rfl; omega
          omega
      · simp only [List.mem_cons, ih]
        constructor
        · rintro (h | h | ⟨k, h1, h2, h3, h4, h5⟩)
          · exact ⟨s, by omega, by omega, by omega, by omega, Or.inl h⟩
          · exact ⟨s, by omega, by omega, by omega, by omega, Or.inr h⟩
          · exact ⟨k, by omega, by omega, h3, h4, h5⟩
        · rintro ⟨k, h1, h2, h3, h4, h5⟩
          by_cases hk : k = s
          · subst hk
            rcases h5 with h5 | h5
            · exact Or.inl h5
            · exact Or.inr (Or.inl h5)
          · exact Or.inr (Or.inr ⟨k, by omega, by omega, h3, h4, h5⟩)

theorem mem_clipPeps (lo : Nat) (clip : Bool) (i : Nat) (pep p : Pep) :
    p ∈ clipPeps lo clip i pep ↔
      clip = true ∧ i = 0 ∧ pep.head? = some 'M' ∧ lo ≤ pep.length - 1 ∧ p = pep.drop 1 := by
  unfold clipPeps
  by_cases h : (clip && i == 0 && pep.head? == some 'M') = true
  · rw [if_pos h]
    simp only [Bool.and_eq_true, beq_iff_eq] at h
    obtain ⟨⟨h1, h2⟩, h3⟩ := h
    by_cases h4 : (pep.drop 1).length ≥ lo
    · rw [if_pos h4]
      simp only [List.length_drop] at h4
      simp [h1, h2, h3, h4]
    · rw [if_neg h4]
      simp only [List.length_drop] at h4
      simp [h4]
  · rw [if_neg h]
    simp only [Bool.and_eq_true, beq_iff_eq] at h
    simp only [List.not_mem_nil, false_iff]
    rintro ⟨h1, h2, h3, -⟩
    exact h ⟨⟨h1, h2⟩, h3⟩

/-- what one (start, end) pair contributes -/
theorem mem_pepsOf (lo hi : Nat) (semi clip : Bool) (i : Nat) (pep p : Pep) :
    p ∈ pepsOf lo hi semi clip i pep ↔
      lo ≤ pep.length ∧ pep.length ≤ hi ∧
        (p = pep
          ∨ (clip = true ∧ i = 0 ∧ pep.head? = some 'M' ∧ lo ≤ pep.length - 1 ∧ p = pep.drop 1)
          ∨ (semi = true ∧ ∃ k, 1 ≤ k ∧ k < pep.length ∧ lo ≤ pep.length - k
                ∧ (p = pep.drop k ∨ p = pep.take (pep.length - k)))) := by
  unfold pepsOf
  by_cases h : (decide (pep.length < lo) || decide (pep.length > hi)) = true
  · rw [if_pos h]
    simp only [Bool.or_eq_true, decide_eq_true_eq] at h
    simp only [List.not_mem_nil, false_iff]
    rintro ⟨h1, h2, -⟩; omega
  · rw [if_neg h]
    simp only [Bool.or_eq_true, decide_eq_true_eq, not_or, Nat.not_lt] at h
    obtain ⟨h1, h2⟩ := h
    simp only [List.mem_cons, List.mem_append, mem_clipPeps]
    cases semi
    · simp [h1, h2]
    · simp only [if_true, mem_semiLoop, true_and]
      constructor
      · rintro (h | h | ⟨k, k1, k2, k3, k4, k5⟩)
        · exact ⟨h1, h2, Or.inl h⟩
        · exact ⟨h1, h2, Or.inr (Or.inl h)⟩
        · exact ⟨h1, h2, Or.inr (Or.inr ⟨k, k1, by omega, k3, k5⟩)⟩
      · rintro ⟨-, -, h | h | ⟨k, k1, k2, k3, k5⟩⟩
        · exact Or.inl h
        · exact Or.inr (Or.inl h)
        · exact Or.inr (Or.inr ⟨k, k1, by omega, k3, by omega, k5⟩)

/-- the double loop of `_cleave`, for an arbitrary list of sites -/
theorem mem_cleave (seq : List Char) (sites : List Nat) (mc lo hi : Nat) (semi clip : Bool) (p : Pep) :
    p ∈ cleave seq sites mc lo hi semi clip ↔
      ∃ i d s t, sites[i]? = some s ∧ 1 ≤ d ∧ d ≤ mc + 1 ∧ sites[i + d]? = some t
        ∧ p ∈ pepsOf lo hi semi clip i (slice seq s t) := by
  unfold cleave pepsAt
  simp only [List.mem_flatMap, List.mem_range'_1, Option.mem_toList, Prod.exists,
    List.mem_zipIdx_iff_getElem?]
  constructor
  · rintro ⟨s, i, hs, d, ⟨d1, d2⟩, t, ht, hp⟩
    exact ⟨i, d, s, t, hs, d1, by omega, ht, hp⟩
  · rintro ⟨i, d, s, t, hs, d1, d2, ht, hp⟩
    exact ⟨s, i, hs, d, ⟨d1, by omega⟩, t, ht, hp⟩

/-! ## substring -/

theorem slice_infix (seq : List Char) (a b : Nat) : slice seq a b <:+: seq :=
  List.IsInfix.trans (List.drop_suffix a _).isInfix (List.take_prefix b seq).isInfix

theorem pepsOf_infix (lo hi : Nat) (semi clip : Bool) (i : Nat) (pep p : Pep)
    (h : p ∈ pepsOf lo hi semi clip i pep) : p <:+: pep := by
  rw [mem_pepsOf] at h
  obtain ⟨-, -, h | ⟨-, -, -, -, h⟩ | ⟨-, k, -, -, -, h | h⟩⟩ := h
  · subst h; exact List.infix_refl _
  · subst h; exact (List.drop_suffix 1 pep).isInfix
  · subst h; exact (List.drop_suffix k pep).isInfix
  · subst h; exact (List.take_prefix _ pep).isInfix

theorem cleave_infix (seq : List Char) (sites : List Nat) (mc lo hi : Nat) (semi clip : Bool) (p : Pep)
    (h : p ∈ cleave seq sites mc lo hi semi clip) : p <:+: seq := by
  rw [mem_cleave] at h
  obtain ⟨i, d, s, t, -, -, -, -, hp⟩ := h
  exact List.IsInfix.trans (pepsOf_infix _ _ _ _ _ _ _ hp) (slice_infix seq s t)

/-! ## monotonicity (no assumption on the sites or the bounds) -/

theorem pepsOf_mono (lo hi lo' hi' : Nat) (semi semi' clip clip' : Bool) (i : Nat) (pep p : Pep)
    (hlo : lo' ≤ lo) (hhi : hi ≤ hi') (hsemi : semi = true → semi' = true)
    (hclip : clip = true → clip' = true)
    (h : p ∈ pepsOf lo hi semi clip i pep) : p ∈ pepsOf lo' hi' semi' clip' i pep := by
  rw [mem_pepsOf] at h ⊢
  obtain ⟨h1, h2, h⟩ := h
  refine ⟨by omega, by omega, ?_⟩
  rcases h with h | ⟨c1, c2, c3, c4, c5⟩ | ⟨s1, k, k1, k2, k3, k4⟩
  · exact Or.inl h
  · exact Or.inr (Or.inl ⟨hclip c1, c2, c3, by omega, c5⟩)
  · exact Or.inr (Or.inr ⟨hsemi s1, k, k1, k2, by omega, k4⟩)

theorem cleave_mono (seq : List Char) (sites : List Nat) (mc mc' lo hi lo' hi' : Nat)
    (semi semi' clip clip' : Bool) (p : Pep)
    (hmc : mc ≤ mc') (hlo : lo' ≤ lo) (hhi : hi ≤ hi') (hsemi : semi = true → semi' = true)
    (hclip : clip = true → clip' = true)
    (h : p ∈ cleave seq sites mc lo hi semi clip) : p ∈ cleave seq sites mc' lo' hi' semi' clip' := by
  rw [mem_cleave] at h ⊢
  obtain ⟨i, d, s, t, hs, d1, d2, ht, hp⟩ := h
  exact ⟨i, d, s, t, hs, d1, by omega, ht,
    pepsOf_mono lo hi lo' hi' semi semi' clip clip' i _ p hlo hhi hsemi hclip hp⟩

end Mk
