import MokapotVerif.Lemmas.PepxmlOpts
/-!
Lemmas for the second pass of C20: dict-made cells at table level (optional attributes present / absent),
integer columns and the `log10(num_matched_peptides)` column under `_log_features`.
-/
namespace Mk.Pepxml

/-! ### lookups -/

theorem lookup_none_of_not_mem_keys {β : Type} (l : List (String × β)) (k : String) (h : k ∉ l.map (·.1)) :
    l.lookup k = none := by
  induction l with
  | nil => rfl
  | cons kv rest ih =>
    obtain ⟨a, b⟩ := kv
    rw [lookup_cons_ite]
    simp only [List.map_cons, List.mem_cons, not_or] at h
    rw [if_neg h.1]
    exact ih h.2

theorem lookup_optFeat (k k' : String) (v : Option Int) :
    (optFeat k v).lookup k' = if k' = k then v.map Cell.int else none := by
  cases v with
  | none => simp [optFeat]
  | some i =>
    simp only [optFeat, Option.map_some, Option.getD_some]
    rw [lookup_cons_ite]
    rfl

theorem lookup_append_or {β : Type} (l₁ l₂ : List (String × β)) (k : String) :
    (l₁ ++ l₂).lookup k = (l₁.lookup k).or (l₂.lookup k) := by
  induction l₁ with
  | nil => simp
  | cons kv rest ih =>
    obtain ⟨a, b⟩ := kv
    rw [List.cons_append, lookup_cons_ite, lookup_cons_ite]
    by_cases hk : k = a
    · simp [hk]
    · simp [hk, ih]

/-- the optional attributes of a hit, looked up by feature key -/
theorem initFeats_lookup (h : Hit) (k : String) : (initFeats h).lookup k = (attrOf h k).map Cell.int := by
  unfold initFeats attrOf
  rw [lookup_append_or, lookup_append_or, lookup_optFeat, lookup_optFeat, lookup_optFeat]
  by_cases h1 : k = "missed_cleavages"
  · subst h1
    cases h.missed <;> cases h.ntt <;> cases h.nmatched <;> simp
  · by_cases h2 : k = "ntt"
    · subst h2
      cases h.ntt <;> cases h.nmatched <;> simp
    · by_cases h3 : k = "num_matched_peptides"
      · subst h3
        cases h.nmatched <;> simp
      · simp [h1, h2, h3]

theorem specScore_none (h : Hit) (k : String) (hk : k ∉ (scoresOf h).map (·.1)) : specScore h k = none := by
  unfold specScore
  apply lookup_none_of_not_mem_keys
  simpa using hk

/-- **every dict-made cell of a PSM is the specified one** -/
theorem psm_cell (pfx : Str) (c : Run × Spectrum × Hit) (k : String) :
    (psmOf pfx c).feats.lookup k = specCell c.2.2 k := by
  rw [psmOf, parsePsm_feats, lookup_foldl_scoreStep, initFeats_lookup]
  rfl

theorem specCell_isSome_iff (h : Hit) (k : String) :
    (specCell h k).isSome ↔ k ∈ (initFeats h).map (·.1) ∨ k ∈ (scoresOf h).map (·.1) := by
  constructor
  · intro hs
    by_cases hk : k ∈ (scoresOf h).map (·.1)
    · exact Or.inr hk
    · left
      rw [specCell, specScore_none h k hk, ← initFeats_lookup] at hs
      simp only [Option.map_none, Option.none_or] at hs
      by_contra hn
      rw [lookup_none_of_not_mem_keys _ _ hn] at hs
      cases hs
  · rintro (hk | hk)
    · obtain ⟨v, hv⟩ := lookup_some_of_mem_keys _ k hk
      rw [specCell, ← initFeats_lookup, hv]
      cases (specScore h k).map Cell.text <;> simp
    · have hk' : k ∈ (scoresOf h).reverse.map (·.1) := by simpa using hk
      obtain ⟨v, hv⟩ := lookup_some_of_mem_keys _ k hk'
      simp [specCell, specScore, hv]

/-! ### bounds on the column extremes -/

theorem foldl_max_le (xs : List Rat) (a b : Rat) (ha : a ≤ b) (h : ∀ x ∈ xs, x ≤ b) : xs.foldl max a ≤ b := by
  induction xs generalizing a with
  | nil => exact ha
  | cons x rest ih =>
    simp only [List.foldl_cons]
    exact ih (max a x) (max_le ha (h x (by simp))) (fun y hy => h y (by simp [hy]))

theorem maxRat_le_of (xs : List Rat) (b : Rat) (hb : 0 ≤ b) (h : ∀ x ∈ xs, x ≤ b) : maxRat xs ≤ b := by
  cases xs with
  | nil => exact hb
  | cons x rest => exact foldl_max_le rest x b (h x (by simp)) (fun y hy => h y (by simp [hy]))

/-- a column without exponent literals whose values lie in `{0} ∪ [lo, hi]` with `hi < 10000·lo` is left as it is -/
theorem logFeature_plain_of_bounds (col : Col) (he : hasE col = false) (lo hi : Rat) (hlo : 0 < lo)
    (hhi : 0 ≤ hi) (hr : hi < 10000 * lo)
    (h : ∀ v ∈ presentVals col, v ≤ hi ∧ (v ≠ 0 → lo ≤ v)) : logFeature col = col.map plainCell := by
  apply logFeature_plain_of_narrow col he
  have hmax : maxRat (presentVals col) ≤ hi := maxRat_le_of _ hi hhi (fun x hx => (h x hx).1)
  by_cases hnz : (presentVals col).filter (fun v => v != 0) = []
  · rw [hnz]
    simp [minRat]
  · have hm := minRat_mem _ hnz
    rw [List.mem_filter] at hm
    have hne : minRat ((presentVals col).filter (fun v => v != 0)) ≠ 0 := by simpa using hm.2
    have hlm : lo ≤ minRat ((presentVals col).filter (fun v => v != 0)) := (h _ hm.1).2 hne
    have hpos : 0 < minRat ((presentVals col).filter (fun v => v != 0)) := lt_of_lt_of_le hlo hlm
    rw [div_lt_iff₀ hpos]
    have := mul_le_mul_of_nonneg_left hlm (by norm_num : (0 : Rat) ≤ 10000)
    linarith

theorem mem_presentVals_iff (col : Col) (x : Rat) : x ∈ presentVals col ↔ ∃ n, some n ∈ col ∧ n.val = x := by
  unfold presentVals
  rw [List.mem_filterMap]
  constructor
  · rintro ⟨c, hc, hx⟩
    cases c with
    | none => simp at hx
    | some n => exact ⟨n, hc, by simpa using hx⟩
  · rintro ⟨n, hn, rfl⟩
    exact ⟨some n, hn, rfl⟩

/-! ### integer columns (optional attributes) -/

theorem intNum_val (i : Int) : (intNum i).val = (i : Rat) := by
  simp [intNum, Num.val, pow10_zero]

theorem plainCell_intNum (v : Option Int) : plainCell (v.map intNum) = attrCell v := by
  cases v with
  | none => rfl
  | some i => simp [plainCell, attrCell, intNum_val]

theorem hasE_int_column (vs : List (Option Int)) : hasE (vs.map (fun v => v.map intNum)) = false := by
  rw [Bool.eq_false_iff]
  intro h
  simp only [hasE, List.any_eq_true, List.mem_map] at h
  obtain ⟨c, ⟨v, _, rfl⟩, hc⟩ := h
  cases v <;> simp [intNum] at hc

/-- `_log_features` on a column of integers below 10000 (some possibly missing): every present cell keeps its
value — no scientific branch (integers print without exponent), and the p-value heuristic needs a ratio of
at least 10000 between the largest value and the smallest non-zero one -/
theorem logFeature_int_column (vs : List (Option Int)) (h : ∀ i, some i ∈ vs → i < 10000) :
    logFeature (vs.map (fun v => v.map intNum)) = vs.map attrCell := by
  have hfin : (vs.map (fun v => v.map intNum)).map plainCell = vs.map attrCell := by
    rw [List.map_map]
    apply List.map_congr_left
    intro v _
    exact plainCell_intNum v
  rw [← hfin]
  by_cases hneg : ∃ i, some i ∈ vs ∧ i < 0
  · obtain ⟨i, hi, hlt⟩ := hneg
    apply logFeature_plain_of_neg _ (intNum i)
    · exact List.mem_map.mpr ⟨some i, hi, rfl⟩
    · rw [intNum_val]; exact_mod_cast hlt
  · apply logFeature_plain_of_bounds _ (hasE_int_column vs) 1 9999 (by norm_num) (by norm_num) (by norm_num)
    intro x hx
    rw [mem_presentVals_iff] at hx
    obtain ⟨n, hn, rfl⟩ := hx
    rw [List.mem_map] at hn
    obtain ⟨v, hv, hvn⟩ := hn
    cases v with
    | none => simp at hvn
    | some i =>
      simp only [Option.map_some, Option.some.injEq] at hvn
      subst hvn
      rw [intNum_val]
      have h1 : i < 10000 := h i hv
      have h0 : 0 ≤ i := by
        by_contra hc
        exact hneg ⟨i, hv, by omega⟩
      constructor
      · have : i ≤ 9999 := by omega
        exact_mod_cast this
      · intro hne
        have hne' : i ≠ 0 := by
          rintro rfl
          simp at hne
        have : (1 : Int) ≤ i := by omega
        exact_mod_cast this

/-! ### the `log10(num_matched_peptides)` column -/

theorem decExpAux_mid (f : Nat) (v : Rat) (h1 : 3 / 10 ≤ v) (h2 : v ≤ 20) :
    -1 ≤ decExpAux (f + 2) v 0 ∧ decExpAux (f + 2) v 0 ≤ 1 := by
  simp only [decExpAux]
  split_ifs <;> first
    | (exfalso; linarith)
    | (constructor <;> norm_num)

theorem decExp_mid (v : Rat) (h1 : 3 / 10 ≤ v) (h2 : v ≤ 20) : -1 ≤ decExp v ∧ decExp v ≤ 1 := by
  have hv : ratAbs v = v := by
    unfold ratAbs
    rw [if_neg]
    linarith
  unfold decExp
  rw [hv]
  exact decExpAux_mid 398 v h1 h2

/-- `str(x)` of `x = 0` or `0.3 ≤ x ≤ 20` has no exponent -/
theorem reprNum_pow_none (v : Rat) (h : v = 0 ∨ (3 / 10 ≤ v ∧ v ≤ 20)) : (reprNum v).pow = none := by
  unfold reprNum
  split
  · rfl
  · rename_i h0
    have hv0 : v ≠ 0 := by simpa using h0
    obtain ⟨h1, h2⟩ := h.resolve_left hv0
    obtain ⟨d1, d2⟩ := decExp_mid v h1 h2
    split
    · rename_i hc
      simp only [Bool.or_eq_true, decide_eq_true_eq] at hc
      omega
    · rfl

/-- `_log_features` leaves the `log10(num_matched_peptides)` column as it is: its values are `0` (one
candidate) or lie in `[0.3, 20]` (2 … 10^20 candidates), printed without exponent and spanning a ratio below
10000 -/
theorem nmLogColumn_plain (lg : Nat → Rat) (col : List (Option Nat))
    (h : ∀ n, some n ∈ col → lg n = 0 ∨ (3 / 10 ≤ lg n ∧ lg n ≤ 20)) :
    logFeature (nmLogColumn lg col) = (nmLogColumn lg col).map plainCell := by
  have he : hasE (nmLogColumn lg col) = false := by
    rw [Bool.eq_false_iff]
    intro hh
    simp only [hasE, nmLogColumn, List.any_eq_true, List.mem_map] at hh
    obtain ⟨c, ⟨v, hv, rfl⟩, hc⟩ := hh
    cases v with
    | none => simp at hc
    | some n =>
      simp only [Option.map_some, Option.any_some] at hc
      rw [reprNum_pow_none _ (h n hv)] at hc
      cases hc
  apply logFeature_plain_of_bounds _ he (3 / 10) 20 (by norm_num) (by norm_num) (by norm_num)
  intro x hx
  rw [mem_presentVals_iff] at hx
  obtain ⟨m, hm, rfl⟩ := hx
  simp only [nmLogColumn, List.mem_map] at hm
  obtain ⟨v, hv, hvm⟩ := hm
  cases v with
  | none => simp at hvm
  | some n =>
    simp only [Option.map_some, Option.some.injEq] at hvm
    subst hvm
    rw [reprNum_val]
    rcases h n hv with h0 | ⟨h1, h2⟩
    · rw [h0]
      exact ⟨by norm_num, fun hne => absurd rfl hne⟩
    · exact ⟨h2, fun _ => h1⟩

end Mk.Pepxml
