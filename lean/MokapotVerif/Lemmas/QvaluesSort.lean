import MokapotVerif.Lemmas.Qvalues
/-! Helper lemmas for C01: permutation invariance of the specification and the
index-carrying sort / un-sort of `tdc`. -/
namespace Mk
variable {α : Type}

theorem cntT_perm (le : α → α → Bool) {l l' : List (α × Bool)} (h : l.Perm l') (t : α) :
    cntT le l t = cntT le l' t := h.countP_eq _

theorem cntD_perm (le : α → α → Bool) {l l' : List (α × Bool)} (h : l.Perm l') (t : α) :
    cntD le l t = cntD le l' t := h.countP_eq _

theorem qSpec_perm (le : α → α → Bool) {l l' : List (α × Bool)} (h : l.Perm l') (s : α) :
    qSpec le l s = qSpec le l' s := by
  unfold qSpec
  apply minOver_congr_set
  · intro y hy
    obtain ⟨z, hz, rfl⟩ := List.mem_map.mp hy
    rw [List.mem_filter] at hz
    refine ⟨_, List.mem_map.mpr ⟨z, List.mem_filter.mpr ⟨h.mem_iff.mp hz.1, hz.2⟩, rfl⟩, ?_⟩
    rw [cntT_perm le h, cntD_perm le h]
  · intro y hy
    obtain ⟨z, hz, rfl⟩ := List.mem_map.mp hy
    rw [List.mem_filter] at hz
    refine ⟨_, List.mem_map.mpr ⟨z, List.mem_filter.mpr ⟨h.mem_iff.mpr hz.1, hz.2⟩, rfl⟩, ?_⟩
    rw [cntT_perm le h, cntD_perm le h]

theorem lookupIdx_zip_map {β : Type} (f : β × Nat → Rat) (i : Nat) (e : β × Nat) :
    ∀ l : List (β × Nat), e ∈ l → e.2 = i → (∀ y ∈ l, y.2 = i → y = e) →
      lookupIdx i ((l.map (·.2)).zip (l.map f)) = f e := by
  intro l
  induction l with
  | nil => intro h; simp at h
  | cons x rest ih =>
    intro hmem hi huniq
    simp only [List.map_cons, List.zip_cons_cons, lookupIdx]
    by_cases hx : x.2 = i
    · have : x = e := huniq x (by simp) hx
      subst this
      simp [hx]
    · simp only [hx, if_false]
      have hmem' : e ∈ rest := by
        rcases List.mem_cons.mp hmem with rfl | h
        · exact absurd hi hx
        · exact h
      exact ih hmem' hi (fun y hy => huniq y (List.mem_cons_of_mem _ hy))

theorem mem_zipIdx_snd_eq {β : Type} (xs : List β) (y e : β × Nat)
    (hy : y ∈ xs.zipIdx) (he : e ∈ xs.zipIdx) (h : y.2 = e.2) : y = e := by
  obtain ⟨y1, y2⟩ := y
  obtain ⟨e1, e2⟩ := e
  simp only at h
  subst h
  rw [List.mem_zipIdx_iff_getElem?] at hy he
  simp only at hy he
  rw [hy] at he
  simp at he
  simp [he]

theorem tdcOf_eq_spec (le : α → α → Bool) (hle : TotalPre le) (xs : List (α × Bool))
    (sorted : List ((α × Bool) × Nat)) (hperm : sorted.Perm xs.zipIdx)
    (hs : SortedDesc le (sorted.map (·.1))) :
    tdcOf le xs.length sorted = xs.map (fun x => qSpec le xs x.1) := by
  unfold tdcOf
  have hpermfst : (sorted.map (·.1)).Perm xs := by
    have := hperm.map (·.1)
    simpa [List.zipIdx_map_fst] using this
  have hgo : go le 0 0 (sorted.map (·.1)) = sorted.map (fun e => qSpec le xs e.1.1) := by
    rw [go_eq_spec_sorted le hle _ hs, List.map_map]
    apply List.map_congr_left
    intro e _
    exact qSpec_perm le hpermfst _
  simp only [hgo]
  apply List.ext_getElem
  · simp
  · intro i h1 h2
    simp only [List.length_map, List.length_range] at h1
    simp only [List.getElem_map, List.getElem_range]
    have hmem : (xs[i], i) ∈ sorted := by
      rw [hperm.mem_iff, List.mem_zipIdx_iff_getElem?]
      simp [h1]
    exact lookupIdx_zip_map (fun e => qSpec le xs e.1.1) i (xs[i], i) sorted hmem rfl
      (fun y hy hyi => mem_zipIdx_snd_eq xs y (xs[i], i) (hperm.mem_iff.mp hy)
        (hperm.mem_iff.mp hmem) hyi)

theorem better_total (le : α → α → Bool) (hle : TotalPre le) (a b : (α × Bool) × Nat) :
    (better le a b || better le b a) = true := by
  unfold better
  rcases hle.total b.1.1 a.1.1 with h | h <;> simp [h]

theorem better_trans (le : α → α → Bool) (hle : TotalPre le) (a b c : (α × Bool) × Nat) :
    better le a b = true → better le b c = true → better le a c = true := by
  unfold better
  intro h1 h2
  exact hle.trans _ _ _ h2 h1

theorem tdc_eq_spec_aux (le : α → α → Bool) (hle : TotalPre le) (xs : List (α × Bool)) :
    tdc le xs = xs.map (fun x => qSpec le xs x.1) := by
  unfold tdc
  apply tdcOf_eq_spec le hle xs _ (List.mergeSort_perm _ _)
  have hsorted := List.pairwise_mergeSort (le := better le)
    (fun a b c => better_trans le hle a b c) (fun a b => better_total le hle a b) xs.zipIdx
  unfold SortedDesc
  rw [List.pairwise_map]
  exact hsorted.imp (fun h => h)

end Mk
