import MokapotVerif.Model.FallbackDtype
import MokapotVerif.Lemmas.FallbackFull
import Mathlib.Tactic.Linarith
/-!
# Lemmas on the number types of `Model/FallbackDtype.lean`
-/
namespace Mk.Fallback
open Mk

theorem bitLen_le_of_lt (p n : Nat) (h : n < 2 ^ p) : bitLen n ≤ p := by
  unfold bitLen
  by_cases h0 : n = 0
  · simp [h0]
  · simp only [h0, if_false]
    have := (Nat.log2_lt h0).mpr h
    omega

/-- an integer with fewer than `p` binary digits is not changed by rounding to `p` digits -/
theorem roundNat_exact (p n : Nat) (h : n < 2 ^ p) : roundNat p n = n := by
  unfold roundNat
  simp [bitLen_le_of_lt p n h]

theorem roundBits_exact (p : Nat) (x : Int) (h : x.natAbs < 2 ^ p) : roundBits p x = x := by
  unfold roundBits
  rw [roundNat_exact p _ h]
  by_cases hx : x < 0
  · simp only [hx, if_true]; omega
  · simp only [hx, if_false]; omega

theorem castF64_exact (x : Int) (h : x.natAbs < 2 ^ 53) : castF64 x = x := roundBits_exact 53 x h

theorem f64Exact_mem (col : List Int) (h : f64Exact col = true) (x : Int) (hx : x ∈ col) : x.natAbs < 2 ^ 53 := by
  unfold f64Exact at h
  simpa using (List.all_eq_true.mp h) x hx

theorem map_castF64_exact (col : List Int) (h : f64Exact col = true) : col.map castF64 = col := by
  have : ∀ x ∈ col, castF64 x = x := fun x hx => castF64_exact x (f64Exact_mem col h x hx)
  calc col.map castF64 = col.map id := List.map_congr_left this
    _ = col := List.map_id col

/-- a value of an integer type of at most 53 bits has magnitude below `2^53` -/
theorem inDtype_natAbs_lt (d : IntDtype) (hb : d.bits ≤ 53) (x : Int) (hx : inDtype d x = true) :
    x.natAbs < 2 ^ 53 := by
  unfold inDtype IntDtype.lo IntDtype.hi at hx
  simp only [Bool.and_eq_true, decide_eq_true_eq] at hx
  obtain ⟨hlo, hhi⟩ := hx
  have h1 : (2 : Nat) ^ (d.bits - 1) ≤ 2 ^ 52 := Nat.pow_le_pow_right (by norm_num) (by omega)
  have h2 : (2 : Nat) ^ d.bits ≤ 2 ^ 53 := Nat.pow_le_pow_right (by norm_num) hb
  have h1' : ((2 : Int) ^ (d.bits - 1)) ≤ 2 ^ 52 := by exact_mod_cast h1
  have h2' : ((2 : Int) ^ d.bits) ≤ 2 ^ 53 := by exact_mod_cast h2
  generalize (2 : Int) ^ (d.bits - 1) = a at *
  generalize (2 : Int) ^ d.bits = b at *
  cases hs : d.signed <;> simp only [hs, if_true, if_false, Bool.false_eq_true] at hlo hhi <;> omega

theorem featColumn_exact (f : Nat) (c : Coll) (h : ∀ col ∈ c.feats, f64Exact col = true) :
    f64Exact (featColumn f c) = true := by
  unfold featColumn
  by_cases hf : f < c.feats.length
  · have : c.feats.getD f [] = c.feats[f] := by simp [List.getD, hf]
    rw [this]
    exact h _ (List.getElem_mem hf)
  · have : c.feats.getD f [] = [] := by simp [List.getD, Nat.le_of_not_lt hf]
    rw [this]; rfl

end Mk.Fallback
