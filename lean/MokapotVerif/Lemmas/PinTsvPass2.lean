import MokapotVerif.Lemmas.PinTsvFiles
import MokapotVerif.Model.PinTsvPass2
/-!
# Lemmas for the second extension: write sequence, files on disk, document-level validity
-/
namespace Mk

/-! ## the write sequence and the first model -/

theorem pinBodyWrites_ok (sepC : Char) (sepP : Str) (idx nCol : Nat) (ls out : List Str) :
    pinBody sepC sepP idx nCol ls = .ok out ↔ pinBodyWrites sepC sepP idx nCol ls = (out, none) := by
  cases ls with
  | nil => simp [pinBody, pinBodyWrites]
  | cons l2 more => simp [pinBody, pinBodyWrites, eq_comm]

theorem pinBodyWrites_error (sepC : Char) (sepP : Str) (idx nCol : Nat) (ls : List Str) (e : PinErr) :
    pinBody sepC sepP idx nCol ls = .error e ↔ pinBodyWrites sepC sepP idx nCol ls = ([], some e) := by
  cases ls with
  | nil => simp [pinBody, pinBodyWrites, eq_comm]
  | cons l2 more => simp [pinBody, pinBodyWrites]

theorem pinToTsvWrites_ok (sepC : Char) (sepP : Str) (ls out : List Str) :
    pinToTsvLines sepC sepP ls = .ok out ↔ pinToTsvWrites sepC sepP ls = (out, none) := by
  cases ls with
  | nil => simp [pinToTsvLines, pinToTsvWrites]
  | cons h rest =>
    simp only [pinToTsvLines, pinToTsvWrites, pinAfterHeader, pinAfterHeaderWrites]
    split
    · cases hb : pinBody sepC sepP (List.idxOf proteinsName (splitOn sepC (chomp (chomp h))))
          (splitOn sepC (chomp (chomp h))).length rest with
      | error e =>
        have := (pinBodyWrites_error sepC sepP _ _ rest e).mp hb
        simp [Except.map, this]
      | ok b =>
        have := (pinBodyWrites_ok sepC sepP _ _ rest b).mp hb
        simp [Except.map, this, eq_comm]
    · simp

theorem pinToTsvWrites_error (sepC : Char) (sepP : Str) (ls : List Str) (e : PinErr)
    (h : pinToTsvLines sepC sepP ls = .error e) :
    pinToTsvWrites sepC sepP ls = ((ls.head?.map (fun l => chomp l ++ ['\n'])).toList, some e) := by
  cases ls with
  | nil =>
    simp only [pinToTsvLines] at h
    cases h
    rfl
  | cons a rest =>
    simp only [pinToTsvLines, pinAfterHeader] at h
    simp only [pinToTsvWrites, pinAfterHeaderWrites, List.head?_cons, Option.map_some, Option.toList_some]
    split at h
    · rename_i hc
      rw [if_pos hc]
      cases hb : pinBody sepC sepP (List.idxOf proteinsName (splitOn sepC (chomp (chomp a))))
          (splitOn sepC (chomp (chomp a))).length rest with
      | error e' =>
        rw [hb] at h
        simp only [Except.map, Except.error.injEq] at h
        subst h
        rw [(pinBodyWrites_error sepC sepP _ _ rest e').mp hb]
      | ok b =>
        rw [hb] at h
        simp [Except.map] at h
    · rename_i hc
      rw [if_neg hc]
      cases h
      rfl

/-- the exception of the write-level model is the exception of the first model -/
theorem pinToTsvWrites_snd (sepC : Char) (sepP : Str) (ls : List Str) :
    (pinToTsvWrites sepC sepP ls).2 = none ↔ ∃ out, pinToTsvLines sepC sepP ls = .ok out := by
  cases hl : pinToTsvLines sepC sepP ls with
  | ok out =>
    rw [(pinToTsvWrites_ok sepC sepP ls out).mp hl]
    simp
  | error e =>
    rw [pinToTsvWrites_error sepC sepP ls e hl]
    simp

/-! ## the validity test on a rendered document -/

theorem count_append_nl (sepC : Char) (hs : sepC ≠ '\n') (l : Str) :
    (l ++ ['\n']).count sepC = l.count sepC := by
  rw [List.count_append]
  have : ('\n' == sepC) = false := by simpa using fun e => hs e.symm
  simp [List.count_cons, this]

theorem nFields_append_nl (sepC : Char) (hs : sepC ≠ '\n') (l : Str) :
    nFields sepC (l ++ ['\n']) = nFields sepC l := by
  rw [nFields_eq_count, nFields_eq_count, count_append_nl sepC hs]

theorem restOk_addNl (sepC : Char) (hs : sepC ≠ '\n') (n : Nat) (ls : List Str) (tr : Bool) :
    restOk sepC n (addNl ls tr) = restOk sepC n ls := by
  induction ls with
  | nil => rfl
  | cons l r ih =>
    cases r with
    | nil =>
      cases tr
      · simp [addNl]
      · simp [addNl, restOk, nFields_append_nl sepC hs]
    | cons l' r =>
      simp only [addNl, restOk] at ih ⊢
      rw [nFields_append_nl sepC hs, ih]

theorem isValidLines_addNl (sepC : Char) (hs : sepC ≠ '\n') (ls : List Str) (tr : Bool) :
    isValidLines sepC (addNl ls tr) = isValidLines sepC ls := by
  cases ls with
  | nil => rfl
  | cons a r =>
    cases r with
    | nil => rfl
    | cons b r =>
      cases r with
      | nil =>
        cases tr
        · simp [addNl, isValidLines, nFields_append_nl sepC hs]
        · simp [addNl, isValidLines, nFields_append_nl sepC hs, isDD_append_nl]
      | cons c r =>
        have := restOk_addNl sepC hs (nFields sepC a) (c :: r) tr
        simp only [addNl, isValidLines, nFields_append_nl sepC hs, isDD_append_nl] at this ⊢
        rw [this]

/-- a whitespace character is not the first letter of `DefaultDirection` -/
theorem isDD_cons_space (c : Char) (l : Str) (hc : pyIsSpace c = true) : isDD (c :: l) = false := by
  have : c ≠ 'D' := by
    intro e; subst e; revert hc; decide
  simp [isDD, ddName, List.isPrefixOf, Ne.symm this]

/-- a line terminator character is not a letter of `DefaultDirection` -/
theorem isEol_not_space (c : Char) (h : isEol c = true) : pyIsSpace c = true := by
  simp only [isEol, Bool.or_eq_true, beq_iff_eq] at h
  rcases h with rfl | rfl <;> decide

/-- whitespace after a line does not make it a DefaultDirection line (nor hide one) -/
theorem isDD_append_pad (l p : Str) (hp : ∀ c ∈ p, pyIsSpace c = true) : isDD (l ++ p) = isDD l := by
  induction p generalizing l with
  | nil => simp
  | cons c p ih =>
    have hc : c ∉ ddName := by
      intro hm
      have h1 := hp c (by simp)
      revert h1
      have : c ∈ ddName → pyIsSpace c = false := by
        intro hm'
        simp only [ddName, List.mem_cons, List.not_mem_nil, or_false] at hm'
        rcases hm' with rfl | rfl | rfl | rfl | rfl | rfl | rfl | rfl | rfl | rfl | rfl | rfl | rfl | rfl | rfl | rfl <;> decide
      rw [this hm]; simp
    have e : l ++ c :: p = (l ++ [c]) ++ p := by simp
    rw [e, ih (l ++ [c]) (fun x hx => hp x (by simp [hx]))]
    exact isPrefixOf_append_singleton ddName l c hc

theorem count_pad_line (sepC : Char) (a b : Str) (fs : List Str) (ha : sepC ∉ a) (hb : sepC ∉ b)
    (hne : fs ≠ []) (hf : ∀ f ∈ fs, sepC ∉ f) :
    nFields sepC (a ++ joinWith [sepC] fs ++ b) = fs.length := by
  rw [nFields_eq_count, List.count_append, List.count_append, List.count_eq_zero_of_not_mem ha,
    List.count_eq_zero_of_not_mem hb, Nat.zero_add, Nat.add_zero]
  exact count_joinWith sepC fs hne hf

theorem RowWF.nFields_line {sepC : Char} {idx nCol : Nat} {r : PinRow} (h : RowWF sepC idx nCol r)
    (hp : r.padsFree sepC = true) : nFields sepC (r.line sepC) = nCol - 1 + r.prots.length := by
  simp only [PinRow.padsFree, Bool.and_eq_true, Bool.not_eq_true', List.contains_eq_mem,
    decide_eq_false_iff_not] at hp
  unfold PinRow.line
  rw [count_pad_line sepC r.padL r.padR r.fields hp.1 hp.2 h.fields_ne_nil (fun f hf => (h.fields f hf).1)]
  have h1 := h.pre
  have h2 := h.post
  simp only [PinRow.fields, List.length_append]
  omega

theorem RowWF.nFields_ne {sepC : Char} {idx nCol : Nat} {r : PinRow} (h : RowWF sepC idx nCol r)
    (hp : r.padsFree sepC = true) : (nFields sepC (r.line sepC) ≠ nCol) ↔ r.prots.length ≠ 1 := by
  rw [h.nFields_line hp]
  have h2 := h.post
  constructor <;> intro hh <;> omega

theorem restOk_rows (sepC : Char) (idx nCol : Nat) (rs : List PinRow)
    (h : ∀ r ∈ rs, RowWF sepC idx nCol r) (hp : ∀ r ∈ rs, r.padsFree sepC = true) :
    restOk sepC nCol (rs.map (PinRow.line sepC)) = rs.all (fun r => r.prots.length == 1) := by
  induction rs with
  | nil => rfl
  | cons r rs ih =>
    have hw := h r (by simp)
    have hn := hw.nFields_ne (hp r (by simp))
    simp only [List.map_cons, restOk, List.all_cons]
    rw [ih (fun x hx => h x (by simp [hx])) (fun x hx => hp x (by simp [hx]))]
    by_cases e : r.prots.length = 1
    · have : ¬ (nFields sepC (r.line sepC) ≠ nCol) := fun hh => (hn.mp hh) e
      rw [if_neg this]; simp [e]
    · rw [if_pos (hn.mpr e)]; simp [e]

/-- the first PSM line of a document without DefaultDirection line is not taken for one by
`is_valid_tsv` either (which looks at the unstripped line) -/
theorem RowWF.isDD_line {sepC : Char} {idx nCol : Nat} {r : PinRow} (h : RowWF sepC idx nCol r)
    (hdd : isDD (joinWith [sepC] r.fields) = false) : isDD (r.line sepC) = false := by
  unfold PinRow.line
  have hR := ((padOk_iff _).mp h.padR).1
  rw [h.padL, List.nil_append, isDD_append_pad _ _ (fun c hc => isEol_not_space c (hR c hc))]
  exact hdd

theorem DocWF.nFields_header {sepC : Char} {d : PinDoc} (h : DocWF sepC d) (hp : d.padsFree sepC = true) :
    nFields sepC (d.headerLine sepC) = d.cols.length := by
  simp only [PinDoc.padsFree, Bool.and_eq_true, Bool.not_eq_true', List.contains_eq_mem,
    decide_eq_false_iff_not] at hp
  unfold PinDoc.headerLine
  exact count_pad_line sepC d.hpadL d.hpadR d.cols hp.1.1 hp.1.2 h.cols_ne_nil (fun f hf => (h.cols f hf).1)

/-- **`is_valid_tsv` on the text of a well-formed document**, read off the document -/
theorem DocWF.isValid_doc {sepC : Char} {d : PinDoc} (h : DocWF sepC d) (hp : d.padsFree sepC = true) :
    isValid sepC (renderPin sepC d) = .ok (ddAccepted sepC d && d.rectangular) := by
  have hhdr := h.nFields_header hp
  have hrows : ∀ r ∈ d.rows, r.padsFree sepC = true := by
    simp only [PinDoc.padsFree, Bool.and_eq_true, List.all_eq_true] at hp
    exact hp.2
  unfold isValid renderPin
  rw [pyLines_renderLines _ _ h.lines_no_nl h.last_ok, isValidLines_addNl sepC h.sep]
  unfold PinDoc.lines ddAccepted PinDoc.rectangular
  cases hd : d.dd with
  | some x =>
    simp only [Option.toList_some, List.singleton_append, isValidLines, hhdr, Option.map_some,
      Option.getD_some]
    rw [restOk_rows sepC _ _ d.rows h.rows hrows]
    cases isDD x
    · by_cases e : nFields sepC x = d.cols.length
      · simp [e]
      · simp [e]
    · simp
  | none =>
    rcases h.first with h' | ⟨r, rs, hr, hdd⟩
    · rw [hd] at h'; simp at h'
    · have hw := h.rows r (by rw [hr]; simp)
      have hn := hw.nFields_ne (hrows r (by rw [hr]; simp))
      rw [hr]
      simp only [Option.toList_none, List.nil_append, List.map_cons, isValidLines, hhdr,
        hw.isDD_line hdd, Option.map_none, Option.getD_none, Bool.true_and, List.all_cons]
      rw [restOk_rows sepC _ _ rs (fun x hx => h.rows x (by rw [hr]; simp [hx]))
        (fun x hx => hrows x (by rw [hr]; simp [hx]))]
      by_cases e : r.prots.length = 1
      · have : ¬ (nFields sepC (r.line sepC) ≠ d.cols.length) := fun hh => (hn.mp hh) e
        simp [this, e]
      · simp [hn.mpr e, e]

/-! ## the conversion of a document, write by write -/

theorem DocWF.pinToTsvLines {sepC : Char} {d : PinDoc} (h : DocWF sepC d) (sepP : Str) :
    Mk.pinToTsvLines sepC sepP (pyLines (renderPin sepC d))
      = .ok ((specTable sepP d).map (fun row => joinWith [sepC] row ++ ['\n'])) := by
  unfold renderPin
  rw [pyLines_renderLines _ _ h.lines_no_nl h.last_ok, pinToTsvLines_addNl]
  unfold PinDoc.lines
  simp only [Mk.pinToTsvLines, pinAfterHeader]
  rw [h.strip_header, h.chomp_cols,
    splitOn_joinWith sepC d.cols h.cols_ne_nil (fun f hf => (h.cols f hf).1)]
  have hc : d.cols.contains proteinsName = true := by simpa using h.proteins
  rw [if_pos hc, h.body sepP]
  simp only [Except.map, specTable, List.map_cons, List.map_map]
  rfl

/-! ## files on disk -/

theorem toolMain_eq (sepC : Option Char) (sepP : Option Str) (raw old : Str) :
    toolMain sepC sepP raw old
      = (Mk.pinToTsvLines (sepC.getD '\t') (sepP.getD [':']) (pyLines (univNl raw))).map List.flatten := rfl

theorem verifyStepFs_invalid_error (raw : Str) (old : Option Str) (e : PinErr)
    (h : isValid '\t' (univNl raw) = .error e) :
    verifyStepFs raw old = ({ pin := raw, tsv := old }, some e) ∧ verifyStepFile raw = .error e := by
  simp [verifyStepFs, verifyStepFile, h, stepFsOfValid, Except.bind]

theorem verifyStepFs_valid (raw : Str) (old : Option Str) (h : isValid '\t' (univNl raw) = .ok true) :
    verifyStepFs raw old = ({ pin := raw, tsv := old }, none) ∧ verifyStepFile raw = .ok raw := by
  simp [verifyStepFs, verifyStepFile, h, stepFsOfValid, Except.bind]

theorem verifyStepFs_converted (raw : Str) (old : Option Str) (w : List Str)
    (h : isValid '\t' (univNl raw) = .ok false)
    (hw : Mk.pinToTsvLines '\t' [':'] (pyLines (univNl raw)) = .ok w) :
    verifyStepFs raw old = ({ pin := w.flatten, tsv := none }, none) ∧ verifyStepFile raw = .ok w.flatten := by
  have := (pinToTsvWrites_ok '\t' [':'] _ w).mp hw
  simp [verifyStepFs, verifyStepFile, h, stepFsOfValid, convertStepFs, this, Except.bind, pinToTsv, hw,
    Except.map]

theorem verifyStepFs_convert_error (raw : Str) (old : Option Str) (e : PinErr)
    (h : isValid '\t' (univNl raw) = .ok false)
    (hw : Mk.pinToTsvLines '\t' [':'] (pyLines (univNl raw)) = .error e) :
    verifyStepFs raw old
      = ({ pin := raw,
           tsv := some (((pyLines (univNl raw)).head?.map (fun l => chomp l ++ ['\n'])).getD []) }, some e) ∧
    verifyStepFile raw = .error e := by
  have := pinToTsvWrites_error '\t' [':'] _ e hw
  refine ⟨?_, by simp [verifyStepFile, h, Except.bind, pinToTsv, hw, Except.map]⟩
  simp only [verifyStepFs, h, stepFsOfValid, convertStepFs, this, Option.isNone_some, Bool.false_eq_true,
    if_false]
  cases (pyLines (univNl raw)).head? <;> simp

theorem verifyFilesFsLoop_length (files : List (Str × Option Str)) :
    (verifyFilesFsLoop files).1.length = files.length := by
  induction files with
  | nil => rfl
  | cons f fs ih =>
    simp only [verifyFilesFsLoop]
    split <;> simp [ih]

end Mk
