import MokapotVerif.Lemmas.Peps
import Mathlib.Data.List.Perm.Basic
/-! Helper lemmas for C06: shape of pointwise estimators, scatter / un-sort
alignment of the qvality wrapper, independence of the `argsort` tie order. -/
namespace Mk.Peps

/-! ### pointwise estimators satisfy `Shape` -/

theorem shape_map (lo : Rat) (hi : Option Rat) (g : Rat → Rat)
    (hanti : ∀ a b, a ≤ b → g b ≤ g a)
    (hrange : ∀ a, lo ≤ g a ∧ ∀ h, hi = some h → g a ≤ h) (scores : List Rat) :
    Shape lo hi scores (scores.map g) := by
  refine ⟨by simp, ?_, ?_⟩
  · intro v hv
    obtain ⟨a, _, rfl⟩ := List.mem_map.mp hv
    exact hrange a
  · intro i j hi' hj hvi hvj h
    simp only [List.getElem_map]
    exact hanti _ _ h

/-- equal scores receive equal values: a consequence of the monotonicity clause -/
theorem Shape.ties {lo : Rat} {hi : Option Rat} {scores vals : List Rat} (h : Shape lo hi scores vals)
    (i j : Nat) (hi' : i < scores.length) (hj : j < scores.length) (e : scores[i] = scores[j]) :
    vals[i]'(by rw [h.length]; exact hi') = vals[j]'(by rw [h.length]; exact hj) :=
  le_antisymm (h.antitone j i hj hi' _ _ (le_of_eq e.symm)) (h.antitone i j hi' hj _ _ (le_of_eq e))

/-! ### NNLS-based PEPs -/

theorem revCumsum_anti (d : List Rat) (hd : ∀ x ∈ d, 0 ≤ x) : (revCumsum d).Pairwise (fun a b => b ≤ a) := by
  unfold revCumsum cumsum
  rw [List.pairwise_reverse]
  exact cumsumFrom_pairwise 0 d hd

theorem revCumsum_nonneg (d : List Rat) (hd : ∀ x ∈ d, 0 ≤ x) : ∀ y ∈ revCumsum d, 0 ≤ y := by
  intro y hy
  unfold revCumsum cumsum at hy
  rw [List.mem_reverse] at hy
  exact cumsumFrom_ge 0 d hd y hy

theorem antiKnots_zip (es ys : List Rat) (h : ys.Pairwise (fun a b => b ≤ a)) : AntiKnots (es.zip ys) := by
  unfold AntiKnots
  exact pairwise_zip_snd (fun a b => b ≤ a) es ys h

theorem scaleToOne_anti (p : List Rat) (hp : p.Pairwise (fun a b => b ≤ a)) (hnn : ∀ y ∈ p, 0 ≤ y) :
    (scaleToOne p).Pairwise (fun a b => b ≤ a) := by
  unfold scaleToOne
  split
  · have h0 : 0 ≤ p.headD 0 := by
      cases p with
      | nil => simp
      | cons a t => simpa using hnn a List.mem_cons_self
    rw [List.pairwise_map]
    exact hp.imp (fun {a b} hab => div_le_div_of_nonneg_right hab h0)
  · exact hp

/-! ### q-values from PEPs / counts: knots are non-increasing and non-negative -/

theorem cumsumFrom_nonneg (acc : Rat) (hacc : 0 ≤ acc) (xs : List Rat) (h : ∀ x ∈ xs, 0 ≤ x) :
    ∀ y ∈ cumsumFrom acc xs, 0 ≤ y :=
  fun y hy => le_trans hacc (cumsumFrom_ge acc xs h y hy)

theorem meanPrefix_nonneg (ps : List Rat) (h : ∀ p ∈ ps, 0 ≤ p) : ∀ y ∈ meanPrefix ps, 0 ≤ y := by
  intro y hy
  unfold meanPrefix at hy
  obtain ⟨ci, hci, rfl⟩ := List.mem_map.mp hy
  unfold divIdx
  have hc : 0 ≤ ci.1 := by
    have hmem : ci.1 ∈ cumsum ps := by
      obtain ⟨c, i⟩ := ci
      exact (List.mem_zipIdx hci).2.2 ▸ List.getElem_mem _
    exact cumsumFrom_nonneg 0 le_rfl ps h _ hmem
  exact div_nonneg hc (by exact_mod_cast Nat.zero_le _)

theorem pepKnots_anti (sorted : List (Psm × Rat)) : AntiKnots (pepKnots sorted) := by
  unfold pepKnots
  exact antiKnots_zip_reverse _ _ (runMax_pairwise _)

theorem pepKnots_nonneg (sorted : List (Psm × Rat)) (h : ∀ e ∈ sorted, 0 ≤ e.2) :
    ∀ k ∈ pepKnots sorted, 0 ≤ k.2 := by
  intro k hk
  unfold pepKnots at hk
  have h1 := mem_zip_snd hk
  rw [List.mem_reverse] at h1
  have h2 := runMax_mem _ _ h1
  apply meanPrefix_nonneg _ _ _ h2
  intro p hp
  obtain ⟨e, he, rfl⟩ := List.mem_map.mp hp
  exact h e (List.mem_filter.mp he).1

theorem countsFdr_nonneg (c : Rat) (hc : 0 ≤ c) (T D : Nat) (bs : List Bool) :
    ∀ y ∈ countsFdr c T D bs, 0 ≤ y := by
  induction bs generalizing T D with
  | nil => intro y hy; simp [countsFdr] at hy
  | cons b rest ih =>
    intro y hy
    simp only [countsFdr, List.mem_cons] at hy
    rcases hy with rfl | hy
    · exact div_nonneg (mul_nonneg hc (by exact_mod_cast Nat.zero_le _)) (by exact_mod_cast Nat.zero_le _)
    · exact ih _ _ y hy

theorem countKnots_anti (c : Rat) (sorted : List Psm) : AntiKnots (countKnots c sorted) := by
  unfold countKnots
  exact antiKnots_zip_reverse _ _ (runMax_pairwise _)

theorem countKnots_nonneg (c : Rat) (hc : 0 ≤ c) (sorted : List Psm) :
    ∀ k ∈ countKnots c sorted, 0 ≤ k.2 := by
  intro k hk
  unfold countKnots at hk
  have h1 := mem_zip_snd hk
  rw [List.mem_reverse] at h1
  exact countsFdr_nonneg c hc 0 0 _ _ (runMax_mem _ _ h1)

/-! ### scatter / un-sort -/

theorem scatterGet_zip_map (f : Nat → Rat) (i : Nat) : ∀ (ind : List Nat), i ∈ ind →
    scatterGet i (ind.zip (ind.map f)) = f i := by
  intro ind
  induction ind with
  | nil => intro h; simp at h
  | cons j rest ih =>
    intro h
    simp only [List.map_cons, List.zip_cons_cons, scatterGet]
    by_cases hj : j = i
    · simp [hj]
    · simp only [hj, if_false]
      rcases List.mem_cons.mp h with rfl | h'
      · exact absurd rfl hj
      · exact ih h'

theorem range_map_getD (xs : List Psm) (f : Psm → Rat) (d : Psm) :
    (List.range xs.length).map (fun i => f (xs.getD i d)) = xs.map f := by
  apply List.ext_getElem
  · simp
  · intro i h1 h2
    simp only [List.length_map, List.length_range] at h1
    simp [List.getD_eq_getElem?_getD, h1]

theorem scores_perm_split (xs : List Psm) : (targetScores xs ++ decoyScores xs).Perm (xs.map (·.1)) := by
  unfold targetScores decoyScores
  rw [← List.map_append]
  exact (List.filter_append_perm (fun x => x.2) xs).map _

/-! ### uniqueness of the sorted arrangement when ties are indistinguishable -/

theorem sorted_unique {β : Type} (key : β → Rat) (l1 l2 : List β) (hperm : l1.Perm l2)
    (h1 : l1.Pairwise (fun a b => key b ≤ key a)) (h2 : l2.Pairwise (fun a b => key b ≤ key a))
    (hinj : ∀ a ∈ l1, ∀ b ∈ l1, key a = key b → a = b) : l1 = l2 := by
  apply List.Perm.eq_of_pairwise (le := fun a b => key b ≤ key a) _ h1 h2 hperm
  intro a b ha hb hab hba
  exact hinj a ha b (hperm.mem_iff.mpr hb) (le_antisymm hba hab)

/-! ### the qvality wrapper returns each PSM's own value -/

/-- `ind` is an admissible result of `np.argsort(-scores)`: a permutation of
`0..n-1` along which the scores never increase (any order among ties) -/
def ValidArgsort (xs : List Psm) (ind : List Nat) : Prop :=
  ind.Perm (List.range xs.length) ∧
    (ind.map (fun i => (xs.getD i (0, false)).1)).Pairwise (fun a b => b ≤ a)

/-- hypothesis on the qvality kernel for the data set `xs`: whatever order the
target and decoy scores are handed over in, it returns `g` evaluated at the
scores in descending order (`g` = spline + monotonisation, a function of the
score for the given multiset of targets and decoys) -/
def QvalityKernelOK (K : List Rat → List Rat → List Rat) (g : Rat → Rat) (xs : List Psm) : Prop :=
  ∀ ts ds, ts.Perm (targetScores xs) → ds.Perm (decoyScores xs) →
    ∀ s : List Rat, s.Perm (ts ++ ds) → s.Pairwise (fun a b => b ≤ a) → K ts ds = s.map g

theorem qvalityWrapOf_aligned (K : List Rat → List Rat → List Rat) (g : Rat → Rat) (xs : List Psm)
    (hK : QvalityKernelOK K g xs) (ys : List Psm) (hperm : ys.Perm xs) (ind : List Nat)
    (hv : ValidArgsort ys ind) : qvalityWrapOf K ys ind = ys.map (fun y => g y.1) := by
  unfold qvalityWrapOf
  obtain ⟨hind, hsorted⟩ := hv
  have hs_perm : (ind.map (fun i => (ys.getD i (0, false)).1)).Perm (targetScores ys ++ decoyScores ys) := by
    have h1 := hind.map (fun i => (ys.getD i (0, false)).1)
    rw [range_map_getD ys (fun y => y.1) (0, false)] at h1
    exact h1.trans (scores_perm_split ys).symm
  have hts : (targetScores ys).Perm (targetScores xs) := (hperm.filter _).map _
  have hds : (decoyScores ys).Perm (decoyScores xs) := (hperm.filter _).map _
  have hKs := hK _ _ hts hds _ hs_perm hsorted
  simp only [hKs, List.map_map]
  rw [← range_map_getD ys (fun y => g y.1) (0, false)]
  apply List.map_congr_left
  intro i hi
  have himem : i ∈ ind := hind.mem_iff.mpr hi
  exact scatterGet_zip_map (fun j => g (ys.getD j (0, false)).1) i ind himem

theorem descIdx_total (a b : Psm × Nat) : (descIdx a b || descIdx b a) = true := by
  unfold descIdx
  rcases le_total a.1.1 b.1.1 with h | h <;> simp [h]

theorem descIdx_trans (a b c : Psm × Nat) : descIdx a b = true → descIdx b c = true → descIdx a c = true := by
  unfold descIdx
  simp only [decide_eq_true_eq]
  intro h1 h2
  exact le_trans h2 h1

/-- the stable merge sort used by the executable model is an admissible argsort -/
theorem stableArgsortDesc_valid (xs : List Psm) : ValidArgsort xs (stableArgsortDesc xs) := by
  unfold ValidArgsort stableArgsortDesc
  constructor
  · have h := (List.mergeSort_perm xs.zipIdx descIdx).map (·.2)
    refine h.trans ?_
    rw [List.zipIdx_map_snd, List.range_eq_range']
  · rw [List.map_map]
    have hsorted := List.pairwise_mergeSort (le := descIdx) descIdx_trans descIdx_total xs.zipIdx
    rw [List.pairwise_map]
    have hmem : ∀ e ∈ xs.zipIdx.mergeSort descIdx, xs.getD e.2 (0, false) = e.1 := by
      intro e he
      have he' : e ∈ xs.zipIdx := (List.mergeSort_perm _ _).mem_iff.mp he
      obtain ⟨e1, e2⟩ := e
      rw [List.mem_zipIdx_iff_getElem?] at he'
      simp only at he'
      simp [List.getD_eq_getElem?_getD, he']
    have hP : (xs.zipIdx.mergeSort descIdx).Pairwise
        (fun a b => a ∈ xs.zipIdx.mergeSort descIdx ∧ b ∈ xs.zipIdx.mergeSort descIdx ∧ descIdx a b = true) := by
      rw [List.pairwise_iff_forall_sublist] at hsorted ⊢
      intro a b hab
      exact ⟨hab.subset (by simp), hab.subset (by simp), hsorted hab⟩
    refine hP.imp ?_
    intro a b ⟨ha, hb, hab⟩
    simp only [Function.comp]
    rw [hmem a ha, hmem b hb]
    unfold descIdx at hab
    simpa using hab

/-! ### independence of the argsort tie order -/

theorem pepKnots_indep (g : Rat → Rat) (s1 s2 : List (Psm × Rat)) (hperm : s1.Perm s2)
    (h1 : s1.Pairwise (fun a b => b.1.1 ≤ a.1.1)) (h2 : s2.Pairwise (fun a b => b.1.1 ≤ a.1.1))
    (hg : ∀ e ∈ s1, e.2 = g e.1.1) : pepKnots s1 = pepKnots s2 := by
  have hP : (s1.filter isTgt).map (fun e => (e.1.1, e.2)) = (s2.filter isTgt).map (fun e => (e.1.1, e.2)) := by
    apply sorted_unique (fun p : Rat × Rat => p.1)
    · exact (hperm.filter _).map _
    · rw [List.pairwise_map]
      exact (h1.sublist List.filter_sublist).imp (fun h => h)
    · rw [List.pairwise_map]
      exact (h2.sublist List.filter_sublist).imp (fun h => h)
    · intro a ha b hb hab
      obtain ⟨ea, hea, rfl⟩ := List.mem_map.mp ha
      obtain ⟨eb, heb, rfl⟩ := List.mem_map.mp hb
      simp only at hab
      have ga := hg ea (List.mem_filter.mp hea).1
      have gb := hg eb (List.mem_filter.mp heb).1
      simp only [Prod.mk.injEq]
      exact ⟨hab, by rw [ga, gb, hab]⟩
  have e1 : (s1.filter isTgt).map (fun e => e.1.1) = (s2.filter isTgt).map (fun e => e.1.1) := by
    have := congrArg (List.map Prod.fst) hP
    simpa [List.map_map, Function.comp_def] using this
  have e2 : (s1.filter isTgt).map (fun e => e.2) = (s2.filter isTgt).map (fun e => e.2) := by
    have := congrArg (List.map Prod.snd) hP
    simpa [List.map_map, Function.comp_def] using this
  unfold pepKnots
  rw [e1, e2]

theorem filter_isTgt_isEmpty_perm {s1 s2 : List (Psm × Rat)} (hperm : s1.Perm s2) :
    (s1.filter isTgt).isEmpty = (s2.filter isTgt).isEmpty := by
  have := (hperm.filter isTgt).length_eq
  cases h1 : s1.filter isTgt <;> cases h2 : s2.filter isTgt <;> simp_all

end Mk.Peps
