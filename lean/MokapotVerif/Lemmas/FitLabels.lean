import MokapotVerif.Lemmas.FitLoop
import MokapotVerif.Lemmas.QvaluesSort
/-! Helper lemmas for C12: the label rule, its equivariance under row permutations,
the per-iteration reading of the specification, start labels, selection by name. -/
namespace Mk.Fit
variable {α β γ ρ θ ν : Type}

/-! ### labels -/

theorem tdc_length' (le : α → α → Bool) (xs : List (α × Bool)) : (tdc le xs).length = xs.length := by
  unfold tdc tdcOf
  simp

theorem tdcRelabel_length (le : α → α → Bool) (thr : Rat) (targets : List Bool) (scores : List α) :
    (tdcRelabel le thr targets scores).length = min scores.length targets.length := by
  unfold tdcRelabel updateLabels
  simp [tdc_length']

theorem tdcRelabel_eq_spec (le : α → α → Bool) (hle : TotalPre le) (thr : Rat) (targets : List Bool)
    (scores : List α) :
    tdcRelabel le thr targets scores
      = (scores.zip targets).map (labelSpec le thr (scores.zip targets)) := by
  unfold tdcRelabel updateLabels
  rw [tdc_eq_spec_aux le hle]
  apply List.ext_getElem
  · simp
  · intro i h1 h2
    simp only [List.getElem_zipWith, List.getElem_map, labelOf, labelSpec]
    cases ((scores.zip targets)[i]'(by simpa using h2)).2 <;> simp
    split <;> rename_i h
    · rw [if_neg (not_le.mpr h)]
    · rw [if_pos (not_lt.mp h)]

theorem labelSpec_perm (le : α → α → Bool) (thr : Rat) {l l' : List (α × Bool)} (h : l.Perm l') (x : α × Bool) :
    labelSpec le thr l x = labelSpec le thr l' x := by
  unfold labelSpec
  rw [qSpec_perm le h]

/-- permuting the PSMs permutes their labels the same way -/
theorem tdcRelabel_equivariant (le : α → α → Bool) (hle : TotalPre le) (thr : Rat) (targets : List Bool)
    (scores : List α) (p : List Nat) (n : Nat) (hp : p.Perm (List.range n))
    (ht : targets.length = n) (hs : scores.length = n) :
    tdcRelabel le thr (gather targets p) (gather scores p) = gather (tdcRelabel le thr targets scores) p := by
  have hlt := perm_range_lt hp
  rw [tdcRelabel_eq_spec le hle, tdcRelabel_eq_spec le hle, gather_map,
    gather_zip scores targets p (by rw [hs]; exact hlt) (by rw [ht]; exact hlt)]
  apply List.map_congr_left
  intro x _
  apply labelSpec_perm
  apply gather_perm
  simpa [hs, ht] using hp

/-! ### per-iteration reading of `specGo` -/

/-- estimator state after the first `k` recorded `fit` calls -/
def thetaAfter (est : Est ρ α θ) (th0 : θ) (trace : List (List (ρ × Bool))) (k : Nat) : θ :=
  (trace.take k).foldl est.fit th0

theorem specGo_trace_get (est : Est ρ α θ) (relabel : List α → List Int) (order : List Nat) (rows : List ρ) :
    ∀ (k : Nat) (th : θ) (L : List Int) (j : Nat), j < (specGo est relabel order rows k th L).trace.length →
      (specGo est relabel order rows k th L).trace[j]? =
        some (order.filterMap (pairAt rows
          (if j = 0 then L else relabel (rows.map (est.score
            (thetaAfter est th (specGo est relabel order rows k th L).trace j)))))) := by
  intro k
  induction k with
  | zero => intro th L j hj; simp [specGo] at hj
  | succ k ih =>
    intro th L j
    simp only [specGo]
    split
    · intro hj
      have : j = 0 := by simpa using hj
      subst this
      simp
    · intro hj
      cases j with
      | zero => simp [consTrace]
      | succ j =>
        simp only [consTrace, List.length_cons, Nat.add_lt_add_iff_right] at hj
        simp only [consTrace, List.getElem?_cons_succ, Nat.add_eq_zero_iff, Nat.succ_ne_self, and_false, if_false,
          thetaAfter, List.take_succ_cons, List.foldl_cons]
        rw [ih _ _ j hj]
        by_cases hj0 : j = 0
        · subst hj0; simp
        · simp [hj0, thetaAfter]

/-! ### a permutation of the input rows -/

theorem filterMap_pairAt_perm (rows : List ρ) (L : List Int) (o : List Nat) (n : Nat)
    (ho : o.Perm (List.range n)) (hr : rows.length = n) (hL : L.length = n) :
    (o.filterMap (pairAt rows L)).Perm (trainSet rows L) := by
  rw [trainSet_eq_range rows L (by rw [hr, hL]), hr]
  exact List.Perm.filterMap _ ho

theorem specGo_row_perm (est : Est ρ α θ) (hfit : PermInvariant est) (relabel relabel' : List α → List Int)
    (p : List Nat) (n : Nat) (hp : p.Perm (List.range n)) (rows : List ρ) (hr : rows.length = n)
    (hrel : ∀ sc : List α, sc.length = n → (relabel sc).length = n)
    (heq : ∀ sc : List α, sc.length = n → relabel' (gather sc p) = gather (relabel sc) p)
    (o o' : List Nat) (ho : o.Perm (List.range n)) (ho' : o'.Perm (List.range n)) :
    ∀ (k : Nat) (th : θ) (L : List Int), L.length = n →
      (specGo est relabel' o' (gather rows p) k th (gather L p)).final = (specGo est relabel o rows k th L).final ∧
      List.Forall₂ List.Perm (specGo est relabel' o' (gather rows p) k th (gather L p)).trace
        (specGo est relabel o rows k th L).trace := by
  have hlt := perm_range_lt hp
  intro k
  induction k with
  | zero =>
    intro th L hL
    simp only [specGo]
    rw [numPos_gather L p (by rw [hL]; exact hp)]
    exact ⟨rfl, List.Forall₂.nil⟩
  | succ k ih =>
    intro th L hL
    simp only [specGo]
    have hgr : (gather rows p).length = n := by
      rw [gather_length rows p (by rw [hr]; exact hlt)]; simpa using hp.length_eq
    have hgl : (gather L p).length = n := by
      rw [gather_length L p (by rw [hL]; exact hlt)]; simpa using hp.length_eq
    have hperm : (o'.filterMap (pairAt (gather rows p) (gather L p))).Perm (o.filterMap (pairAt rows L)) := by
      refine (filterMap_pairAt_perm _ _ o' n ho' hgr hgl).trans ?_
      rw [trainSet_gather rows L p (by rw [hr]; exact hlt) (by rw [hL]; exact hlt)]
      exact (filterMap_pairAt_perm rows L p n hp hr hL).trans (filterMap_pairAt_perm rows L o n ho hr hL).symm
    rw [hfit th _ _ hperm]
    generalize est.fit th (o.filterMap (pairAt rows L)) = th'
    have hsc : (gather rows p).map (est.score th') = gather (rows.map (est.score th')) p := (gather_map _ _ _).symm
    rw [hsc, heq _ (by simp [hr])]
    have hlen : (relabel (rows.map (est.score th'))).length = n := hrel _ (by simp [hr])
    rw [numPos_gather _ p (by rw [hlen]; exact hp)]
    split
    · exact ⟨rfl, List.Forall₂.cons hperm List.Forall₂.nil⟩
    · obtain ⟨h1, h2⟩ := ih th' _ hlen
      exact ⟨h1, List.Forall₂.cons hperm h2⟩

/-! ### start labels have one entry per PSM -/

theorem colLabels_length (le : α → α → Bool) (thr : Rat) (targets : List Bool) (desc : Bool) (col : List α) :
    (colLabels le thr targets desc col).length = min col.length targets.length := tdcRelabel_length _ _ _ _

theorem numPos_pos_length {L : List Int} (h : 0 < numPos L) : 0 < L.length := by
  cases L with
  | nil => simp [numPos] at h
  | cons a l => simp

theorem getD_col_length (cols : List (List α)) (n : Nat) (hc : ∀ c ∈ cols, c.length = n) (j : Nat)
    (h : 0 < (cols.getD j []).length) : (cols.getD j []).length = n := by
  by_cases hj : j < cols.length
  · have : cols.getD j [] = cols[j] := by simp [List.getD, List.getElem?_eq_getElem hj]
    rw [this]
    exact hc _ (List.getElem_mem hj)
  · have : cols.getD j [] = [] := by simp [List.getD, List.getElem?_eq_none (by omega : cols.length ≤ j)]
    rw [this] at h
    simp at h

theorem labels_length_of_numPos (le : α → α → Bool) (thr : Rat) (targets : List Bool) (desc : Bool)
    (cols : List (List α)) (hc : ∀ c ∈ cols, c.length = targets.length) (j : Nat)
    (h : 0 < numPos (colLabels le thr targets desc (cols.getD j []))) :
    (colLabels le thr targets desc (cols.getD j [])).length = targets.length := by
  have h1 := numPos_pos_length h
  rw [colLabels_length] at h1 ⊢
  have h2 : 0 < (cols.getD j []).length := by omega
  rw [getD_col_length cols _ hc j h2]
  simp

theorem bestInDir_snd (le : α → α → Bool) (thr : Rat) (targets : List Bool) (cols : List (List α)) (desc : Bool)
    (h : 0 < (bestInDir le thr targets cols desc).2) :
    (bestInDir le thr targets cols desc).2
      = numPos (colLabels le thr targets desc (cols.getD (bestInDir le thr targets cols desc).1 [])) := by
  unfold bestInDir at h ⊢
  simp only at h ⊢
  generalize argmaxFirst (cols.map fun c => numPos (colLabels le thr targets desc c)) = i at h ⊢
  by_cases hi : i < cols.length
  · simp [List.getD, List.getElem?_eq_getElem hi]
  · have : (cols.map fun c => numPos (colLabels le thr targets desc c)).getD i 0 = 0 := by
      simp [List.getD, List.getElem?_eq_none (by omega : cols.length ≤ i)]
    omega

theorem startLabels_length (le : α → α → Bool) (thr : Rat) (targets : List Bool) (cols : List (List α))
    (direction : Option Nat) (hc : ∀ c ∈ cols, c.length = targets.length) (st : Start)
    (h : startLabels le thr targets cols direction = some st) : st.labels.length = targets.length := by
  unfold startLabels at h
  cases direction with
  | some j =>
    simp only [Option.map_some, Option.getD_some, dirStart] at h
    by_cases hge : numPos (colLabels le thr targets true (cols.getD j [])) ≥
        numPos (colLabels le thr targets false (cols.getD j []))
    · rw [if_pos hge] at h
      by_cases h0 : numPos (colLabels le thr targets true (cols.getD j [])) = 0
      · rw [if_pos h0] at h; simp at h
      · rw [if_neg h0] at h
        simp only [Option.some.injEq] at h
        subst h
        exact labels_length_of_numPos le thr targets true cols hc j (by omega)
    · rw [if_neg hge] at h
      by_cases h0 : numPos (colLabels le thr targets false (cols.getD j [])) = 0
      · rw [if_pos h0] at h; simp at h
      · rw [if_neg h0] at h
        simp only [Option.some.injEq] at h
        subst h
        exact labels_length_of_numPos le thr targets false cols hc j (by omega)
  | none =>
    simp only [Option.map_none, Option.getD_none, findBest] at h
    split at h
    · rename_i hgt
      simp only [Option.some.injEq] at h
      subst h
      simp only
      have hpos : 0 < (bestInDir le thr targets cols false).2 := by omega
      rw [bestInDir_snd le thr targets cols false hpos] at hpos
      exact labels_length_of_numPos le thr targets false cols hc _ hpos
    · split at h
      · rename_i hpos
        simp only [Option.some.injEq] at h
        subst h
        simp only
        have hpos' : 0 < (bestInDir le thr targets cols true).2 := hpos
        rw [bestInDir_snd le thr targets cols true hpos'] at hpos'
        exact labels_length_of_numPos le thr targets true cols hc _ hpos'
      · simp at h

end Mk.Fit
