import Mathlib.Data.Nat.Find
import Mathlib.Algebra.Order.Field.Rat
/-!
# Target-decoy competition on a fixed ranking: definitions

A strict ranking, best first, of `n` items is a list `ks : List Kind`; an item is either a
*true target* (always labelled target) or a *null* (labelled target or decoy by a fair coin).
An outcome `ω : List Bool` (one entry per null, in ranking order) fixes the labels; `lab ks ω`
is the labelled ranking.  For a prefix length `p`:

* `Tc L p` — targets among the first `p` items,
* `Dc L p` — decoys among the first `p` items,
* `Vc L p` — nulls labelled target among the first `p` items (the false discoveries).

`Pstop a L` is the largest `p ≤ n` with `Dc L p + 1 ≤ a * Tc L p` (0 if none) — the set accepted
at `q ≤ a` by the "+1" estimate `(decoys + 1) / targets` — and `FDP a L = Vc / Tc` there.
-/
namespace Mk.Tdc

inductive Kind where
  | trueTarget
  | null
  deriving DecidableEq, Repr

/-- number of null items of a ranking -/
def nulls (ks : List Kind) : Nat := ks.count Kind.null

/-- the labelled ranking: true targets are targets, the `j`-th null (best first) is a target
iff the `j`-th coin of `ω` is `true` (a missing coin reads `false`; never happens when
`ω.length = nulls ks`). -/
def lab : List Kind → List Bool → List (Kind × Bool)
  | [], _ => []
  | Kind.trueTarget :: ks, ω => (Kind.trueTarget, true) :: lab ks ω
  | Kind.null :: ks, ω => (Kind.null, ω.headD false) :: lab ks ω.tail

variable {κ : Type}

/-- labelled target -/
def isT (x : κ × Bool) : Bool := x.2
/-- labelled decoy -/
def isD (x : κ × Bool) : Bool := !x.2
/-- a null labelled target (a false discovery when accepted) -/
def isV (x : Kind × Bool) : Bool := x.1 == Kind.null && x.2

/-- targets among the first `p` items -/
def Tc (L : List (κ × Bool)) (p : Nat) : Nat := (L.take p).countP isT
/-- decoys among the first `p` items -/
def Dc (L : List (κ × Bool)) (p : Nat) : Nat := (L.take p).countP isD
/-- nulls labelled target among the first `p` items -/
def Vc (L : List (Kind × Bool)) (p : Nat) : Nat := (L.take p).countP isV

/-- the acceptance condition of a prefix: `(decoys + 1) ≤ a · targets` -/
def okAt (a : Rat) (L : List (κ × Bool)) (p : Nat) : Prop :=
  ((Dc L p + 1 : Nat) : Rat) ≤ a * ((Tc L p : Nat) : Rat)

instance (a : Rat) (L : List (κ × Bool)) : DecidablePred (okAt a L) := fun p => by
  unfold okAt; infer_instance

/-- the accepted prefix: the largest `p ≤ n` with `(D p + 1) ≤ a · T p`, 0 if there is none -/
def Pstop (a : Rat) (L : List (κ × Bool)) : Nat := Nat.findGreatest (okAt a L) L.length

/-- false discovery proportion of the accepted prefix (0 when nothing is accepted) -/
def FDP (a : Rat) (L : List (Kind × Bool)) : Rat :=
  if Pstop a L = 0 then 0 else ((Vc L (Pstop a L) : Nat) : Rat) / ((Tc L (Pstop a L) : Nat) : Rat)

/-- the comparison quantity `V / (1 + D)` of the accepted prefix (0 when nothing is accepted) -/
def MDP (a : Rat) (L : List (Kind × Bool)) : Rat :=
  if Pstop a L = 0 then 0 else ((Vc L (Pstop a L) : Nat) : Rat) / ((Dc L (Pstop a L) + 1 : Nat) : Rat)

/-- all `2^m` coin sequences of length `m` (explicit enumeration, used for tests and as the
bridge from the `Fintype` sum) -/
def allBools : Nat → List (List Bool)
  | 0 => [[]]
  | m + 1 => (allBools m).map (true :: ·) ++ (allBools m).map (false :: ·)

/-- all rankings of length `n` (tests only) -/
def allKinds : Nat → List (List Kind)
  | 0 => [[]]
  | n + 1 => (allKinds n).map (Kind.trueTarget :: ·) ++ (allKinds n).map (Kind.null :: ·)

/-- `Σ_ω FDP` over the explicit enumeration of the `2^m` outcomes (tests) -/
def sumFDP (a : Rat) (ks : List Kind) : Rat :=
  ((allBools (nulls ks)).map (fun ω => FDP a (lab ks ω))).sum

end Mk.Tdc
