import MokapotVerif.Model.QvaluesKey
import MokapotVerif.Lemmas.QvaluesArr
/-! Helper lemmas for the score-array preparation of `tdc` (`Model/QvaluesKey.lean`): the
ascending sort on the (possibly negated) key is the best-first sort of the direction, the
float32 cast is the identity on small integers, and the defining formula only looks at the
order of the scores that are present. -/
namespace Mk.Qv
open Mk
variable {α β : Type}

theorem leqQ_linear : LinearLe leqQ := by
  constructor
  · intro a b; simp [leqQ]; exact le_total _ _
  · intro a b c; simp [leqQ]; exact le_trans
  · intro a b; simp [leqQ]; exact le_antisymm

theorem leqZ_linear : LinearLe leqZ := by
  constructor
  · intro a b; simp [leqZ]; omega
  · intro a b c; simp [leqZ]; omega
  · intro a b; simp [leqZ]; omega

/-- ascending on `-scores` / `scores` is best-first for `desc` / `not desc` -/
theorem keyLe_eq_better (desc : Bool) : keyLe desc = better (dirLe leqQ desc) := by
  funext a b
  cases desc
  · simp [keyLe, better, dirLe, sortKey, leqQ]
  · simp [keyLe, better, dirLe, sortKey, leqQ]

theorem tdcKeyArr_eq_tdcArr (desc : Bool) (xs : List (Rat × Bool)) :
    tdcKeyArr desc xs = tdcArr leqQ desc xs := by
  unfold tdcKeyArr tdcArr
  rw [keyLe_eq_better]

theorem tdcKeyArr_eq_tdc (desc : Bool) (xs : List (Rat × Bool)) :
    tdcKeyArr desc xs = some (tdc (dirLe leqQ desc) xs) := by
  rw [tdcKeyArr_eq_tdcArr, tdcArr_eq_tdc leqQ leqQ_linear]

/-! ### the float32 cast -/

theorem roundNat24_small {m : Nat} (h : m < 2 ^ 24) : roundNat24 m = m := by
  unfold roundNat24
  rw [if_pos h]

theorem f32OfInt_small {x : Int} (h : x.natAbs < 2 ^ 24) : f32OfInt x = x := by
  unfold f32OfInt
  rw [roundNat24_small h]
  split <;> omega

theorem roundNat53_small {m : Nat} (h : m < 2 ^ 53) : roundNat53 m = m := by
  unfold roundNat53
  rw [if_pos h]

theorem f64OfInt_small {x : Int} (h : x.natAbs < 2 ^ 53) : f64OfInt x = x := by
  unfold f64OfInt
  rw [roundNat53_small h]
  omega

theorem prepScores_length (s : ScoreArr) : (prepScores s).length = s.len := by
  cases s <;> simp [prepScores, ScoreArr.len]

/-! ### the formula sees the order of the present scores only -/

/-- `f` preserves the order relation between any two scores of `xs` -/
def OrderEmbOn (le : α → α → Bool) (le' : β → β → Bool) (f : α → β) (xs : List (α × Bool)) : Prop :=
  ∀ a ∈ xs, ∀ b ∈ xs, le' (f a.1) (f b.1) = le a.1 b.1

theorem cntT_map_on (le : α → α → Bool) (le' : β → β → Bool) (f : α → β) (xs : List (α × Bool))
    (hf : OrderEmbOn le le' f xs) (t : α × Bool) (ht : t ∈ xs) :
    cntT le' (xs.map (fun x => (f x.1, x.2))) (f t.1) = cntT le xs t.1 := by
  unfold cntT
  rw [List.countP_map]
  apply List.countP_congr
  intro y hy
  simp only [Function.comp, hf t ht y hy]

theorem cntD_map_on (le : α → α → Bool) (le' : β → β → Bool) (f : α → β) (xs : List (α × Bool))
    (hf : OrderEmbOn le le' f xs) (t : α × Bool) (ht : t ∈ xs) :
    cntD le' (xs.map (fun x => (f x.1, x.2))) (f t.1) = cntD le xs t.1 := by
  unfold cntD
  rw [List.countP_map]
  apply List.countP_congr
  intro y hy
  simp only [Function.comp, hf t ht y hy]

theorem qSpec_map_on (le : α → α → Bool) (le' : β → β → Bool) (f : α → β) (xs : List (α × Bool))
    (hf : OrderEmbOn le le' f xs) (x : α × Bool) (hx : x ∈ xs) :
    qSpec le' (xs.map (fun x => (f x.1, x.2))) (f x.1) = qSpec le xs x.1 := by
  unfold qSpec
  rw [List.filter_map, List.map_map]
  have hfilt : xs.filter ((fun t : β × Bool => le' t.1 (f x.1)) ∘ fun x => (f x.1, x.2))
      = xs.filter (fun t => le t.1 x.1) := by
    apply List.filter_congr
    intro y hy
    simp only [Function.comp, hf y hy x hx]
  rw [hfilt]
  congr 1
  apply List.map_congr_left
  intro t ht
  have htx : t ∈ xs := (List.mem_filter.mp ht).1
  simp only [Function.comp, cntT_map_on le le' f xs hf t htx, cntD_map_on le le' f xs hf t htx]

end Mk.Qv
