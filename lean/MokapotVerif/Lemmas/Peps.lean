import MokapotVerif.Model.Peps
import Mathlib.Order.Lattice
import Mathlib.Algebra.Order.Field.Rat
import Mathlib.Algebra.Order.Field.Basic
import Mathlib.Tactic.Linarith
import Mathlib.Tactic.Ring
/-! Helper lemmas for C06: the primitives (running max/min, cumulative sum, clip,
`np.interp`). -/
namespace Mk.Peps

/-! ### clip -/

theorem clip_le (lo hi x : Rat) : clip lo hi x ≤ hi := min_le_right _ _

theorem le_clip (lo hi x : Rat) (h : lo ≤ hi) : lo ≤ clip lo hi x :=
  le_min (le_max_right _ _) h

theorem clip_mono (lo hi : Rat) {x y : Rat} (h : x ≤ y) : clip lo hi x ≤ clip lo hi y :=
  min_le_min (max_le_max h le_rfl) le_rfl

theorem clip_of_mem (lo hi x : Rat) (h1 : lo ≤ x) (h2 : x ≤ hi) : clip lo hi x = x := by
  unfold clip
  rw [max_eq_left h1, min_eq_left h2]

/-! ### running maximum / minimum -/

theorem runMaxFrom_length (m : Rat) (xs : List Rat) : (runMaxFrom m xs).length = xs.length := by
  induction xs generalizing m with
  | nil => rfl
  | cons x xs ih => simp [runMaxFrom, ih]

theorem runMax_length (xs : List Rat) : (runMax xs).length = xs.length := by
  cases xs with
  | nil => rfl
  | cons x xs => simp [runMax, runMaxFrom_length]

theorem runMaxFrom_ge (m : Rat) (xs : List Rat) : ∀ y ∈ runMaxFrom m xs, m ≤ y := by
  induction xs generalizing m with
  | nil => intro y hy; simp [runMaxFrom] at hy
  | cons x xs ih =>
    intro y hy
    simp only [runMaxFrom, List.mem_cons] at hy
    rcases hy with rfl | hy
    · exact le_max_left _ _
    · exact le_trans (le_max_left _ _) (ih _ y hy)

theorem runMaxFrom_pairwise (m : Rat) (xs : List Rat) : (runMaxFrom m xs).Pairwise (· ≤ ·) := by
  induction xs generalizing m with
  | nil => simp [runMaxFrom]
  | cons x xs ih =>
    simp only [runMaxFrom, List.pairwise_cons]
    exact ⟨runMaxFrom_ge _ xs, ih _⟩

theorem runMax_pairwise (xs : List Rat) : (runMax xs).Pairwise (· ≤ ·) := by
  cases xs with
  | nil => simp [runMax]
  | cons x xs =>
    simp only [runMax, List.pairwise_cons]
    exact ⟨runMaxFrom_ge _ xs, runMaxFrom_pairwise _ _⟩

/-- every running maximum is the start value or one of the elements -/
theorem runMaxFrom_mem (m : Rat) (xs : List Rat) : ∀ y ∈ runMaxFrom m xs, y = m ∨ y ∈ xs := by
  induction xs generalizing m with
  | nil => intro y hy; simp [runMaxFrom] at hy
  | cons x xs ih =>
    intro y hy
    simp only [runMaxFrom, List.mem_cons] at hy
    rcases hy with rfl | hy
    · rcases max_choice m x with h | h
      · left; exact h
      · right; rw [h]; exact List.mem_cons_self
    · rcases ih _ y hy with h | h
      · rcases max_choice m x with h' | h'
        · left; rw [h, h']
        · right; rw [h, h']; exact List.mem_cons_self
      · right; exact List.mem_cons_of_mem _ h

theorem runMax_mem (xs : List Rat) : ∀ y ∈ runMax xs, y ∈ xs := by
  cases xs with
  | nil => intro y hy; simp [runMax] at hy
  | cons x xs =>
    intro y hy
    simp only [runMax, List.mem_cons] at hy
    rcases hy with rfl | hy
    · exact List.mem_cons_self
    · rcases runMaxFrom_mem x xs y hy with h | h
      · rw [h]; exact List.mem_cons_self
      · exact List.mem_cons_of_mem _ h

/-- pointwise: the running maximum dominates the input and is the least
non-decreasing sequence doing so (index form) -/
theorem runMaxFrom_getElem_ge (m : Rat) (xs : List Rat) (i : Nat) (h : i < xs.length) :
    xs[i] ≤ (runMaxFrom m xs)[i]'(by rw [runMaxFrom_length]; exact h) := by
  induction xs generalizing m i with
  | nil => simp at h
  | cons x xs ih =>
    cases i with
    | zero => simp only [runMaxFrom, List.getElem_cons_zero]; exact le_max_right _ _
    | succ i => simp only [runMaxFrom, List.getElem_cons_succ]; exact ih _ i (by simpa using h)

theorem runMax_getElem_ge (xs : List Rat) (i : Nat) (h : i < xs.length) :
    xs[i] ≤ (runMax xs)[i]'(by rw [runMax_length]; exact h) := by
  cases xs with
  | nil => simp at h
  | cons x xs =>
    cases i with
    | zero => simp [runMax]
    | succ i =>
      simp only [runMax, List.getElem_cons_succ]
      exact runMaxFrom_getElem_ge x xs i (by simpa using h)

theorem runMaxFrom_least (m : Rat) (xs ys : List Rat) (hlen : ys.length = xs.length)
    (hys : ys.Pairwise (· ≤ ·)) (hm : ∀ y ∈ ys, m ≤ y)
    (hdom : ∀ (i : Nat) (h : i < xs.length), xs[i] ≤ ys[i]'(by rw [hlen]; exact h)) :
    ∀ (i : Nat) (h : i < xs.length),
      (runMaxFrom m xs)[i]'(by rw [runMaxFrom_length]; exact h) ≤ ys[i]'(by rw [hlen]; exact h) := by
  induction xs generalizing m ys with
  | nil => intro i h; simp at h
  | cons x xs ih =>
    cases ys with
    | nil => simp at hlen
    | cons y ys =>
      have hxy : x ≤ y := by
        have h0 := hdom 0 (by simp)
        simp only [List.getElem_cons_zero] at h0
        exact h0
      have hmy : m ≤ y := hm y List.mem_cons_self
      rw [List.pairwise_cons] at hys
      intro i h
      cases i with
      | zero => simp only [runMaxFrom, List.getElem_cons_zero]; exact max_le hmy hxy
      | succ i =>
        simp only [runMaxFrom, List.getElem_cons_succ]
        refine ih (max m x) ys (by simpa using hlen) hys.2 ?_ ?_ i (by simpa using h)
        · intro z hz; exact le_trans (max_le hmy hxy) (hys.1 z hz)
        · intro j hj
          have h1 := hdom (j + 1) (by simpa using hj)
          simp only [List.getElem_cons_succ] at h1
          exact h1

theorem runMax_least (xs ys : List Rat) (hlen : ys.length = xs.length)
    (hys : ys.Pairwise (· ≤ ·))
    (hdom : ∀ (i : Nat) (h : i < xs.length), xs[i] ≤ ys[i]'(by rw [hlen]; exact h)) :
    ∀ (i : Nat) (h : i < xs.length),
      (runMax xs)[i]'(by rw [runMax_length]; exact h) ≤ ys[i]'(by rw [hlen]; exact h) := by
  cases xs with
  | nil => intro i h; simp at h
  | cons x xs =>
    cases ys with
    | nil => simp at hlen
    | cons y ys =>
      have hxy : x ≤ y := by
        have h0 := hdom 0 (by simp)
        simp only [List.getElem_cons_zero] at h0
        exact h0
      rw [List.pairwise_cons] at hys
      intro i h
      cases i with
      | zero => simpa [runMax] using hxy
      | succ i =>
        simp only [runMax, List.getElem_cons_succ]
        refine runMaxFrom_least x xs ys (by simpa using hlen) hys.2 ?_ ?_ i (by simpa using h)
        · intro z hz; exact le_trans hxy (hys.1 z hz)
        · intro j hj
          have h1 := hdom (j + 1) (by simpa using hj)
          simp only [List.getElem_cons_succ] at h1
          exact h1

theorem runMinFrom_length (m : Rat) (xs : List Rat) : (runMinFrom m xs).length = xs.length := by
  induction xs generalizing m with
  | nil => rfl
  | cons x xs ih => simp [runMinFrom, ih]

theorem runMin_length (xs : List Rat) : (runMin xs).length = xs.length := by
  cases xs with
  | nil => rfl
  | cons x xs => simp [runMin, runMinFrom_length]

theorem runMinFrom_le (m : Rat) (xs : List Rat) : ∀ y ∈ runMinFrom m xs, y ≤ m := by
  induction xs generalizing m with
  | nil => intro y hy; simp [runMinFrom] at hy
  | cons x xs ih =>
    intro y hy
    simp only [runMinFrom, List.mem_cons] at hy
    rcases hy with rfl | hy
    · exact min_le_left _ _
    · exact le_trans (ih _ y hy) (min_le_left _ _)

theorem runMinFrom_pairwise (m : Rat) (xs : List Rat) : (runMinFrom m xs).Pairwise (· ≥ ·) := by
  induction xs generalizing m with
  | nil => simp [runMinFrom]
  | cons x xs ih =>
    simp only [runMinFrom, List.pairwise_cons]
    exact ⟨runMinFrom_le _ xs, ih _⟩

theorem runMin_pairwise (xs : List Rat) : (runMin xs).Pairwise (· ≥ ·) := by
  cases xs with
  | nil => simp [runMin]
  | cons x xs =>
    simp only [runMin, List.pairwise_cons]
    exact ⟨runMinFrom_le _ xs, runMinFrom_pairwise _ _⟩

/-! ### cumulative sum -/

theorem cumsumFrom_length (acc : Rat) (xs : List Rat) : (cumsumFrom acc xs).length = xs.length := by
  induction xs generalizing acc with
  | nil => rfl
  | cons x xs ih => simp [cumsumFrom, ih]

theorem cumsum_length (xs : List Rat) : (cumsum xs).length = xs.length := cumsumFrom_length 0 xs

theorem cumsumFrom_ge (acc : Rat) (xs : List Rat) (h : ∀ x ∈ xs, 0 ≤ x) :
    ∀ y ∈ cumsumFrom acc xs, acc ≤ y := by
  induction xs generalizing acc with
  | nil => intro y hy; simp [cumsumFrom] at hy
  | cons x xs ih =>
    intro y hy
    have hx : 0 ≤ x := h x List.mem_cons_self
    simp only [cumsumFrom, List.mem_cons] at hy
    rcases hy with rfl | hy
    · linarith
    · have := ih (acc + x) (fun z hz => h z (List.mem_cons_of_mem _ hz)) y hy
      linarith

theorem cumsumFrom_pairwise (acc : Rat) (xs : List Rat) (h : ∀ x ∈ xs, 0 ≤ x) :
    (cumsumFrom acc xs).Pairwise (· ≤ ·) := by
  induction xs generalizing acc with
  | nil => simp [cumsumFrom]
  | cons x xs ih =>
    have h' : ∀ z ∈ xs, 0 ≤ z := fun z hz => h z (List.mem_cons_of_mem _ hz)
    simp only [cumsumFrom, List.pairwise_cons]
    exact ⟨cumsumFrom_ge _ xs h', ih _ h'⟩

/-- the defining formula of `cumsum`: entry `i` is the sum of the first `i+1` inputs -/
theorem cumsumFrom_getElem (acc : Rat) (xs : List Rat) (i : Nat) (h : i < xs.length) :
    (cumsumFrom acc xs)[i]'(by rw [cumsumFrom_length]; exact h) = acc + (xs.take (i + 1)).sum := by
  induction xs generalizing acc i with
  | nil => simp at h
  | cons x xs ih =>
    cases i with
    | zero => simp [cumsumFrom]
    | succ i =>
      simp only [cumsumFrom, List.getElem_cons_succ, List.take_succ_cons, List.sum_cons]
      rw [ih (acc + x) i (by simpa using h)]
      ring

/-! ### interpolation -/

theorem lerp_eq (x0 y0 x1 y1 x : Rat) :
    lerp x0 y0 x1 y1 x = (1 - (x - x0) / (x1 - x0)) * y0 + (x - x0) / (x1 - x0) * y1 := by
  unfold lerp
  ring

theorem lerp_t_bounds {x0 x1 x : Rat} (h0 : x0 ≤ x) (h1 : x < x1) :
    0 ≤ (x - x0) / (x1 - x0) ∧ (x - x0) / (x1 - x0) ≤ 1 := by
  have hpos : 0 < x1 - x0 := by linarith
  constructor
  · exact div_nonneg (by linarith) hpos.le
  · rw [div_le_one hpos]; linarith

theorem lerp_le {x0 y0 x1 y1 x hi : Rat} (h0 : x0 ≤ x) (h1 : x < x1) (hy0 : y0 ≤ hi) (hy1 : y1 ≤ hi) :
    lerp x0 y0 x1 y1 x ≤ hi := by
  rw [lerp_eq]
  obtain ⟨ht0, ht1⟩ := lerp_t_bounds h0 h1
  have a := mul_le_mul_of_nonneg_left hy0 (by linarith : 0 ≤ 1 - (x - x0) / (x1 - x0))
  have b := mul_le_mul_of_nonneg_left hy1 ht0
  linarith

theorem le_lerp {x0 y0 x1 y1 x lo : Rat} (h0 : x0 ≤ x) (h1 : x < x1) (hy0 : lo ≤ y0) (hy1 : lo ≤ y1) :
    lo ≤ lerp x0 y0 x1 y1 x := by
  rw [lerp_eq]
  obtain ⟨ht0, ht1⟩ := lerp_t_bounds h0 h1
  have a := mul_le_mul_of_nonneg_left hy0 (by linarith : 0 ≤ 1 - (x - x0) / (x1 - x0))
  have b := mul_le_mul_of_nonneg_left hy1 ht0
  linarith

theorem interpGo_le (hi x : Rat) : ∀ (rest : List (Rat × Rat)) (x0 y0 : Rat), x0 ≤ x → y0 ≤ hi →
    (∀ k ∈ rest, k.2 ≤ hi) → interpGo x x0 y0 rest ≤ hi := by
  intro rest
  induction rest with
  | nil => intro x0 y0 _ hy _; simpa [interpGo] using hy
  | cons k r ih =>
    obtain ⟨x1, y1⟩ := k
    intro x0 y0 h0 hy hall
    have hy1 : y1 ≤ hi := hall (x1, y1) List.mem_cons_self
    simp only [interpGo]
    split
    · rename_i h1
      exact ih x1 y1 h1 hy1 (fun k hk => hall k (List.mem_cons_of_mem _ hk))
    · rename_i h1
      split
      · exact hy
      · exact lerp_le h0 (not_le.mp h1) hy hy1

theorem interpGo_ge (lo x : Rat) : ∀ (rest : List (Rat × Rat)) (x0 y0 : Rat), x0 ≤ x → lo ≤ y0 →
    (∀ k ∈ rest, lo ≤ k.2) → lo ≤ interpGo x x0 y0 rest := by
  intro rest
  induction rest with
  | nil => intro x0 y0 _ hy _; simpa [interpGo] using hy
  | cons k r ih =>
    obtain ⟨x1, y1⟩ := k
    intro x0 y0 h0 hy hall
    have hy1 : lo ≤ y1 := hall (x1, y1) List.mem_cons_self
    simp only [interpGo]
    split
    · rename_i h1
      exact ih x1 y1 h1 hy1 (fun k hk => hall k (List.mem_cons_of_mem _ hk))
    · rename_i h1
      split
      · exact hy
      · exact le_lerp h0 (not_le.mp h1) hy hy1

/-- values non-increasing along the knot list -/
def AntiKnots (ks : List (Rat × Rat)) : Prop := ks.Pairwise (fun a b => b.2 ≤ a.2)

theorem interpGo_anti {x x' : Rat} (hxx : x ≤ x') : ∀ (rest : List (Rat × Rat)) (x0 y0 : Rat), x0 ≤ x →
    AntiKnots ((x0, y0) :: rest) → interpGo x' x0 y0 rest ≤ interpGo x x0 y0 rest := by
  intro rest
  induction rest with
  | nil => intro x0 y0 _ _; simp [interpGo]
  | cons k r ih =>
    obtain ⟨x1, y1⟩ := k
    intro x0 y0 h0 hanti
    unfold AntiKnots at hanti
    rw [List.pairwise_cons] at hanti
    obtain ⟨hhead, htail⟩ := hanti
    have hy10 : y1 ≤ y0 := hhead (x1, y1) List.mem_cons_self
    have htail' := htail
    rw [List.pairwise_cons] at htail'
    have hr1 : ∀ k ∈ r, k.2 ≤ y1 := fun k hk => htail'.1 k hk
    simp only [interpGo]
    by_cases h1 : x1 ≤ x
    · have h1' : x1 ≤ x' := le_trans h1 hxx
      rw [if_pos h1, if_pos h1']
      exact ih x1 y1 h1 htail
    · rw [if_neg h1]
      have hx1 : x < x1 := not_le.mp h1
      by_cases h1' : x1 ≤ x'
      · rw [if_pos h1']
        have hL : interpGo x' x1 y1 r ≤ y1 := interpGo_le y1 x' r x1 y1 h1' le_rfl hr1
        split
        · exact le_trans hL hy10
        · exact le_trans hL (le_lerp h0 hx1 hy10 le_rfl)
      · rw [if_neg h1']
        have hx1' : x' < x1 := not_le.mp h1'
        by_cases e : x0 = x
        · rw [if_pos e]
          split
          · exact le_rfl
          · exact lerp_le (le_trans h0 hxx) hx1' le_rfl hy10
        · rw [if_neg e]
          have hlt : x0 < x := lt_of_le_of_ne h0 e
          have e' : ¬ x0 = x' := by intro h; rw [h] at hlt; exact absurd hxx (not_le.mpr hlt)
          rw [if_neg e']
          unfold lerp
          have hslope : (y1 - y0) / (x1 - x0) ≤ 0 :=
            div_nonpos_of_nonpos_of_nonneg (by linarith) (by linarith)
          have := mul_le_mul_of_nonpos_left (by linarith : x - x0 ≤ x' - x0) hslope
          linarith

theorem interp_anti (ks : List (Rat × Rat)) (hanti : AntiKnots ks) {x x' : Rat} (hxx : x ≤ x') :
    interp ks x' ≤ interp ks x := by
  cases ks with
  | nil => simp [interp]
  | cons k rest =>
    obtain ⟨x0, y0⟩ := k
    have hall : ∀ k ∈ rest, k.2 ≤ y0 := by
      unfold AntiKnots at hanti
      rw [List.pairwise_cons] at hanti
      exact fun k hk => hanti.1 k hk
    simp only [interp]
    by_cases h : x < x0
    · rw [if_pos h]
      by_cases h' : x' < x0
      · rw [if_pos h']
      · rw [if_neg h']
        exact interpGo_le y0 x' rest x0 y0 (not_lt.mp h') le_rfl hall
    · rw [if_neg h]
      have h' : ¬ x' < x0 := not_lt.mpr (le_trans (not_lt.mp h) hxx)
      rw [if_neg h']
      exact interpGo_anti hxx rest x0 y0 (not_lt.mp h) hanti

theorem interp_le (ks : List (Rat × Rat)) (hne : ks ≠ []) (hi x : Rat) (hall : ∀ k ∈ ks, k.2 ≤ hi) :
    interp ks x ≤ hi := by
  cases ks with
  | nil => exact absurd rfl hne
  | cons k rest =>
    obtain ⟨x0, y0⟩ := k
    have hy0 : y0 ≤ hi := hall (x0, y0) List.mem_cons_self
    simp only [interp]
    split
    · exact hy0
    · rename_i h
      exact interpGo_le hi x rest x0 y0 (not_lt.mp h) hy0 (fun k hk => hall k (List.mem_cons_of_mem _ hk))

theorem interp_ge (ks : List (Rat × Rat)) (hne : ks ≠ []) (lo x : Rat) (hall : ∀ k ∈ ks, lo ≤ k.2) :
    lo ≤ interp ks x := by
  cases ks with
  | nil => exact absurd rfl hne
  | cons k rest =>
    obtain ⟨x0, y0⟩ := k
    have hy0 : lo ≤ y0 := hall (x0, y0) List.mem_cons_self
    simp only [interp]
    split
    · exact hy0
    · rename_i h
      exact interpGo_ge lo x rest x0 y0 (not_lt.mp h) hy0 (fun k hk => hall k (List.mem_cons_of_mem _ hk))

theorem interp_nonneg (ks : List (Rat × Rat)) (x : Rat) (hall : ∀ k ∈ ks, 0 ≤ k.2) : 0 ≤ interp ks x := by
  cases ks with
  | nil => simp [interp]
  | cons k rest => exact interp_ge (k :: rest) (by simp) 0 x hall


/-- the scan skips every knot at or left of `x` -/
theorem interpGo_skip (x : Rat) : ∀ (pre : List (Rat × Rat)) (a b x0 y0 : Rat) (post : List (Rat × Rat)),
    (∀ k ∈ pre, k.1 ≤ x) → x0 ≤ x →
    interpGo x a b (pre ++ (x0, y0) :: post) = interpGo x x0 y0 post := by
  intro pre
  induction pre with
  | nil => intro a b x0 y0 post _ h0; simp [interpGo, h0]
  | cons k r ih =>
    obtain ⟨x1, y1⟩ := k
    intro a b x0 y0 post hpre h0
    have h1 : x1 ≤ x := hpre (x1, y1) List.mem_cons_self
    simp only [List.cons_append, interpGo, if_pos h1]
    exact ih x1 y1 x0 y0 post (fun k hk => hpre k (List.mem_cons_of_mem _ hk)) h0

theorem interp_skip (x : Rat) (pre : List (Rat × Rat)) (x0 y0 : Rat) (post : List (Rat × Rat))
    (hpre : ∀ k ∈ pre, k.1 ≤ x) (h0 : x0 ≤ x) :
    interp (pre ++ (x0, y0) :: post) x = interpGo x x0 y0 post := by
  cases pre with
  | nil => simp [interp, not_lt.mpr h0]
  | cons k r =>
    obtain ⟨a, b⟩ := k
    have ha : a ≤ x := hpre (a, b) List.mem_cons_self
    simp only [List.cons_append, interp, if_neg (not_lt.mpr ha)]
    exact interpGo_skip x r a b x0 y0 post (fun k hk => hpre k (List.mem_cons_of_mem _ hk)) h0

/-! ### zip / reverse plumbing -/

theorem pairwise_zip_snd {β γ : Type} (R : γ → γ → Prop) : ∀ (l1 : List β) (l2 : List γ),
    l2.Pairwise R → (l1.zip l2).Pairwise (fun a b => R a.2 b.2) := by
  intro l1
  induction l1 with
  | nil => intro l2 _; simp
  | cons a t ih =>
    intro l2 h
    cases l2 with
    | nil => simp
    | cons b t2 =>
      rw [List.pairwise_cons] at h
      simp only [List.zip_cons_cons, List.pairwise_cons]
      refine ⟨?_, ih t2 h.2⟩
      intro p hp
      exact h.1 p.2 (List.of_mem_zip hp).2

theorem mem_zip_snd {β γ : Type} {l1 : List β} {l2 : List γ} {p : β × γ} (h : p ∈ l1.zip l2) : p.2 ∈ l2 :=
  (List.of_mem_zip h).2

/-- knots built as `xs.zip ys.reverse` from a non-decreasing `ys` are `AntiKnots` -/
theorem antiKnots_zip_reverse (xs ys : List Rat) (h : ys.Pairwise (· ≤ ·)) :
    AntiKnots (xs.zip ys.reverse) := by
  unfold AntiKnots
  apply pairwise_zip_snd (fun a b => b ≤ a)
  rw [List.pairwise_reverse]
  exact h

end Mk.Peps
