import MokapotVerif.Lemmas.PinTsvValid
/-!
# The converted document is again a well-formed PIN document (idempotence)
-/
namespace Mk

/-- the row of the converted document -/
def PinRow.converted (sepP : Str) (r : PinRow) : PinRow :=
  { padL := [], pre := r.pre, prots := [joinWith sepP r.prots], post := r.post, padR := [] }

theorem converted_rows (sepP : Str) (d : PinDoc) :
    (d.converted sepP).rows = d.rows.map (PinRow.converted sepP) := rfl

theorem PinRow.converted_fields (sepP : Str) (r : PinRow) : (r.converted sepP).fields = r.tsvFields sepP := rfl

theorem PinRow.converted_line (sepC : Char) (sepP : Str) (r : PinRow) :
    (r.converted sepP).line sepC = r.tsvLine sepC sepP := by
  simp only [PinRow.line, PinRow.tsvLine, PinRow.converted, List.nil_append, List.append_nil]
  rfl

theorem PinRow.converted_tsvFields (sepP : Str) (r : PinRow) :
    (r.converted sepP).tsvFields sepP = r.tsvFields sepP := by
  simp [PinRow.tsvFields, PinRow.converted, joinWith]

/-- the fields of a converted row hold neither the column separator nor a newline -/
theorem RowWF.tsvFields_ok {sepC : Char} {idx nCol : Nat} {r : PinRow} (h : RowWF sepC idx nCol r)
    (sepP : Str) (hp : sepPOk sepC sepP = true) : ∀ f ∈ r.tsvFields sepP, sepC ∉ f ∧ '\n' ∉ f := by
  have hp' := (fieldOk_iff sepC sepP).mp hp
  · intro f hf
    unfold PinRow.tsvFields at hf
    simp only [List.mem_append, List.mem_singleton] at hf
    rcases hf with (hf | hf) | hf
    · exact h.fields f (by simp [PinRow.fields, hf])
    · subst hf
      constructor
      · intro hm
        rcases mem_joinWith _ _ _ hm with h' | ⟨g, hg, hc⟩
        · exact hp'.1 h'
        · exact (h.fields g (by simp [PinRow.fields, hg])).1 hc
      · intro hm
        rcases mem_joinWith _ _ _ hm with h' | ⟨g, hg, hc⟩
        · exact hp'.2 h'
        · exact (h.fields g (by simp [PinRow.fields, hg])).2 hc
    · exact h.fields f (by simp [PinRow.fields, hf])

/-- the converted row is a well-formed PIN row again, provided it does not end with a carriage return -/
theorem RowWF.converted {sepC : Char} {idx nCol : Nat} {r : PinRow} (h : RowWF sepC idx nCol r)
    (sepP : Str) (hp : sepPOk sepC sepP = true) (he : edgeOk (r.tsvFields sepP) = true) :
    RowWF sepC idx nCol (r.converted sepP) := by
  refine ⟨rfl, rfl, h.pre, by simp [PinRow.converted], h.post, ?_, ?_⟩
  · rw [PinRow.converted_fields]; exact h.tsvFields_ok sepP hp
  · rw [PinRow.converted_fields]; exact he

/-- the output of the conversion is the PIN text of the converted document -/
theorem renderPin_converted (sepC : Char) (sepP : Str) (d : PinDoc) :
    renderPin sepC (d.converted sepP) = renderTsv sepC sepP d := by
  unfold renderPin renderTsv renderTable specTable PinDoc.lines PinDoc.headerLine
  rw [converted_rows]
  simp only [PinDoc.converted, List.nil_append, List.append_nil, Option.toList_none, List.map_map,
    List.map_cons]
  congr 2
  apply List.map_congr_left
  intro r _
  simp only [Function.comp, PinRow.converted_line]
  rfl

theorem renderTsv_converted (sepC : Char) (sepP : Str) (d : PinDoc) :
    renderTsv sepC sepP (d.converted sepP) = renderTsv sepC sepP d := by
  unfold renderTsv specTable
  rw [converted_rows, List.map_map]
  have : (PinRow.tsvFields sepP ∘ PinRow.converted sepP) = PinRow.tsvFields sepP := by
    funext r; exact PinRow.converted_tsvFields sepP r
  rw [this]
  rfl

theorem firstTsvRowOk_iff (sepC : Char) (sepP : Str) (d : PinDoc) :
    firstTsvRowOk sepC sepP d = true ↔ ∃ r rs, d.rows = r :: rs ∧ isDD (r.tsvLine sepC sepP) = false := by
  unfold firstTsvRowOk
  cases d.rows with
  | nil => simp
  | cons r rs => simp

theorem DocWF.converted {sepC : Char} {d : PinDoc} (h : DocWF sepC d) (sepP : Str)
    (hp : sepPOk sepC sepP = true) (hf : firstTsvRowOk sepC sepP d = true)
    (he : tsvEdgeOk sepP d = true) :
    DocWF sepC (d.converted sepP) := by
  obtain ⟨r, rs, hr, hdd⟩ := (firstTsvRowOk_iff sepC sepP d).mp hf
  have he' : ∀ r ∈ d.rows, edgeOk (r.tsvFields sepP) = true := by
    simpa [tsvEdgeOk, List.all_eq_true] using he
  refine ⟨h.sep, rfl, rfl, h.cols, h.edge, h.proteins, ?_, ?_, ?_, ?_, h.sepCR, Or.inl rfl⟩
  · intro x hx; simp [PinDoc.converted] at hx
  · intro r' hr'
    rw [converted_rows] at hr'
    obtain ⟨r0, hr0, rfl⟩ := List.mem_map.mp hr'
    exact (h.rows r0 hr0).converted sepP hp (he' r0 hr0)
  · right; rw [converted_rows, hr]; simp
  · right
    refine ⟨r.converted sepP, rs.map (PinRow.converted sepP), ?_, ?_⟩
    · rw [converted_rows, hr]; rfl
    · rw [PinRow.converted_fields]; exact hdd

theorem DocWF.tableOk {sepC : Char} {d : PinDoc} (h : DocWF sepC d) (sepP : Str)
    (hp : sepPOk sepC sepP = true) : TableOk sepC (specTable sepP d) := by
  intro row hrow
  unfold specTable at hrow
  simp only [List.mem_cons, List.mem_map] at hrow
  rcases hrow with rfl | ⟨r, hr, rfl⟩
  · exact ⟨h.cols_ne_nil, h.cols⟩
  · exact ⟨by simp [PinRow.tsvFields], (h.rows r hr).tsvFields_ok sepP hp⟩

theorem RowWF.tsvFields_length {sepC : Char} {idx nCol : Nat} {r : PinRow} (h : RowWF sepC idx nCol r)
    (sepP : Str) : (r.tsvFields sepP).length = nCol := by
  have := h.pre; have := h.post
  simp [PinRow.tsvFields]; omega

/-- the output is recognised as a valid TSV -/
theorem DocWF.output_valid {sepC : Char} {d : PinDoc} (h : DocWF sepC d) (sepP : Str)
    (hp : sepPOk sepC sepP = true) (hf : firstTsvRowOk sepC sepP d = true) :
    isValid sepC (renderTsv sepC sepP d) = .ok true := by
  obtain ⟨r, rs, hr, hdd⟩ := (firstTsvRowOk_iff sepC sepP d).mp hf
  have ht := h.tableOk sepP hp
  unfold renderTsv
  have e : specTable sepP d = d.cols :: r.tsvFields sepP :: rs.map (PinRow.tsvFields sepP) := by
    unfold specTable; rw [hr]; rfl
  rw [e] at ht ⊢
  apply isValid_renderTable h.sep _ _ _ ht
  · intro row hrow
    have : row ∈ d.rows.map (PinRow.tsvFields sepP) := by rw [hr]; exact hrow
    obtain ⟨r0, hr0, rfl⟩ := List.mem_map.mp this
    exact (h.rows r0 hr0).tsvFields_length sepP
  · exact hdd

end Mk
