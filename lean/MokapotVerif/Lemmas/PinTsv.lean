import MokapotVerif.Lemmas.PinTsvText
/-!
# Lemmas for the PIN → TSV conversion: slicing, rows, the whole document
-/
namespace Mk

/-! ## slicing -/

theorem pyIdx_natCast (n m : Nat) : pyIdx n (m : Int) = min m n := by
  unfold pyIdx
  have : ¬ ((m : Int) < 0) := by omega
  rw [if_neg this]; simp

/-- the surplus fields after the protein column are folded into it -/
theorem convertFields_spec (sepP : Str) (pre prots post : List Str) (hne : prots ≠ []) :
    convertFields sepP (pre ++ prots ++ post) pre.length (pre.length + 1 + post.length)
      = pre ++ [joinWith sepP prots] ++ post := by
  have hk : 1 ≤ prots.length := by
    cases prots with
    | nil => exact absurd rfl hne
    | cons _ _ => simp
  have e : ((pre.length : Int) + (((pre ++ prots ++ post).length : Int)
      - ((pre.length + 1 + post.length : Nat) : Int)) + 1) = ((pre.length + prots.length : Nat) : Int) := by
    simp only [List.length_append]; omega
  unfold convertFields pySlice pyUpTo pyFrom
  simp only [e, pyIdx_natCast]
  have h1 : min pre.length (pre ++ prots ++ post).length = pre.length := by
    simp only [List.length_append]; omega
  have h2 : min (pre.length + prots.length) (pre ++ prots ++ post).length = pre.length + prots.length := by
    simp only [List.length_append]; omega
  rw [h1, h2]
  have t1 : List.take (pre.length + prots.length) (pre ++ prots ++ post) = pre ++ prots :=
    List.take_left' (by simp)
  have t2 : List.drop pre.length (pre ++ prots) = prots := List.drop_left' rfl
  have t3 : List.take pre.length (pre ++ prots ++ post) = pre := by
    rw [List.append_assoc]; exact List.take_left' rfl
  have t4 : List.drop (pre.length + prots.length) (pre ++ prots ++ post) = post :=
    List.drop_left' (by simp)
  rw [t1, t2, t3, t4]

/-! ## joined lines -/

theorem joinWith_append_singleton (sep : Str) (init : List Str) (g : Str) (h : init ≠ []) :
    joinWith sep (init ++ [g]) = joinWith sep init ++ sep ++ g := by
  induction init with
  | nil => exact absurd rfl h
  | cons x r ih =>
    cases r with
    | nil => simp [joinWith]
    | cons y r =>
      have := ih (by simp)
      simp only [List.cons_append] at this ⊢
      rw [joinWith_cons_cons, this, joinWith_cons_cons]
      simp [List.append_assoc]

theorem mem_joinWith (sep : Str) (fs : List Str) (c : Char) (h : c ∈ joinWith sep fs) :
    c ∈ sep ∨ ∃ f ∈ fs, c ∈ f := by
  induction fs with
  | nil => simp [joinWith] at h
  | cons x r ih =>
    cases r with
    | nil => exact Or.inr ⟨x, by simp, by simpa [joinWith] using h⟩
    | cons y r =>
      rw [joinWith_cons_cons] at h
      simp only [List.mem_append] at h
      rcases h with (h | h) | h
      · exact Or.inr ⟨x, by simp, h⟩
      · exact Or.inl h
      · rcases ih h with h' | ⟨f, hf, hc⟩
        · exact Or.inl h'
        · exact Or.inr ⟨f, by simp [hf], hc⟩

theorem isEol_false_iff (c : Char) : isEol c = false ↔ c ≠ '\r' ∧ c ≠ '\n' := by
  simp [isEol]

theorem padOk_iff (p : Str) : padOk p = true ↔ (∀ c ∈ p, isEol c = true) ∧ '\n' ∉ p := by
  simp only [padOk, List.all_eq_true, beq_iff_eq]
  constructor
  · intro h
    refine ⟨fun c hc => by rw [h c hc]; decide, fun hm => ?_⟩
    have := h _ hm
    revert this; decide
  · rintro ⟨h1, h2⟩ c hc
    have := h1 c hc
    simp only [isEol, Bool.or_eq_true, beq_iff_eq] at this
    rcases this with e | e
    · exact e
    · subst e; exact absurd hc h2

theorem edgeOk_elim (fs : List Str) (h : edgeOk fs = true) :
    ∃ init g, fs = init ++ [g] ∧ g.getLast? ≠ some '\r' := by
  rcases List.eq_nil_or_concat fs with e | ⟨init, g, e⟩
  · subst e; simp [edgeOk] at h
  · rw [List.concat_eq_append] at e
    subst e
    refine ⟨init, g, rfl, ?_⟩
    simpa [edgeOk] using h

theorem edgeOk_append_singleton (init : List Str) (g : Str) :
    edgeOk (init ++ [g]) = true ↔ g.getLast? ≠ some '\r' := by
  simp [edgeOk]

theorem last_not_eol (g : Str) (c : Char) (h : g.getLast? = some c) (hg : g.getLast? ≠ some '\r')
    (hn : '\n' ∉ g) : isEol c = false := by
  rw [isEol_false_iff]
  constructor
  · intro e; subst e; exact hg h
  · intro e; subst e; exact hn (List.mem_of_getLast? h)

/-- the text of a line whose last field does not end with a carriage return does not end with a line
terminator character — also when that last field is empty (the line then ends with the separator) -/
theorem joined_last_not_eol (sepC : Char) (fs : List Str) (hs : isEol sepC = false)
    (hf : ∀ f ∈ fs, '\n' ∉ f) (he : edgeOk fs = true) :
    ∀ c, (joinWith [sepC] fs).getLast? = some c → isEol c = false := by
  obtain ⟨init, g, rfl, hg⟩ := edgeOk_elim fs he
  intro c hc
  have hgn : '\n' ∉ g := hf g (by simp)
  by_cases hi : init = []
  · subst hi
    simp only [List.nil_append, joinWith] at hc
    exact last_not_eol g c hc hg hgn
  · rw [joinWith_append_singleton _ init g hi, List.getLast?_append] at hc
    cases hgl : g.getLast? with
    | none =>
      rw [hgl] at hc
      simp at hc
      subst hc; exact hs
    | some x =>
      rw [hgl] at hc
      simp at hc
      subst hc; exact last_not_eol g x hgl hg hgn

/-- `rstrip("\r\n")` of a joined line followed by carriage returns gives the joined line -/
theorem chomp_padded_line (sepC : Char) (b : Str) (fs : List Str) (hs : isEol sepC = false)
    (hb : padOk b = true) (hf : ∀ f ∈ fs, '\n' ∉ f) (he : edgeOk fs = true) :
    chomp (joinWith [sepC] fs ++ b) = joinWith [sepC] fs :=
  chomp_pad _ b ((padOk_iff b).mp hb).1 (joined_last_not_eol sepC fs hs hf he)

theorem chomp_joined_line (sepC : Char) (fs : List Str) (hs : isEol sepC = false)
    (hf : ∀ f ∈ fs, '\n' ∉ f) (he : edgeOk fs = true) :
    chomp (joinWith [sepC] fs) = joinWith [sepC] fs := by
  have := chomp_padded_line sepC [] fs hs (by decide) hf he
  simpa using this

end Mk
