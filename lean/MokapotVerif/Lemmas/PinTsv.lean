import MokapotVerif.Lemmas.PinTsvText
/-!
# Lemmas for the PIN → TSV conversion: slicing, rows, the whole document
-/
namespace Mk

/-! ## slicing -/

theorem pyIdx_natCast (n m : Nat) : pyIdx n (m : Int) = min m n := by
  unfold pyIdx
  have : ¬ ((m : Int) < 0) := by omega
  rw [if_neg this]; simp

/-- the surplus fields after the protein column are folded into it -/
theorem convertFields_spec (sepP : Str) (pre prots post : List Str) (hne : prots ≠ []) :
    convertFields sepP (pre ++ prots ++ post) pre.length (pre.length + 1 + post.length)
      = pre ++ [joinWith sepP prots] ++ post := by
  have hk : 1 ≤ prots.length := by
    cases prots with
    | nil => exact absurd rfl hne
    | cons _ _ => simp
  have e : ((pre.length : Int) + (((pre ++ prots ++ post).length : Int)
      - ((pre.length + 1 + post.length : Nat) : Int)) + 1) = ((pre.length + prots.length : Nat) : Int) := by
    simp only [List.length_append]; omega
  unfold convertFields pySlice pyUpTo pyFrom
  simp only [e, pyIdx_natCast]
  have h1 : min pre.length (pre ++ prots ++ post).length = pre.length := by
    simp only [List.length_append]; omega
  have h2 : min (pre.length + prots.length) (pre ++ prots ++ post).length = pre.length + prots.length := by
    simp only [List.length_append]; omega
  rw [h1, h2]
  have t1 : List.take (pre.length + prots.length) (pre ++ prots ++ post) = pre ++ prots :=
    List.take_left' (by simp)
  have t2 : List.drop pre.length (pre ++ prots) = prots := List.drop_left' rfl
  have t3 : List.take pre.length (pre ++ prots ++ post) = pre := by
    rw [List.append_assoc]; exact List.take_left' rfl
  have t4 : List.drop (pre.length + prots.length) (pre ++ prots ++ post) = post :=
    List.drop_left' (by simp)
  rw [t1, t2, t3, t4]

/-! ## joined lines -/

theorem joinWith_append_singleton (sep : Str) (init : List Str) (g : Str) (h : init ≠ []) :
    joinWith sep (init ++ [g]) = joinWith sep init ++ sep ++ g := by
  induction init with
  | nil => exact absurd rfl h
  | cons x r ih =>
    cases r with
    | nil => simp [joinWith]
    | cons y r =>
      have := ih (by simp)
      simp only [List.cons_append] at this ⊢
      rw [joinWith_cons_cons, this, joinWith_cons_cons]
      simp [List.append_assoc]

theorem mem_joinWith (sep : Str) (fs : List Str) (c : Char) (h : c ∈ joinWith sep fs) :
    c ∈ sep ∨ ∃ f ∈ fs, c ∈ f := by
  induction fs with
  | nil => simp [joinWith] at h
  | cons x r ih =>
    cases r with
    | nil => exact Or.inr ⟨x, by simp, by simpa [joinWith] using h⟩
    | cons y r =>
      rw [joinWith_cons_cons] at h
      simp only [List.mem_append] at h
      rcases h with (h | h) | h
      · exact Or.inr ⟨x, by simp, h⟩
      · exact Or.inl h
      · rcases ih h with h' | ⟨f, hf, hc⟩
        · exact Or.inl h'
        · exact Or.inr ⟨f, by simp [hf], hc⟩

theorem headNonSpace_joinWith (sep : Str) (f : Str) (r : List Str) (h : headNonSpace f = true) :
    headNonSpace (joinWith sep (f :: r)) = true := by
  obtain ⟨c, f', rfl, hc⟩ := (headNonSpace_iff f).mp h
  cases r with
  | nil => simpa [joinWith] using h
  | cons y r => rw [joinWith_cons_cons]; simp [headNonSpace, hc]

theorem lastNonSpace_joinWith (sep : Str) (init : List Str) (g : Str) (h : lastNonSpace g = true) :
    lastNonSpace (joinWith sep (init ++ [g])) = true := by
  obtain ⟨c, g', rfl, hc⟩ := (lastNonSpace_iff g).mp h
  by_cases hi : init = []
  · subst hi; simpa [joinWith] using h
  · rw [joinWith_append_singleton sep init _ hi, lastNonSpace_iff]
    exact ⟨c, joinWith sep init ++ sep ++ g', by simp [List.append_assoc], hc⟩

theorem edgeOk_elim (fs : List Str) (h : edgeOk fs = true) :
    ∃ f r init g, fs = f :: r ∧ fs = init ++ [g] ∧ headNonSpace f = true ∧ lastNonSpace g = true := by
  cases fs with
  | nil => simp [edgeOk] at h
  | cons f r =>
    rcases List.eq_nil_or_concat (f :: r) with e | ⟨init, g, e⟩
    · cases e
    · rw [List.concat_eq_append] at e
      have hl : (f :: r).getLast? = some g := by rw [e]; simp
      unfold edgeOk at h
      rw [hl] at h
      simp only [List.head?_cons, Option.map_some, Option.getD_some, Bool.and_eq_true] at h
      exact ⟨f, r, init, g, rfl, e, h.1, h.2⟩

theorem edgeOk_joinWith (sep : Str) (fs : List Str) (h : edgeOk fs = true) :
    headNonSpace (joinWith sep fs) = true ∧ lastNonSpace (joinWith sep fs) = true := by
  obtain ⟨f, r, init, g, e1, e2, h1, h2⟩ := edgeOk_elim fs h
  constructor
  · rw [e1]; exact headNonSpace_joinWith sep f r h1
  · rw [e2]; exact lastNonSpace_joinWith sep init g h2

theorem padOk_iff (p : Str) : padOk p = true ↔ (∀ c ∈ p, pyIsSpace c = true) ∧ '\n' ∉ p := by
  simp [padOk]

/-- `strip` of a padded joined line gives the joined line -/
theorem strip_padded_line (sep : Str) (a b : Str) (fs : List Str)
    (ha : padOk a = true) (hb : padOk b = true) (he : edgeOk fs = true) :
    strip (a ++ joinWith sep fs ++ b) = joinWith sep fs := by
  obtain ⟨h1, h2⟩ := edgeOk_joinWith sep fs he
  exact strip_pad a _ b ((padOk_iff a).mp ha).1 ((padOk_iff b).mp hb).1 h1 h2

theorem strip_joined_line (sep : Str) (fs : List Str) (he : edgeOk fs = true) :
    strip (joinWith sep fs) = joinWith sep fs := by
  have := strip_padded_line sep [] [] fs (by decide) (by decide) he
  simpa using this

end Mk
