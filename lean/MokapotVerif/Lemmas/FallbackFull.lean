import MokapotVerif.Model.FallbackFull
import MokapotVerif.Lemmas.FallbackTail
/-!
# Lemmas for `Model/FallbackFull.lean`: the tail of `brew` over arbitrary compared scores
-/
namespace Mk.Fallback
open Mk

/-- the per-fold tail is the general tail at `tailScores` -/
theorem returnOf_eq_G (ms : List FoldModel) (colls : List Coll) (d : Decision) :
    returnOf ms colls d = returnOfG (tailScores ms colls) colls d := by
  cases d <;> rfl

theorem brewTail_eq_G (ms : List FoldModel) (thr : Rat) (colls : List Coll) :
    brewTail ms thr colls = brewTailG ms thr colls (tailScores ms colls) := by
  unfold brewTail brewTailG
  simp only [returnOf_eq_G]

/-- without `reset` and `ensemble` the source is the one of `Model/FallbackTail.lean` -/
theorem brewScores_plain (ms : List FoldModel) (colls : List Coll) (src : Sources) :
    brewScores false false ms colls src = tailScores ms colls := by
  unfold brewScores tailScores
  simp

theorem brewScores_reset (ens : Bool) (ms : List FoldModel) (colls : List Coll) (src : Sources) :
    brewScores true ens ms colls src = src.resetScores := by
  simp [brewScores]

theorem brewScores_untrained (ens : Bool) (ms : List FoldModel) (colls : List Coll) (src : Sources)
    (h : ms.all (·.trained) = false) :
    brewScores false ens ms colls src = colls.map zerosLike := by
  simp [brewScores, h]

theorem brewScores_ensemble (ms : List FoldModel) (colls : List Coll) (src : Sources)
    (h : ms.all (·.trained) = true) :
    brewScores false true ms colls src = src.ensembleScores := by
  simp [brewScores, h]

/-- when every stored label is in range the general tail is the decision on the declarative count -/
theorem brewTailG_unfold (ms : List FoldModel) (thr : Rat) (colls : List Coll) (sc : List (List Int))
    (h : labelsOk colls = true) :
    brewTailG ms thr colls sc = some (returnOfG sc colls (decide ms (totalAccepted thr colls sc))) := by
  unfold brewTailG
  rw [tailPred_ok thr colls h]
  rfl

/-- whenever the general tail returns, it is the decision on the declarative count -/
theorem brewTailG_some (ms : List FoldModel) (thr : Rat) (colls : List Coll) (sc : List (List Int))
    (out : List (List Int) × List Bool) (h : brewTailG ms thr colls sc = some out) :
    out = returnOfG sc colls (decide ms (totalAccepted thr colls sc)) := by
  unfold brewTailG at h
  cases hp : tailPred thr colls sc with
  | none => simp [hp] at h
  | some p =>
    rw [hp] at h
    simp only [Option.map_some] at h
    injection h with h
    rw [← h, tailPred_some thr colls _ p hp]

theorem rankColumn_eq (desc : Bool) (col : List Int) : rankColumn desc col = col.map (rankScore desc) := rfl

end Mk.Fallback
