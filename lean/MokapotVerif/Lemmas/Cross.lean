import MokapotVerif.Model.Cross
import MokapotVerif.Lemmas.Confidence
import MokapotVerif.Lemmas.BrewPredict
/-! Helper lemmas for the C05 extension (`Model/Cross.lean`): cutting into chunks commutes with
`zip` and `map`, buffers flushed in batches lose nothing, the ensemble loop over chunks computes
the per-model score vectors of the whole table. -/
namespace Mk.Cross
open Mk Mk.Brew

/-! ## ensemble -/

theorem chunkPreds_length {ρ σ : Type} (n : Nat) (score : Nat → ρ → σ) (ch : List ρ) :
    (chunkPreds n score ch).length = n := by simp [chunkPreds]

theorem chunkPreds_append {ρ σ : Type} (n : Nat) (score : Nat → ρ → σ) (a b : List ρ) :
    List.zipWith (fun s fs => s ++ fs) (chunkPreds n score a) (chunkPreds n score b)
      = chunkPreds n score (a ++ b) := by
  simp [chunkPreds, List.zipWith_map_left, List.zipWith_map_right, List.zipWith_self]

theorem zipWith_append_assoc {σ : Type} : ∀ (acc A B : List (List σ)),
    List.zipWith (fun s fs => s ++ fs) (List.zipWith (fun s fs => s ++ fs) acc A) B
      = List.zipWith (fun s fs => s ++ fs) acc (List.zipWith (fun s fs => s ++ fs) A B) := by
  intro acc
  induction acc with
  | nil => intro A B; simp
  | cons a acc ih =>
    intro A B
    cases A with
    | nil => simp
    | cons x A =>
      cases B with
      | nil => simp
      | cons y B => simp [ih, List.append_assoc]

theorem zipWith_append_nils {ρ σ : Type} (n : Nat) (score : Nat → ρ → σ) (acc : List (List σ))
    (h : acc.length = n) :
    List.zipWith (fun s fs => s ++ fs) acc (chunkPreds n score []) = acc := by
  apply List.ext_getElem
  · simp [chunkPreds, h]
  · intro i h1 h2
    simp [chunkPreds]

theorem ensemble_fold {ρ σ : Type} (n : Nat) (score : Nat → ρ → σ) : ∀ (chs : List (List ρ))
    (acc : List (List σ)), acc.length = n →
    chs.foldl (ensembleStep n score) acc
      = List.zipWith (fun s fs => s ++ fs) acc (chunkPreds n score chs.flatten) := by
  intro chs
  induction chs with
  | nil => intro acc h; simp [zipWith_append_nils n score acc h]
  | cons ch rest ih =>
    intro acc h
    simp only [List.foldl_cons, List.flatten_cons]
    rw [ih]
    · unfold ensembleStep
      rw [zipWith_append_assoc, chunkPreds_append]
    · unfold ensembleStep
      simp [chunkPreds_length, h]

/-- the loop over the chunks yields, per model, its score vector of the whole table -/
theorem ensembleRaw_eq {ρ σ : Type} (c : Nat) (hc : 0 < c) (n : Nat) (rows : List ρ)
    (score : Nat → ρ → σ) : ensembleRaw c n rows score = chunkPreds n score rows := by
  unfold ensembleRaw
  rw [ensemble_fold n score _ _ (by simp), chunks_flatten c hc]
  apply List.ext_getElem
  · simp [chunkPreds]
  · intro i h1 h2
    simp [chunkPreds]

theorem colMean_chunkPreds {ρ σ : Type} [Inhabited σ] (n : Nat) (hn : 0 < n) (rows : List ρ)
    (score : Nat → ρ → σ) (avg : List σ → σ) :
    colMean avg (chunkPreds n score rows) = ensembleSpec n rows score avg := by
  obtain ⟨k, rfl⟩ : ∃ k, n = k + 1 := ⟨n - 1, by omega⟩
  have hhead : ((chunkPreds (k + 1) score rows).headD []).length = rows.length := by
    simp [chunkPreds, List.range_succ_eq_map]
  unfold colMean ensembleSpec
  rw [hhead]
  apply List.ext_getElem
  · simp
  · intro p h1 h2
    simp only [List.getElem_map, List.getElem_range, chunkPreds, List.map_map]
    congr 1
    apply List.map_congr_left
    intro m _
    have hp : p < rows.length := by simpa using h1
    simp [Function.comp, List.getD_eq_getElem?_getD, hp]

/-! ## several collections -/

/-- what the worker threads may leave behind for one file `ft = (rows, training index)`: per chunk
of `c` rows the piece belonging to the training index in any internal order (`ps`), the pieces in
any completion order (hypothesis of the `C05_collections_materialise_…` theorems) -/
def PiecesOf {ρ : Type} (c : Nat) (ft : List ρ × List Nat) (pieces : List (List (Nat × ρ))) : Prop :=
  ∃ ps, List.Forall₂ List.Perm
      ((chunks c (ft.1.zipIdx.map (fun x => (x.2, x.1)))).map (chunkPiece ft.2)) ps ∧ pieces.Perm ps

/-! ## chunks, `zip` and `map` -/

theorem chunksFuel_succ_cons {α : Type} (c f : Nat) (l : List α) (h : l ≠ []) :
    chunksFuel c (f + 1) l = l.take c :: chunksFuel c f (l.drop c) := by
  cases l with
  | nil => exact absurd rfl h
  | cons x xs => rfl

theorem chunksFuel_zip {α β : Type} (c : Nat) : ∀ (fuel : Nat) (xs : List α) (ys : List β),
    xs.length = ys.length →
    chunksFuel c fuel (xs.zip ys) = List.zipWith List.zip (chunksFuel c fuel xs) (chunksFuel c fuel ys) := by
  intro fuel
  induction fuel with
  | zero => intro xs ys _; simp [chunksFuel]
  | succ f ih =>
    intro xs ys h
    cases xs with
    | nil =>
      cases ys with
      | nil => simp [chunksFuel]
      | cons y ys => simp at h
    | cons x xs =>
      cases ys with
      | nil => simp at h
      | cons y ys =>
        rw [chunksFuel_succ_cons c f ((x :: xs).zip (y :: ys)) (by simp),
          chunksFuel_succ_cons c f (x :: xs) (by simp), chunksFuel_succ_cons c f (y :: ys) (by simp),
          List.zipWith_cons_cons,
          ← ih ((x :: xs).drop c) ((y :: ys).drop c) (by simp only [List.length_drop]; omega)]
        simp only [List.zip, List.take_zipWith, List.drop_zipWith]

theorem chunksOf_zip {α β : Type} (c : Nat) (xs : List α) (ys : List β) (h : xs.length = ys.length) :
    chunksOf c (xs.zip ys) = List.zipWith List.zip (chunksOf c xs) (chunksOf c ys) := by
  unfold chunksOf
  rw [List.length_zip, ← h, Nat.min_self]
  exact chunksFuel_zip c xs.length xs ys h

theorem chunksFuel_map {α β : Type} (c : Nat) (g : α → β) : ∀ (fuel : Nat) (xs : List α),
    chunksFuel c fuel (xs.map g) = (chunksFuel c fuel xs).map (List.map g) := by
  intro fuel
  induction fuel with
  | zero => intro xs; simp [chunksFuel]
  | succ f ih =>
    intro xs
    cases xs with
    | nil => simp [chunksFuel]
    | cons x xs =>
      have hm : (x :: xs).map g = g x :: xs.map g := rfl
      rw [hm]
      simp only [chunksFuel, List.map_cons]
      rw [← hm, ← List.map_drop, ih, List.map_take]

theorem chunksOf_map {α β : Type} (c : Nat) (g : α → β) (xs : List α) :
    chunksOf c (xs.map g) = (chunksOf c xs).map (List.map g) := by
  unfold chunksOf
  rw [List.length_map]
  exact chunksFuel_map c g xs.length xs

/-- chunk `i` of the metadata paired with slice `i` of the scores = chunk `i` of the table that
carries its score column -/
theorem attachScores_eq {μ σ : Type} (c : Nat) (md : List μ) (sc : List σ) (h : md.length = sc.length) :
    attachScores c md sc = chunksOf c (md.zip sc) := (chunksOf_zip c md sc h).symm

theorem scoredChunks_eq (c : Nat) (md : List Row) (sc : List Int) (h : md.length = sc.length) :
    (attachScores c md sc).map (List.map withScore) = chunksOf c (scoredRows md sc) := by
  rw [attachScores_eq c md sc h, scoredRows, chunksOf_map]

/-! ## batches -/

theorem batch_fold {α : Type} (c : Nat) : ∀ (rows : List α) (st : BatchState α),
    (rows.foldl (batchStep c) st).1.flatten ++ (rows.foldl (batchStep c) st).2
      = st.1.flatten ++ st.2 ++ rows := by
  intro rows
  induction rows with
  | nil => intro st; simp
  | cons r rest ih =>
    intro st
    simp only [List.foldl_cons]
    rw [ih]
    unfold batchStep
    split <;> simp

/-- whatever the batch size (also when it never fills up), the frames appended to a level writer
concatenate to the rows the scan retained, in their order -/
theorem levelBatches_flatten {α : Type} (c : Nat) (rows : List α) :
    (levelBatches c rows).flatten = rows := by
  unfold levelBatches
  have h := batch_fold c rows ([], [])
  simp only [List.flatten_append, List.flatten_cons, List.flatten_nil, List.append_nil] at *
  simpa using h

/-! ## the result writer -/

theorem flatMap_filter_map {α β : Type} (P : α → Bool) (g : α → β) (chs : List (List α)) :
    chs.flatMap (fun ch => (ch.filter P).map g) = (chs.flatten.filter P).map g := by
  induction chs with
  | nil => simp
  | cons ch rest ih => simp [List.flatMap_cons, ih]

theorem writeChunked_eq {α β γ : Type} (c : Nat) (hc : 0 < c) (rows : List α) (q : List β) (p : List γ)
    (t : List Bool) (hq : q.length = rows.length) (hp : p.length = rows.length)
    (ht : t.length = rows.length) :
    writeChunked c rows q p t = writeWhole rows q p t := by
  unfold writeChunked writeWhole
  have h1 : List.zipWith List.zip (chunksOf c q) (chunksOf c p) = chunksOf c (q.zip p) :=
    (chunksOf_zip c q p (by omega)).symm
  have h2 : List.zipWith List.zip (chunksOf c rows) (chunksOf c (q.zip p)) = chunksOf c (rows.zip (q.zip p)) :=
    (chunksOf_zip c rows (q.zip p) (by simp [List.length_zip]; omega)).symm
  have h3 : List.zipWith List.zip (chunksOf c (rows.zip (q.zip p))) (chunksOf c t)
      = chunksOf c ((rows.zip (q.zip p)).zip t) :=
    (chunksOf_zip c _ t (by simp [List.length_zip]; omega)).symm
  simp only [h1, h2, h3, flatMap_filter_map, chunksOf_flatten c hc]

/-! ## sorting facts used to instantiate the C03/C05 theorems with the executable model -/

theorem sortedRows_mergeSort (l : List Row) : SortedRows (l.mergeSort rowBetter) := by
  unfold SortedRows
  have h := List.pairwise_mergeSort (le := rowBetter)
    (by intro a b c h1 h2; simp only [rowBetter, decide_eq_true_eq] at *; omega)
    (by intro a b; simp only [rowBetter, Bool.or_eq_true, decide_eq_true_eq]; omega) l
  exact h.imp (by intro a b hab; simpa [rowBetter] using hab)

theorem isChunkFile_mergeSort (dedup : Bool) (ch : List Row) :
    IsChunkFile dedup ch (chunkFile dedup (ch.mergeSort rowBetter)) :=
  ⟨ch.mergeSort rowBetter, List.mergeSort_perm ch _, sortedRows_mergeSort ch, rfl⟩

theorem forall₂_map_self {α β : Type} (R : α → β → Prop) (g : α → β) (l : List α)
    (h : ∀ a ∈ l, R a (g a)) : List.Forall₂ R l (l.map g) := by
  induction l with
  | nil => exact List.Forall₂.nil
  | cons a l ih =>
    exact List.Forall₂.cons (h a (by simp)) (ih (fun b hb => h b (List.mem_cons_of_mem _ hb)))


/-! ## what two outputs satisfying the same `LevelSpec` share when scores are tied -/

theorem nodup_of_nodup_map {α β : Type} (f : α → β) : ∀ l : List α, (l.map f).Nodup → l.Nodup := by
  intro l
  induction l with
  | nil => simp
  | cons a l ih =>
    simp only [List.map_cons, List.nodup_cons]
    rintro ⟨h1, h2⟩
    exact ⟨fun ha => h1 (List.mem_map_of_mem ha), ih h2⟩

theorem eq_of_key_eq {key : Row → Nat} : ∀ {out : List Row}, (out.map key).Nodup →
    ∀ a ∈ out, ∀ b ∈ out, key a = key b → a = b := by
  intro out
  induction out with
  | nil => intro _ a ha; simp at ha
  | cons x out ih =>
    intro hnd a ha b hb hk
    simp only [List.map_cons, List.nodup_cons] at hnd
    rcases List.mem_cons.mp ha with rfl | ha' <;> rcases List.mem_cons.mp hb with rfl | hb'
    · rfl
    · exact absurd (hk ▸ List.mem_map_of_mem hb') hnd.1
    · exact absurd (hk ▸ List.mem_map_of_mem ha') hnd.1
    · exact ih hnd.2 a ha' b hb' hk

/-- key with the score it is reported with -/
def profile (key : Row → Nat) (r : Row) : Nat × Int := (key r, r.score)

theorem profile_mem (key : Row → Nat) (input out₁ out₂ : List Row)
    (g₁ : LevelSpec key input out₁) (g₂ : LevelSpec key input out₂) :
    ∀ x ∈ out₁.map (profile key), x ∈ out₂.map (profile key) := by
  intro x hx
  obtain ⟨r, hr, rfl⟩ := List.mem_map.mp hx
  obtain ⟨o₂, ho₂, hk₂, hs₂⟩ := g₂.2.2.2 r (g₁.2.2.1 r hr)
  obtain ⟨o₁, ho₁, hk₁, hs₁⟩ := g₁.2.2.2 o₂ (g₂.2.2.1 o₂ ho₂)
  have : o₁ = r := eq_of_key_eq g₁.2.1 o₁ ho₁ r hr (hk₁.trans hk₂)
  subst this
  have hsc : o₂.score = o₁.score := le_antisymm hs₁ hs₂
  exact List.mem_map.mpr ⟨o₂, ho₂, by simp [profile, hk₂, hsc]⟩

theorem profile_perm (key : Row → Nat) (input out₁ out₂ : List Row)
    (g₁ : LevelSpec key input out₁) (g₂ : LevelSpec key input out₂) :
    (out₁.map (profile key)).Perm (out₂.map (profile key)) := by
  have nd : ∀ out : List Row, (out.map key).Nodup → (out.map (profile key)).Nodup := by
    intro out h
    apply nodup_of_nodup_map Prod.fst
    have e : (out.map (profile key)).map Prod.fst = out.map key := by
      rw [List.map_map]; rfl
    rwa [e]
  exact (List.perm_ext_iff_of_nodup (nd _ g₁.2.1) (nd _ g₂.2.1)).mpr
    (fun x => ⟨profile_mem key input out₁ out₂ g₁ g₂ x, profile_mem key input out₂ out₁ g₂ g₁ x⟩)

theorem scores_eq_of_levelSpec (key : Row → Nat) (input out₁ out₂ : List Row)
    (g₁ : LevelSpec key input out₁) (g₂ : LevelSpec key input out₂) :
    out₁.map (fun r => r.score) = out₂.map (fun r => r.score) := by
  have hp : (out₁.map (fun r => r.score)).Perm (out₂.map (fun r => r.score)) := by
    have := (profile_perm key input out₁ out₂ g₁ g₂).map Prod.snd
    have e : ∀ l : List Row, (l.map (profile key)).map Prod.snd = l.map (fun r => r.score) := by
      intro l; simp [List.map_map, Function.comp, profile]
    rwa [e, e] at this
  have s₁ : (out₁.map (fun r => r.score)).Pairwise (fun a b => b ≤ a) := List.pairwise_map.mpr g₁.1
  have s₂ : (out₂.map (fun r => r.score)).Pairwise (fun a b => b ≤ a) := List.pairwise_map.mpr g₂.1
  exact List.Perm.eq_of_pairwise (le := fun a b : Int => b ≤ a)
    (fun a b _ _ hab hba => le_antisymm hba hab) s₁ s₂ hp

end Mk.Cross
