import MokapotVerif.Lemmas.FsRunExtRun
import MokapotVerif.Model.FsRunCrash
/-!
# Helper lemmas for the content-driven verify step and interrupted command line runs (C09)
-/
namespace Mk.FsRun

theorem flatMap_congr_mem {α β : Type} (l : List α) (f g : α → List β)
    (h : ∀ a ∈ l, f a = g a) : l.flatMap f = l.flatMap g := by
  induction l with
  | nil => rfl
  | cons a l ih =>
    simp only [List.flatMap_cons]
    rw [h a (by simp), ih (fun b hb => h b (by simp [hb]))]

theorem writes_take_sub {l : List Op} {m : Nat} {n : Name} (h : n ∈ writes (l.take m)) :
    n ∈ writes l := by
  rw [mem_writes_iff] at h ⊢
  obtain ⟨op, hop, hn⟩ := h
  exact ⟨op, List.mem_of_mem_take hop, hn⟩

/-- the verify step looks at `needs` at its own index only -/
theorem verifyOps_congr {needs needs' : Nat → Bool} (conv : Nat → Outs → List Nat) (j : Nat)
    (h : needs j = needs' j) : verifyOps needs conv j = verifyOps needs' conv j := by
  simp [verifyOps, h]

section step
variable (valid : List Nat → Bool) (cv : List Nat → List Nat)

/-- the directory after one content-driven verify step, name by name -/
theorem verifyStepC_get (s : FS × Outs) (j : Nat) (n : Name) :
    FS.get (verifyStepC valid cv s j).1 n =
      if valid (FS.content s.1 (.pin j)) = true then FS.get s.1 n
      else if n = .pin j then some (cv (FS.content s.1 (.pin j)))
      else if n = .pinTsv j then none else FS.get s.1 n := by
  unfold verifyStepC
  cases hv : valid (FS.content s.1 (.pin j))
  · simp only [verifyOps, needsOf, hv, Bool.not_false, if_true, exec, step, get_moveFs,
      Bool.false_eq_true, if_false]
    by_cases h1 : n = .pin j
    · subst h1
      simp [FS.content, get_set, convOf]
    · by_cases h2 : n = .pinTsv j
      · subst h2; simp
      · have h1' : ¬ Name.pin j = n := fun e => h1 e.symm
        have h2' : ¬ Name.pinTsv j = n := fun e => h2 e.symm
        simp [h1, h2, h1', h2', get_set]
  · simp [verifyOps, needsOf, hv, exec, step]

theorem verifyStepC_frame (s : FS × Outs) (j : Nat) (n : Name) (h1 : n ≠ .pin j)
    (h2 : n ≠ .pinTsv j) : FS.get (verifyStepC valid cv s j).1 n = FS.get s.1 n := by
  rw [verifyStepC_get]; simp [h1, h2]

theorem verifyLoopC_frame (js : List Nat) (s : FS × Outs) (n : Name)
    (h : ∀ j ∈ js, n ≠ .pin j ∧ n ≠ .pinTsv j) :
    FS.get (verifyLoopC valid cv js s).1 n = FS.get s.1 n := by
  induction js generalizing s with
  | nil => rfl
  | cons j js ih =>
    have h' := ih (verifyStepC valid cv s j) (fun j' hj' => h j' (by simp [hj']))
    simp only [verifyLoopC, List.foldl_cons] at h' ⊢
    rw [h', verifyStepC_frame valid cv s j n (h j (by simp)).1 (h j (by simp)).2]

/-- the PIN file `j` and its `.tsv` after the loop over distinct files -/
theorem verifyLoopC_pin (js : List Nat) (hnd : js.Nodup) (s : FS × Outs) (j : Nat) (hj : j ∈ js) :
    FS.get (verifyLoopC valid cv js s).1 (.pin j) =
      (if valid (FS.content s.1 (.pin j)) = true then FS.get s.1 (.pin j)
       else some (cv (FS.content s.1 (.pin j)))) ∧
    FS.get (verifyLoopC valid cv js s).1 (.pinTsv j) =
      (if valid (FS.content s.1 (.pin j)) = true then FS.get s.1 (.pinTsv j) else none) := by
  induction js generalizing s with
  | nil => simp at hj
  | cons j₀ js ih =>
    obtain ⟨hn0, hnd'⟩ := List.nodup_cons.mp hnd
    have hloop : verifyLoopC valid cv (j₀ :: js) s
        = verifyLoopC valid cv js (verifyStepC valid cv s j₀) := by
      simp [verifyLoopC]
    rw [hloop]
    by_cases hj0 : j = j₀
    · subst hj0
      rw [verifyLoopC_frame valid cv js _ (.pin j)
            (fun j' hj' => ⟨fun e => hn0 (by injection e with e; exact e ▸ hj'),
              fun e => Name.noConfusion e⟩),
          verifyLoopC_frame valid cv js _ (.pinTsv j)
            (fun j' hj' => ⟨fun e => Name.noConfusion e,
              fun e => hn0 (by injection e with e; exact e ▸ hj')⟩),
          verifyStepC_get, verifyStepC_get]
      constructor
      · simp
      · have : ¬ Name.pinTsv j = Name.pin j := fun e => Name.noConfusion e
        simp [this]
    · have hjs : j ∈ js := by
        rcases List.mem_cons.mp hj with h | h
        · exact absurd h hj0
        · exact h
      have hp : FS.get (verifyStepC valid cv s j₀).1 (.pin j) = FS.get s.1 (.pin j) :=
        verifyStepC_frame valid cv s j₀ _ (fun e => hj0 (by injection e))
          (fun e => Name.noConfusion e)
      have ht : FS.get (verifyStepC valid cv s j₀).1 (.pinTsv j) = FS.get s.1 (.pinTsv j) :=
        verifyStepC_frame valid cv s j₀ _ (fun e => Name.noConfusion e)
          (fun e => hj0 (by injection e))
      obtain ⟨h1, h2⟩ := ih hnd' (verifyStepC valid cv s j₀) hjs
      rw [h1, h2, content_congr hp, hp, ht]
      exact ⟨rfl, rfl⟩

/-- **refinement**: the sequential, content-driven loop is the operation list of
`Model/FsRunExt.lean` with the branches read off the initial directory -/
theorem verifyLoopC_eq_exec (js : List Nat) (hnd : js.Nodup) (s : FS × Outs) :
    verifyLoopC valid cv js s
      = exec s.1 s.2 (js.flatMap (verifyOps (needsOf valid s.1) (convOf cv))) := by
  induction js generalizing s with
  | nil => rfl
  | cons j js ih =>
    obtain ⟨hn0, hnd'⟩ := List.nodup_cons.mp hnd
    have hloop : verifyLoopC valid cv (j :: js) s
        = verifyLoopC valid cv js (verifyStepC valid cv s j) := by
      simp [verifyLoopC]
    rw [hloop, ih hnd', List.flatMap_cons, exec_append]
    have hfm : js.flatMap (verifyOps (needsOf valid (verifyStepC valid cv s j).1) (convOf cv))
        = js.flatMap (verifyOps (needsOf valid s.1) (convOf cv)) := by
      apply flatMap_congr_mem
      intro j' hj'
      apply verifyOps_congr
      simp only [needsOf]
      rw [content_congr (verifyStepC_frame valid cv s j (.pin j')
        (fun e => hn0 (by injection e with e; exact e ▸ hj')) (fun e => Name.noConfusion e))]
    rw [hfm]
    rfl

end step

/-! ## write granularity -/

theorem exec_appends (n : Name) (ls : List (List Nat)) (fs : FS) (outs : Outs) (c : List Nat)
    (h : FS.get fs n = some c) :
    FS.get (exec fs outs (ls.map (fun ln => Op.append n (fun _ => ln)))).1 n
      = some (c ++ ls.flatten) := by
  induction ls generalizing fs c with
  | nil => simp [h]
  | cons l ls ih =>
    simp only [List.map_cons, exec_cons, step, List.flatten_cons]
    rw [ih _ (c ++ l) (by simp [get_set_same, FS.content, h])]
    simp [List.append_assoc]

theorem writes_convWrites (j : Nat) (ls : List (List Nat)) {n : Name}
    (h : n ∈ writes (convWrites j ls)) : n = .pinTsv j := by
  rw [mem_writes_iff] at h
  obtain ⟨op, hop, hn⟩ := h
  simp only [convWrites, List.mem_cons, List.mem_map] at hop
  rcases hop with rfl | ⟨ln, _, rfl⟩ <;> simpa [writesOp] using hn

section micro
variable (valid : List Nat → Bool) (lines : List Nat → List (List Nat))

theorem verifyMicro_congr {fs₁ fs₂ : FS} (j : Nat)
    (h : FS.get fs₁ (.pin j) = FS.get fs₂ (.pin j)) :
    verifyMicro valid lines fs₁ j = verifyMicro valid lines fs₂ j := by
  simp only [verifyMicro, content_congr h]

theorem writes_verifyMicro (fs : FS) (j : Nat) {n : Name}
    (h : n ∈ writes (verifyMicro valid lines fs j)) : n = .pin j ∨ n = .pinTsv j := by
  unfold verifyMicro at h
  cases hv : valid (FS.content fs (.pin j))
  · simp only [hv, Bool.false_eq_true, if_false] at h
    have e : (Op.read (.pin j) :: Op.read (.pin j) ::
        (convWrites j (lines (FS.content fs (.pin j))) ++ [Op.move (.pinTsv j) (.pin j)]))
        = [Op.read (.pin j), Op.read (.pin j)] ++
          (convWrites j (lines (FS.content fs (.pin j))) ++ [Op.move (.pinTsv j) (.pin j)]) := rfl
    rw [e, writes_append, writes_append] at h
    simp only [List.mem_append] at h
    rcases h with h | h | h
    · simp [writes, writesOp] at h
    · exact Or.inr (writes_convWrites _ _ h)
    · simp only [writes, List.flatMap_cons, List.flatMap_nil, writesOp, List.append_nil,
        List.mem_cons, List.not_mem_nil, or_false] at h
      rcases h with h | h
      · exact Or.inr h
      · exact Or.inl h
  · simp [hv, writes, writesOp] at h

/-- the state of the directory that matters for a later run: every PIN file `j < nf` exists and
holds the user's content `x j` or — for a file that needs conversion — its complete conversion,
and then its `.tsv` is gone (the move has happened) -/
def PinInv (valid : List Nat → Bool) (cv : List Nat → List Nat) (x : Nat → List Nat) (nf : Nat)
    (fs : FS) : Prop :=
  ∀ j, j < nf → ∃ y, FS.get fs (.pin j) = some y ∧
    (y = x j ∨ (valid (x j) = false ∧ y = cv (x j) ∧ FS.get fs (.pinTsv j) = none))

theorem pinInv_of_get_eq {cv : List Nat → List Nat} {x : Nat → List Nat} {nf : Nat} {fs fs' : FS}
    (h : ∀ j, j < nf → FS.get fs' (.pin j) = FS.get fs (.pin j) ∧
      FS.get fs' (.pinTsv j) = FS.get fs (.pinTsv j))
    (hi : PinInv valid cv x nf fs) : PinInv valid cv x nf fs' := by
  intro j hj
  obtain ⟨y, hy, hd⟩ := hi j hj
  refine ⟨y, by rw [(h j hj).1, hy], ?_⟩
  rcases hd with hd | ⟨h1, h2, h3⟩
  · exact Or.inl hd
  · exact Or.inr ⟨h1, h2, by rw [(h j hj).2, h3]⟩

/-- operations that touch no PIN file and no `<pin>.tsv` keep the invariant -/
theorem pinInv_frame_prog {cv : List Nat → List Nat} {x : Nat → List Nat} {nf : Nat} (fs : FS)
    (outs : Outs) (prog : List Op) (hp : ∀ n ∈ writes prog, notPinName n = true)
    (hi : PinInv valid cv x nf fs) : PinInv valid cv x nf (exec fs outs prog).1 := by
  apply pinInv_of_get_eq valid _ hi
  intro j _
  constructor
  · exact exec_frame _ _ _ _ (fun hw => by simpa [notPinName] using hp _ hw)
  · exact exec_frame _ _ _ _ (fun hw => by simpa [notPinName] using hp _ hw)

/-- **any prefix** of the verify step of one file, started in a directory satisfying the invariant,
leaves a directory satisfying it — and touches nothing but that PIN file and its `.tsv` -/
theorem micro_prefix_inv (hv : ∀ y, valid (cvOf lines y) = true) (x : Nat → List Nat) (nf : Nat)
    (fs : FS) (outs : Outs) (j' m : Nat) (hi : PinInv valid (cvOf lines) x nf fs) :
    PinInv valid (cvOf lines) x nf (exec fs outs ((verifyMicro valid lines fs j').take m)).1 ∧
    ∀ n, n ≠ .pin j' → n ≠ .pinTsv j' →
      FS.get (exec fs outs ((verifyMicro valid lines fs j').take m)).1 n = FS.get fs n := by
  have hframe : ∀ n, n ≠ .pin j' → n ≠ .pinTsv j' →
      FS.get (exec fs outs ((verifyMicro valid lines fs j').take m)).1 n = FS.get fs n := by
    intro n h1 h2
    apply exec_frame
    intro hw
    rcases writes_verifyMicro valid lines fs j' (writes_take_sub hw) with h | h
    · exact h1 h
    · exact h2 h
  refine ⟨?_, hframe⟩
  intro j hj
  by_cases hjj : ¬ j = j'
  · -- another file: untouched
    obtain ⟨y, hy, hd⟩ := hi j hj
    have hp := hframe (.pin j) (fun e => hjj (by injection e)) (fun e => Name.noConfusion e)
    have ht := hframe (.pinTsv j) (fun e => Name.noConfusion e) (fun e => hjj (by injection e))
    refine ⟨y, by rw [hp, hy], ?_⟩
    rcases hd with hd | ⟨h1, h2, h3⟩
    · exact Or.inl hd
    · exact Or.inr ⟨h1, h2, by rw [ht, h3]⟩
  · have hjj' : j = j' := Classical.not_not.mp hjj
    subst hjj'
    obtain ⟨y, hy, hd⟩ := hi j hj
    have hc : FS.content fs (.pin j) = y := by simp [FS.content, hy]
    by_cases hvy : valid y = true
    · -- a valid table: one read, nothing written
      have hL : verifyMicro valid lines fs j = [Op.read (.pin j)] := by
        simp [verifyMicro, hc, hvy]
      have hnw : ∀ n, FS.get (exec fs outs ((verifyMicro valid lines fs j).take m)).1 n
          = FS.get fs n := by
        intro n
        apply exec_frame
        intro hw
        have := writes_take_sub hw
        rw [hL] at this
        simp [writes, writesOp] at this
      refine ⟨y, by rw [hnw, hy], ?_⟩
      rcases hd with hd | ⟨h1, h2, h3⟩
      · exact Or.inl hd
      · exact Or.inr ⟨h1, h2, by rw [hnw, h3]⟩
    · -- needs conversion: then `y` is the user's content (a conversion would be valid)
      have hvy : valid y = false := by simpa using hvy
      have hyx : y = x j := by
        rcases hd with hd | ⟨_, h2, _⟩
        · exact hd
        · rw [h2, hv] at hvy; exact absurd hvy (by simp)
      let A : List Op := Op.read (.pin j) :: Op.read (.pin j) :: convWrites j (lines y)
      have hL : verifyMicro valid lines fs j = A ++ [Op.move (.pinTsv j) (.pin j)] := by
        simp [verifyMicro, hc, hvy, A]
      by_cases hm : m ≤ A.length
      · -- the move has not happened: only `<pin>.tsv` was written
        have htake : (verifyMicro valid lines fs j).take m = A.take m := by
          rw [hL, List.take_append_of_le_length hm]
        have hp : FS.get (exec fs outs ((verifyMicro valid lines fs j).take m)).1 (.pin j)
            = FS.get fs (.pin j) := by
          rw [htake]
          apply exec_frame
          intro hw
          have hw' := writes_take_sub hw
          have e : A = [Op.read (.pin j), Op.read (.pin j)] ++ convWrites j (lines y) := rfl
          rw [e, writes_append] at hw'
          simp only [List.mem_append] at hw'
          rcases hw' with h | h
          · simp [writes, writesOp] at h
          · exact Name.noConfusion (writes_convWrites _ _ h)
        exact ⟨y, by rw [hp, hy], Or.inl hyx⟩
      · -- the step has completed
        have hlen : (A ++ [Op.move (.pinTsv j) (.pin j)]).length ≤ m := by
          simp only [List.length_append, List.length_singleton]; omega
        have htake : (verifyMicro valid lines fs j).take m
            = A ++ [Op.move (.pinTsv j) (.pin j)] := by
          rw [hL, List.take_of_length_le hlen]
        have hA : FS.get (exec fs outs A).1 (.pinTsv j) = some (cvOf lines y) := by
          have e : A = [Op.read (.pin j), Op.read (.pin j), Op.trunc (.pinTsv j) (fun _ => [])] ++
              (lines y).map (fun ln => Op.append (.pinTsv j) (fun _ => ln)) := rfl
          rw [e, exec_append, exec_appends (.pinTsv j) (lines y) _ _ [] (by
            simp [exec, step, get_set_same])]
          simp [cvOf]
        refine ⟨cvOf lines y, ?_, Or.inr ⟨by rw [← hyx]; exact hvy, by rw [hyx], ?_⟩⟩
        · rw [htake, exec_append]
          simp only [exec, step, get_moveFs]
          have : ¬ Name.pinTsv j = Name.pin j := fun e => Name.noConfusion e
          simp [this, FS.content, hA]
        · rw [htake, exec_append]
          simp only [exec, step, get_moveFs]
          have : ¬ Name.pinTsv j = Name.pin j := fun e => Name.noConfusion e
          simp [this]

/-- **any prefix of a whole command line run** (verify loop over distinct files at write
granularity, then operations that touch no PIN file) keeps the invariant -/
theorem cliMicro_prefix_inv (hv : ∀ y, valid (cvOf lines y) = true) (x : Nat → List Nat)
    (nf : Nat) (rest : List Op) (hrest : ∀ n ∈ writes rest, notPinName n = true) (fsr : FS)
    (js : List Nat) (hnd : js.Nodup) (fs : FS) (outs : Outs) (m : Nat)
    (hsame : ∀ j ∈ js, FS.get fs (.pin j) = FS.get fsr (.pin j))
    (hi : PinInv valid (cvOf lines) x nf fs) :
    PinInv valid (cvOf lines) x nf (exec fs outs ((cliMicro valid lines fsr js rest).take m)).1 := by
  induction js generalizing fs outs m with
  | nil =>
    simp only [cliMicro, List.flatMap_nil, List.nil_append]
    exact pinInv_frame_prog valid fs outs _ (fun n hn => hrest n (writes_take_sub hn)) hi
  | cons j js ih =>
    obtain ⟨hn0, hnd'⟩ := List.nodup_cons.mp hnd
    have e : cliMicro valid lines fsr (j :: js) rest
        = verifyMicro valid lines fs j ++ cliMicro valid lines fsr js rest := by
      simp only [cliMicro, List.flatMap_cons, List.append_assoc]
      rw [verifyMicro_congr valid lines j (hsame j (by simp))]
    rw [e, List.take_append, exec_append]
    obtain ⟨hi1, hfr⟩ := micro_prefix_inv valid lines hv x nf fs outs j m hi
    apply ih hnd' _ _ _ _ hi1
    intro j' hj'
    rw [hfr (.pin j') (fun e => hn0 (by injection e with e; exact e ▸ hj'))
      (fun e => Name.noConfusion e)]
    exact hsame j' (by simp [hj'])

theorem nodup_range (n : Nat) : (List.range n).Nodup := List.nodup_range

theorem crashRun_inv (hv : ∀ y, valid (cvOf lines y) = true) (x : Nat → List Nat) (nf : Nat)
    (fs : FS) (e : Earlier) (hrest : ∀ n ∈ writes e.rest, notPinName n = true)
    (hi : PinInv valid (cvOf lines) x nf fs) :
    PinInv valid (cvOf lines) x nf (crashRun valid lines fs e) :=
  cliMicro_prefix_inv valid lines hv x nf e.rest hrest fs _ (nodup_range _) fs [] e.m
    (fun _ _ => rfl) hi

theorem crashRuns_inv (hv : ∀ y, valid (cvOf lines y) = true) (x : Nat → List Nat) (nf : Nat)
    (es : List Earlier) (hrest : ∀ e ∈ es, ∀ n ∈ writes e.rest, notPinName n = true) (fs : FS)
    (hi : PinInv valid (cvOf lines) x nf fs) :
    PinInv valid (cvOf lines) x nf (crashRuns valid lines fs es) := by
  induction es generalizing fs with
  | nil => exact hi
  | cons e es ih =>
    simp only [crashRuns, List.foldl_cons]
    exact ih (fun e' he' => hrest e' (by simp [he'])) _
      (crashRun_inv valid lines hv x nf fs e (hrest e (by simp)) hi)

/-- the complete verify step at write granularity, name by name: the formula of `verifyStepC_get` -/
theorem exec_verifyMicro_get (fs : FS) (outs : Outs) (j : Nat) (n : Name) :
    FS.get (exec fs outs (verifyMicro valid lines fs j)).1 n =
      if valid (FS.content fs (.pin j)) = true then FS.get fs n
      else if n = .pin j then some (cvOf lines (FS.content fs (.pin j)))
      else if n = .pinTsv j then none else FS.get fs n := by
  by_cases hvy : valid (FS.content fs (.pin j)) = true
  · simp [verifyMicro, hvy, exec, step]
  · have hvy' : valid (FS.content fs (.pin j)) = false := by simpa using hvy
    let A : List Op := Op.read (.pin j) :: Op.read (.pin j) ::
      convWrites j (lines (FS.content fs (.pin j)))
    have hL : verifyMicro valid lines fs j = A ++ [Op.move (.pinTsv j) (.pin j)] := by
      simp [verifyMicro, hvy', A]
    have hA : FS.get (exec fs outs A).1 (.pinTsv j)
        = some (cvOf lines (FS.content fs (.pin j))) := by
      have e : A = [Op.read (.pin j), Op.read (.pin j), Op.trunc (.pinTsv j) (fun _ => [])] ++
          (lines (FS.content fs (.pin j))).map
            (fun ln => Op.append (.pinTsv j) (fun _ => ln)) := rfl
      rw [e, exec_append, exec_appends (.pinTsv j) _ _ _ [] (by simp [exec, step, get_set_same])]
      simp [cvOf]
    have hAf : ∀ n, n ≠ .pinTsv j → FS.get (exec fs outs A).1 n = FS.get fs n := by
      intro n hn
      apply exec_frame
      intro hw
      have e : A = [Op.read (.pin j), Op.read (.pin j)] ++
          convWrites j (lines (FS.content fs (.pin j))) := rfl
      rw [e, writes_append] at hw
      simp only [List.mem_append] at hw
      rcases hw with h | h
      · simp [writes, writesOp] at h
      · exact hn (writes_convWrites _ _ h)
    rw [hL, exec_append]
    simp only [exec, step, get_moveFs, hvy]
    have hne : ¬ Name.pinTsv j = Name.pin j := fun e => Name.noConfusion e
    by_cases h1 : n = .pin j
    · subst h1; simp [hne, FS.content, hA]
    · by_cases h2 : n = .pinTsv j
      · subst h2; simp [hne]
      · have h1' : ¬ Name.pin j = n := fun e => h1 e.symm
        have h2' : ¬ Name.pinTsv j = n := fun e => h2 e.symm
        simp [hne, h1, h2, h1', h2', hAf n h2]

end micro

/-- from a directory satisfying the invariant the verify loop produces the normal form of the
user's content in every PIN file, and no `.tsv` of a converted file remains -/
theorem loop_of_inv (valid : List Nat → Bool) (cv : List Nat → List Nat)
    (hv : ∀ y, valid (cv y) = true) (x : Nat → List Nat) (nf : Nat) (fs : FS) (outs : Outs)
    (hi : PinInv valid cv x nf fs) (j : Nat) (hj : j < nf) :
    FS.get (verifyLoopC valid cv (List.range nf) (fs, outs)).1 (.pin j)
      = some (normPin valid cv (x j)) ∧
    (valid (x j) = false →
      FS.get (verifyLoopC valid cv (List.range nf) (fs, outs)).1 (.pinTsv j) = none) := by
  obtain ⟨h1, h2⟩ := verifyLoopC_pin valid cv (List.range nf) List.nodup_range (fs, outs) j
    (List.mem_range.mpr hj)
  obtain ⟨y, hy, hd⟩ := hi j hj
  have hc : FS.content fs (.pin j) = y := by simp [FS.content, hy]
  simp only [hc] at h1 h2
  rcases hd with hd | ⟨hx, hyc, ht⟩
  · subst hd
    constructor
    · rw [h1, hy]; unfold normPin; split <;> rfl
    · intro hvx; rw [h2]; simp [hvx]
  · have hvy : valid y = true := by rw [hyc]; exact hv _
    constructor
    · rw [h1, hy, if_pos hvy, hyc]; simp [normPin, hx]
    · intro _; rw [h2]; simp [hvy, ht]

/-! ## the analysis writes no PIN file -/

theorem notPinName_runNames {prot : Bool} {nl : Nat} {decoys : Bool} {colls : List Coll} {n : Name}
    (h : runNames prot nl decoys colls n) : notPinName n = true := by
  rcases h with ⟨c, _, i, _, rfl⟩ | ⟨l, _, rfl⟩ | ⟨c, _, l, _, h⟩
  · cases hp : c.pfx <;> simp [chunkOf, notPinName]
  · rfl
  · rcases h with rfl | ⟨_, rfl⟩
    · cases hp : c.pfx <;> simp [targetOf, notPinName]
    · cases hp : c.pfx <;> simp [decoyOf, notPinName]

theorem writes_cliTail (nf : Nat) (prot : Bool) (nl : Nat) (decoys : Bool) (colls : List Coll)
    (nm : Nat) (mdl : Nat → Outs → List Nat) {n : Name}
    (h : n ∈ writes (cliTail nf prot nl decoys colls nm mdl)) : notPinName n = true := by
  simp only [cliTail, cliMainOps, verifyAll, Bool.false_eq_true, if_false, List.nil_append,
    writes_append, List.mem_append, writes_readPins] at h
  rcases h with h | h
  · exact notPinName_runNames (writes_runOps prot nl decoys false false colls h)
  · obtain ⟨i, _, rfl⟩ := writes_saveModels nm mdl h
    rfl

/-- the hypothesis on the converter holds for the demo instance -/
theorem demoCv_valid : ∀ y, demoValid (cvOf demoLines y) = true := by
  intro y
  unfold cvOf demoLines demoValid
  cases h : y.getD 1 0 with
  | zero => simp
  | succ n => simp [List.range_succ_eq_map]


end Mk.FsRun
