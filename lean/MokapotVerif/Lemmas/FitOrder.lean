import MokapotVerif.Lemmas.FitFull
import MokapotVerif.Lemmas.FitSearch
/-!
# Lemmas for C12: another input row order, for the part of `Model.fit` after the start labels
(`runFrom`), for the hyper-parameter search and for the re-fit entry point
-/
namespace Mk.Fit
variable {α β ρ θ ν π : Type}

/-- `runFrom` (zero-iteration check, loop, final check) on the row-permuted data with the permuted
start labels has the outcome of `runFrom` on the original data, for any two shuffle settings / draws,
when `fit` ignores the order of its examples -/
theorem runFrom_row_order_invariant (est : Est ρ α θ) (hfit : PermInvariant est) (le : α → α → Bool)
    (hle : TotalPre le) (thr : Rat) (cfg1 cfg2 : FitCfg) (hit : cfg1.maxIter = cfg2.maxIter)
    (hov : cfg1.override = cfg2.override) (th0 : θ) (rows : List ρ) (targets : List Bool) (st : Start) (p : List Nat)
    (hr : rows.length = targets.length) (hlen : st.labels.length = rows.length)
    (hp : p.Perm (List.range rows.length))
    (hp1 : cfg1.perm.Perm (List.range rows.length)) (hp2 : cfg2.perm.Perm (List.range rows.length)) :
    (runFrom est le thr cfg1 th0 (gather rows p) (gather targets p) ⟨gather st.labels p, st.featPass⟩).status
      = (runFrom est le thr cfg2 th0 rows targets st).status ∧
    (runFrom est le thr cfg1 th0 (gather rows p) (gather targets p) ⟨gather st.labels p, st.featPass⟩).theta
      = (runFrom est le thr cfg2 th0 rows targets st).theta ∧
    List.Forall₂ List.Perm
      (runFrom est le thr cfg1 th0 (gather rows p) (gather targets p) ⟨gather st.labels p, st.featPass⟩).trace
      (runFrom est le thr cfg2 th0 rows targets st).trace := by
  have hlt := perm_range_lt hp
  have hplen : p.length = rows.length := by simpa using hp.length_eq
  have ht : targets.length = rows.length := hr.symm
  have hgr : (gather rows p).length = rows.length := by rw [gather_length rows p hlt, hplen]
  have hgt : (gather targets p).length = rows.length := by
    rw [gather_length targets p (by rw [ht]; exact hlt), hplen]
  have hgs : (gather st.labels p).length = rows.length := by
    rw [gather_length st.labels p (by rw [hlen]; exact hlt), hplen]
  have hrel : ∀ sc : List α, sc.length = rows.length → (tdcRelabel le thr targets sc).length = rows.length := by
    intro sc hsc; rw [tdcRelabel_length, hsc, ht]; simp
  have hrel' : ∀ sc : List α, sc.length = (gather rows p).length →
      (tdcRelabel le thr (gather targets p) sc).length = (gather rows p).length := by
    intro sc hsc; rw [tdcRelabel_length, hsc, hgt, hgr]; simp
  simp only [runFrom, ← hit, ← hov]
  split
  · exact ⟨rfl, rfl, List.Forall₂.nil⟩
  rw [fitLoop_eq_specGo est _ cfg1.shuffle cfg1.perm cfg1.maxIter th0 (gather rows p) (gather st.labels p)
      (by rw [hgr]; exact hp1) (by rw [hgs, hgr]) hrel',
    fitLoop_eq_specGo est _ cfg2.shuffle cfg2.perm cfg1.maxIter th0 rows st.labels hp2 hlen hrel]
  obtain ⟨h1, h2⟩ := specGo_row_perm est hfit (tdcRelabel le thr targets) (tdcRelabel le thr (gather targets p)) p
    rows.length hp rows rfl hrel
    (fun sc hsc => tdcRelabel_equivariant le hle thr targets sc p rows.length hp ht hsc)
    (if cfg2.shuffle = true then cfg2.perm else List.range rows.length)
    (if cfg1.shuffle = true then cfg1.perm else List.range (gather rows p).length)
    (by split; exact hp2; exact List.Perm.refl _)
    (by rw [hgr]; split; exact hp1; exact List.Perm.refl _)
    cfg1.maxIter th0 st.labels hlen
  unfold afterLoop
  rw [h1]
  cases (specGo est (tdcRelabel le thr targets) (if cfg2.shuffle = true then cfg2.perm else List.range rows.length) rows
      cfg1.maxIter th0 st.labels).final with
  | none => exact ⟨rfl, rfl, h2⟩
  | some res =>
    simp only [Option.map_some, Option.getD_some, finish]
    rw [numPos_gather st.labels p (by rw [hlen]; exact hp)]
    split
    · exact ⟨rfl, rfl, h2⟩
    · exact ⟨rfl, rfl, h2⟩

/-- the examples handed to the search for the row-permuted data are a permutation of those for the
original data, whatever the two presentation orders -/
theorem cvSpec_row_perm (rows : List ρ) (start : List Int) (p o o' : List Nat) (n : Nat) (hr : rows.length = n)
    (hs : start.length = n) (hp : p.Perm (List.range n)) (ho : o.Perm (List.range n)) (ho' : o'.Perm (List.range n)) :
    (cvSpec o' (gather rows p) (gather start p)).Perm (cvSpec o rows start) := by
  have hlt := perm_range_lt hp
  have hpl : p.length = n := by simpa using hp.length_eq
  have hgr : (gather rows p).length = n := by rw [gather_length rows p (by rw [hr]; exact hlt), hpl]
  have hgs : (gather start p).length = n := by rw [gather_length start p (by rw [hs]; exact hlt), hpl]
  unfold cvSpec
  refine (filterMap_pairAt_perm _ _ o' n ho' hgr hgs).trans ?_
  rw [trainSet_gather rows start p (by rw [hr]; exact hlt) (by rw [hs]; exact hlt)]
  exact (filterMap_pairAt_perm rows start p n hp hr hs).trans (filterMap_pairAt_perm rows start o n ho hr hs).symm

/-! ### the by-name scores of a row-permuted dataset -/

theorem selectByName_permuteRows [DecidableEq ν] (stored : List ν) (named : List (ν × List α)) (p : List Nat) :
    selectByName stored (permuteRows named p) = (selectByName stored named).map (fun sel => sel.map (fun c => gather c p)) := by
  unfold selectByName
  rw [permuteRows_names]
  split
  · simp only [Option.map_some]
    congr 1
    rw [List.map_filterMap]
    apply List.filterMap_congr
    intro nm _
    exact lookupCol_permuteRows named p nm
  · rfl

theorem selectByName_col_length [DecidableEq ν] (stored : List ν) (named : List (ν × List α)) (n : Nat)
    (hn : ∀ c ∈ named, c.2.length = n) (sel : List (List α)) (h : selectByName stored named = some sel) :
    ∀ c ∈ sel, c.length = n := by
  unfold selectByName at h
  split at h
  · simp only [Option.some.injEq] at h
    subst h
    intro c hc
    rw [List.mem_filterMap] at hc
    obtain ⟨nm, _, hnm⟩ := hc
    exact hn (nm, c) (lookupCol_mem named nm c hnm)
  · simp at h

theorem predictByName_permuteRows [DecidableEq ν] (score : List α → β) (stored : List ν) (n : Nat)
    (named : List (ν × List α)) (hn : ∀ c ∈ named, c.2.length = n) (p : List Nat) (hp : p.Perm (List.range n)) :
    predictByName score stored n (permuteRows named p) = (predictByName score stored n named).map (fun s => gather s p) := by
  unfold predictByName
  rw [selectByName_permuteRows]
  cases hsel : selectByName stored named with
  | none => rfl
  | some sel =>
    simp only [Option.map_some]
    rw [rowsOf_gather n sel (selectByName_col_length stored named n hn sel hsel) p hp, gather_map]

theorem trainedStart_gather (le : α → α → Bool) (hle : TotalPre le) (thr : Rat) (targets : List Bool)
    (scores : List α) (p : List Nat) (hp : p.Perm (List.range targets.length)) (hs : scores.length = targets.length) :
    trainedStart le thr (gather targets p) (gather scores p)
      = (trainedStart le thr targets scores).map (fun st => ⟨gather st.labels p, st.featPass⟩) := by
  unfold trainedStart
  have hl : (tdcRelabel le thr targets scores).length = targets.length := by
    rw [tdcRelabel_length, hs]; simp
  rw [tdcRelabel_equivariant le hle thr targets scores p targets.length hp rfl hs,
    numPos_gather _ p (by rw [hl]; exact hp)]
  split <;> rfl

end Mk.Fit
