import MokapotVerif.Lemmas.PepxmlTable
import Mathlib.Tactic.Ring
/-!
# Feature post-processing, accessions, charge columns
-/
namespace Mk.Pepxml

/-! ### accession = text before the first blank -/

theorem blank_not_mem_accession (attr : Str) : ' ' ∉ accession attr := by
  unfold accession
  induction attr with
  | nil => simp
  | cons c cs ih =>
    by_cases hc : c = ' '
    · simp [hc]
    · have : (c != ' ') = true := by simpa using hc
      simp only [List.takeWhile_cons, this, if_true, List.mem_cons, not_or]
      exact ⟨fun e => hc e.symm, ih⟩

theorem accession_spec (attr : Str) :
    ∃ rest, attr = accession attr ++ rest ∧ ' ' ∉ accession attr ∧ (rest = [] ∨ rest.head? = some ' ') := by
  refine ⟨attr.dropWhile (fun c => c != ' '), ?_, ?_, ?_⟩
  · exact (List.takeWhile_append_dropWhile (p := fun c => c != ' ') (l := attr)).symm
  · exact blank_not_mem_accession attr
  · induction attr with
    | nil => simp
    | cons c cs ih =>
      by_cases hc : c = ' '
      · right; simp [hc]
      · have : (c != ' ') = true := by simpa using hc
        simpa [List.dropWhile_cons, this] using ih

/-! ### min / max of rationals -/

theorem foldl_min_le_init (xs : List Rat) (a : Rat) : xs.foldl min a ≤ a := by
  induction xs generalizing a with
  | nil => simp
  | cons x xs ih => exact le_trans (ih _) (min_le_left _ _)

theorem foldl_min_le_mem (xs : List Rat) (a x : Rat) (h : x ∈ xs) : xs.foldl min a ≤ x := by
  induction xs generalizing a with
  | nil => simp at h
  | cons y ys ih =>
    rw [List.foldl_cons]
    rcases List.mem_cons.mp h with rfl | h
    · exact le_trans (foldl_min_le_init ys _) (min_le_right _ _)
    · exact ih _ h

theorem foldl_min_mem (xs : List Rat) (a : Rat) : xs.foldl min a = a ∨ xs.foldl min a ∈ xs := by
  induction xs generalizing a with
  | nil => simp
  | cons y ys ih =>
    rcases ih (min a y) with h | h
    · rw [List.foldl_cons, h]
      rcases min_choice a y with h' | h'
      · exact Or.inl h'
      · exact Or.inr (by simp [h'])
    · exact Or.inr (by simp [h])

theorem minRat_le (xs : List Rat) (x : Rat) (h : x ∈ xs) : minRat xs ≤ x := by
  cases xs with
  | nil => simp at h
  | cons y ys =>
    rcases List.mem_cons.mp h with rfl | h
    · exact foldl_min_le_init _ _
    · exact foldl_min_le_mem _ _ _ h

theorem minRat_mem (xs : List Rat) (h : xs ≠ []) : minRat xs ∈ xs := by
  cases xs with
  | nil => exact absurd rfl h
  | cons y ys =>
    rcases foldl_min_mem ys y with h' | h'
    · simp [minRat, h']
    · simp [minRat, h']

theorem foldl_max_ge_init (xs : List Rat) (a : Rat) : a ≤ xs.foldl max a := by
  induction xs generalizing a with
  | nil => simp
  | cons x xs ih => exact le_trans (le_max_left _ _) (ih _)

theorem foldl_max_ge_mem (xs : List Rat) (a x : Rat) (h : x ∈ xs) : x ≤ xs.foldl max a := by
  induction xs generalizing a with
  | nil => simp at h
  | cons y ys ih =>
    rw [List.foldl_cons]
    rcases List.mem_cons.mp h with rfl | h
    · exact le_trans (le_max_right _ _) (foldl_max_ge_init ys _)
    · exact ih _ h

theorem le_maxRat (xs : List Rat) (x : Rat) (h : x ∈ xs) : x ≤ maxRat xs := by
  cases xs with
  | nil => simp at h
  | cons y ys =>
    rcases List.mem_cons.mp h with rfl | h
    · exact foldl_max_ge_init _ _
    · exact foldl_max_ge_mem _ _ _ h

/-! ### `log10` is only ever applied to positive numbers -/

/-- the argument of the symbolic `log10` is positive -/
def FV.argPos : FV → Prop
  | .missing => True
  | .plain _ => True
  | .log v => 0 < v
  | .logFill m => 0 < m
  | .sci r _ => 0 < r

theorem pow10_pos (k : Int) : 0 < pow10 k := by
  unfold pow10
  exact zpow_pos (by norm_num) k

theorem mem_presentVals (col : Col) (n : Num) (h : some n ∈ col) : n.val ∈ presentVals col := by
  unfold presentVals
  rw [List.mem_filterMap]
  exact ⟨some n, h, rfl⟩

theorem logFeature_argPos (col : Col) : ∀ fv ∈ logFeature col, fv.argPos := by
  intro fv hfv
  unfold logFeature at hfv
  split at hfv
  · -- scientific branch: every value is positive
    rename_i hcond
    have hpos : allPos col = true := by
      rw [Bool.and_eq_true] at hcond; exact hcond.2
    unfold sciBranch at hfv
    split at hfv
    · obtain ⟨c, hc, rfl⟩ := List.mem_map.mp hfv
      cases c with
      | none => simp [sciCell, FV.argPos]
      | some n =>
        have := (List.all_eq_true.mp hpos) (some n) hc
        simp only [Option.any_some, Num.val] at this
        have this := of_decide_eq_true this
        simp only [sciCell, Option.map_some, Option.getD_some, FV.argPos]
        exact (mul_pos_iff_of_pos_right (pow10_pos _)).mp this
    · obtain ⟨c, _, rfl⟩ := List.mem_map.mp hfv
      cases c <;> simp [plainCell, FV.argPos]
  · unfold stdBranch at hfv
    simp only [] at hfv
    have plainOk : ∀ fv ∈ col.map plainCell, fv.argPos := by
      intro fv h
      obtain ⟨c, _, rfl⟩ := List.mem_map.mp h
      cases c <;> simp [plainCell, FV.argPos]
    split_ifs at hfv with h1 h2 h3 h4 h5
    all_goals first
      | exact plainOk fv hfv
      | skip
    -- logarithm branch
    have hmin : 0 ≤ minRat (presentVals col) := not_lt.mp h2
    have hnz : (presentVals col).filter (fun v => v != 0) ≠ [] := by
      simpa [List.isEmpty_iff] using h4
    have hm := minRat_mem _ hnz
    rw [List.mem_filter] at hm
    have hmpos : 0 < minRat ((presentVals col).filter (fun v => v != 0)) := by
      have h0 : minRat ((presentVals col).filter (fun v => v != 0)) ≠ 0 := by simpa using hm.2
      exact lt_of_le_of_ne (le_trans hmin (minRat_le _ _ hm.1)) (Ne.symm h0)
    obtain ⟨c, hc, rfl⟩ := List.mem_map.mp hfv
    cases c with
    | none => simp [logCell, FV.argPos]
    | some n =>
      simp only [logCell, Option.map_some, Option.getD_some]
      split
      · exact hmpos
      · rename_i hne
        have hne' : n.val ≠ 0 := by simpa using hne
        have := le_trans hmin (minRat_le _ _ (mem_presentVals col n hc))
        exact lt_of_le_of_ne this (Ne.symm hne')

/-! ### when the column is left as it is -/

/-- a column with a negative value is never transformed -/
theorem logFeature_plain_of_neg (col : Col) (n : Num) (hn : some n ∈ col) (hneg : n.val < 0) :
    logFeature col = col.map plainCell := by
  have hnp : allPos col = false := by
    rw [Bool.eq_false_iff]
    intro h
    have := (List.all_eq_true.mp h) (some n) hn
    simp only [Option.any_some, decide_eq_true_eq] at this
    exact absurd hneg (not_lt.mpr (le_of_lt this))
  have hmin : minRat (presentVals col) < 0 :=
    lt_of_le_of_lt (minRat_le _ _ (mem_presentVals col n hn)) hneg
  unfold logFeature
  simp only [hnp, Bool.and_false, Bool.false_eq_true, if_false]
  unfold stdBranch
  simp only [hmin, if_true]
  split_ifs <;> rfl

/-- without exponent literals, a column whose values span less than four orders
of magnitude is never transformed -/
theorem logFeature_plain_of_narrow (col : Col) (he : hasE col = false)
    (hr : maxRat (presentVals col) / minRat ((presentVals col).filter (fun v => v != 0)) < 10000) :
    logFeature col = col.map plainCell := by
  unfold logFeature
  simp only [he, Bool.false_and, Bool.false_eq_true, if_false]
  unfold stdBranch
  simp only []
  split_ifs with h1 h2 h3 h4 h5
  all_goals first
    | rfl
    | exact absurd hr (not_lt.mpr h5)

/-- with exponent literals and only positive values, exponents spanning less than four
orders of magnitude leave the column as it is, otherwise every cell is `log10(root) + pow` -/
theorem logFeature_sci (col : Col) (he : hasE col = true) (hp : allPos col = true) :
    logFeature col = if 4 ≤ (maxInt (col.map cellPow) - minInt (col.map cellPow)).natAbs
      then col.map sciCell else col.map plainCell := by
  unfold logFeature sciBranch
  simp [he, hp]

/-! ### charge columns -/

theorem mem_insLevel (z x : Int) (l : List Int) : x ∈ insLevel z l ↔ x = z ∨ x ∈ l := by
  induction l with
  | nil => simp [insLevel]
  | cons y ys ih =>
    unfold insLevel
    split_ifs with h1 h2
    · simp
    · subst h2; simp
    · simp only [List.mem_cons, ih]; tauto

theorem sorted_insLevel (z : Int) (l : List Int) (h : l.Pairwise (· < ·)) :
    (insLevel z l).Pairwise (· < ·) := by
  induction l with
  | nil => simp [insLevel]
  | cons y ys ih =>
    obtain ⟨hy, hys⟩ := List.pairwise_cons.mp h
    unfold insLevel
    split_ifs with h1 h2
    · refine List.pairwise_cons.mpr ⟨?_, h⟩
      intro a ha
      rcases List.mem_cons.mp ha with rfl | ha
      · exact h1
      · exact lt_trans h1 (hy a ha)
    · exact h
    · refine List.pairwise_cons.mpr ⟨?_, ih hys⟩
      intro a ha
      rcases (mem_insLevel z a ys).mp ha with rfl | ha
      · omega
      · exact hy a ha

theorem mem_chargeLevels (zs : List Int) (x : Int) : x ∈ chargeLevels zs ↔ x ∈ zs := by
  induction zs with
  | nil => simp [chargeLevels]
  | cons z zs ih =>
    have : chargeLevels (z :: zs) = insLevel z (chargeLevels zs) := rfl
    rw [this, mem_insLevel, ih]; simp

theorem sorted_chargeLevels (zs : List Int) : (chargeLevels zs).Pairwise (· < ·) := by
  induction zs with
  | nil => simp [chargeLevels]
  | cons z zs ih => exact sorted_insLevel z _ ih

theorem filter_eq_of_sorted (l : List Int) (z : Int) (h : l.Pairwise (· < ·)) (hz : z ∈ l) :
    l.filter (fun y => decide (z = y)) = [z] := by
  induction l with
  | nil => simp at hz
  | cons y ys ih =>
    obtain ⟨hy, hys⟩ := List.pairwise_cons.mp h
    by_cases hzy : z = y
    · subst hzy
      have : ys.filter (fun y => decide (z = y)) = [] := by
        rw [List.filter_eq_nil_iff]
        intro a ha
        have := hy a ha
        simp only [decide_eq_true_eq]
        omega
      simp [this]
    · have hz' : z ∈ ys := by
        rcases List.mem_cons.mp hz with h | h
        · exact absurd h hzy
        · exact h
      simp [hzy, ih hys hz']

/-! ### columns of the final table -/

theorem postProcess_names (fr : Frame) :
    (postProcess fr).feats.map (·.1)
      = fr.cols ++ (["mass_diff", "abs_mz_diff"]
          ++ (chargeLevels (fr.rows.map (·.charge))).map (fun z => "charge_" ++ toString z)) := by
  simp [postProcess, featCol, chargeCol, List.map_map, Function.comp_def]

theorem postProcess_lengths (fr : Frame) :
    ∀ kc ∈ (postProcess fr).feats, kc.2.length = fr.rows.length := by
  intro kc h
  simp only [postProcess, List.mem_append, List.mem_map, List.mem_cons, List.not_mem_nil, or_false] at h
  rcases h with ⟨k, _, rfl⟩ | (rfl | rfl) | ⟨z, _, rfl⟩
  · simp only [featCol]
    split <;> simp [length_logFeature, rawColumn]
  · simp [length_logFeature]
  · simp [length_logFeature]
  · simp [chargeCol]

theorem lookup_some_of_mem_keys {β : Type} (l : List (String × β)) (k : String) (h : k ∈ l.map (·.1)) :
    ∃ v, l.lookup k = some v := by
  induction l with
  | nil => simp at h
  | cons kv rest ih =>
    obtain ⟨a, b⟩ := kv
    rw [lookup_cons_ite]
    by_cases hk : k = a
    · exact ⟨b, by simp [hk]⟩
    · have : k ∈ rest.map (·.1) := by
        simp only [List.map_cons, List.mem_cons] at h
        exact h.resolve_left hk
      obtain ⟨v, hv⟩ := ih this
      exact ⟨v, by simp [hk, hv]⟩

/-- the raw cell of a PSM under one of its score names is the last score of that name -/
theorem psm_score_cell (pfx : Str) (si : SpecInfo) (h : Hit) (n : String) (hn : n ∈ (scoresOf h).map (·.1)) :
    ∃ v, specScore h n = some v ∧ ((parsePsm pfx si h).feats.lookup n).map cellNum = some v := by
  have hn' : n ∈ (scoresOf h).reverse.map (·.1) := by simpa using hn
  obtain ⟨v, hv⟩ := lookup_some_of_mem_keys _ n hn'
  refine ⟨v, hv, ?_⟩
  rw [parsePsm_feats, lookup_foldl_scoreStep]
  simp [hv, cellNum]

/-! ### mass-difference columns -/

theorem pow10_zero : pow10 0 = 1 := by simp [pow10]

/-- the literal that `str(float)` writes denotes the same number -/
theorem reprNum_val (v : Rat) : (reprNum v).val = v := by
  unfold reprNum
  split
  · simp [Num.val, pow10_zero]
  · split
    · simp only [Num.val, Option.getD_some]
      exact div_mul_cancel₀ v (ne_of_gt (pow10_pos _))
    · simp [Num.val, pow10_zero]

/-- the proton mass cancels: |exp/z + p − (calc/z + p)| = |(exp − calc)/z| -/
theorem absMzDiff_eq (r : Row) : absMzDiff r = ratAbs ((r.expMass - r.calcMass) / r.charge) := by
  unfold absMzDiff
  congr 1
  rw [sub_div]
  ring

theorem postProcess_mass_cols (fr : Frame) :
    ("mass_diff", logFeature (fr.rows.map (fun r => some (reprNum (massDiff r))))) ∈ (postProcess fr).feats ∧
    ("abs_mz_diff", logFeature (fr.rows.map (fun r => some (reprNum (absMzDiff r))))) ∈ (postProcess fr).feats := by
  simp [postProcess]

end Mk.Pepxml
