import MokapotVerif.Model.TdcExt2
import MokapotVerif.Lemmas.TdcExt
import MokapotVerif.Props.C02Multi
/-!
# Helper lemmas for the second C04 extension (model objects, reset path, chunk range)
-/
namespace Mk.TdcX
open Mk

/-! ## the mean over one model is that model -/

theorem ensembleSpec_one {ρ : Type} (rows : List ρ) (orig : ρ → Rat) :
    ensembleSpec rows 1 (fun _ => orig) = rows.map orig := by
  unfold ensembleSpec
  apply List.map_congr_left
  intro r _
  simp

theorem resetScores_eq_spec {ρ : Type} (c : Nat) (hc : 0 < c) (rows : List ρ) (orig : ρ → Rat)
    (target : ρ → Bool) (calAll : List (Rat × Bool) → List Rat) :
    resetScores c rows orig target calAll = resetSpec rows orig target calAll := by
  unfold resetScores resetSpec
  rw [predictEnsemble_eq_spec c hc, ensembleSpec_one]

/-! ## the fit loop -/

section fit
variable {σ τ : Type} (fit : σ → τ → σ) (worse : σ → τ → Bool) (trained : σ → Bool) (init : σ)

theorem fitCopies_length (tables : List τ) :
    (fitCopies fit worse trained init tables).2.length = tables.length := by
  simp [fitCopies]

theorem copyState_fitCopies [Inhabited σ] (tables : List τ) (f : Nat) (hf : f < tables.length) :
    copyState (fitCopies fit worse trained init tables).2 f = fit init tables[f] := by
  simp [copyState, fitCopies, List.getD_eq_getElem?_getD, List.getElem?_map,
    List.getElem?_eq_getElem hf]

theorem anyReset_fitCopies (tables : List τ) :
    anyReset (fitCopies fit worse trained init tables).2 = true
      ↔ trained init = true ∧ ∃ t ∈ tables, worse init t = true := by
  simp only [anyReset, fitCopies, List.any_map, List.any_eq_true, Function.comp, resetFlag,
    Bool.and_eq_true]
  constructor
  · rintro ⟨t, ht, hw, htr⟩; exact ⟨htr, t, ht, hw⟩
  · rintro ⟨htr, t, ht, hw⟩; exact ⟨t, ht, hw, htr⟩

theorem allTrained_fitCopies (tables : List τ) :
    allTrained (fitCopies fit worse trained init tables).2 = true
      ↔ trained init = true ∨ ∀ t ∈ tables, worse init t = false := by
  simp only [allTrained, fitCopies, List.all_map, List.all_eq_true, Function.comp, trainedAfter,
    Bool.or_eq_true, Bool.not_eq_true']
  constructor
  · intro h
    by_cases htr : trained init = true
    · exact Or.inl htr
    · refine Or.inr (fun t ht => ?_)
      rcases h t ht with h | h
      · exact h
      · exact absurd h htr
  · rintro (h | h) t ht
    · exact Or.inr h
    · exact Or.inl (h t ht)

end fit

/-! ## membership in the training indices of the chunked loop -/

theorem mem_complementLoop (cr ds : Nat) (fold : List Nat) (fuel i : Nat) :
    i ∈ Brew.complementLoop cr ds fold fuel 0 ↔ i < ds ∧ i ∉ fold := by
  rw [Brew.C02_train_loop_eq_complement]
  unfold Brew.complement
  simp [List.mem_filter, List.mem_range]

/-! ## calibration that is a pointwise map -/

theorem zip_map_fst_map {ρ : Type} (rows : List ρ) (a : ρ → Rat) (b : ρ → Bool) (h : Rat → Rat) :
    ((rows.map a).zip (rows.map b)).map (fun x => h x.1) = rows.map (fun r => h (a r)) := by
  rw [List.zip_map', List.map_map]
  rfl

end Mk.TdcX
