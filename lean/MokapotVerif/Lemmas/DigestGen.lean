import MokapotVerif.Lemmas.DigestSpec
import MokapotVerif.Model.DigestPat
/-!
The double loop of `_cleave` over a list of sites of the shape

    (positions `≤ n` satisfying `P`, in increasing order) ++ [n]        (`P 0`)

is the specification `DigestSpecS` for the cleavage positions `P p ∨ p = n`, plus
the empty peptide when `min_length = 0` and `P n` (the two last sites are equal).
No hypothesis on the bounds.  Both the one-residue enzymes of `Model/Digest.lean`
and the general patterns of `Model/DigestPat.lean` are instances.
-/
namespace Mk

/-- the list of sites for the inner-site predicate `P` -/
def sitesOf (P : Nat → Bool) (n : Nat) : List Nat := (List.range (n + 1)).filter P ++ [n]

/-- the cleavage positions that go with it -/
def siteOf (P : Nat → Bool) (n : Nat) (p : Nat) : Bool := P p || p == n

theorem sitesOf_getElem? (P : Nat → Bool) (n j b : Nat) :
    (sitesOf P n)[j]? = some b ↔
      (b ≤ n ∧ P b = true ∧ rank P b = j) ∨ (j = rank P (n + 1) ∧ b = n) := by
  unfold sitesOf
  by_cases hj : j < ((List.range (n + 1)).filter P).length
  · rw [List.getElem?_append_left hj, getElem?_filter_range]
    rw [length_filter_range] at hj
    constructor
    · rintro ⟨h1, h2, h3⟩; exact Or.inl ⟨by omega, h2, h3⟩
    · rintro (⟨h1, h2, h3⟩ | ⟨h1, h2⟩)
      · exact ⟨by omega, h2, h3⟩
      · omega
  · have hj' := Nat.le_of_not_lt hj
    rw [List.getElem?_append_right hj']
    rw [length_filter_range] at hj hj' ⊢
    constructor
    · intro h
      rw [getElem?_singleton_some] at h
      exact Or.inr ⟨by omega, h.2.symm⟩
    · rintro (⟨h1, h2, h3⟩ | ⟨h1, h2⟩)
      · exfalso
        have := rank_mono P (show b + 1 ≤ n + 1 by omega)
        rw [rank_succ, h2] at this
        simp at this; omega
      · subst h1 h2; simp

theorem siteOf_eq_inner (P : Nat → Bool) (n p : Nat) (h : p ≠ n) : siteOf P n p = P p := by
  unfold siteOf
  have : (p == n) = false := by simpa using h
  rw [this]; simp

theorem rank_pos_of_zero (P : Nat → Bool) (h0 : P 0 = true) {a : Nat} (h : 0 < a) : 0 < rank P a := by
  have := rank_mono P (show 0 + 1 ≤ a by omega)
  rw [rank_succ, h0] at this
  simp at this; omega

theorem rank_lt_of_lt (P : Nat → Bool) {a b : Nat} (ha : P a = true) (h : a < b) : rank P a < rank P b := by
  have := rank_mono P (show a + 1 ≤ b by omega)
  rw [rank_succ, ha] at this
  simp at this; omega

/-- missed cleavages between two positions = difference of ranks − 1 -/
theorem missedS_rank (P : Nat → Bool) (n a b : Nat) (hab : a < b) (hb : b ≤ n) :
    missedS (siteOf P n) a b + rank P (a + 1) = rank P b := by
  obtain ⟨c, rfl⟩ : ∃ c, b = a + 1 + c := ⟨b - (a + 1), by omega⟩
  clear hab
  induction c with
  | zero =>
    have : missedS (siteOf P n) a (a + 1) = 0 := by
      unfold missedS
      rw [List.countP_eq_zero]
      intro p hp
      rw [List.mem_range] at hp
      simp; omega
    rw [Nat.add_zero]; omega
  | succ c ih =>
    have ih := ih (by omega)
    have hstep : missedS (siteOf P n) a (a + 1 + c + 1)
        = missedS (siteOf P n) a (a + 1 + c) + (if P (a + 1 + c) then 1 else 0) := by
      unfold missedS
      rw [List.range_succ, List.countP_append]
      have hab' : a < a + 1 + c := by omega
      simp [List.countP_cons, hab', siteOf_eq_inner P n (a + 1 + c) (by omega)]
    rw [show a + 1 + (c + 1) = a + 1 + c + 1 by omega, hstep, rank_succ _ (a + 1 + c)]; omega

/-- two sites at indices `i < i + d`: in order, or both the sequence end -/
theorem sitesOf_pair_order (P : Nat → Bool) (n i d a b : Nat)
    (ha : (sitesOf P n)[i]? = some a) (hb : (sitesOf P n)[i + d]? = some b) (hd : 1 ≤ d) :
    a < b ∨ (a = n ∧ b = n ∧ P n = true ∧ i = rank P n ∧ d = 1) := by
  rw [sitesOf_getElem?] at ha hb
  rcases ha with ⟨a1, a2, a3⟩ | ⟨a1, a2⟩
  · rcases hb with ⟨b1, b2, b3⟩ | ⟨b1, b2⟩
    · left
      apply Decidable.byContradiction
      intro hn
      have := rank_mono P (show b ≤ a by omega)
      omega
    · subst b2
      by_cases han : a = b
      · subst han
        right
        have := rank_succ P a
        rw [a2] at this
        simp only [if_true] at this
        exact ⟨rfl, rfl, a2, a3.symm, by omega⟩
      · left; omega
  · exfalso
    rcases hb with ⟨b1, b2, b3⟩ | ⟨b1, b2⟩
    · have := rank_mono P (show b ≤ n + 1 by omega)
      omega
    · omega

/-- from indices to positions -/
theorem sitesOf_pair_to_pos (P : Nat → Bool) (h0 : P 0 = true) (n i d a b : Nat)
    (ha : (sitesOf P n)[i]? = some a) (hb : (sitesOf P n)[i + d]? = some b)
    (hab : a < b) (hd : 1 ≤ d) :
    b ≤ n ∧ siteOf P n a = true ∧ siteOf P n b = true ∧ missedS (siteOf P n) a b ≤ d - 1
      ∧ (i = 0 ↔ a = 0) := by
  rw [sitesOf_getElem?] at ha hb
  have hbn : b ≤ n := by
    rcases hb with ⟨h, -, -⟩ | ⟨-, h⟩ <;> omega
  have ha' : P a = true ∧ rank P a = i := by
    rcases ha with ⟨-, h2, h3⟩ | ⟨-, h⟩
    · exact ⟨h2, h3⟩
    · omega
  obtain ⟨ha1, ha2⟩ := ha'
  have hm := missedS_rank P n a b hab hbn
  rw [rank_succ, ha1] at hm
  simp only [if_true] at hm
  refine ⟨hbn, ?_, ?_, ?_, ?_⟩
  · rw [siteOf_eq_inner P n a (by omega)]; exact ha1
  · rcases hb with ⟨-, h2, -⟩ | ⟨-, h⟩
    · unfold siteOf; rw [h2]; rfl
    · subst h; simp [siteOf]
  · rcases hb with ⟨-, -, h3⟩ | ⟨h, hbe⟩
    · omega
    · subst hbe
      have := rank_mono P (Nat.le_add_right b 1)
      omega
  · constructor
    · intro hi
      apply Decidable.byContradiction
      intro hne
      have := rank_pos_of_zero P h0 (show 0 < a by omega)
      omega
    · intro h0'
      subst h0'
      rw [← ha2]; rfl

/-- from positions to indices -/
theorem pos_pair_to_sitesOf (P : Nat → Bool) (n a b : Nat)
    (hab : a < b) (hbn : b ≤ n) (ha : siteOf P n a = true) (hb : siteOf P n b = true) :
    ∃ i d, (sitesOf P n)[i]? = some a ∧ (sitesOf P n)[i + d]? = some b
      ∧ 1 ≤ d ∧ d ≤ missedS (siteOf P n) a b + 1 ∧ (a = 0 → i = 0) := by
  have ha1 : P a = true := by
    rw [← siteOf_eq_inner P n a (by omega)]; exact ha
  have hm := missedS_rank P n a b hab hbn
  rw [rank_succ, ha1] at hm
  simp only [if_true] at hm
  refine ⟨rank P a, missedS (siteOf P n) a b + 1, ?_, ?_, by omega, by omega, ?_⟩
  · rw [sitesOf_getElem?]; exact Or.inl ⟨by omega, ha1, rfl⟩
  · rw [sitesOf_getElem?]
    by_cases hbi : P b = true
    · exact Or.inl ⟨hbn, hbi, by omega⟩
    · have hbe : b = n := by
        apply Decidable.byContradiction
        intro hne
        rw [siteOf_eq_inner P n b hne] at hb
        exact hbi hb
      subst hbe
      refine Or.inr ⟨?_, rfl⟩
      rw [rank_succ]
      simp only [hbi]
      simp only [Bool.false_eq_true, if_false]
      omega
  · intro h0; subst h0; rfl

/-! ## main equivalence, all bounds -/

theorem slice_self_nil (seq : List Char) (a : Nat) (h : seq.length ≤ a) : slice seq a a = [] := by
  unfold slice
  rw [List.drop_eq_nil_iff, List.length_take]; omega

theorem mem_cleave_sitesOf (P : Nat → Bool) (h0 : P 0 = true) (seq : List Char) (mc lo hi : Nat)
    (clip semi : Bool) (p : Pep) :
    p ∈ cleave seq (sitesOf P seq.length) mc lo hi semi clip ↔
      DigestSpecS (siteOf P seq.length) seq mc lo hi clip semi p
        ∨ (lo = 0 ∧ p = [] ∧ P seq.length = true) := by
  unfold DigestSpecS
  rw [mem_cleave]
  constructor
  · rintro ⟨i, d, a, b, ha, d1, d2, hb, hp⟩
    rcases sitesOf_pair_order P seq.length i d a b ha hb d1 with hab | ⟨ea, eb, hn, -, -⟩
    · left
      rw [mem_pepsOf, slice_length] at hp
      obtain ⟨l1, l2, hp⟩ := hp
      obtain ⟨hbn, sa, sb, hm, hi0⟩ := sitesOf_pair_to_pos P h0 seq.length i d a b ha hb hab d1
      have hmin : min b seq.length = b := Nat.min_eq_left hbn
      rw [hmin] at l1 l2 hp
      refine ⟨a, b, ⟨hab, hbn, sa, sb, by omega, l1, l2⟩, ?_⟩
      rcases hp with hp | ⟨c1, c2, c3, c4, c5⟩ | ⟨s1, k, k1, k2, k3, k4⟩
      · exact Or.inl hp
      · have ha0 : a = 0 := hi0.mp c2
        subst ha0
        rw [slice_head seq b hab] at c3
        rw [slice_drop] at c5
        exact Or.inr (Or.inl ⟨c1, rfl, c3, by omega, by simpa using c5⟩)
      · refine Or.inr (Or.inr ⟨s1, k, k1, k2, k3, ?_⟩)
        rw [slice_drop, slice_take seq a b k (by omega)] at k4
        exact k4
    · right
      subst ea eb
      rw [slice_self_nil seq _ (Nat.le_refl _), mem_pepsOf] at hp
      obtain ⟨l1, -, hp⟩ := hp
      simp only [List.length_nil] at l1
      refine ⟨by omega, ?_, hn⟩
      rcases hp with hp | ⟨-, -, c3, -, -⟩ | ⟨-, k, k1, k2, -, -⟩
      · exact hp
      · simp at c3
      · simp only [List.length_nil] at k2; omega
  · rintro (⟨a, b, ⟨hab, hbn, sa, sb, hm, l1, l2⟩, hp⟩ | ⟨hlo, hp, hn⟩)
    · obtain ⟨i, d, ha, hb, d1, d2, hi0⟩ := pos_pair_to_sitesOf P seq.length a b hab hbn sa sb
      refine ⟨i, d, a, b, ha, d1, by omega, hb, ?_⟩
      rw [mem_pepsOf, slice_length]
      have hmin : min b seq.length = b := Nat.min_eq_left hbn
      rw [hmin]
      refine ⟨l1, l2, ?_⟩
      rcases hp with hp | ⟨c1, c2, c3, c4, c5⟩ | ⟨s1, k, k1, k2, k3, k4⟩
      · exact Or.inl hp
      · subst c2
        refine Or.inr (Or.inl ⟨c1, hi0 rfl, ?_, by omega, ?_⟩)
        · rw [slice_head seq b hab]; exact c3
        · rw [slice_drop]; simpa using c5
      · refine Or.inr (Or.inr ⟨s1, k, k1, k2, k3, ?_⟩)
        rw [slice_drop, slice_take seq a b k (by omega)]
        exact k4
    · subst hlo hp
      refine ⟨rank P seq.length, 1, seq.length, seq.length, ?_, Nat.le_refl _, by omega, ?_, ?_⟩
      · rw [sitesOf_getElem?]; exact Or.inl ⟨Nat.le_refl _, hn, rfl⟩
      · rw [sitesOf_getElem?]
        refine Or.inr ⟨?_, rfl⟩
        rw [rank_succ, hn]; rfl
      · rw [slice_self_nil seq _ (Nat.le_refl _), mem_pepsOf]
        exact ⟨Nat.zero_le _, Nat.zero_le _, Or.inl rfl⟩

/-- the enumeration `specListS` is `DigestSpecS` -/
theorem mem_specListS (S : Nat → Bool) (seq : List Char) (mc lo hi : Nat) (clip semi : Bool) (p : Pep) :
    p ∈ specListS S seq mc lo hi clip semi ↔ DigestSpecS S seq mc lo hi clip semi p := by
  unfold specListS DigestSpecS
  simp only [List.mem_flatMap, List.mem_range]
  constructor
  · rintro ⟨a, -, b, -, hp⟩
    unfold specAtS at hp
    by_cases hE : EnzymaticS S seq.length mc lo hi a b
    · rw [if_pos hE] at hp
      refine ⟨a, b, hE, ?_⟩
      simp only [List.mem_cons, List.mem_append] at hp
      rcases hp with hp | hp | hp
      · exact Or.inl hp
      · by_cases hc : (clip && a == 0 && seq.head? == some 'M' && decide (lo ≤ b - 1)) = true
        · rw [if_pos hc] at hp
          simp only [Bool.and_eq_true, beq_iff_eq, decide_eq_true_eq] at hc
          obtain ⟨⟨⟨c1, c2⟩, c3⟩, c4⟩ := hc
          exact Or.inr (Or.inl ⟨c1, c2, c3, c4, by simpa using hp⟩)
        · rw [if_neg hc] at hp; simp at hp
      · cases semi
        · simp at hp
        · simp only [if_true, List.mem_flatMap, List.mem_range] at hp
          obtain ⟨k, hk, hp⟩ := hp
          by_cases hc : (decide (1 ≤ k) && decide (lo ≤ b - a - k)) = true
          · rw [if_pos hc] at hp
            simp only [Bool.and_eq_true, decide_eq_true_eq] at hc
            simp only [List.mem_cons, List.not_mem_nil, or_false] at hp
            exact Or.inr (Or.inr ⟨rfl, k, hc.1, hk, hc.2, hp⟩)
          · rw [if_neg hc] at hp; simp at hp
    · rw [if_neg hE] at hp; simp at hp
  · rintro ⟨a, b, hE, hp⟩
    have hE' := hE
    obtain ⟨hab, hbn, -⟩ := hE'
    refine ⟨a, by omega, b, by omega, ?_⟩
    unfold specAtS
    rw [if_pos hE]
    simp only [List.mem_cons, List.mem_append]
    rcases hp with hp | ⟨c1, c2, c3, c4, c5⟩ | ⟨s1, k, k1, k2, k3, k4⟩
    · exact Or.inl hp
    · refine Or.inr (Or.inl ?_)
      have hc : (clip && a == 0 && seq.head? == some 'M' && decide (lo ≤ b - 1)) = true := by
        simp [c1, c2, c3, c4]
      rw [if_pos hc]; simp [c5]
    · refine Or.inr (Or.inr ?_)
      subst s1
      simp only [if_true, List.mem_flatMap, List.mem_range]
      refine ⟨k, k2, ?_⟩
      have hc : (decide (1 ≤ k) && decide (lo ≤ b - a - k)) = true := by simp [k1, k3]
      rw [if_pos hc]
      simpa using k4

/-! ## instance 1: the one-residue enzymes, `min_length = 0` included -/

theorem siteOf_innerSite (e : Enzyme) (seq : List Char) :
    siteOf (innerSite e seq) seq.length = isSite e seq := by
  funext p
  unfold siteOf innerSite isSite
  cases (p == 0) <;> cases (p == seq.length) <;> cases (endsAt e seq p) <;> rfl

theorem digestSpecS_isSite (e : Enzyme) (seq : List Char) (mc lo hi : Nat) (clip semi : Bool) (p : Pep) :
    DigestSpecS (isSite e seq) seq mc lo hi clip semi p ↔ DigestSpec e seq mc lo hi clip semi p :=
  Iff.rfl

theorem innerSite_length (e : Enzyme) (seq : List Char) :
    innerSite e seq seq.length = endDup e seq := rfl

theorem mem_digest_iff_spec0 (e : Enzyme) (seq : List Char) (mc lo hi : Nat) (clip semi : Bool) (p : Pep) :
    p ∈ digest e seq mc lo hi clip semi ↔ DigestSpec0 e seq mc lo hi clip semi p := by
  unfold digest DigestSpec0
  rw [cleavageSites_eq]
  have h := mem_cleave_sitesOf (innerSite e seq) (innerSite_zero e seq) seq mc lo hi clip semi p
  unfold sitesOf at h
  rw [h, siteOf_innerSite, digestSpecS_isSite, innerSite_length]

theorem mem_specList0 (e : Enzyme) (seq : List Char) (mc lo hi : Nat) (clip semi : Bool) (p : Pep) :
    p ∈ specList0 e seq mc lo hi clip semi ↔ DigestSpec0 e seq mc lo hi clip semi p := by
  unfold specList0 DigestSpec0
  rw [List.mem_append, mem_specList]
  by_cases hc : (lo == 0 && endDup e seq) = true
  · rw [if_pos hc]
    simp only [Bool.and_eq_true, beq_iff_eq] at hc
    simp [hc.1, hc.2]
  · rw [if_neg hc]
    simp only [Bool.and_eq_true, beq_iff_eq] at hc
    simp only [List.not_mem_nil, or_false]
    constructor
    · exact Or.inl
    · rintro (h | ⟨h1, -, h3⟩)
      · exact h
      · exact absurd ⟨h1, h3⟩ hc

end Mk
