import MokapotVerif.Lemmas.FitLabels
/-! Helper lemmas for C12: every training set contains both classes. -/
namespace Mk.Fit
variable {α β γ ρ θ : Type}

theorem pairAt_of_label (rows : List ρ) (L : List Int) (i : Nat) (r : ρ) (l : Int) (hr : rows[i]? = some r)
    (hl : L[i]? = some l) (h0 : l ≠ 0) : pairAt rows L i = some (r, l == 1) := by
  unfold pairAt
  rw [getElem?_zip', hr, hl]
  simp [pairOf, h0]

theorem decoy_label (le : α → α → Bool) (hle : TotalPre le) (thr : Rat) (targets : List Bool) (scores : List α)
    (hlen : scores.length = targets.length) (i : Nat) (hi : targets[i]? = some false) :
    (tdcRelabel le thr targets scores)[i]? = some (-1) := by
  rw [tdcRelabel_eq_spec le hle, List.getElem?_map, getElem?_zip', hi]
  have hlt : i < targets.length := by
    by_contra h
    rw [List.getElem?_eq_none (by omega)] at hi
    simp at hi
  rw [List.getElem?_eq_getElem (by omega : i < scores.length)]
  simp [labelSpec]

theorem specGo_both_classes (est : Est ρ α θ) (le : α → α → Bool) (hle : TotalPre le) (thr : Rat)
    (targets : List Bool) (order : List Nat) (rows : List ρ) (n : Nat) (hr : rows.length = n)
    (ht : targets.length = n) (ho : order.Perm (List.range n)) (hd : false ∈ targets) :
    ∀ (k : Nat) (th : θ) (L : List Int), L.length = n → 0 < numPos L →
      (∀ i : Nat, targets[i]? = some false → L[i]? = some (-1)) →
      ∀ s ∈ (specGo est (tdcRelabel le thr targets) order rows k th L).trace,
        (∃ r, (r, true) ∈ s) ∧ (∃ r, (r, false) ∈ s) := by
  intro k
  induction k with
  | zero => intro th L _ _ _ s hs; simp [specGo] at hs
  | succ k ih =>
    intro th L hL hpos hdec
    have hfirst : (∃ r, (r, true) ∈ order.filterMap (pairAt rows L)) ∧
        (∃ r, (r, false) ∈ order.filterMap (pairAt rows L)) := by
      constructor
      · have h1 : (1 : Int) ∈ L := List.count_pos_iff.mp hpos
        obtain ⟨i, hi⟩ := List.mem_iff_getElem?.mp h1
        have hlt : i < n := by
          by_contra h
          rw [List.getElem?_eq_none (by omega)] at hi
          simp at hi
        have hri : rows[i]? = some rows[i] := List.getElem?_eq_getElem (by omega)
        refine ⟨rows[i], List.mem_filterMap.mpr ⟨i, ho.mem_iff.mpr (List.mem_range.mpr hlt), ?_⟩⟩
        rw [pairAt_of_label rows L i _ 1 hri hi (by decide)]
        rfl
      · obtain ⟨i, hi⟩ := List.mem_iff_getElem?.mp hd
        have hlt : i < n := by
          by_contra h
          rw [List.getElem?_eq_none (by omega)] at hi
          simp at hi
        have hri : rows[i]? = some rows[i] := List.getElem?_eq_getElem (by omega)
        refine ⟨rows[i], List.mem_filterMap.mpr ⟨i, ho.mem_iff.mpr (List.mem_range.mpr hlt), ?_⟩⟩
        rw [pairAt_of_label rows L i _ (-1) hri (hdec i hi) (by decide)]
        rfl
    simp only [specGo]
    split
    · intro s hs
      have : s = order.filterMap (pairAt rows L) := by simpa using hs
      subst this
      exact hfirst
    · rename_i hne
      intro s hs
      simp only [consTrace, List.mem_cons] at hs
      rcases hs with rfl | hs
      · exact hfirst
      · refine ih _ _ ?_ (by omega) ?_ s hs
        · rw [tdcRelabel_length]; simp [hr, ht]
        · intro i hi
          exact decoy_label le hle thr targets _ (by simp [hr, ht]) i hi

end Mk.Fit
