import MokapotVerif.Model.PepsTool
import MokapotVerif.Lemmas.PepsFile
/-! Helper lemmas for `Props/C06Tool.lean` (roll-up tool, columns of the result files). -/
namespace Mk.Peps

/-! ## roll-up tool -/

theorem rollupWrite_level (rows : List LRow) (qs ps : List Rat) (hq : qs.length = rows.length)
    (hp : ps.length = rows.length) :
    rollupWrite rows qs ps = .ok (fileSpec true rows qs ps, fileSpec false rows qs ps) := by
  unfold rollupWrite
  have : chunkLengthsOk (rows.map (fun r => (r.id, r.score))) qs ps (rows.map (fun r => r.target)) = true := by
    simp [chunkLengthsOk, hq, hp]
  rw [if_pos this, maskSel_level, maskSel_level]

theorem rollupWrite_error_iff (rows : List LRow) (qs ps : List Rat) :
    rollupWrite rows qs ps = .error writeError ↔ ¬ (qs.length = rows.length ∧ ps.length = rows.length) := by
  unfold rollupWrite
  by_cases h : chunkLengthsOk (rows.map (fun r => (r.id, r.score))) qs ps (rows.map (fun r => r.target)) = true
  · rw [if_pos h]
    simp only [reduceCtorEq, false_iff, not_not]
    simpa [chunkLengthsOk] using h
  · rw [if_neg h]
    simp only [true_iff]
    simpa [chunkLengthsOk] using h

/-! ## columns -/

theorem filter_ne_self (target : Col) (l : List Col) (h : target ∉ l) :
    l.filter (fun c => !decide (c = target)) = l := by
  rw [List.filter_eq_self]
  intro c hc
  have : c ≠ target := fun e => h (e ▸ hc)
  simp [this]

theorem map_headerName_self (l : List Col) (h : cQData ∉ l) : l.map headerName = l := by
  induction l with
  | nil => rfl
  | cons c rest ih =>
    have hc : c ≠ cQData := fun e => h (by simp [e])
    have hr : cQData ∉ rest := fun e => h (List.mem_cons_of_mem _ e)
    simp [headerName, hc, ih hr]

theorem colIndex_append_right (c : Col) : ∀ (l1 l2 : List Col), c ∉ l1 →
    colIndex c (l1 ++ l2) = (colIndex c l2).map (· + l1.length) := by
  intro l1
  induction l1 with
  | nil => intro l2 _; simp
  | cons x xs ih =>
    intro l2 h
    have hx : x ≠ c := fun e => h (by simp [e])
    have hxs : c ∉ xs := fun e => h (List.mem_cons_of_mem _ e)
    simp only [List.cons_append, colIndex, hx, if_false, ih l2 hxs, Option.map_map, List.length_cons]
    cases colIndex c l2 with
    | none => rfl
    | some n => simp only [Option.map_some, Function.comp]; congr 1

end Mk.Peps
