import MokapotVerif.Model.Fit
import Mathlib.Data.List.Perm.Basic
import Mathlib.Data.List.Nodup
/-! Helper lemmas for C12: selecting feature columns by stored name. -/
namespace Mk.Fit
variable {α β ν : Type}

theorem lookupCol_cons [DecidableEq ν] (c : ν × β) (cols : List (ν × β)) (name : ν) :
    lookupCol (c :: cols) name = if c.1 = name then some c.2 else lookupCol cols name := by
  unfold lookupCol
  by_cases h : c.1 = name
  · simp [h]
  · simp [h]

/-- a lookup that succeeds returns a column carrying that name -/
theorem lookupCol_mem [DecidableEq ν] (cols : List (ν × β)) (name : ν) (v : β)
    (h : lookupCol cols name = some v) : (name, v) ∈ cols := by
  induction cols with
  | nil => simp [lookupCol] at h
  | cons c cols ih =>
    rw [lookupCol_cons] at h
    split at h
    · rename_i hc
      simp only [Option.some.injEq] at h
      subst h; subst hc
      simp
    · exact List.mem_cons_of_mem _ (ih h)

theorem lookupCol_isSome [DecidableEq ν] (cols : List (ν × β)) (name : ν) (h : name ∈ cols.map (·.1)) :
    ∃ v, lookupCol cols name = some v := by
  induction cols with
  | nil => simp at h
  | cons c cols ih =>
    rw [lookupCol_cons]
    by_cases hc : c.1 = name
    · exact ⟨c.2, by simp [hc]⟩
    · simp only [hc, if_false]
      apply ih
      simp only [List.map_cons, List.mem_cons] at h
      rcases h with h | h
      · exact absurd h.symm hc
      · exact h

theorem lookupCol_eq_some_iff [DecidableEq ν] (cols : List (ν × β)) (hnd : (cols.map (·.1)).Nodup) (name : ν)
    (v : β) : lookupCol cols name = some v ↔ (name, v) ∈ cols := by
  constructor
  · exact lookupCol_mem cols name v
  · intro hmem
    induction cols with
    | nil => simp at hmem
    | cons c cols ih =>
      rw [List.map_cons, List.nodup_cons] at hnd
      rw [lookupCol_cons]
      rcases List.mem_cons.mp hmem with h | h
      · subst h; simp
      · have hne : c.1 ≠ name := by
          intro hc
          apply hnd.1
          rw [hc]
          exact List.mem_map.mpr ⟨(name, v), h, rfl⟩
        simp only [hne, if_false]
        exact ih hnd.2 h

theorem lookupCol_perm [DecidableEq ν] {cols cols' : List (ν × β)} (h : cols'.Perm cols)
    (hnd : (cols.map (·.1)).Nodup) (name : ν) : lookupCol cols' name = lookupCol cols name := by
  have hnd' : (cols'.map (·.1)).Nodup := (h.map _).nodup_iff.mpr hnd
  apply Option.ext
  intro v
  rw [lookupCol_eq_some_iff cols' hnd', lookupCol_eq_some_iff cols hnd, h.mem_iff]

theorem sameNameSet_iff [DecidableEq ν] (a b : List ν) : sameNameSet a b = true ↔ ∀ x, x ∈ a ↔ x ∈ b := by
  unfold sameNameSet
  simp only [Bool.and_eq_true, List.all_eq_true, List.contains_iff_mem]
  constructor
  · rintro ⟨h1, h2⟩ x; exact ⟨h1 x, h2 x⟩
  · intro h; exact ⟨fun x hx => (h x).mp hx, fun x hx => (h x).mpr hx⟩

theorem sameNameSet_perm [DecidableEq ν] {a a' : List ν} (h : a'.Perm a) (b : List ν) :
    sameNameSet a' b = sameNameSet a b := by
  rw [Bool.eq_iff_iff, sameNameSet_iff, sameNameSet_iff]
  constructor
  · intro hx x; rw [← h.mem_iff]; exact hx x
  · intro hx x; rw [h.mem_iff]; exact hx x

theorem selectByName_perm [DecidableEq ν] (stored : List ν) {cols cols' : List (ν × β)} (h : cols'.Perm cols)
    (hnd : (cols.map (·.1)).Nodup) : selectByName stored cols' = selectByName stored cols := by
  unfold selectByName
  rw [sameNameSet_perm (h.map _)]
  have : stored.filterMap (lookupCol cols') = stored.filterMap (lookupCol cols) := by
    apply List.filterMap_congr
    intro x _
    exact lookupCol_perm h hnd x
  rw [this]

theorem selectByName_self [DecidableEq ν] (cols : List (ν × β)) (hnd : (cols.map (·.1)).Nodup) :
    selectByName (cols.map (·.1)) cols = some (cols.map (·.2)) := by
  unfold selectByName
  have h1 : sameNameSet (cols.map (·.1)) (cols.map (·.1)) = true := (sameNameSet_iff _ _).mpr (fun _ => Iff.rfl)
  rw [h1, if_pos rfl, List.filterMap_map]
  congr 1
  rw [← List.filterMap_eq_map]
  apply List.filterMap_congr
  intro c hc
  simp only [Function.comp]
  exact (lookupCol_eq_some_iff cols hnd c.1 c.2).mpr hc

theorem filterMap_lookup_forall2 [DecidableEq ν] (cols : List (ν × β)) :
    ∀ stored : List ν, (∀ x ∈ stored, x ∈ cols.map (·.1)) →
      List.Forall₂ (fun name v => (name, v) ∈ cols) stored (stored.filterMap (lookupCol cols)) := by
  intro stored
  induction stored with
  | nil => intro _; exact List.Forall₂.nil
  | cons x stored ih =>
    intro h
    obtain ⟨v, hv⟩ := lookupCol_isSome cols x (h x (by simp))
    rw [List.filterMap_cons, hv]
    exact List.Forall₂.cons (lookupCol_mem cols x v hv) (ih (fun y hy => h y (by simp [hy])))

theorem selectByName_spec [DecidableEq ν] (stored : List ν) (cols : List (ν × β)) (sel : List β)
    (h : selectByName stored cols = some sel) : List.Forall₂ (fun name v => (name, v) ∈ cols) stored sel := by
  unfold selectByName at h
  split at h
  · rename_i hs
    simp only [Option.some.injEq] at h
    subst h
    exact filterMap_lookup_forall2 cols stored (fun x hx => ((sameNameSet_iff _ _).mp hs x).mpr hx)
  · simp at h

theorem selectByName_none_iff [DecidableEq ν] (stored : List ν) (cols : List (ν × β)) :
    selectByName stored cols = none ↔ ¬ ∀ x, x ∈ cols.map (·.1) ↔ x ∈ stored := by
  unfold selectByName
  rw [← sameNameSet_iff]
  split <;> simp_all

end Mk.Fit
