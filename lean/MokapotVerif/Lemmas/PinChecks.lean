import MokapotVerif.Lemmas.PinExt
import MokapotVerif.Model.PinChecks
/-! Helper lemmas for the second extension of C10 (`Model/PinChecks.lean`): the
constructor checks of the on-disk dataset, the types of the metadata columns, and
the size bound of the column chunks.  Core Lean only. -/
namespace Mk.Pin

/-! ## constructor checks -/

/-- `check_column` passes iff the name is empty (falsy) or a column of the file -/
theorem checkColumn_iff (fc : List Name) (c : Name) : checkColumn fc c = true ↔ (c ≠ [] → c ∈ fc) := by
  unfold checkColumn
  rw [Bool.or_eq_true, List.isEmpty_iff, List.contains_iff_mem]
  constructor
  · rintro (h | h) hne
    · exact absurd h hne
    · exact h
  · intro h
    by_cases hc : c = []
    · exact Or.inl hc
    · exact Or.inr (h hc)

/-- the fifteen tests of the constructor are one `all` over the names in test order -/
theorem datasetChecks_eq_all (fc : List Name) (d : Dataset) :
    datasetChecks fc d = d.checkedNames.all (checkColumn fc) := by
  unfold datasetChecks Dataset.checkedNames checkColumns
  simp only [List.all_append, List.all_cons, List.all_nil, Bool.and_true, Bool.and_assoc]

theorem datasetChecks_iff (fc : List Name) (d : Dataset) : datasetChecks fc d = true ↔ NamesKnown fc d := by
  rw [datasetChecks_eq_all, List.all_eq_true]
  unfold NamesKnown
  constructor
  · intro h n hn; exact (checkColumn_iff fc n).mp (h n hn)
  · intro h n hn; exact (checkColumn_iff fc n).mpr (h n hn)

theorem firstFailing_none_iff (fc names : List Name) :
    firstFailing fc names = none ↔ names.all (checkColumn fc) = true := by
  unfold firstFailing
  rw [List.find?_eq_none, List.all_eq_true]
  constructor
  · intro h x hx
    have := h x hx
    simpa using this
  · intro h x hx
    simp [h x hx]

theorem firstFailing_some {fc names : List Name} {c : Name} (h : firstFailing fc names = some c) :
    ∃ pre post, names = pre ++ c :: post ∧ (∀ x ∈ pre, x ≠ [] → x ∈ fc) ∧ c ≠ [] ∧ c ∉ fc := by
  unfold firstFailing at h
  rw [List.find?_eq_some_iff_append] at h
  obtain ⟨hc, pre, post, hl, hpre⟩ := h
  refine ⟨pre, post, hl, ?_, ?_⟩
  · intro x hx
    have := hpre x hx
    simp only [Bool.not_not] at this
    exact (checkColumn_iff fc x).mp this
  · have hc' : checkColumn fc c = false := by simpa using hc
    have hn : ¬ (c ≠ [] → c ∈ fc) := by
      intro hh
      rw [(checkColumn_iff fc c).mpr hh] at hc'
      cases hc'
    constructor
    · intro he; exact hn (fun h => absurd he h)
    · intro hm; exact hn (fun _ => hm)

/-- a successful parse hands the constructor the metadata list built by the look-ups,
and the constructor accepted the dataset -/
theorem readPercolatorSched_ok_parts {args : PinArgs} {c r : Nat} {t : Table}
    {order : List (List Name) → List (List Name)} {d : Dataset}
    (h : readPercolatorSched args c r t order = .ok d) :
    ∃ k, lookupColumns args t.header = .ok k ∧ d.metadata = k.nonfeat t.header ∧ d.columns = t.header ∧
      datasetChecks t.header d = true := by
  unfold readPercolatorSched at h
  obtain ⟨k, hk, h⟩ := bind_ok h
  refine ⟨k, hk, ?_⟩
  split at h
  · cases h
  split at h
  · cases h
  unfold assemble at h
  split at h
  · cases h
  obtain ⟨tg, _, h⟩ := bind_ok h
  split at h
  · rename_i hchk
    simp only [Except.ok.injEq] at h
    subst h
    exact ⟨rfl, rfl, hchk⟩
  · cases h

/-! ## types of the metadata columns -/
variable {τ : Type}

theorem lookup_some_of_mem_keys (tcols : List (Name × τ)) {c : Name} (h : c ∈ tcols.map (·.1)) :
    ∃ x, tcols.lookup c = some x ∧ (c, x) ∈ tcols := by
  induction tcols with
  | nil => cases h
  | cons p rest ih =>
    obtain ⟨n, x⟩ := p
    by_cases hcn : c = n
    · subst hcn
      exact ⟨x, by simp [List.lookup], List.mem_cons_self⟩
    · have hmem : c ∈ rest.map (·.1) := by
        rcases List.mem_cons.mp h with h | h
        · exact absurd h hcn
        · exact h
      obtain ⟨x', h1, h2⟩ := ih hmem
      refine ⟨x', ?_, List.mem_cons_of_mem _ h2⟩
      have : (c == n) = false := by simpa using hcn
      simp only [List.lookup, this]
      exact h1

theorem typed_keys_unique {tcols : List (Name × τ)} (hnd : (tcols.map (·.1)).Nodup) {c : Name}
    {a b : τ} (ha : (c, a) ∈ tcols) (hb : (c, b) ∈ tcols) : a = b := by
  induction tcols with
  | nil => cases ha
  | cons p rest ih =>
    rw [List.map_cons, List.nodup_cons] at hnd
    rcases List.mem_cons.mp ha with ha | ha <;> rcases List.mem_cons.mp hb with hb | hb
    · rw [← ha] at hb; exact (Prod.mk.inj hb).2.symm
    · exfalso; apply hnd.1; rw [← ha]; exact List.mem_map.mpr ⟨(c, b), hb, rfl⟩
    · exfalso; apply hnd.1; rw [← hb]; exact List.mem_map.mpr ⟨(c, a), ha, rfl⟩
    · exact ih hnd.2 ha hb

/-- line 207 never raises on names of the header and pairs every name with a type
listed for it -/
theorem nonfeatTypes_some (tcols : List (Name × τ)) (cs : List Name) (h : ∀ c ∈ cs, c ∈ tcols.map (·.1)) :
    ∃ tys, nonfeatTypes tcols cs = some tys ∧ tys.length = cs.length ∧ ∀ p ∈ cs.zip tys, p ∈ tcols := by
  induction cs with
  | nil => exact ⟨[], rfl, rfl, fun p hp => by cases hp⟩
  | cons c cs ih =>
    obtain ⟨x, hx, hmem⟩ := lookup_some_of_mem_keys tcols (h c List.mem_cons_self)
    obtain ⟨tys, htys, hlen, hall⟩ := ih (fun c' hc' => h c' (List.mem_cons_of_mem _ hc'))
    refine ⟨x :: tys, ?_, by simp [hlen], ?_⟩
    · unfold nonfeatTypes typeAt
      rw [hx, htys]
      rfl
    · intro p hp
      rw [List.zip_cons_cons] at hp
      rcases List.mem_cons.mp hp with rfl | hp
      · exact hmem
      · exact hall p hp

/-! ## unsigned 64-bit label columns -/

theorem any_congr_mem {α : Type} {l : List α} {p q : α → Bool} (h : ∀ x ∈ l, p x = q x) : l.any p = l.any q := by
  induction l with
  | nil => rfl
  | cons a l ih =>
    rw [List.any_cons, List.any_cons, h a List.mem_cons_self,
      ih (fun x hx => h x (List.mem_cons_of_mem _ hx))]

/-- a value changed by the cast lies outside the int64 range, hence outside {-1, 0, 1} -/
theorem wrap64_changed {i : Int} (h : wrap64 i ≠ i) : i < -1 ∨ 1 < i := by
  unfold wrap64 at h
  omega

/-- the repaired conversion of an unsigned column is the conversion with the range test on
the un-cast values — on every column -/
theorem convertTargetsU64_eq (cells : List Cell) : convertTargetsU64 cells = convertTargets cells := by
  unfold convertTargetsU64 convertTargets
  split
  · rfl
  split
  · rfl
  by_cases hch : cells.any (fun c => wrap64 c.intVal != c.intVal) = true
  · obtain ⟨c, hc, hne⟩ := List.any_eq_true.mp hch
    have hne' : wrap64 c.intVal ≠ c.intVal := by simpa using hne
    have hr : (cells.any (fun c => c.intVal < -1) || cells.any (fun c => c.intVal > 1)) = true := by
      rcases wrap64_changed hne' with h | h
      · have : cells.any (fun c => decide (c.intVal < -1)) = true :=
          List.any_eq_true.mpr ⟨c, hc, by simpa using h⟩
        simp [this]
      · have : cells.any (fun c => decide (c.intVal > 1)) = true :=
          List.any_eq_true.mpr ⟨c, hc, by simpa using h⟩
        simp [this]
    rw [hch, hr]
    simp
  · have hall : ∀ c ∈ cells, wrap64 c.intVal = c.intVal := by
      intro c hc
      by_cases hne : wrap64 c.intVal = c.intVal
      · exact hne
      · exact absurd (List.any_eq_true.mpr ⟨c, hc, by simpa using hne⟩) hch
    have hch' : cells.any (fun c => wrap64 c.intVal != c.intVal) = false := by simpa using hch
    have h1 : cells.any (fun c => decide (wrap64 c.intVal < -1)) = cells.any (fun c => decide (c.intVal < -1)) :=
      any_congr_mem (fun c hc => by rw [hall c hc])
    have h2 : cells.any (fun c => decide (wrap64 c.intVal > 1)) = cells.any (fun c => decide (c.intVal > 1)) :=
      any_congr_mem (fun c hc => by rw [hall c hc])
    have h3 : cells.map (fun c => wrap64 c.intVal == 1) = cells.map (fun c => c.intVal == 1) :=
      List.map_congr_left (fun c hc => by rw [hall c hc])
    rw [hch', h1, h2, h3]
    simp

/-! ## size of the column chunks -/

/-- every column chunk is non-empty and holds at most `max c |ids|` columns -/
theorem idChunks_sizes {α : Type} {c : Nat} (hc : 0 < c) (data ids : List α) (hne : ids ≠ []) :
    ∀ ch ∈ idChunks data ids c, 0 < ch.length ∧ ch.length ≤ max c ids.length := by
  unfold idChunks
  split
  · intro ch hch
    have := createChunks_sizes hc (data ++ ids) ch hch
    omega
  · intro ch hch
    rcases List.mem_append.mp hch with hch | hch
    · have := createChunks_sizes hc data ch hch
      omega
    · rw [List.mem_singleton] at hch
      subst hch
      have : 0 < ch.length := List.length_pos_iff.mpr hne
      omega

end Mk.Pin
