import MokapotVerif.Model.Pepxml
import Mathlib.Tactic.Linarith
/-!
# Modification insertion: the running-offset loop equals the positional spec

`insertMods` (left fold with a running offset on the growing string) is shown
equal to `specInsert` (every residue followed by the bracket groups listed at
its position) for ascending, in-range positions.
-/
namespace Mk.Pepxml

/-- `specInsert` unrolled along the peptide: `i` residues have been emitted -/
def weave (ms : List Mod) : Nat → Str → Str
  | _, [] => []
  | i, c :: cs => c :: (bracketsAt ms (i + 1) ++ weave ms (i + 1) cs)

def weaveFrom (ms : List Mod) (start : Nat) (rest : Str) : Str :=
  bracketsAt ms start ++ weave ms start rest

theorem weave_eq_flatMap (ms : List Mod) (cs : Str) (i : Nat) :
    weave ms i cs = (cs.zipIdx i).flatMap (fun ci => ci.1 :: bracketsAt ms (ci.2 + 1)) := by
  induction cs generalizing i with
  | nil => simp [weave]
  | cons c cs ih => simp [weave, List.zipIdx_cons, ih]

theorem specInsert_eq_weave (pep : Str) (ms : List Mod) : specInsert pep ms = weaveFrom ms 0 pep := by
  simp [specInsert, weaveFrom, weave_eq_flatMap]

theorem bracketsAt_nil (p : Nat) : bracketsAt [] p = [] := rfl

theorem bracketsAt_cons (m : Mod) (ms : List Mod) (p : Nat) :
    bracketsAt (m :: ms) p = if m.pos = p then bracket m.mass ++ bracketsAt ms p else bracketsAt ms p := by
  unfold bracketsAt
  by_cases h : m.pos = p <;> simp [h]

theorem bracketsAt_eq_nil (ms : List Mod) (p : Nat) (h : ∀ m ∈ ms, p < m.pos) : bracketsAt ms p = [] := by
  induction ms with
  | nil => rfl
  | cons m ms ih =>
    rw [bracketsAt_cons]
    have hm := h m (by simp)
    have : ¬ m.pos = p := by omega
    simp [this, ih (fun m' hm' => h m' (by simp [hm']))]

theorem weave_nil_mods (i : Nat) (cs : Str) : weave [] i cs = cs := by
  induction cs generalizing i with
  | nil => rfl
  | cons c cs ih => simp [weave, bracketsAt_nil, ih]

theorem weave_cons_skip (m : Mod) (ms : List Mod) (i : Nat) (cs : Str) (h : m.pos ≤ i) :
    weave (m :: ms) i cs = weave ms i cs := by
  induction cs generalizing i with
  | nil => rfl
  | cons c cs ih =>
    have : ¬ m.pos = i + 1 := by omega
    simp [weave, bracketsAt_cons, this, ih (i + 1) (by omega)]

theorem weaveFrom_cons (m : Mod) (ms : List Mod) (k : Nat) :
    ∀ (start : Nat) (rest : Str), m.pos = start + k → k ≤ rest.length →
      (∀ m' ∈ ms, m.pos ≤ m'.pos) →
      weaveFrom (m :: ms) start rest
        = rest.take k ++ (bracket m.mass ++ weaveFrom ms m.pos (rest.drop k)) := by
  induction k with
  | zero =>
    intro start rest hpos _ _
    have hp : m.pos = start := by omega
    simp [weaveFrom, bracketsAt_cons, hp, weave_cons_skip m ms start rest (by omega)]
  | succ k ih =>
    intro start rest hpos hlen hge
    cases rest with
    | nil => simp at hlen
    | cons c cs =>
      have hlt : ∀ m' ∈ (m :: ms), start < m'.pos := by
        intro m' hm'
        rcases List.mem_cons.mp hm' with rfl | h
        · omega
        · have := hge m' h; omega
      have h0 : bracketsAt (m :: ms) start = [] := bracketsAt_eq_nil _ _ hlt
      have ih' := ih (start + 1) cs (by omega) (by simpa using hlen) hge
      unfold weaveFrom at ih' ⊢
      rw [h0]
      simp only [weave, List.nil_append, List.take_succ_cons, List.drop_succ_cons, List.cons_append]
      rw [ih']

theorem length_bracket (mass : Str) : (bracket mass).length = 2 + mass.length := by
  simp [bracket]; omega

/-- invariant of the `for mod in ...` loop: `done` is finished text of length
`offset + start`, `rest` the untouched residues from position `start` on -/
theorem foldl_modStep (ms : List Mod) :
    ∀ (done rest : Str) (off start : Nat), done.length = off + start →
      ms.Pairwise (fun a b => a.pos ≤ b.pos) →
      (∀ m ∈ ms, start ≤ m.pos ∧ m.pos ≤ start + rest.length) →
      (ms.foldl modStep (done ++ rest, off)).1 = done ++ weaveFrom ms start rest := by
  induction ms with
  | nil =>
    intro done rest off start _ _ _
    simp [weaveFrom, bracketsAt_nil, weave_nil_mods]
  | cons m ms ih =>
    intro done rest off start hlen hsorted hrange
    obtain ⟨hge, hsorted'⟩ := List.pairwise_cons.mp hsorted
    obtain ⟨hm1, hm2⟩ := hrange m (by simp)
    obtain ⟨k, hk⟩ : ∃ k, m.pos = start + k := ⟨m.pos - start, by omega⟩
    have hkl : k ≤ rest.length := by omega
    have hidx : off + m.pos = done.length + k := by omega
    have hstep : modStep (done ++ rest, off) m
        = ((done ++ (rest.take k ++ bracket m.mass)) ++ rest.drop k, off + (2 + m.mass.length)) := by
      simp only [modStep, insertAt, hidx]
      rw [List.take_length_add_append, List.drop_length_add_append]
      simp [List.append_assoc]
    rw [List.foldl_cons, hstep]
    rw [ih (done ++ (rest.take k ++ bracket m.mass)) (rest.drop k) (off + (2 + m.mass.length)) m.pos
      (by simp [length_bracket, List.length_take, Nat.min_eq_left hkl]; omega) hsorted'
      (by
        intro m' hm'
        have := hrange m' (by simp [hm'])
        have := hge m' hm'
        simp only [List.length_drop]
        omega)]
    rw [weaveFrom_cons m ms k start rest hk hkl hge]
    simp [List.append_assoc]

theorem insertMods_eq_spec (pep : Str) (ms : List Mod) (h : modsOk pep ms) :
    insertMods pep ms = specInsert pep ms := by
  have := foldl_modStep ms [] pep 0 0 rfl h.1 (fun m hm => ⟨Nat.zero_le _, by simpa using h.2 m hm⟩)
  simpa [insertMods, specInsert_eq_weave] using this

/-! ### removing the bracket groups gives back the peptide -/

theorem stripGo_true_mass (mass rest : Str) (h : ']' ∉ mass) :
    stripGo true (mass ++ ']' :: rest) = stripGo false rest := by
  induction mass with
  | nil => simp [stripGo]
  | cons c cs ih =>
    have hc : c ≠ ']' := fun e => h (by simp [e])
    have hcs : ']' ∉ cs := fun e => h (by simp [e])
    by_cases hb : c = '['
    · simp [stripGo, hb, ih hcs]
    · simp [stripGo, hb, hc, ih hcs]

theorem stripGo_bracket (mass rest : Str) (h : ']' ∉ mass) :
    stripGo false (bracket mass ++ rest) = stripGo false rest := by
  have := stripGo_true_mass mass rest h
  simpa [bracket, stripGo] using this

theorem stripGo_bracketsAt (ms : List Mod) (p : Nat) (rest : Str) (h : ∀ m ∈ ms, ']' ∉ m.mass) :
    stripGo false (bracketsAt ms p ++ rest) = stripGo false rest := by
  induction ms with
  | nil => rfl
  | cons m ms ih =>
    have ih' := ih (fun m' hm' => h m' (by simp [hm']))
    rw [bracketsAt_cons]
    split
    · rw [List.append_assoc, stripGo_bracket _ _ (h m (by simp)), ih']
    · exact ih'

theorem stripGo_weave (ms : List Mod) (cs : Str) (i : Nat) (h : ∀ m ∈ ms, ']' ∉ m.mass)
    (hc : ∀ c ∈ cs, c ≠ '[' ∧ c ≠ ']') : stripGo false (weave ms i cs) = cs := by
  induction cs generalizing i with
  | nil => rfl
  | cons c cs ih =>
    obtain ⟨h1, h2⟩ := hc c (by simp)
    simp only [weave, stripGo, beq_iff_eq, h1, h2, if_false, Bool.false_eq_true]
    rw [stripGo_bracketsAt ms _ _ h, ih _ (fun c' hc' => hc c' (by simp [hc']))]

theorem strip_specInsert (pep : Str) (ms : List Mod) (h : ∀ m ∈ ms, ']' ∉ m.mass)
    (hc : ∀ c ∈ pep, c ≠ '[' ∧ c ≠ ']') : stripBrackets (specInsert pep ms) = pep := by
  rw [specInsert_eq_weave]
  unfold stripBrackets weaveFrom
  rw [stripGo_bracketsAt ms _ _ h, stripGo_weave ms pep 0 h hc]

end Mk.Pepxml
