import MokapotVerif.Lemmas.MergeSpec
/-! C14: both merges are natural in the row type.  If `f` maps rows to rows and the
comparison of the images agrees with the comparison of the originals (`f` keeps the
priority column), then merging the images is the image of the merge — index by index, tie
order and `ValueError` included.  This is the content of "rows are yielded unmodified" and
of the `columns=` option (rows are projected before they are merged). -/
namespace Mk.Merge
variable {α β : Type}

/-- an open input with `f` applied to every row -/
def mapSrc (f : α → β) (s : Src α) : Src β := (f s.1, s.2.map f)

theorem scanBest_map (f : α → β) (bt : α → α → Bool) (bt' : β → β → Bool)
    (h : ∀ a b, bt' (f a) (f b) = bt a b) (xs : List α) :
    ∀ (b : α) (bi i : Nat), scanBest bt' (f b) bi i (xs.map f) = scanBest bt b bi i xs := by
  induction xs with
  | nil => intro b bi i; rfl
  | cons x xs ih =>
    intro b bi i
    simp only [List.map_cons, scanBest, h, ih]

theorem argFirst_map (f : α → β) (bt : α → α → Bool) (bt' : β → β → Bool)
    (h : ∀ a b, bt' (f a) (f b) = bt a b) (xs : List α) :
    argFirst bt' (xs.map f) = argFirst bt xs := by
  cases xs with
  | nil => rfl
  | cons x xs => simp only [List.map_cons, argFirst, scanBest_map f bt bt' h]

theorem pickIdx_map (f : α → β) (le : α → α → Bool) (le' : β → β → Bool)
    (h : ∀ a b, le' (f a) (f b) = le a b) (desc : Bool) (xs : List α) :
    pickIdx le' desc (xs.map f) = pickIdx le desc xs := by
  unfold pickIdx
  cases desc
  · simp only [Bool.false_eq_true, if_false]
    exact argFirst_map f _ _ (fun a b => by simp [h]) xs
  · simp only [if_true]
    exact argFirst_map f _ _ (fun a b => by simp [h]) xs

theorem map_fst_mapSrc (f : α → β) (st : List (Src α)) :
    (st.map (mapSrc f)).map (·.1) = (st.map (·.1)).map f := by
  simp [List.map_map, mapSrc, Function.comp_def]

theorem srcAt_map (f : α → β) (st : List (Src α)) (i : Nat) :
    srcAt (st.map (mapSrc f)) i = (srcAt st i).map (mapSrc f) := by
  simp [srcAt, List.map_drop, List.map_take]

theorem nextSrc_map (f : α → β) (s : Src α) :
    nextSrc (mapSrc f s) = (nextSrc s).map (mapSrc f) := by
  obtain ⟨c, rest⟩ := s
  cases rest <;> simp [nextSrc, mapSrc]

theorem advanceAt_map (f : α → β) (st : List (Src α)) (i : Nat) :
    advanceAt (st.map (mapSrc f)) i = (advanceAt st i).map (mapSrc f) := by
  unfold advanceAt
  rw [srcAt_map]
  simp only [List.map_append, List.map_take, List.map_drop, List.flatMap_map, List.map_flatMap,
    nextSrc_map]

theorem violates_map (f : α → β) (le : α → α → Bool) (le' : β → β → Bool)
    (h : ∀ a b, le' (f a) (f b) = le a b) (desc : Bool) (s : Src α) :
    violates le' desc (mapSrc f s) = violates le desc s := by
  obtain ⟨c, rest⟩ := s
  cases rest <;> simp [violates, mapSrc, h]

theorem srcTotal_map (f : α → β) (st : List (Src α)) : srcTotal (st.map (mapSrc f)) = srcTotal st := by
  induction st with
  | nil => rfl
  | cons s st ih =>
    simp only [srcTotal, List.map_cons, List.flatMap_cons, List.length_append] at ih ⊢
    rw [ih]
    simp [srcRows, mapSrc]

theorem openAll_map (f : α → β) (inputs : List (List α)) :
    (inputs.map (List.map f)).flatMap openSrc = (inputs.flatMap openSrc).map (mapSrc f) := by
  induction inputs with
  | nil => rfl
  | cons xs rest ih =>
    simp only [List.map_cons, List.flatMap_cons, List.map_append, ih]
    cases xs <;> simp [openSrc, mapSrc]

/-- the table-merger loop commutes with a score-preserving row map -/
theorem checkedLoop_map (f : α → β) (le : α → α → Bool) (le' : β → β → Bool)
    (h : ∀ a b, le' (f a) (f b) = le a b) (desc : Bool) :
    ∀ (fuel : Nat) (st : List (Src α)),
      checkedLoop le' desc fuel (st.map (mapSrc f))
        = ((checkedLoop le desc fuel st).1.map f, (checkedLoop le desc fuel st).2) := by
  intro fuel
  induction fuel with
  | zero => intro st; rfl
  | succ n ih =>
    intro st
    unfold checkedLoop
    by_cases he : st = []
    · subst he; rfl
    · have he' : st.isEmpty = false := by simpa using he
      have he'' : (st.map (mapSrc f)).isEmpty = false := by simpa using he
      simp only [he', he'', Bool.false_eq_true, if_false, map_fst_mapSrc, pickIdx_map f le le' h,
        srcAt_map, advanceAt_map, ih]
      have hany : ((srcAt st (pickIdx le desc (st.map (·.1)))).map (mapSrc f)).any (violates le' desc)
          = (srcAt st (pickIdx le desc (st.map (·.1)))).any (violates le desc) := by
        rw [List.any_map]
        congr 1
        funext s
        exact violates_map f le le' h desc s
      rw [hany]
      split
      · rfl
      · simp only [List.map_append]

/-- the loop of `merge_sort` commutes with a score-preserving row map -/
theorem mergeLoop_map (f : α → β) (le : α → α → Bool) (le' : β → β → Bool)
    (h : ∀ a b, le' (f a) (f b) = le a b) :
    ∀ (fuel : Nat) (st : List (Src α)),
      mergeLoop le' fuel (st.map (mapSrc f)) = (mergeLoop le fuel st).map f := by
  intro fuel
  induction fuel with
  | zero => intro st; rfl
  | succ n ih =>
    intro st
    unfold mergeLoop
    by_cases he : st = []
    · subst he; rfl
    · have he' : st.isEmpty = false := by simpa using he
      have he'' : (st.map (mapSrc f)).isEmpty = false := by simpa using he
      have hbt : ∀ a b, ltMax le' (f a) (f b) = ltMax le a b := fun a b => by simp [ltMax, h]
      simp only [he', he'', Bool.false_eq_true, if_false, map_fst_mapSrc,
        argFirst_map f (ltMax le) (ltMax le') hbt, srcAt_map, advanceAt_map, ih, List.map_append]

theorem isEmpty_map_any (f : α → β) (inputs : List (List α)) :
    ((inputs.map (List.map f)).isEmpty || (inputs.map (List.map f)).any List.isEmpty)
      = (inputs.isEmpty || inputs.any List.isEmpty) := by
  simp [List.any_map, Function.comp_def]

theorem kmergeChecked_map (f : α → β) (le : α → α → Bool) (le' : β → β → Bool)
    (h : ∀ a b, le' (f a) (f b) = le a b) (desc : Bool) (inputs : List (List α)) :
    kmergeChecked le' desc (inputs.map (List.map f))
      = (kmergeChecked le desc inputs).map (fun r => (r.1.map f, r.2)) := by
  unfold kmergeChecked
  rw [isEmpty_map_any]
  split
  · rfl
  · rw [openAll_map, srcTotal_map, checkedLoop_map f le le' h]
    rfl

theorem kmerge_map (f : α → β) (le : α → α → Bool) (le' : β → β → Bool)
    (h : ∀ a b, le' (f a) (f b) = le a b) (inputs : List (List α)) :
    kmerge le' (inputs.map (List.map f)) = (kmerge le inputs).map (List.map f) := by
  unfold kmerge
  rw [isEmpty_map_any]
  split
  · rfl
  · rw [openAll_map, srcTotal_map, mergeLoop_map f le le' h]
    rfl

end Mk.Merge
