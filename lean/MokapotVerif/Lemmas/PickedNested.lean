import MokapotVerif.Model.PickedNested
import MokapotVerif.Lemmas.PickedStrip
/-! Helper lemmas for C15 (third pass): the repaired `strip_peptides` on annotations that hold brackets. -/
namespace Mk.Picked

theorem open_ne_closer (o : Char) (ho : isOpen o = true) : (o == closerOf o) = false := by
  unfold isOpen at ho
  rcases Bool.or_eq_true_iff.mp ho with h | h <;> (rw [beq_iff_eq] at h; subst h; decide)

theorem isOpen_closerOf (o : Char) (ho : isOpen o = true) : isOpen (closerOf o) = false := by
  unfold isOpen at ho
  rcases Bool.or_eq_true_iff.mp ho with h | h <;> (rw [beq_iff_eq] at h; subst h; decide)

theorem notOwn_iff (o c : Char) : notOwn o c = true ↔ (c == o) = false ∧ (c == closerOf o) = false := by
  unfold notOwn
  simp only [Bool.and_eq_true, bne_iff_ne, ne_eq, beq_eq_false_iff_ne]

/-! ## the scan -/

theorem scanOk_inner (o : Char) (body rest : List Char) (hb : body.all (notOwn o) = true) :
    scanOk o true (body ++ closerOf o :: rest) = scanOk o false rest := by
  induction body with
  | nil => simp [scanOk]
  | cons c cs ih =>
    rw [List.all_cons, Bool.and_eq_true] at hb
    obtain ⟨h1, h2⟩ := (notOwn_iff o c).mp hb.1
    simp only [List.cons_append, scanOk, h1, h2, Bool.false_eq_true, if_false]
    exact ih hb.2

theorem scanOk_items (o : Char) (ho : isOpen o = true) (items : List NItem) (rest : List Char)
    (hi : items.all (NItem.ok o) = true) :
    scanOk o false (items.flatMap (NItem.render o) ++ closerOf o :: rest) = true := by
  induction items with
  | nil => simp [scanOk]
  | cons it its ih =>
    rw [List.all_cons, Bool.and_eq_true] at hi
    rw [List.flatMap_cons, List.append_assoc]
    cases it with
    | ch c =>
      obtain ⟨h1, h2⟩ := (notOwn_iff o c).mp hi.1
      simp only [NItem.render, List.cons_append, List.nil_append, scanOk, h1, h2, Bool.false_eq_true, if_false]
      exact ih hi.2
    | grp body =>
      have hb : body.all (notOwn o) = true := hi.1
      simp only [NItem.render, List.cons_append, List.append_assoc, List.nil_append, scanOk,
        open_ne_closer o ho, Bool.false_eq_true, if_false, beq_self_eq_true, if_true]
      rw [scanOk_inner o body _ hb]
      exact ih hi.2

/-! ## `stripModsN` -/

theorem stripModsN_zero_irrel (o o' : Char) (s : List Char) : stripModsN 0 o s = stripModsN 0 o' s := by
  induction s with
  | nil => simp [stripModsN]
  | cons c cs ih =>
    simp only [stripModsN]
    split
    · rfl
    · rw [ih]

theorem stripModsN_noopen (o : Char) (pre rest : List Char) (h : ∀ c ∈ pre, isOpen c = false) :
    stripModsN 0 o (pre ++ rest) = pre ++ stripModsN 0 o rest := by
  induction pre with
  | nil => rfl
  | cons c cs ih =>
    have hc : isOpen c = false := h c List.mem_cons_self
    simp only [List.cons_append, stripModsN, hc, Bool.false_and, Bool.false_eq_true, if_false]
    rw [ih (fun d hd => h d (List.mem_cons_of_mem _ hd))]

theorem stripModsN_inner (o : Char) (body rest : List Char) (hb : body.all (notOwn o) = true) :
    stripModsN 2 o (body ++ closerOf o :: rest) = stripModsN 1 o rest := by
  induction body with
  | nil => simp [stripModsN]
  | cons c cs ih =>
    rw [List.all_cons, Bool.and_eq_true] at hb
    obtain ⟨_, h2⟩ := (notOwn_iff o c).mp hb.1
    simp only [List.cons_append, stripModsN, h2, Bool.false_eq_true, if_false]
    exact ih hb.2

theorem stripModsN_items (o : Char) (ho : isOpen o = true) (items : List NItem) (rest : List Char)
    (hi : items.all (NItem.ok o) = true) :
    stripModsN 1 o (items.flatMap (NItem.render o) ++ closerOf o :: rest) = stripModsN 0 o rest := by
  induction items with
  | nil => simp [stripModsN]
  | cons it its ih =>
    rw [List.all_cons, Bool.and_eq_true] at hi
    rw [List.flatMap_cons, List.append_assoc]
    cases it with
    | ch c =>
      obtain ⟨h1, h2⟩ := (notOwn_iff o c).mp hi.1
      simp only [NItem.render, List.cons_append, List.nil_append, stripModsN, h1, h2, Bool.false_eq_true, if_false]
      exact ih hi.2
    | grp body =>
      have hb : body.all (notOwn o) = true := hi.1
      simp only [NItem.render, List.cons_append, List.append_assoc, List.nil_append, stripModsN,
        open_ne_closer o ho, Bool.false_eq_true, if_false, beq_self_eq_true, if_true]
      rw [stripModsN_inner o body _ hb]
      exact ih hi.2

theorem stripModsN_mod (o' o : Char) (ho : isOpen o = true) (items : List NItem) (rest : List Char)
    (hi : items.all (NItem.ok o) = true) :
    stripModsN 0 o' (o :: (items.flatMap (NItem.render o) ++ closerOf o :: rest)) = stripModsN 0 o' rest := by
  simp only [stripModsN, ho, scanOk_items o ho items rest hi, Bool.and_self, if_true]
  rw [stripModsN_items o ho items rest hi]
  exact stripModsN_zero_irrel _ _ _

theorem stripModsN_toks (o : Char) (toks : List NTok) (rest : List Char) (hok : ∀ t ∈ toks, t.ok = true) :
    stripModsN 0 o (toks.flatMap NTok.render ++ rest) = toks.flatMap NTok.plain ++ stripModsN 0 o rest := by
  induction toks with
  | nil => rfl
  | cons t ts ih =>
    have ht := hok t List.mem_cons_self
    have ih' := ih (fun u hu => hok u (List.mem_cons_of_mem _ hu))
    rw [List.flatMap_cons, List.flatMap_cons, List.append_assoc]
    cases t with
    | res c =>
      have : isOpen c = false := upper_not_open c ht
      simp only [NTok.render, NTok.plain]
      rw [stripModsN_noopen o [c] _ (by intro d hd; rw [List.mem_singleton.mp hd]; exact this), ih']
      simp
    | low c =>
      have : isOpen c = false := lower_not_open c ht
      simp only [NTok.render, NTok.plain]
      rw [stripModsN_noopen o [c] _ (by intro d hd; rw [List.mem_singleton.mp hd]; exact this), ih']
      simp
    | mod o2 items =>
      simp only [NTok.ok, Bool.and_eq_true] at ht
      simp only [NTok.render, NTok.plain, List.nil_append, List.cons_append, List.append_assoc]
      rw [stripModsN_mod o o2 ht.1 items _ ht.2, ih']

theorem plainN_of_mods (ms : List NTok) (h : ∀ t ∈ ms, t.isMod = true) : ms.flatMap NTok.plain = [] := by
  induction ms with
  | nil => rfl
  | cons t ts ih =>
    rw [List.flatMap_cons, ih (fun u hu => h u (List.mem_cons_of_mem _ hu))]
    have := h t List.mem_cons_self
    cases t <;> simp_all [NTok.isMod, NTok.plain]

theorem plainN_props (toks : List NTok) (hok : ∀ t ∈ toks, t.ok = true) :
    ∀ c ∈ toks.flatMap NTok.plain, c.isUpper = true ∨ c.isLower = true := by
  intro c hc
  obtain ⟨t, ht, hct⟩ := List.mem_flatMap.mp hc
  have hw := hok t ht
  cases t with
  | res d => simp only [NTok.plain, List.mem_singleton] at hct; subst hct; exact Or.inl hw
  | low d => simp only [NTok.plain, List.mem_singleton] at hct; subst hct; exact Or.inr hw
  | mod o b => simp [NTok.plain] at hct

theorem letter_ne_dot (c : Char) (h : c.isUpper = true ∨ c.isLower = true) : c ≠ '.' := by
  rcases h with h | h
  · exact upper_ne_dot c h
  · exact lower_ne_dot c h

theorem letter_ne_dash (c : Char) (h : c.isUpper = true ∨ c.isLower = true) : c ≠ '-' := by
  rintro rfl
  rcases h with h | h <;> exact absurd h (by decide)

/-! ## the terminal separator -/

theorem dropDashL_dashIf (b : Bool) (p : List Char) (hp : p ≠ []) (hnd : ∀ c ∈ p, c ≠ '-') :
    dropDashL (dashIf b ++ p) = p := by
  cases b with
  | true => simp [dashIf, dropDashL]
  | false =>
    cases p with
    | nil => exact absurd rfl hp
    | cons c cs =>
      have : c ≠ '-' := hnd c List.mem_cons_self
      simp [dashIf, dropDashL, this]

theorem dropDash_core (dl dr : Bool) (p : List Char) (hp : p ≠ []) (hnd : ∀ c ∈ p, c ≠ '-') :
    dropDash (dashIf dl ++ (p ++ dashIf dr)) = p := by
  unfold dropDash
  have hp2 : p ++ dashIf dr ≠ [] := by
    intro h; exact hp (List.append_eq_nil_iff.mp h).1
  have hfirst : dropDashL (dashIf dl ++ (p ++ dashIf dr)) = p ++ dashIf dr := by
    cases dl with
    | true => simp [dashIf, dropDashL]
    | false =>
      cases p with
      | nil => exact absurd rfl hp
      | cons c cs =>
        have : c ≠ '-' := hnd c List.mem_cons_self
        simp [dashIf, dropDashL, this]
  rw [hfirst, List.reverse_append]
  have hrev : (dashIf dr).reverse = dashIf dr := by cases dr <;> rfl
  rw [hrev, dropDashL_dashIf dr p.reverse (by simpa using hp) (by intro c hc; exact hnd c (List.mem_reverse.mp hc))]
  exact List.reverse_reverse p

/-! ## the four substitutions on a well-formed peptide -/

theorem dashIf_noopen (b : Bool) : ∀ c ∈ dashIf b, isOpen c = false := by
  cases b <;> simp [dashIf]
  decide

theorem dashIf_nodot (b : Bool) : ∀ c ∈ dashIf b, c ≠ '.' := by
  cases b <;> simp [dashIf]

theorem stripModsN_core (o : Char) (nterm : List NTok) (dl : Bool) (toks : List NTok) (dr : Bool) (cterm : List NTok)
    (rest : List Char)
    (hok : ∀ t ∈ toks, t.ok = true) (hn : ∀ t ∈ nterm, t.ok = true ∧ t.isMod = true)
    (hc : ∀ t ∈ cterm, t.ok = true ∧ t.isMod = true) :
    stripModsN 0 o (renderCore nterm dl toks dr cterm ++ rest)
      = dashIf dl ++ (toks.flatMap NTok.plain ++ dashIf dr) ++ stripModsN 0 o rest := by
  unfold renderCore
  simp only [List.append_assoc]
  rw [stripModsN_toks o nterm _ (fun t ht => (hn t ht).1), plainN_of_mods nterm (fun t ht => (hn t ht).2),
    List.nil_append, stripModsN_noopen o (dashIf dl) _ (dashIf_noopen dl), stripModsN_toks o toks _ hok,
    stripModsN_noopen o (dashIf dr) _ (dashIf_noopen dr), stripModsN_toks o cterm _ (fun t ht => (hc t ht).1),
    plainN_of_mods cterm (fun t ht => (hc t ht).2), List.nil_append]

theorem stripRawN_render (fl : Option (List Char × List Char)) (nterm : List NTok) (dl : Bool) (toks : List NTok)
    (dr : Bool) (cterm : List NTok)
    (hok : ∀ t ∈ toks, t.ok = true) (hn : ∀ t ∈ nterm, t.ok = true ∧ t.isMod = true)
    (hc : ∀ t ∈ cterm, t.ok = true ∧ t.isMod = true) (hfl : flanksOk fl) (hres : ∃ c, NTok.res c ∈ toks) :
    stripRawN (renderPeptideN fl nterm dl toks dr cterm) = toks.flatMap NTok.plain := by
  have hlet := plainN_props toks hok
  have hne : toks.flatMap NTok.plain ≠ [] := by
    obtain ⟨c, hc'⟩ := hres
    intro h
    have : c ∈ toks.flatMap NTok.plain := List.mem_flatMap.mpr ⟨_, hc', by simp [NTok.plain]⟩
    rw [h] at this
    exact absurd this List.not_mem_nil
  have hmid : ∀ c ∈ dashIf dl ++ (toks.flatMap NTok.plain ++ dashIf dr), c ≠ '.' := by
    intro c hc'
    rcases List.mem_append.mp hc' with h | h
    · exact dashIf_nodot dl c h
    · rcases List.mem_append.mp h with h | h
      · exact letter_ne_dot c (hlet c h)
      · exact dashIf_nodot dr c h
  have hdd := dropDash_core dl dr (toks.flatMap NTok.plain) hne (fun c hc' => letter_ne_dash c (hlet c hc'))
  unfold stripRawN
  cases fl with
  | none =>
    have h := stripModsN_core 'x' nterm dl toks dr cterm [] hok hn hc
    simp only [List.append_nil, stripModsN] at h
    simp only [renderPeptideN, h]
    unfold dropLeft
    rw [afterDot_none _ hmid]
    simp only [Option.getD_none]
    rw [dropRight_id _ hmid]
    exact hdd
  | some lr =>
    obtain ⟨l, r⟩ := lr
    obtain ⟨hl, hr⟩ := hfl
    have hdot : isOpen '.' = false := by decide
    have e1 : renderPeptideN (some (l, r)) nterm dl toks dr cterm
        = (l ++ ['.']) ++ (renderCore nterm dl toks dr cterm ++ ('.' :: r)) := by
      simp [renderPeptideN]
    rw [e1, stripModsN_noopen 'x' (l ++ ['.']) _ (by
      intro c hc'
      rcases List.mem_append.mp hc' with hc' | hc'
      · exact (hl c hc').2.1
      · rw [List.mem_singleton.mp hc']; exact hdot)]
    rw [stripModsN_core 'x' nterm dl toks dr cterm _ hok hn hc]
    have hr' : stripModsN 0 'x' ('.' :: r) = '.' :: r := by
      have := stripModsN_noopen 'x' ('.' :: r) [] (by
        intro c hc'
        rcases List.mem_cons.mp hc' with rfl | hc'
        · exact hdot
        · exact (hr c hc').2.1)
      simpa [stripModsN] using this
    rw [hr']
    unfold dropLeft
    rw [List.append_assoc l ['.'], List.singleton_append, afterDot_append l _ (fun c hc' => (hl c hc').1)]
    simp only [Option.getD_some]
    rw [dropRight_append _ _ hmid]
    exact hdd

theorem filter_plainN (toks : List NTok) (hok : ∀ t ∈ toks, t.ok = true) :
    (toks.flatMap NTok.plain).filter (fun c => !c.isLower) = toks.flatMap NTok.residues := by
  induction toks with
  | nil => rfl
  | cons t ts ih =>
    have ht := hok t List.mem_cons_self
    rw [List.flatMap_cons, List.flatMap_cons, List.filter_append,
      ih (fun u hu => hok u (List.mem_cons_of_mem _ hu))]
    congr 1
    cases t with
    | res c =>
      have : c.isUpper = true := ht
      simp [NTok.plain, NTok.residues, upper_not_lower c this]
    | low c =>
      have : c.isLower = true := ht
      simp [NTok.plain, NTok.residues, this]
    | mod o b => simp [NTok.plain, NTok.residues]

theorem stripN_wellformed (col : List (List Char)) (i : Nat)
    (fl : Option (List Char × List Char)) (nterm : List NTok) (dl : Bool) (toks : List NTok) (dr : Bool)
    (cterm : List NTok)
    (hcol : col[i]? = some (renderPeptideN fl nterm dl toks dr cterm))
    (hok : ∀ t ∈ toks, t.ok = true) (hn : ∀ t ∈ nterm, t.ok = true ∧ t.isMod = true)
    (hc : ∀ t ∈ cterm, t.ok = true ∧ t.isMod = true) (hfl : flanksOk fl) (hres : ∃ c, NTok.res c ∈ toks) :
    (stripColN col)[i]? = some (toks.flatMap NTok.residues) := by
  unfold stripColN
  have h1 : (col.map stripRawN)[i]? = some (toks.flatMap NTok.plain) := by
    rw [List.getElem?_map, hcol, Option.map_some, stripRawN_render fl nterm dl toks dr cterm hok hn hc hfl hres]
  have hnl : isLowerStr (toks.flatMap NTok.plain) = false := by
    obtain ⟨c, hc'⟩ := hres
    unfold isLowerStr
    have : (toks.flatMap NTok.plain).any Char.isUpper = true := by
      rw [List.any_eq_true]
      exact ⟨c, List.mem_flatMap.mpr ⟨_, hc', by simp [NTok.plain]⟩, hok _ hc'⟩
    simp [this]
  rw [caseRule_getElem?_of_not_lower _ i _ h1 hnl, filter_plainN toks hok]

/-! ## the flat notation inside the nested one -/

theorem isClose_closerOf (o : Char) : isClose (closerOf o) = true := by
  unfold closerOf isClose
  split <;> decide

theorem flatMap_ch (o : Char) (body : List Char) : (body.map NItem.ch).flatMap (NItem.render o) = body := by
  induction body with
  | nil => rfl
  | cons c cs ih => simp [NItem.render, ih]

theorem toN_render (t : Tok) (hf : t.flat) : t.toN.render = t.render := by
  cases t with
  | res c => rfl
  | low c => rfl
  | mod o body cl =>
    obtain ⟨hcl, _⟩ := hf
    simp only [Tok.toN, NTok.render, Tok.render, hcl, flatMap_ch]

theorem toN_ok (t : Tok) (hw : t.wf) (hf : t.flat) : t.toN.ok = true := by
  cases t with
  | res c => exact hw
  | low c => exact hw
  | mod o body cl =>
    obtain ⟨ho, _, hb⟩ := hw
    obtain ⟨_, hno⟩ := hf
    simp only [Tok.toN, NTok.ok, ho, Bool.true_and, List.all_map, List.all_eq_true]
    intro c hc
    simp only [Function.comp, NItem.ok]
    rw [notOwn_iff]
    refine ⟨beq_eq_false_iff_ne.mpr (hno c hc), beq_eq_false_iff_ne.mpr ?_⟩
    intro h
    have := hb c hc
    rw [h, isClose_closerOf] at this
    exact absurd this (by decide)

theorem toN_residues (t : Tok) : t.toN.residues = t.residues := by cases t <;> rfl

theorem toN_render_list (toks : List Tok) (hf : ∀ t ∈ toks, t.flat) :
    (toks.map Tok.toN).flatMap NTok.render = toks.flatMap Tok.render := by
  induction toks with
  | nil => rfl
  | cons t ts ih =>
    simp only [List.map_cons, List.flatMap_cons]
    rw [toN_render t (hf t List.mem_cons_self), ih (fun u hu => hf u (List.mem_cons_of_mem _ hu))]

theorem toN_ok_list (toks : List Tok) (hw : ∀ t ∈ toks, t.wf) (hf : ∀ t ∈ toks, t.flat) :
    ∀ t ∈ toks.map Tok.toN, t.ok = true := by
  intro t ht
  obtain ⟨u, hu, rfl⟩ := List.mem_map.mp ht
  exact toN_ok u (hw u hu) (hf u hu)

theorem toN_residues_list (toks : List Tok) :
    (toks.map Tok.toN).flatMap NTok.residues = toks.flatMap Tok.residues := by
  induction toks with
  | nil => rfl
  | cons t ts ih => simp only [List.map_cons, List.flatMap_cons]; rw [toN_residues, ih]

end Mk.Picked
