import MokapotVerif.Lemmas.TdcFdrCore
import Mathlib.Data.Nat.Choose.Sum
import Mathlib.Data.Fintype.BigOperators
import Mathlib.Algebra.BigOperators.Ring.List
import Mathlib.Data.Fin.Tuple.Basic
import Mathlib.Data.List.OfFn
/-!
# Re-indexing the sum over the `2^m` outcomes

`Σ_{ω : Fin m → Bool}` → explicit coin lists (`allBools`) → labelled rankings (`allLab`)
→ the same read worst-first → split by the final counts `(v, m - v)` (`W`).
Also Stage 3, the binomial identity.
-/
namespace Mk.Tdc
open Finset

/-- all labelled versions of a ranking -/
def allLab : List Kind → List (List (Kind × Bool))
  | [] => [[]]
  | Kind.trueTarget :: ks => (allLab ks).map ((Kind.trueTarget, true) :: ·)
  | Kind.null :: ks =>
      (allLab ks).map ((Kind.null, true) :: ·) ++ (allLab ks).map ((Kind.null, false) :: ·)

/-- (a) the `Fintype` sum over all `ω : Fin m → Bool` is the sum over the explicit enumeration -/
theorem sum_ofFn_eq : ∀ (m : Nat) (g : List Bool → Rat),
    (∑ ω : Fin m → Bool, g (List.ofFn ω)) = ((allBools m).map g).sum
  | 0, g => by simp [allBools]
  | m + 1, g => by
    rw [← (Fin.consEquiv (fun _ : Fin (m + 1) => Bool)).sum_comp, Fintype.sum_prod_type,
      Fintype.sum_bool]
    simp only [Fin.consEquiv_apply, List.ofFn_succ, Fin.cons_zero, Fin.cons_succ]
    rw [sum_ofFn_eq m (fun l => g (true :: l)), sum_ofFn_eq m (fun l => g (false :: l))]
    simp [allBools, List.map_map, Function.comp_def]

/-- (b) coin lists → labelled rankings -/
theorem sum_allBools_lab : ∀ (ks : List Kind) (f : List (Kind × Bool) → Rat),
    ((allBools (nulls ks)).map (fun ω => f (lab ks ω))).sum = ((allLab ks).map f).sum
  | [], f => by simp [allBools, nulls, lab, allLab]
  | Kind.trueTarget :: ks, f => by
    rw [nulls_cons_tt]
    have := sum_allBools_lab ks (fun L => f ((Kind.trueTarget, true) :: L))
    simpa [lab, allLab, List.map_map, Function.comp_def] using this
  | Kind.null :: ks, f => by
    rw [nulls_cons_null]
    have h1 := sum_allBools_lab ks (fun L => f ((Kind.null, true) :: L))
    have h2 := sum_allBools_lab ks (fun L => f ((Kind.null, false) :: L))
    simp only [allBools, allLab, List.map_append, List.map_map, List.sum_append, Function.comp_def,
      lab, List.headD_cons, List.tail_cons]
    rw [h1, h2]

theorem sum_allLab_snoc_tt : ∀ (rs : List Kind) (f : List (Kind × Bool) → Rat),
    ((allLab (rs ++ [Kind.trueTarget])).map f).sum
      = ((allLab rs).map (fun R => f (R ++ [(Kind.trueTarget, true)]))).sum
  | [], f => by simp [allLab]
  | Kind.trueTarget :: rs, f => by
    have := sum_allLab_snoc_tt rs (fun L => f ((Kind.trueTarget, true) :: L))
    simpa [allLab, List.map_map, Function.comp_def] using this
  | Kind.null :: rs, f => by
    have h1 := sum_allLab_snoc_tt rs (fun L => f ((Kind.null, true) :: L))
    have h2 := sum_allLab_snoc_tt rs (fun L => f ((Kind.null, false) :: L))
    simp only [List.cons_append, allLab, List.map_append, List.map_map, List.sum_append,
      Function.comp_def]
    rw [h1, h2]

theorem sum_allLab_snoc_null : ∀ (rs : List Kind) (f : List (Kind × Bool) → Rat),
    ((allLab (rs ++ [Kind.null])).map f).sum
      = ((allLab rs).map (fun R => f (R ++ [(Kind.null, true)]))).sum
        + ((allLab rs).map (fun R => f (R ++ [(Kind.null, false)]))).sum
  | [], f => by simp [allLab]
  | Kind.trueTarget :: rs, f => by
    have := sum_allLab_snoc_null rs (fun L => f ((Kind.trueTarget, true) :: L))
    simpa [allLab, List.map_map, Function.comp_def] using this
  | Kind.null :: rs, f => by
    have h1 := sum_allLab_snoc_null rs (fun L => f ((Kind.null, true) :: L))
    have h2 := sum_allLab_snoc_null rs (fun L => f ((Kind.null, false) :: L))
    simp only [List.cons_append, allLab, List.map_append, List.map_map, List.sum_append,
      Function.comp_def]
    rw [h1, h2]
    ring

/-- (c) reading every labelled ranking worst-first is a bijection of the labelled rankings of
the reversed ranking -/
theorem sum_allLab_reverse : ∀ (ks : List Kind) (f : List (Kind × Bool) → Rat),
    ((allLab ks).map (fun L => f L.reverse)).sum = ((allLab ks.reverse).map f).sum
  | [], f => by simp [allLab]
  | Kind.trueTarget :: ks, f => by
    rw [List.reverse_cons, sum_allLab_snoc_tt,
      ← sum_allLab_reverse ks (fun R => f (R ++ [(Kind.trueTarget, true)]))]
    simp [allLab, List.map_map, Function.comp_def]
  | Kind.null :: ks, f => by
    rw [List.reverse_cons, sum_allLab_snoc_null,
      ← sum_allLab_reverse ks (fun R => f (R ++ [(Kind.null, true)])),
      ← sum_allLab_reverse ks (fun R => f (R ++ [(Kind.null, false)]))]
    simp [allLab, List.map_map, Function.comp_def]

theorem sum_W_cons_null (rs : List Kind) (v d : Nat) (f : List (Kind × Bool) → Rat) :
    ((W (Kind.null :: rs) v d).map f).sum
      = (if v = 0 then 0 else ((W rs (v - 1) d).map (fun R => f ((Kind.null, true) :: R))).sum)
        + (if d = 0 then 0 else ((W rs v (d - 1)).map (fun R => f ((Kind.null, false) :: R))).sum) := by
  conv_lhs => unfold W
  rw [List.map_append, List.sum_append]
  congr 1
  · split <;> simp [List.map_map, Function.comp_def]
  · split <;> simp [List.map_map, Function.comp_def]

/-- (d) split the labelled rankings by the number `v` of nulls labelled target -/
theorem sum_allLab_eq_sum_W : ∀ (rs : List Kind) (f : List (Kind × Bool) → Rat),
    ((allLab rs).map f).sum = ∑ v ∈ range (nulls rs + 1), ((W rs v (nulls rs - v)).map f).sum
  | [], f => by simp [allLab, nulls, W]
  | Kind.trueTarget :: rs, f => by
    rw [nulls_cons_tt]
    have := sum_allLab_eq_sum_W rs (fun L => f ((Kind.trueTarget, true) :: L))
    simpa [allLab, W, List.map_map, Function.comp_def] using this
  | Kind.null :: rs, f => by
    rw [nulls_cons_null]
    have h1 := sum_allLab_eq_sum_W rs (fun L => f ((Kind.null, true) :: L))
    have h2 := sum_allLab_eq_sum_W rs (fun L => f ((Kind.null, false) :: L))
    simp only [allLab, List.map_append, List.map_map, List.sum_append, Function.comp_def]
    rw [h1, h2]
    simp only [sum_W_cons_null]
    rw [Finset.sum_add_distrib]
    congr 1
    · conv_rhs => rw [Finset.sum_range_succ']
      simp
    · conv_rhs => rw [Finset.sum_range_succ]
      simp only [Nat.sub_self, ↓reduceIte, add_zero]
      apply Finset.sum_congr rfl
      intro v hv
      have hv' : v < nulls rs + 1 := Finset.mem_range.mp hv
      have e1 : nulls rs + 1 - v ≠ 0 := by omega
      have e2 : nulls rs + 1 - v - 1 = nulls rs - v := by omega
      rw [if_neg e1, e2]

/-- the bounds add up to `2^m − 1` -/
theorem sum_Bnd (m : Nat) : (∑ v ∈ range (m + 1), Bnd v (m - v)) + 1 = 2 ^ m := by
  rw [Finset.sum_range_succ']
  have h0 : Bnd 0 (m - 0) = 0 := rfl
  rw [h0, add_zero]
  have : ∑ v ∈ range m, Bnd (v + 1) (m - (v + 1)) = ∑ v ∈ range m, m.choose v := by
    apply Finset.sum_congr rfl
    intro v hv
    have hv' : v < m := Finset.mem_range.mp hv
    show (v + 1 + (m - (v + 1))).choose v = m.choose v
    have : v + 1 + (m - (v + 1)) = m := by omega
    rw [this]
  rw [this, ← Nat.sum_range_choose m, Finset.sum_range_succ, Nat.choose_self]

/-- **Stage 3** — the binomial identity `Σ_{v=0}^{m} C(m,v) · v/(m−v+1) = 2^m − 1`
(i.e. `E[V/(1+D)] = 1 − 2^{-m}` for `V ~ Bin(m, 1/2)`, `D = m − V`). -/
theorem sum_choose_mul_div (m : Nat) :
    (∑ v ∈ range (m + 1), ((m.choose v : Nat) : Rat) * (((v : Nat) : Rat) / ((m - v + 1 : Nat) : Rat)))
      = 2 ^ m - 1 := by
  have h : ∀ v ∈ range (m + 1),
      ((m.choose v : Nat) : Rat) * (((v : Nat) : Rat) / ((m - v + 1 : Nat) : Rat))
        = ((Bnd v (m - v) : Nat) : Rat) := by
    intro v hv
    have hv' : v < m + 1 := Finset.mem_range.mp hv
    have := choose_mul_eq_Bnd v (m - v)
    have e : v + (m - v) = m := by omega
    rw [e] at this
    exact this
  rw [Finset.sum_congr rfl h]
  have := sum_Bnd m
  have h2 : (((∑ v ∈ range (m + 1), Bnd v (m - v)) + 1 : Nat) : Rat) = ((2 ^ m : Nat) : Rat) := by
    rw [this]
  push_cast at h2
  linarith

end Mk.Tdc
