import MokapotVerif.Lemmas.Merge
/-! Invariants of the two merge loops of C14. -/
namespace Mk.Merge
variable {α : Type}

/-! ## one step: `A ++ s :: B ↦ A ++ nextSrc s ++ B` -/

theorem nextSrc_rows (s : Src α) : (nextSrc s).flatMap srcRows = s.2 := by
  obtain ⟨c, rest⟩ := s
  cases rest <;> simp [nextSrc, srcRows]

theorem openSrc_rows (xs : List α) : (openSrc xs).flatMap srcRows = xs := by
  cases xs <;> simp [openSrc, srcRows]

theorem openAll_rows (inputs : List (List α)) :
    (inputs.flatMap openSrc).flatMap srcRows = inputs.flatten := by
  induction inputs with
  | nil => rfl
  | cons xs rest ih => simp [List.flatMap_cons, List.flatMap_append, openSrc_rows, ih]

theorem srcAt_eq (st : List (Src α)) (i : Nat) (hi : i < st.length) : srcAt st i = [st[i]] := by
  unfold srcAt
  rw [List.drop_eq_getElem_cons hi]
  rfl

theorem step_decomp (st : List (Src α)) (i : Nat) (hi : i < st.length) :
    ∃ A s B, st = A ++ s :: B ∧ srcAt st i = [s] ∧ advanceAt st i = A ++ nextSrc s ++ B ∧
      st[i]? = some s := by
  refine ⟨st.take i, st[i], st.drop (i + 1), ?_, srcAt_eq st i hi, ?_, List.getElem?_eq_getElem hi⟩
  · rw [← List.drop_eq_getElem_cons hi, List.take_append_drop]
  · unfold advanceAt
    rw [srcAt_eq st i hi]
    simp

/-- decomposition at the index chosen by the scan (no order hypothesis needed) -/
theorem step_valid (better : α → α → Bool) (st : List (Src α)) (h : st ≠ []) :
    ∃ A s B, st = A ++ s :: B ∧ srcAt st (argFirst better (st.map (·.1))) = [s] ∧
      advanceAt st (argFirst better (st.map (·.1))) = A ++ nextSrc s ++ B := by
  have hl := argFirst_lt better (st.map (·.1)) (by simpa using h)
  rw [List.length_map] at hl
  obtain ⟨A, s, B, h1, h2, h3, _⟩ := step_decomp st _ hl
  exact ⟨A, s, B, h1, h2, h3⟩

/-- … and with a total preorder the chosen input carries a maximal current row -/
theorem step_max (le : α → α → Bool) (hle : TotalPre le) (st : List (Src α)) (h : st ≠ []) :
    ∃ A s B, st = A ++ s :: B ∧ srcAt st (argFirst (ltMax le) (st.map (·.1))) = [s] ∧
      advanceAt st (argFirst (ltMax le) (st.map (·.1))) = A ++ nextSrc s ++ B ∧
      ∀ t ∈ st, le t.1 s.1 = true := by
  have hne : st.map (·.1) ≠ [] := by simpa using h
  have hl := argFirst_lt (ltMax le) (st.map (·.1)) hne
  rw [List.length_map] at hl
  obtain ⟨x, hx, hmax⟩ := argFirst_spec le hle (st.map (·.1)) hne
  obtain ⟨A, s, B, h1, h2, h3, h4⟩ := step_decomp st _ hl
  refine ⟨A, s, B, h1, h2, h3, ?_⟩
  intro t ht
  have hx' : x = s.1 := by
    rw [List.getElem?_map, h4] at hx
    simpa using hx.symm
  rw [← hx']
  exact hmax t.1 (List.mem_map.mpr ⟨t, ht, rfl⟩)

theorem srcTotal_step (A B : List (Src α)) (s : Src α) :
    srcTotal (A ++ s :: B) = srcTotal (A ++ nextSrc s ++ B) + 1 := by
  simp only [srcTotal, List.flatMap_append, List.flatMap_cons, List.length_append, nextSrc_rows,
    srcRows, List.length_cons]
  omega

theorem srcTotal_eq_zero {st : List (Src α)} (h : srcTotal st = 0) : st = [] := by
  cases st with
  | nil => rfl
  | cons s st => simp [srcTotal, srcRows, List.flatMap_cons] at h

theorem srcAt_subset (st : List (Src α)) (i : Nat) : ∀ s ∈ srcAt st i, s ∈ st := by
  intro s hs
  exact List.mem_of_mem_drop (List.mem_of_mem_take hs)

/-! ## `merge_sort`: every row exactly once -/

theorem mergeLoop_perm (le : α → α → Bool) :
    ∀ (fuel : Nat) (st : List (Src α)), srcTotal st ≤ fuel →
      (mergeLoop le fuel st).Perm (st.flatMap srcRows) := by
  intro fuel
  induction fuel with
  | zero =>
    intro st h
    have := srcTotal_eq_zero (Nat.le_zero.mp h)
    subst this; simp [mergeLoop]
  | succ n ih =>
    intro st h
    unfold mergeLoop
    by_cases he : st = []
    · subst he; simp
    · have he' : st.isEmpty = false := by simpa using he
      simp only [he', Bool.false_eq_true, if_false]
      obtain ⟨A, s, B, hst, hcur, hadv⟩ := step_valid (ltMax le) st he
      rw [hcur, hadv]
      have hfuel : srcTotal (A ++ nextSrc s ++ B) ≤ n := by
        have := srcTotal_step A B s
        rw [← hst] at this; omega
      have := ih _ hfuel
      rw [hst]
      simp only [List.map_cons, List.map_nil, List.singleton_append, List.flatMap_append,
        List.flatMap_cons, nextSrc_rows, srcRows] at this ⊢
      refine (List.Perm.cons _ this).trans ?_
      simp only [List.append_assoc]
      exact List.perm_middle.symm

/-! ## the table merger -/

theorem pickIdx_desc (le : α → α → Bool) (vals : List α) :
    pickIdx le true vals = argFirst (ltMax le) vals := rfl

theorem pickIdx_asc (le : α → α → Bool) (vals : List α) :
    pickIdx le false vals = pickIdx (fun a b => le b a) true vals := rfl

theorem violates_asc (le : α → α → Bool) (s : Src α) :
    violates le false s = violates (fun a b => le b a) true s := by
  obtain ⟨c, rest⟩ := s
  cases rest <;> simp [violates]

/-- ascending mode is descending mode on the reversed order -/
theorem checkedLoop_dual (le : α → α → Bool) :
    ∀ (fuel : Nat) (st : List (Src α)),
      checkedLoop le false fuel st = checkedLoop (fun a b => le b a) true fuel st := by
  intro fuel
  induction fuel with
  | zero => intro st; rfl
  | succ n ih =>
    intro st
    unfold checkedLoop
    have hv : violates le false = violates (fun a b => le b a) true := funext (violates_asc le)
    simp only [pickIdx_asc, hv, ih]

theorem mergeLoop_unfold (le : α → α → Bool) (n : Nat) (st A B : List (Src α)) (s : Src α)
    (he : st ≠ []) (hcur : srcAt st (argFirst (ltMax le) (st.map (·.1))) = [s])
    (hadv : advanceAt st (argFirst (ltMax le) (st.map (·.1))) = A ++ nextSrc s ++ B) :
    mergeLoop le (n + 1) st = s.1 :: mergeLoop le n (A ++ nextSrc s ++ B) := by
  have he' : st.isEmpty = false := by simpa using he
  rw [mergeLoop]
  simp only [he', hcur, hadv, Bool.false_eq_true, if_false, List.map_cons, List.map_nil,
    List.singleton_append]

theorem checkedLoop_unfold (le : α → α → Bool) (n : Nat) (st A B : List (Src α)) (s : Src α)
    (he : st ≠ []) (hcur : srcAt st (argFirst (ltMax le) (st.map (·.1))) = [s])
    (hadv : advanceAt st (argFirst (ltMax le) (st.map (·.1))) = A ++ nextSrc s ++ B) :
    checkedLoop le true (n + 1) st =
      if violates le true s = true then ([s.1], true)
      else (s.1 :: (checkedLoop le true n (A ++ nextSrc s ++ B)).1,
            (checkedLoop le true n (A ++ nextSrc s ++ B)).2) := by
  have he' : st.isEmpty = false := by simpa using he
  have hcur' : srcAt st (pickIdx le true (st.map (·.1))) = [s] := hcur
  have hadv' : advanceAt st (pickIdx le true (st.map (·.1))) = A ++ nextSrc s ++ B := hadv
  rw [checkedLoop]
  simp only [he', hcur', hadv', Bool.false_eq_true, if_false, List.map_cons, List.map_nil,
    List.singleton_append, List.any_cons, List.any_nil, Bool.or_false]

theorem nonIncr_cons2 {le : α → α → Bool} (hle : TotalPre le) (c n : α) (rest : List α) :
    NonIncr le (c :: n :: rest) ↔ le n c = true ∧ NonIncr le (n :: rest) := by
  unfold NonIncr
  constructor
  · intro h
    rw [List.pairwise_cons] at h
    exact ⟨h.1 n (by simp), h.2⟩
  · rintro ⟨h1, h2⟩
    rw [List.pairwise_cons]
    refine ⟨?_, h2⟩
    intro y hy
    rcases List.mem_cons.mp hy with rfl | hy
    · exact h1
    · exact hle.trans _ _ _ ((List.pairwise_cons.mp h2).1 y hy) h1

/-- a non-violating input stays sorted iff its successor is -/
theorem sorted_step {le : α → α → Bool} (hle : TotalPre le) (s : Src α)
    (hv : violates le true s = false) :
    NonIncr le (srcRows s) ↔ ∀ t ∈ nextSrc s, NonIncr le (srcRows t) := by
  obtain ⟨c, rest⟩ := s
  cases rest with
  | nil => simp [nextSrc, srcRows, NonIncr]
  | cons n rest =>
    have hnc : le n c = true := by simpa [violates] using hv
    simp only [nextSrc, srcRows, List.mem_singleton, forall_eq]
    rw [nonIncr_cons2 hle]
    exact ⟨fun h => h.2, fun h => ⟨hnc, h⟩⟩

theorem violates_not_sorted {le : α → α → Bool} (s : Src α) (hv : violates le true s = true) :
    ¬ NonIncr le (srcRows s) := by
  obtain ⟨c, rest⟩ := s
  cases rest with
  | nil => simp [violates] at hv
  | cons n rest =>
    intro h
    have : le n c = true := (List.pairwise_cons.mp h).1 n (by simp)
    simp [violates, this] at hv

/-- `ValueError` iff some open input is not non-increasing -/
theorem checkedLoop_err_iff (le : α → α → Bool) (hle : TotalPre le) :
    ∀ (fuel : Nat) (st : List (Src α)), srcTotal st ≤ fuel →
      ((checkedLoop le true fuel st).2 = false ↔ ∀ s ∈ st, NonIncr le (srcRows s)) := by
  intro fuel
  induction fuel with
  | zero =>
    intro st h
    have := srcTotal_eq_zero (Nat.le_zero.mp h)
    subst this; simp [checkedLoop]
  | succ n ih =>
    intro st h
    by_cases he : st = []
    · subst he; simp [checkedLoop]
    · obtain ⟨A, s, B, hst, hcur, hadv⟩ := step_valid (ltMax le) st he
      rw [checkedLoop_unfold le n st A B s he hcur hadv]
      have hfuel : srcTotal (A ++ nextSrc s ++ B) ≤ n := by
        have := srcTotal_step A B s
        rw [← hst] at this; omega
      by_cases hv : violates le true s = true
      · rw [if_pos hv]
        constructor
        · intro h; cases h
        · intro hall
          exact absurd (hall s (by rw [hst]; simp)) (violates_not_sorted s hv)
      · have hv' : violates le true s = false := by simpa using hv
        rw [if_neg hv]
        show (checkedLoop le true n (A ++ nextSrc s ++ B)).2 = false ↔ _
        rw [ih _ hfuel, hst]
        have key := sorted_step hle s hv'
        constructor
        · intro hall t ht
          rcases List.mem_append.mp ht with ht | ht
          · exact hall t (by simp [ht])
          · rcases List.mem_cons.mp ht with rfl | ht
            · exact key.mpr (fun u hu => hall u (by simp [hu]))
            · exact hall t (by simp [ht])
        · intro hall t ht
          rcases List.mem_append.mp ht with ht | ht
          · rcases List.mem_append.mp ht with ht | ht
            · exact hall t (by simp [ht])
            · exact key.mp (hall s (by simp)) t ht
          · exact hall t (by simp [ht])

/-- on non-increasing inputs the table merger never raises and yields exactly the rows of
`merge_sort`, in the same order -/
theorem checkedLoop_eq_mergeLoop (le : α → α → Bool) (hle : TotalPre le) :
    ∀ (fuel : Nat) (st : List (Src α)), (∀ s ∈ st, NonIncr le (srcRows s)) →
      checkedLoop le true fuel st = (mergeLoop le fuel st, false) := by
  intro fuel
  induction fuel with
  | zero => intro st _; rfl
  | succ n ih =>
    intro st hall
    by_cases he : st = []
    · subst he; simp [checkedLoop, mergeLoop]
    · obtain ⟨A, s, B, hst, hcur, hadv⟩ := step_valid (ltMax le) st he
      rw [checkedLoop_unfold le n st A B s he hcur hadv, mergeLoop_unfold le n st A B s he hcur hadv]
      have hs : NonIncr le (srcRows s) := hall s (by rw [hst]; simp)
      have hv : violates le true s = false := by
        by_contra hc
        exact violates_not_sorted s (by simpa using hc) hs
      have hall' : ∀ t ∈ A ++ nextSrc s ++ B, NonIncr le (srcRows t) := by
        intro t ht
        rcases List.mem_append.mp ht with ht | ht
        · rcases List.mem_append.mp ht with ht | ht
          · exact hall t (by rw [hst]; simp [ht])
          · exact (sorted_step hle s hv).mp hs t ht
        · exact hall t (by rw [hst]; simp [ht])
      rw [if_neg (by simp [hv]), ih _ hall']

/-- the successor of a non-violating input starts at most as high -/
theorem next_le_cur {le : α → α → Bool} (s : Src α) (hv : violates le true s = false) :
    ∀ t ∈ nextSrc s, le t.1 s.1 = true := by
  obtain ⟨c, rest⟩ := s
  cases rest with
  | nil => intro t ht; simp [nextSrc] at ht
  | cons m rest =>
    intro t ht
    have : t = (m, rest) := by simpa [nextSrc] using ht
    subst this
    simpa [violates] using hv

/-- everything the loop yields is bounded by a bound of the current rows -/
theorem checkedLoop_bound (le : α → α → Bool) (hle : TotalPre le) :
    ∀ (fuel : Nat) (st : List (Src α)) (b : α), (∀ s ∈ st, le s.1 b = true) →
      ∀ x ∈ (checkedLoop le true fuel st).1, le x b = true := by
  intro fuel
  induction fuel with
  | zero => intro st b _ x hx; simp [checkedLoop] at hx
  | succ n ih =>
    intro st b hall x hx
    by_cases he : st = []
    · subst he; simp [checkedLoop] at hx
    · obtain ⟨A, s, B, hst, hcur, hadv⟩ := step_valid (ltMax le) st he
      rw [checkedLoop_unfold le n st A B s he hcur hadv] at hx
      have hsb : le s.1 b = true := hall s (by rw [hst]; simp)
      by_cases hv : violates le true s = true
      · rw [if_pos hv] at hx
        have : x = s.1 := by simpa using hx
        rw [this]; exact hsb
      · have hv' : violates le true s = false := by simpa using hv
        rw [if_neg hv] at hx
        rcases List.mem_cons.mp hx with rfl | hx
        · exact hsb
        · refine ih _ b ?_ x hx
          intro t ht
          rcases List.mem_append.mp ht with ht | ht
          · rcases List.mem_append.mp ht with ht | ht
            · exact hall t (by rw [hst]; simp [ht])
            · exact hle.trans _ _ _ (next_le_cur s hv' t ht) hsb
          · exact hall t (by rw [hst]; simp [ht])

/-- the yielded rows are non-increasing — whether or not the loop ends in `ValueError` -/
theorem checkedLoop_sorted (le : α → α → Bool) (hle : TotalPre le) :
    ∀ (fuel : Nat) (st : List (Src α)), NonIncr le (checkedLoop le true fuel st).1 := by
  intro fuel
  induction fuel with
  | zero => intro st; simp [checkedLoop, NonIncr]
  | succ n ih =>
    intro st
    by_cases he : st = []
    · subst he; simp [checkedLoop, NonIncr]
    · obtain ⟨A, s, B, hst, hcur, hadv, hmax⟩ := step_max le hle st he
      rw [checkedLoop_unfold le n st A B s he hcur hadv]
      by_cases hv : violates le true s = true
      · rw [if_pos hv]; simp [NonIncr]
      · have hv' : violates le true s = false := by simpa using hv
        rw [if_neg hv]
        show List.Pairwise _ (s.1 :: (checkedLoop le true n (A ++ nextSrc s ++ B)).1)
        rw [List.pairwise_cons]
        refine ⟨?_, ih _⟩
        apply checkedLoop_bound le hle n _ s.1
        intro t ht
        rcases List.mem_append.mp ht with ht | ht
        · rcases List.mem_append.mp ht with ht | ht
          · exact hmax t (by rw [hst]; simp [ht])
          · exact next_le_cur s hv' t ht
        · exact hmax t (by rw [hst]; simp [ht])

/-- the yielded rows are distinct occurrences of input rows -/
theorem checkedLoop_subperm (le : α → α → Bool) :
    ∀ (fuel : Nat) (st : List (Src α)),
      (checkedLoop le true fuel st).1.Subperm (st.flatMap srcRows) := by
  intro fuel
  induction fuel with
  | zero => intro st; simp [checkedLoop]
  | succ n ih =>
    intro st
    by_cases he : st = []
    · subst he; simp [checkedLoop]
    · obtain ⟨A, s, B, hst, hcur, hadv⟩ := step_valid (ltMax le) st he
      rw [checkedLoop_unfold le n st A B s he hcur hadv]
      have hperm : (s.1 :: ((A ++ nextSrc s ++ B).flatMap srcRows)).Perm (st.flatMap srcRows) := by
        rw [hst]
        simp only [List.flatMap_append, List.flatMap_cons, nextSrc_rows, srcRows, List.append_assoc]
        exact List.perm_middle.symm
      by_cases hv : violates le true s = true
      · rw [if_pos hv]
        exact (List.singleton_sublist.mpr (hperm.subset (by simp))).subperm
      · rw [if_neg hv]
        exact ((List.subperm_cons s.1).mpr (ih _)).trans hperm.subperm

end Mk.Merge
