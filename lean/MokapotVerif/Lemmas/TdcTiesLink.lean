import MokapotVerif.Lemmas.TdcTies
import MokapotVerif.Lemmas.TdcLevelFdr
/-!
# Link for tied scores: the q-value column accepts exactly the closed form `tiedAccepted`

For a level file in non-increasing score order (any ties) and `a < 1`, the rows whose q-value
(`levelQvalues` = model of `tdc` = the C01 formula `qSpec`) is `≤ a` are the first
`tiedStop a …` rows: the longest prefix that ends at a tie-group boundary and passes
`(D + 1) ≤ a · T`.  Then the level-file form of the FDR bound for tied scores.
-/
namespace Mk.TdcX
open Mk Mk.Tdc

/-- a predicate that is closed towards the front of a list holds exactly on the first `countP` items -/
theorem prefixClosed_iff {β : Type} (q : β → Bool) : ∀ (xs : List β),
    xs.Pairwise (fun x y => q y = true → q x = true) →
    ∀ (j : Nat) (hj : j < xs.length), q xs[j] = true ↔ j < xs.countP q
  | [], _, j, hj => absurd hj (Nat.not_lt_zero _)
  | x :: rest, h, j, hj => by
    rw [List.pairwise_cons] at h
    obtain ⟨hx, hrest⟩ := h
    by_cases hq : q x = true
    · cases j with
      | zero => simp [hq]
      | succ j' =>
        have hj' : j' < rest.length := by simpa using hj
        have ih := prefixClosed_iff q rest hrest j' hj'
        simp only [List.getElem_cons_succ, List.countP_cons, hq, if_true]
        rw [ih]; omega
    · have hall : ∀ y ∈ rest, ¬ q y = true := fun y hy hqy => hq (hx y hy hqy)
      have hc : rest.countP q = 0 := List.countP_eq_zero.mpr hall
      cases j with
      | zero => simp [hq, hc]
      | succ j' =>
        have hj' : j' < rest.length := by simpa using hj
        simp only [List.getElem_cons_succ, List.countP_cons, hq, hc]
        constructor
        · intro h; exact absurd h (hall _ (List.getElem_mem hj'))
        · intro h; simp at h

theorem tieCuts_length (s : List Int) : (tieCuts s).length = s.length := by
  simp [tieCuts]

/-- a cut is possible after row `i` iff it is the last row or the next score differs -/
theorem tieCuts_getD (xs : List (Int × Bool)) (i : Nat) (hi : i < xs.length) :
    (tieCuts (xs.map (·.1))).getD i false = true ↔
      i + 1 = xs.length ∨ ∃ h : i + 1 < xs.length, xs[i].1 ≠ xs[i + 1].1 := by
  unfold tieCuts
  have hi' : i < (List.range (xs.map (·.1)).length).length := by simpa using hi
  rw [List.getD_eq_getElem?_getD, List.getElem?_map, List.getElem?_range (by simpa using hi)]
  simp only [Option.map_some, Option.getD_some, List.length_map, Bool.or_eq_true, decide_eq_true_iff,
    bne_iff_ne, ne_eq]
  have e1 : (xs.map (·.1)).getD i 0 = xs[i].1 := by
    simp [List.getD_eq_getElem?_getD, hi]
  rw [e1]
  constructor
  · rintro (h | h)
    · exact Or.inl h
    · by_cases hlt : i + 1 < xs.length
      · have e2 : (xs.map (·.1)).getD (i + 1) 0 = xs[i + 1].1 := by
          simp [List.getD_eq_getElem?_getD, hlt]
        rw [e2] at h
        exact Or.inr ⟨hlt, h⟩
      · exact Or.inl (by omega)
  · rintro (h | ⟨hlt, h⟩)
    · exact Or.inl h
    · have e2 : (xs.map (·.1)).getD (i + 1) 0 = xs[i + 1].1 := by
        simp [List.getD_eq_getElem?_getD, hlt]
      rw [e2]
      exact Or.inr h

/-- row `j` has q-value `≤ a` iff it lies inside the closed-form accepted prefix -/
theorem qSpec_le_iff_lt_tiedStop (xs : List (Int × Bool)) (hs : xs.Pairwise (fun x y => y.1 ≤ x.1))
    (a : Rat) (ha : a < 1) (j : Nat) (hj : j < xs.length) :
    qSpec (leInt true) xs xs[j].1 ≤ a ↔ j < tiedStop a xs := by
  have hsI := List.pairwise_iff_getElem.mp hs
  have hclosed : ∀ t : Int,
      xs.Pairwise (fun x y => (fun z : Int × Bool => leInt true t z.1) y = true →
        (fun z : Int × Bool => leInt true t z.1) x = true) := by
    intro t
    refine List.Pairwise.imp ?_ hs
    intro x y hxy h
    simp only [leInt, if_true, decide_eq_true_iff] at h ⊢
    omega
  have hidx : ∀ (t : Int) (i : Nat) (hi : i < xs.length),
      t ≤ xs[i].1 ↔ i < xs.countP (fun z : Int × Bool => leInt true t z.1) := by
    intro t i hi
    have := prefixClosed_iff (fun z : Int × Bool => leInt true t z.1) xs (hclosed t) i hi
    rw [← this]
    simp [leInt]
  have hfilter : ∀ t : Int, xs.filter (fun z : Int × Bool => leInt true t z.1)
      = xs.take (xs.countP (fun z : Int × Bool => leInt true t z.1)) := by
    intro t
    exact filter_eq_take xs _ _ (fun i hi =>
      prefixClosed_iff (fun z : Int × Bool => leInt true t z.1) xs (hclosed t) i hi)
  have hT : ∀ t : Int, cntT (leInt true) xs t
      = Tc xs (xs.countP (fun z : Int × Bool => leInt true t z.1)) := by
    intro t
    unfold Tc cntT
    rw [← hfilter t, List.countP_filter]
    congr 1; funext y; simp [isT, Bool.and_comm]
  have hD : ∀ t : Int, cntD (leInt true) xs t
      = Dc xs (xs.countP (fun z : Int × Bool => leInt true t z.1)) := by
    intro t
    unfold Dc cntD
    rw [← hfilter t, List.countP_filter]
    congr 1; funext y; simp [isD, Bool.and_comm]
  have hstop_le : tiedStop a xs ≤ xs.length := lastTrue_le _ _
  unfold qSpec
  rw [minOver_le_iff' _ a ha]
  constructor
  · rintro ⟨y, hy, hya⟩
    obtain ⟨t, ht, rfl⟩ := List.mem_map.mp hy
    obtain ⟨htmem, htle⟩ := List.mem_filter.mp ht
    obtain ⟨i, hi, rfl⟩ := List.mem_iff_getElem.mp htmem
    have htle' : xs[i].1 ≤ xs[j].1 := by simpa [leInt] using htle
    set p := xs.countP (fun z : Int × Bool => leInt true xs[i].1 z.1) with hp
    have hjp : j < p := (hidx xs[i].1 j hj).mp htle'
    have hip : i < p := (hidx xs[i].1 i hi).mp (le_refl _)
    have hpn : p ≤ xs.length := List.countP_le_length
    rw [hT, hD, fdrRaw_le_iff _ _ a ha] at hya
    have hok : okAt a xs p := hya
    have hp1 : p - 1 < xs.length := by omega
    have hcut : (tieCuts (xs.map (·.1))).getD (p - 1) false = true := by
      rw [tieCuts_getD xs (p - 1) hp1]
      by_cases hlast : p - 1 + 1 = xs.length
      · exact Or.inl hlast
      · have hlt : p - 1 + 1 < xs.length := by omega
        refine Or.inr ⟨hlt, ?_⟩
        have h1 : xs[i].1 ≤ xs[p - 1].1 := (hidx xs[i].1 (p - 1) hp1).mpr (by omega)
        have h2 : ¬ xs[i].1 ≤ xs[p - 1 + 1].1 := by
          intro h
          have := (hidx xs[i].1 (p - 1 + 1) hlt).mp h
          omega
        omega
    have hc : cutOk a (tieCuts (xs.map (·.1))) xs p = true :=
      (cutOk_iff a _ xs p).mpr ⟨hcut, by omega, hok⟩
    have : p ≤ tiedStop a xs := le_lastTrue _ _ p hpn hc
    omega
  · intro hlt
    have hne : tiedStop a xs ≠ 0 := by omega
    have hc : cutOk a (tieCuts (xs.map (·.1))) xs (tiedStop a xs) = true := lastTrue_spec _ _ hne
    obtain ⟨hcut, _, hok⟩ := (cutOk_iff a _ xs _).mp hc
    obtain ⟨i, hi⟩ := Nat.exists_eq_succ_of_ne_zero hne
    rw [hi] at hcut hok hlt hstop_le
    have hi' : i < xs.length := by omega
    simp only [Nat.succ_eq_add_one, Nat.add_sub_cancel] at hcut
    -- the tie group of row `i` ends exactly at the stop
    have hii : i < xs.countP (fun z : Int × Bool => leInt true xs[i].1 z.1) :=
      (hidx xs[i].1 i hi').mp (le_refl _)
    have hcn : xs.countP (fun z : Int × Bool => leInt true xs[i].1 z.1) ≤ xs.length :=
      List.countP_le_length
    have hce : xs.countP (fun z : Int × Bool => leInt true xs[i].1 z.1) = i + 1 := by
      by_contra hneq
      have hgt : i + 1 < xs.countP (fun z : Int × Bool => leInt true xs[i].1 z.1) := by omega
      have hlt' : i + 1 < xs.length := by omega
      rcases (tieCuts_getD xs i hi').mp hcut with h | ⟨_, h⟩
      · omega
      · have h1 : xs[i + 1].1 ≤ xs[i].1 := hsI i (i + 1) hi' hlt' (by omega)
        have h2 : xs[i].1 ≤ xs[i + 1].1 := (hidx xs[i].1 (i + 1) hlt').mpr hgt
        omega
    have hji : xs[i].1 ≤ xs[j].1 := by
      rcases Nat.lt_or_ge j i with h | h
      · exact hsI j i hj hi' h
      · have : j = i := by omega
        subst this; exact le_refl _
    refine ⟨_, List.mem_map.mpr ⟨xs[i], List.mem_filter.mpr ⟨List.getElem_mem hi', ?_⟩, rfl⟩, ?_⟩
    · simpa [leInt] using hji
    · rw [hT, hD, hce, fdrRaw_le_iff _ _ a ha]
      exact hok

theorem scoreLabels_sorted (S : List Row) (h : S.Pairwise (fun a b => b.score ≤ a.score)) :
    (scoreLabels S).Pairwise (fun x y => y.1 ≤ x.1) := by
  unfold scoreLabels
  rw [List.pairwise_map]
  exact h

/-- the rows accepted through the q-value column are the closed form, for any ties -/
theorem acceptedRows_eq_tiedAccepted (a : Rat) (ha : a < 1) (S : List Row)
    (h : S.Pairwise (fun a b => b.score ≤ a.score)) :
    acceptedRows a S = tiedAccepted a S := by
  rw [acceptedRows_eq_filter]
  show _ = S.take (tiedStop a (scoreLabels S))
  apply filter_eq_take
  intro j hj
  rw [decide_eq_true_iff]
  have hj' : j < (scoreLabels S).length := by simpa [scoreLabels] using hj
  have := qSpec_le_iff_lt_tiedStop (scoreLabels S) (scoreLabels_sorted S h) a ha j hj'
  have e : (scoreLabels S)[j].1 = S[j].score := by simp [scoreLabels]
  rw [e] at this
  exact this

/-- the cut flags of a level file -/
def levelCuts (S : List Row) : List Bool := tieCuts ((scoreLabels S).map (·.1))

theorem levelCuts_length (S : List Row) : (levelCuts S).length = S.length := by
  simp [levelCuts, tieCuts_length, scoreLabels]

theorem levelCuts_relabel (f : Nat → Bool) (S : List Row) :
    levelCuts (S.map (Row.relabel f)) = levelCuts S := by
  unfold levelCuts scoreLabels
  simp [List.map_map, Function.comp_def, Row.relabel]

/-- FDP of the level file read through its q-value column = FDP of the abstract labelled ranking
with the level's tie groups as the possible cuts -/
theorem levelFDP_eq_FDPB (incorrect : Nat → Bool) (a : Rat) (ha : a < 1) (S : List Row)
    (h : S.Pairwise (fun a b => b.score ≤ a.score)) :
    levelFDP incorrect a S
      = FDPB a (levelCuts S) (S.map (fun r => (kindOf (incorrect r.id), r.target))) := by
  set L := S.map (fun r => (kindOf (incorrect r.id), r.target)) with hL
  have hP : tiedStop a (scoreLabels S) = stopWith a (levelCuts S) L := by
    unfold tiedStop levelCuts
    apply stopWith_congr
    simp [scoreLabels, hL]
  unfold levelFDP
  have hacc : tiedAccepted a S = S.take (stopWith a (levelCuts S) L) := by
    show S.take (tiedStop a (scoreLabels S)) = _
    rw [hP]
  rw [acceptedRows_eq_tiedAccepted a ha S h, hacc]
  have hV : (S.take (stopWith a (levelCuts S) L)).countP (fun r => r.target && incorrect r.id)
      = (L.take (stopWith a (levelCuts S) L)).countP isV := by
    rw [hL, ← List.map_take, List.countP_map]
    apply List.countP_congr
    intro r _
    cases hi : incorrect r.id <;> cases ht : r.target <;> simp [isV, kindOf, hi, ht]
  have hT : (S.take (stopWith a (levelCuts S) L)).countP (fun r => r.target)
      = (L.take (stopWith a (levelCuts S) L)).countP isT := by
    rw [hL, ← List.map_take, List.countP_map]
    rfl
  rw [hV, hT]
  unfold FDPB atStopB
  split
  · rename_i h0
    rw [h0]
    simp
  · rfl

open Finset in
/-- **the bound on a level file with tied scores**: survivors `S` (label-independent, in
non-increasing score order, ties arranged independently of the labels), labels of the survivors
produced by `F ω` from `m` fair coins as in `lab`, threshold `0 < a < 1`. -/
theorem level_fdr_sum_ties (S : List Row) (h : S.Pairwise (fun a b => b.score ≤ a.score))
    (incorrect : Nat → Bool) (a : Rat) (ha0 : 0 < a) (ha1 : a < 1)
    (F : (Fin (nulls (levelKinds incorrect S)) → Bool) → Nat → Bool)
    (hF : ∀ ω, S.map (fun r => (kindOf (incorrect r.id), F ω r.id))
      = lab (levelKinds incorrect S) (List.ofFn ω)) :
    (∑ ω : Fin (nulls (levelKinds incorrect S)) → Bool,
        levelFDP incorrect a (S.map (Row.relabel (F ω))))
      ≤ a * 2 ^ nulls (levelKinds incorrect S) := by
  have key : ∀ ω : Fin (nulls (levelKinds incorrect S)) → Bool,
      levelFDP incorrect a (S.map (Row.relabel (F ω)))
        = FDPB a (levelCuts S) (lab (levelKinds incorrect S) (List.ofFn ω)) := by
    intro ω
    have hs : (S.map (Row.relabel (F ω))).Pairwise (fun a b => b.score ≤ a.score) := by
      rw [List.pairwise_map]
      exact h
    rw [levelFDP_eq_FDPB incorrect a ha1 _ hs, levelCuts_relabel, ← hF ω, List.map_map]
    rfl
  simp only [key]
  exact sum_FDPB_le (levelKinds incorrect S) (levelCuts S)
    (by rw [levelCuts_length]; simp [levelKinds]) a ha0

open Finset in
/-- generic form: any competition `comp` that commutes with relabelling and returns a sublist;
the stream may contain any ties, arranged independently of the labels -/
theorem level_bound_of_blind_ties (comp : List Row → List Row)
    (hblind : ∀ (f : Nat → Bool) rows, comp (rows.map (Row.relabel f)) = (comp rows).map (Row.relabel f))
    (hsub : ∀ rows, (comp rows).Sublist rows)
    (merged : List Row) (hs : merged.Pairwise (fun a b => b.score ≤ a.score))
    (hid : (merged.map Row.id).Nodup) (incorrect : Nat → Bool) (a : Rat) (ha0 : 0 < a) (ha1 : a < 1) :
    (∑ ω : Fin (nulls (levelKinds incorrect (comp merged))) → Bool,
        levelFDP incorrect a
          (comp (merged.map (Row.relabel (coinLabels incorrect (comp merged) (List.ofFn ω))))))
      ≤ a * 2 ^ nulls (levelKinds incorrect (comp merged)) := by
  simp only [hblind]
  have hnd : ((comp merged).map Row.id).Nodup := ((hsub merged).map Row.id).nodup hid
  exact level_fdr_sum_ties (comp merged) (hs.sublist (hsub merged)) incorrect a ha0 ha1
    (fun ω => coinLabels incorrect (comp merged) (List.ofFn ω))
    (fun ω => coinLabels_spec incorrect (comp merged) (List.ofFn ω) hnd)

end Mk.TdcX
