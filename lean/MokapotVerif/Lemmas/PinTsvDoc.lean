import MokapotVerif.Lemmas.PinTsv
/-!
# The conversion on a whole well-formed document
-/
namespace Mk

/-! ## the model only looks at stripped lines -/

theorem pinBody_congr (sepC : Char) (sepP : Str) (idx nCol : Nat) (ls ls' : List Str)
    (h : ls.map chomp = ls'.map chomp) :
    pinBody sepC sepP idx nCol ls = pinBody sepC sepP idx nCol ls' := by
  cases ls with
  | nil =>
    cases ls' with
    | nil => rfl
    | cons _ _ => simp at h
  | cons l2 more =>
    cases ls' with
    | nil => simp at h
    | cons l2' more' =>
      simp only [List.map_cons, List.cons.injEq] at h
      have hm : more.map (fun line => convertLine sepC sepP idx nCol (chomp line) ++ ['\n'])
          = more'.map (fun line => convertLine sepC sepP idx nCol (chomp line) ++ ['\n']) := by
        have e : ∀ m : List Str, m.map (fun line => convertLine sepC sepP idx nCol (chomp line) ++ ['\n'])
            = (m.map chomp).map (fun s => convertLine sepC sepP idx nCol s ++ ['\n']) := by
          intro m; simp [List.map_map, Function.comp_def]
        rw [e more, e more', h.2]
      simp only [pinBody, h.1, hm]

theorem pinToTsvLines_congr (sepC : Char) (sepP : Str) (ls ls' : List Str)
    (h : ls.map chomp = ls'.map chomp) :
    pinToTsvLines sepC sepP ls = pinToTsvLines sepC sepP ls' := by
  cases ls with
  | nil =>
    cases ls' with
    | nil => rfl
    | cons _ _ => simp at h
  | cons a r =>
    cases ls' with
    | nil => simp at h
    | cons a' r' =>
      simp only [List.map_cons, List.cons.injEq] at h
      simp only [pinToTsvLines, pinAfterHeader, h.1, pinBody_congr sepC sepP _ _ r r' h.2]

theorem map_strip_addNl (ls : List Str) (tr : Bool) : (addNl ls tr).map chomp = ls.map chomp := by
  induction ls with
  | nil => rfl
  | cons l r ih =>
    cases r with
    | nil =>
      cases tr
      · simp [addNl]
      · simp [addNl, chomp_append_nl]
    | cons l' r =>
      simp only [addNl, List.map_cons] at ih ⊢
      rw [ih, chomp_append_nl]

theorem pinToTsvLines_addNl (sepC : Char) (sepP : Str) (ls : List Str) (tr : Bool) :
    pinToTsvLines sepC sepP (addNl ls tr) = pinToTsvLines sepC sepP ls :=
  pinToTsvLines_congr sepC sepP _ _ (map_strip_addNl ls tr)

/-! ## rows -/

structure RowWF (sepC : Char) (idx nCol : Nat) (r : PinRow) : Prop where
  padL : r.padL = []
  padR : padOk r.padR = true
  pre : r.pre.length = idx
  prots : r.prots ≠ []
  post : r.post.length + idx + 1 = nCol
  fields : ∀ f ∈ r.fields, sepC ∉ f ∧ '\n' ∉ f
  edge : edgeOk r.fields = true

theorem fieldOk_iff (sepC : Char) (f : Str) : fieldOk sepC f = true ↔ sepC ∉ f ∧ '\n' ∉ f := by
  simp [fieldOk]

theorem rowOk_iff (sepC : Char) (idx nCol : Nat) (r : PinRow) :
    rowOk sepC idx nCol r = true ↔ RowWF sepC idx nCol r := by
  constructor
  · intro h
    simp only [rowOk, Bool.and_eq_true, beq_iff_eq, Bool.not_eq_true', List.isEmpty_eq_false_iff,
      List.all_eq_true, fieldOk_iff, List.isEmpty_iff] at h
    obtain ⟨⟨⟨⟨⟨⟨h1, h2⟩, h3⟩, h4⟩, h5⟩, h6⟩, h7⟩ := h
    exact ⟨h1, h2, h3, h4, h5, h6, h7⟩
  · intro h
    simp only [rowOk, Bool.and_eq_true, beq_iff_eq, Bool.not_eq_true', List.isEmpty_eq_false_iff,
      List.all_eq_true, fieldOk_iff, List.isEmpty_iff]
    exact ⟨⟨⟨⟨⟨⟨h.padL, h.padR⟩, h.pre⟩, h.prots⟩, h.post⟩, h.fields⟩, h.edge⟩

theorem RowWF.fields_ne_nil {sepC : Char} {idx nCol : Nat} {r : PinRow} (h : RowWF sepC idx nCol r) :
    r.fields ≠ [] := by
  have := h.prots
  unfold PinRow.fields
  cases hp : r.prots with
  | nil => exact absurd hp this
  | cons a b => simp

theorem RowWF.strip_line {sepC : Char} {idx nCol : Nat} {r : PinRow} (h : RowWF sepC idx nCol r)
    (hs : isEol sepC = false) : chomp (r.line sepC) = joinWith [sepC] r.fields := by
  unfold PinRow.line
  rw [h.padL, List.nil_append]
  exact chomp_padded_line sepC r.padR r.fields hs h.padR (fun f hf => (h.fields f hf).2) h.edge

/-- one PSM line: terminator removed, proteins folded, other fields unchanged -/
theorem RowWF.convertLine {sepC : Char} {idx nCol : Nat} {r : PinRow} (h : RowWF sepC idx nCol r)
    (hs : isEol sepC = false)
    (sepP : Str) : convertLine sepC sepP idx nCol (chomp (r.line sepC)) = r.tsvLine sepC sepP := by
  rw [h.strip_line hs]
  unfold Mk.convertLine
  rw [splitOn_joinWith sepC r.fields h.fields_ne_nil (fun f hf => (h.fields f hf).1)]
  have e1 : idx = r.pre.length := h.pre.symm
  have e2 : nCol = r.pre.length + 1 + r.post.length := by have := h.post; have := h.pre; omega
  rw [e1, e2]
  unfold PinRow.fields
  rw [convertFields_spec sepP r.pre r.prots r.post h.prots]
  rfl

theorem RowWF.no_nl {sepC : Char} {idx nCol : Nat} {r : PinRow} (h : RowWF sepC idx nCol r)
    (hs : sepC ≠ '\n') : '\n' ∉ r.line sepC := by
  intro hm
  unfold PinRow.line at hm
  simp only [List.mem_append] at hm
  rcases hm with (hm | hm) | hm
  · rw [h.padL] at hm; simp at hm
  · rcases mem_joinWith _ _ _ hm with h' | ⟨f, hf, hc⟩
    · simp at h'; exact hs h'.symm
    · exact (h.fields f hf).2 hc
  · exact ((padOk_iff _).mp h.padR).2 hm

/-! ## the document -/

structure DocWF (sepC : Char) (d : PinDoc) : Prop where
  sep : sepC ≠ '\n'
  hpadL : d.hpadL = []
  hpadR : padOk d.hpadR = true
  cols : ∀ f ∈ d.cols, sepC ∉ f ∧ '\n' ∉ f
  edge : edgeOk d.cols = true
  proteins : proteinsName ∈ d.cols
  dd : ∀ x, d.dd = some x → '\n' ∉ x ∧ isDD (chomp x) = true
  rows : ∀ r ∈ d.rows, RowWF sepC (d.cols.idxOf proteinsName) d.cols.length r
  nonempty : d.dd.isSome = true ∨ d.rows ≠ []
  first : d.dd.isSome = true ∨ ∃ r rs, d.rows = r :: rs ∧ isDD (joinWith [sepC] r.fields) = false
  sepCR : sepC ≠ '\r'
  last_ok : d.trailingNl = true ∨ (d.lines sepC).getLast? ≠ some []

theorem lastLineOk_iff (sepC : Char) (d : PinDoc) :
    lastLineOk sepC d = true ↔ (d.trailingNl = true ∨ (d.lines sepC).getLast? ≠ some []) := by
  unfold lastLineOk
  cases d.trailingNl
  · cases h : (d.lines sepC).getLast? with
    | none => simp
    | some l => simp
  · simp

theorem DocWF.sepEol {sepC : Char} {d : PinDoc} (h : DocWF sepC d) : isEol sepC = false :=
  (isEol_false_iff sepC).mpr ⟨h.sepCR, h.sep⟩

theorem wf_iff (sepC : Char) (d : PinDoc) : d.wf sepC = true ↔ DocWF sepC d := by
  constructor
  · intro h
    simp only [PinDoc.wf, Bool.and_eq_true, bne_iff_ne, ne_eq, List.all_eq_true, fieldOk_iff,
      List.contains_iff_mem, Bool.or_eq_true, Bool.not_eq_true', List.isEmpty_eq_false_iff, rowOk_iff,
      List.isEmpty_iff, lastLineOk_iff] at h
    obtain ⟨⟨⟨⟨⟨⟨⟨⟨⟨⟨⟨h1, h2⟩, h3⟩, h4⟩, h5⟩, h6⟩, h7⟩, h8⟩, h9⟩, h10⟩, h11⟩, h12⟩ := h
    refine ⟨h1, h2, h3, h4, h5, h6, ?_, h8, h9, ?_, h11, h12⟩
    · intro x hx
      rw [hx] at h7
      simpa [ddOk] using h7
    · unfold firstRowOk at h10
      rcases (Bool.or_eq_true _ _).mp h10 with h' | h'
      · exact Or.inl h'
      · right
        cases hr : d.rows with
        | nil => rw [hr] at h'; simp at h'
        | cons r rs => rw [hr] at h'; exact ⟨r, rs, rfl, by simpa using h'⟩
  · intro h
    simp only [PinDoc.wf, Bool.and_eq_true, bne_iff_ne, ne_eq, List.all_eq_true, fieldOk_iff,
      List.contains_iff_mem, Bool.or_eq_true, Bool.not_eq_true', List.isEmpty_eq_false_iff, rowOk_iff,
      List.isEmpty_iff, lastLineOk_iff]
    refine ⟨⟨⟨⟨⟨⟨⟨⟨⟨⟨⟨h.sep, h.hpadL⟩, h.hpadR⟩, h.cols⟩, h.edge⟩, h.proteins⟩, ?_⟩, h.rows⟩, h.nonempty⟩, ?_⟩,
      h.sepCR⟩, h.last_ok⟩
    · cases hd : d.dd with
      | none => rfl
      | some x => have := h.dd x hd; simpa [ddOk] using this
    · unfold firstRowOk
      rcases h.first with h' | ⟨r, rs, hr, hdd⟩
      · simp [h']
      · simp [hr, hdd]

theorem DocWF.cols_ne_nil {sepC : Char} {d : PinDoc} (h : DocWF sepC d) : d.cols ≠ [] := by
  intro e; have := h.proteins; rw [e] at this; simp at this

theorem DocWF.strip_header {sepC : Char} {d : PinDoc} (h : DocWF sepC d) :
    chomp (d.headerLine sepC) = joinWith [sepC] d.cols := by
  unfold PinDoc.headerLine
  rw [h.hpadL, List.nil_append]
  exact chomp_padded_line sepC d.hpadR d.cols h.sepEol h.hpadR (fun f hf => (h.cols f hf).2) h.edge

theorem DocWF.chomp_cols {sepC : Char} {d : PinDoc} (h : DocWF sepC d) :
    chomp (joinWith [sepC] d.cols) = joinWith [sepC] d.cols :=
  chomp_joined_line sepC d.cols h.sepEol (fun f hf => (h.cols f hf).2) h.edge

theorem DocWF.body {sepC : Char} {d : PinDoc} (h : DocWF sepC d) (sepP : Str) :
    pinBody sepC sepP (d.cols.idxOf proteinsName) d.cols.length (d.dd.toList ++ d.rows.map (PinRow.line sepC))
      = .ok (d.rows.map (fun r => r.tsvLine sepC sepP ++ ['\n'])) := by
  have hrows : ∀ rs : List PinRow, (∀ r ∈ rs, r ∈ d.rows) →
      (rs.map (PinRow.line sepC)).map
        (fun line => convertLine sepC sepP (d.cols.idxOf proteinsName) d.cols.length (chomp line) ++ ['\n'])
      = rs.map (fun r => r.tsvLine sepC sepP ++ ['\n']) := by
    intro rs hrs
    rw [List.map_map]
    apply List.map_congr_left
    intro r hr
    simp only [Function.comp]
    rw [(h.rows r (hrs r hr)).convertLine h.sepEol sepP]
  cases hd : d.dd with
  | some x =>
    have hx := (h.dd x hd).2
    simp only [Option.toList_some, List.singleton_append, pinBody, secondOut, hx, if_true, List.nil_append]
    rw [hrows d.rows (fun r hr => hr)]
  | none =>
    rcases h.first with h' | ⟨r, rs, hr, hdd⟩
    · rw [hd] at h'; simp at h'
    · have hw := h.rows r (by rw [hr]; simp)
      have hs := hw.strip_line h.sepEol
      have hc := hw.convertLine h.sepEol sepP
      rw [hs] at hc
      rw [hr]
      simp only [Option.toList_none, List.nil_append, List.map_cons, pinBody, secondOut, hs, hdd]
      rw [hrows rs (fun r' hr' => by rw [hr]; simp [hr'])]
      simp [hc]

theorem DocWF.lines_no_nl {sepC : Char} {d : PinDoc} (h : DocWF sepC d) :
    ∀ l ∈ d.lines sepC, '\n' ∉ l := by
  intro l hl
  unfold PinDoc.lines at hl
  simp only [List.mem_cons, List.mem_append, Option.mem_toList, List.mem_map] at hl
  rcases hl with rfl | hl | ⟨r, hr, rfl⟩
  · intro hm
    unfold PinDoc.headerLine at hm
    simp only [List.mem_append] at hm
    rcases hm with (hm | hm) | hm
    · rw [h.hpadL] at hm; simp at hm
    · rcases mem_joinWith _ _ _ hm with h' | ⟨f, hf, hc⟩
      · simp at h'; exact h.sep h'.symm
      · exact (h.cols f hf).2 hc
    · exact ((padOk_iff _).mp h.hpadR).2 hm
  · exact (h.dd l hl).1
  · exact (h.rows r hr).no_nl h.sep

theorem isDD_ne_nil (l : Str) (h : isDD l = true) : l ≠ [] := by
  intro e; subst e; revert h; decide

theorem flatten_out (H : Str) (ls : List Str) :
    ((H ++ ['\n']) :: ls.map (· ++ ['\n'])).flatten = renderLines (H :: ls) true := by
  rw [renderLines_true]; rfl

/-- **the conversion of a well-formed document is the rendering of its table** -/
theorem DocWF.pinToTsv {sepC : Char} {d : PinDoc} (h : DocWF sepC d) (sepP : Str) :
    pinToTsv sepC sepP (renderPin sepC d) = .ok (renderTsv sepC sepP d) := by
  unfold Mk.pinToTsv renderPin
  rw [pyLines_renderLines _ _ h.lines_no_nl h.last_ok, pinToTsvLines_addNl]
  unfold PinDoc.lines
  simp only [pinToTsvLines, pinAfterHeader]
  rw [h.strip_header, h.chomp_cols,
    splitOn_joinWith sepC d.cols h.cols_ne_nil (fun f hf => (h.cols f hf).1)]
  have hc : d.cols.contains proteinsName = true := by simpa using h.proteins
  rw [if_pos hc, h.body sepP]
  simp only [Except.map]
  congr 1
  unfold renderTsv renderTable specTable
  rw [renderLines_true]
  simp only [List.map_cons, List.map_map, List.flatten_cons]
  rfl

end Mk
