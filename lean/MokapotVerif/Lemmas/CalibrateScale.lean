import MokapotVerif.Lemmas.CalibrateGate
/-! Helper lemmas for C11 (second pass): calibration does not see a positive affine
re-scaling of the raw scores. -/
namespace Mk.Calibrate

/-! ## the map itself -/

theorem rescale_strictMono (a b : Rat) (ha : 0 < a) : StrictMono (rescale a b) := by
  intro x y h
  unfold rescale
  have := mul_lt_mul_of_pos_left h ha
  linarith

theorem rescale_sub (a b s t : Rat) : rescale a b s - rescale a b t = a * (s - t) := by
  unfold rescale; ring

theorem rescale_one_zero (s : Rat) : rescale 1 0 s = s := by
  unfold rescale; ring

theorem calLe_rescale (desc : Bool) (a b : Rat) (ha : 0 < a) (x y : Rat) :
    calLe desc (rescale a b x) (rescale a b y) = calLe desc x y := by
  cases desc <;> simp [calLe, (rescale_strictMono a b ha).le_iff_le]

/-! ## q-values, accepted targets, decoys -/

theorem qSpec_map_invariant {α β : Type} (le : α → α → Bool) (le' : β → β → Bool) (f : α → β)
    (hf : ∀ a b, le' (f a) (f b) = le a b) (xs : List (α × Bool)) (s : α) :
    qSpec le' (xs.map (fun x => (f x.1, x.2))) (f s) = qSpec le xs s := by
  unfold qSpec cntT cntD
  simp only [List.filter_map, List.map_map, List.countP_map, Function.comp_def, hf]

theorem accepted_rescale (desc : Bool) (thr a b : Rat) (ha : 0 < a) (xs : List (Rat × Bool)) :
    accepted desc thr (rescaleRows a b xs) = (accepted desc thr xs).map (rescale a b) := by
  unfold accepted rescaleRows
  rw [List.filter_map, List.map_map, List.map_map]
  have hq : ∀ x : Rat × Bool,
      qSpec (calLe desc) (xs.map (fun x => (rescale a b x.1, x.2))) (rescale a b x.1) =
        qSpec (calLe desc) xs x.1 :=
    fun x => qSpec_map_invariant (calLe desc) (calLe desc) (rescale a b) (calLe_rescale desc a b ha) xs x.1
  have hfil : (List.filter ((fun x : Rat × Bool =>
        x.2 && decide (qSpec (calLe desc) (xs.map (fun x => (rescale a b x.1, x.2))) x.1 ≤ thr)) ∘
        fun x => (rescale a b x.1, x.2)) xs) =
      List.filter (fun x => x.2 && decide (qSpec (calLe desc) xs x.1 ≤ thr)) xs := by
    apply List.filter_congr
    intro x _
    simp only [Function.comp, hq]
  rw [hfil]
  rfl

theorem decoys_rescale (a b : Rat) (xs : List (Rat × Bool)) :
    decoys (rescaleRows a b xs) = (decoys xs).map (rescale a b) := by
  unfold decoys rescaleRows
  rw [List.filter_map, List.map_map, List.map_map]
  rfl

/-! ## minimum and median commute with a strictly increasing affine map -/

theorem isLeastOf_map {g : Rat → Rat} (hg : StrictMono g) {l : List Rat} {t : Rat} (h : IsLeastOf l t) :
    IsLeastOf (l.map g) (g t) := by
  refine ⟨List.mem_map_of_mem h.1, ?_⟩
  intro y hy
  obtain ⟨x, hx, rfl⟩ := List.mem_map.mp hy
  exact hg.monotone (h.2 x hx)

theorem minList_map {g : Rat → Rat} (hg : StrictMono g) (l : List Rat) :
    minList (l.map g) = (minList l).map g := by
  cases hm : minList l with
  | none =>
    rw [(minList_eq_none l).mp hm]
    rfl
  | some t =>
    have h1 := isLeastOf_map hg (minList_isLeast hm)
    cases hm' : minList (l.map g) with
    | none =>
      have := (minList_eq_none _).mp hm'
      rw [this] at h1
      exact absurd h1.1 (by simp)
    | some t' =>
      simp only [Option.map]
      rw [isLeastOf_unique (minList_isLeast hm') h1]

theorem isOrderStat_map {g : Rat → Rat} (hg : StrictMono g) {l : List Rat} {k : Nat} {x : Rat}
    (h : IsOrderStat l k x) : IsOrderStat (l.map g) k (g x) := by
  obtain ⟨h1, h2, h3⟩ := h
  refine ⟨List.mem_map_of_mem h1, ?_, ?_⟩
  · rw [List.countP_map]
    simpa only [Function.comp_def, hg.lt_iff_lt] using h2
  · rw [List.countP_map]
    simpa only [Function.comp_def, hg.le_iff_le] using h3

theorem isMedianOf_rescale (a b : Rat) (ha : 0 < a) {l : List Rat} {m : Rat} (h : IsMedianOf l m) :
    IsMedianOf (l.map (rescale a b)) (rescale a b m) := by
  obtain ⟨x, y, hx, hy, rfl⟩ := h
  refine ⟨rescale a b x, rescale a b y, ?_, ?_, ?_⟩
  · simpa using isOrderStat_map (rescale_strictMono a b ha) hx
  · simpa using isOrderStat_map (rescale_strictMono a b ha) hy
  · unfold rescale; ring

theorem median_rescale (a b : Rat) (ha : 0 < a) (l : List Rat) :
    median (l.map (rescale a b)) = (median l).map (rescale a b) := by
  cases hm : median l with
  | none =>
    rw [(median_eq_none l).mp hm]
    simp only [List.map_nil, Option.map]
    exact (median_eq_none []).mpr rfl
  | some m =>
    have hne : l ≠ [] := fun h0 => by rw [h0, (median_eq_none []).mpr rfl] at hm; cases hm
    simp only [Option.map]
    exact median_of_isMedianOf (by simpa using hne) (isMedianOf_rescale a b ha (median_spec hm))

/-! ## the quotient -/

theorem xdiv_scale (a x y : Rat) (ha : 0 < a) : xdiv (a * x) (a * y) = xdiv x y := by
  unfold xdiv
  by_cases hy : y = 0
  · subst hy
    have h1 : (0 < a * x) ↔ 0 < x := by
      constructor
      · intro h; by_contra hx
        have := mul_nonpos_of_nonneg_of_nonpos ha.le (not_lt.mp hx)
        linarith
      · intro h; exact mul_pos ha h
    have h2 : (a * x < 0) ↔ x < 0 := by
      constructor
      · intro h; by_contra hx
        have := mul_nonneg ha.le (not_lt.mp hx)
        linarith
      · intro h; exact mul_neg_of_pos_of_neg ha h
    simp only [mul_zero, if_true, h1, h2]
  · have hay : a * y ≠ 0 := mul_ne_zero ha.ne' hy
    simp only [hy, hay, if_false]
    rw [mul_div_mul_left _ _ ha.ne']

theorem calOne_rescale (a b : Rat) (ha : 0 < a) (t : Rat) (d : Option Rat) (s : Rat) :
    calOne (rescale a b t) (d.map (rescale a b)) (rescale a b s) = calOne t d s := by
  cases d with
  | none => rfl
  | some dv =>
    simp only [calOne, Option.map, Option.elim, rescale_sub]
    exact xdiv_scale a _ _ ha

/-! ## one calibration -/

theorem calibrate_rescale (desc : Bool) (thr a b : Rat) (ha : 0 < a) (xs : List (Rat × Bool)) :
    calibrate desc thr (rescaleRows a b xs) = calibrate desc thr xs := by
  rw [calibrate_unfold, calibrate_unfold, accepted_rescale desc thr a b ha, decoys_rescale,
    minList_map (rescale_strictMono a b ha), median_rescale a b ha]
  cases minList (accepted desc thr xs) with
  | none => rfl
  | some t =>
    simp only [Option.map, Option.elim, rescaleRows, List.map_map, Function.comp_def]
    congr 1
    apply List.map_congr_left
    intro x _
    exact calOne_rescale a b ha t (median (decoys xs)) x.1

/-! ## `_predict` -/

theorem rescaleFolds_length (A B : Nat → Rat) (rows : List FRow) :
    (rescaleFolds A B rows).length = rows.length := by
  simp [rescaleFolds]

theorem sliceOf_rescaleFolds (A B : Nat → Rat) (f : Nat) (rows : List FRow) :
    sliceOf f (rescaleFolds A B rows).zipIdx =
      (sliceOf f rows.zipIdx).map (fun p => (rescaleRow A B p.1, p.2)) := by
  unfold sliceOf rescaleFolds
  rw [List.zipIdx_map, List.filter_map]
  rfl

theorem sliceOf_fold {f : Nat} {l : List (FRow × Nat)} {p : FRow × Nat} (h : p ∈ sliceOf f l) :
    p.1.fold = f := by
  unfold sliceOf at h
  simpa using (List.mem_filter.mp h).2

/-- the calibration input of fold `f` after re-scaling is the re-scaled calibration input -/
theorem slice_rows_rescale (A B : Nat → Rat) (f : Nat) (fr : List (FRow × Nat))
    (hfr : ∀ p ∈ fr, p.1.fold = f) :
    (fr.map (fun p => (rescaleRow A B p.1, p.2))).map (fun r => (r.1.raw, r.1.target)) =
      rescaleRows (A f) (B f) (fr.map (fun r => (r.1.raw, r.1.target))) := by
  unfold rescaleRows
  rw [List.map_map, List.map_map]
  apply List.map_congr_left
  intro p hp
  simp only [Function.comp, rescaleRow, hfr p hp]

theorem calibrateFoldDF_rescale (thr : Rat) (df : Bool) (A B : Nat → Rat) (f : Nat) (fr : List (FRow × Nat))
    (hfr : ∀ p ∈ fr, p.1.fold = f) (hA : 0 < A f) (hid : df = false → A f = 1 ∧ B f = 0) :
    calibrateFoldDF thr df (fr.map (fun p => (rescaleRow A B p.1, p.2))) = calibrateFoldDF thr df fr := by
  unfold calibrateFoldDF calibrateFold
  have hemp : (fr.map (fun p => (rescaleRow A B p.1, p.2))).isEmpty = fr.isEmpty := by
    cases fr <;> rfl
  rw [hemp]
  cases df with
  | true =>
    simp only [if_true]
    rw [slice_rows_rescale A B f fr hfr, calibrate_rescale true thr _ _ hA]
  | false =>
    obtain ⟨h1, h0⟩ := hid rfl
    simp only [Bool.false_eq_true, if_false]
    have hl : (fr.map (fun p => (rescaleRow A B p.1, p.2))).map (fun r => XR.fin r.1.raw) =
        fr.map (fun r => XR.fin r.1.raw) := by
      rw [List.map_map]
      apply List.map_congr_left
      intro p hp
      simp only [Function.comp, rescaleRow, hfr p hp, h1, h0, rescale_one_zero]
    rw [hl]

theorem predictFoldsDF_rescale (c : Nat) (dfs : List Bool) (thr : Rat) (rows : List FRow) (A B : Nat → Rat)
    (hc : 1 ≤ c) (hA : ∀ f, 0 < A f)
    (hid : ∀ f (hf : f < dfs.length), dfs[f] = false → A f = 1 ∧ B f = 0) :
    predictFoldsDF c dfs thr (rescaleFolds A B rows) = predictFoldsDF c dfs thr rows := by
  unfold predictFoldsDF
  by_cases hk : dfs.length = 0
  · simp [hk]
  simp only [hk, if_false, foldRowsChunked_eq c hc, rescaleFolds_length, sliceOf_rescaleFolds]
  have hkeys : ((List.range dfs.length).flatMap (fun f =>
        (sliceOf f rows.zipIdx).map (fun p => (rescaleRow A B p.1, p.2)))).map (fun r => r.2) =
      ((List.range dfs.length).flatMap (fun f => sliceOf f rows.zipIdx)).map (fun r => r.2) := by
    rw [List.flatMap_def, List.flatMap_def, List.map_flatten, List.map_flatten, List.map_map, List.map_map]
    congr 1
    apply List.map_congr_left
    intro f _
    simp only [Function.comp, List.map_map]
    rfl
  rw [hkeys]
  have hcal : mapE (fun p : Bool × Nat => calibrateFoldDF thr p.1
        ((sliceOf p.2 rows.zipIdx).map (fun q => (rescaleRow A B q.1, q.2)))) dfs.zipIdx =
      mapE (fun p : Bool × Nat => calibrateFoldDF thr p.1 (sliceOf p.2 rows.zipIdx)) dfs.zipIdx := by
    apply mapE_congr
    intro p hp
    obtain ⟨hlt, hget⟩ : ∃ h : p.2 < dfs.length, dfs[p.2] = p.1 := by
      have := List.mem_zipIdx hp
      simp only [Nat.zero_le, Nat.zero_add, Nat.sub_zero, true_and] at this
      exact ⟨this.1, this.2.symm⟩
    apply calibrateFoldDF_rescale thr p.1 A B p.2 _ (fun q hq => sliceOf_fold hq) (hA p.2)
    intro hdf
    exact hid p.2 hlt (by rw [hget]; exact hdf)
  rw [hcal]

end Mk.Calibrate

/-! ## the fold models are sorted by their fold attribute -/
namespace Mk.Calibrate

theorem insertByFold_perm (m : Nat × Bool) (l : List (Nat × Bool)) : (insertByFold m l).Perm (m :: l) := by
  induction l with
  | nil => simp [insertByFold]
  | cons x l ih =>
    unfold insertByFold
    split
    · exact List.Perm.refl _
    · exact (List.Perm.cons x ih).trans (List.Perm.swap m x l)

theorem sortByFold_perm (l : List (Nat × Bool)) : (sortByFold l).Perm l := by
  induction l with
  | nil => exact List.Perm.refl _
  | cons m l ih => exact (insertByFold_perm m _).trans (List.Perm.cons m ih)

theorem insertByFold_sorted (m : Nat × Bool) (l : List (Nat × Bool))
    (h : l.Pairwise (fun a b => a.1 ≤ b.1)) : (insertByFold m l).Pairwise (fun a b => a.1 ≤ b.1) := by
  induction l with
  | nil => simp [insertByFold]
  | cons x l ih =>
    unfold insertByFold
    split
    · rename_i hmx
      refine List.Pairwise.cons ?_ h
      intro y hy
      rcases List.mem_cons.mp hy with rfl | hy
      · exact hmx
      · exact le_trans hmx (List.rel_of_pairwise_cons h hy)
    · rename_i hmx
      refine List.Pairwise.cons ?_ (ih (List.Pairwise.of_cons h))
      intro y hy
      rcases List.mem_cons.mp ((insertByFold_perm m l).subset hy) with rfl | hy
      · omega
      · exact List.rel_of_pairwise_cons h hy

theorem sortByFold_sorted (l : List (Nat × Bool)) : (sortByFold l).Pairwise (fun a b => a.1 ≤ b.1) := by
  induction l with
  | nil => exact List.Pairwise.nil
  | cons m l ih => exact insertByFold_sorted m _ ih

/-- an already sorted list is left as it is (stable sort) -/
theorem sortByFold_of_sorted (l : List (Nat × Bool)) (h : l.Pairwise (fun a b => a.1 ≤ b.1)) :
    sortByFold l = l := by
  induction l with
  | nil => rfl
  | cons m l ih =>
    have hl := List.Pairwise.of_cons h
    show insertByFold m (sortByFold l) = m :: l
    rw [ih hl]
    cases l with
    | nil => rfl
    | cons x l =>
      have : m.1 ≤ x.1 := List.rel_of_pairwise_cons h (List.mem_cons_self)
      simp [insertByFold, this]

/-- with pairwise distinct fold attributes the sorted list does not depend on the order in which the
models were listed -/
theorem sortByFold_eq_of_perm (l l' : List (Nat × Bool)) (hp : l'.Perm l) (hnd : (l.map (fun m => m.1)).Nodup) :
    sortByFold l' = sortByFold l := by
  have hperm : (sortByFold l').Perm (sortByFold l) :=
    (sortByFold_perm l').trans (hp.trans (sortByFold_perm l).symm)
  have hinj : ∀ a b : Nat × Bool, a ∈ l → b ∈ l → a.1 = b.1 → a = b := by
    intro a b ha hb hab
    exact List.inj_on_of_nodup_map hnd ha hb hab
  apply List.Perm.eq_of_pairwise _ (sortByFold_sorted l') (sortByFold_sorted l) hperm
  intro a b ha hb h1 h2
  have ha' : a ∈ l := hp.subset ((sortByFold_perm l').subset ha)
  have hb' : b ∈ l := (sortByFold_perm l).subset hb
  exact hinj a b ha' hb' (le_antisymm h1 h2)

end Mk.Calibrate
