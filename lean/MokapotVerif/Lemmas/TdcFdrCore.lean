import MokapotVerif.Lemmas.TdcFdrStop
import Mathlib.Data.Nat.Choose.Basic
import Mathlib.Algebra.BigOperators.Group.List.Basic
import Mathlib.Algebra.Order.BigOperators.Group.List
/-!
# Stage 4 — the optional-stopping core

`W rs v d` enumerates the labelled versions of the ranking `rs` in which exactly `v` nulls are
labelled target and `d` nulls are labelled decoy (the "backward filtration" event: the counts
are known, the arrangement is not).  By induction on the ranking, peeling off the WORST item,

  `Σ_{R ∈ W rs v d} V(stop)/(1 + D(stop)) ≤ Bnd v d`  where  `Bnd v d = C(v+d, v) · v/(d+1) = C(v+d, v-1)`.

If the whole list is acceptable, all `C(v+d, v)` arrangements stop there with value `v/(d+1)`.
Otherwise the worst item is dropped: a true target changes nothing; a null is a target in the
arrangements counted by `W rs (v-1) d` and a decoy in those counted by `W rs v (d-1)`, and
`Bnd (v-1) d + Bnd v (d-1) = Bnd v d` (Pascal) — the (super)martingale property.
-/
namespace Mk.Tdc

/-- number of true targets of a ranking -/
def tts (ks : List Kind) : Nat := ks.count Kind.trueTarget

/-- all labelled versions of `rs` with exactly `v` null-targets and `d` null-decoys -/
def W : List Kind → Nat → Nat → List (List (Kind × Bool))
  | [], v, d => if v = 0 ∧ d = 0 then [[]] else []
  | Kind.trueTarget :: rs, v, d => (W rs v d).map ((Kind.trueTarget, true) :: ·)
  | Kind.null :: rs, v, d =>
      (if v = 0 then [] else (W rs (v - 1) d).map ((Kind.null, true) :: ·)) ++
      (if d = 0 then [] else (W rs v (d - 1)).map ((Kind.null, false) :: ·))

/-- `C(v+d, v) · v / (d+1)`, as a natural number: `C(v+d, v-1)` -/
def Bnd : Nat → Nat → Nat
  | 0, _ => 0
  | v + 1, d => (v + 1 + d).choose v

theorem nulls_cons_tt (rs : List Kind) : nulls (Kind.trueTarget :: rs) = nulls rs := by
  simp [nulls]
theorem nulls_cons_null (rs : List Kind) : nulls (Kind.null :: rs) = nulls rs + 1 := by
  simp [nulls]
theorem tts_cons_tt (rs : List Kind) : tts (Kind.trueTarget :: rs) = tts rs + 1 := by
  simp [tts]
theorem tts_cons_null (rs : List Kind) : tts (Kind.null :: rs) = tts rs := by
  simp [tts]

set_option linter.unnecessarySeqFocus false in
/-- the counts of every member of `W rs v d` -/
theorem W_counts : ∀ (rs : List Kind) (v d : Nat) (R : List (Kind × Bool)), R ∈ W rs v d →
    R.countP isV = v ∧ R.countP isD = d ∧ R.countP isT = v + tts rs
  | [], v, d, R, h => by
    unfold W at h
    split at h
    · rename_i hvd
      obtain ⟨rfl, rfl⟩ := hvd
      simp at h; subst h; simp [tts]
    · simp at h
  | Kind.trueTarget :: rs, v, d, R, h => by
    unfold W at h
    obtain ⟨R', hR', rfl⟩ := List.mem_map.mp h
    obtain ⟨h1, h2, h3⟩ := W_counts rs v d R' hR'
    rw [tts_cons_tt]
    refine ⟨?_, ?_, ?_⟩ <;> rw [List.countP_cons] <;> simp [isV, isD, isT, h1, h2, h3] <;> omega
  | Kind.null :: rs, v, d, R, h => by
    unfold W at h
    rw [tts_cons_null]
    rcases List.mem_append.mp h with h | h
    · split at h
      · simp at h
      · rename_i hv
        obtain ⟨R', hR', rfl⟩ := List.mem_map.mp h
        obtain ⟨h1, h2, h3⟩ := W_counts rs (v - 1) d R' hR'
        refine ⟨?_, ?_, ?_⟩ <;> rw [List.countP_cons] <;> simp [isV, isD, isT, h1, h2, h3] <;> omega
    · split at h
      · simp at h
      · rename_i hd
        obtain ⟨R', hR', rfl⟩ := List.mem_map.mp h
        obtain ⟨h1, h2, h3⟩ := W_counts rs v (d - 1) R' hR'
        refine ⟨?_, ?_, ?_⟩ <;> rw [List.countP_cons] <;> simp [isV, isD, isT, h1, h2, h3] <;> omega

/-- there are `C(v+d, v)` arrangements -/
theorem W_length : ∀ (rs : List Kind) (v d : Nat), v + d = nulls rs →
    (W rs v d).length = (v + d).choose v
  | [], v, d, h => by
    have : v = 0 ∧ d = 0 := by simp [nulls] at h; omega
    obtain ⟨rfl, rfl⟩ := this
    simp [W]
  | Kind.trueTarget :: rs, v, d, h => by
    rw [nulls_cons_tt] at h
    unfold W
    rw [List.length_map, W_length rs v d h]
  | Kind.null :: rs, v, d, h => by
    rw [nulls_cons_null] at h
    unfold W
    rw [List.length_append]
    rcases v with _ | v
    · rcases d with _ | d
      · omega
      · have := W_length rs 0 d (by omega)
        simp [this]
    · rcases d with _ | d
      · have := W_length rs v 0 (by omega)
        simp [this]
      · have h1 := W_length rs v (d + 1) (by omega)
        have h2 := W_length rs (v + 1) d (by omega)
        simp only [Nat.succ_ne_zero, if_false, List.length_map, Nat.add_sub_cancel, h1, h2]
        have : v + 1 + (d + 1) = (v + (d + 1)) + 1 := by omega
        rw [this, Nat.choose_succ_succ]
        have : v + 1 + d = v + (d + 1) := by omega
        rw [this]

theorem Bnd_zero_right (v : Nat) : Bnd v 0 = v := by
  rcases v with _ | v
  · rfl
  · show (v + 1 + 0).choose v = v + 1
    rw [Nat.add_zero, Nat.choose_succ_self_right]

/-- Pascal's rule for the bound: the martingale identity -/
theorem Bnd_pascal (v d : Nat) : Bnd v (d + 1) + Bnd (v + 1) d = Bnd (v + 1) (d + 1) := by
  rcases v with _ | v
  · show 0 + (0 + 1 + d).choose 0 = (0 + 1 + (d + 1)).choose 0
    simp
  · show (v + 1 + (d + 1)).choose v + (v + 1 + 1 + d).choose (v + 1)
        = (v + 1 + 1 + (d + 1)).choose (v + 1)
    have e1 : v + 1 + 1 + (d + 1) = (v + 1 + (d + 1)) + 1 := by omega
    have e2 : v + 1 + 1 + d = v + 1 + (d + 1) := by omega
    rw [e1, e2, Nat.choose_succ_succ]

/-- `C(v+d, v) · v/(d+1) = Bnd v d` -/
theorem choose_mul_eq_Bnd (v d : Nat) :
    (((v + d).choose v : Nat) : Rat) * (((v : Nat) : Rat) / ((d + 1 : Nat) : Rat)) = ((Bnd v d : Nat) : Rat) := by
  rcases v with _ | v
  · simp [Bnd]
  · have h := Nat.choose_succ_right_eq (v + 1 + d) v
    have e : v + 1 + d - v = d + 1 := by omega
    rw [e] at h
    have hq : (((v + 1 + d).choose (v + 1) : Nat) : Rat) * ((v + 1 : Nat) : Rat)
        = (((v + 1 + d).choose v : Nat) : Rat) * ((d + 1 : Nat) : Rat) := by
      exact_mod_cast h
    have hd : ((d + 1 : Nat) : Rat) ≠ 0 := by exact_mod_cast Nat.succ_ne_zero d
    show (((v + 1 + d).choose (v + 1) : Nat) : Rat) * (((v + 1 : Nat) : Rat) / ((d + 1 : Nat) : Rat))
        = (((v + 1 + d).choose v : Nat) : Rat)
    rw [← mul_div_assoc, hq, mul_div_assoc, div_self hd, mul_one]

theorem stopG_of_not_ok {κ : Type} (a : Rat) (val : List (κ × Bool) → Rat) (R : List (κ × Bool))
    (h : ¬ okR a R) : stopG a val R = stopG a val R.tail := by
  cases R with
  | nil => rfl
  | cons x R => simp only [stopG, if_neg h, List.tail_cons]

theorem stopG_of_ok {κ : Type} (a : Rat) (val : List (κ × Bool) → Rat) (R : List (κ × Bool))
    (hne : R ≠ []) (h : okR a R) : stopG a val R = val R := by
  cases R with
  | nil => exact absurd rfl hne
  | cons x R => simp only [stopG, if_pos h]

theorem W_tail_tt (rs : List Kind) (v d : Nat) :
    (W (Kind.trueTarget :: rs) v d).map List.tail = W rs v d := by
  simp [W, List.map_map, Function.comp_def]

theorem W_tail_null (rs : List Kind) (v d : Nat) :
    (W (Kind.null :: rs) v d).map List.tail =
      (if v = 0 then [] else W rs (v - 1) d) ++ (if d = 0 then [] else W rs v (d - 1)) := by
  conv_lhs => unfold W
  rw [List.map_append]
  congr 1
  · split <;> simp [List.map_map, Function.comp_def]
  · split <;> simp [List.map_map, Function.comp_def]

theorem W_ne_nil (k : Kind) (rs : List Kind) (v d : Nat) (R : List (Kind × Bool))
    (h : R ∈ W (k :: rs) v d) : R ≠ [] := by
  cases k with
  | trueTarget =>
    unfold W at h
    obtain ⟨R', _, rfl⟩ := List.mem_map.mp h
    simp
  | null =>
    unfold W at h
    rcases List.mem_append.mp h with h | h <;> split at h
    · simp at h
    · obtain ⟨R', _, rfl⟩ := List.mem_map.mp h; simp
    · simp at h
    · obtain ⟨R', _, rfl⟩ := List.mem_map.mp h; simp

theorem sum_map_const {β : Type} (l : List β) (f : β → Rat) (c : Rat) (h : ∀ x ∈ l, f x = c) :
    (l.map f).sum = (l.length : Rat) * c := by
  induction l with
  | nil => simp
  | cons x l ih =>
    rw [List.map_cons, List.sum_cons, h x (by simp), ih (fun y hy => h y (by simp [hy]))]
    simp only [List.length_cons, Nat.cast_succ]
    ring

theorem sum_map_congr {β : Type} (l : List β) (f g : β → Rat) (h : ∀ x ∈ l, f x = g x) :
    (l.map f).sum = (l.map g).sum := by
  rw [List.map_congr_left h]

/-- **Stage 4 — optional stopping, elementary form.**  Given that exactly `v` nulls are targets
and `d` are decoys, the sum over all `C(v+d, v)` arrangements of `V/(1+D)` at the accepted
prefix is at most `C(v+d, v) · v/(d+1)`: stopping early never gains. -/
theorem sum_stop_le_Bnd (a : Rat) : ∀ (rs : List Kind) (v d : Nat), v + d = nulls rs →
    ((W rs v d).map (stopG a valM)).sum ≤ ((Bnd v d : Nat) : Rat)
  | [], v, d, h => by
    have : v = 0 ∧ d = 0 := by simp [nulls] at h; omega
    obtain ⟨rfl, rfl⟩ := this
    simp [W, stopG, Bnd]
  | k :: rs, v, d, h => by
    by_cases hc : ((d + 1 : Nat) : Rat) ≤ a * ((v + tts (k :: rs) : Nat) : Rat)
    · -- the whole list is acceptable for every arrangement
      have hall : ∀ R ∈ W (k :: rs) v d, stopG a valM R = ((v : Nat) : Rat) / ((d + 1 : Nat) : Rat) := by
        intro R hR
        obtain ⟨h1, h2, h3⟩ := W_counts _ _ _ R hR
        have hok : okR a R := by unfold okR; rw [h2, h3]; exact hc
        rw [stopG_of_ok a valM R (W_ne_nil k rs v d R hR) hok]
        unfold valM; rw [h1, h2]
      rw [sum_map_const _ _ _ hall, W_length _ _ _ h]
      exact le_of_eq (choose_mul_eq_Bnd v d)
    · -- not acceptable: drop the worst item
      have hall : ∀ R ∈ W (k :: rs) v d, stopG a valM R = stopG a valM R.tail := by
        intro R hR
        obtain ⟨h1, h2, h3⟩ := W_counts _ _ _ R hR
        have hok : ¬ okR a R := by unfold okR; rw [h2, h3]; exact hc
        exact stopG_of_not_ok a valM R hok
      rw [sum_map_congr _ _ _ hall]
      have hcomp : (W (k :: rs) v d).map (fun R => stopG a valM R.tail)
          = ((W (k :: rs) v d).map List.tail).map (stopG a valM) := by
        rw [List.map_map]; rfl
      rw [hcomp]
      cases k with
      | trueTarget =>
        rw [W_tail_tt]
        rw [nulls_cons_tt] at h
        exact sum_stop_le_Bnd a rs v d h
      | null =>
        rw [W_tail_null]
        rw [nulls_cons_null] at h
        rcases v with _ | v
        · rcases d with _ | d
          · omega
          · have ih := sum_stop_le_Bnd a rs 0 d (by omega)
            simpa [Bnd] using ih
        · rcases d with _ | d
          · have ih := sum_stop_le_Bnd a rs v 0 (by omega)
            simp only [Nat.succ_ne_zero, if_false, if_true, Nat.add_sub_cancel, List.append_nil]
            refine le_trans ih ?_
            rw [Bnd_zero_right, Bnd_zero_right]
            exact_mod_cast Nat.le_succ v
          · have ih1 := sum_stop_le_Bnd a rs v (d + 1) (by omega)
            have ih2 := sum_stop_le_Bnd a rs (v + 1) d (by omega)
            simp only [Nat.succ_ne_zero, if_false, Nat.add_sub_cancel, List.map_append,
              List.sum_append]
            rw [← Bnd_pascal v d]
            push_cast
            linarith

end Mk.Tdc
