/-!
# Model of the file operations of one run (C09)

src: mokapot/confidence.py:669-688 (result writers, `writer.initialize()`), 714-766 (level
writers inside the `with create_sorted_file_iterator` block), 780-800 (`LinearConfidence`),
396-459 (`_assign_confidence`: read the level file, `write_to_disk`, `os.unlink(data_path)`),
806-866 (`create_sorted_file_iterator`: chunk files, `merge_sort`, `finally: unlink`),
mokapot/mokapot.py:60-73 (CLI `verify_pin` step), mokapot/tabular_data.py:611,619
(`initialize` = mode `w`, `append_data` = mode `a`).

A directory is an association list from abstract file names to contents (a content is a list
of abstract data tokens).  A run is a *list of file operations* computed from its parameters
(number of chunks `k`, number of levels `nl`, `decoys`); what is written is an arbitrary
function of everything the run has read so far (`outs`), so the data flow
"chunk files → merge → level files → confidence estimates → result files" is kept while
the numerics are abstracted away.  Import-free.
-/
namespace Mk.FsRun

/-- the files a run can touch: `{prefix}scores_metadata_{i}{ext}` (chunk), the per-level
intermediate `{prefix}{level}{ext}` (level), `{prefix}targets.{level}` / `{prefix}decoys.{level}`
(results), the user's PIN file, `{pin}.tsv`, anything else -/
inductive Name where
  | chunk (i : Nat)
  | level (l : Nat)
  | target (l : Nat)
  | decoy (l : Nat)
  | input
  | inputTsv
  | other (s : String)
  /-- files of a collection written under a prefix `p` (`{root}{p}.scores_metadata_{i}{ext}`,
  `{root}{p}.targets.{level}`, `{root}{p}.decoys.{level}`), the roll-up tool's temporary file
  `{root}.temp.{level}s`, the `j`-th PIN file given to the CLI and its `{pin}.tsv`, the saved
  model of fold `i` (extension of the model: `Model/FsRunExt.lean`) -/
  | pchunk (p i : Nat)
  | ptarget (p l : Nat)
  | pdecoy (p l : Nat)
  | temp (r l : Nat)
  | pin (j : Nat)
  | pinTsv (j : Nat)
  | model (i : Nat)
  deriving DecidableEq, Repr

/-- directory content: association list, the first binding of a name wins -/
abbrev FS := List (Name × List Nat)

/-- everything the run has read so far, in order -/
abbrev Outs := List (List Nat)

def FS.get : FS → Name → Option (List Nat)
  | [], _ => none
  | e :: rest, n => if e.1 = n then some e.2 else FS.get rest n

/-- replace the (first) binding in place; a new file goes to the end of the listing -/
def FS.set : FS → Name → List Nat → FS
  | [], n, c => [(n, c)]
  | e :: rest, n, c => if e.1 = n then (n, c) :: rest else e :: FS.set rest n c

/-- remove every binding of the name -/
def FS.del : FS → Name → FS
  | [], _ => []
  | e :: rest, n => if e.1 = n then FS.del rest n else e :: FS.del rest n

/-- content of a file, `[]` when it does not exist (what a writer in mode `a` starts from) -/
def FS.content (fs : FS) (n : Name) : List Nat := (FS.get fs n).getD []

/-- concatenation of all files whose name satisfies `p`, in listing order:
`glob(pattern)` followed by reading every match -/
def FS.globContent : FS → (Name → Bool) → List Nat
  | [], _ => []
  | e :: rest, p => if p e.1 then e.2 ++ FS.globContent rest p else FS.globContent rest p

/-- abstract file operations -/
inductive Op where
  /-- `open(n, "w")` and write `f outs` (tabular_data.py:611 `initialize`) -/
  | trunc (n : Name) (f : Outs → List Nat)
  /-- `open(n, "a")` and write `f outs`; a missing file is created (tabular_data.py:619) -/
  | append (n : Name) (f : Outs → List Nat)
  /-- read the whole file and push it on the outputs (`[]` if missing) -/
  | read (n : Name)
  /-- `os.unlink` / `Path.unlink` -/
  | unlink (n : Name)
  /-- `shutil.move(src, dst)`; moving a file onto itself is a no-op -/
  | move (src dst : Name)
  /-- `glob` + read of every match (the old `dest_dir.glob("…scores_metadata_*")`) -/
  | globRead (p : Name → Bool)

def moveFs (fs : FS) (s d : Name) : FS :=
  if s = d then fs else FS.del (FS.set fs d (FS.content fs s)) s

/-- one operation on (directory, outputs) -/
def step (fs : FS) (outs : Outs) : Op → FS × Outs
  | .trunc n f => (FS.set fs n (f outs), outs)
  | .append n f => (FS.set fs n (FS.content fs n ++ f outs), outs)
  | .read n => (fs, outs ++ [FS.content fs n])
  | .unlink n => (FS.del fs n, outs)
  | .move s d => (moveFs fs s d, outs)
  | .globRead p => (fs, outs ++ [FS.globContent fs p])

/-- run a program; outputs are accumulated in order -/
def exec (fs : FS) (outs : Outs) : List Op → FS × Outs
  | [] => (fs, outs)
  | op :: rest => exec (step fs outs op).1 (step fs outs op).2 rest

/-! ## the syntactic discipline: nothing is read or extended before this run has initialised it -/

/-- names whose state is determined by the run after this operation -/
def knownStep (known : List Name) : Op → List Name
  | .trunc n _ => n :: known
  | .unlink n => n :: known
  | .move s d => s :: d :: known
  | .append _ _ => known
  | .read _ => known
  | .globRead _ => known

/-- is the operation allowed when only `known` names have been initialised by this run? -/
def okStep (known : List Name) : Op → Bool
  | .trunc _ _ => true
  | .unlink _ => true
  | .append n _ => decide (n ∈ known)
  | .read n => decide (n ∈ known)
  | .move s _ => decide (s ∈ known)
  | .globRead _ => false

def wellInit (known : List Name) : List Op → Bool
  | [] => true
  | op :: rest => okStep known op && wellInit (knownStep known op) rest

def knownAfter (known : List Name) : List Op → List Name
  | [] => known
  | op :: rest => knownAfter (knownStep known op) rest

/-- names an operation may change -/
def writesOp : Op → List Name
  | .trunc n _ => [n]
  | .append n _ => [n]
  | .unlink n => [n]
  | .move s d => [s, d]
  | .read _ => []
  | .globRead _ => []

def writes (prog : List Op) : List Name := prog.flatMap writesOp

/-- "`n` is certainly absent": status after one operation, given the status before -/
def absentStep (n : Name) (b : Bool) : Op → Bool
  | .trunc m _ => if m = n then false else b
  | .append m _ => if m = n then false else b
  | .unlink m => if m = n then true else b
  | .move s d => if s = d then b else if s = n then true else if d = n then false else b
  | .read _ => b
  | .globRead _ => b

def absentAfter (n : Name) (b : Bool) : List Op → Bool
  | [] => b
  | op :: rest => absentAfter n (absentStep n b op) rest

/-- "`n` certainly exists": status after one operation, given the status before -/
def presentStep (n : Name) (b : Bool) : Op → Bool
  | .trunc m _ => if m = n then true else b
  | .append m _ => if m = n then true else b
  | .unlink m => if m = n then false else b
  | .move s d => if s = d then b else if s = n then false else if d = n then true else b
  | .read _ => b
  | .globRead _ => b

def presentAfter (n : Name) (b : Bool) : List Op → Bool
  | [] => b
  | op :: rest => presentAfter n (presentStep n b op) rest

/-! ## one `assign_confidence` collection -/

def isChunk : Name → Bool
  | .chunk _ => true
  | _ => false

/-- the writers of the result files of level `l` are initialised (confidence.py:669-688) -/
def initLevelOps (decoys : Bool) (hdr : Nat → Outs → List Nat) (l : Nat) : List Op :=
  Op.trunc (.target l) (hdr l) :: (if decoys then [Op.trunc (.decoy l) (hdr l)] else [])

/-- level writer: `initialize()` then `append_data` (confidence.py:714-766) -/
def levelOps (lvhdr lvdata : Nat → Outs → List Nat) (l : Nat) : List Op :=
  [Op.trunc (.level l) (lvhdr l), Op.append (.level l) (lvdata l)]

/-- `_assign_confidence` for level `l`: read the level file, append the results to the
result files, `os.unlink(data_path)` (confidence.py:396-459) -/
def finishLevelOps (decoys : Bool) (res resd : Nat → Outs → List Nat) (l : Nat) : List Op :=
  Op.read (.level l) :: Op.append (.target l) (res l) ::
    ((if decoys then [Op.append (.decoy l) (resd l)] else []) ++ [Op.unlink (.level l)])

def phase1 (nl : Nat) (decoys : Bool) (hdr : Nat → Outs → List Nat) : List Op :=
  (List.range nl).flatMap (initLevelOps decoys hdr)

/-- one sorted chunk file per chunk, path computed from `i` (confidence.py:834-849) -/
def phase2 (k : Nat) (data : Nat → Outs → List Nat) : List Op :=
  (List.range k).map (fun i => Op.trunc (.chunk i) (data i))

/-- `merge_sort(scores_metadata_paths)` over exactly the paths written (confidence.py:850-852) -/
def phase3 (k : Nat) : List Op := (List.range k).map (fun i => Op.read (.chunk i))

/-- the old discovery of the chunk files by pattern -/
def phase3Glob : List Op := [Op.globRead isChunk]

def phase4 (nl : Nat) (lvhdr lvdata : Nat → Outs → List Nat) : List Op :=
  (List.range nl).flatMap (levelOps lvhdr lvdata)

/-- `finally: sc_path.unlink()` for the paths written (confidence.py:857-866) -/
def phase5 (k : Nat) : List Op := (List.range k).map (fun i => Op.unlink (.chunk i))

def phase6 (nl : Nat) (decoys : Bool) (res resd : Nat → Outs → List Nat) : List Op :=
  (List.range nl).flatMap (finishLevelOps decoys res resd)

/-- the file operations of one collection in `assign_confidence` with `k` chunks and `nl`
levels -/
def confidenceProg (k nl : Nat) (decoys : Bool)
    (hdr data lvhdr lvdata res resd : Nat → Outs → List Nat) : List Op :=
  phase1 nl decoys hdr ++ (phase2 k data ++ (phase3 k ++ (phase4 nl lvhdr lvdata ++
    (phase5 k ++ phase6 nl decoys res resd))))

/-- the same with the chunk files rediscovered by `glob("…scores_metadata_*")` (the code
before the fix of D6) -/
def confidenceProgGlob (k nl : Nat) (decoys : Bool)
    (hdr data lvhdr lvdata res resd : Nat → Outs → List Nat) : List Op :=
  phase1 nl decoys hdr ++ (phase2 k data ++ (phase3Glob ++ (phase4 nl lvhdr lvdata ++
    (phase5 k ++ phase6 nl decoys res resd))))

/-! ## the CLI `verify_pin` step (mokapot.py:60-73) -/

/-- read the PIN, write the converted text to `{pin}.tsv` (mode `w`), move it over the PIN -/
def cliProg (conv : Outs → List Nat) : List Op :=
  [Op.read .input, Op.trunc .inputTsv conv, Op.move .inputTsv .input]

/-- the same with `{pin}.tsv` opened in mode `a` (the code before the fix of D7) -/
def cliProgAppend (conv : Outs → List Nat) : List Op :=
  [Op.read .input, Op.append .inputTsv conv, Op.move .inputTsv .input]

/-! ## a concrete instance (driver, `#guard`s, mutant witnesses) -/

def demoHdr (_ : Nat) (_ : Outs) : List Nat := [1]
def demoData (i : Nat) (_ : Outs) : List Nat := [100 + i]
def demoLvHdr (_ : Nat) (_ : Outs) : List Nat := [2]
/-- the level file depends on everything that was read from the chunk files -/
def demoLvData (_ : Nat) (outs : Outs) : List Nat := outs.flatten
/-- the results depend on the level file just read -/
def demoRes (_ : Nat) (outs : Outs) : List Nat := (outs.getLast?.getD []).map (· + 1000)

def demoProg (k nl : Nat) (decoys : Bool) : List Op :=
  confidenceProg k nl decoys demoHdr demoData demoLvHdr demoLvData demoRes demoRes

def demoProgGlob (k nl : Nat) (decoys : Bool) : List Op :=
  confidenceProgGlob k nl decoys demoHdr demoData demoLvHdr demoLvData demoRes demoRes

/-- converted text = the PIN content shifted (stands for `pin_to_valid_tsv`) -/
def demoConv (outs : Outs) : List Nat := (outs.getLast?.getD []).map (· + 1)

end Mk.FsRun
