import MokapotVerif.Model.PinTsv
/-!
# Prelude of the Python → Lean source translation (`tools/py2lean.py`)

The definitions in `Generated/Src.lean` are produced from /repo's Python source on
every run.  They are *shallow embeddings*: Python statements become Lean `let`s and
`if`s, Python loops become the loop combinators below applied to a lambda-lifted loop
body, and Python's built-in operations become the functions of this file.  This file
is therefore the place where the *reading of Python primitives* is fixed (trusted,
DESIGN §3): `len`, indexing and slicing with negative indices, `range`, `enumerate`,
`str.split`, `str.join`, `str.startswith`, `set.add` / `set.union` as an insertion log.

No Mathlib; the only import is `Model/PinTsv.lean`, whose `pySlice`, `pyUpTo`,
`pyFrom`, `pyIdx`, `splitOn`, `joinWith`, `strip` are re-used as they are.

Representation: `int` = `Int`, `bool` = `Bool`, `str` = `List Char` (`Mk.Str`),
`list[T]` = `List T`, `set[T]` = `List T` (the log of insertions, in order, with
repetitions: membership is what a theorem may use), a tuple = a product.
An operation that can raise (`xs[i]`, `s.split(sep)` with an empty separator,
`range` with step 0) is an `Option`; a function containing one returns `Option`.
-/
namespace Mk.Py

/-! ## Control flow of one loop iteration -/

/-- what one execution of a loop body does: fall off its end or `continue` (`next`),
`break` (`brk`), or raise (`err`); `next` / `brk` carry the values of the loop-carried
variables (the variables assigned in the body that exist before the loop). -/
inductive Step (σ : Type) where
  | next (s : σ)
  | brk (s : σ)
  | err

/-- sequencing with an operation that can raise -/
def Step.ofOpt {α σ : Type} (o : Option α) (k : α → Step σ) : Step σ :=
  match o with
  | some a => k a
  | none => .err

/-- `for x in xs: body` whose body can raise: `none` = an exception left the loop.
A recursive helper over the remaining items (so that `break` really stops). -/
def forM {α σ : Type} (f : σ → α → Step σ) : List α → σ → Option σ
  | [], s => some s
  | x :: xs, s =>
    match f s x with
    | .next s' => forM f xs s'
    | .brk s' => some s'
    | .err => none

/-- `for x in xs: body` whose body cannot raise (the translator emits it only then; the
`err` case is unreachable and stops the loop). -/
def forT {α σ : Type} (f : σ → α → Step σ) : List α → σ → σ
  | [], s => s
  | x :: xs, s =>
    match f s x with
    | .next s' => forT f xs s'
    | .brk s' => s'
    | .err => s

/-! ## Built-ins -/

/-- `len(xs)` -/
abbrev len {α : Type} (l : List α) : Int := (l.length : Int)

/-- `xs[i]`: negative indices count from the end, out of range raises `IndexError` -/
def index? {α : Type} (l : List α) (i : Int) : Option α :=
  if 0 ≤ i then l[i.toNat]?
  else if 0 ≤ i + (l.length : Int) then l[(i + (l.length : Int)).toNat]?
  else none

/-- `range(a, b)` (and `range(b)` = `range(0, b)`) -/
def range (a b : Int) : List Int := (List.range (b - a).toNat).map (fun (k : Nat) => a + (k : Int))

/-- `range(a, b, c)`; `c = 0` raises `ValueError` -/
def range3? (a b c : Int) : Option (List Int) :=
  if c = 0 then none
  else if 0 < c then some ((List.range ((b - a + c - 1) / c).toNat).map (fun (k : Nat) => a + (k : Int) * c))
  else some ((List.range ((a - b - c - 1) / (-c)).toNat).map (fun (k : Nat) => a + (k : Int) * c))

/-- `enumerate(xs)` -/
def enumerate {α : Type} (l : List α) : List (Int × α) := l.zipIdx.map (fun p => ((p.2 : Int), p.1))

/-- `s.split(sep)` for a non-empty separator: left-to-right, non-overlapping; `skip`
counts the characters of a recognised separator that are still to be passed over. -/
def splitGo (sep : Str) : Nat → Str → List Str
  | _, [] => [[]]
  | skip + 1, _ :: cs => splitGo sep skip cs
  | 0, c :: cs =>
    if sep.isPrefixOf (c :: cs) then [] :: splitGo sep (sep.length - 1) cs
    else consHead c (splitGo sep 0 cs)

/-- `s.split(sep)`; an empty separator raises `ValueError` -/
def split? (s sep : Str) : Option (List Str) :=
  if sep.isEmpty then none else some (splitGo sep 0 s)

/-- `sep.join(parts)` -/
def join (sep : Str) (parts : List Str) : Str := joinWith sep parts

/-- `s.startswith(p)` -/
def startswith (s p : Str) : Bool := p.isPrefixOf s

/-- `s.strip()` -/
def strip (s : Str) : Str := Mk.strip s

/-- `s.add(x)` on the insertion log -/
def setAdd {α : Type} (s : List α) (x : α) : List α := s ++ [x]

/-- `s.union(t)` / `s | t` on insertion logs -/
def setUnion {α : Type} (s t : List α) : List α := s ++ t

/-- `xs.append(x)` -/
def append {α : Type} (l : List α) (x : α) : List α := l ++ [x]

end Mk.Py
