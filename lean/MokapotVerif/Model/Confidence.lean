import MokapotVerif.Model.Qvalues
/-!
# Model of `assign_confidence` (competition, roll-up, level files, q-values)

src: mokapot/confidence.py:487-790 (`assign_confidence`), 793-877
(`create_sorted_file_iterator`, `_save_sorted_metadata_chunks`),
335-455 (`LinearConfidence._assign_confidence`), confidence_writer.py:66-157,
brew_rollup.py:394-470 (the stand-alone roll-up tool).

A PSM row is abstracted to what the code looks at: an identity (input row
number; the harness makes `SpecId` unique), the spectrum key and the roll-up
level keys (key *equality* is all the code uses: `psm_hash in seen`), the
target flag and the (already sign-corrected, see D3) score.  Scores are
integers ordered by `≤`; only comparisons are made on them.

Nondeterminism: pandas' `sort_values` (quicksort, unstable) inside each chunk
and the choice among equal heads in the k-way merge.  Both are *parameters*:
the theorems hold for every per-chunk best-first arrangement and every
best-first arrangement of the merged stream.  The executable instance uses
stable merge sorts.
-/
namespace Mk

structure Row where
  id : Nat
  spec : Nat            -- spectrum key (hash of the spectrum columns)
  keys : List Nat       -- one key per roll-up level column (peptide, modified peptide, …)
  target : Bool
  score : Int
  deriving Repr, DecidableEq, Inhabited

/-- key of a row at roll-up level `l` (0 = first level column = peptide) -/
def Row.key (r : Row) (l : Nat) : Nat := r.keys.getD l 0

/-- best-first comparison on rows: `a` may stand before `b` -/
def rowBetter (a b : Row) : Bool := decide (b.score ≤ a.score)

/-- keep the first row of every key, in order.  `seen` are the keys met so far.
This is pandas `drop_duplicates(keep="first")` (confidence.py:871-872) as well
as the `psm_hash in seen_level_entities[level]` scan (confidence.py:720-736)
restricted to one level. -/
def dedupFirst (key : Row → Nat) : List Nat → List Row → List Row
  | _, [] => []
  | seen, r :: rest =>
    if seen.contains (key r) then dedupFirst key seen rest
    else r :: dedupFirst key (key r :: seen) rest

/-- `create_chunks` / chunked reader: consecutive slices of `c` rows (fuel = length). -/
def chunksFuel {β : Type} (c : Nat) : Nat → List β → List (List β)
  | 0, _ => []
  | _, [] => []
  | fuel + 1, xs => xs.take c :: chunksFuel c fuel (xs.drop c)

def chunksOf {β : Type} (c : Nat) (xs : List β) : List (List β) := chunksFuel c xs.length xs

/-- one temporary sorted chunk file: the chunk arranged best-first (`sorted` is
that arrangement), de-duplicated by spectrum iff the flag is set.
src: confidence.py:855-877 -/
def chunkFile (dedup : Bool) (sorted : List Row) : List Row :=
  if dedup then dedupFirst Row.spec [] sorted else sorted

/-! ## The streaming scan over the merged rows (confidence.py:715-754) -/

/-- per roll-up level: the seen-set and the rows written so far (reversed) -/
abbrev LvlState := List Nat × List Row

structure ScanState where
  seenPsm : List Nat
  outPsm : List Row              -- reversed
  lvls : List LvlState           -- one per roll-up level
  deriving Repr

/-- one roll-up level for one row: `continue` on a seen key, otherwise record the key and append -/
def levelStep (l : Nat) (p : LvlState) (r : Row) : LvlState :=
  if p.1.contains (r.key l) then p else (r.key l :: p.1, r :: p.2)

/-- one iteration of `for data_row in sorted_file_iterator`: at the PSM level a
seen spectrum `break`s out of the level loop (when de-duplication is on);
otherwise the row is appended and every roll-up level is visited. -/
def scanStep (dedup : Bool) (st : ScanState) (r : Row) : ScanState :=
  if dedup && st.seenPsm.contains r.spec then st
  else
    { seenPsm := if dedup then r.spec :: st.seenPsm else st.seenPsm,
      outPsm := r :: st.outPsm,
      lvls := st.lvls.mapIdx (fun l p => levelStep l p r) }

def scanInit (nLevels : Nat) : ScanState :=
  { seenPsm := [], outPsm := [], lvls := List.replicate nLevels ([], []) }

/-- the level files written by the scan: PSM level first, then one per roll-up level -/
def scan (dedup : Bool) (nLevels : Nat) (merged : List Row) : List Row × List (List Row) :=
  let st := merged.foldl (scanStep dedup) (scanInit nLevels)
  (st.outPsm.reverse, st.lvls.map (fun p => p.2.reverse))

/-! ## Declarative description of the level files -/

/-- PSM level: first row per spectrum of the merged stream (all rows without de-duplication) -/
def psmLevel (dedup : Bool) (merged : List Row) : List Row :=
  if dedup then dedupFirst Row.spec [] merged else merged

/-- roll-up level `l`: first row per level key among the rows retained at the PSM level -/
def rollupLevel (dedup : Bool) (merged : List Row) (l : Nat) : List Row :=
  dedupFirst (fun r => r.key l) [] (psmLevel dedup merged)

/-- **Specification of a level** (`input` = the rows competing at that level):
`out` has exactly one row per distinct key, a highest-scoring one, and is in
non-increasing score order; every row of `out` is an input row. -/
def LevelSpec (key : Row → Nat) (input out : List Row) : Prop :=
  out.Pairwise (fun a b => b.score ≤ a.score) ∧
  (out.map key).Nodup ∧
  (∀ r ∈ out, r ∈ input) ∧
  (∀ r ∈ input, ∃ o ∈ out, key o = key r ∧ r.score ≤ o.score)

/-- decidable version used by the driver on the implementation's output -/
def levelSpecB (key : Row → Nat) (input out : List Row) : Bool :=
  (out.zip out.tail).all (fun p => decide (p.2.score ≤ p.1.score)) &&
  (out.map key).eraseDups.length == out.length &&
  out.all (fun r => input.contains r) &&
  input.all (fun r => out.any (fun o => key o == key r && decide (r.score ≤ o.score)))

/-! ## Whole pipeline for one collection -/

/-- q-value column of a level file (`qvalues.tdc(scores, targets, desc=True)`,
confidence.py:412-414) -/
def levelQvalues (rows : List Row) : List Rat :=
  tdc (fun a b : Int => decide (a ≤ b)) (rows.map (fun r => (r.score, r.target)))

/-- split a level into the rows of `targets.<level>` and `decoys.<level>`
(confidence_writer.py:139-152), each with its q-value -/
def splitTD (rows : List Row) : List (Row × Rat) × List (Row × Rat) :=
  let rq := rows.zip (levelQvalues rows)
  (rq.filter (fun p => p.1.target), rq.filter (fun p => !p.1.target))

/-- executable pipeline: chunk, sort each chunk (stable merge sort as one
admissible `sort_values`), optional per-chunk de-duplication, merge (stable
merge sort of the concatenation as one admissible k-way merge), scan. -/
def confidenceLevels (c : Nat) (dedup : Bool) (nLevels : Nat) (rows : List Row) :
    List Row × List (List Row) :=
  let files := (chunksOf c rows).map (fun ch => chunkFile dedup (ch.mergeSort rowBetter))
  let merged := files.flatten.mergeSort rowBetter
  scan dedup nLevels merged

/-! ## Stand-alone roll-up tool (brew_rollup.py:394-412): every level keeps the
first-seen id of the merged stream independently (no `break`). -/
def rollupTool (nLevels : Nat) (merged : List Row) : List (List Row) :=
  (List.range nLevels).map (fun l => dedupFirst (fun r => r.key l) [] merged)

end Mk
