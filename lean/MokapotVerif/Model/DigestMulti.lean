import MokapotVerif.Model.DigestPat
/-!
# Digestion for an arbitrary enzyme regex: `_cleave` over any list of match ends
(mokapot/parsers/fasta.py:263-309, 435-443, 446-512)

`Model/Digest.lean`, `Model/DigestPat.lean`, `Model/DigestZero.lean` each model
`re.finditer` for one class of patterns.  `_cleavage_sites` and `_cleave` do not
depend on the pattern at all: the former wraps whatever match ends `finditer`
reports into `[0] + ends + [len(sequence)]`, the latter runs its double loop over
that list.  This file models exactly that: the list of match ends `ends` is a
**parameter** (the only thing taken from `re`), of which the theorems assume

* it is weakly increasing (`finditer` scans left to right and its matches do not
  overlap; an empty match may lie where the previous match ended, so equal
  neighbours do occur: `[KR]|(?=D)` on `KD` reports the ends `[1, 1]`), and
* every end is `≤ len(sequence)`.

Alternations (`[KR]|(?=D)`), variable-width patterns (`K+`, `[KR]{1,2}`), anchors
(`K|$`, `^M|K`), look-behind mixed with consumption - every enzyme regex is an
instance.  With repeated entries the double loop counts *list entries*: a
position listed twice in the interior costs one missed cleavage, a doubled `0`
delays the N-terminal peptides by one `diff_idx`, a doubled entry yields the empty
peptide when `min_length = 0`.  `DigestSpecM` is the declarative statement of what
comes out, with multiplicities; `DigestSpecS` (positions as a set) is its special
case for a strictly increasing list.

Negative integers: `missed_cleavages`, `min_length`, `max_length` are Python ints;
`digestInt` says what the comparisons of `_cleave` make of negative ones.
-/
namespace Mk

/-- `_cleavage_sites` given the match ends `[m.end() for m in finditer(sequence)]`:
`[0] + ends + [len(sequence)]`.  src: mokapot/parsers/fasta.py:435-443 -/
def cleavageSitesM (ends : List Nat) (n : Nat) : List Nat := 0 :: (ends ++ [n])

/-- `mokapot.digest` given the match ends of the enzyme regex on the sequence.
src: mokapot/parsers/fasta.py:263-309 -/
def digestM (ends : List Nat) (seq : List Char) (mc lo hi : Nat) (clip semi : Bool) : List Pep :=
  cleave seq (cleavageSitesM ends seq.length) mc lo hi semi clip

/-! ## Specification with multiplicities -/

/-- number of listed sites (with multiplicity) strictly between `a` and `b` -/
def betweenM (sites : List Nat) (a b : Nat) : Nat :=
  sites.countP (fun s => decide (a < s) && decide (s < b))

/-- number of listed sites after the leading `0` that lie before `b`: the extra
copies of `0` and everything strictly between `0` and `b` -/
def beforeM (sites : List Nat) (b : Nat) : Nat :=
  sites.tail.countP (fun s => decide (s < b))

/-- `seq[a:b]` is a peptide between two listed sites within the limits: at most
`mc` list entries strictly between them; `a = b` needs the position listed twice
(the empty peptide) -/
def EnzymaticM (sites : List Nat) (mc lo hi a b : Nat) : Prop :=
  a ∈ sites ∧ b ∈ sites
    ∧ ((a < b ∧ betweenM sites a b ≤ mc) ∨ (a = b ∧ 2 ≤ sites.count a))
    ∧ lo ≤ b - a ∧ b - a ≤ hi

instance (sites : List Nat) (mc lo hi a b : Nat) : Decidable (EnzymaticM sites mc lo hi a b) := by
  unfold EnzymaticM; infer_instance

/-- **Specification of C17 for an arbitrary list of sites** (all bounds): the
peptides between two listed sites with at most `mc` entries between them; with clip
the form without `M` of such a peptide that starts the protein, provided it is
reached from the *first* list entry within the missed-cleavage limit (`beforeM`);
with semi every proper non-empty suffix / prefix of at least `lo` residues. -/
def DigestSpecM (sites : List Nat) (seq : List Char) (mc lo hi : Nat) (clip semi : Bool) (p : Pep) : Prop :=
  ∃ a b, EnzymaticM sites mc lo hi a b ∧
    (p = slice seq a b
      ∨ (clip = true ∧ a = 0 ∧ seq.head? = some 'M' ∧ lo ≤ b - 1 ∧ beforeM sites b ≤ mc
            ∧ p = slice seq 1 b)
      ∨ (semi = true ∧ ∃ k, 1 ≤ k ∧ k < b - a ∧ lo ≤ b - a - k
            ∧ (p = slice seq (a + k) b ∨ p = slice seq a (b - k))))

def specAtM (sites : List Nat) (seq : List Char) (mc lo hi : Nat) (clip semi : Bool) (a b : Nat) : List Pep :=
  if EnzymaticM sites mc lo hi a b then
    slice seq a b
      :: ((if clip && a == 0 && seq.head? == some 'M' && decide (lo ≤ b - 1)
              && decide (beforeM sites b ≤ mc) then [slice seq 1 b] else [])
        ++ (if semi then
              (List.range (b - a)).flatMap (fun k =>
                if decide (1 ≤ k) && decide (lo ≤ b - a - k) then [slice seq (a + k) b, slice seq a (b - k)]
                else [])
            else []))
  else []

/-- executable enumeration of `DigestSpecM` over the positions `0 … n` -/
def specListMS (sites : List Nat) (seq : List Char) (mc lo hi : Nat) (clip semi : Bool) : List Pep :=
  (List.range (seq.length + 1)).flatMap (fun a =>
    (List.range (seq.length + 1)).flatMap (fun b => specAtM sites seq mc lo hi clip semi a b))

/-- driver op `digestspecm`: the specification for the match ends `ends` -/
def specListM (ends : List Nat) (seq : List Char) (mc lo hi : Nat) (clip semi : Bool) : List Pep :=
  specListMS (cleavageSitesM ends seq.length) seq mc lo hi clip semi

/-! ## … and without: every match non-empty

When every match consumes at least one residue (alternations of consuming branches,
`K+`, `[KR]{1,2}`, …) the match ends are *strictly* increasing and positive, no
position is listed twice except possibly `len(sequence)`, and the specification is
the one over the **set** of cleavage positions (`DigestSpecS`, the property text). -/

/-- cleavage positions: both ends of the sequence and every match end -/
def isSiteM (ends : List Nat) (n : Nat) (p : Nat) : Bool := p == 0 || p == n || ends.contains p

/-- `DigestSpecS` over the set of cleavage positions, plus the empty peptide when
`min_length = 0` and `len(sequence)` is listed twice -/
def DigestSpecMS (ends : List Nat) (seq : List Char) (mc lo hi : Nat) (clip semi : Bool) (p : Pep) : Prop :=
  DigestSpecS (isSiteM ends seq.length) seq mc lo hi clip semi p
    ∨ (lo = 0 ∧ p = [] ∧ (seq.length == 0 || ends.contains seq.length) = true)

/-- executable enumeration of `DigestSpecMS` (driver op `digestspecms`) -/
def specListMSet (ends : List Nat) (seq : List Char) (mc lo hi : Nat) (clip semi : Bool) : List Pep :=
  specListS (isSiteM ends seq.length) seq mc lo hi clip semi
    ++ (if lo == 0 && (seq.length == 0 || ends.contains seq.length) then [[]] else [])

/-- strictly increasing and positive (every match non-empty), none beyond `n` -/
def endsStrict (ends : List Nat) (n : Nat) : Bool :=
  ends.all (fun e => decide (0 < e) && decide (e ≤ n)) && decide (ends.Pairwise (· < ·))

/-- weakly increasing -/
def sortedLE : List Nat → Bool
  | [] => true
  | [_] => true
  | a :: b :: r => decide (a ≤ b) && sortedLE (b :: r)

/-- the hypotheses on the list of match ends, as an executable check (the driver ops
`digestm` / `digestspecm` refuse a list that fails it; the harness evaluates the same
condition on every list it takes from `re`) -/
def endsOk (ends : List Nat) (n : Nat) : Bool :=
  ends.all (fun e => decide (e ≤ n)) && sortedLE ends

/-! ## Python ints: negative limits -/

/-- `_cleave` with `missed_cleavages`, `min_length`, `max_length` as Python ints:
`range(1, missed_cleavages + 2)` is empty for a negative count; every `len(..)` is
`≥ 0`, so a negative `min_length` acts like `0` in all three comparisons
(`len(peptide) < min_length`, `len(peptide[1:]) >= min_length`,
`sub_pep_len < min_length`) and a negative `max_length` rejects every peptide
(`len(peptide) > max_length`).  src: mokapot/parsers/fasta.py:482, 488-489, 495, 502 -/
def digestInt (ends : List Nat) (seq : List Char) (mc lo hi : Int) (clip semi : Bool) : List Pep :=
  if mc < 0 then []
  else if hi < 0 then []
  else digestM ends seq mc.toNat lo.toNat hi.toNat clip semi

end Mk
