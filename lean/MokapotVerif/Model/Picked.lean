/-!
# Model of the picked-protein approach  (mokapot/picked_protein.py, utils.py, confidence.py)

Import-free.  Strings are `List Char` (ASCII without newlines is the modelled
domain; see `Ops/Picked.lean`).  Scores live in an arbitrary type `α` with a
Boolean relation `le a b` read as "`b` is at least as good as `a`"
(`picked_protein` always keeps the *maximum*, `assign_confidence` negates
lower-is-better scores before it gets here).

The `Proteins` object (peptide_map, shared_peptides, protein_map, has_decoys,
decoy_prefix) is an *input* of this model; how `read_fasta` builds it is the
subject of C16.  The two random draws of the code are parameters:
* `dm`  – the decoy→target peptide pairing returned by `match_decoy`
          (only used when the FASTA has no decoys),
* `sorted` – the arrangement of the retained rows produced by
          `df.sample(frac=1).sort_values([key, score])` (ties in random order).
-/
namespace Mk.Picked
variable {α : Type}

abbrev Str := List Char

/-! ## `strip_peptides`  (picked_protein.py:122-155) -/

def isOpen (c : Char) : Bool := c == '[' || c == '('
def isClose (c : Char) : Bool := c == ']' || c == ')'

/-- `re.sub(r"[\[\(].*?[\]\)]", "", s)`: from an opening `[`/`(` lazily through the
first closing `]`/`)` (either kind closes either kind).  An opener with no closer
after it matches nothing — and then no later opener can match either.
The Boolean is "inside a modification".  src: mokapot/picked_protein.py:143 -/
def stripMods : Bool → List Char → List Char
  | _, [] => []
  | true, c :: cs => if isClose c then stripMods false cs else stripMods true cs
  | false, c :: cs =>
    if isOpen c && cs.any isClose then stripMods true cs else c :: stripMods false cs

/-- the rest after the first `.` -/
def afterDot : List Char → Option (List Char)
  | [] => none
  | c :: cs => if c == '.' then some cs else afterDot cs

/-- `re.sub(r"^.*?\.", "", s)`: drop everything through the first dot (if any).
src: mokapot/picked_protein.py:144 -/
def dropLeft (s : List Char) : List Char := (afterDot s).getD s

/-- `re.sub(r"\..*?$", "", s)`: drop everything from the (next) first dot on.
src: mokapot/picked_protein.py:145 -/
def dropRight (s : List Char) : List Char := s.takeWhile (fun c => c != '.')

/-- the three substitutions in the order of the code. src: mokapot/picked_protein.py:142-146 -/
def stripRaw (s : List Char) : List Char := dropRight (dropLeft (stripMods false s))

/-- `str.islower()`: at least one cased character and no upper-case one (ASCII). -/
def isLowerStr (s : List Char) : Bool := s.any Char.isLower && !s.any Char.isUpper

/-- the case rule looks at the *whole column*: if every stripped sequence is
lower-case they are all upper-cased, otherwise every lower-case letter is deleted.
src: mokapot/picked_protein.py:148-152 -/
def caseRule (col : List (List Char)) : List (List Char) :=
  if col.all isLowerStr then col.map (fun s => s.map Char.toUpper)
  else col.map (fun s => s.filter (fun c => !c.isLower))

/-- `strip_peptides` on a column of peptide strings. src: mokapot/picked_protein.py:121-154 -/
def stripCol (col : List (List Char)) : List (List Char) := caseRule (col.map stripRaw)

/-! ## The `Proteins` object and the peptide → protein-group lookup -/

/-- src: mokapot/proteins.py:53-66 (dicts as association lists, first match wins) -/
structure Proteins where
  hasDecoys : Bool
  decoyPrefix : List Char
  /-- unique peptide ↦ protein group name (members joined by `", "`) -/
  peptideMap : List (List Char × List Char)
  /-- keys of `shared_peptides` -/
  shared : List (List Char)
  /-- target protein ↦ decoy protein -/
  proteinMap : List (List Char × List Char)

/-- insert `pre` after every `", "`; the Boolean is "the previous character was a comma". -/
def prefixGo (pre : List Char) : Bool → List Char → List Char
  | _, [] => []
  | ac, c :: rest =>
    if ac && c == ' ' then c :: pre ++ prefixGo pre false rest else c :: prefixGo pre (c == ',') rest

/-- `", ".join(prefix + p for p in group.split(", "))`.
src: mokapot/picked_protein.py:209-211 -/
def prefixGroup (pre g : List Char) : List Char := pre ++ prefixGo pre false g

/-- one item of `decoy_map`: `proteins.peptide_map[target_peptide]` (KeyError ↦ none).
src: mokapot/picked_protein.py:208-211 -/
def decoyItem (P : Proteins) (dt : List Char × List Char) : Option (List Char × List Char) :=
  (P.peptideMap.lookup dt.2).map (fun g => (dt.1, prefixGroup P.decoyPrefix g))

/-- `proteins.peptide_map[target_peptide]` raises KeyError when `match_decoy` paired a
decoy with something that is not a key of the peptide map (it never does).
src: mokapot/picked_protein.py:208-209 -/
def pairingKeyError (P : Proteins) (dm : List (List Char × List Char)) : Bool :=
  !P.hasDecoys && dm.any (fun dt => (P.peptideMap.lookup dt.2).isNone)

/-- the second lookup table: empty when the FASTA has decoys, otherwise the
decoy-peptide ↦ mirrored-group map built from the pairing `dm` of `match_decoy`.
src: mokapot/picked_protein.py:50-57, 195-211 -/
def decoyMap (P : Proteins) (dm : List (List Char × List Char)) : List (List Char × List Char) :=
  if P.hasDecoys then [] else dm.filterMap (decoyItem P)

/-- protein group of a stripped sequence: `peptide_map.get`, and where that is
missing `decoy_map.get` (for *every* row, targets included).
src: mokapot/picked_protein.py:171, 214-218 -/
def groupOf (P : Proteins) (dmap : List (List Char × List Char)) (s : List Char) : Option (List Char) :=
  (P.peptideMap.lookup s).orElse (fun _ => dmap.lookup s)

/-! ## Rows, accounting of unmatched peptides -/

structure Row (α : Type) where
  target : Bool
  peptide : List Char
  score : α

/-- one row of the result (`final_cols`). src: mokapot/picked_protein.py:111-118 -/
structure Entry (α : Type) where
  group : List Char
  peptide : List Char
  stripped : List Char
  score : α
  target : Bool
deriving DecidableEq

/-- a row together with its stripped sequence and its group (none = NaN) -/
structure ARow (α : Type) where
  row : Row α
  stripped : List Char
  group : Option (List Char)

/-- src: mokapot/picked_protein.py:45-57 -/
def annotate (P : Proteins) (dmap : List (List Char × List Char)) (rows : List (Row α)) : List (ARow α) :=
  (rows.zip (stripCol (rows.map (fun r => r.peptide)))).map
    (fun rs => ⟨rs.1, rs.2, groupOf P dmap rs.2⟩)

/-- `unmatched`: no group; with a target-only FASTA decoys never count.
src: mokapot/picked_protein.py:60-63 -/
def isUnmatched (P : Proteins) (x : ARow α) : Bool := x.group.isNone && (P.hasDecoys || x.row.target)

/-- unmatched and not a known shared peptide (`~shared`). src: mokapot/picked_protein.py:65-70 -/
def isBad (P : Proteins) (x : ARow α) : Bool := isUnmatched P x && !P.shared.contains x.stripped

/-- `shared_unmatched / len(prots) > 0.10`. src: mokapot/picked_protein.py:78-91 -/
def tooManyUnmapped (P : Proteins) (xs : List (ARow α)) : Bool :=
  decide (xs.length < 10 * xs.countP (isBad P))

/-- `num_unmatched_decoys / total_decoys > 0.05`, where the numerator *sums the
target column* over the unmatched non-shared rows (as the code does) and numpy
division by zero gives `inf` (> 0.05) or `nan` (not > 0.05).
src: mokapot/picked_protein.py:93-101 -/
def tooManyDecoys (P : Proteins) (xs : List (ARow α)) : Bool :=
  P.hasDecoys &&
    (if xs.countP (fun x => !x.row.target) = 0 then decide (0 < xs.countP (fun x => isBad P x && x.row.target))
     else decide (xs.countP (fun x => !x.row.target) < 20 * xs.countP (fun x => isBad P x && x.row.target)))

/-- a row that has a group becomes a candidate entry. src: mokapot/picked_protein.py:61, 103 -/
def toEntry (x : ARow α) : Option (Entry α) :=
  x.group.map (fun g => ⟨g, x.row.peptide, x.stripped, x.row.score, x.row.target⟩)

/-- `prots.loc[~no_group]`: exactly the rows that have a protein group. -/
def retained (xs : List (ARow α)) : List (Entry α) := xs.filterMap toEntry

/-! ## Pair key and `groupby_max` -/

/-- does the text start with the separator `", "` the group names are joined with? -/
def startsSep : List Char → Bool
  | ',' :: ' ' :: _ => true
  | _ => false

/-- `.str.split(", ", expand=True)[0]`: the text up to the first `", "` (everything if there is none).
src: mokapot/picked_protein.py:108-112 -/
def firstMember : List Char → List Char
  | [] => []
  | c :: cs => if startsSep (c :: cs) then [] else c :: firstMember cs

/-- the `"decoy"` column: first member of the group mapped through the
target→decoy name map, identity for everything else.
src: mokapot/picked_protein.py:104-108 -/
def pairKey (P : Proteins) (g : List Char) : List Char :=
  (P.proteinMap.lookup (firstMember g)).getD (firstMember g)

def Entry.key (P : Proteins) (e : Entry α) : List Char := pairKey P e.group

/-- `drop_duplicates(["decoy"], keep="last")`: an element stays iff no later
element has the same key. src: mokapot/utils.py:35 -/
def keepLast (P : Proteins) : List (Entry α) → List (Entry α)
  | [] => []
  | e :: rest =>
    if rest.any (fun r => r.key P == e.key P) then keepLast P rest else e :: keepLast P rest

/-- lexicographic order on strings (the order `sort_values` uses for the key column) -/
def strLe : List Char → List Char → Bool
  | [], _ => true
  | _ :: _, [] => false
  | a :: as, b :: bs => if a = b then strLe as bs else decide (a ≤ b)

/-- `sort_values(["decoy", score])` comparison: by key, then ascending by score -/
def sortCmp (le : α → α → Bool) (P : Proteins) (a b : Entry α) : Bool :=
  if a.key P = b.key P then le a.score b.score else strLe (a.key P) (b.key P)

inductive Err where
  | keyError      -- `proteins.peptide_map[target_peptide]` (pairing outside the map)
  | unmapped      -- "Fewer than 90% of all peptides could be matched"
  | decoys        -- "Fewer than 5% of decoy peptides could be mapped"
  | empty         -- no row left: `.str.split(",", expand=True)[0]` raises KeyError
deriving DecidableEq, Repr

/-- everything before `groupby_max`: the candidate rows or the exception.
src: mokapot/picked_protein.py:38-108 -/
def candidates (P : Proteins) (dm : List (List Char × List Char)) (rows : List (Row α)) :
    Except Err (List (Entry α)) :=
  if pairingKeyError P dm then .error .keyError
  else if tooManyUnmapped P (annotate P (decoyMap P dm) rows) then .error .unmapped
  else if tooManyDecoys P (annotate P (decoyMap P dm) rows) then .error .decoys
  else if (retained (annotate P (decoyMap P dm) rows)).isEmpty then .error .empty
  else .ok (retained (annotate P (decoyMap P dm) rows))

/-- `groupby_max` + `.loc[prot_idx, final_cols]` on *some* arrangement `sorted`
of the candidates that is ordered by (key, score) — ties in whatever order the
shuffle left them. src: mokapot/utils.py:29-39, picked_protein.py:110-118 -/
def pickedOf (P : Proteins) (sorted : List (Entry α)) : List (Entry α) := keepLast P sorted

/-- executable `picked_protein`: stable merge sort of the unshuffled candidates as
one admissible arrangement. src: mokapot/picked_protein.py:15-118 -/
def picked (le : α → α → Bool) (P : Proteins) (dm : List (List Char × List Char))
    (rows : List (Row α)) : Except Err (List (Entry α)) :=
  (candidates P dm rows).map (fun c => pickedOf P (c.mergeSort (sortCmp le P)))

/-- the `(score, is_target)` pairs `LinearConfidence` feeds to the q-value routine
at the protein level. src: mokapot/confidence.py:392-414 -/
def entryLabels (es : List (Entry α)) : List (α × Bool) := es.map (fun e => (e.score, e.target))

/-- protein level of `assign_confidence`: the entries in *some* arrangement `arr`
(`sort_values(by=score, ascending=False)`, unstable) with the q-values the
routine `qv` (C01's `tdc`) returns for them. src: mokapot/confidence.py:367-414 -/
def proteinLevel (qv : List (α × Bool) → List Rat) (arr : List (Entry α)) : List (Entry α × Rat) :=
  arr.zip (qv (entryLabels arr))

/-! ## Specification -/

/-- **Specification of the entries** given the candidate rows `R` (the retained
unique-peptide rows): one entry per pair key that occurs in `R`, and each entry
is a row of `R` whose score is maximal within its pair. -/
def SpecEntries (le : α → α → Bool) (P : Proteins) (R out : List (Entry α)) : Prop :=
  (out.map (fun e => e.key P)).Nodup ∧
  (∀ r ∈ R, r.key P ∈ out.map (fun e => e.key P)) ∧
  (∀ e ∈ out, e ∈ R ∧ ∀ r ∈ R, r.key P = e.key P → le r.score e.score = true)

def nodupB : List (List Char) → Bool
  | [] => true
  | k :: ks => !ks.contains k && nodupB ks

/-- decidable form of `SpecEntries`, clause by clause (0 = ok, otherwise the
number of the first violated clause); used by the driver op `spec-C15` on the
*implementation's* output. -/
def specCheck [DecidableEq α] (le : α → α → Bool) (P : Proteins) (R out : List (Entry α)) : Nat :=
  if !nodupB (out.map (fun e => e.key P)) then 1
  else if !R.all (fun r => (out.map (fun e => e.key P)).contains (r.key P)) then 2
  else if !out.all (fun e => decide (e ∈ R)) then 3
  else if !out.all (fun e => R.all (fun r => !(r.key P == e.key P) || le r.score e.score)) then 4
  else 0

/-! ### Specification of `strip_peptides` on well-formed peptide strings -/

/-- the pieces of an annotated peptide `SEQ`: an upper-case residue, a lower-case
marker outside brackets (`n`, `c`, `m` …) or a bracketed modification -/
inductive Tok where
  | res (c : Char)
  | low (c : Char)
  | mod (o : Char) (body : List Char) (cl : Char)

def Tok.wf : Tok → Prop
  | .res c => c.isUpper = true
  | .low c => c.isLower = true
  | .mod o body cl => isOpen o = true ∧ isClose cl = true ∧ ∀ c ∈ body, isClose c = false

def Tok.render : Tok → List Char
  | .res c => [c]
  | .low c => [c]
  | .mod o body cl => o :: body ++ [cl]

/-- the residue a token contributes -/
def Tok.residues : Tok → List Char
  | .res c => [c]
  | _ => []

/-- what is left of a token once the bracketed modifications are gone -/
def Tok.plain : Tok → List Char
  | .res c => [c]
  | .low c => [c]
  | .mod _ _ _ => []

/-- a flanking-residue notation: no dot, no bracket -/
def flankOk (f : List Char) : Prop := ∀ c ∈ f, c ≠ '.' ∧ isOpen c = false ∧ isClose c = false

/-- `flank.SEQ.flank` or plain `SEQ` -/
def renderPeptide (fl : Option (List Char × List Char)) (toks : List Tok) : List Char :=
  match fl with
  | none => toks.flatMap Tok.render
  | some (l, r) => l ++ '.' :: toks.flatMap Tok.render ++ '.' :: r

def flanksOk : Option (List Char × List Char) → Prop
  | none => True
  | some (l, r) => flankOk l ∧ flankOk r

/-! ## `match_decoy` and the pairing of `group_without_decoys` (target-only FASTA)

`match_decoy(decoys, targets, rng)` shuffles the target peptides (`targets.sample(frac=1,
random_state=rng)` — the arrangement `shuffled` is the parameter that stands for the draw),
files them by composition key in shuffled order and lets every decoy, in table order, `pop()`
the last unused target of its own key.  -/

/-- insertion into a sorted list (any sorting routine gives the same list for a total
antisymmetric order; `sorted()` of Python is one) -/
def insertBy {β : Type} (le : β → β → Bool) (x : β) : List β → List β
  | [] => [x]
  | y :: ys => if le x y then x :: y :: ys else y :: insertBy le x ys

def sortBy {β : Type} (le : β → β → Bool) : List β → List β
  | [] => []
  | x :: xs => insertBy le x (sortBy le xs)

def charLe (a b : Char) : Bool := decide (a ≤ b)

/-- `_sort(peptide)` = `"".join(sorted(peptide))`, the composition key of a *target* peptide
(`ignore_mods=True`). src: mokapot/peptides.py:56-89 -/
def targetComp (s : Str) : Str := sortBy charLe s

def consTok (c : Char) : List Str → List Str
  | [] => [[c]]
  | t :: ts => (c :: t) :: ts

/-- is the next character (if any) the start of a new piece? -/
def startsUpper : Str → Bool
  | [] => true
  | c :: _ => c.isUpper

/-- `re.split("(?=[A-Z])", s)` without its empty pieces: a new piece starts in front of every
upper-case letter (the empty pieces sort first and add nothing to the joined key).
src: mokapot/peptides.py:45 -/
def splitUpper : Str → List Str
  | [] => []
  | c :: cs => if startsUpper cs then [c] :: splitUpper cs else consTok c (splitUpper cs)

/-- `"".join(sorted(comp))`, the composition key of a *decoy* peptide. src: mokapot/peptides.py:45-48 -/
def decoyComp (s : Str) : Str := (sortBy strLe (splitUpper s)).flatten

/-- `targ_comps[key].pop()` on the pool kept in *reverse* shuffled order: the first pool
element with that key is the last one filed under it. `none` = `IndexError` (empty or
missing list). src: mokapot/peptides.py:41, 48-50 -/
def popFirst (k : Str) : List Str → Option (Str × List Str)
  | [] => none
  | t :: ts => if targetComp t = k then some (t, ts) else (popFirst k ts).map (fun x => (x.1, t :: x.2))

/-- `decoy_map[decoy] = target` on an insertion-ordered dict -/
def dictSet (k v : Str) : List (Str × Str) → List (Str × Str)
  | [] => [(k, v)]
  | kv :: rest => if kv.1 = k then (k, v) :: rest else kv :: dictSet k v rest

/-- one iteration of the loop over the decoys (state: remaining pool, `decoy_map`).
src: mokapot/peptides.py:46-50 -/
def matchStep (st : List Str × List (Str × Str)) (d : Str) : List Str × List (Str × Str) :=
  ((popFirst (decoyComp d) st.1).map (fun x => (x.2, dictSet d x.1 st.2))).getD st

/-- `match_decoy(decoys, targets, rng)` where `shuffled` is `targets` as arranged by the draw.
src: mokapot/peptides.py:8-52 -/
def matchDecoy (shuffled decoys : List Str) : List (Str × Str) :=
  (decoys.foldl matchStep (shuffled.reverse, [])).2

/-- `Series.unique()`: the distinct values in order of first appearance -/
def uniqueFirst : List Str → List Str
  | [] => []
  | x :: xs => x :: (uniqueFirst xs).filter (fun y => y != x)

/-- the distinct stripped sequences of the non-target rows, in table order.
src: mokapot/picked_protein.py:195-197 -/
def decoySeqs (rows : List (Row α)) : List Str :=
  uniqueFirst (((rows.zip (stripCol (rows.map (fun r => r.peptide)))).filter (fun rs => !rs.1.target)).map
    (fun rs => rs.2))

/-- the targets handed to `match_decoy`: the keys of the unique-peptide map, *sorted* (the key
order of the map depends on the hash seed; sorted, the seeded draw does not).
src: mokapot/picked_protein.py:199-204 -/
def pairingTargets (P : Proteins) : List Str := sortBy strLe (P.peptideMap.map Prod.fst)

/-- the pairing `group_without_decoys` obtains: `match_decoy` of the table's decoy sequences
against `pairingTargets`, `shuffled` being those targets as arranged by the seeded draw.
src: mokapot/picked_protein.py:195-204 -/
def pairing (shuffled : List Str) (rows : List (Row α)) : List (Str × Str) :=
  matchDecoy shuffled (decoySeqs rows)

/-- `picked_protein` with the pairing computed as the code computes it (instead of given).
src: mokapot/picked_protein.py:15-118, 174-218 -/
def pickedFull (le : α → α → Bool) (P : Proteins) (shuffled : List Str) (rows : List (Row α)) :
    Except Err (List (Entry α)) :=
  picked le P (pairing shuffled rows) rows

/-! ## The protein level of `assign_confidence`: orientation of the scores and the two result files -/

/-- `assign_confidence(descs=[False])`: a lower-is-better score is replaced by its negation
before sorting, competition and `picked_protein`. src: mokapot/confidence.py:630-636 -/
def orient (neg : α → α) (desc : Bool) (rows : List (Row α)) : List (Row α) :=
  if desc then rows else rows.map (fun r => ⟨r.target, r.peptide, neg r.score⟩)

/-- `targets.proteins` and — only when `decoys=True` — `decoys.proteins`: the rows of the protein
level table `arr` (entries in the order `sort_values(by=score, ascending=False)` left them) with
the q-values computed over *all* of them, routed by their target flag.
src: mokapot/confidence.py:380-390, 396-414, confidence_writer.py:112-113, 139-150 -/
def proteinFiles (qv : List (α × Bool) → List Rat) (decoys : Bool) (arr : List (Entry α)) :
    List (Entry α × Rat) × Option (List (Entry α × Rat)) :=
  ((proteinLevel qv arr).filter (fun x => x.1.target),
   if decoys then some ((proteinLevel qv arr).filter (fun x => !x.1.target)) else none)

end Mk.Picked
