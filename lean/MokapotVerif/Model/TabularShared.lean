import MokapotVerif.Model.Tabular
/-!
# Readers over objects the caller keeps: who hands out which object, who writes into it
(mokapot/tabular_data.py, mokapot/streaming.py) — third pass

`Model/Tabular.lean` models a reader as a pair of *functions*.  The real readers are
objects over **sources the caller keeps** (an in-memory `DataFrame` handed to
`DataFrameReader`), and two lines of the code hand out or write into objects:

* `DataFrameReader.read(None)` returns `self.df` — the caller's own object
  (tabular_data.py:277-278);
* `ComputedTabularDataReader` did `df[self.column] = self.func(df)` — it wrote into
  the object the wrapped reader handed out (streaming.py before c6f4cd0; since then
  `df = df.assign(…)`, streaming.py:132-135,149-151).

Everything else builds a new object: `df[columns]`, `df.iloc[a:b]` (a new frame
object; pandas >= 3 is copy-on-write, so writing into it never reaches the parent),
`df.rename(columns=…, inplace=False)` (tabular_data.py:166), `pd.concat`,
`pd.read_csv`, `Table.to_pandas`.

Here the store of caller-held frames is explicit; a reader's `read` returns the
frame, *which object it is*, and the store after the call.  The theorems
(`Props/C13Shared.lean`) show that no write ever reaches a caller-held frame, so
every history of uses of readers sharing sources observes what `Model/Tabular.lean`
says about the pristine sources.  The variants in `Mutants/TabularShared.lean`
(rename in place; the naive repair of `columns=None` for the computed reader) do
write into the caller's frame.

Also here: `ComputedTabularDataReader` **as it is since c6f4cd0** (`computedReaderP`,
`computedPE`: `columns=None` answered, FINDING-C13.md); `computedReader` /
`computedE` are the class as it was before (it refused `columns=None`) — the
theorems of the first two passes are stated about `computedReader`, which coincides
with `computedReaderP` on every explicit selection (`computedReaderP_some`).

`CSVFileReader(text_columns=…)` (tabular_data.py:196-208, `dtype=str` for the named
columns) changes how *cells* are parsed, not which rows / columns / labels are
delivered: cells are opaque here, so `csvReader` models it unchanged; the harness
reads 45 % of its text fixtures with the option.
-/
namespace Mk.Tabular
variable {β : Type}

/-! ## The computed-column reader as it is (since c6f4cd0): `columns=None` answered -/

/-- `ComputedTabularDataReader`: `_reader_columns(None) = None`, the column computed
into a *new* frame (`df.assign`), `df if columns is None else df[columns]`.  (The
code computes the column only `if columns is None or self.column in columns`; the
model always computes it and lets `df[columns]` drop it — the same frame for a total
function.)  For an explicit selection this is `computedReader`, the class before the
repair (`computedReaderP_some`).
src: mokapot/streaming.py:125-153 -/
def computedReaderP (r : Reader β) (col : Name) (fn : Nat → Row β → β) : Reader β where
  names := r.names ++ [col]
  read := fun cols =>
    (r.read (cols.map (readerCols col))).bind (fun d => frameRead (addCol col fn d) cols)
  chunked := fun c cols =>
    (r.chunked c (cols.map (readerCols col))).bind (fun chs =>
      optAll (chs.map (fun d => frameRead (addCol col fn d) cols)))

/-! ## The caller's objects -/

/-- the in-memory frames the caller holds, by position -/
abbrev Store (β : Type) := List (DF β)

def emptyDF : DF β := ⟨[], []⟩

/-- the frame stored at position `k` -/
def Store.at (st : Store β) (k : Nat) : DF β := st.getD k emptyDF

/-- a frame handed out by `read`: its content and, when it is the very object the
caller holds at position `k`, `some k` (`none`: a new object) -/
structure Handed (β : Type) where
  df : DF β
  obj : Option Nat

/-- a reader over caller-held sources.  Chunks are always new objects (`iloc`
slices, parser / Arrow output), so `chunked` only *looks* at the store.
src: mokapot/tabular_data.py:54-79 -/
structure EReader (β : Type) where
  names : Store β → List Name
  read : Store β → Option (List Name) → Option (Handed β × Store β)
  chunked : Store β → Nat → Option (List Name) → Option (List (DF β))

/-- the reader as the functions of `Model/Tabular.lean`, looking at store `st` -/
def EReader.on (e : EReader β) (st : Store β) : Reader β where
  names := e.names st
  read := fun cols => (e.read st cols).map (fun p => p.1.df)
  chunked := e.chunked st

/-- which object `DataFrameReader.read` hands out: `self.df` itself for
`columns=None`, a new frame `self.df[columns]` otherwise.
src: mokapot/tabular_data.py:277-278 -/
def srcObj (k : Nat) (cols : Option (List Name)) : Option Nat := if cols.isNone then some k else none

/-- `DataFrameReader(df)` over the caller's frame number `k`.
src: mokapot/tabular_data.py:250-289 -/
def srcE (k : Nat) : EReader β where
  names := fun st => (st.at k).names
  read := fun st cols => (frameRead (st.at k) cols).map (fun d => (⟨d, srcObj k cols⟩, st))
  chunked := fun st c cols => frameChunked (st.at k) c cols

/-- a reader whose source is not an object of the caller (a file): `pd.read_csv` /
`to_pandas` build a new frame per call.  src: mokapot/tabular_data.py:231-247,328-356 -/
def extE (r : Reader β) : EReader β where
  names := fun _ => r.names
  read := fun st cols => (r.read cols).map (fun d => (⟨d, none⟩, st))
  chunked := fun _ c cols => r.chunked c cols

/-- `ColumnMappedReader`: `df = df.rename(columns=self.column_map, inplace=False)`
— a new object; the frame handed in is left alone.
src: mokapot/tabular_data.py:118-181 -/
def mappedE (e : EReader β) (m : List (Name × Name)) : EReader β where
  names := fun st => (e.names st).map (newName m)
  read := fun st cols =>
    (origCols m (e.names st) cols).bind (fun oc =>
      (e.read st oc).map (fun p => (⟨renameDF m p.1.df, none⟩, p.2)))
  chunked := fun st c cols =>
    (origCols m (e.names st) cols).bind (fun oc =>
      (e.chunked st c oc).map (fun chs => chs.map (renameDF m)))

/-- `df[col] = values`: **writes into the object it is given** — when that is the
caller's object number `k`, the caller's frame has the column afterwards.
src: mokapot/streaming.py:130-131 as of 3ddf4e0 (the class before c6f4cd0) -/
def setItem (st : Store β) (h : Handed β) (col : Name) (fn : Nat → Row β → β) : Handed β × Store β :=
  (⟨addCol col fn h.df, h.obj⟩, h.obj.elim st (fun k => st.set k (addCol col fn h.df)))

/-- `ComputedTabularDataReader` as it was before c6f4cd0: `columns=None` raises;
otherwise the wrapped reader is asked for an explicit selection, the column is
written into what it hands out, and `df[columns]` (a new frame) is returned.
src: mokapot/streaming.py:90-148 as of 3ddf4e0 -/
def computedE (e : EReader β) (col : Name) (fn : Nat → Row β → β) : EReader β where
  names := fun st => e.names st ++ [col]
  read := fun st cols => cols.elim none (fun cs =>
    (e.read st (some (readerCols col cs))).bind (fun p =>
      (frameRead (setItem p.2 p.1 col fn).1.df (some cs)).map (fun d =>
        (⟨d, none⟩, (setItem p.2 p.1 col fn).2))))
  chunked := fun st c cols => cols.elim none (fun cs =>
    (e.chunked st c (some (readerCols col cs))).bind (fun chs =>
      optAll (chs.map (fun d => frameRead (addCol col fn d) (some cs)))))

/-- `ComputedTabularDataReader` as it is, over caller-held sources:
`df = df.assign(**{col: func(df)})` builds a new frame, so even the whole frame of a
`DataFrameReader` is left alone.  src: mokapot/streaming.py:90-153 -/
def computedPE (e : EReader β) (col : Name) (fn : Nat → Row β → β) : EReader β where
  names := fun st => e.names st ++ [col]
  read := fun st cols =>
    (e.read st (cols.map (readerCols col))).bind (fun p =>
      (frameRead (addCol col fn p.1.df) cols).map (fun d => (⟨d, none⟩, p.2)))
  chunked := fun st c cols =>
    (e.chunked st c (cols.map (readerCols col))).bind (fun chs =>
      optAll (chs.map (fun d => frameRead (addCol col fn d) cols)))

/-- `[reader.read(columns=subset) for reader, subset in zip(...)]`: one read after
the other, each seeing the store the previous one left.
src: mokapot/streaming.py:54-65 -/
def readSeqE : List (EReader β × Option (List Name)) → Store β → Option (List (DF β) × Store β)
  | [], st => some ([], st)
  | (e, cols) :: rest, st =>
    (e.read st cols).bind (fun p => (readSeqE rest p.2).map (fun q => (p.1.df :: q.1, q.2)))

/-- `JoinedTabularDataReader`: the column subsets are computed first
(`_subset_columns`), then the sub-readers are read in order; `pd.concat` builds a
new frame.  src: mokapot/streaming.py:19-86 -/
def joinedE (es : List (EReader β)) : EReader β where
  names := fun st => (es.map (fun e => e.names st)).flatten
  read := fun st cols =>
    (readSeqE (es.map (fun e => (e, subsetCols (e.names st) cols))) st).bind (fun p =>
      ((hcatAll p.1).bind (fun d => frameRead d cols)).map (fun d => (⟨d, none⟩, p.2)))
  chunked := fun st c cols => joinedChunked (es.map (fun e => e.on st)) c cols

/-! ## Histories of uses -/

/-- one call on a reader object -/
inductive RUse where
  | names
  | read (cols : Option (List Name))
  | chunked (c : Nat) (cols : Option (List Name))
  deriving DecidableEq, Repr

/-- what the caller sees -/
inductive RObs (β : Type) where
  | names (ns : List Name)
  | frame (d : DF β) (obj : Option Nat)
  | frames (chs : List (DF β))
  | raised
  deriving DecidableEq, Repr

def obsRead (st : Store β) (x : Option (Handed β × Store β)) : RObs β × Store β :=
  x.elim (RObs.raised, st) (fun p => (RObs.frame p.1.df p.1.obj, p.2))

def obsChunked (x : Option (List (DF β))) : RObs β := x.elim RObs.raised RObs.frames

/-- one call: the observation and the store afterwards (a call that raises is
modelled as leaving the store alone) -/
def useE (e : EReader β) (st : Store β) : RUse → RObs β × Store β
  | RUse.names => (RObs.names (e.names st), st)
  | RUse.read cols => obsRead st (e.read st cols)
  | RUse.chunked c cols => (obsChunked (e.chunked st c cols), st)

/-- the reader object number `i` (a program may only name existing objects) -/
def readerAt (es : List (EReader β)) (i : Nat) : EReader β := es.getD i (extE ⟨[], fun _ => none, fun _ _ => none⟩)

/-- a history: calls on any of the reader objects `es` (which may share sources),
in the order given; the observations and the caller's frames at the end -/
def runUses (es : List (EReader β)) : Store β → List (Nat × RUse) → List (RObs β) × Store β
  | st, [] => ([], st)
  | st, (i, u) :: rest =>
    ((useE (readerAt es i) st u).1 :: (runUses es (useE (readerAt es i) st u).2 rest).1,
     (runUses es (useE (readerAt es i) st u).2 rest).2)

/-! ## Specification -/

/-- **a reader leaves the caller's objects alone**: `read` returns the store it was
given, and hands out a caller-held object only when the whole table was asked for -/
def Quiet (e : EReader β) : Prop :=
  ∀ st cols p, e.read st cols = some p → p.2 = st ∧ (p.1.obj ≠ none → cols = none)

end Mk.Tabular
