import MokapotVerif.Model.Merge
/-!
# Third pass: the `text_columns` parameter of `merge_sort` (identifier cells of text files)

A row of a file as written is a pair `(b, s)`: `b : β` stands for the score and every cell that
is read back as it is, `s : σ` is the *spelling* of an identifier cell (`007`, `1.50`, `ab`).
The text reader parses a file chunk by chunk and pandas infers a type per chunk: `infer`
(a parameter: the type inference of `pandas.read_csv` on the cells of one column of one chunk)
answers `some values` when the whole chunk of the column "looks numeric" (the cells then come
back re-read as numbers: `007` → `7`, and next to a `1.50` → `7.0`) and `none` when the column
stays text.  With the column listed in `text_columns` the reader is told `dtype = {col: str}` and
nothing is inferred.  Parquet cells are typed in the file: nothing is inferred either.
-/
namespace Mk.Merge
variable {β σ ν : Type}

/-- an identifier cell as the row iterator hands it on -/
inductive TCell (σ ν : Type) where
  /-- the text as it was written -/
  | kept : σ → TCell σ ν
  /-- re-read as a number by the type inference of the chunk it was in -/
  | parsed : ν → TCell σ ν
  deriving DecidableEq, Repr

/-- `if text_columns:` … `{col: str for col in text_columns}`: is the column `col` read as text?
(`None` and the empty list switch nothing on).
src: mokapot/tabular_data.py:200-208 -/
def tcActive (textColumns : Option (List String)) (col : String) : Bool :=
  (textColumns.getD []).contains col

/-- the row with its identifier cell as written -/
def tcKeep (r : β × σ) : β × TCell σ ν := (r.1, TCell.kept r.2)

/-- the rows of one chunk, given what the type inference said about the identifier column -/
def tcWithInferred (chunk : List (β × σ)) : Option (List ν) → List (β × TCell σ ν)
  | none => chunk.map tcKeep
  | some vs => (chunk.map (·.1)).zip (vs.map TCell.parsed)

/-- one chunk of a text file through `pd.read_csv(…, chunksize=c, dtype=…)` and
`chunk.to_dict(orient="records")`: with `tc` (the column is in `text_columns`) every cell stays
the text it is, otherwise the column of *this chunk* goes through the type inference.
src: mokapot/tabular_data.py:196-208, 220-229; mokapot/utils.py:132-140 -/
def tcReadChunk (infer : List σ → Option (List ν)) (tc : Bool) (chunk : List (β × σ)) :
    List (β × TCell σ ν) :=
  if tc then chunk.map tcKeep else tcWithInferred chunk (infer (chunk.map (·.2)))

/-- `csv_row_iterator(path, text_columns)` with `MERGE_SORT_CHUNK_SIZE = c` on a text file.
src: mokapot/utils.py:131-141 -/
def tcRowIterText (infer : List σ → Option (List ν)) (tc : Bool) (c : Nat) (xs : List (β × σ)) :
    List (β × TCell σ ν) :=
  ((kmChunks c xs).map (tcReadChunk infer tc)).flatten

/-- the row iterator of one path of a readable list: a file named `.parquet` is read by
`parquet_row_iterator` (which takes `text_columns` and ignores it) or, in a text-first list, by
the `ParquetFileReader` that `from_path` chooses (which is not handed `text_columns`); every
other file by `CSVFileReader(file, text_columns=…)`.
src: mokapot/utils.py:131-150, mokapot/tabular_data.py:85-112 -/
def tcReadFile (infer : List σ → Option (List ν)) (tc : Bool) (c : Nat)
    (f : String × List (β × σ)) : List (β × TCell σ ν) :=
  if kmIsParquet f.1 then (kmRowIter c f.2).map tcKeep else tcRowIterText infer tc c f.2

/-- the score order on rows that carry an identifier cell: the cell plays no part
(`float(row[score_column])`).  src: mokapot/utils.py:115 -/
def tcLe {γ : Type} (le : β → β → Bool) (a b : β × γ) : Bool := le a.1 b.1

/-- `merge_sort(paths, score_column, text_columns)` on files given as `(suffix, rows as written)`.
`none`: the code raises before the first row (as `kmergePaths`).
src: mokapot/utils.py:153-175 -/
def kmergePathsText (le : β → β → Bool) (infer : List σ → Option (List ν))
    (textColumns : Option (List String)) (col : String) (c : Nat)
    (files : List (String × List (β × σ))) : Option (List (β × TCell σ ν)) :=
  if files.all (fun f => kmReadable (kmIsParquet ((files.map (·.1)).headD "")) f.1)
  then kmerge (tcLe le) (files.map (tcReadFile infer (tcActive textColumns col) c)) else none

end Mk.Merge
