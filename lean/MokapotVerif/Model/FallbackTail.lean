import MokapotVerif.Model.Fallback
import MokapotVerif.Model.Confidence
/-!
# Model of the tail of `brew` end to end, and of the entry of `assign_confidence`

Extension of `Model/Fallback.lean` (which models the *decision* on abstract counts): here the
returned pair `(scores, descs)` is a function of what the tail of `brew` reads — the fold models,
every collection's label column as stored in the file, its feature columns and the scores of
the fold models.

src: mokapot/brew.py:212-304 (`scores` of the learned models or zeros, `feat_total`,
`update_labels` per collection, `pred_total`, replacement of `scores`/`descs`),
mokapot/dataset.py:778-793 (`update_labels`), mokapot/model.py:585-600 (`direction=` branch of
`_get_starting_labels`, the producer of `feat_pass`/`best_feat`/`desc` when the user names the
start feature), mokapot/confidence.py:561-574 (entry of `assign_confidence`: scores and
directions default to every collection's own best feature; after the repair bed3e2b), 643-649 (a
lower-is-better score is ranked by its negation).
-/
namespace Mk.Fallback
open Mk

/-- `update_labels(..., desc=True)`: brew compares scores in the higher-is-better direction -/
def leUp (a b : Int) : Bool := Decidable.decide (a ≤ b)

/-- the order `_update_labels(..., desc=d)` ranks by -/
def leDir (desc : Bool) (a b : Int) : Bool := if desc then Decidable.decide (a ≤ b) else Decidable.decide (b ≤ a)

/-- one collection of PSMs as the tail of `brew` sees it (all lists have one entry per row) -/
structure Coll where
  labels : List RawLabel        -- the label column as stored in the file
  feats : List (List Int)       -- the feature columns, by feature index
  modelScores : List Int        -- the scores of the fold models (brew.py:213-249)
  deriving Repr, DecidableEq

/-- `np.zeros(x) for x in data_size` (brew.py:250-252) -/
def zerosLike (c : Coll) : List Int := c.labels.map (fun _ => 0)

/-- the scores that enter the comparison (brew.py:212-252, without the reset path of
pretrained models): the fold models' scores, or zeros when some model is untrained -/
def tailScores (ms : List FoldModel) (colls : List Coll) : List (List Int) :=
  if ms.all (·.trained) then colls.map (·.modelScores) else colls.map zerosLike

/-- rows handed to `_update_labels` for one collection: `zip(psms, scores)` (brew.py:263-271) -/
def scoredRows (sc : List Int) (c : Coll) : List (Int × RawLabel) := sc.zip c.labels

/-- `pred_total` (brew.py:263-273) of given per-collection scores -/
def tailPred (thr : Rat) (colls : List Coll) (scores : List (List Int)) : Option Nat :=
  predTotal leUp thr ((scores.zip colls).map (fun sc => scoredRows sc.1 sc.2))

/-- `_psms.read_data(columns=[feat]).values` (brew.py:280-285) -/
def featColumn (f : Nat) (c : Coll) : List Int := c.feats.getD f []

/-- what is returned for a decision (brew.py:276-289) -/
def returnOf (ms : List FoldModel) (colls : List Coll) : Decision → List (List Int) × List Bool
  | .useModel => (tailScores ms colls, colls.map (fun _ => true))
  | .useFeature f d => (colls.map (featColumn f), colls.map (fun _ => d))

/-- the tail of `brew`: `(scores, descs)`, or `none` when a label column holds a value outside
{−1, 0, 1} (`ValueError` of `convert_targets_column`).  brew.py:212-304 -/
def brewTail (ms : List FoldModel) (thr : Rat) (colls : List Coll) : Option (List (List Int) × List Bool) :=
  (tailPred thr colls (tailScores ms colls)).map (fun pred => returnOf ms colls (decide ms pred))

/-! ## declarative counterparts -/

/-- genuine target: the stored label is 1 / True -/
def isTargetRaw : RawLabel → Bool
  | .bool b => b
  | .int i => i == 1

/-- stored label inside {−1, 0, 1} (or boolean) -/
def labelOk : RawLabel → Bool
  | .bool _ => true
  | .int i => Decidable.decide (-1 ≤ i) && Decidable.decide (i ≤ 1)

/-- **Specification of the accepted-target count**: the rows that are genuine targets and whose
q-value *by the defining formula of C01* is at most `thr`. -/
def acceptedSpec {α : Type} (le : α → α → Bool) (thr : Rat) (xs : List (α × Bool)) : Nat :=
  xs.countP (fun x => x.2 && Decidable.decide (qSpec le xs x.1 ≤ thr))

/-- accepted genuine targets of one collection under given scores -/
def collAccepted (thr : Rat) (sc : List Int) (c : Coll) : Nat :=
  acceptedSpec leUp thr ((scoredRows sc c).map (fun x => (x.1, isTargetRaw x.2)))

/-- accepted genuine targets of given per-collection scores, summed over the collections -/
def totalAccepted (thr : Rat) (colls : List Coll) (scores : List (List Int)) : Nat :=
  ((scores.zip colls).map (fun sc => collAccepted thr sc.1 sc.2)).sum

/-- every stored label of every collection is inside the range -/
def labelsOk (colls : List Coll) : Bool := colls.all (fun c => c.labels.all labelOk)

/-- **Specification of the tail of `brew`** for a returned pair `out`:
either the learned (or zero) scores come back, all marked higher-is-better, and — unless every
model forces its use — they accept at least as many genuine targets at `thr` as *every* fold's
best feature did in training; or a model `m` whose best feature accepted the most targets (strictly
more than those scores accept) supplies the result: every collection's column of that feature and
its direction for every collection. -/
def TailSpec (ms : List FoldModel) (thr : Rat) (colls : List Coll) (out : List (List Int) × List Bool) : Prop :=
  (out = (tailScores ms colls, colls.map (fun _ => true)) ∧
    (ms.all (·.override) = true ∨ ∀ m ∈ ms, m.featPass ≤ totalAccepted thr colls out.1)) ∨
  (ms.all (·.override) = false ∧ ∃ m ∈ ms,
    (∀ m' ∈ ms, m'.featPass ≤ m.featPass) ∧
    totalAccepted thr colls (tailScores ms colls) < m.featPass ∧
    out = (colls.map (featColumn m.bestFeat), colls.map (fun _ => m.desc)))

/-- Boolean form of `TailSpec` for a given way `tot` of counting the accepted genuine targets of
per-collection scores -/
def tailSpecWith (tot : List (List Int) → Nat) (ms : List FoldModel) (colls : List Coll)
    (out : List (List Int) × List Bool) : Bool :=
  (out == (tailScores ms colls, colls.map (fun _ => true)) &&
    (ms.all (·.override) || ms.all (fun m => Decidable.decide (m.featPass ≤ tot out.1)))) ||
  (!ms.all (·.override) && ms.any (fun m =>
    ms.all (fun m' => Decidable.decide (m'.featPass ≤ m.featPass)) &&
    Decidable.decide (tot (tailScores ms colls) < m.featPass) &&
    out == (colls.map (featColumn m.bestFeat), colls.map (fun _ => m.desc))))

/-- `TailSpec` as a Boolean over the declarative count (kernel-evaluable: no sorting) -/
def tailSpecB (ms : List FoldModel) (thr : Rat) (colls : List Coll) (out : List (List Int) × List Bool) : Bool :=
  tailSpecWith (totalAccepted thr colls) ms colls out

/-- the same count through the `tdc` sweep (what the driver evaluates on large tables) -/
def totalAcceptedX (thr : Rat) (colls : List Coll) (scores : List (List Int)) : Nat :=
  ((scores.zip colls).map (fun sc =>
    accepted leUp thr ((scoredRows sc.1 sc.2).map (fun x => (x.1, isTargetRaw x.2))))).sum

/-- decidable version evaluated by the driver on the implementation's output -/
def tailSpecX (ms : List FoldModel) (thr : Rat) (colls : List Coll) (out : List (List Int) × List Bool) : Bool :=
  tailSpecWith (totalAcceptedX thr colls) ms colls out

/-! ## `direction=<feature>` (model.py:585-600): the start feature is given, only its direction is
chosen; `desc` wins ties.  `(feat_pass, desc)`; `best_feat` is that feature. -/
def dirStart (passDesc passAsc : Nat) : Nat × Bool :=
  if passDesc ≥ passAsc then (passDesc, true) else (passAsc, false)

/-- the three attributes `(best_feat, feat_pass, desc)` that `Model.fit` stores when the user names the
start feature `j` (model.py:278-283, 585-600; `best_feat = model.direction`, the *name* of the feature, after the repair 3b46588).
`best_feat` is optional because what `brew` later does with it is a column lookup by name
(`read_data(columns=[feat])`, brew.py:280-285) that only a feature name survives. -/
def dirAttrs (j passDesc passAsc : Nat) : Option Nat × Nat × Bool :=
  (some j, (dirStart passDesc passAsc).1, (dirStart passDesc passAsc).2)

/-- `_psms.read_data(columns=[feat]).values` for a stored `best_feat`: `none` = the reader's type check
rejects a `best_feat` that is not a column name -/
def readBestFeat (bf : Option Nat) (c : Coll) : Option (List Int) := bf.map (fun f => featColumn f c)

/-! ## entry of `assign_confidence` (confidence.py:561-574, 643-649) -/

/-- accepted targets of one feature column in one direction
(`OnDiskPsmDataset._targets_count_by_feature`, dataset.py:566-580) -/
def featCount (thr : Rat) (targets : List Bool) (desc : Bool) (col : List Int) : Nat :=
  accepted (leDir desc) thr (col.zip targets)

/-- `find_best_feature` of one collection: `(feature index, count, desc)`.
`none`: a label out of range (`ValueError`) or nothing accepted (`RuntimeError`).
dataset.py:581-620 -/
def collBest (thr : Rat) (c : Coll) : Option (Nat × Nat × Bool) :=
  (c.labels.mapM decodeLabel).bind (fun ts =>
    bestFeature (c.feats.map (featCount thr ts true)) (c.feats.map (featCount thr ts false)))

/-- `(scores, desc)` of one collection when the caller passes no scores: the values of its best
feature together with the direction `find_best_feature` reports (confidence.py:561-568) -/
def defaultEntry (thr : Rat) (c : Coll) : Option (List Int × Bool) :=
  (collBest thr c).map (fun b => (featColumn b.1 c, b.2.2))

/-- the directions used when the caller passes none: higher-is-better for the caller's own
scores, the best feature's direction for scores chosen by `assign_confidence` itself
(confidence.py:561-574) -/
def entryDescs (scoresGiven : Bool) (descs : Option (List Bool)) (found : List Bool) (n : Nat) : List Bool :=
  descs.getD (if scoresGiven then List.replicate n true else found)

/-- the score every later step ranks by (and reports): confidence.py:643-649 -/
def rankColumn (desc : Bool) (col : List Int) : List Int := col.map (rankScore desc)

/-- the ranking columns of `assign_confidence(psms, scores=None, descs=None)`, one per collection -/
def defaultRanking (thr : Rat) (colls : List Coll) : Option (List (List Int)) :=
  colls.mapM (fun c => (defaultEntry thr c).map (fun e => rankColumn e.2 e.1))

/-- rows of the confidence pipeline (C03 model) ranked by a score of direction `desc` -/
def confInput (desc : Bool) (rows : List Row) : List Row :=
  rows.map (fun r => { r with score := rankScore desc r.score })

end Mk.Fallback
