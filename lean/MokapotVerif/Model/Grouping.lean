/-!
# Model of protein grouping  (mokapot/parsers/fasta.py `read_fasta`, `_group_proteins`)

Import-free.  Protein names live in `α`, peptides in `β`.  A Python `set` is a
list without duplicates (`setAdd` = `set.add`, `List.erase` = `set.remove`);
a Python `dict` is an association list in insertion order.  A group name
`", ".join([match, prot])` is modelled as the list of member names in join
order (`GKey`); a protein that has not been grouped yet appears in the
peptide map under the one-element key `[name]`.  (FASTA names never contain a
blank — `_parse_protein` cuts the header at the first blank — so `", "` never
occurs inside a name and the list ↔ joined-string encoding is injective.)

Everything that depends on set iteration order is a parameter:
`enum n s` is the order in which the set `s` of matching groups is
enumerated at the step with `n` proteins still to come.
-/
namespace Mk.Grouping
variable {α β : Type} [DecidableEq α] [DecidableEq β]

/-- a FASTA entry after digestion: (protein name, peptide set) -/
abbrev Prot (α β : Type) := α × List β
/-- a group name: the member names in the order they were joined -/
abbrev GKey (α : Type) := List α
/-- an item of the `grouped` dict: (group name, peptide set of the group) -/
abbrev Group (α β : Type) := GKey α × List β
/-- an item of the `peptides` dict: (peptide, set of protein / group names) -/
abbrev PepEntry (α β : Type) := β × List (GKey α)

/-- `s.add(x)` on a set kept as a duplicate-free list -/
def setAdd {γ : Type} [DecidableEq γ] (s : List γ) (x : γ) : List γ :=
  if x ∈ s then s else s ++ [x]

/-- `set(l)` -/
def toSet {γ : Type} [DecidableEq γ] (l : List γ) : List γ := l.foldl setAdd []

/-- `d[k] = v` on a dict kept as an association list (position of an existing
key is kept, the value replaced; a new key goes to the end) -/
def dictSet (d : List (Prot α β)) (k : α) (v : List β) : List (Prot α β) :=
  if d.any (fun e => e.1 = k) then d.map (fun e => if e.1 = k then (k, v) else e) else d ++ [(k, v)]

/-- the `proteins` dict built by the loop `if peps: proteins[prot] = peps`.
src: mokapot/parsers/fasta.py:86-103 -/
def buildProteins (entries : List (Prot α β)) : List (Prot α β) :=
  (entries.filter (fun e => !e.2.isEmpty)).foldl (fun d e => dictSet d e.1 e.2) []

/-- all peptides of all entries (the keys of the `peptides` defaultdict) -/
def allPeps (entries : List (Prot α β)) : List β := toSet (entries.flatMap (·.2))

/-- the `peptides` dict built by `peptides[pep].add(prot)`; every protein name
is stored as the one-element key `[name]`.  src: mokapot/parsers/fasta.py:86-103 -/
def pepmap0 (entries : List (Prot α β)) : List (PepEntry α β) :=
  (allPeps entries).map (fun p => (p, toSet ((entries.filter (fun e => p ∈ e.2)).map (fun e => [e.1]))))

/-- state of `_group_proteins`: the `grouped` dict and the (mutated) `peptides` dict -/
structure St (α β : Type) where
  grouped : List (Group α β)
  pepmap : List (PepEntry α β)

/-- `peptides[p]` (a missing key of the defaultdict is the empty set) -/
def pmGet : List (PepEntry α β) → β → List (GKey α)
  | [], _ => []
  | e :: rest, p => if e.1 = p then e.2 else pmGet rest p

/-- `grouped[m]` -/
def gGet : List (Group α β) → GKey α → List β
  | [], _ => []
  | g :: rest, m => if g.1 = m then g.2 else gGet rest m

/-- `set.intersection(*sets)`; never called with no argument because only
proteins with at least one peptide are in the dict -/
def interAll {γ : Type} [DecidableEq γ] : List (List γ) → List γ
  | [] => []
  | s :: rest => s.filter (fun k => rest.all (fun t => decide (k ∈ t)))

/-- `matches = set.intersection(*[peptides[p] for p in peps])`,
`[m for m in matches if m in grouped.keys()]`.  src: fasta.py:541-542 -/
def matchesOf (st : St α β) (peps : List β) : List (GKey α) :=
  (interAll (peps.map (pmGet st.pepmap))).filter (fun m => st.grouped.any (fun g => decide (g.1 = m)))

/-- the three set operations of fasta.py:557-561 on `peptides[pep]`, applied
to the entries whose peptide belongs to the renamed group -/
def renameIn (m new me : GKey α) (gp : List β) (e : PepEntry α β) : PepEntry α β :=
  if e.1 ∈ gp then (e.1, setAdd ((e.2.erase m).erase me) new) else e

/-- one iteration of `for match in matches:` —
`grouped[new_prot] = grouped.pop(match)` and the update of `peptides`.
src: mokapot/parsers/fasta.py:550-561 -/
def applyMatch (prot : α) (st : St α β) (m : GKey α) : St α β :=
  { grouped := st.grouped.filter (fun g => !decide (g.1 = m)) ++ [(m ++ [prot], gGet st.grouped m)],
    pepmap := st.pepmap.map (renameIn m (m ++ [prot]) [prot] (gGet st.grouped m)) }

/-- a protein that matches no group founds a new group.  src: fasta.py:537-547 -/
def addGroup (st : St α β) (pr : Prot α β) : St α β :=
  { st with grouped := st.grouped ++ [([pr.1], pr.2)] }

/-- the body of the loop of `_group_proteins` for one protein; `enum` is the
order in which the set `matches` is enumerated.  src: fasta.py:536-561 -/
def step (enum : List (GKey α) → List (GKey α)) (st : St α β) (pr : Prot α β) : St α β :=
  if st.grouped.isEmpty then addGroup st pr
  else if (matchesOf st pr.2).isEmpty then addGroup st pr
  else (enum (matchesOf st pr.2)).foldl (applyMatch pr.1) st

/-- the loop of `_group_proteins` over the proteins in processing order -/
def groupGo (enum : Nat → List (GKey α) → List (GKey α)) : St α β → List (Prot α β) → St α β
  | st, [] => st
  | st, pr :: rest => groupGo enum (step (enum rest.length) st pr) rest

/-! ### exceptions the loop could raise

`grouped.pop(match)` and `peptides[pep].remove(match)` raise `KeyError` when the
key / element is absent; the model above uses the total `filter` / `erase`.  The
`…Safe` functions say whether a run stays clear of both; `C16_no_keyerror` proves
that every run on a well-formed input does, so the total operations never
default. -/

/-- one iteration of `for match in matches` raises no `KeyError` -/
def applyMatchSafe (st : St α β) (m : GKey α) : Bool :=
  st.grouped.any (fun g => decide (g.1 = m)) &&
    (gGet st.grouped m).all (fun p => decide (m ∈ pmGet st.pepmap p))

def foldSafe (prot : α) : St α β → List (GKey α) → Bool
  | _, [] => true
  | st, m :: ms => applyMatchSafe st m && foldSafe prot (applyMatch prot st m) ms

def stepSafe (enum : List (GKey α) → List (GKey α)) (st : St α β) (pr : Prot α β) : Bool :=
  if st.grouped.isEmpty then true
  else if (matchesOf st pr.2).isEmpty then true
  else foldSafe pr.1 st (enum (matchesOf st pr.2))

def groupGoSafe (enum : Nat → List (GKey α) → List (GKey α)) : St α β → List (Prot α β) → Bool
  | _, [] => true
  | st, pr :: rest => stepSafe (enum rest.length) st pr && groupGoSafe enum (step (enum rest.length) st pr) rest

/-- `sorted(proteins.items(), key=lambda i: len(i[1]))` (fasta.py:112-114) followed by
`sorted(proteins.items(), key=lambda x: -len(x[1]))` (fasta.py:536); both stable -/
def sortProteins (prots : List (Prot α β)) : List (Prot α β) :=
  (prots.mergeSort (fun a b => decide (a.2.length ≤ b.2.length))).mergeSort
    (fun a b => decide (b.2.length ≤ a.2.length))

/-- `unique_peptides`: the peptides whose set has exactly one element.  fasta.py:162-166 -/
def uniquePeps (pm : List (PepEntry α β)) : List (β × GKey α) :=
  (pm.filter (fun e => e.2.length = 1)).map (fun e => (e.1, e.2.headD []))

/-- `shared_peptides`: all other peptides, with the set that is `"; "`-joined.  fasta.py:162-168 -/
def sharedPeps (pm : List (PepEntry α β)) : List (PepEntry α β) :=
  pm.filter (fun e => !decide (e.2.length = 1))

/-- `decoy_map`: every non-decoy protein name ↦ prefix + name.  fasta.py:118-131 -/
def decoyMap (isDecoy : α → Bool) (mkDecoy : α → α) (prots : List (Prot α β)) : List (α × α) :=
  (prots.filter (fun e => !isDecoy e.1)).map (fun e => (e.1, mkDecoy e.1))

/-- `has_decoys`: some target's prefixed name is itself a protein.  fasta.py:127-128 -/
def hasDecoys (isDecoy : α → Bool) (mkDecoy : α → α) (prots : List (Prot α β)) : Bool :=
  prots.any (fun e => !isDecoy e.1 && prots.any (fun d => decide (d.1 = mkDecoy e.1)))

/-- what `read_fasta` hands to `Proteins(...)`, plus the internal `grouped` dict -/
structure Out (α β : Type) where
  peptideMap : List (β × GKey α)
  shared : List (PepEntry α β)
  proteinMap : List (α × α)
  hasDecoys : Bool
  groups : List (Group α β)

/-- `read_fasta` after parsing and digestion, for *some* arrangement `srt` of the
proteins in processing order (any stable or unstable sort by decreasing
size) and any enumeration of the match sets.  `none` = `ValueError("Only decoy
proteins were found")`.  src: mokapot/parsers/fasta.py:82-187 -/
def readFastaOf (isDecoy : α → Bool) (mkDecoy : α → α) (enum : Nat → List (GKey α) → List (GKey α))
    (entries : List (Prot α β)) (srt : List (Prot α β)) : Option (Out α β) :=
  if (buildProteins entries).all (fun e => isDecoy e.1) then none
  else some
    { peptideMap := uniquePeps (groupGo enum ⟨[], pepmap0 entries⟩ srt).pepmap,
      shared := sharedPeps (groupGo enum ⟨[], pepmap0 entries⟩ srt).pepmap,
      proteinMap := decoyMap isDecoy mkDecoy (buildProteins entries),
      hasDecoys := hasDecoys isDecoy mkDecoy (buildProteins entries),
      groups := (groupGo enum ⟨[], pepmap0 entries⟩ srt).grouped }

/-- executable `read_fasta`: stable sorts, sets enumerated in insertion order -/
def readFasta (isDecoy : α → Bool) (mkDecoy : α → α) (entries : List (Prot α β)) : Option (Out α β) :=
  readFastaOf isDecoy mkDecoy (fun _ s => s) entries (sortProteins (buildProteins entries))

/-! ## Declarative specification

The grouping is determined by the inclusion order of the peptide sets alone:
the groups are the *maximal* peptide sets, a protein belongs to every group
whose set contains its own, a peptide is unique iff exactly one maximal set
contains it. -/

/-- `A ⊆ B` as a Boolean -/
def subsetB (A B : List β) : Bool := A.all (fun a => decide (a ∈ B))

/-- the peptide set `S` is maximal among the peptide sets of `P` -/
def isMaxB (P : List (Prot α β)) (S : List β) : Bool :=
  P.all (fun e => !subsetB S e.2 || subsetB e.2 S)

/-- keep `e` as a representative iff its peptide set is maximal and no representative
chosen so far has the same peptide set -/
def specCons (P : List (Prot α β)) (e : Prot α β) (reps : List (Prot α β)) : List (Prot α β) :=
  if isMaxB P e.2 && !reps.any (fun r => subsetB r.2 e.2 && subsetB e.2 r.2) then e :: reps else reps

/-- one representative protein per distinct maximal peptide set -/
def specReps (P : List (Prot α β)) : List (Prot α β) → List (Prot α β)
  | [] => []
  | e :: rest => specCons P e (specReps P rest)

/-- the names of all proteins whose peptide set lies inside `S` -/
def membersOf (P : List (Prot α β)) (S : List β) : GKey α :=
  (P.filter (fun e => subsetB e.2 S)).map (·.1)

/-- the specified groups: (all proteins whose peptide set is inside `S`, `S`) for
every distinct maximal `S` -/
def specGroups (P : List (Prot α β)) : List (Group α β) :=
  (specReps P P).map (fun r => (membersOf P r.2, r.2))

/-- the groups of `gs` containing peptide `p` -/
def groupsOf (gs : List (Group α β)) (p : β) : List (Group α β) :=
  gs.filter (fun g => decide (p ∈ g.2))

/-- unique peptides w.r.t. the groups `gs`: exactly one group contains them -/
def uniqueOf (gs : List (Group α β)) (peps : List β) : List (β × GKey α) :=
  (peps.filter (fun p => (groupsOf gs p).length = 1)).map
    (fun p => (p, ((groupsOf gs p).map (·.1)).headD []))

/-- shared peptides w.r.t. the groups `gs`, with all the groups containing them -/
def sharedOf (gs : List (Group α β)) (peps : List β) : List (PepEntry α β) :=
  (peps.filter (fun p => !decide ((groupsOf gs p).length = 1))).map
    (fun p => (p, (groupsOf gs p).map (·.1)))

/-- specified unique peptides: exactly one specified group contains them -/
def specUnique (P : List (Prot α β)) : List (β × GKey α) := uniqueOf (specGroups P) (allPeps P)

/-- specified shared peptides with all the specified groups containing them -/
def specShared (P : List (Prot α β)) : List (PepEntry α β) := sharedOf (specGroups P) (allPeps P)

/-- well-formed input: distinct protein names, every peptide set non-empty and
duplicate-free (a Python set).  Duplicate names (dict overwrite in
fasta.py:101) are outside the property. -/
def wfB (P : List (Prot α β)) : Bool :=
  decide ((P.map (·.1)).Nodup) && P.all (fun e => !e.2.isEmpty && decide (e.2.Nodup))

/-! ## Declarative specification, relational form

What the property text says, stated on an arbitrary candidate result.  No
reference to processing order, to dict order or to set enumeration. -/

/-- well-formed input (Prop form of `wfB`) -/
structure WF (P : List (Prot α β)) : Prop where
  names : (P.map (·.1)).Nodup
  peps : ∀ q S, (q, S) ∈ P → S ≠ [] ∧ S.Nodup

/-- `g` is a maximal-subset grouping of the proteins `P`: every group's peptide
set is that of one of its members, its members are *exactly* the proteins whose
peptide set lies inside it, every protein is in a group, and no group's
peptide set is contained in another group's. -/
structure IsGrouping (P : List (Prot α β)) (g : List (Group α β)) : Prop where
  keys_nodup : (g.map (·.1)).Nodup
  member_nodup : ∀ k S, (k, S) ∈ g → k.Nodup
  founder : ∀ k S, (k, S) ∈ g → ∃ q, q ∈ k ∧ (q, S) ∈ P
  members : ∀ k S, (k, S) ∈ g → ∀ q, q ∈ k ↔ ∃ Sq, (q, Sq) ∈ P ∧ Sq ⊆ S
  covered : ∀ q Sq, (q, Sq) ∈ P → ∃ k S, (k, S) ∈ g ∧ q ∈ k
  anti : ∀ k1 S1 k2 S2, (k1, S1) ∈ g → (k2, S2) ∈ g → S1 ⊆ S2 → k1 = k2

/-- `uniq` / `shared` are the consistent peptide maps of the grouping `g` -/
structure IsPeptideMap (P : List (Prot α β)) (g : List (Group α β))
    (uniq : List (β × GKey α)) (shared : List (PepEntry α β)) : Prop where
  unique_iff : ∀ p k, (p, k) ∈ uniq ↔
    (∃ S, (k, S) ∈ g ∧ p ∈ S) ∧ ∀ k' S', (k', S') ∈ g → p ∈ S' → k' = k
  shared_iff : ∀ p, p ∈ shared.map (·.1) ↔
    ∃ k1 S1 k2 S2, (k1, S1) ∈ g ∧ (k2, S2) ∈ g ∧ k1 ≠ k2 ∧ p ∈ S1 ∧ p ∈ S2
  shared_all : ∀ p ks, (p, ks) ∈ shared → ks.Nodup ∧ ∀ k, k ∈ ks ↔ ∃ S, (k, S) ∈ g ∧ p ∈ S
  keys_nodup : (uniq.map (·.1) ++ shared.map (·.1)).Nodup
  recorded : ∀ p, (p ∈ uniq.map (·.1) ∨ p ∈ shared.map (·.1)) ↔ ∃ q S, (q, S) ∈ P ∧ p ∈ S

/-- the same proteins with the same peptide sets, in any entry order and with any
enumeration of each peptide set -/
def SameInput (P P' : List (Prot α β)) : Prop :=
  (∀ q S, (q, S) ∈ P → ∃ S', (q, S') ∈ P' ∧ ∀ p, p ∈ S ↔ p ∈ S') ∧
  (∀ q S', (q, S') ∈ P' → ∃ S, (q, S) ∈ P ∧ ∀ p, p ∈ S ↔ p ∈ S')

/-- Boolean test for `SameInput` -/
def sameInputB (P P' : List (Prot α β)) : Bool :=
  P.all (fun e => P'.any (fun e' => decide (e'.1 = e.1) && subsetB e.2 e'.2 && subsetB e'.2 e.2)) &&
  P'.all (fun e' => P.any (fun e => decide (e.1 = e'.1) && subsetB e.2 e'.2 && subsetB e'.2 e.2))

/-- the same groups as sets of (member set, peptide set) -/
def SameGroups (g g' : List (Group α β)) : Prop :=
  (∀ k S, (k, S) ∈ g → ∃ k' S', (k', S') ∈ g' ∧ (∀ q, q ∈ k ↔ q ∈ k') ∧ ∀ p, p ∈ S ↔ p ∈ S') ∧
  (∀ k' S', (k', S') ∈ g' → ∃ k S, (k, S) ∈ g ∧ (∀ q, q ∈ k ↔ q ∈ k') ∧ ∀ p, p ∈ S ↔ p ∈ S')

end Mk.Grouping
