/-!
# Model of in-silico digestion  (mokapot/parsers/fasta.py: `digest`, `_cleavage_sites`, `_cleave`)

Import-free.  A protein sequence is a `List Char`, a peptide too.  The result of
`_cleave` is a Python `set`; the model returns the list of insertions (with
repetitions, in insertion order) and every theorem is about *membership*, so the
set iteration order never matters.

The enzyme is a residue class with an optional negative single-residue
look-ahead, i.e. the regular expressions `[KR]`, `K`, `[FWY]`, `[KR](?!P)`,
`[FLWY](?![PD])` …: `cls` are the residues after which the enzyme cuts,
`notNext` the residues that block the cut when they follow (empty = no
look-ahead).  `re.finditer` itself is trusted (DESIGN §3); the model states what
it returns for this class of patterns.
-/
namespace Mk

abbrev Pep := List Char

/-- residue-class enzyme with optional negative look-ahead: `[cls](?![notNext])` -/
structure Enzyme where
  cls : List Char
  notNext : List Char

/-- does the one-residue pattern match at a residue `c` that is followed by `rest`? -/
def isCut (e : Enzyme) (c : Char) (rest : List Char) : Bool :=
  e.cls.contains c && !(rest.head?.any (fun d => e.notNext.contains d))

/-- `[m.end() for m in enzyme_regex.finditer(sequence)]`, scanning left to right;
`off` is the number of residues already consumed.
src: mokapot/parsers/fasta.py:439-441 -/
def matchEnds (e : Enzyme) : Nat → List Char → List Nat
  | _, [] => []
  | off, c :: rest =>
    if isCut e c rest then (off + 1) :: matchEnds e (off + 1) rest else matchEnds e (off + 1) rest

/-- `_cleavage_sites`: `[0] + match ends + [len(sequence)]` (the last residue being a
cleavage residue makes `len(sequence)` appear twice).
src: mokapot/parsers/fasta.py:419-443 -/
def cleavageSites (e : Enzyme) (seq : List Char) : List Nat :=
  0 :: (matchEnds e 0 seq ++ [seq.length])

/-- Python slice `sequence[a:b]` for `0 ≤ a, b` -/
def slice (seq : List Char) (a b : Nat) : Pep := (seq.take b).drop a

/-- the clip branch: `if clip_nterm_met and not start_idx and peptide.startswith("M"):
if len(peptide[1:]) >= min_length: peptides.add(peptide[1:])`
src: mokapot/parsers/fasta.py:494-496 -/
def clipPeps (lo : Nat) (clip : Bool) (startIdx : Nat) (pep : Pep) : List Pep :=
  if clip && startIdx == 0 && pep.head? == some 'M' then
    (if (pep.drop 1).length ≥ lo then [pep.drop 1] else [])
  else []

/-- the semi loop `for idx in range(1, len(peptide))` over the remaining indices
`idxs`, with its `break` (too short: stop the loop) and its `continue` (too long:
skip) and the two additions `peptide[idx:]`, `peptide[:-idx]`.
src: mokapot/parsers/fasta.py:499-510 -/
def semiLoop (lo hi : Nat) (pep : Pep) : List Nat → List Pep
  | [] => []
  | idx :: rest =>
    if pep.length - idx < lo then []
    else if pep.length - idx > hi then semiLoop lo hi pep rest
    else pep.drop idx :: pep.take (pep.length - idx) :: semiLoop lo hi pep rest

/-- body of the inner loop once `peptide = sequence[start_site:end_site]` is known:
length filter, the peptide itself, clip branch, semi branch.
src: mokapot/parsers/fasta.py:488-510 -/
def pepsOf (lo hi : Nat) (semi clip : Bool) (startIdx : Nat) (pep : Pep) : List Pep :=
  if pep.length < lo || pep.length > hi then []
  else pep :: (clipPeps lo clip startIdx pep
        ++ (if semi then semiLoop lo hi pep (List.range' 1 (pep.length - 1)) else []))

/-- one iteration of the inner loop (`diff_idx = d`): `end_idx = start_idx + d`,
`continue` when it is out of range, else slice and handle the peptide.
src: mokapot/parsers/fasta.py:483-489 -/
def pepsAt (seq : List Char) (sites : List Nat) (lo hi : Nat) (semi clip : Bool)
    (startIdx startSite d : Nat) : List Pep :=
  (sites[startIdx + d]?).toList.flatMap
    (fun endSite => pepsOf lo hi semi clip startIdx (slice seq startSite endSite))

/-- `_cleave`: `for start_idx, start_site in enumerate(sites): for diff_idx in
range(1, missed_cleavages + 2): …`.  src: mokapot/parsers/fasta.py:446-512 -/
def cleave (seq : List Char) (sites : List Nat) (mc lo hi : Nat) (semi clip : Bool) : List Pep :=
  sites.zipIdx.flatMap (fun si =>
    (List.range' 1 (mc + 1)).flatMap (fun d => pepsAt seq sites lo hi semi clip si.2 si.1 d))

/-- `mokapot.digest`.  src: mokapot/parsers/fasta.py:263-309 -/
def digest (e : Enzyme) (seq : List Char) (mc lo hi : Nat) (clip semi : Bool) : List Pep :=
  cleave seq (cleavageSites e seq) mc lo hi semi clip

/-! ## Specification (declarative, decidable) -/

/-- a regex match ends at position `p`: residue `p-1` is in the class and residue
`p` (if any) is not a blocking residue -/
def endsAt (e : Enzyme) (seq : List Char) (p : Nat) : Bool :=
  decide (0 < p) && (seq[p - 1]?).any (fun c => e.cls.contains c)
    && !((seq[p]?).any (fun d => e.notNext.contains d))

/-- cleavage positions of the sequence: both ends and every match end -/
def isSite (e : Enzyme) (seq : List Char) (p : Nat) : Bool :=
  p == 0 || p == seq.length || endsAt e seq p

/-- number of cleavage positions strictly between `a` and `b` (= missed cleavages) -/
def missed (e : Enzyme) (seq : List Char) (a b : Nat) : Nat :=
  (List.range b).countP (fun p => decide (a < p) && isSite e seq p)

/-- `seq[a:b]` is a fully enzymatic peptide within the limits -/
def Enzymatic (e : Enzyme) (seq : List Char) (mc lo hi a b : Nat) : Prop :=
  a < b ∧ b ≤ seq.length ∧ isSite e seq a = true ∧ isSite e seq b = true
    ∧ missed e seq a b ≤ mc ∧ lo ≤ b - a ∧ b - a ≤ hi

instance (e : Enzyme) (seq : List Char) (mc lo hi a b : Nat) : Decidable (Enzymatic e seq mc lo hi a b) := by
  unfold Enzymatic; infer_instance

/-- **Specification of C17**: `p` is in the digest iff it is a fully enzymatic
peptide `seq[a:b]` within the limits, or (clip) such a peptide at `a = 0` starting
with `M`, without the `M`, still at least `lo` long, or (semi) a proper suffix
`seq[a+k:b]` or proper prefix `seq[a:b-k]` of such a peptide, at least `lo` long. -/
def DigestSpec (e : Enzyme) (seq : List Char) (mc lo hi : Nat) (clip semi : Bool) (p : Pep) : Prop :=
  ∃ a b, Enzymatic e seq mc lo hi a b ∧
    (p = slice seq a b
      ∨ (clip = true ∧ a = 0 ∧ seq.head? = some 'M' ∧ lo ≤ b - 1 ∧ p = slice seq 1 b)
      ∨ (semi = true ∧ ∃ k, 1 ≤ k ∧ k < b - a ∧ lo ≤ b - a - k
            ∧ (p = slice seq (a + k) b ∨ p = slice seq a (b - k))))

/-- executable enumeration of the specification (used by the driver op `digestspec`) -/
def specAt (e : Enzyme) (seq : List Char) (mc lo hi : Nat) (clip semi : Bool) (a b : Nat) : List Pep :=
  if Enzymatic e seq mc lo hi a b then
    slice seq a b
      :: ((if clip && a == 0 && seq.head? == some 'M' && decide (lo ≤ b - 1) then [slice seq 1 b] else [])
        ++ (if semi then
              (List.range (b - a)).flatMap (fun k =>
                if decide (1 ≤ k) && decide (lo ≤ b - a - k) then [slice seq (a + k) b, slice seq a (b - k)]
                else [])
            else []))
  else []

def specList (e : Enzyme) (seq : List Char) (mc lo hi : Nat) (clip semi : Bool) : List Pep :=
  (List.range (seq.length + 1)).flatMap (fun a =>
    (List.range (seq.length + 1)).flatMap (fun b => specAt e seq mc lo hi clip semi a b))

/-! ## All length bounds: `min_length = 0`

`sites` ends with `len(sequence)` a second time when the last residue is a match
end (or the sequence is empty: `[0, 0]`).  The pair of these two equal sites is a
(start, end) pair of the double loop with `diff_idx = 1`; its slice is the empty
string, which passes the length filter exactly when `min_length = 0`.  No other
pair of sites is out of order, so this is the only difference to `DigestSpec`. -/

/-- `len(sequence)` occurs twice in the list of sites -/
def endDup (e : Enzyme) (seq : List Char) : Bool :=
  seq.length == 0 || endsAt e seq seq.length

/-- **Specification of C17 for all length bounds** (`min_length = 0` included): the
peptides of `DigestSpec`, and the empty peptide when `min_length = 0` and the
sequence end is itself a match end (or the sequence is empty). -/
def DigestSpec0 (e : Enzyme) (seq : List Char) (mc lo hi : Nat) (clip semi : Bool) (p : Pep) : Prop :=
  DigestSpec e seq mc lo hi clip semi p ∨ (lo = 0 ∧ p = [] ∧ endDup e seq = true)

/-- executable enumeration of `DigestSpec0` (driver op `digestspec0`) -/
def specList0 (e : Enzyme) (seq : List Char) (mc lo hi : Nat) (clip semi : Bool) : List Pep :=
  specList e seq mc lo hi clip semi ++ (if lo == 0 && endDup e seq then [[]] else [])

/-! ## The entry point called with its defaults -/

/-- `mokapot.digest(sequence)`: `enzyme_regex="[KR]"`, `missed_cleavages=0`,
`clip_nterm_methionine=False`, `min_length=6`, `max_length=50`, `semi=False`.
src: mokapot/parsers/fasta.py:263-271 -/
def digestDefault (seq : List Char) : List Pep :=
  digest ⟨['K', 'R'], []⟩ seq 0 6 50 false false

end Mk
