import MokapotVerif.Model.Pin
/-!
# Extension of the PIN / Parquet parsing model  (gap analysis: GAPS-C10.md)

Import-free (core Lean + `Model/Pin.lean`).  Four additions, each following the
data flow of the code and leaving `Model/Pin.lean` untouched:

* **keyword arguments** — the declarative specification of a call that names
  the optional columns (`filename_column=` … `charge_column=`): which column
  every role resolves to (`specOptional`), when the call is admissible
  (`WellFormedArgs`) and the dataset it must return (`specDatasetArgs`);
* **several files** — `read_pin` = `[read_percolator(f, …) for f in tuplize(pin_files)]`
  (`readPinSched`), the argument forms of `tuplize`;
* **row index** — the index of `spectra_dataframe` (`pd.concat(df_spectra_list)`
  keeps the running row numbers of the row chunks): `spectraIndexSched`;
* **numeric label columns** — `convert_targets_column` on a float column:
  `astype(int)` truncates toward zero, values that are not whole numbers are
  rejected (`convertTargetsNum`).
-/
namespace Mk.Pin

/-! ## 1. Keyword arguments: declarative specification -/

/-- the column an optional role resolves to: the name given by the caller
(`col or default`, exact letter case), else the first column whose lower-cased
name is the default.  Declarative counterpart of helpers.py:114-150. -/
def specOptional (a : Option Name) (hdr : List Name) (q : Name) : Option Name :=
  if a.isSome then some (orDefault a q) else pick hdr q

/-- the argument of an optional role is admissible: a given name is a column
of the file (exact letter case); without a name, the default occurs at most
once up to letter case. -/
def argOk (a : Option Name) (hdr : List Name) (q : Name) : Bool :=
  if a.isSome then hdr.contains (orDefault a q) else decide (countLower hdr q ≤ 1)

/-- the columns of all roles, declaratively -/
def specClassified (args : PinArgs) (hdr : List Name) : Classified :=
  { specid := pickD hdr nSpecid, peptides := pickD hdr nPeptide, proteins := pickD hdr nProteins,
    labels := pickD hdr nLabel, scan := pickD hdr nScannr,
    modpep := hdr.filter (fun c => lowerName c == nModifiedpeptide),
    precursors := hdr.filter (fun c => lowerName c == nPrecursor),
    pepgroups := hdr.filter (fun c => lowerName c == nPeptidegroup),
    filename := specOptional args.filename hdr nFilename,
    calcmass := specOptional args.calcmass hdr nCalcmass,
    expmass := specOptional args.expmass hdr nExpmass,
    rt := specOptional args.rt hdr nRetTime,
    charge := specOptional args.charge hdr nChargeColumn }

/-- more than one column starts with "charge" (any letter case) -/
def severalCharge (hdr : List Name) : Bool :=
  decide (1 < hdr.countP (fun x => nCharge.isPrefixOf (lowerName x)))

/-- a column is reserved (never a feature) in a call with keyword arguments:
one of the five required columns or a rollup-level column (by lower-cased
name), the column chosen for file name / calculated mass / measured mass /
retention time, or the chosen charge column when several columns start with
"charge". -/
def reservedArgs (args : PinArgs) (hdr : List Name) (c : Name) : Bool :=
  (requiredNames ++ levelNames).contains (lowerName c)
    || specOptional args.filename hdr nFilename == some c
    || specOptional args.calcmass hdr nCalcmass == some c
    || specOptional args.expmass hdr nExpmass == some c
    || specOptional args.rt hdr nRetTime == some c
    || (specOptional args.charge hdr nChargeColumn == some c && severalCharge hdr)

/-- spectrum key: chosen file, scan, chosen retention time, chosen measured mass -/
def specSpectrumArgs (args : PinArgs) (hdr : List Name) : List Name :=
  (specOptional args.filename hdr nFilename).toList ++ [pickD hdr nScannr]
    ++ (specOptional args.rt hdr nRetTime).toList ++ (specOptional args.expmass hdr nExpmass).toList

/-- metadata columns in the documented order -/
def specMetadataArgs (args : PinArgs) (hdr : List Name) : List Name :=
  [nSpecid, nScannr, nPeptide, nProteins, nLabel].map (pickD hdr)
    ++ levelNames.flatMap (fun q => hdr.filter (fun c => lowerName c == q))
    ++ (if severalCharge hdr then (specOptional args.charge hdr nChargeColumn).toList else [])
    ++ (specOptional args.filename hdr nFilename).toList ++ (specOptional args.calcmass hdr nCalcmass).toList
    ++ (specOptional args.expmass hdr nExpmass).toList ++ (specOptional args.rt hdr nRetTime).toList

/-- **Specification of a call with keyword arguments**: the dataset it must return. -/
def specDatasetArgs (args : PinArgs) (t : Table) : Dataset :=
  let hdr := t.header
  { columns := hdr
    target := pickD hdr nLabel
    spectrum := specSpectrumArgs args hdr
    peptide := pickD hdr nPeptide
    protein := pickD hdr nProteins
    features := hdr.filter (fun c => !reservedArgs args hdr c && !hasMissing t c)
    metadata := specMetadataArgs args hdr
    level := [pickD hdr nPeptide] ++ levelNames.flatMap (fun q => hdr.filter (fun c => lowerName c == q))
    filename := specOptional args.filename hdr nFilename
    scan := pickD hdr nScannr
    specid := pickD hdr nSpecid
    calcmass := specOptional args.calcmass hdr nCalcmass
    expmass := specOptional args.expmass hdr nExpmass
    rt := specOptional args.rt hdr nRetTime
    charge := specOptional args.charge hdr nChargeColumn
    spectra := (specSpectrumArgs args hdr).map (fun c => (c, t.column c))
    targets := (t.column (pickD hdr nLabel)).map Cell.isTarget }

/-- **Admissible call**: distinct column names, all columns of the same positive
length, every required column exactly once up to letter case, every optional
role admissible (`argOk`), the identifier columns (spectrum key and label)
pairwise distinct — a call that names the same column for two identifier roles
is outside the property —, labels +1 or -1, 1/0 or booleans. -/
structure WellFormedArgs (args : PinArgs) (t : Table) : Prop where
  nodup : t.header.Nodup
  rows : ∀ p ∈ t.cols, p.2.length = t.nrows
  nonempty : 0 < t.nrows
  required : ∀ q ∈ requiredNames, countLower t.header q = 1
  filename : argOk args.filename t.header nFilename = true
  calcmass : argOk args.calcmass t.header nCalcmass = true
  expmass : argOk args.expmass t.header nExpmass = true
  rt : argOk args.rt t.header nRetTime = true
  charge : argOk args.charge t.header nChargeColumn = true
  distinct : (specSpectrumArgs args t.header ++ [pickD t.header nLabel]).Nodup
  label : labelOk (t.column (pickD t.header nLabel)) = true

/-- executable version of `WellFormedArgs` (used by the driver) -/
def wellFormedArgsB (args : PinArgs) (t : Table) : Bool :=
  decide t.header.Nodup && t.cols.all (fun p => p.2.length == t.nrows) && decide (0 < t.nrows)
    && requiredNames.all (fun q => countLower t.header q == 1)
    && argOk args.filename t.header nFilename && argOk args.calcmass t.header nCalcmass
    && argOk args.expmass t.header nExpmass && argOk args.rt t.header nRetTime
    && argOk args.charge t.header nChargeColumn
    && decide (specSpectrumArgs args t.header ++ [pickD t.header nLabel]).Nodup
    && labelOk (t.column (pickD t.header nLabel))

/-! ## 2. Several files: `read_pin` -/

/-- the argument forms of `read_pin(pin_files, …)` -/
inductive PinFiles where
  /-- a single `Path` (not iterable: `tuplize` wraps it) -/
  | one (t : Table)
  /-- a list or tuple of paths -/
  | many (ts : List Table)

/-- `tuplize(pin_files)`. src: mokapot/utils.py:64-75 -/
def tuplizeFiles : PinFiles → List Table
  | .one t => [t]
  | .many ts => ts

/-- the list comprehension of `read_pin`: the files are parsed one after the
other, in the order given; the first exception ends the call (later files are
not read).  `orders i` is the completion order of the scan tasks of file `i`.
src: mokapot/parsers/pin.py:100-111 -/
def readPinFrom (args : PinArgs) (c r : Nat)
    (orders : Nat → List (List Name) → List (List Name)) : Nat → List Table → Except PinErr (List Dataset)
  | _, [] => .ok []
  | i, t :: ts =>
    (readPercolatorSched args c r t (orders i)).bind fun d =>
      (readPinFrom args c r orders (i + 1) ts).bind fun ds => .ok (d :: ds)

/-- `read_pin`. src: mokapot/parsers/pin.py:31-111 -/
def readPinSched (args : PinArgs) (c r : Nat) (orders : Nat → List (List Name) → List (List Name))
    (files : PinFiles) : Except PinErr (List Dataset) :=
  readPinFrom args c r orders 0 (tuplizeFiles files)

/-- executable instance: every file's tasks complete in task order -/
def readPin (args : PinArgs) (c r : Nat) (files : PinFiles) : Except PinErr (List Dataset) :=
  readPinSched args c r (fun _ => id) files

/-! ## 3. The row index of the spectra data frame -/

/-- the row labels of the `k`-th row chunk of a file with `n` rows read `r` rows
at a time: pandas / the Parquet reader number the rows of the file consecutively
(`k*r … min((k+1)*r, n) - 1`).  src: mokapot/tabular_data.py:220-229, 315-325 -/
def chunkIndex (n r k : Nat) : List Nat := ((List.range n).drop (k * r)).take r

/-- the indexes of the frames `feature[spectra]` a task appends to
`df_spectra_list`.  src: mokapot/parsers/pin.py:285-287 -/
def scanIndexFrames (ids : List Name) (n r m : Nat) (chunk : List Name) : List (List Nat) :=
  if hasIds ids chunk then (List.range m).map (chunkIndex n r) else []

/-- the index of `pd.concat(df_spectra_list)` (row labels are kept, not renumbered).
src: mokapot/parsers/pin.py:222-234 -/
def spectraIndexSched (args : PinArgs) (c r : Nat) (t : Table)
    (order : List (List Name) → List (List Name)) : Except PinErr (List Nat) :=
  (lookupColumns args t.header).bind fun k =>
    if k.spectra.any (fun s => s.isEmpty) then .error .emptyName
    else if c = 0 ∨ r = 0 then .error .chunkSize
    else
      .ok (((order (featSlices k t.header c)).flatMap
        (scanIndexFrames (k.spectra ++ [k.labels]) t.nrows r (numRowChunks t.nrows r))).flatten)

def spectraIndex (args : PinArgs) (c r : Nat) (t : Table) : Except PinErr (List Nat) :=
  spectraIndexSched args c r t id

/-! ## 4. Numeric (float) label columns -/

/-- a cell of the label column as pandas / pyarrow decode it: a float64 column
holds `num / den` (`den > 0`); the other kinds as in `Cell`. -/
inductive LCell where
  | na
  | int (i : Int)
  | bool (b : Bool)
  | str (s : Name)
  | frac (num : Int) (den : Nat)
  deriving DecidableEq, Repr

def LCell.ofCell : Cell → LCell
  | .na => .na
  | .int i => .int i
  | .bool b => .bool b
  | .str s => .str s

def LCell.isBool : LCell → Bool
  | .bool _ => true
  | _ => false

def LCell.boolVal : LCell → Bool
  | .bool b => b
  | _ => false

/-- the cell can be cast by `astype(int)` -/
def LCell.isNum : LCell → Bool
  | .int _ => true
  | .frac _ _ => true
  | _ => false

/-- `astype(int)`: a float is truncated toward zero. src: mokapot/utils.py:210 -/
def LCell.trunc : LCell → Int
  | .int i => i
  | .frac n d => Int.tdiv n d
  | _ => 0

/-- the numeric value is exactly 1, 0 or -1 -/
def LCell.isPm1 : LCell → Bool
  | .int i => i == 1 || i == 0 || i == -1
  | .frac n d => n == d || n == 0 || n == -(d : Int)
  | _ => false

/-- `labels == column` for one cell: the truncated value equals the value (a
float that is a whole number; integers always). src: mokapot/utils.py:212-214 -/
def LCell.isWhole : LCell → Bool
  | .frac n d => Int.tdiv n d * (d : Int) == n
  | _ => true

/-- the row is a target: `true`, the integer 1 or the float 1.0 -/
def LCell.isTarget : LCell → Bool
  | .bool b => b
  | .int i => i == 1
  | .frac n d => n == (d : Int)
  | _ => false

/-- `convert_targets_column` as it is (after the repair `3dafb34`), on a column
that may hold floats: a boolean column is kept; otherwise the column is cast
with `astype(int)` (truncation toward zero), a float column with a value that
is not a whole number is rejected (`fractional`), the range test and the
comparison with 1 are made on the cast values.
src: mokapot/utils.py:183-222 -/
def convertTargetsNum (cells : List LCell) : Except PinErr (List Bool) :=
  if cells.all LCell.isBool then .ok (cells.map LCell.boolVal)
  else if !cells.all LCell.isNum then .error .labelCast
  else if cells.any (fun c => !c.isWhole) || cells.any (fun c => c.trunc < -1)
      || cells.any (fun c => c.trunc > 1) then
    .error .labelRange
  else .ok (cells.map (fun c => c.trunc == 1))

/-- the denominators of the float cells are positive (what the driver sends) -/
def LCell.denPos : LCell → Bool
  | .frac _ d => decide (0 < d)
  | _ => true

/-- the clause of the property for numeric label columns: "labels +1 or -1, 1 or 0, or
booleans; an out-of-range label is rejected" -/
def labelOkNum (cells : List LCell) : Bool := cells.all LCell.isBool || cells.all LCell.isPm1

end Mk.Pin
