import MokapotVerif.Model.Pepxml
/-!
# Third pass: the element tree under the abstract document  (mokapot/parsers/pepxml.py)

`Model/Pepxml.lean` starts from the *abstract document* (runs → spectra → search results → hits → the three
kinds of children): the tree of a schema-conforming file, flattened by hand.  The code, however, reaches every
level with `Element.iter(tag)` — **all descendants** (the element itself included) in document order, at any
depth — and reads attributes with `Element.get`, which answers `None` for an absent attribute; the runs come
from `etree.iterparse(tag=…)`, i.e. in **end-tag order**.  This file models that layer: a generic element tree
(`Elem`), `iter` (pre-order), `iterparse` (post-order), `get`, and the abstraction `runsOfTree` that the
generators of lines 170-241 and `_parse_psm` (262-307) perform while they walk the tree.  `treeRows` is the
real path `tree → records`; `Props/C20Tree.lean` proves that on the tree of an abstract document it is the flat
model (`fileRows`), and what it is on any other tree.

Abstractions kept (stated in DESIGN §A.5 for C20): a tag is its local name (`{*}name` matches every
namespace); an attribute value is already converted (`AVal`: the text, or the number that `int()` / `float()`
make of it — the text → number conversion itself stays outside the model); comments, processing instructions
and character data are not elements and carry no tag.
-/
namespace Mk.Pepxml

/-- an attribute value as the code uses it: the string, or what `int(text)` / `float(text)` return, or the
literal of a score value (`Num`) -/
inductive AVal where
  | text (s : Str)
  | int (i : Int)
  | rat (q : Rat)
  | num (n : Num)
  deriving Repr

/-- an XML element: local name, attributes, child elements in document order -/
inductive Elem where
  | node (tag : String) (attrs : List (String × AVal)) (kids : List Elem)
  deriving Repr

def Elem.tag : Elem → String
  | .node t _ _ => t
def Elem.attrs : Elem → List (String × AVal)
  | .node _ a _ => a
def Elem.kids : Elem → List Elem
  | .node _ _ k => k

mutual
/-- the element and all its descendants in document (pre-)order: what `Element.iter()` visits.
src: mokapot/parsers/pepxml.py:211, 239-240, 289, 293 -/
def Elem.pre : Elem → List Elem
  | .node t a ks => .node t a ks :: Elem.preList ks
def Elem.preList : List Elem → List Elem
  | [] => []
  | e :: es => e.pre ++ Elem.preList es
end

mutual
/-- the element and all its descendants in end-tag (post-)order: the order of `iterparse` end events.
src: mokapot/parsers/pepxml.py:170 -/
def Elem.post : Elem → List Elem
  | .node t a ks => Elem.postList ks ++ [.node t a ks]
def Elem.postList : List Elem → List Elem
  | [] => []
  | e :: es => e.post ++ Elem.postList es
end

/-- `element.iter("{*}t1", "{*}t2", …)`.  src: mokapot/parsers/pepxml.py:211, 239-240, 289, 293 -/
def Elem.iter (tags : List String) (e : Elem) : List Elem :=
  e.pre.filter (fun x => tags.contains x.tag)

/-- `etree.iterparse(file, tag="{*}t")`: the matching elements, each delivered when it ends.
src: mokapot/parsers/pepxml.py:170 -/
def Elem.iterparse (tag : String) (root : Elem) : List Elem :=
  root.post.filter (fun x => x.tag == tag)

/-- what walking the tree can end in instead of records: `raises` = the code raises `TypeError` /
`AttributeError` (an attribute it needs is absent); `unmodelled` = the code goes on with a value the flat
model has no place for (`None` as peptide / score name / score value, a negative position, a value of the
wrong kind) -/
inductive TErr where
  | raises
  | unmodelled
  deriving Repr, DecidableEq

/-- `element.get(k)`.  src: mokapot/parsers/pepxml.py:205-206, 234-237, 263-265, 270-280, 294-295, 302, 307 -/
def Elem.get (e : Elem) (k : String) : Option AVal := e.attrs.lookup k

def avText : AVal → Except TErr Str
  | .text s => .ok s
  | _ => .error .unmodelled
def avInt : AVal → Except TErr Int
  | .int i => .ok i
  | _ => .error .unmodelled
def avRat : AVal → Except TErr Rat
  | .rat q => .ok q
  | .int i => .ok (i : Rat)
  | _ => .error .unmodelled
def avNum : AVal → Except TErr Num
  | .num n => .ok n
  | _ => .error .unmodelled

/-- an attribute the code cannot do without: `int(None)`, `float(None)`, `None.split`, `None.endswith`,
`"[" + None` all raise.  src: mokapot/parsers/pepxml.py:205-207, 234-237, 263, 265, 294-296, 302 -/
def need {α : Type} (conv : AVal → Except TErr α) (v : Option AVal) : Except TErr α :=
  (v.map conv).getD (.error .raises)

/-- an attribute the code stores as it comes (`None` included): absent = outside the flat model.
src: mokapot/parsers/pepxml.py:264, 307 -/
def keep {α : Type} (conv : AVal → Except TErr α) (v : Option AVal) : Except TErr α :=
  (v.map conv).getD (.error .unmodelled)

/-- `try: … int(psm_info.get(k)) except TypeError: pass`.  src: mokapot/parsers/pepxml.py:269-282 -/
def optional {α : Type} (conv : AVal → Except TErr α) (v : Option AVal) : Except TErr (Option α) :=
  (v.map (fun a => (conv a).map some)).getD (.ok none)

def natOfInt (i : Int) : Except TErr Nat := if 0 ≤ i then .ok i.toNat else .error .unmodelled

/-- `int(mod.get("position"))`, `mod.get("mass")`.  src: mokapot/parsers/pepxml.py:294-295 -/
def modOfElem (e : Elem) : Except TErr Mod :=
  (need avInt (e.get "position")).bind fun p =>
  (natOfInt p).bind fun pos =>
  (need avText (e.get "mass")).bind fun mass =>
  .ok { pos := pos, mass := mass }

/-- one `modification_info` element: its `mod_aminoacid_mass` descendants.  src: mokapot/parsers/pepxml.py:290-299 -/
def modInfoOfElem (e : Elem) : Except TErr Child :=
  ((e.iter ["mod_aminoacid_mass"]).mapM modOfElem).map Child.mods

/-- `element.get("protein")` of an `alternative_protein`.  src: mokapot/parsers/pepxml.py:301-302 -/
def altOfElem (e : Elem) : Except TErr Child :=
  (need avText (e.get "protein")).map Child.alt

def scoreName (s : Str) : String := String.ofList s

/-- `psm[element.get("name")] = element.get("value")`.  src: mokapot/parsers/pepxml.py:306-307 -/
def scoreOfElem (e : Elem) : Except TErr Child :=
  (keep avText (e.get "name")).bind fun n =>
  (keep avNum (e.get "value")).bind fun v =>
  .ok (Child.score (scoreName n) v)

/-- the three branches of the loop body (`"modification_info" in element.tag` / `"alternative_protein" in
element.tag` / else), on an element that `iter(*queries)` delivered.  src: mokapot/parsers/pepxml.py:289-307 -/
def childOfElem (e : Elem) : Except TErr Child :=
  if e.tag = "modification_info" then modInfoOfElem e
  else if e.tag = "alternative_protein" then altOfElem e
  else scoreOfElem e

/-- `queries`.  src: mokapot/parsers/pepxml.py:284-288 -/
def hitQueries : List String := ["modification_info", "search_score", "alternative_protein"]

/-- `_parse_psm` reading one `search_hit` element.  src: mokapot/parsers/pepxml.py:262-289 -/
def hitOfElem (e : Elem) : Except TErr Hit :=
  (need avRat (e.get "calc_neutral_pep_mass")).bind fun cm =>
  (keep avText (e.get "peptide")).bind fun pep =>
  (need avText (e.get "protein")).bind fun prot =>
  (optional avInt (e.get "num_missed_cleavages")).bind fun mc =>
  (optional avInt (e.get "num_tol_term")).bind fun ntt =>
  (optional avInt (e.get "num_matched_peptides")).bind fun nm =>
  ((nm.map (fun i => (natOfInt i).map some)).getD (.ok none)).bind fun nmn =>
  ((e.iter hitQueries).mapM childOfElem).bind fun ch =>
  .ok { calcMass := cm, peptide := pep, protein := prot, missed := mc, ntt := ntt, nmatched := nmn,
        children := ch }

/-- `for psms in spectrum.iter("{*}search_result"): for psm in psms.iter("{*}search_hit")`.
src: mokapot/parsers/pepxml.py:239-241 -/
def resultsOfElem (e : Elem) : Except TErr (List (List Hit)) :=
  (e.iter ["search_result"]).mapM (fun r => (r.iter ["search_hit"]).mapM hitOfElem)

/-- `_parse_spectrum` reading one `spectrum_query` element.  src: mokapot/parsers/pepxml.py:233-241 -/
def spectrumOfElem (e : Elem) : Except TErr Spectrum :=
  (need avInt (e.get "end_scan")).bind fun sc =>
  (need avInt (e.get "assumed_charge")).bind fun z =>
  (need avRat (e.get "retention_time_sec")).bind fun rt =>
  (need avRat (e.get "precursor_neutral_mass")).bind fun em =>
  (resultsOfElem e).bind fun rs =>
  .ok { scan := sc, charge := z, retTime := rt, expMass := em, results := rs }

/-- `_parse_msms_run` reading one `msms_run_summary` element.  src: mokapot/parsers/pepxml.py:204-213 -/
def runOfElem (e : Elem) : Except TErr Run :=
  (need avText (e.get "base_name")).bind fun b =>
  (need avText (e.get "raw_data")).bind fun x =>
  ((e.iter ["spectrum_query"]).mapM spectrumOfElem).bind fun ss =>
  .ok { baseName := b, rawData := x, spectra := ss }

/-- the abstract document that the nested generators read off the tree.  src: mokapot/parsers/pepxml.py:170-175 -/
def runsOfTree (root : Elem) : Except TErr (List Run) :=
  (root.iterparse "msms_run_summary").mapM runOfElem

/-- records of one file, from its element tree.  src: mokapot/parsers/pepxml.py:170-175 -/
def treeRows (pfx : Str) (root : Elem) : Except TErr (List Row) :=
  (runsOfTree root).map (fileRows pfx)

/-! ## the tree of an abstract document (what a schema-conforming file looks like) -/

def modElem (m : Mod) : Elem :=
  .node "mod_aminoacid_mass" [("position", .int (m.pos : Int)), ("mass", .text m.mass)] []

def childElem : Child → Elem
  | .mods ms => .node "modification_info" [] (ms.map modElem)
  | .score n v => .node "search_score" [("name", .text n.toList), ("value", .num v)] []
  | .alt a => .node "alternative_protein" [("protein", .text a)] []

def optAttr (k : String) (v : Option Int) : List (String × AVal) :=
  (v.map (fun i => [(k, AVal.int i)])).getD []

def hitElem (h : Hit) : Elem :=
  .node "search_hit"
    ([("calc_neutral_pep_mass", .rat h.calcMass), ("peptide", .text h.peptide), ("protein", .text h.protein)]
      ++ (optAttr "num_missed_cleavages" h.missed ++ (optAttr "num_tol_term" h.ntt
      ++ optAttr "num_matched_peptides" (h.nmatched.map Int.ofNat))))
    (h.children.map childElem)

def resultElem (hs : List Hit) : Elem := .node "search_result" [] (hs.map hitElem)

def spectrumElem (s : Spectrum) : Elem :=
  .node "spectrum_query"
    [("end_scan", .int s.scan), ("assumed_charge", .int s.charge), ("retention_time_sec", .rat s.retTime),
     ("precursor_neutral_mass", .rat s.expMass)]
    (s.results.map resultElem)

def runElem (r : Run) : Elem :=
  .node "msms_run_summary" [("base_name", .text r.baseName), ("raw_data", .text r.rawData)]
    (r.spectra.map spectrumElem)

def docElem (runs : List Run) : Elem := .node "msms_pipeline_analysis" [] (runs.map runElem)

/-! ## declarative reading of an arbitrary tree (spec side) -/

/-- number of `search_hit` descendants of `search_result` descendants of `spectrum_query` descendants of the
`msms_run_summary` elements: the search hits the property speaks about, counted on the tree -/
def treeHitCount (root : Elem) : Nat :=
  ((root.iterparse "msms_run_summary").map (fun r =>
    ((r.iter ["spectrum_query"]).map (fun s =>
      ((s.iter ["search_result"]).map (fun res => (res.iter ["search_hit"]).length)).sum)).sum)).sum

/-- wrap an element into a foreign element (a tag the parser never asks for) -/
def wrapElem (tag : String) (attrs : List (String × AVal)) (e : Elem) : Elem := .node tag attrs [e]

end Mk.Pepxml
