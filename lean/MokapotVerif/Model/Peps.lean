/-!
# Model of the PEP estimators and the alternative q-value estimators
(mokapot/peps.py, mokapot/qvalues.py:217-306)

Import-free.  Scores, PEPs and q-values are exact rationals.  The numeric
kernels (triqler's spline, `gaussian_kde`, `np.histogram`, `scipy.optimize.nnls`,
`estimate_pi0_by_slope`) are *parameters*: the model is the composition logic
around them, exactly as the code composes it:

* qvality wrapper: call the kernel on `scores[targets]`, `scores[~targets]`, get
  the PEPs in descending-score order, scatter them back through
  `np.argsort(-scores, kind="stable")`                      (peps.py:48-82)
* `monotonize_simple` = running max / running min           (peps.py:85-97)
* `monotonize_nnls(.., ascending=False)`, `fit_nnls(.., ascending=False)`:
  reversed cumulative sum of the NNLS solution `d`          (peps.py:120-154, 251-306)
* `np.interp` onto the scores, `np.clip` to [0,1]           (peps.py:245-247, 395-397)
* `qvalues_from_peps`, `qvalues_from_counts`: sort by descending score,
  cumulative sums, running maximum, `np.interp` back        (qvalues.py:217-306)

`argsort` results are parameters too (any arrangement of ties); the executable
instances used by the driver take the arrangement from the caller or use the
stable merge sort.
-/
namespace Mk.Peps

/-- a PSM: (score, is_target) -/
abbrev Psm := Rat × Bool

/-! ## primitives -/

/-- `np.maximum.accumulate` with running value `m`.  src: mokapot/peps.py:93-94 -/
def runMaxFrom (m : Rat) : List Rat → List Rat
  | [] => []
  | x :: xs => max m x :: runMaxFrom (max m x) xs

/-- `monotonize_simple(x, ascending=True)`.  src: mokapot/peps.py:85-94 -/
def runMax : List Rat → List Rat
  | [] => []
  | x :: xs => x :: runMaxFrom x xs

/-- `np.minimum.accumulate` with running value `m`.  src: mokapot/peps.py:95-96 -/
def runMinFrom (m : Rat) : List Rat → List Rat
  | [] => []
  | x :: xs => min m x :: runMinFrom (min m x) xs

/-- `monotonize_simple(x, ascending=False)`.  src: mokapot/peps.py:85-96 -/
def runMin : List Rat → List Rat
  | [] => []
  | x :: xs => x :: runMinFrom x xs

/-- `np.cumsum` with accumulator.  src: mokapot/peps.py:153, 305; qvalues.py:252, 294-295 -/
def cumsumFrom (acc : Rat) : List Rat → List Rat
  | [] => []
  | x :: xs => (acc + x) :: cumsumFrom (acc + x) xs

def cumsum (xs : List Rat) : List Rat := cumsumFrom 0 xs

/-- `np.clip(x, lo, hi)` = `minimum(maximum(x, lo), hi)`.  src: mokapot/peps.py:247, 397 -/
def clip (lo hi x : Rat) : Rat := min (max x lo) hi

/-- the interpolation formula of `np.interp` between two knots:
`slope * (x - x0) + y0` with `slope = (y1 - y0) / (x1 - x0)` -/
def lerp (x0 y0 x1 y1 x : Rat) : Rat := (y1 - y0) / (x1 - x0) * (x - x0) + y0

/-- scan of `np.interp` for one abscissa `x`: `(x0, y0)` is the last knot seen,
with `x0 ≤ x`.  The scan stops at the first knot strictly right of `x`, so on
ascending knots `(x0, y0)` is the knot with the **last** index `j` such that
`xp[j] ≤ x` (what numpy's `binary_search_with_guess` returns); `xp[j] == x`
returns `fp[j]` without interpolating (numpy: "avoid potential non-finite
interpolation"), and past the last knot the last value is returned. -/
def interpGo (x x0 y0 : Rat) : List (Rat × Rat) → Rat
  | [] => y0
  | (x1, y1) :: rest =>
    if x1 ≤ x then interpGo x x1 y1 rest
    else if x0 = x then y0 else lerp x0 y0 x1 y1 x

/-- `np.interp(x, xp, fp)` for one `x`, knots given as pairs `(xp[j], fp[j])` in
ascending `xp`; left of the first knot the first value.  (Empty `xp` raises in
numpy; callers below reject that case before calling.) -/
def interp : List (Rat × Rat) → Rat → Rat
  | [], _ => 0
  | (x0, y0) :: rest, x => if x < x0 then y0 else interpGo x x0 y0 rest

/-! ## qvality wrapper (peps.py:48-82, the repaired code) -/

/-- first value stored under index `i`; models the scatter
`out[ind] = vals` read at position `i` (`ind` is a permutation, so each index
occurs once; `np.empty_like` leaves anything else undefined, here 0). -/
def scatterGet (i : Nat) : List (Nat × Rat) → Rat
  | [] => 0
  | (j, v) :: rest => if j = i then v else scatterGet i rest

def targetScores (xs : List Psm) : List Rat := (xs.filter (fun x => x.2)).map (·.1)
def decoyScores (xs : List Psm) : List Rat := (xs.filter (fun x => !x.2)).map (·.1)

/-- `peps_from_scores_qvality` for a given result `ind` of
`np.argsort(-scores, kind="stable")`; `K` is triqler's
`getQvaluesFromScores(scores[targets], scores[~targets], includeDecoys=True, ..)`,
which returns one PEP per PSM in descending-score order.
src: mokapot/peps.py:67-82 -/
def qvalityWrapOf (K : List Rat → List Rat → List Rat) (xs : List Psm) (ind : List Nat) : List Rat :=
  let peps := K (targetScores xs) (decoyScores xs)
  (List.range xs.length).map (fun i => scatterGet i (ind.zip peps))

/-- descending-score comparison on index-tagged PSMs -/
def descIdx (a b : Psm × Nat) : Bool := decide (b.1.1 ≤ a.1.1)

/-- `np.argsort(-scores, kind="stable")`: merge sort is stable -/
def stableArgsortDesc (xs : List Psm) : List Nat := (xs.zipIdx.mergeSort descIdx).map (·.2)

/-- executable wrapper. src: mokapot/peps.py:48-82 -/
def qvalityWrap (K : List Rat → List Rat → List Rat) (xs : List Psm) : List Rat :=
  qvalityWrapOf K xs (stableArgsortDesc xs)

/-! ## NNLS-based PEP estimators -/

/-- `monotonize_nnls(x, w, ascending=False)` and `fit_nnls(n, k, ascending=False)`
both return `np.cumsum(d)[::-1]` where `d` is the NNLS solution of the reversed
problem.  src: mokapot/peps.py:129-132, 152-154 and 273-274, 300-306 -/
def revCumsum (d : List Rat) : List Rat := (cumsum d).reverse

/-- `peps_from_scores_kde_nnls` given the evaluation grid `es`
(`np.linspace(min, max, 500)`) and the NNLS solution `d`:
`np.clip(np.interp(scores, eval_scores, pepEst), 0, 1)`.
src: mokapot/peps.py:240-248 -/
def kdeNnlsOf (es d : List Rat) (scores : List Rat) : List Rat :=
  scores.map (fun x => clip 0 1 (interp (es.zip (revCumsum d)) x))

/-- `if scale_to_one and 0 < pep_est[0] < 1: pep_est = pep_est / pep_est[0]` (the repaired
code, commit 835a908: an all-zero fit is left unscaled; before, `pep_est[0] < 1` alone made it
`0/0` — refuted variant `Mutants.scaleToOneOld`).  src: mokapot/peps.py:410-413 -/
def scaleToOne (p : List Rat) : List Rat :=
  if 0 < p.headD 0 ∧ p.headD 0 < 1 then p.map (fun y => y / p.headD 0) else p

/-- `peps_from_scores_hist_nnls` given the bin midpoints `es` and the NNLS
solution `d`.  Since the repair there is always a result (the type stays `Option`:
the callers and the driver were written for the old code, where `pep_est[0] = 0` gave NaN
for every PSM — `Mutants.histNnlsOfOld`).  src: mokapot/peps.py:380-418 -/
def histNnlsOf (es d : List Rat) (scores : List Rat) : Option (List Rat) :=
  some (scores.map (fun x => clip 0 1 (interp (es.zip (scaleToOne (revCumsum d))) x)))

/-! ## q-values from PEPs (qvalues.py:217-267) -/

/-- `c[i] / (i + 1)` -/
def divIdx (ci : Rat × Nat) : Rat := ci.1 / ((ci.2 + 1 : Nat) : Rat)

/-- `target_peps.cumsum() / np.arange(1, m + 1)`.  src: mokapot/qvalues.py:252-254 -/
def meanPrefix (ps : List Rat) : List Rat := (cumsum ps).zipIdx.map divIdx

def isTgt (e : Psm × Rat) : Bool := e.1.2

/-- the interpolation knots of `qvalues_from_peps`: target scores ascending
(`np.flip(target_scores)`) with the running maximum of the mean PEP of the
targets ranked at or above (`np.flip(target_qvalues)`).
src: mokapot/qvalues.py:250-266 -/
def pepKnots (sorted : List (Psm × Rat)) : List (Rat × Rat) :=
  ((sorted.filter isTgt).map (·.1.1)).reverse.zip
    (runMax (meanPrefix ((sorted.filter isTgt).map (·.2)))).reverse

/-- `qvalues_from_peps` for a given arrangement `sorted` of the PSMs with their
PEPs in descending score order (`scores[ind]`, `targets[ind]`, `peps[ind]` for
`ind = np.argsort(-scores)`, whose order among ties is unspecified).  An empty
target list makes `np.interp` raise (`none`).  src: mokapot/qvalues.py:243-267 -/
def fromPepsOf (scores : List Rat) (sorted : List (Psm × Rat)) : Option (List Rat) :=
  if (sorted.filter isTgt).isEmpty then none else some (scores.map (interp (pepKnots sorted)))

/-- descending-score comparison on PSMs with PEPs -/
def descPep (a b : Psm × Rat) : Bool := decide (b.1.1 ≤ a.1.1)

/-- executable instance (merge sort as the `argsort`) -/
def fromPeps (xs : List Psm) (peps : List Rat) : Option (List Rat) :=
  fromPepsOf (xs.map (·.1)) ((xs.zip peps).mergeSort descPep)

/-! ## q-values from counts (qvalues.py:270-306) -/

def incT (b : Bool) (T : Nat) : Nat := if b then T + 1 else T
def incD (b : Bool) (D : Nat) : Nat := if b then D else D + 1

/-- `pi0 * target_decoy_ratio * (~targets_sorted).cumsum() / targets_sorted.cumsum()`
with `c = pi0 * target_decoy_ratio` and running counts `T`, `D`.
src: mokapot/qvalues.py:293-298 -/
def countsFdr (c : Rat) (T D : Nat) : List Bool → List Rat
  | [] => []
  | b :: rest =>
    (c * ((incD b D : Nat) : Rat) / ((incT b T : Nat) : Rat)) :: countsFdr c (incT b T) (incD b D) rest

/-- the interpolation knots of `qvalues_from_counts`: all scores ascending
(`np.flip(scores_sorted)`) with the flipped running maximum of the row-wise FDR.
src: mokapot/qvalues.py:299-305 -/
def countKnots (c : Rat) (sorted : List Psm) : List (Rat × Rat) :=
  (sorted.map (·.1)).reverse.zip (runMax (countsFdr c 0 0 (sorted.map (·.2)))).reverse

/-- `qvalues_from_counts` for a given arrangement `sorted` of the PSMs in
descending score order.  If the top-ranked row is a decoy, `cum_targets = 0`
there, the code computes `c * 1 / 0 = +inf` and the running maximum makes
**every** q-value `+inf`: the model answers `none` for that all-infinite vector.
src: mokapot/qvalues.py:283-306 -/
def fromCountsOf (c : Rat) (scores : List Rat) (sorted : List Psm) : Option (List Rat) :=
  if (sorted.headD (0, false)).2 = false then none else some (scores.map (interp (countKnots c sorted)))

def descPsm (a b : Psm) : Bool := decide (b.1 ≤ a.1)

/-- executable instance (merge sort as the `argsort`) -/
def fromCounts (c : Rat) (xs : List Psm) : Option (List Rat) :=
  fromCountsOf c (xs.map (·.1)) (xs.mergeSort descPsm)

/-! ## Specification (declarative) -/

/-- the PEP assigned by `kde_nnls` to a score, given the kernel outputs -/
def kdePepFun (es d : List Rat) (x : Rat) : Rat := clip 0 1 (interp (es.zip (revCumsum d)) x)

/-- the (scaled) PEP assigned by `hist_nnls` to a score, given the kernel outputs -/
def histPepFun (es d : List Rat) (x : Rat) : Rat :=
  clip 0 1 (interp (es.zip (scaleToOne (revCumsum d))) x)


/-- The clauses of C06 on a result vector `vals` for the score vector `scores`:
one value per PSM, every value within `[lo, hi]` (`hi = none`: no upper bound),
and values never decrease as the score worsens — which includes "equal scores
receive equal values". -/
structure Shape (lo : Rat) (hi : Option Rat) (scores vals : List Rat) : Prop where
  length : vals.length = scores.length
  range : ∀ v ∈ vals, lo ≤ v ∧ ∀ h, hi = some h → v ≤ h
  antitone : ∀ (i j : Nat) (hi' : i < scores.length) (hj : j < scores.length)
      (hvi : i < vals.length) (hvj : j < vals.length), scores[i] ≤ scores[j] → vals[j] ≤ vals[i]

/-- executable checker of `Shape` up to a tolerance `eps` on the monotonicity
clause (0 for exact); answers the first violated clause.  Used by `spec-C06`. -/
def antitoneViol (eps : Rat) (sv : List (Rat × Rat)) : Bool :=
  sv.any (fun a => sv.any (fun b => decide (a.1 ≤ b.1) && decide (a.2 + eps < b.2)))

def tieViol (sv : List (Rat × Rat)) : Bool :=
  sv.any (fun a => sv.any (fun b => decide (a.1 = b.1) && !decide (a.2 = b.2)))

def rangeViol (lo : Rat) (hi : Option Rat) (vals : List Rat) : Bool :=
  vals.any (fun v => decide (v < lo) || (hi.map (fun h => decide (h < v))).getD false)

def shapeCheck (lo : Rat) (hi : Option Rat) (eps : Rat) (scores vals : List Rat) : String :=
  if vals.length != scores.length then "fail-length"
  else if rangeViol lo hi vals then "fail-range"
  else if tieViol (scores.zip vals) then "fail-ties"
  else if antitoneViol eps (scores.zip vals) then "fail-monotone"
  else "ok"

/-- is `ind` an admissible `argsort(-scores)` result: a permutation of
`0..n-1` along which the scores never increase -/
def isPermOfRange (ind : List Nat) (n : Nat) : Bool :=
  ind.length == n && (List.range n).all (fun i => ind.contains i)

def nonIncreasing : List Rat → Bool
  | [] => true
  | x :: rest => (rest.headD x ≤ x) && nonIncreasing rest

end Mk.Peps
