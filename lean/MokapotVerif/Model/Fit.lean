import MokapotVerif.Model.Qvalues
/-!
# Model of `Model.fit` / `Model.predict`  (mokapot/model.py, mokapot/dataset.py)

No Mathlib.  (The only import is the sibling model `Model/Qvalues.lean`, whose
`updateLabels` is the label rule the training loop calls.)

* `ρ` : the feature row of one PSM (a row of `norm_feat`), abstract;
* `α` : the score type with the Boolean order `le a b` ("`b` at least as good as `a`");
* `θ` : the state of the external estimator, abstract.  `Est.fit` receives the
  previous state as well, so warm-starting estimators are covered; `Est.score`
  is `decision_function` / `predict_proba` applied to one row.
* `perm` : the result of `rng.permutation(arange n)` — a *parameter*; the
  theorems quantify over every permutation of `range n`.

Row identity: position `i` of `rows`, `targets`, `start` is PSM `i`.
-/
namespace Mk.Fit
variable {α β ρ θ ν : Type}

/-! ## index bookkeeping -/

/-- numpy fancy indexing `xs[idx]` (all indices produced by the code are in range) -/
def gather (xs : List β) (idx : List Nat) : List β := idx.filterMap (fun i => xs[i]?)

/-- insertion of a (value, index) pair into a list sorted by value (stable) -/
def insKey (a : Nat × Nat) : List (Nat × Nat) → List (Nat × Nat)
  | [] => [a]
  | b :: l => if a.1 ≤ b.1 then a :: b :: l else b :: insKey a l

/-- stable insertion sort of (value, index) pairs by value -/
def isortKey : List (Nat × Nat) → List (Nat × Nat)
  | [] => []
  | a :: l => insKey a (isortKey l)

/-- `np.argsort(shuffled_idx)`: the indices that sort the values.
src: mokapot/model.py:294 -/
def argsort (s : List Nat) : List Nat := (isortKey s.zipIdx).map (·.2)

/-! ## the estimator interface and one training set -/

/-- the external learner: `fit(prev_state, [(row, is_positive)]) → state`, `score(state, row)` -/
structure Est (ρ α θ : Type) where
  fit : θ → List (ρ × Bool) → θ
  score : θ → ρ → α

/-- a row takes part in training iff its label is non-zero; the class handed to
the estimator is `(label + 1) / 2`, i.e. `true` for `+1`.
src: mokapot/model.py:308-309 -/
def pairOf (p : ρ × Int) : Option (ρ × Bool) := if p.2 = 0 then none else some (p.1, p.2 == 1)

/-- `samples = norm_feat[target.astype(bool), :]`, `iter_targ = (target[target.astype(bool)] + 1) / 2`.
src: mokapot/model.py:308-309 -/
def trainSet (feat : List ρ) (target : List Int) : List (ρ × Bool) := (feat.zip target).filterMap pairOf

/-- `(target == 1).sum()`  src: mokapot/model.py:319 -/
def numPos (target : List Int) : Nat := target.count 1

/-- what the loop produces: the training set of every `model.fit` call, in call
order, and — unless an iteration accepted nothing (`RuntimeError`) — the final
estimator state with `num_passed[-1]`. -/
structure FitRes (ρ θ : Type) where
  trace : List (List (ρ × Bool))
  final : Option (θ × Nat)

def consTrace (s : List (ρ × Bool)) (r : FitRes ρ θ) : FitRes ρ θ := ⟨s :: r.trace, r.final⟩

/-- the `for i in range(max_iter)` loop.  `feat`, `target` are in shuffled order,
`relabel` is `psms._update_labels(·, eval_fdr=train_fdr)` (PSM order in, PSM order out).
src: mokapot/model.py:303-326 -/
def loopGo (est : Est ρ α θ) (relabel : List α → List Int) (sidx oidx : List Nat) (feat : List ρ) :
    Nat → θ → List Int → FitRes ρ θ
  | 0, th, target => ⟨[], some (th, numPos target)⟩
  | k + 1, th, target =>
    let s := trainSet feat target
    let th' := est.fit th s
    let scores := gather (feat.map (est.score th')) oidx
    let target' := gather (relabel scores) sidx
    if numPos target' = 0 then ⟨[s], none⟩
    else consTrace s (loopGo est relabel sidx oidx feat k th' target')

/-- shuffle, loop.  `perm` is the draw of `rng.permutation`; with `shuffle = false`
the identity replaces it (the repaired code, commit "fix: keep scores and
labels aligned with rows when Model(shuffle=False)").
src: mokapot/model.py:290-326 -/
def fitLoop (est : Est ρ α θ) (relabel : List α → List Int) (shuffle : Bool) (perm : List Nat)
    (maxIter : Nat) (th0 : θ) (rows : List ρ) (start : List Int) : FitRes ρ θ :=
  let sidx := if shuffle then perm else List.range start.length
  let oidx := argsort sidx
  let feat := if shuffle then gather rows sidx else rows
  let start' := if shuffle then gather start sidx else start
  loopGo est relabel sidx oidx feat maxIter th0 start'

/-! ## Specification of the loop: no index bookkeeping at all

Everything stays in PSM order.  The training pair of PSM `i` is built from
position `i` of the rows and position `i` of the current labels — the same PSM
by construction; `order` only says in which sequence the pairs are presented. -/

/-- the training pair contributed by PSM `i` under labels `L` (none if unlabeled) -/
def pairAt (rows : List ρ) (L : List Int) (i : Nat) : Option (ρ × Bool) := ((rows.zip L)[i]?).bind pairOf

def specGo (est : Est ρ α θ) (relabel : List α → List Int) (order : List Nat) (rows : List ρ) :
    Nat → θ → List Int → FitRes ρ θ
  | 0, th, L => ⟨[], some (th, numPos L)⟩
  | k + 1, th, L =>
    let s := order.filterMap (pairAt rows L)
    let th' := est.fit th s
    let L' := relabel (rows.map (est.score th'))
    if numPos L' = 0 then ⟨[s], none⟩
    else consTrace s (specGo est relabel order rows k th' L')

/-! ## labels from the current scores -/

/-- `psms._update_labels(scores, eval_fdr=train_fdr)` (always `desc=True` inside the loop).
src: mokapot/dataset.py:446-449, 701-740 -/
def tdcRelabel (le : α → α → Bool) (thr : Rat) (targets : List Bool) (scores : List α) : List Int :=
  updateLabels le thr (scores.zip targets)

/-- the declarative label of one PSM: −1 decoy, +1 target accepted at `thr`, 0 other target -/
def labelSpec (le : α → α → Bool) (thr : Rat) (all : List (α × Bool)) (x : α × Bool) : Int :=
  if x.2 = false then -1 else if qSpec le all x.1 ≤ thr then 1 else 0

/-! ## starting labels (`_get_starting_labels`, `_find_best_feature`) -/

/-- `desc=True` keeps the order, `desc=False` reverses it -/
def dirLe (le : α → α → Bool) (desc : Bool) : α → α → Bool := fun a b => if desc then le a b else le b a

def colLabels (le : α → α → Bool) (thr : Rat) (targets : List Bool) (desc : Bool) (col : List α) : List Int :=
  tdcRelabel (dirLe le desc) thr targets col

/-- first position of the maximum (`pandas.Series.idxmax`) -/
def argmaxFrom (i best bestV : Nat) : List Nat → Nat
  | [] => best
  | c :: cs => if c > bestV then argmaxFrom (i + 1) i c cs else argmaxFrom (i + 1) best bestV cs

def argmaxFirst (cs : List Nat) : Nat := argmaxFrom 1 0 (cs.headD 0) cs.tail

/-- per direction: (best feature index, its number of accepted targets).
src: mokapot/dataset.py:199-223, 251-253 -/
def bestInDir (le : α → α → Bool) (thr : Rat) (targets : List Bool) (cols : List (List α)) (desc : Bool) :
    Nat × Nat :=
  let counts := cols.map (fun c => numPos (colLabels le thr targets desc c))
  let i := argmaxFirst counts
  (i, counts.getD i 0)

/-- result of the start-label search: labels, `feat_pass`, or none where the code raises -/
structure Start where
  labels : List Int
  featPass : Nat

/-- `_find_best_feature`: `desc=True` is tried first and `desc=False` replaces it
only when strictly better; nothing accepted → `RuntimeError`.
src: mokapot/dataset.py:225-270 -/
def findBest (le : α → α → Bool) (thr : Rat) (targets : List Bool) (cols : List (List α)) : Option Start :=
  let d := bestInDir le thr targets cols true
  let a := bestInDir le thr targets cols false
  if a.2 > d.2 then some ⟨colLabels le thr targets false (cols.getD a.1 []), a.2⟩
  else if d.2 > 0 then some ⟨colLabels le thr targets true (cols.getD d.1 []), d.2⟩
  else none

/-- the `direction=<feature>` branch: `desc` wins ties; nothing accepted → `RuntimeError`.
src: mokapot/model.py:587-615 -/
def dirStart (le : α → α → Bool) (thr : Rat) (targets : List Bool) (col : List α) : Option Start :=
  let dl := colLabels le thr targets true col
  let al := colLabels le thr targets false col
  let st : Start := if numPos dl ≥ numPos al then ⟨dl, numPos dl⟩ else ⟨al, numPos al⟩
  if numPos st.labels = 0 then none else some st

/-- `_get_starting_labels` for an untrained model. src: mokapot/model.py:542-617 -/
def startLabels (le : α → α → Bool) (thr : Rat) (targets : List Bool) (cols : List (List α))
    (direction : Option Nat) : Option Start :=
  (direction.map (fun j => dirStart le thr targets (cols.getD j []))).getD (findBest le thr targets cols)

/-! ## `Model.fit` as a whole -/

inductive FitStatus where
  | ok | noTargets | noDecoys | noStart | zeroIter | worseIter | worseFinal | featMismatch
  deriving DecidableEq, Repr

structure FitOut (ρ θ : Type) where
  status : FitStatus
  trace : List (List (ρ × Bool))
  theta : Option θ

structure FitCfg where
  shuffle : Bool
  perm : List Nat
  maxIter : Nat
  override : Bool
  direction : Option Nat

/-- the check after the loop: `num_passed[-1] < (start_labels == 1).sum() or num_passed[-1] < feat_pass`
raises unless `override`.  src: mokapot/model.py:328-347 -/
def finish (override : Bool) (st : Start) (r : FitRes ρ θ) (res : θ × Nat) : FitOut ρ θ :=
  if (res.2 < numPos st.labels || res.2 < st.featPass) && !override then ⟨.worseFinal, r.trace, none⟩
  else ⟨.ok, r.trace, some res.1⟩

def afterLoop (override : Bool) (st : Start) (r : FitRes ρ θ) : FitOut ρ θ :=
  (r.final.map (finish override st r)).getD ⟨.worseIter, r.trace, none⟩

def runFrom (est : Est ρ α θ) (le : α → α → Bool) (thr : Rat) (cfg : FitCfg) (th0 : θ) (rows : List ρ)
    (targets : List Bool) (st : Start) : FitOut ρ θ :=
  if cfg.maxIter = 0 then ⟨.zeroIter, [], none⟩   -- `num_passed[-1]` on an empty list: IndexError
  else afterLoop cfg.override st
    (fitLoop est (tdcRelabel le thr targets) cfg.shuffle cfg.perm cfg.maxIter th0 rows st.labels)

/-- `Model.fit(psms)` for an untrained model without hyper-parameter search.
`cols` are the feature columns read as scores (the columns of `psms.features`).
src: mokapot/model.py:244-347 -/
def fitModel (est : Est ρ α θ) (le : α → α → Bool) (thr : Rat) (cfg : FitCfg) (th0 : θ) (rows : List ρ)
    (cols : List (List α)) (targets : List Bool) : FitOut ρ θ :=
  if targets.all (· == false) then ⟨.noTargets, [], none⟩
  else if targets.all (· == true) then ⟨.noDecoys, [], none⟩
  else ((startLabels le thr targets cols cfg.direction).map
          (runFrom est le thr cfg th0 rows targets)).getD ⟨.noStart, [], none⟩

/-! ## prediction: features are taken by stored name -/

/-- the column called `name` (first match) -/
def lookupCol [DecidableEq ν] (cols : List (ν × β)) (name : ν) : Option β :=
  (cols.find? (fun c => c.1 == name)).map (·.2)

/-- `set(feat_names) != set(self.features)` negated -/
def sameNameSet [DecidableEq ν] (a b : List ν) : Bool := a.all (b.contains ·) && b.all (a.contains ·)

/-- `psms.features.loc[:, self.features]`: `none` is the `ValueError` for a different
set of feature names.  src: mokapot/model.py:227-236 -/
def selectByName [DecidableEq ν] (stored : List ν) (cols : List (ν × β)) : Option (List β) :=
  if sameNameSet (cols.map (·.1)) stored then some (stored.filterMap (lookupCol cols)) else none

/-- rows of a column-major table with `n` rows -/
def rowsOf (n : Nat) (cols : List (List β)) : List (List β) :=
  (List.range n).map (fun i => cols.filterMap (fun c => c[i]?))

/-- `Model.predict`: select by name, score every row. src: mokapot/model.py:210-242 -/
def predictByName [DecidableEq ν] (score : List β → α) (stored : List ν) (n : Nat) (cols : List (ν × List β)) :
    Option (List α) :=
  (selectByName stored cols).map (fun sel => (rowsOf n sel).map score)

/-! ## re-fitting an already trained model -/

/-- `_get_starting_labels`, branch `model.is_trained`: the labels of the scores that
`Model.decision_function(psms)` returns (always `desc=True`); nothing accepted →
`RuntimeError`.  src: mokapot/model.py:571-585, 611-615 -/
def trainedStart (le : α → α → Bool) (thr : Rat) (targets : List Bool) (scores : List α) : Option Start :=
  if numPos (tdcRelabel le thr targets scores) = 0 then none
  else some ⟨tdcRelabel le thr targets scores, numPos (tdcRelabel le thr targets scores)⟩

def refitFrom (est : Est ρ α θ) (le : α → α → Bool) (thr : Rat) (cfg : FitCfg) (th : θ) (rows : List ρ)
    (targets : List Bool) (scores : List α) : FitOut ρ θ :=
  ((trainedStart le thr targets scores).map (runFrom est le thr cfg th rows targets)).getD ⟨.noStart, [], none⟩

/-- `Model.fit(psms)` on a trained model (state `th`, stored feature names `stored`).
The start scores come from `Model.decision_function`: the old scaler's output
`named` is selected *by stored name* (a different name set is the `ValueError`);
`rows` are the freshly scaled rows, in the new column order, used for training.
src: mokapot/model.py:244-347, 571-585 (after "fix: re-fitting a trained model
scored the start labels on raw, position-matched features") -/
def refitModel [DecidableEq ν] (est : Est (List β) α θ) (le : α → α → Bool) (thr : Rat) (cfg : FitCfg) (th : θ)
    (rows : List (List β)) (targets : List Bool) (stored : List ν) (named : List (ν × List β)) :
    FitOut (List β) θ :=
  if targets.all (· == false) then ⟨.noTargets, [], none⟩
  else if targets.all (· == true) then ⟨.noDecoys, [], none⟩
  else ((predictByName (est.score th) stored targets.length named).map
          (refitFrom est le thr cfg th rows targets)).getD ⟨.featMismatch, [], none⟩

/-! ## hyper-parameter search (`_find_hyperparameters`)

`Model.fit` calls `_find_hyperparameters(self, norm_feat, start_labels)` after the
(conditional) shuffle and before the loop.  With a scikit-learn `BaseSearchCV`
estimator (`_needs_cv`, as `PercolatorModel` uses) this fits the search object on
the labelled rows and configures the inner estimator with `best_params_`.  The
search (GridSearchCV, its CV splitter, its scoring) is a black box: *any*
function of the example list it is given. -/

/-- the hyper-parameter search: `search` is `model.estimator.fit(cv_samples, cv_targ).best_params_`
as a function of the examples; `configure` is `model.estimator.estimator.set_params(**best_params)`
acting on the state of the (inner) estimator that then enters the loop.
src: mokapot/model.py:638-649 -/
structure HyperSearch (ρ θ π : Type) where
  search : List (ρ × Bool) → π
  configure : π → θ → θ

/-- result of `_find_hyperparameters`: the example list of every search call made
(none or one), the estimator state handed to the loop, `model._needs_cv` afterwards -/
structure HyperRes (ρ θ : Type) where
  searches : List (List (ρ × Bool))
  theta : θ
  needsCv : Bool

/-- `_find_hyperparameters(model, features, labels)`:
`cv_samples = features[labels.astype(bool), :]`, `cv_targ = (labels[labels.astype(bool)] + 1) / 2`
(that is `trainSet features labels`), `model.estimator.fit(cv_samples, cv_targ)`, configure the inner
estimator with `best_params_`, `_needs_cv = False`; otherwise the estimator unchanged.
src: mokapot/model.py:618-655 -/
def findHyper {π : Type} (hs : HyperSearch ρ θ π) (needsCv : Bool) (th0 : θ) (feat : List ρ) (labels : List Int) :
    HyperRes ρ θ :=
  if needsCv then ⟨[trainSet feat labels], hs.configure (hs.search (trainSet feat labels)) th0, false⟩
  else ⟨[], th0, false⟩

/-- what shuffle + search + loop produce -/
structure FitResCv (ρ θ : Type) where
  searches : List (List (ρ × Bool))
  needsCv : Bool
  loop : FitRes ρ θ

/-- shuffle, hyper-parameter search, loop — `fitLoop` preceded by the search step.  The search
is given the *shuffled* feature matrix and the *shuffled* start labels (the same two arrays
the first loop iteration uses).
src: mokapot/model.py:290-326 -/
def fitLoopCv {π : Type} (hs : HyperSearch ρ θ π) (needsCv : Bool) (est : Est ρ α θ) (relabel : List α → List Int)
    (shuffle : Bool) (perm : List Nat) (maxIter : Nat) (th0 : θ) (rows : List ρ) (start : List Int) :
    FitResCv ρ θ :=
  let sidx := if shuffle then perm else List.range start.length
  let oidx := argsort sidx
  let feat := if shuffle then gather rows sidx else rows
  let start' := if shuffle then gather start sidx else start
  let h := findHyper hs needsCv th0 feat start'
  ⟨h.searches, h.needsCv, loopGo est relabel sidx oidx feat maxIter h.theta start'⟩

/-- *specification* of the search input, without index bookkeeping: the pairs
(row of PSM `i`, start label of PSM `i` is +1) of the labelled PSMs, presented in `order` -/
def cvSpec (order : List Nat) (rows : List ρ) (start : List Int) : List (ρ × Bool) :=
  order.filterMap (pairAt rows start)

/-- the estimator state that enters the loop when the search (if any) was given the examples `ex` -/
def cvTheta {π : Type} (hs : HyperSearch ρ θ π) (needsCv : Bool) (th0 : θ) (ex : List (ρ × Bool)) : θ :=
  if needsCv then hs.configure (hs.search ex) th0 else th0

/-- the outcome of `Model.fit` together with the search calls and the `_needs_cv` flag afterwards -/
structure FitOutCv (ρ θ : Type) where
  searches : List (List (ρ × Bool))
  needsCv : Bool
  out : FitOut ρ θ

/-- as `runFrom`; the search runs even when `max_iter = 0` (the `IndexError` comes after the loop) -/
def runFromCv {π : Type} (hs : HyperSearch ρ θ π) (needsCv : Bool) (est : Est ρ α θ) (le : α → α → Bool) (thr : Rat)
    (cfg : FitCfg) (th0 : θ) (rows : List ρ) (targets : List Bool) (st : Start) : FitOutCv ρ θ :=
  let r := fitLoopCv hs needsCv est (tdcRelabel le thr targets) cfg.shuffle cfg.perm cfg.maxIter th0 rows st.labels
  ⟨r.searches, r.needsCv,
    if cfg.maxIter = 0 then ⟨.zeroIter, [], none⟩ else afterLoop cfg.override st r.loop⟩

/-- `Model.fit(psms)` for an untrained model *with* the hyper-parameter search step.  When `fit`
raises before reaching `_find_hyperparameters` the flag `_needs_cv` is left as it was.
src: mokapot/model.py:244-347, 618-655 -/
def fitModelCv {π : Type} (hs : HyperSearch ρ θ π) (needsCv : Bool) (est : Est ρ α θ) (le : α → α → Bool) (thr : Rat)
    (cfg : FitCfg) (th0 : θ) (rows : List ρ) (cols : List (List α)) (targets : List Bool) : FitOutCv ρ θ :=
  if targets.all (· == false) then ⟨[], needsCv, ⟨.noTargets, [], none⟩⟩
  else if targets.all (· == true) then ⟨[], needsCv, ⟨.noDecoys, [], none⟩⟩
  else ((startLabels le thr targets cols cfg.direction).map
          (runFromCv hs needsCv est le thr cfg th0 rows targets)).getD ⟨[], needsCv, ⟨.noStart, [], none⟩⟩

/-! ## `_get_scores`: which method of the estimator supplies the scores

Called at model.py:313 (inside the training loop) and model.py:238 (`decision_function`).
`Est.score` above is the per-row view of what this function returns; here the dispatch itself
is modelled on the *outputs* of the estimator's methods. -/

/-- the shapes `np.asarray(model.predict_proba(feat))` can have: `(n,)`, `(n, width)`, three or
more axes.  In `mat width rows` every row has length `width` (`ProbaOut.WF`). -/
inductive ProbaOut (α : Type) where
  | vec (v : List α)
  | mat (width : Nat) (rows : List (List α))
  | higher

/-- the two ways `_get_scores` fails: `scores[:, 1]` on a matrix without columns (`IndexError`),
`RuntimeError("'predict_proba' returned too many dimensions.")` -/
inductive ScoreErr where
  | indexError | tooManyDims
  deriving DecidableEq, Repr

/-- `scores[:, j]` of a row-major matrix -/
def colOf (j : Nat) (rows : List (List α)) : List α := rows.filterMap (fun r => r[j]?)

/-- the `except AttributeError:` branch: a single column is that column, otherwise column 1 of a
matrix, a vector as it is.  src: mokapot/model.py:717-727 -/
def probaScores : ProbaOut α → Except ScoreErr (List α)
  | .vec v => .ok v
  | .mat w rows => if w = 1 then .ok (colOf 0 rows) else if w = 0 then .error .indexError else .ok (colOf 1 rows)
  | .higher => .error .tooManyDims

/-- `_get_scores(model, feat)`: `decision` is the result of `model.decision_function(feat)` when the
estimator has that method (`none` = `AttributeError`), `proba` the result of `predict_proba`.
src: mokapot/model.py:692-727 -/
def getScores (decision : Option (List α)) (proba : ProbaOut α) : Except ScoreErr (List α) :=
  (decision.map Except.ok).getD (probaScores proba)

/-- the output has one entry per scored row, and a matrix is rectangular -/
def ProbaOut.WF (n : Nat) : ProbaOut α → Prop
  | .vec v => v.length = n
  | .mat w rows => rows.length = n ∧ ∀ r ∈ rows, r.length = w
  | .higher => True

/-- the same output with its rows taken in the order `idx` (numpy `out[idx]`) -/
def ProbaOut.gatherRows (idx : List Nat) : ProbaOut α → ProbaOut α
  | .vec v => .vec (gather v idx)
  | .mat w rows => .mat w (gather rows idx)
  | .higher => .higher

/-- *specification* of the score of row `i`: the decision value if the estimator has a
`decision_function`; otherwise the entry of a vector, the only entry of a one-column row, the
second entry (class 1) of a wider row -/
def scoreAt (decision : Option (List α)) (proba : ProbaOut α) (i : Nat) : Option α :=
  (decision.map (fun d => d[i]?)).getD (probaAt proba i)
where
  /-- the `predict_proba` part -/
  probaAt : ProbaOut α → Nat → Option α
    | .vec v, i => v[i]?
    | .mat w rows, i => (rows[i]?).bind (fun r => if w = 1 then r[0]? else r[1]?)
    | .higher, _ => none

/-! ## `Model.decision_function` with the scaler and the `is_trained` guard -/

inductive PredErr where
  | notFitted | featMismatch
  deriving DecidableEq, Repr

/-- `Model.decision_function(psms)`: `NotFittedError` for an untrained model, `ValueError` for another
set of feature names; the columns are selected *by stored name* first and the scaler —
`transform`, an arbitrary function of the positional row-major matrix, fitted on the training
column order — is applied to the selected matrix; the estimator scores the result row by row.
src: mokapot/model.py:224-238 -/
def predictScaled [DecidableEq ν] (trained : Bool) (transform : List (List β) → List (List β))
    (score : List β → α) (stored : List ν) (n : Nat) (cols : List (ν × List β)) : Except PredErr (List α) :=
  if trained = false then .error .notFitted
  else ((selectByName stored cols).map (fun sel => Except.ok ((transform (rowsOf n sel)).map score))).getD
    (.error .featMismatch)

end Mk.Fit
