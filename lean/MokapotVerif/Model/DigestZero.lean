import MokapotVerif.Model.DigestPat
/-!
# Digestion with zero-width enzyme rules  (mokapot/parsers/fasta.py:419-443, 480-496)

`_cleavage_sites` records `m.end()` of every match, *empty matches included*: an
enzyme rule may be written with look-around only,

    (?<=B)(?=A) | (?<=B)(?!A) | (?<!B)(?=A) | (?<!B)(?!A) | (?<=B) | (?=A) | …  | the empty pattern

(`B`, `A` residue classes `[..]`, `[^..]`, `.`): trypsin/P as `(?<=[KR])(?!P)`,
Lys-C as `(?<=K)`, Asp-N as `(?=D)`, Lys-N as `(?=K)`, "everywhere except before
proline" as `(?!P)`.  Every match is empty, so `re.finditer` tries every position
`0 … len(sequence)` once, from left to right, and reports the positions where both
assertions hold.  Two things cannot happen with a pattern that consumes residues
(`Model/Digest.lean`, `Model/DigestPat.lean`) and do happen here:

* a match **at position 0** (no look-behind, or a negative one): the list of sites
  starts `[0, 0, …]`;
* a match at `len(sequence)` (as before: `[…, n, n]`).

`cleave` (the double loop of `_cleave`) is the one of `Model/Digest.lean`,
unchanged.  With the site 0 listed twice, the N-terminal peptides are produced
from `start_idx = 0` (one `diff_idx` later) and from `start_idx = 1`; the clip test
`not start_idx` holds only for the former, so the clipped form of an N-terminal
peptide needs one missed cleavage more than the peptide itself
(`DigestSpecZ`, clause `clipZ`).  `DigestSpecZI` is the specification without
that restriction (the reading of the property text).
-/
namespace Mk

/-- zero-width enzyme rule: a one-residue look-behind on the class `lb`
(`(?<=lb)` when `lbPos`, else `(?<!lb)`) and a one-residue look-ahead on the class
`la` (`(?=la)` when `laPos`, else `(?!la)`).  An absent assertion is the negative
one on the empty class `[]` (always true). -/
structure EnzymeZ where
  lbPos : Bool
  lb : ResClass
  laPos : Bool
  la : ResClass

/-- both assertions at a position with left neighbour `prev` (`none` at the start
of the sequence) and remaining residues `rest`: at the start `(?<!..)` holds and
`(?<=..)` fails, at the end `(?!..)` holds and `(?=..)` fails -/
def zeroOk (e : EnzymeZ) (prev : Option Char) (rest : List Char) : Bool :=
  (prev.any e.lb.has == e.lbPos) && (rest.head?.any e.la.has == e.laPos)

/-- `[m.end() for m in enzyme_regex.finditer(sequence)]` for a zero-width rule: every
position from `off` on is tried once, the end of the sequence included.
src: mokapot/parsers/fasta.py:439-441 -/
def matchEndsZ (e : EnzymeZ) : Nat → Option Char → List Char → List Nat
  | off, prev, [] => if zeroOk e prev [] then [off] else []
  | off, prev, c :: rest =>
    if zeroOk e prev (c :: rest) then off :: matchEndsZ e (off + 1) (some c) rest
    else matchEndsZ e (off + 1) (some c) rest

/-- `_cleavage_sites` for a zero-width rule.  src: mokapot/parsers/fasta.py:419-443 -/
def cleavageSitesZ (e : EnzymeZ) (seq : List Char) : List Nat :=
  0 :: (matchEndsZ e 0 none seq ++ [seq.length])

/-- `mokapot.digest` for a zero-width rule.  src: mokapot/parsers/fasta.py:263-309 -/
def digestZ (e : EnzymeZ) (seq : List Char) (mc lo hi : Nat) (clip semi : Bool) : List Pep :=
  cleave seq (cleavageSitesZ e seq) mc lo hi semi clip

/-- the look-behind-only spelling `(?<=[cls])(?![notNext])` of the one-residue enzyme
`[cls](?![notNext])` -/
def Enzyme.toZ (e : Enzyme) : EnzymeZ := ⟨true, ⟨false, e.cls⟩, false, ⟨false, e.notNext⟩⟩

/-! ## Specification -/

/-- the residue left of position `p` -/
def prevAt (seq : List Char) : Nat → Option Char
  | 0 => none
  | q + 1 => seq[q]?

/-- an (empty) match of the rule lies at position `p` -/
def isEndZ (e : EnzymeZ) (seq : List Char) (p : Nat) : Bool :=
  decide (p ≤ seq.length) && ((prevAt seq p).any e.lb.has == e.lbPos)
    && ((seq[p]?).any e.la.has == e.laPos)

/-- cleavage positions: both ends of the sequence and every match position -/
def isSiteZ (e : EnzymeZ) (seq : List Char) (p : Nat) : Bool :=
  p == 0 || p == seq.length || isEndZ e seq p

/-- position 0 occurs twice in the list of sites -/
def startDupZ (e : EnzymeZ) (seq : List Char) : Bool := isEndZ e seq 0

/-- `len(sequence)` occurs twice in the list of sites -/
def endDupZ (e : EnzymeZ) (seq : List Char) : Bool :=
  seq.length == 0 || isEndZ e seq seq.length

/-- `DigestSpecS` for a list of sites in which position 0 may be listed twice
(`dup`): the clipped form of an N-terminal peptide then needs the peptide to stay
one missed cleavage below the limit (the peptide is reached from `start_idx = 0`
one `diff_idx` later, and from `start_idx = 1`, where `not start_idx` fails). -/
def DigestSpecSD (S : Nat → Bool) (dup : Bool) (seq : List Char) (mc lo hi : Nat) (clip semi : Bool)
    (p : Pep) : Prop :=
  ∃ a b, EnzymaticS S seq.length mc lo hi a b ∧
    (p = slice seq a b
      ∨ (clip = true ∧ a = 0 ∧ seq.head? = some 'M' ∧ lo ≤ b - 1
            ∧ (dup = true → missedS S 0 b + 1 ≤ mc) ∧ p = slice seq 1 b)
      ∨ (semi = true ∧ ∃ k, 1 ≤ k ∧ k < b - a ∧ lo ≤ b - a - k
            ∧ (p = slice seq (a + k) b ∨ p = slice seq a (b - k))))

/-- **What the code returns for a zero-width rule** (all bounds): the fully enzymatic
peptides, their semi forms, the clipped forms of the N-terminal peptides (with the
restriction of `DigestSpecSD` when position 0 is listed twice), and the empty
peptide when `min_length = 0` and an end of the sequence is listed twice. -/
def DigestSpecZ (e : EnzymeZ) (seq : List Char) (mc lo hi : Nat) (clip semi : Bool) (p : Pep) : Prop :=
  DigestSpecSD (isSiteZ e seq) (startDupZ e seq) seq mc lo hi clip semi p
    ∨ (lo = 0 ∧ p = [] ∧ (startDupZ e seq = true ∨ endDupZ e seq = true))

/-- **The specification as the property text reads**: `DigestSpecS` for the cleavage
positions of the rule (clipped form of *every* qualifying N-terminal peptide), and
the empty peptide as above. -/
def DigestSpecZI (e : EnzymeZ) (seq : List Char) (mc lo hi : Nat) (clip semi : Bool) (p : Pep) : Prop :=
  DigestSpecS (isSiteZ e seq) seq mc lo hi clip semi p
    ∨ (lo = 0 ∧ p = [] ∧ (startDupZ e seq = true ∨ endDupZ e seq = true))

/-- enumeration of `DigestSpecZ` at one pair of positions; `dup` = position 0 is
listed twice -/
def specAtZ (S : Nat → Bool) (dup : Bool) (seq : List Char) (mc lo hi : Nat) (clip semi : Bool)
    (a b : Nat) : List Pep :=
  if EnzymaticS S seq.length mc lo hi a b then
    slice seq a b
      :: ((if clip && a == 0 && seq.head? == some 'M' && decide (lo ≤ b - 1)
              && (!dup || decide (missedS S 0 b + 1 ≤ mc)) then [slice seq 1 b] else [])
        ++ (if semi then
              (List.range (b - a)).flatMap (fun k =>
                if decide (1 ≤ k) && decide (lo ≤ b - a - k) then [slice seq (a + k) b, slice seq a (b - k)]
                else [])
            else []))
  else []

def specListZS (S : Nat → Bool) (dup : Bool) (seq : List Char) (mc lo hi : Nat) (clip semi : Bool) :
    List Pep :=
  (List.range (seq.length + 1)).flatMap (fun a =>
    (List.range (seq.length + 1)).flatMap (fun b => specAtZ S dup seq mc lo hi clip semi a b))

/-- the table of match positions, computed once for the enumerations -/
def endsTableZ (e : EnzymeZ) (seq : List Char) : List Nat :=
  (List.range (seq.length + 1)).filter (isEndZ e seq)

/-- executable enumeration of `DigestSpecZ` (driver op `digestspecz`) -/
def specListZ (e : EnzymeZ) (seq : List Char) (mc lo hi : Nat) (clip semi : Bool) : List Pep :=
  let ends := endsTableZ e seq
  let S := fun p => p == 0 || p == seq.length || ends.contains p
  specListZS S (ends.contains 0) seq mc lo hi clip semi
    ++ (if lo == 0 && (ends.contains 0 || seq.length == 0 || ends.contains seq.length) then [[]] else [])

/-- executable enumeration of `DigestSpecZI` (driver op `digestspeczi`) -/
def specListZI (e : EnzymeZ) (seq : List Char) (mc lo hi : Nat) (clip semi : Bool) : List Pep :=
  let ends := endsTableZ e seq
  let S := fun p => p == 0 || p == seq.length || ends.contains p
  specListS S seq mc lo hi clip semi
    ++ (if lo == 0 && (ends.contains 0 || seq.length == 0 || ends.contains seq.length) then [[]] else [])

end Mk
