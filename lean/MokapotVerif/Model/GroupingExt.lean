import MokapotVerif.Model.Grouping
/-!
# Extensions of the grouping model (C16)

Three parts of the anchored code that `Model/Grouping.lean` reaches only through
`readFastaOf`, each now a model function of its own:

* **A.** `_group_proteins(proteins, peptides)` as an entry point: any `proteins`
  dict in any insertion order, any `peptides` dict that is the inverted
  incidence of it (any key order, any enumeration of each set); the function's
  own stable sort; both return values (`grouped` and the mutated `peptides`).
* **B.** the loop of `read_fasta` over the parsed entries (fasta.py:85-101): the
  peptide set of an entry is `digest(seq, …)`, a Python set; the digest is a
  parameter (instantiated with `Mk.digest` in the driver and in `Props/C16Ext`).
* **C.** the decoy test `prot_name.startswith(decoy_prefix)` and the decoy name
  `decoy_prefix + prot_name` on character lists (fasta.py:121-123); in
  `Model/Grouping.lean` they are the abstract parameters `isDecoy` / `mkDecoy`.
-/
namespace Mk.Grouping
variable {α β : Type} [DecidableEq α] [DecidableEq β]

/-! ## A. `_group_proteins` as an entry point -/

/-- the `peptides` argument as the caller holds it (peptide ↦ set of protein names),
brought into the key form of the model: a bare protein name `q` is the
one-element group key `[q]` -/
def wrapIndex (pm : List (β × List α)) : List (PepEntry α β) :=
  pm.map (fun e => (e.1, e.2.map (fun q => [q])))

/-- `sorted(proteins.items(), key=lambda x: -len(x[1]))`: stable, so proteins of equal
size keep the insertion order of the `proteins` dict.  src: mokapot/parsers/fasta.py:536 -/
def sortDesc (prots : List (Prot α β)) : List (Prot α β) :=
  prots.mergeSort (fun a b => decide (b.2.length ≤ a.2.length))

/-- `_group_proteins(proteins, peptides)` for *some* arrangement `srt` of the proteins by
decreasing size and any enumeration of the match sets; the result state holds both
return values: `.grouped` and the (mutated, returned) `.pepmap`.
src: mokapot/parsers/fasta.py:515-563 -/
def groupProteinsOf (enum : Nat → List (GKey α) → List (GKey α))
    (pmW : List (PepEntry α β)) (srt : List (Prot α β)) : St α β :=
  groupGo enum ⟨[], pmW⟩ srt

/-- executable `_group_proteins`: the stable sort of the code, sets enumerated in
insertion order (or reversed, `rev`) -/
def groupProteins (rev : Bool) (prots : List (Prot α β)) (pm : List (β × List α)) : St α β :=
  groupProteinsOf (fun _ s => if rev then s.reverse else s) (wrapIndex pm) (sortDesc prots)

/-- does that run stay clear of `KeyError`s? -/
def groupProteinsSafe (rev : Bool) (prots : List (Prot α β)) (pm : List (β × List α)) : Bool :=
  groupGoSafe (fun _ s => if rev then s.reverse else s) ⟨[], wrapIndex pm⟩ (sortDesc prots)

/-- **precondition of `_group_proteins`** (declarative): `pmW` is the inverted incidence of
the proteins `P` — every peptide of every protein is a key, and the set stored under
`p` holds, once each, exactly the proteins whose peptide set contains `p`.  Nothing
is said about the order of keys or the enumeration of the sets. -/
structure IsPepIndex (P : List (Prot α β)) (pmW : List (PepEntry α β)) : Prop where
  keys_nodup : (pmW.map (·.1)).Nodup
  complete : ∀ q S, (q, S) ∈ P → ∀ p ∈ S, p ∈ pmW.map (·.1)
  sets : ∀ p ks, (p, ks) ∈ pmW →
    ks.Nodup ∧ ∀ key, key ∈ ks ↔ ∃ q S, (q, S) ∈ P ∧ key = [q] ∧ p ∈ S

/-- the same precondition on the caller's form of the dict (bare protein names) -/
structure IsRawIndex (P : List (Prot α β)) (pm : List (β × List α)) : Prop where
  keys_nodup : (pm.map (·.1)).Nodup
  complete : ∀ q S, (q, S) ∈ P → ∀ p ∈ S, p ∈ pm.map (·.1)
  sets : ∀ p qs, (p, qs) ∈ pm → qs.Nodup ∧ ∀ q, q ∈ qs ↔ ∃ S, (q, S) ∈ P ∧ p ∈ S

/-- Boolean test of `IsRawIndex` (driver op `gdwf`) -/
def isRawIndexB (P : List (Prot α β)) (pm : List (β × List α)) : Bool :=
  decide ((pm.map (·.1)).Nodup) &&
  P.all (fun e => e.2.all (fun p => pm.any (fun x => decide (x.1 = p)))) &&
  pm.all (fun x => decide (x.2.Nodup) &&
    x.2.all (fun q => P.any (fun e => decide (e.1 = q) && decide (x.1 ∈ e.2))) &&
    P.all (fun e => !decide (x.1 ∈ e.2) || decide (e.1 ∈ x.2)))

/-- **postcondition on the returned `peptides` dict** (declarative): under every peptide
stand, once each, exactly the names of the groups of `g` whose peptide set contains it -/
structure IsGroupIndex (g : List (Group α β)) (pm' : List (PepEntry α β)) : Prop where
  keys_nodup : (pm'.map (·.1)).Nodup
  sets : ∀ p ks, (p, ks) ∈ pm' → ks.Nodup ∧ ∀ k, k ∈ ks ↔ ∃ S, (k, S) ∈ g ∧ p ∈ S

/-- the group index of `gs` over the peptide keys `keys`, evaluated directly (spec side of
the driver op `gdspec`) -/
def groupIndexOf (gs : List (Group α β)) (keys : List β) : List (PepEntry α β) :=
  keys.map (fun p => (p, (groupsOf gs p).map (·.1)))

/-! ## B. from sequences: the digest loop of `read_fasta` -/

/-- `for entry in fasta: prot, seq = _parse_protein(entry); peps = digest(seq, …)` — the
peptide set of every parsed entry (a Python set: duplicates of the digest's insertion
list collapse).  `dig` is the digest with the options of the call.
src: mokapot/parsers/fasta.py:85-96 -/
def digestEntries {σ : Type} (dig : σ → List β) (fasta : List (α × σ)) : List (Prot α β) :=
  fasta.map (fun e => (e.1, toSet (dig e.2)))

/-- `read_fasta` from the parsed (name, sequence) entries on, for some arrangement `srt` of
the proteins by decreasing size and any enumeration of the match sets.
src: mokapot/parsers/fasta.py:82-187 -/
def readFastaSeqOf {σ : Type} (isDecoy : α → Bool) (mkDecoy : α → α)
    (enum : Nat → List (GKey α) → List (GKey α)) (dig : σ → List β)
    (fasta : List (α × σ)) (srt : List (Prot α β)) : Option (Out α β) :=
  readFastaOf isDecoy mkDecoy enum (digestEntries dig fasta) srt

/-- executable `read_fasta` from sequences (stable sorts; match sets in insertion order or,
`rev`, reversed) -/
def readFastaSeq {σ : Type} (isDecoy : α → Bool) (mkDecoy : α → α) (rev : Bool) (dig : σ → List β)
    (fasta : List (α × σ)) : Option (Out α β) :=
  readFastaSeqOf isDecoy mkDecoy (fun _ s => if rev then s.reverse else s) dig fasta
    (sortProteins (buildProteins (digestEntries dig fasta)))

/-- does that run stay clear of `KeyError`s? -/
def readFastaSeqSafe {σ : Type} (rev : Bool) (dig : σ → List β) (fasta : List (α × σ)) : Bool :=
  groupGoSafe (fun _ s => if rev then s.reverse else s) ⟨[], pepmap0 (digestEntries dig fasta)⟩
    (sortProteins (buildProteins (digestEntries dig fasta)))

/-! ## C. decoy names by prefix -/

/-- `prot_name.startswith(decoy_prefix)`.  src: mokapot/parsers/fasta.py:121 -/
def isDecoyPre (pre name : List Char) : Bool := pre.isPrefixOf name

/-- `decoy_prefix + prot_name`.  src: mokapot/parsers/fasta.py:123 -/
def mkDecoyPre (pre name : List Char) : List Char := pre ++ name

end Mk.Grouping
