/-!
# Model of the PIN → rectangular TSV conversion  (mokapot/parsers/pin_to_tsv.py)

Import-free.  Text is `List Char`.  The model follows the code statement by
statement: Python file iteration (`pyLines`), `str.rstrip("\r\n")`, `str.split(sep)`,
list slicing with Python's negative-index rules, `sep.join`, `str.startswith`.
The column separator is one character `sepC` (default `'\t'`), the protein
separator an arbitrary string `sepP` (default `":"`).

The second half of the file is the *declarative specification*: an abstract
PIN document (header columns, optional DefaultDirection line, rows split into
the fields before / in / after the protein column, optional whitespace padding
around each line) with its rendering to PIN text and the rendering of the
rectangular table the conversion must produce.
-/
namespace Mk

abbrev Str := List Char

/-! ## Python string primitives -/

/-- `str.isspace` of one character; the set `str.strip()` removes.
(Checked against CPython for every code point by the harness.) -/
def pyIsSpace (c : Char) : Bool :=
  let n := c.toNat
  (9 ≤ n && n ≤ 13) || (28 ≤ n && n ≤ 32) || n == 0x85 || n == 0xA0 || n == 0x1680 ||
  (0x2000 ≤ n && n ≤ 0x200A) || n == 0x2028 || n == 0x2029 || n == 0x202F || n == 0x205F || n == 0x3000

def lstrip (l : Str) : Str := l.dropWhile pyIsSpace
def rstrip (l : Str) : Str := (l.reverse.dropWhile pyIsSpace).reverse
/-- `str.strip()` -/
def strip (l : Str) : Str := rstrip (lstrip l)

/-- the characters `str.rstrip("\r\n")` removes -/
def isEol (c : Char) : Bool := c == '\r' || c == '\n'
/-- `line.rstrip("\r\n")`: only the line terminator (and carriage returns left before it by a source that
does not translate newlines) is removed — blanks, tabs and hence empty first / last fields stay.
(Until commit 750c44b of /repo the code used `str.strip()`, kept above as `strip` for the refuted
variant `Mutants.pinToTsvStripWs`.)  src: mokapot/parsers/pin_to_tsv.py:51,192,199,212 -/
def chomp (l : Str) : Str := (l.reverse.dropWhile isEol).reverse

def consHead (c : Char) : List Str → List Str
  | [] => [[c]]
  | x :: xs => (c :: x) :: xs

/-- `line.split(sep)` for a one-character separator (never returns `[]`). -/
def splitOn (sep : Char) : Str → List Str
  | [] => [[]]
  | c :: cs => if c = sep then [] :: splitOn sep cs else consHead c (splitOn sep cs)

/-- `sep.join(parts)` -/
def joinWith (sep : Str) : List Str → Str
  | [] => []
  | [x] => x
  | x :: y :: r => x ++ sep ++ joinWith sep (y :: r)

/-- the lines a text file object yields when iterated (each keeps its `'\n'`;
a last unterminated fragment is a line when it is non-empty). -/
def pyLines : Str → List Str
  | [] => []
  | c :: cs => if c = '\n' then [c] :: pyLines cs else consHead c (pyLines cs)

/-- normalisation of one slice bound for a sequence of length `n`:
negative bounds count from the end, everything is clamped to `[0, n]`. -/
def pyIdx (n : Nat) (i : Int) : Nat := if i < 0 then (i + n).toNat else min i.toNat n

/-- `l[a:b]` -/
def pySlice {β : Type} (l : List β) (a b : Int) : List β :=
  (l.take (pyIdx l.length b)).drop (pyIdx l.length a)
/-- `l[:b]` -/
def pyUpTo {β : Type} (l : List β) (b : Int) : List β := l.take (pyIdx l.length b)
/-- `l[a:]` -/
def pyFrom {β : Type} (l : List β) (a : Int) : List β := l.drop (pyIdx l.length a)

def proteinsName : Str := ['P', 'r', 'o', 't', 'e', 'i', 'n', 's']
def ddName : Str := ['D', 'e', 'f', 'a', 'u', 'l', 't', 'D', 'i', 'r', 'e', 'c', 't', 'i', 'o', 'n']

/-- `line.startswith("DefaultDirection")` -/
def isDD (line : Str) : Bool := ddName.isPrefixOf line

/-! ## The conversion -/

/-- `convert_line_pin_to_tsv` on the already split line: the surplus
`len(elements) - n_col` fields after the protein column are folded into it.
src: mokapot/parsers/pin_to_tsv.py:97-102 -/
def convertFields (sepP : Str) (elements : List Str) (idx nCol : Nat) : List Str :=
  let nProteins : Int := (elements.length : Int) - (nCol : Int)
  let idxStart : Int := (idx : Int)
  let idxEnd : Int := (idx : Int) + nProteins + 1
  let proteins := joinWith sepP (pySlice elements idxStart idxEnd)
  pyUpTo elements idxStart ++ [proteins] ++ pyFrom elements idxEnd

/-- `convert_line_pin_to_tsv`.  src: mokapot/parsers/pin_to_tsv.py:58-104 -/
def convertLine (sepC : Char) (sepP : Str) (idx nCol : Nat) (line : Str) : Str :=
  joinWith [sepC] (convertFields sepP (splitOn sepC line) idx nCol)

inductive PinErr where
  | stopIteration   -- `next(f_in)` on an exhausted file
  | assertion       -- `assert "Proteins" in columns`
  deriving Repr, DecidableEq

/-- the second line: skipped when it starts with `DefaultDirection`, converted
otherwise.  src: mokapot/parsers/pin_to_tsv.py:199-209 -/
def secondOut (sepC : Char) (sepP : Str) (idx nCol : Nat) (second : Str) : List Str :=
  if isDD second then [] else [convertLine sepC sepP idx nCol second ++ ['\n']]

/-- everything after the header has been read.  Raises `StopIteration` when
there is no second line.  src: mokapot/parsers/pin_to_tsv.py:199-220 -/
def pinBody (sepC : Char) (sepP : Str) (idx nCol : Nat) : List Str → Except PinErr (List Str)
  | [] => .error .stopIteration
  | l2 :: more =>
    .ok (secondOut sepC sepP idx nCol (chomp l2)
          ++ more.map (fun line => convertLine sepC sepP idx nCol (chomp line) ++ ['\n']))

/-- after the header line has lost its terminator (`rstrip("\r\n")`): `parse_pin_header_columns`
(`n_col = len(columns)`, `idx = columns.index("Proteins")`, assertion), then
the body.  The header itself is written first.
src: mokapot/parsers/pin_to_tsv.py:22-55, 192-194 -/
def pinAfterHeader (sepC : Char) (sepP : Str) (header : Str) (rest : List Str) :
    Except PinErr (List Str) :=
  let columns := splitOn sepC (chomp header)
  if columns.contains proteinsName then
    (pinBody sepC sepP (columns.idxOf proteinsName) columns.length rest).map
      (fun out => (header ++ ['\n']) :: out)
  else .error .assertion

/-- `pin_to_valid_tsv` on the list of lines the input file yields; the result
is the list of strings passed to `f_out.write`, in order.  (When the real
function raises, the header — and nothing else — may already have been
written; the model only reports the error.)
src: mokapot/parsers/pin_to_tsv.py:154-220 -/
def pinToTsvLines (sepC : Char) (sepP : Str) : List Str → Except PinErr (List Str)
  | [] => .error .stopIteration
  | h :: rest => pinAfterHeader sepC sepP (chomp h) rest

/-- `pin_to_valid_tsv` from input text to output text -/
def pinToTsv (sepC : Char) (sepP : Str) (text : Str) : Except PinErr Str :=
  (pinToTsvLines sepC sepP (pyLines text)).map List.flatten

/-! ## The validity test -/

/-- `len(line.split(sep))` -/
def nFields (sepC : Char) (line : Str) : Nat := (splitOn sepC line).length

/-- the loop over the remaining lines with its early `return False`.
src: mokapot/parsers/pin_to_tsv.py:147-151 -/
def restOk (sepC : Char) (n : Nat) : List Str → Bool
  | [] => true
  | l :: ls => if nFields sepC l ≠ n then false else restOk sepC n ls

/-- `is_valid_tsv` on the lines of the file (no stripping here).
src: mokapot/parsers/pin_to_tsv.py:107-151 -/
def isValidLines (sepC : Char) : List Str → Except PinErr Bool
  | [] => .error .stopIteration
  | [_] => .error .stopIteration
  | h :: l2 :: more =>
    .ok (if isDD l2 then false
         else if nFields sepC l2 ≠ nFields sepC h then false
         else restOk sepC (nFields sepC h) more)

def isValid (sepC : Char) (text : Str) : Except PinErr Bool := isValidLines sepC (pyLines text)

/-- the CLI verify step: a file that is not a valid TSV is replaced by its
conversion (on a fresh `<pin>.tsv`), a valid one is left alone.
src: mokapot/mokapot.py:61-73 -/
def verifyStep (text : Str) : Except PinErr Str :=
  (isValid '\t' text).bind (fun v => if v then .ok text else pinToTsv '\t' [':'] text)

/-! ## Declarative specification -/

/-- one PSM row of a PIN file: the fields before the protein column, the
proteins (one field each), the fields after it, and whitespace around the line -/
structure PinRow where
  padL : Str
  pre : List Str
  prots : List Str
  post : List Str
  padR : Str
  deriving Repr

/-- all fields of the PIN line, in order -/
def PinRow.fields (r : PinRow) : List Str := r.pre ++ r.prots ++ r.post
/-- the fields of the rectangular line: the proteins are one field -/
def PinRow.tsvFields (sepP : Str) (r : PinRow) : List Str := r.pre ++ [joinWith sepP r.prots] ++ r.post
/-- the PIN line as text (without newline) -/
def PinRow.line (sepC : Char) (r : PinRow) : Str := r.padL ++ joinWith [sepC] r.fields ++ r.padR
/-- the rectangular line as text (without newline) -/
def PinRow.tsvLine (sepC : Char) (sepP : Str) (r : PinRow) : Str := joinWith [sepC] (r.tsvFields sepP)

/-- an abstract PIN document -/
structure PinDoc where
  hpadL : Str
  cols : List Str
  hpadR : Str
  /-- the raw text of the optional DefaultDirection line (without newline) -/
  dd : Option Str
  rows : List PinRow
  trailingNl : Bool
  deriving Repr

/-- text of a list of lines; every line but the last is terminated, the last
one iff `trailing` -/
def renderLines : List Str → Bool → Str
  | [], _ => []
  | [l], trailing => l ++ (if trailing then ['\n'] else [])
  | l :: l' :: r, trailing => l ++ '\n' :: renderLines (l' :: r) trailing

def PinDoc.headerLine (sepC : Char) (d : PinDoc) : Str := d.hpadL ++ joinWith [sepC] d.cols ++ d.hpadR

def PinDoc.lines (sepC : Char) (d : PinDoc) : List Str :=
  d.headerLine sepC :: (d.dd.toList ++ d.rows.map (PinRow.line sepC))

/-- the PIN text of a document -/
def renderPin (sepC : Char) (d : PinDoc) : Str := renderLines (d.lines sepC) d.trailingNl

/-- **Specification of the conversion**: the table (list of field lists) the
output must contain — the header columns, then one row per PSM in the original
order with the proteins joined; no DefaultDirection line. -/
def specTable (sepP : Str) (d : PinDoc) : List (List Str) := d.cols :: d.rows.map (PinRow.tsvFields sepP)

/-- the table as text: fields joined by the column separator, every line terminated -/
def renderTable (sepC : Char) (t : List (List Str)) : Str := renderLines (t.map (joinWith [sepC])) true

/-- the expected output text -/
def renderTsv (sepC : Char) (sepP : Str) (d : PinDoc) : Str := renderTable sepC (specTable sepP d)

/-- drop one final newline -/
def chopNl (l : Str) : Str := if l.getLast? = some '\n' then l.dropLast else l

/-- reading a text back into a table: lines, minus their terminator, split at
the column separator -/
def parseTable (sepC : Char) (text : Str) : List (List Str) :=
  (pyLines text).map (fun l => splitOn sepC (chopNl l))

/-- the document the output represents: one protein field per row, no padding,
no DefaultDirection line, trailing newline -/
def PinDoc.converted (sepP : Str) (d : PinDoc) : PinDoc :=
  { hpadL := [], cols := d.cols, hpadR := [], dd := none,
    rows := d.rows.map (fun r => { padL := [], pre := r.pre, prots := [joinWith sepP r.prots], post := r.post, padR := [] }),
    trailingNl := true }

/-! ### Well-formedness (decidable) -/

def allB {β : Type} (p : β → Bool) (l : List β) : Bool := l.all p

/-- a field contains neither the column separator nor a newline -/
def fieldOk (sepC : Char) (f : Str) : Bool := !f.contains sepC && !f.contains '\n'

/-- what may follow a line before its terminator and is removed by the conversion: carriage returns
(a CRLF text given to the function by a source that does not translate newlines) -/
def padOk (p : Str) : Bool := p.all (fun c => c == '\r')

/-- the last field of a line does not end with a carriage return (`rstrip("\r\n")` would take it for
a part of the line terminator).  Empty first and last fields, blanks at either end are all allowed. -/
def edgeOk (fs : List Str) : Bool := (fs.getLast?.map (fun f => f.getLast? != some '\r')).getD false

/-- well-formed row for a header with `nCol` columns and the protein column at `idx`: nothing before the
first field, only carriage returns after the last one; the fields may be empty -/
def rowOk (sepC : Char) (idx nCol : Nat) (r : PinRow) : Bool :=
  r.padL.isEmpty && padOk r.padR &&
  r.pre.length == idx && !r.prots.isEmpty && r.post.length + idx + 1 == nCol &&
  r.fields.all (fieldOk sepC) && edgeOk r.fields

/-- well-formed DefaultDirection line -/
def ddOk (l : Str) : Bool := !l.contains '\n' && isDD (chomp l)

/-- the line that follows the header is a PSM row: it must not itself look
like a DefaultDirection line -/
def firstRowOk (sepC : Char) (d : PinDoc) : Bool :=
  d.dd.isSome || (d.rows.head?.map (fun r => !isDD (joinWith [sepC] r.fields))).getD false

/-- a last line that is empty (one empty field) only exists when it is terminated -/
def lastLineOk (sepC : Char) (d : PinDoc) : Bool :=
  d.trailingNl || ((d.lines sepC).getLast?.map (fun l => !l.isEmpty)).getD true

/-- **Well-formed PIN document**: header with a `Proteins` column, optional
DefaultDirection line, rows with `idx` fields, then ≥ 1 proteins, then the
remaining fields; no field contains a separator or newline; fields may be empty
or blank, also the first and the last one of a line; lines may end with `"\r\n"`. -/
def PinDoc.wf (sepC : Char) (d : PinDoc) : Bool :=
  sepC != '\n' &&
  d.hpadL.isEmpty && padOk d.hpadR && d.cols.all (fieldOk sepC) && edgeOk d.cols &&
  d.cols.contains proteinsName &&
  (d.dd.map ddOk).getD true &&
  d.rows.all (rowOk sepC (d.cols.idxOf proteinsName) d.cols.length) &&
  (d.dd.isSome || !d.rows.isEmpty) &&
  firstRowOk sepC d &&
  sepC != '\r' && lastLineOk sepC d

/-- the protein separator does not disturb the table structure -/
def sepPOk (sepC : Char) (sepP : Str) : Bool := fieldOk sepC sepP

/-- the first converted row does not look like a DefaultDirection line -/
def firstTsvRowOk (sepC : Char) (sepP : Str) (d : PinDoc) : Bool :=
  (d.rows.head?.map (fun r => !isDD (r.tsvLine sepC sepP))).getD false

/-- the converted rows do not end with a carriage return either (needed when the output is read again:
a last protein that is empty after a separator / neighbour ending with `'\r'`) -/
def tsvEdgeOk (sepP : Str) (d : PinDoc) : Bool := d.rows.all (fun r => edgeOk (r.tsvFields sepP))

/-- **Specification of the validity test** on the lines of a file (Boolean
form, evaluated by the driver): at least two lines, the second is not a
DefaultDirection line, and every line has as many column separators as the
first.  The `Prop` form is in `Props/C19.lean`. -/
def validSpecB (sepC : Char) (lines : List Str) : Bool :=
  decide (2 ≤ lines.length) && !((lines.tail.head?.map isDD).getD false) &&
  lines.tail.all (fun l => l.count sepC == (lines.headD []).count sepC)

/-! ## Entry points that work on files, and the header helper (extension) -/

/-- `parse_pin_header_columns(header, sep_column)` as a function of its own
(`header.rstrip("\r\n").split(sep)`, the assertion, `len(columns)`,
`columns.index("Proteins")`): `(n_col, idx_protein_col)`.
`pinAfterHeader` above inlines exactly this (`pinAfterHeader_eq_parseHeaderCols`).
src: mokapot/parsers/pin_to_tsv.py:22-55 -/
def parseHeaderCols (sepC : Char) (header : Str) : Except PinErr (Nat × Nat) :=
  let columns := splitOn sepC (chomp header)
  if columns.contains proteinsName then .ok (columns.length, columns.idxOf proteinsName)
  else .error .assertion

/-- what `open(path, 'r')` (text mode, universal newlines) hands to the
program for the stored characters: `"\r\n"` and a lone `"\r"` are read as
`"\n"`.  The flag says that the previous character was a `'\r'`. -/
def univNlAux : Bool → Str → Str
  | _, [] => []
  | prevCR, c :: cs =>
    if c = '\r' then '\n' :: univNlAux true cs
    else if c = '\n' then (if prevCR then univNlAux false cs else '\n' :: univNlAux false cs)
    else c :: univNlAux false cs

def univNl (raw : Str) : Str := univNlAux false raw

/-- the command line tool `python -m mokapot.parsers.pin_to_tsv path_in path_out
[--sep_column c] [--sep_protein p]`: the separators default to tab and `":"`,
the input file is read in text mode, the output file is opened with `'w'`
(whatever it held before, `_oldOut`, is discarded) and receives the conversion.
The result is the content of `path_out` afterwards.
src: mokapot/parsers/pin_to_tsv.py:223-239 -/
def toolMain (sepC : Option Char) (sepP : Option Str) (rawIn _oldOut : Str) : Except PinErr Str :=
  pinToTsv (sepC.getD '\t') (sepP.getD [':']) (univNl rawIn)

/-- the CLI verify step on one stored file: both `open(path_pin, 'r')` read in
text mode; a valid file keeps its stored characters, an invalid one is
replaced by the conversion of what was read.
src: mokapot/mokapot.py:65-73 -/
def verifyStepFile (raw : Str) : Except PinErr Str :=
  (isValid '\t' (univNl raw)).bind (fun v => if v then .ok raw else pinToTsv '\t' [':'] (univNl raw))

/-- `for path_pin in config.psm_files:` — the files (distinct paths) are
treated one after the other, in the order given; the first exception aborts.
src: mokapot/mokapot.py:64-73 -/
def verifyFilesLoop : List Str → Except PinErr (List Str)
  | [] => .ok []
  | f :: fs => (verifyStepFile f).bind (fun o => (verifyFilesLoop fs).map (fun os => o :: os))

/-- the whole verify step of the CLI: `if config.verify_pin:` (option
`--verify_pin`, default on) guards the loop; the result is the content of the
PSM files afterwards.  src: mokapot/mokapot.py:63-73 -/
def verifyFiles (verifyPin : Bool) (files : List Str) : Except PinErr (List Str) :=
  if verifyPin then verifyFilesLoop files else .ok files

/-! ### specification side of the extension -/

/-- rendering with a given line terminator (`"\n"`, `"\r\n"` or `"\r"`) -/
def renderLinesT (t : Str) : List Str → Bool → Str
  | [], _ => []
  | [l], trailing => l ++ (if trailing then t else [])
  | l :: l' :: r, trailing => l ++ t ++ renderLinesT t (l' :: r) trailing

/-- the stored characters of a PIN document written with line terminator `t` -/
def renderPinT (sepC : Char) (t : Str) (d : PinDoc) : Str := renderLinesT t (d.lines sepC) d.trailingNl

/-- the three line terminators text mode recognises -/
def lineTerminators : List Str := [['\n'], ['\r', '\n'], ['\r']]

def noCRs (s : Str) : Bool := !s.contains '\r'

def PinRow.noCR (r : PinRow) : Bool := noCRs r.padL && noCRs r.padR && r.fields.all noCRs

/-- no carriage return inside the document (it may still be *stored* with
`"\r\n"` or `"\r"` line ends) -/
def PinDoc.noCR (d : PinDoc) : Bool :=
  noCRs d.hpadL && noCRs d.hpadR && d.cols.all noCRs && (d.dd.map noCRs).getD true && d.rows.all PinRow.noCR

end Mk
