import MokapotVerif.Model.QvaluesArr
/-!
# The score array on its way into the sort  (mokapot/qvalues.py:104-116)

`Model/QvaluesArr.lean` starts from scores in an abstract ordered type with the direction as a
relation (`dirLe`).  The code does two more things to the score array before it ranks, and both
are where an integer dtype can go wrong:

    if np.issubdtype(scores.dtype, np.integer): scores = scores.astype(np.float64)   qvalues.py:106-107
    srt_idx = np.argsort(-scores)   if desc   else   np.argsort(scores)              qvalues.py:110-113

This file models them: `f64OfInt` (the value a float64 takes for an integer: exact below 2^53,
round-to-nearest-even to 53 significant bits beyond; until /repo 36ef8db the cast was to float32,
`f32OfInt`, exact below 2^24 only — kept here for the refuted variant and for float32 *counts*), `prepScores`, the sort key `sortKey`
(negated when higher is better) with the *ascending* `argsort` on the key, and the entry `tdcEntry`
= validation, cast, key sort, array-level sweep.  Float scores are exact rationals.  Import-free.
-/
namespace Mk.Qv
open Mk

/-- natural order of the (float) scores -/
def leqQ (a b : Rat) : Bool := decide (a ≤ b)

/-- natural order of integer scores -/
def leqZ (a b : Int) : Bool := decide (a ≤ b)

/-- a natural number rounded to 24 significant bits, ties to even: the magnitude a float32
takes for it (no overflow for anything a 64-bit integer dtype holds).  Used for the float32
*count* type (`Model/QvaluesCnt.lean`) and the former float32 cast of the scores. -/
def roundNat24 (m : Nat) : Nat :=
  if m < 2 ^ 24 then m
  else if m % 2 ^ (Nat.log2 m - 23) < 2 ^ (Nat.log2 m - 24) then
    (m / 2 ^ (Nat.log2 m - 23)) * 2 ^ (Nat.log2 m - 23)
  else if 2 ^ (Nat.log2 m - 24) < m % 2 ^ (Nat.log2 m - 23) then
    (m / 2 ^ (Nat.log2 m - 23) + 1) * 2 ^ (Nat.log2 m - 23)
  else if (m / 2 ^ (Nat.log2 m - 23)) % 2 = 0 then
    (m / 2 ^ (Nat.log2 m - 23)) * 2 ^ (Nat.log2 m - 23)
  else (m / 2 ^ (Nat.log2 m - 23) + 1) * 2 ^ (Nat.log2 m - 23)

/-- `np.float32(x)` for an integer `x` (sign and rounded magnitude): the cast of qvalues.py:107
before /repo 36ef8db; now only the refuted variant (`Mutants/QvaluesKey.lean`). -/
def f32OfInt (x : Int) : Int :=
  if x < 0 then -((roundNat24 x.natAbs : Nat) : Int) else ((roundNat24 x.natAbs : Nat) : Int)

/-- a natural number rounded to 53 significant bits, ties to even: the magnitude a float64
takes for it.  src: mokapot/qvalues.py:107 (`astype(np.float64)`) -/
def roundNat53 (m : Nat) : Nat :=
  if m < 2 ^ 53 then m
  else if m % 2 ^ (Nat.log2 m - 52) < 2 ^ (Nat.log2 m - 53) then
    (m / 2 ^ (Nat.log2 m - 52)) * 2 ^ (Nat.log2 m - 52)
  else if 2 ^ (Nat.log2 m - 53) < m % 2 ^ (Nat.log2 m - 52) then
    (m / 2 ^ (Nat.log2 m - 52) + 1) * 2 ^ (Nat.log2 m - 52)
  else if (m / 2 ^ (Nat.log2 m - 52)) % 2 = 0 then
    (m / 2 ^ (Nat.log2 m - 52)) * 2 ^ (Nat.log2 m - 52)
  else (m / 2 ^ (Nat.log2 m - 52) + 1) * 2 ^ (Nat.log2 m - 52)

/-- `np.float64(x)` for an integer `x` (sign and rounded magnitude).
src: mokapot/qvalues.py:106-107 -/
def f64OfInt (x : Int) : Int :=
  if x < 0 then -((roundNat53 x.natAbs : Nat) : Int) else ((roundNat53 x.natAbs : Nat) : Int)

/-- the score array as passed: a floating dtype (exact values) or any integer dtype -/
inductive ScoreArr where
  | floats (xs : List Rat)
  | ints (xs : List Int)

/-- number of scores (`scores.shape[0]`) -/
def ScoreArr.len : ScoreArr → Nat
  | .floats xs => xs.length
  | .ints xs => xs.length

/-- "Convert all scores to floats for safety": integer dtypes become float64, floating dtypes
stay as they are.  src: mokapot/qvalues.py:104-107 -/
def prepScores : ScoreArr → List Rat
  | .floats xs => xs
  | .ints xs => xs.map (fun x => ((f64OfInt x : Int) : Rat))

/-- what `np.argsort` is given: `-scores` when higher is better, `scores` otherwise.
src: mokapot/qvalues.py:110-113 -/
def sortKey (desc : Bool) (x : Rat) : Rat := if desc then -x else x

/-- the comparison of the *ascending* `argsort` on the key, on index-tagged rows -/
def keyLe (desc : Bool) (a b : (Rat × Bool) × Nat) : Bool :=
  decide (sortKey desc a.1.1 ≤ sortKey desc b.1.1)

/-- `tdc` from the sort on: ascending merge sort on the key as one admissible `argsort`, then
the array-level sweep and the un-sort.  src: mokapot/qvalues.py:110-144 -/
def tdcKeyArr (desc : Bool) (xs : List (Rat × Bool)) : Option (List Rat) :=
  tdcArrOf leqQ desc xs.length (xs.zipIdx.mergeSort (keyLe desc))

/-- `tdc(scores, target, desc)` with the score dtype explicit: labels validated, lengths
compared (the cast keeps the length), integer scores cast to float64, sort on the key, sweep.
The inner `Option` is the `_fdr2qvalue` loop (never `none`, see `C01_entry_floats_eq_spec`).
src: mokapot/qvalues.py:81-144 -/
def tdcEntry (desc : Bool) (scores : ScoreArr) (labels : LabelArr) : Except TdcErr (Option (List Rat)) :=
  (checkInput (prepScores scores) labels).map (tdcKeyArr desc)

/-- `_update_labels` on top of that entry (array inputs). src: mokapot/dataset.py:735-740 -/
def updateLabelsEntry (desc : Bool) (thr : Rat) (scores : ScoreArr) (labels : LabelArr) :
    Except TdcErr (Option (List Int)) :=
  (checkInput (prepScores scores) labels).map fun rows =>
    (tdcKeyArr desc rows).map fun qs => List.zipWith (fun x q => labelOf thr x.2 q) rows qs

end Mk.Qv
