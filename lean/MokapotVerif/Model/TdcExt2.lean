import MokapotVerif.Model.TdcExt
import MokapotVerif.Model.BrewMulti
/-!
# C04, second extension: model *objects* in `brew`, the reset path, the decision between the
three scoring branches

`Model/TdcExt.lean` has the two branches `ensemble=True` / `_predict` of brew.py:213-249 for
models that are *values*.  The held-out clause of C04 ("PSMs are only ever scored by a model that
has not seen them") is a statement about model **objects** with state: an estimator of maximal
capacity remembers every row it was ever fitted on, so it matters which object is fitted where,
which object scores, and what happens to the object the caller handed in.  Added here, following
the data flow of brew.py:186-252:

1. the fit loop over *deep copies* of the caller's model (brew.py:186-189, 515-549): state of the
   caller's object after the loop, state and `reset` flag of every fold's copy;
2. the decision `reset` / all trained / training failed (brew.py:196-252) with the **reset
   path** (brew.py:199-210): the caller's model alone scores every collection through
   `_predict_with_ensemble(models=[model])`, calibrated over the whole collection;
3. the memorising learner as a state (`memFit`), used for witnesses and by the driver.

The 5 000 000-row loop of `make_train_sets` is `Brew.complementLoop` of `Model/BrewMulti.lean`
(C02), re-used as it is.  Import-free apart from other models.
-/
namespace Mk.TdcX
open Mk

/-! ## 1. The fit loop over deep copies -/

/-- `is_trained` of a fold's copy after `_fit_model`: a fit that ends normally sets it, a fit that
raises "Model performs worse after training." leaves what the copy inherited from the caller's
model (model.py:325-345) -/
def trainedAfter (worse inherited : Bool) : Bool := !worse || inherited

/-- the `reset` flag `_fit_model` returns: the fit got worse *and* the copy is a trained model
(brew.py:540-549) -/
def resetFlag (worse inherited : Bool) : Bool := worse && inherited

/-- `fitted = Parallel(…)(delayed(_fit_model)(d, psms, copy.deepcopy(model), f) for f, d in
enumerate(train_psms))` (brew.py:186-189): every fold fits **its own deep copy** of the caller's
model.  `σ` is the state of a model object (estimator parameters; for a learner of maximal
capacity the rows it has been fitted on), `fit st table` the state of an object in state `st`
after `Model.fit(table)` (whether or not the fit ends in the RuntimeError: the estimator is
fitted in place before the test, model.py:300-326), `worse st table` whether that fit ends in
"Model performs worse after training.", `trained st` the `is_trained` attribute.
Result: the state of the **caller's object** after the loop, and per fold
`(state of the copy, is_trained of the copy, reset flag)`.
src: mokapot/brew.py:186-189, 515-549 -/
def fitCopies {σ τ : Type} (fit : σ → τ → σ) (worse : σ → τ → Bool) (trained : σ → Bool)
    (init : σ) (tables : List τ) : σ × List (σ × Bool × Bool) :=
  (init, tables.map (fun t =>
    (fit init t, trainedAfter (worse init t) (trained init), resetFlag (worse init t) (trained init))))

/-- `reset = any(resets)` (brew.py:193-196) -/
def anyReset {σ : Type} (fitted : List (σ × Bool × Bool)) : Bool := fitted.any (fun m => m.2.2)

/-- `all([m.is_trained for m in models])` (brew.py:213) -/
def allTrained {σ : Type} (fitted : List (σ × Bool × Bool)) : Bool := fitted.all (fun m => m.2.1)

/-! ## 2. The three scoring branches -/

/-- the reset path for one collection (brew.py:199-210): the **caller's** model alone
(`models=[model]`) scores every prediction chunk, the mean over that one model is taken, and the
result is calibrated over the whole collection (`calAll` = `OnDiskPsmDataset.calibrate_scores`,
the subject of C11: a parameter here).  `orig r` is the output of the caller's model on row `r`.
src: mokapot/brew.py:199-210, 487-512 -/
def resetScores {ρ : Type} (c : Nat) (rows : List ρ) (orig : ρ → Rat) (target : ρ → Bool)
    (calAll : List (Rat × Bool) → List Rat) : List Rat :=
  calAll ((predictEnsemble c rows 1 (fun _ => orig)).zip (rows.map target))

/-- **Specification** of the reset path: the outputs of the caller's model, row by row, calibrated
as a whole -/
def resetSpec {ρ : Type} (rows : List ρ) (orig : ρ → Rat) (target : ρ → Bool)
    (calAll : List (Rat × Bool) → List Rat) : List Rat :=
  calAll ((rows.map orig).zip (rows.map target))

/-- scores of one collection, all branches of brew.py:196-252: `reset` → the caller's model;
every fold model trained → `brewScores` (ensemble or per-fold held-out scoring); otherwise
(training failed) all zeros. -/
def brewScoresAll {ρ : Type} (reset trainedAll ensemble : Bool) (c nfolds : Nat) (rows : List ρ)
    (routing : List Nat) (score : Nat → ρ → Rat) (orig : ρ → Rat) (target : ρ → Bool)
    (cal : List (Rat × Bool) → Rat → Rat) (calAll : List (Rat × Bool) → List Rat) : List Rat :=
  if reset then resetScores c rows orig target calAll
  else if trainedAll then brewScores ensemble c nfolds rows routing score target cal
  else List.replicate rows.length 0

/-- state of the scorer of fold `f` -/
def copyState {σ : Type} [Inhabited σ] (fitted : List (σ × Bool × Bool)) (f : Nat) : σ :=
  (fitted.getD f (default, false, false)).1

/-- `brew` from the caller's model object to the scores of one collection: fit loop over deep
copies, decision, scoring.  `apply st r` is the output of a model object in state `st` on row `r`.
The scorer of fold `f` is the copy fitted on `tables[f]`; on the reset path it is the caller's
object in the state the fit loop left it in.  src: mokapot/brew.py:186-252 -/
def brewObjects {σ τ ρ : Type} [Inhabited σ] (fit : σ → τ → σ) (worse : σ → τ → Bool)
    (trained : σ → Bool) (apply : σ → ρ → Rat) (init : σ) (tables : List τ) (ensemble : Bool)
    (c : Nat) (rows : List ρ) (routing : List Nat) (target : ρ → Bool)
    (cal : List (Rat × Bool) → Rat → Rat) (calAll : List (Rat × Bool) → List Rat) : List Rat :=
  brewScoresAll (anyReset (fitCopies fit worse trained init tables).2)
    (allTrained (fitCopies fit worse trained init tables).2) ensemble c tables.length rows routing
    (fun f => apply (copyState (fitCopies fit worse trained init tables).2 f))
    (apply (fitCopies fit worse trained init tables).1) target cal calAll

/-! ## 3. The memorising learner as an object -/

/-- state of a learner of maximal capacity: the ids of all rows it has ever been fitted on;
`fit` adds the rows of the table -/
def memFit (st : List Nat) (table : List Nat) : List Nat := st ++ table

/-- a memorising object's output on row `(id, feature)`: the feature, plus 512 when it has been
fitted on the row (the probe estimator of the harness) -/
def memApply (st : List Nat) (r : Nat × Nat) : Rat :=
  ((r.2 + (if st.contains r.1 then 512 else 0) : Nat) : Rat)

end Mk.TdcX
