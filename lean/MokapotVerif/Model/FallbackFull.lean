import MokapotVerif.Model.FallbackTail
/-!
# Model of the tail of `brew` for every source of the compared scores, and of the sign handling of
`assign_confidence` down to the PEP estimator (second extension of `Model/Fallback.lean`)

`Model/FallbackTail.lean` follows the tail of `brew` for the scores of the per-fold models (or
zeros).  The code has two more sources of the scores that enter the comparison — the re-scoring by
the *original* model when a pretrained model got worse by re-training (`reset`) and the mean over
all fold models (`ensemble=True`) — and two more ways in which the fold models come about: a
pretrained model that is re-trained (its `feat_pass/best_feat/desc` come from the `is_trained`
branch of `_get_starting_labels`) and a list of trained models used as they are.  Here the
selection of the source is modelled as the code makes it and the tail is stated over *any*
compared scores, so that the safety net is proved for all of them.

src: mokapot/brew.py:152-170 (list of trained models: no fit, `reset = False`), 184-196 (`reset =
any(resets)`), 198-252 (which scores: reset / ensemble / per fold / zeros), 255-304 (comparison,
replacement), 563-571 (`_fit_model`: the flag `reset`), mokapot/model.py:564-576 (`is_trained`
branch of `_get_starting_labels`), mokapot/confidence.py:643-649 (entry: a lower-is-better score is
negated and treated as higher-is-better from then on), 421 (`scores * (desc * 2 - 1)` before the
PEP estimator; the span the property anchors as 412-417).  Line numbers of brew.py as of de6146d
(two more at 0d68f96).
-/
namespace Mk.Fallback
open Mk

/-! ## how a fold model comes about (`_fit_model`, brew.py:563-571; list entry, brew.py:152-170) -/

/-- what `_fit_model` sees of one fold: was the model handed to `brew` already trained, and did
`Model.fit` raise "Model performs worse after training." -/
structure FitRun where
  pretrained : Bool
  worse : Bool
  deriving Repr, DecidableEq

/-- `is_trained` of the fold model afterwards (`fit` sets it only when it does not raise;
a pretrained model keeps it) -/
def fitTrained (r : FitRun) : Bool := r.pretrained || !r.worse

/-- the second component returned by `_fit_model`: `reset = True` iff fit raised and
`model.is_trained` -/
def fitReset (r : FitRun) : Bool := r.worse && r.pretrained

/-- `reset = any(resets)` (brew.py:194); for a list of trained models every entry is `False` -/
def anyReset (runs : List FitRun) : Bool := runs.any fitReset

/-- `(best_feat, feat_pass, desc)` that `Model.fit` stores for a *pretrained* model
(model.py:564-576): `feat_pass` is the number of targets the model's own scores accept on the
training set, `best_feat`/`desc` are carried over from the earlier training -/
def pretrainedAttrs (carriedFeat : Nat) (carriedDesc : Bool) (ownPass : Nat) : Nat × Nat × Bool :=
  (carriedFeat, ownPass, carriedDesc)

/-! ## the scores that enter the comparison (brew.py:198-252) -/

/-- the two sources besides the per-fold scores, one list per collection -/
structure Sources where
  resetScores : List (List Int)      -- calibrated scores of the original model (brew.py:198-210)
  ensembleScores : List (List Int)   -- mean over all fold models (brew.py:214-222)
  deriving Repr, DecidableEq

/-- brew.py:198-252: `if reset … elif all trained: (ensemble | per fold) else zeros` -/
def brewScores (reset ensemble : Bool) (ms : List FoldModel) (colls : List Coll) (src : Sources) :
    List (List Int) :=
  if reset then src.resetScores
  else if ms.all (·.trained) then (if ensemble then src.ensembleScores else colls.map (·.modelScores))
  else colls.map zerosLike

/-- what is returned for a decision when `sc` are the compared scores (brew.py:276-289) -/
def returnOfG (sc : List (List Int)) (colls : List Coll) : Decision → List (List Int) × List Bool
  | .useModel => (sc, colls.map (fun _ => true))
  | .useFeature f d => (colls.map (featColumn f), colls.map (fun _ => d))

/-- the comparison and replacement for given compared scores (brew.py:255-304) -/
def brewTailG (ms : List FoldModel) (thr : Rat) (colls : List Coll) (sc : List (List Int)) :
    Option (List (List Int) × List Bool) :=
  (tailPred thr colls sc).map (fun pred => returnOfG sc colls (decide ms pred))

/-- the tail of `brew` with the source chosen as the code chooses it (brew.py:198-304) -/
def brewFull (reset ensemble : Bool) (ms : List FoldModel) (thr : Rat) (colls : List Coll) (src : Sources) :
    Option (List (List Int) × List Bool) :=
  brewTailG ms thr colls (brewScores reset ensemble ms colls src)

/-! ## declarative counterpart -/

/-- **Specification of the tail for compared scores `sc`** (`TailSpec` is the instance
`sc = tailScores ms colls`): either `sc` comes back, all marked higher-is-better, and — unless every
model forces its use — accepts at least as many genuine targets at `thr` as every fold model's
`feat_pass`; or a model with the largest `feat_pass`, strictly larger than what `sc` accepts,
supplies the result: every collection's column of its `best_feat`, its `desc` for every collection. -/
def TailSpecG (ms : List FoldModel) (thr : Rat) (colls : List Coll) (sc : List (List Int))
    (out : List (List Int) × List Bool) : Prop :=
  (out = (sc, colls.map (fun _ => true)) ∧
    (ms.all (·.override) = true ∨ ∀ m ∈ ms, m.featPass ≤ totalAccepted thr colls out.1)) ∨
  (ms.all (·.override) = false ∧ ∃ m ∈ ms,
    (∀ m' ∈ ms, m'.featPass ≤ m.featPass) ∧
    totalAccepted thr colls sc < m.featPass ∧
    out = (colls.map (featColumn m.bestFeat), colls.map (fun _ => m.desc)))

/-- Boolean form for a given way `tot` of counting -/
def tailSpecGWith (tot : List (List Int) → Nat) (ms : List FoldModel) (colls : List Coll)
    (sc : List (List Int)) (out : List (List Int) × List Bool) : Bool :=
  (out == (sc, colls.map (fun _ => true)) &&
    (ms.all (·.override) || ms.all (fun m => Decidable.decide (m.featPass ≤ tot out.1)))) ||
  (!ms.all (·.override) && ms.any (fun m =>
    ms.all (fun m' => Decidable.decide (m'.featPass ≤ m.featPass)) &&
    Decidable.decide (tot sc < m.featPass) &&
    out == (colls.map (featColumn m.bestFeat), colls.map (fun _ => m.desc))))

/-- over the declarative count (kernel-evaluable) -/
def tailSpecGB (ms : List FoldModel) (thr : Rat) (colls : List Coll) (sc : List (List Int))
    (out : List (List Int) × List Bool) : Bool :=
  tailSpecGWith (totalAccepted thr colls) ms colls sc out

/-- over the `tdc` sweep (what the driver evaluates on the implementation's output) -/
def tailSpecGX (ms : List FoldModel) (thr : Rat) (colls : List Coll) (sc : List (List Int))
    (out : List (List Int) × List Bool) : Bool :=
  tailSpecGWith (totalAcceptedX thr colls) ms colls sc out

/-! ## the sign of the scores from the entry of `assign_confidence` to the PEP estimator -/

/-- confidence.py:643-649: `if not desc: score = -score; desc = True` — the pair handed on -/
def entryFlip (desc : Bool) (col : List Int) : List Int × Bool :=
  if desc then (col, true) else (col.map (fun s => -s), true)

/-- confidence.py:421 (anchor 412-417) `self.scores = self.scores * (desc * 2 - 1)`: what the PEP estimator is
given at a level whose (ranked, higher-is-better) scores are `scores` -/
def pepInput (desc : Bool) (scores : List Int) : List Int :=
  scores.map (fun s => s * (if desc then 1 else -1))

/-- the PEP estimator's input for a score column of direction `desc` handed to `assign_confidence` -/
def pepScores (desc : Bool) (col : List Int) : List Int :=
  pepInput (entryFlip desc col).2 (entryFlip desc col).1

end Mk.Fallback
