import MokapotVerif.Model.ConfidenceRun
import MokapotVerif.Model.ConfidenceRollup
/-!
# `assign_confidence`: what happens *before* the chunk files exist, and the roll-up tool's buffers

`Model/Confidence*.lean` start from rows that already carry their score.  The code does not: the
PSM table is read in chunks of `CONFIDENCE_CHUNK_SIZE` rows (`get_chunked_data_iterator`), the
score vector — a separate argument of `assign_confidence`, negated first when lower scores are
better — is cut by `create_chunks(score, CONFIDENCE_CHUNK_SIZE)`, the two chunk streams (and the
list of temporary paths, one per *score* slice) are `zip`ped, and every table chunk gets its
slice as a new column (`chunk_metadata.assign(score=score_chunk)`).  When the loop has written
fewer files than there are paths (more score slices than table chunks) the call raises.

src: mokapot/confidence.py:644-649 (`score = -score`), 843-916 (`create_sorted_file_iterator`),
919-941 (`_save_sorted_metadata_chunks`).

Second part: the temporary level files of the stand-alone roll-up tool are written through a
`BufferedWriter` (`buffer_size=1000`, `TableType.Dicts`): rows are collected in a list, the first
`buffer_size` rows are handed on whenever at least that many are waiting, the rest at `finalize`.
src: mokapot/brew_rollup.py:373-420, mokapot/tabular_data.py:507-563.

No Mathlib import.
-/
namespace Mk

/-! ## the score column -/

/-- `if not desc: score = -score` (a lower-is-better score is ranked and reported by its negation).
src: confidence.py:644-649 -/
def confOrient (desc : Bool) (scores : List Int) : List Int :=
  if desc then scores else scores.map (fun s => -s)

/-- one row of `chunk_metadata.assign(score=score_chunk)` -/
def confSetScore (r : Row) (s : Int) : Row := { r with score := s }

/-- the same row with the sign of its score changed -/
def rowNeg (r : Row) : Row := { r with score := -r.score }

/-- `chunk_metadata.assign(score=score_chunk)`: pandas raises `ValueError` when the slice and the
chunk differ in length (`none`).  src: confidence.py:931 -/
def confAssignChunk (tab : List Row) (sc : List Int) : Option (List Row) :=
  if tab.length = sc.length then some (List.zipWith confSetScore tab sc) else none

/-- `for chunk_metadata, score_chunk, chunk_write_path in zip(file_iterator, scores_slices,
scores_metadata_paths)`: one chunk file per *pair*.  `zip` stops at the shorter stream: table
chunks beyond the last score slice are never looked at (the call goes on without them); score
slices beyond the last table chunk leave their path unwritten —
`len(written_paths) != len(scores_metadata_paths)` raises `ValueError` (`none`; before the repair
`f8287a0` `merge_sort` opened the missing path and raised, or read a leftover file of that name).
src: confidence.py:875-899 -/
def confAttachGo : List (List Row) → List (List Int) → Option (List (List Row))
  | [], [] => some []
  | [], _ :: _ => none
  | _ :: _, [] => some []
  | m :: ms, s :: ss =>
    (confAssignChunk m s).bind fun ch => (confAttachGo ms ss).map fun rest => ch :: rest

/-- the unsorted contents of the temporary chunk files: table and score vector chunked
*separately* by the same constant.  src: confidence.py:854-899 -/
def confAttach (c : Nat) (tab : List Row) (scores : List Int) : Option (List (List Row)) :=
  confAttachGo (chunksOf c tab) (chunksOf c scores)

/-- level files of one collection given as the caller gives it: the table (`tab`, the `score`
field of its rows is not looked at), the score vector and the direction.
src: confidence.py:644-649, 693-790, 843-941 -/
def confidenceLevelFilesRaw (c : Nat) (dedup : Bool) (nLevels : Nat) (desc : Bool)
    (tab : List Row) (scores : List Int) : Option (List (List Row)) :=
  (confAttach c tab (confOrient desc scores)).bind fun chunks =>
    let files := chunks.map (fun ch => chunkFile dedup (ch.mergeSort rowBetter))
    (Merge.kmerge rowLeB files).map (fun merged =>
      (bscan c dedup nLevels merged).1 :: (bscan c dedup nLevels merged).2)

/-! ## several calls on one directory (`append_to_output_file`) -/

/-- one call of `assign_confidence` as far as the result files are concerned -/
structure ConfCall where
  app : Bool
  colls : List ConfColl
  deriving Repr

/-- calls one after the other on the same destination directory; every call starts with
`unprefixed_written = False`.  `none`: one of the calls raises. -/
def confRunCalls (c : Nat) (dedup decoys : Bool) (nLevels : Nat) (calls : List ConfCall)
    (fs0 : ConfFS) : Option ConfFS :=
  calls.foldlM (fun fs call => (confRunAll c dedup decoys nLevels call.app call.colls fs).map (·.1)) fs0

/-! ## the buffered temporary writers of the roll-up tool -/

/-- a `BufferedWriter` with a list buffer: rows waiting, rows handed to the file writer -/
structure ToolBuf where
  buf : List Row
  file : List Row
  deriving Repr

def ToolBuf.empty : ToolBuf := ⟨[], []⟩

/-- `_write_buffer(force=False)`: `while len(buffer) >= buffer_size: append first buffer_size
rows; buffer = buffer[buffer_size:]` (fuel: the loop ends because the buffer shrinks; the class
is only used for `buffer_size > 1`).  src: tabular_data.py:507-516 -/
def ToolBuf.drain (b : Nat) : Nat → ToolBuf → ToolBuf
  | 0, s => s
  | fuel + 1, s =>
    if 0 < b ∧ b ≤ s.buf.length then ToolBuf.drain b fuel ⟨s.buf.drop b, s.file ++ s.buf.take b⟩ else s

/-- `append_data(row)`: `buffer += [dict(row)]`, then `_write_buffer()`.  src: tabular_data.py:535-550 -/
def ToolBuf.push (b : Nat) (s : ToolBuf) (r : Row) : ToolBuf :=
  ToolBuf.drain b (s.buf.length + 1) ⟨s.buf ++ [r], s.file⟩

/-- `finalize()`: `_write_buffer(force=True)` hands on whatever is left.  src: tabular_data.py:517-519, 561-563 -/
def ToolBuf.close (s : ToolBuf) : List Row := s.file ++ s.buf

/-- one level for one line of the merged stream:
`if id not in seen: seen.add(id); temp_writers[level].append_data(line)`.  src: brew_rollup.py:402-420 -/
def toolLevelStepB (b idx : Nat) (p : List Nat × ToolBuf) (r : Row) : List Nat × ToolBuf :=
  if p.1.contains (r.key idx) then p else (r.key idx :: p.1, p.2.push b r)

/-- the temporary file of a level after `auto_finalize` -/
def toolLevelRowsB (b : Nat) (cands : List RollupName) (merged : List Row) (lv : RollupName) : List Row :=
  (merged.foldl (toolLevelStepB b (rollupKeyIdx cands lv)) ([], ToolBuf.empty)).2.close

/-- `toolWrite` on the buffered temporary file -/
def toolWriteB (b : Nat) (cands : List RollupName) (merged : List Row) (lv : RollupName) : RollupToolOut :=
  ⟨lv, (splitTD (toolLevelRowsB b cands merged lv)).1, (splitTD (toolLevelRowsB b cands merged lv)).2⟩

/-- `do_rollup` with the buffer size of the temporary writers explicit (`temp_buffer_size`) -/
def rollupRunB (b : Nat) (parents : List (RollupName × RollupName)) (base : RollupName)
    (cols cands : List RollupName) (tfiles dfiles : List (List Row)) : Except String (List RollupToolOut) :=
  toolOutcome (fun merged => (toolLevels parents base cols).map (toolWriteB b cands merged))
    (Merge.kmergeChecked rowLeB true (dfiles.map (rollupRetag false) ++ tfiles.map (rollupRetag true)))

end Mk
