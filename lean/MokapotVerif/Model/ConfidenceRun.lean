import MokapotVerif.Model.ConfidenceBatch
/-!
# `assign_confidence` over several collections: which result file receives what

src: mokapot/confidence.py:640-790 — the loop
`for _psms, score, desc, prefix in zip(psms, scores, descs, prefixes)`.

Per collection the code (1) builds the result file names from the prefix
(`file_prefix = file_root + prefix + "."` for a truthy prefix, else `file_root`), creates a
writer per level for `…targets.<level>` (and `…decoys.<level>` iff `decoys`) and calls
`initialize()` — truncate and write the header — **unless** `append_here` holds;
(2) computes the level files of *this* collection with fresh seen-sets; (3) lets
`LinearConfidence` append, level by level, the target rows to the targets file and the decoy
rows to the decoys file; (4) records `unprefixed_written = True` when the collection had no
prefix: later collections *without* prefix append to the shared files
(`append_here = append_to_output_file or (unprefixed_written and not prefix)`), collections with
a prefix of their own always initialise theirs.

A result file is abstracted to its data lines (the header line is outside the model).  File names
are abstracted to what they are built from: the prefix (key equality is all that matters; the
map prefix ↦ file name is assumed injective), targets/decoys, and the level (0 = psms,
`l + 1` = roll-up level `l`).  The directory before the call is a parameter.
-/
namespace Mk

structure ConfFName where
  pre : Option Nat
  decoy : Bool
  level : Nat
  deriving DecidableEq, Repr

/-- the result files of a directory: `none` = no such file, `some ls` = its data lines -/
abbrev ConfFS := ConfFName → Option (List ConfLine)

/-- `writer.initialize()`: (re)create the file with the header only.
src: tabular_data.py `CSVFileWriter.initialize` -/
def confFsInit (fs : ConfFS) (n : ConfFName) : ConfFS := fun m => if m = n then some [] else fs m

/-- `writer.append_data(df)` (`to_csv(mode="a", header=False)`): creates the file if absent -/
def confFsAppend (fs : ConfFS) (n : ConfFName) (ls : List ConfLine) : ConfFS :=
  fun m => if m = n then some ((fs n).getD [] ++ ls) else fs m

/-- writers of one level: targets always, decoys iff `decoys`; initialised unless appending.
src: confidence.py:668-691 -/
def confOpenLevel (app decoys : Bool) (pre : Option Nat) (fs : ConfFS) (lv : Nat) : ConfFS :=
  let fs1 := if app then fs else confFsInit fs ⟨pre, false, lv⟩
  if decoys && !app then confFsInit fs1 ⟨pre, true, lv⟩ else fs1

/-- `for level in levels_or_proteins` over the `m` levels of the run -/
def confOpenOutputs (app decoys : Bool) (pre : Option Nat) (m : Nat) (fs : ConfFS) : ConfFS :=
  (List.range m).foldl (confOpenLevel app decoys pre) fs

/-- `_assign_confidence` for one level: q-values on the level file, chunk-wise writing split by
the target flag; `out_paths.pop(1)` drops the decoys file when `decoys` is off.
src: confidence.py:392-455, confidence_writer.py:113-158 -/
def confWriteLevel (c : Nat) (decoys : Bool) (pre : Option Nat) (lvs : List (List Row))
    (fs : ConfFS) (lv : Nat) : Option ConfFS :=
  (confWriteLevelFile c decoys (lvs.getD lv [])).map fun td =>
    let fs1 := confFsAppend fs ⟨pre, false, lv⟩ td.1
    if decoys then confFsAppend fs1 ⟨pre, true, lv⟩ td.2 else fs1

/-- `append_here = append_to_output_file or (unprefixed_written and not prefix)`: collections
without a prefix share their result files, all but the first of them append; files with a prefix
of their own always start afresh.  src: confidence.py:667-675 -/
def confAppendHere (app unprefixedWritten : Bool) (pre : Option Nat) : Bool :=
  app || (unprefixedWritten && pre.isNone)

/-- one pass of the collection loop, given the level files `lvs` (PSM level first) the scan
produced for this collection.  State: the directory and `unprefixed_written`; `app` is the
caller's `append_to_output_file`.  src: confidence.py:635-814 -/
def confWriteColl (c : Nat) (decoys : Bool) (m : Nat) (app : Bool) (st : ConfFS × Bool)
    (k : Option Nat × List (List Row)) : Option (ConfFS × Bool) :=
  ((List.range m).foldlM (confWriteLevel c decoys k.1 k.2)
      (confOpenOutputs (confAppendHere app st.2 k.1) decoys k.1 m st.1)).map
    fun fs => (fs, st.2 || k.1.isNone)

/-- the whole loop over collections whose level files are given (`app` = the parameter
`append_to_output_file`, default `False`; `unprefixed_written` starts as `False`) -/
def confRunAllWith (c : Nat) (decoys : Bool) (m : Nat) (app : Bool)
    (colls : List (Option Nat × List (List Row))) (fs0 : ConfFS) : Option (ConfFS × Bool) :=
  colls.foldlM (confWriteColl c decoys m app) (fs0, false)

/-- a collection as the caller supplies it: prefix and PSM table (scores attached) -/
structure ConfColl where
  pre : Option Nat
  rows : List Row
  deriving Repr

/-- one pass of the loop for a collection given as a table: the level files are computed
inside the loop, from this collection alone and with fresh seen-sets (confidence.py:693-760),
then written.  `none`: the code raises. -/
def confRunColl (c : Nat) (dedup decoys : Bool) (nLevels : Nat) (app : Bool) (st : ConfFS × Bool)
    (k : ConfColl) : Option (ConfFS × Bool) :=
  (confidenceLevelFiles c dedup nLevels k.rows).bind fun lvs =>
    confWriteColl c decoys (nLevels + 1) app st (k.pre, lvs)

/-- executable `assign_confidence` (level files by `confidenceLevelFiles`, one admissible tie
arrangement) -/
def confRunAll (c : Nat) (dedup decoys : Bool) (nLevels : Nat) (app : Bool) (colls : List ConfColl)
    (fs0 : ConfFS) : Option (ConfFS × Bool) :=
  colls.foldlM (confRunColl c dedup decoys nLevels app) (fs0, false)

/-! ## Declarative description of the directory after the loop -/

/-- the part of a level that belongs into the targets (`false`) / decoys (`true`) file -/
def confTdPart (decoy : Bool) (rows : List Row) : List ConfLine :=
  if decoy then (splitTD rows).2 else (splitTD rows).1

/-- is `n` one of the files a collection with prefix `pre` writes? -/
def confOwnFile (decoys : Bool) (m : Nat) (pre : Option Nat) (n : ConfFName) : Bool :=
  n.pre == pre && decide (n.level < m) && (!n.decoy || decoys)

/-- the directory after one collection -/
def collSpec (decoys : Bool) (m : Nat) (app : Bool) (k : Option Nat × List (List Row))
    (fs : ConfFS) : ConfFS :=
  fun n =>
    if confOwnFile decoys m k.1 n then
      some ((if app then (fs n).getD [] else []) ++ confTdPart n.decoy (k.2.getD n.level []))
    else fs n

end Mk
