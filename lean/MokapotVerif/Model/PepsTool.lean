import MokapotVerif.Model.PepsFile
/-!
# Second extension of the C06 model: the other producers of a `posterior_error_prob` column

(imports only `Model/PepsFile.lean`; no Mathlib)

1. the level loop of the roll-up tool `brew_rollup.do_rollup` (brew_rollup.py:443-464): it
   estimates q-values and PEPs for the rows of its temporary level file and writes
   `<root>.targets.<level>s` / `<root>.decoys.<level>s` — no chunks, no sign, no `SystemExit`
   fall-back, no `peps_error` gate, always both files.
2. the *columns* of the result files of `assign_confidence`: the header line is written by
   `assign_confidence` from one list (confidence.py:623-640), the data rows are appended by
   `write_to_disk` / `write_confidences` in the order of another list computed from the level
   file's columns (confidence.py:140-159).  Text rows carry no names, so the PEP of a row sits
   under the heading `posterior_error_prob` only if the two lists agree position by position —
   for the PSM and peptide level, for every extra roll-up level and for the protein level.
-/
namespace Mk.Peps

/-! ## 1. roll-up tool -/

/-- `peps = peps_from_scores(scores, targets, config.peps_algorithm)` inside `do_rollup`: no
`try`, every exit or exception ends the tool.  src: mokapot/brew_rollup.py:456 -/
def rollupPeps : PepCall → Except String (List Rat)
  | .ok p => .ok p
  | .exitNoDecoys => .error "SystemExit"
  | .exitOther => .error "SystemExit"
  | .raised => .error "raised"

/-- `data["q_value"] = qvals; data["posterior_error_prob"] = peps;
output_writers[0].write(data.loc[targets, output_columns]);
output_writers[1].write(data.loc[~targets, output_columns])`: positional column assignment
(pandas raises on another length), then the two masked selections.
src: mokapot/brew_rollup.py:458-462 -/
def rollupWrite (rows : List LRow) (qs ps : List Rat) : Except String (List ORow × List ORow) :=
  if chunkLengthsOk (rows.map (fun r => (r.id, r.score))) qs ps (rows.map (fun r => r.target)) then
    .ok (maskSel true (rows.map (fun r => (r.id, r.score))) qs ps (rows.map (fun r => r.target)),
         maskSel false (rows.map (fun r => (r.id, r.score))) qs ps (rows.map (fun r => r.target)))
  else .error writeError

/-- one iteration of `for level in levels:` of the roll-up tool on the rows of the temporary level
file (`targets = ~data["is_decoy"]`): q-values `Q` and PEPs `P` from (score, target).
src: mokapot/brew_rollup.py:443-464 -/
def rollupLevelFiles (Q : List Psm → List Rat) (P : List Psm → PepCall) (rows : List LRow) :
    Except String (List ORow × List ORow) :=
  (rollupPeps (P (levelPsms rows))).bind (fun peps => rollupWrite rows (Q (levelPsms rows)) peps)

/-! ## 2. columns of the result files of assign_confidence -/

abbrev Col := List Char

def cPSMId : Col := "PSMId".toList
def cPeptide : Col := "peptide".toList
def cProteinIds : Col := "proteinIds".toList
def cScore : Col := "score".toList
def cQHeader : Col := "q-value".toList
def cQData : Col := "q_value".toList
def cPep : Col := "posterior_error_prob".toList
def cGroup : Col := "mokapot protein group".toList
def cBest : Col := "best peptide".toList
def cStripped : Col := "stripped sequence".toList
def lvProteins : Col := "proteins".toList

/-- `out_columns_psms_peps`: the header of `targets.<level>` / `decoys.<level>` for every level but
the protein level; `extras` = the level columns other than the peptide column.
src: mokapot/confidence.py:623-631 -/
def headerCols (extras : List Col) : List Col :=
  [cPSMId, cPeptide] ++ extras ++ [cScore, cQHeader, cPep, cProteinIds]

/-- `out_columns_proteins`.  src: mokapot/confidence.py:633-640 -/
def headerColsProteins : List Col := [cGroup, cBest, cStripped, cScore, cQHeader, cPep]

/-- `out_metadata_columns`: the columns of a level file.  src: mokapot/confidence.py:651-660 -/
def levelFileCols (target : Col) (extras : List Col) : List Col :=
  [cPSMId, target, cPeptide] ++ extras ++ [cProteinIds, cScore]

/-- the columns of the protein level file: `final_cols` of `picked_protein`.
src: mokapot/picked_protein.py:115-122 -/
def proteinFileCols (target : Col) : List Col := [cGroup, cBest, cStripped, cScore, target]

/-- `write_to_disk`: `in_columns = [i for i in columns if i != target]`,
`out_columns = in_columns + [q, pep]`, and unless the level is `proteins` the protein column is
removed (first occurrence) and appended.  The order in which `write_confidences` writes the cells of
a data row.  src: mokapot/confidence.py:140-159 -/
def dataCols (level target : Col) (columns : List Col) : List Col :=
  if level = lvProteins then columns.filter (fun c => !decide (c = target)) ++ [cQData, cPep]
  else ((columns.filter (fun c => !decide (c = target))) ++ [cQData, cPep]).erase cProteinIds ++ [cProteinIds]

/-- the one name that differs between the two lists: the data frame calls the q-value column
`q_value`, the header `q-value` -/
def headerName (c : Col) : Col := if c = cQData then cQHeader else c

/-- position of a column in a list of names (`none`: absent) -/
def colIndex (c : Col) : List Col → Option Nat
  | [] => none
  | x :: xs => if x = c then some 0 else (colIndex c xs).map (· + 1)

end Mk.Peps
