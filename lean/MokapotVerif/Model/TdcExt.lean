import MokapotVerif.Model.Confidence
import MokapotVerif.Model.Merge
import MokapotVerif.Model.Brew
/-!
# C04 extension: the paths of the pipeline that the FDR argument needs but the C01/C02/C03 models
do not contain

1. the row stream of the stand-alone roll-up tool *with its tie rule* (brew_rollup.py:278-324,
   394-415: decoy files are listed before target files in the merged reader, whose tie rule is
   "first input wins") and the level files the tool derives from it;
2. how `brew` turns the fold models into the scores of a collection under both values of the
   `ensemble` option (brew.py:213-249, 487-512), and the re-ordering of a list of pre-trained
   models by their `fold` attribute (brew.py:152-157, 191-193);
3. the accepted set of a level file as read off its q-value column, and the false discovery
   proportion of that set given the ground truth (which rows are incorrect).

Import-free apart from other models.
-/
namespace Mk.TdcX
open Mk

/-! ## 1. The roll-up tool -/

/-- score comparison on result rows: the tool merges by the `score` column
(brew_rollup.py:317-321, `priority_column="score"`) -/
def rowLe (a b : Row) : Bool := decide (a.score ≤ b.score)

/-- the merged reader of the tool: `MergedTabularDataReader(decoy_readers + target_readers,
priority_column="score")` in descending mode, i.e. the checked k-way merge of C14 over the decoy
files followed by the target files (since the repair of D29: the decoy files are listed first, so
that a score tie between a target and a decoy is never decided for the target).  `none`: the reader
raises before the first row (an input file without rows); the flag is the `ValueError` of an input
that is not sorted by decreasing score.
src: mokapot/brew_rollup.py:278-324, 397-399 -/
def toolStream (targetFiles decoyFiles : List (List Row)) : Option (List Row × Bool) :=
  Merge.kmergeChecked rowLe true (decoyFiles ++ targetFiles)

/-- the level files when the stream was delivered without error -/
def toolLevelsOf (nLevels : Nat) (r : List Row × Bool) : Option (List (List Row)) :=
  if r.2 then none else some (rollupTool nLevels r.1)

/-- the temporary level files of the tool (first-seen id per level of the merged stream), `none`
when the tool raises.  src: mokapot/brew_rollup.py:391-412 -/
def rollupToolFiles (nLevels : Nat) (targetFiles decoyFiles : List (List Row)) : Option (List (List Row)) :=
  (toolStream targetFiles decoyFiles).bind (toolLevelsOf nLevels)

/-- the two output files of a level with their q-value column: the q-values are the TDC estimate
over the *whole* level (`qvalues_from_scores(scores, targets, "tdc")`), then the rows are split by
label.  src: mokapot/brew_rollup.py:435-454 -/
def toolLevelOut (level : List Row) : List (Row × Rat) × List (Row × Rat) := splitTD level

/-! ## 2. From fold models to the scores of a collection -/

/-- `_predict_with_ensemble`: every prediction chunk is scored by *every* model; the per-model
score vectors are `hstack`ed over the chunks.  `score f r` is the raw output of model `f` on row `r`.
src: mokapot/brew.py:500-511 -/
def ensScores {ρ : Type} (c : Nat) (rows : List ρ) (nmodels : Nat) (score : Nat → ρ → Rat) :
    List (List Rat) :=
  (List.range nmodels).map (fun f => ((Brew.chunks c rows).map (fun ch => ch.map (score f))).flatten)

/-- `np.mean(scores, axis=0)` over `n` positions (brew.py:512) -/
def colMean (cols : List (List Rat)) (n : Nat) : List Rat :=
  (List.range n).map (fun p => (cols.map (fun col => col.getD p 0)).sum / (cols.length : Rat))

/-- scores of a collection with `ensemble=True`: the mean over all fold models, no calibration
(brew.py:214-222, 487-512) -/
def predictEnsemble {ρ : Type} (c : Nat) (rows : List ρ) (nmodels : Nat) (score : Nat → ρ → Rat) :
    List Rat :=
  colMean (ensScores c rows nmodels score) rows.length

/-- **Specification** of the ensemble scores: row by row the mean of the raw outputs of all models -/
def ensembleSpec {ρ : Type} (rows : List ρ) (nmodels : Nat) (score : Nat → ρ → Rat) : List Rat :=
  rows.map (fun r => ((List.range nmodels).map (fun f => score f r)).sum / (nmodels : Rat))

/-- the branch of `brew` that produces the scores of one collection from trained fold models
(brew.py:213-249): all models averaged when `ensemble`, otherwise `_predict` (every row by the
model of its own fold, calibrated per fold). -/
def brewScores {ρ : Type} (ensemble : Bool) (c nfolds : Nat) (rows : List ρ) (routing : List Nat)
    (score : Nat → ρ → Rat) (target : ρ → Bool) (cal : List (Rat × Bool) → Rat → Rat) : List Rat :=
  if ensemble then predictEnsemble c rows nfolds score
  else Brew.predict c nfolds rows routing score target cal

/-- `fitted.sort(key=lambda x: x[0].fold)` (Python's sort is stable): the models, each with its
`fold` attribute, in increasing fold order.  Applies to freshly fitted models (whatever order the
worker threads finished in) and to a list of pre-trained models (whatever order they were given in).
src: mokapot/brew.py:152-157, 191-193 -/
def sortByFold {μ : Type} (ms : List (Nat × μ)) : List (Nat × μ) :=
  Merge.stableSortDesc (fun a b => decide (b.1 ≤ a.1)) ms

/-- a learner of maximal capacity: it recalls every labelled row of its training set exactly and
answers 1 on a row it has seen as a target, 0 otherwise (rows are `(features, label)`) -/
def memoriser (train : List (Option (Nat × Bool))) (feat : Nat) : Rat :=
  if train.contains (some (feat, true)) then 1 else 0

/-! ## 3. Accepted set and false discovery proportion of a level file -/

/-- rows of a level file whose reported q-value is at most `a`
(`q-value` column of `targets.<level>` / `decoys.<level>` taken together) -/
def acceptedRows (a : Rat) (level : List Row) : List Row :=
  ((level.zip (levelQvalues level)).filter (fun p => decide (p.2 ≤ a))).map (·.1)

/-- false discovery proportion among the accepted targets, `incorrect id` telling which PSMs are
incorrect (ground truth of the simulation); 0 when no target is accepted (`x / 0 = 0`) -/
def levelFDP (incorrect : Nat → Bool) (a : Rat) (level : List Row) : Rat :=
  (((acceptedRows a level).countP (fun r => r.target && incorrect r.id) : Nat) : Rat) /
    (((acceptedRows a level).countP (fun r => r.target) : Nat) : Rat)

end Mk.TdcX
