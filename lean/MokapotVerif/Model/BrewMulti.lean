import MokapotVerif.Model.Brew
/-!
# Model of `brew` over several collections: training sets, fit loop, trained models given

Extension of `Model/Brew.lean` (which has the one-file pieces `splitWith`, `complement`,
`reindex`, `chunkPiece`, `route`, `predict`).  Added here, following the data flow of
`mokapot.brew` (ensemble off):

* the spectrum hash as a function of the key columns (dataset.py:653-661);
* `make_train_sets` as a whole (brew.py:308-361): `zip(*test_idx)`, the complement per file
  (with the 5 000 000-row inner loop), the per-file caps, the `rng.choice` sub-sampling and
  its `ValueError`;
* `parse_in_chunks` for several files (pin.py:358-398): the tables of one fold are the rows
  of every file at that fold's indices, file after file;
* the fit loop (brew.py:186-193, 514-548): `model.fold = f + 1`, results returned in any
  order, `fitted.sort(key=fold)`;
* the other entry into the same routing: a list of trained models (brew.py:152-172);
* `_predict` as a loop over the collections (brew.py:394-476) and the whole run `brewRun`.

Nondeterminism is a parameter everywhere: `argsort` order among equal hashes (`sorteds`),
`rng.shuffle` (`shuffle`), `list(set …)` order (`enum`), `rng.choice` (`draw`, positions),
completion order of the reader tasks (`sched`), order in which the fitted models come back
(`ret`).  Core Lean only.
-/
namespace Mk.Brew

/-! ## the spectrum hash -/

/-- `crc32(str(tuple(x[:2])).encode())` for one row `x` of the spectrum-key columns
(dataset.py:653-661): only the first two key columns enter; `h` stands for
`crc32 ∘ str ∘ tuple` -/
def spectrumHash {κ : Type} (h : List κ → Nat) (key : List κ) : Nat := h (key.take 2)

/-! ## `make_train_sets` -/

def minLenAux {α : Type} (m : Nat) : List (List α) → Nat
  | [] => m
  | xs :: rest => minLenAux (min m xs.length) rest

/-- number of tuples produced by `zip(*xss)` (brew.py:333): the shortest length, none for no list -/
def zipLen {α : Type} : List (List α) → Nat
  | [] => 0
  | xs :: rest => minLenAux xs.length rest

/-- `set(range(lo, hi)) - set(idx)` in increasing order (brew.py:339-344) -/
def rangeDiff (lo hi : Nat) (fold : List Nat) : List Nat :=
  (List.range' lo (hi - lo)).filter (fun i => !fold.contains i)

/-- the loop `while k + chunk_range < ds: … k += chunk_range` followed by the rest
`set(range(k, ds)) - set(idx)` (brew.py:337-344); `cr` is `chunk_range` (5 000 000) -/
def complementLoop (cr ds : Nat) (fold : List Nat) : Nat → Nat → List Nat
  | 0, k => rangeDiff k ds fold
  | fuel + 1, k =>
    if k + cr < ds then rangeDiff k (k + cr) fold ++ complementLoop cr ds fold fuel (k + cr)
    else rangeDiff k ds fold

/-- `chunk_range` (brew.py:332) -/
def chunkRange : Nat := 5000000

/-- training indices of one file for one held-out fold, before sub-sampling, in increasing
order (the real order is that of `list(set …)`: parameter `enum` of `makeTrainSets`) -/
def trainFile (ds : Nat) (fold : List Nat) : List Nat := complementLoop chunkRange ds fold ds 0

/-- `subset_max_train_per_file` (brew.py:322-331): empty without a cap -/
def capsOf (cap : Option Nat) (nfiles : Nat) : List Nat :=
  Option.elim cap [] (fun c => perFileCaps c nfiles)

/-- `rng.choice(a, c, replace=False)` (brew.py:357-359): the generator draws positions `pos`
(distinct, `c` of them, all `< len(a)`) and returns the elements there; `none` is the
`ValueError` "Cannot take a larger sample than population" -/
def choice (a : List Nat) (c : Nat) (pos : List Nat) : Option (List Nat) :=
  if a.length < c then none else some (pos.map (fun j => a.getD j 0))

/-- one file inside the sub-sampling loop: `if current_subset_max_train < train_idx_size`
(the *total* size of the fold's training set) (brew.py:353-359) -/
def capFile (size c : Nat) (a pos : List Nat) : Option (List Nat) :=
  if c < size then choice a c pos else some a

/-- one entry of `for i, c in enumerate(subset_max_train_per_file)`; files beyond the caps
list are left alone.  `draws[i]` is what the generator draws as a function of the population
size. -/
def capEntry (caps : List Nat) (draws : List (Nat → List Nat)) (size : Nat) (ai : List Nat × Nat) :
    Option (List Nat) :=
  if ai.2 < caps.length then
    capFile size (caps.getD ai.2 0) ai.1 ((draws.getD ai.2 (fun _ => [])) ai.1.length)
  else some ai.1

/-- the sub-sampling step for one fold (brew.py:346-360): applied only with a cap and when the
training indices of all files together are more than the sum of the caps -/
def capFold (caps : List Nat) (enums : List (List Nat)) (draws : List (Nat → List Nat)) :
    Option (List (List Nat)) :=
  if decide (0 < caps.length) && decide (caps.sum < (enums.map List.length).sum) then
    enums.zipIdx.mapM (capEntry caps draws (enums.map List.length).sum)
  else some enums

/-- the indices enumerated for fold `f`: per file `k`, `list(set(range(ds)) - set(test_idx[k][f]))`
in the order `enum f k` gives them -/
def foldEnums (testIdx : List (List (List Nat))) (dataSize : List Nat)
    (enum : Nat → Nat → List Nat → List Nat) (f : Nat) : List (List Nat) :=
  dataSize.zipIdx.map (fun dk => enum f dk.2 (trainFile dk.1 ((testIdx.getD dk.2 []).getD f [])))

/-- `make_train_sets` (brew.py:308-361): result indexed `[fold][file]`.
`testIdx` is indexed `[file][fold]`; `test_idx` and `data_size` are built from the same
list of collections in `brew` (brew.py:141-149), so they have the same length. -/
def makeTrainSets (testIdx : List (List (List Nat))) (cap : Option Nat) (dataSize : List Nat)
    (enum : Nat → Nat → List Nat → List Nat) (draw : Nat → Nat → Nat → List Nat) :
    Option (List (List (List Nat))) :=
  (List.range (zipLen testIdx)).mapM (fun f =>
    capFold (capsOf cap dataSize.length) (foldEnums testIdx dataSize enum f)
      ((List.range dataSize.length).map (draw f)))

/-- **Specification**: the held-out fold `f` of file `k` -/
def heldOut (testIdx : List (List (List Nat))) (k f : Nat) : List Nat := (testIdx.getD k []).getD f []

/-- **Specification**: size of the full training set of fold `f` (all rows of all files outside
the held-out folds) -/
def trainTotal (testIdx : List (List (List Nat))) (dataSize : List Nat) (f : Nat) : Nat :=
  (dataSize.zipIdx.map (fun dk => (complement dk.1 (heldOut testIdx dk.2 f)).length)).sum

/-- **Specification** of the sub-sampling rule: a cap is given and the full training set of the
fold is larger than it -/
def capApplies (cap : Option Nat) (total : Nat) : Bool :=
  Option.elim cap false (fun c => decide (c < total))

/-! ## `parse_in_chunks` over several files -/

/-- one file, one training set: pieces of the chunks (appended in the order and with the inner
order that `sched` produces), `pd.concat(...).reindex(train)` (pin.py:344-354, 380-394) -/
def parseFile {ρ : Type} (c : Nat) (sched : List (List (Nat × ρ)) → List (List (Nat × ρ)))
    (rows : List ρ) (train : List Nat) : List (Option ρ) :=
  reindex (sched ((chunks c (rows.zipIdx.map (fun x => (x.2, x.1)))).map (chunkPiece train))).flatten train

/-- `[pd.concat(df) for df in zip(*train_psms_reordered)]` (pin.py:395-398): the table of
fold `f` is the concatenation over the files `k` of the rows materialised for `trains[f][k]` -/
def parseInChunks {ρ : Type} (c : Nat)
    (sched : Nat → Nat → List (List (Nat × ρ)) → List (List (Nat × ρ)))
    (files : List (List ρ)) (trains : List (List (List Nat))) : List (List (Option ρ)) :=
  trains.zipIdx.map (fun tf =>
    (files.zipIdx.map (fun rk => parseFile c (sched tf.2 rk.2) rk.1 (tf.1.getD rk.2 []))).flatten)

/-- **Specification** of a training table: the rows of file `k` at the indices `trainF[k]`,
in that order, file after file -/
def trainTable {ρ : Type} (files : List (List ρ)) (trainF : List (List Nat)) : List (Option ρ) :=
  (files.zipIdx.map (fun rk => (trainF.getD rk.2 []).map (fun i => rk.1[i]?))).flatten

/-! ## the fit loop -/

/-- `_fit_model(d, psms, deepcopy(model), f) for f, d in enumerate(train_psms)`: the model
gets `fold = f + 1` and is fitted on the table `d` (brew.py:186-189, 533-548) -/
def fitAll {τ μ : Type} (learner : τ → μ) (tables : List τ) : List (Nat × μ) :=
  tables.zipIdx.map (fun df => (df.2 + 1, learner df.1))

/-- `fitted.sort(key=lambda x: x[0].fold)` (brew.py:192; Python's sort is stable, so is
`mergeSort`) -/
def sortByFold {μ : Type} (fitted : List (Nat × μ)) : List (Nat × μ) :=
  fitted.mergeSort (fun a b => decide (a.1 ≤ b.1))

/-- `brew(psms, model=[m₁ … mₖ])` (brew.py:152-172): entries are `(fold, model, is_trained)`.
A wrong number of models is a `ValueError`, an untrained one a `RuntimeError`; otherwise the
models are used as they are, sorted by their `fold` attribute. -/
def pretrained {μ : Type} (ms : List (Nat × μ × Bool)) (folds : Nat) : Except String (List (Nat × μ)) :=
  if ms.length ≠ folds then .error "ValueError"
  else if ms.all (fun m => m.2.2) then .ok (sortByFold (ms.map (fun m => (m.1, m.2.1))))
  else .error "RuntimeError"

/-! ## routing and prediction over the collections -/

/-- `model_to_psm_idx` for every collection (brew.py:224-239) -/
def routeAll {ρ : Type} (testIdx : List (List (List Nat))) (files : List (List ρ)) : List (List Nat) :=
  (testIdx.zip files).map (fun x => route x.1 x.2.length)

/-- `_predict` (brew.py:414-476): `for _psms, mod_idx in zip(psms, models_idx)`, every
collection with its own routing and its own per-fold calibration, the same models -/
def predictAll {ρ σ : Type} [Inhabited σ] (c nfolds : Nat) (files : List (List ρ))
    (routings : List (List Nat)) (score : Nat → ρ → σ) (target : ρ → Bool)
    (cal : List (σ × Bool) → σ → σ) : List (List σ) :=
  (files.zip routings).map (fun x => predict c nfolds x.1 x.2 score target cal)

/-- **Specification** of the scores of all collections -/
def predictAllSpec {ρ σ : Type} (files : List (List ρ)) (routings : List (List Nat))
    (score : Nat → ρ → σ) (target : ρ → Bool) (cal : List (σ × Bool) → σ → σ) : List (List σ) :=
  (files.zip routings).map (fun x => predictSpec x.1 x.2 score target cal)

/-- the scorer of fold `f`: `models[f].predict` (brew.py:446-452) -/
def modelScore {ρ σ μ : Type} [Inhabited μ] (apply : μ → ρ → σ) (models : List (Nat × μ))
    (f : Nat) (r : ρ) : σ := apply (models.getD f default).2 r

/-- the held-out folds of every collection: `[_psms._split(folds, rng) for _psms in psms]`
(brew.py:149) with the in-fold `rng.shuffle` -/
def splitAll (sorteds : List (List (Nat × Nat))) (folds : Nat)
    (shuffle : Nat → List (List Nat) → List (List Nat)) : Option (List (List (List Nat))) :=
  (sorteds.mapM (fun s => splitWith s folds)).map
    (fun fss => fss.zipIdx.map (fun x => shuffle x.2 x.1))

/-- the whole of `brew` (training path, ensemble off, every fold model trained, learned
scores kept): returned `(models, scores)`.  `none` = `IndexError` of `_split` or `ValueError`
of `rng.choice`. -/
def brewRun {ρ σ μ : Type} [Inhabited σ] [Inhabited μ] (cRead cPred folds : Nat)
    (files : List (List ρ)) (sorteds : List (List (Nat × Nat)))
    (shuffle : Nat → List (List Nat) → List (List Nat)) (cap : Option Nat)
    (enum : Nat → Nat → List Nat → List Nat) (draw : Nat → Nat → Nat → List Nat)
    (sched : Nat → Nat → List (List (Nat × ρ)) → List (List (Nat × ρ)))
    (ret : List (Nat × μ) → List (Nat × μ))
    (learner : List (Option ρ) → μ) (apply : μ → ρ → σ) (target : ρ → Bool)
    (cal : List (σ × Bool) → σ → σ) : Option (List (Nat × μ) × List (List σ)) :=
  (splitAll sorteds folds shuffle).bind fun testIdx =>
  (makeTrainSets testIdx cap (files.map List.length) enum draw).map fun trains =>
  let models := sortByFold (ret (fitAll learner (parseInChunks cRead sched files trains)))
  (models, predictAll cPred models.length files (routeAll testIdx files) (modelScore apply models) target cal)

/-- an exception kind for a failed step -/
def optExcept {α : Type} (e : String) (o : Option α) : Except String α :=
  Option.elim o (Except.error e) Except.ok

/-- `brew` with a list of trained models (same collections): the folds are recomputed, nothing
is trained, the given models are sorted by `fold` and routed as above -/
def brewGiven {ρ σ μ : Type} [Inhabited σ] [Inhabited μ] (cPred folds : Nat)
    (files : List (List ρ)) (sorteds : List (List (Nat × Nat)))
    (shuffle : Nat → List (List Nat) → List (List Nat))
    (given : List (Nat × μ × Bool)) (apply : μ → ρ → σ) (target : ρ → Bool)
    (cal : List (σ × Bool) → σ → σ) : Except String (List (Nat × μ) × List (List σ)) :=
  (optExcept "IndexError" (splitAll sorteds folds shuffle)).bind fun testIdx =>
  (pretrained given folds).map fun models =>
  (models, predictAll cPred models.length files (routeAll testIdx files) (modelScore apply models) target cal)

end Mk.Brew
