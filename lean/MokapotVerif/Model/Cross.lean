import MokapotVerif.Model.Brew
import MokapotVerif.Model.Confidence
import MokapotVerif.Model.Tabular
/-!
# Chunked paths of the pipeline that C05 quantifies over and no other model contains

Added for the extension of C05 (see `GAPS-C05.md`).  Everything here follows the data flow of the
code; the existing models (`Mk.Brew.predict`, `Mk.confidenceLevels`, …) are used, not rewritten.

1. `_predict_with_ensemble` (brew.py:487-513): `ensemble=True` and the *reset* path of `brew`
   (brew.py:196-222) read the file in chunks of `CHUNK_SIZE_ROWS_PREDICTION` rows.
2. `brew` for several collections (brew.py:149-190, pin.py:377-396): per fold the training rows
   of every file are materialised chunk by chunk and concatenated in file order; `_predict`
   (brew.py:415) loops over the collections.
3. the three further uses of `CONFIDENCE_CHUNK_SIZE` in `assign_confidence`:
   the zip of metadata chunks with score slices (confidence.py:808-846, the first anchor of C05),
   the batching of level rows in the streaming scan (confidence.py:737-762), and the zip of four
   chunk streams in the result writer (confidence.py:141-176, confidence_writer.py:131-157).

Nondeterminism: none is introduced here — `joblib.Parallel` hands results back in submission
order (`_predict_with_ensemble` uses the *returned* list, not appends made by the tasks), and the
per-chunk sort / merge arrangements are those of `Mk.confidenceLevels`.  Import-free.
-/
namespace Mk.Cross
open Mk Mk.Brew

/-! ## 1. `_predict_with_ensemble` -/

/-- `Parallel(...)(delayed(mod.predict)(psms=data) for mod in models)` on one chunk: one score
vector per model, in model order (brew.py:506-508).  `score m r` = model `m`'s output on row `r`
(`Model.predict` is row-wise: scaler transform and decision function of one feature row). -/
def chunkPreds {ρ σ : Type} (nmodels : Nat) (score : Nat → ρ → σ) (ch : List ρ) : List (List σ) :=
  (List.range nmodels).map (fun m => ch.map (score m))

/-- `[score.append(fs) for score, fs in zip(scores, fold_scores)]` followed (after the loop) by
`np.hstack(score)`: the chunk's vector is put behind what model `m` has so far (brew.py:509-511) -/
def ensembleStep {ρ σ : Type} (nmodels : Nat) (score : Nat → ρ → σ) (acc : List (List σ))
    (ch : List ρ) : List (List σ) :=
  List.zipWith (fun s fs => s ++ fs) acc (chunkPreds nmodels score ch)

/-- `scores` after the loop over the chunks of `c` rows: one vector per model (brew.py:499-511) -/
def ensembleRaw {ρ σ : Type} (c nmodels : Nat) (rows : List ρ) (score : Nat → ρ → σ) : List (List σ) :=
  (chunks c rows).foldl (ensembleStep nmodels score) (List.replicate nmodels [])

/-- `np.mean(scores, axis=0)` (brew.py:512): entry `p` is the average `avg` of the `p`-th entries
of all vectors; the length is that of the first vector -/
def colMean {σ : Type} [Inhabited σ] (avg : List σ → σ) (cols : List (List σ)) : List σ :=
  (List.range (cols.headD []).length).map (fun p => avg (cols.map (fun col => col.getD p default)))

/-- `_predict_with_ensemble(psms, models, max_workers)` with prediction chunk size `c` -/
def ensemble {ρ σ : Type} [Inhabited σ] (c nmodels : Nat) (rows : List ρ) (score : Nat → ρ → σ)
    (avg : List σ → σ) : List σ :=
  colMean avg (ensembleRaw c nmodels rows score)

/-- **Specification**: row `r` gets the average of the outputs of all models on `r` -/
def ensembleSpec {ρ σ : Type} (nmodels : Nat) (rows : List ρ) (score : Nat → ρ → σ)
    (avg : List σ → σ) : List σ :=
  rows.map (fun r => avg ((List.range nmodels).map (fun m => score m r)))

/-- reset path (brew.py:196-207): the *original* model alone scores every chunk, the result is
calibrated as a whole (`calAll` = `OnDiskPsmDataset.calibrate_scores`, the subject of C11) -/
def resetScores {ρ σ τ : Type} [Inhabited σ] (c : Nat) (rows : List ρ) (orig : ρ → σ) (target : ρ → Bool)
    (avg : List σ → σ) (calAll : List (σ × Bool) → τ) : τ :=
  calAll ((ensemble c 1 rows (fun _ => orig) avg).zip (rows.map target))

def resetSpec {ρ σ τ : Type} (rows : List ρ) (orig : ρ → σ) (target : ρ → Bool)
    (calAll : List (σ × Bool) → τ) : τ :=
  calAll ((rows.map orig).zip (rows.map target))

/-! ## 2. several collections -/

/-- `[pd.concat(df) for df in zip(*train_psms_reordered)]` for one fold (pin.py:392-396):
per file the pieces gathered from the chunks (in whatever order the threads appended them) are
concatenated and re-indexed by that file's training index; the files follow one another in the
order of `psms`.  `pieces[file]` = list of pieces, `trains[file]` = index list. -/
def materialiseColls {ρ : Type} (pieces : List (List (List (Nat × ρ)))) (trains : List (List Nat)) :
    List (Option ρ) :=
  (pieces.zip trains).flatMap (fun pt => reindex pt.1.flatten pt.2)

/-- **Specification**: rows `trains[file]` of every file, file after file -/
def materialiseCollsSpec {ρ : Type} (files : List (List ρ)) (trains : List (List Nat)) : List (Option ρ) :=
  (files.zip trains).flatMap (fun ft => ft.2.map (fun i => ft.1[i]?))

/-- scores of all collections as `brew` computes them (brew.py:196-249): `reset` → original model
+ calibration of the whole collection; `ens` → ensemble; otherwise `_predict` (per-fold routing and
per-fold calibration).  A collection is `(rows, routing)`.  The same `c` serves every collection. -/
def collScores {ρ σ : Type} [Inhabited σ] (reset ens : Bool) (c nfolds : Nat) (coll : List ρ × List Nat)
    (score : Nat → ρ → σ) (orig : ρ → σ) (target : ρ → Bool) (avg : List σ → σ)
    (cal : List (σ × Bool) → σ → σ) (calAll : List (σ × Bool) → List σ) : List σ :=
  if reset then resetScores c coll.1 orig target avg calAll
  else if ens then ensemble c nfolds coll.1 score avg
  else predict c nfolds coll.1 coll.2 score target cal

def brewScores {ρ σ : Type} [Inhabited σ] (reset ens : Bool) (c nfolds : Nat) (colls : List (List ρ × List Nat))
    (score : Nat → ρ → σ) (orig : ρ → σ) (target : ρ → Bool) (avg : List σ → σ)
    (cal : List (σ × Bool) → σ → σ) (calAll : List (σ × Bool) → List σ) : List (List σ) :=
  colls.map (fun coll => collScores reset ens c nfolds coll score orig target avg cal calAll)

/-- **Specification** of `brewScores`: no chunk size in it -/
def collScoresSpec {ρ σ : Type} (reset ens : Bool) (nfolds : Nat) (coll : List ρ × List Nat)
    (score : Nat → ρ → σ) (orig : ρ → σ) (target : ρ → Bool) (avg : List σ → σ)
    (cal : List (σ × Bool) → σ → σ) (calAll : List (σ × Bool) → List σ) : List σ :=
  if reset then resetSpec coll.1 orig target calAll
  else if ens then ensembleSpec nfolds coll.1 score avg
  else predictSpec coll.1 coll.2 score target cal

/-! ## 3. `CONFIDENCE_CHUNK_SIZE` in `assign_confidence` beyond the per-chunk sort -/

/-- `zip(file_iterator, scores_slices, …)` (confidence.py:818-846): the `i`-th chunk of the
metadata reader is paired with the `i`-th slice of `create_chunks(score, CONFIDENCE_CHUNK_SIZE)`;
inside `_save_sorted_metadata_chunks` the slice becomes the `score` column of the chunk
(`chunk_metadata.assign(score=score_chunk)`, confidence.py:865) -/
def attachScores {μ σ : Type} (c : Nat) (md : List μ) (sc : List σ) : List (List (μ × σ)) :=
  List.zipWith List.zip (chunksOf c md) (chunksOf c sc)

/-- the metadata row with its score column filled in -/
def withScore (p : Row × Int) : Row := { p.1 with score := p.2 }

/-- the whole table with the score column: what the chunked path must be equivalent to -/
def scoredRows (md : List Row) (sc : List Int) : List Row := (md.zip sc).map withScore

/-- state of one level's buffer in the scan: batches already handed to the level writer, and the
current batch (confidence.py:715-717, 745-760) -/
abbrev BatchState (α : Type) := List (List α) × List α

/-- `batches[level].append(data_row); batch_counts[level] += 1;
if batch_counts[level] == CONFIDENCE_CHUNK_SIZE: handles[level].append_data(df); reset` -/
def batchStep {α : Type} (c : Nat) (st : BatchState α) (r : α) : BatchState α :=
  if (st.2 ++ [r]).length = c then (st.1 ++ [st.2 ++ [r]], []) else (st.1, st.2 ++ [r])

/-- all frames appended to one level writer: the full batches, then (after the loop, always)
the remaining rows (confidence.py:755-762) -/
def levelBatches {α : Type} (c : Nat) (rows : List α) : List (List α) :=
  (rows.foldl (batchStep c) ([], [])).1 ++ [(rows.foldl (batchStep c) ([], [])).2]

/-- `write_confidences` (confidence_writer.py:131-152) fed by `write_to_disk`
(confidence.py:141-176): the level file is read back in chunks of `c` rows, the q-value, PEP and
target arrays are cut with `create_chunks(…, c)`, the four streams are zipped; of every chunk the
target rows go to the first file and the decoy rows to the second. -/
def writeChunked {α β γ : Type} (c : Nat) (rows : List α) (q : List β) (p : List γ) (t : List Bool) :
    List (α × β × γ) × List (α × β × γ) :=
  let data := List.zipWith List.zip (chunksOf c rows) (List.zipWith List.zip (chunksOf c q) (chunksOf c p))
  let chs := List.zipWith List.zip data (chunksOf c t)
  (chs.flatMap (fun ch => (ch.filter (fun x => x.2)).map (fun x => x.1)),
   chs.flatMap (fun ch => (ch.filter (fun x => !x.2)).map (fun x => x.1)))

/-- **Specification** of the two result files of one level: the target rows / the decoy rows of
the level file in file order, each next to its own q-value and PEP -/
def writeWhole {α β γ : Type} (rows : List α) (q : List β) (p : List γ) (t : List Bool) :
    List (α × β × γ) × List (α × β × γ) :=
  let z := (rows.zip (q.zip p)).zip t
  ((z.filter (fun x => x.2)).map (fun x => x.1), (z.filter (fun x => !x.2)).map (fun x => x.1))

/-- the level files of one collection along the chunked path: scores attached chunk by chunk,
every chunk sorted (and de-duplicated) into its temporary file, k-way merge, streaming scan with
the level rows leaving in batches of `c` (the level file is the concatenation of the batches).
As in `Mk.confidenceLevels` the stable merge sort stands for one admissible arrangement. -/
def chunkedLevels (c : Nat) (dedup : Bool) (nLevels : Nat) (md : List Row) (sc : List Int) :
    List Row × List (List Row) :=
  let files := (attachScores c md sc).map
    (fun ch => chunkFile dedup ((ch.map withScore).mergeSort rowBetter))
  let merged := files.flatten.mergeSort rowBetter
  let out := scan dedup nLevels merged
  ((levelBatches c out.1).flatten, out.2.map (fun l => (levelBatches c l).flatten))

/-- `targets.<level>` / `decoys.<level>` for the PSM level and every roll-up level
(`LinearConfidence._assign_confidence`, confidence.py:395-449): q-values by `tdc` on the level
file, PEPs by the kernel `pep` (C06; a parameter here), written chunk by chunk -/
def resultFiles (c : Nat) (dedup : Bool) (nLevels : Nat) (pep : List Row → List Rat)
    (md : List Row) (sc : List Int) : List (List (Row × Rat × Rat) × List (Row × Rat × Rat)) :=
  ((chunkedLevels c dedup nLevels md sc).1 :: (chunkedLevels c dedup nLevels md sc).2).map
    (fun rows => writeChunked c rows (levelQvalues rows) (pep rows) (rows.map (fun r => r.target)))

/-- **Specification** of the result files: the un-chunked description on top of the existing
model of the level files -/
def resultFilesSpec (levels : List Row × List (List Row)) (pep : List Row → List Rat) :
    List (List (Row × Rat × Rat) × List (Row × Rat × Rat)) :=
  (levels.1 :: levels.2).map
    (fun rows => writeWhole rows (levelQvalues rows) (pep rows) (rows.map (fun r => r.target)))

/-! ## 4. the chunk streams as the readers deliver them (second pass, `GAPS-C05.md`)

Every zip of the pipeline (`zip(file_iterator, scores_slices, …)` confidence.py:818-832,
`psms_slice["fold"] = model_test_idx.pop(0)` brew.py:421-428, the four streams of
`write_confidences`) silently presumes that the `k`-th chunk of the reader has as many rows as the
`k`-th slice of `create_chunks(array, c)`, and `_predict` / `get_rows_from_dataframe` presume that
the rows of a chunk carry their *global* row numbers as index labels (`df.index + offset`,
tabular_data.py:306-316; `pd.read_csv(chunksize=…)` continues its `RangeIndex`).  The models
`Mk.Brew.predict` and `chunkPiece` take chunks of already labelled rows; here the stream is the one
the reader model of C13 delivers (`Tabular.pqLabel`). -/

/-- what one `reader.get_chunked_data_iterator(c)` over a file of `n` rows delivers, as far as the
zips depend on it: per chunk the index label of its first row and its number of rows
(src: tabular_data.py:226-235 text, 306-316 Parquet) -/
def chunkSpans (c n : Nat) : List (Nat × Nat) :=
  (Tabular.pqLabel 0 (chunksOf c (List.replicate n ()))).map
    (fun b => ((b.map (fun p => p.1)).headD 0, b.length))

/-- **Specification** of the stream profile: `⌈n/c⌉` chunks, chunk `k` starts at label `k·c` and
holds `min c (n − k·c)` rows (so every chunk but the last is full and none is empty) -/
def chunkSpansSpec (c n : Nat) : List (Nat × Nat) :=
  (List.range ((n + c - 1) / c)).map (fun k => (k * c, min c (n - k * c)))

/-- body of `_predict` for one file on a given stream of chunks whose rows are
`((index label, row), fold)`: identical to the body of `Mk.Brew.predict` (brew.py:415-476) -/
def predictOn {ρ σ : Type} [Inhabited σ] (chs : List (List ((Nat × ρ) × Nat))) (nfolds n : Nat)
    (score : Nat → ρ → σ) (target : ρ → Bool) (cal : List (σ × Bool) → σ → σ) : List σ :=
  let perFold := (List.range nfolds).map (fun f =>
    let rs := foldRows f chs
    let raw := rs.map (fun x => score f x.2)
    let g := cal (raw.zip (rs.map (fun x => target x.2)))
    (rs.map (·.1)).zip (raw.map g))
  let all := perFold.flatten
  (List.range n).map (fun p => (all.lookup p).getD default)

/-- `_predict` fed by the reader: the `k`-th chunk of the file (labels as the reader sets them:
local labels plus the running offset) receives the `k`-th slice of
`create_chunks(mod_idx, CHUNK_SIZE_ROWS_PREDICTION)` as its `fold` column (brew.py:417-428) -/
def predictStream {ρ σ : Type} [Inhabited σ] (c nfolds : Nat) (rows : List ρ) (routing : List Nat)
    (score : Nat → ρ → σ) (target : ρ → Bool) (cal : List (σ × Bool) → σ → σ) : List σ :=
  predictOn (List.zipWith List.zip (Tabular.pqLabel 0 (chunks c rows)) (chunks c routing))
    nfolds rows.length score target cal

/-- the pieces `get_rows_from_dataframe` cuts out of the reader's chunks for one training index
(`chunk.loc[list(set(train) & set(chunk.index))]`, pin.py:344-346), chunk after chunk -/
def streamPieces {ρ : Type} (c : Nat) (rows : List ρ) (train : List Nat) : List (List (Nat × ρ)) :=
  (Tabular.pqLabel 0 (chunks c rows)).map (chunkPiece train)

/-! ## 5. the keys of the streaming scan as a text input delivers them

`create_sorted_file_iterator` reads the metadata with `pd.read_csv(chunksize=c)`, which infers
the dtype of a column *per chunk*: `object` (strings) when some cell of the chunk is not a number,
else `float64` when some cell is spelled with a fraction / exponent or is empty, else `int64`.  The
chunk is written to its temporary file with that dtype (`'17'`, `500.0` or `500`) and read back by
the merge, so the value a row carries into the scan has the dtype of the chunk the row came
through.  The scan remembers an entity (spectrum, or the value of a roll-up level column) under
`_entity_key([data_row.get(col) …])` (confidence.py:752-761, 824-848): booleans by name, numbers
as `float`, *text made of digits, sign, point and exponent (`_PLAIN_NUMBER`) as that number*, every
other text as it is — the key is the canonical value of the cell whatever the dtype of its chunk.

History (all found by the second pass of C05, all kept as refuted variants): until commit 5233470
the key was `str([...])` of the values as they came (`'[1, 500]'` ≠ `'[1, 500.0]'`, `strKey`);
5233470 turned numbers into floats but left text alone (`"['17']"` from a chunk holding `17_b`
≠ `'[17.0]'` from an all-numeric chunk, `numKey`); 0d68f96 keyed *every* text that `float()`
accepts as that number, which merges the peptides `INF` and `INFINITY` (`floatTextKey`); afa88c6
restricts that to plain numbers: `canonKey`.

A cell is abstracted to a value id `v` (equal ids = equal canonical values), whether the value is
text that is not a plain number (`isText v`, a property of the value), and for numbers the spelling
of this cell (`frac`: with a fraction / exponent).  Cell classes: 0 integer spelling, 1 fraction
spelling, 2 text.  Dtypes: 0 `int64`, 1 `float64`, 2 `object`.  A Parquet column is typed by the
schema: all chunks have one dtype. -/

/-- which key column: `none` = the spectrum key, `some l` = the roll-up level `l` -/
abbrev KeyCol := Option Nat

def getKeyAt (w : KeyCol) (r : Row) : Nat := w.elim r.spec (fun l => r.key l)

/-- set the key of level `l` (rows of a table with that level are long enough: the padding is for
totality only, so that `(setLevelKey l x r).key l = x` for every row) -/
def setLevelKey (l x : Nat) (r : Row) : Row :=
  { r with keys := (r.keys ++ List.replicate (l + 1 - r.keys.length) 0).set l x }

def setKeyAt (w : KeyCol) (x : Nat) (r : Row) : Row :=
  w.elim { r with spec := x } (fun l => setLevelKey l x r)

/-- apply `g` to the key in column `w` -/
def mapKeyAt (w : KeyCol) (g : Nat → Nat) (r : Row) : Row := setKeyAt w (g (getKeyAt w r)) r

def cellClass (isText : Nat → Bool) (f : Bool) (v : Nat) : Nat := if isText v then 2 else f.toNat

/-- class of the cell of every row in column `w` -/
def classesAt (w : KeyCol) (isText : Nat → Bool) (frac : List Bool) (md : List Row) : List Nat :=
  List.zipWith (fun f r => cellClass isText f (getKeyAt w r)) frac md

/-- dtype under which every row's cell travels: that of its own chunk = the widest class in it -/
def chunkDtypes (c : Nat) (cls : List Nat) : List Nat :=
  (chunksOf c cls).flatMap (fun ch => List.replicate ch.length (ch.foldl max 0))

/-- `str([...])` of the value as it arrives (until 5233470): dtype `d` of the chunk, and in an
`object` chunk the text of the cell (class `k`); encoded injectively -/
def strKey (d k v : Nat) : Nat := if d = 2 then 9 * v + 6 + k else 9 * v + 3 * d

/-- numbers as `float`, text as it is (5233470 only) -/
def numKey (d k v : Nat) : Nat := if d = 2 then 9 * v + 6 + k else 9 * v + 3

/-- `_entity_key` (0d68f96 + afa88c6): numbers and text that is a plain number ↦ the number as
`float`, other text as it is — no dependence on the dtype of the chunk -/
def canonKey (_d k v : Nat) : Nat := if k = 2 then 9 * v + 8 else 9 * v + 3

/-- 0d68f96 alone (until afa88c6): every text that `float()` accepts is keyed as that number — also
`INF`, `INFINITY`, `NAN` in any letter case, which are peptides.  `floatOf v` = id of the number
`float()` reads from the text `v`, if it reads one -/
def floatTextKey (floatOf : Nat → Option Nat) (_d k v : Nat) : Nat :=
  if k = 2 then (floatOf v).elim (9 * v + 8) (fun n => 9 * n + 3) else 9 * v + 3

/-- the canonical key as a function of the value alone -/
def canonOf (isText : Nat → Bool) (v : Nat) : Nat := if isText v then 9 * v + 8 else 9 * v + 3

/-- every row re-keyed in column `w` with what the scan's seen-set receives for it -/
def rekeyAt (w : KeyCol) (key : Nat → Nat → Nat → Nat) (ds cls : List Nat) (md : List Row) : List Row :=
  List.zipWith (fun dk r => setKeyAt w (key dk.1 dk.2 (getKeyAt w r)) r) (ds.zip cls) md

/-- the table as the scan of the chunked text path sees it (one key column with mixed spellings) -/
def keyedRows (key : Nat → Nat → Nat → Nat) (c : Nat) (w : KeyCol) (isText : Nat → Bool) (frac : List Bool)
    (md : List Row) : List Row :=
  rekeyAt w key (chunkDtypes c (classesAt w isText frac md)) (classesAt w isText frac md) md

/-- result files of a text input whose key column `w` has the cells described by `isText`, `frac` -/
def keyedFiles (c : Nat) (dedup : Bool) (nLevels : Nat) (pep : List Row → List Rat) (w : KeyCol)
    (isText : Nat → Bool) (frac : List Bool) (md : List Row) (sc : List Int) :
    List (List (Row × Rat × Rat) × List (Row × Rat × Rat)) :=
  resultFiles c dedup nLevels pep (keyedRows canonKey c w isText frac md) sc

/-- **Specification**: every entity keyed by its canonical value — no chunk, no dtype, no spelling -/
def keyedFilesSpec (c : Nat) (dedup : Bool) (nLevels : Nat) (pep : List Row → List Rat) (w : KeyCol)
    (isText : Nat → Bool) (md : List Row) (sc : List Int) :
    List (List (Row × Rat × Rat) × List (Row × Rat × Rat)) :=
  resultFiles c dedup nLevels pep (md.map (mapKeyAt w (canonOf isText))) sc

/-- the two earlier behaviours (refuted variants; used by the harness to say what a disagreement is) -/
def oldKeyedFiles (key : Nat → Nat → Nat → Nat) (c : Nat) (dedup : Bool) (nLevels : Nat)
    (pep : List Row → List Rat) (w : KeyCol) (isText : Nat → Bool) (frac : List Bool) (md : List Row)
    (sc : List Int) : List (List (Row × Rat × Rat) × List (Row × Rat × Rat)) :=
  resultFiles c dedup nLevels pep (keyedRows key c w isText frac md) sc

end Mk.Cross
