import MokapotVerif.Model.Brew
import MokapotVerif.Model.Confidence
/-!
# Chunked paths of the pipeline that C05 quantifies over and no other model contains

Added for the extension of C05 (see `GAPS-C05.md`).  Everything here follows the data flow of the
code; the existing models (`Mk.Brew.predict`, `Mk.confidenceLevels`, …) are used, not rewritten.

1. `_predict_with_ensemble` (brew.py:487-513): `ensemble=True` and the *reset* path of `brew`
   (brew.py:196-222) read the file in chunks of `CHUNK_SIZE_ROWS_PREDICTION` rows.
2. `brew` for several collections (brew.py:149-190, pin.py:377-396): per fold the training rows
   of every file are materialised chunk by chunk and concatenated in file order; `_predict`
   (brew.py:415) loops over the collections.
3. the three further uses of `CONFIDENCE_CHUNK_SIZE` in `assign_confidence`:
   the zip of metadata chunks with score slices (confidence.py:808-846, the first anchor of C05),
   the batching of level rows in the streaming scan (confidence.py:737-762), and the zip of four
   chunk streams in the result writer (confidence.py:141-176, confidence_writer.py:131-157).

Nondeterminism: none is introduced here — `joblib.Parallel` hands results back in submission
order (`_predict_with_ensemble` uses the *returned* list, not appends made by the tasks), and the
per-chunk sort / merge arrangements are those of `Mk.confidenceLevels`.  Import-free.
-/
namespace Mk.Cross
open Mk Mk.Brew

/-! ## 1. `_predict_with_ensemble` -/

/-- `Parallel(...)(delayed(mod.predict)(psms=data) for mod in models)` on one chunk: one score
vector per model, in model order (brew.py:506-508).  `score m r` = model `m`'s output on row `r`
(`Model.predict` is row-wise: scaler transform and decision function of one feature row). -/
def chunkPreds {ρ σ : Type} (nmodels : Nat) (score : Nat → ρ → σ) (ch : List ρ) : List (List σ) :=
  (List.range nmodels).map (fun m => ch.map (score m))

/-- `[score.append(fs) for score, fs in zip(scores, fold_scores)]` followed (after the loop) by
`np.hstack(score)`: the chunk's vector is put behind what model `m` has so far (brew.py:509-511) -/
def ensembleStep {ρ σ : Type} (nmodels : Nat) (score : Nat → ρ → σ) (acc : List (List σ))
    (ch : List ρ) : List (List σ) :=
  List.zipWith (fun s fs => s ++ fs) acc (chunkPreds nmodels score ch)

/-- `scores` after the loop over the chunks of `c` rows: one vector per model (brew.py:499-511) -/
def ensembleRaw {ρ σ : Type} (c nmodels : Nat) (rows : List ρ) (score : Nat → ρ → σ) : List (List σ) :=
  (chunks c rows).foldl (ensembleStep nmodels score) (List.replicate nmodels [])

/-- `np.mean(scores, axis=0)` (brew.py:512): entry `p` is the average `avg` of the `p`-th entries
of all vectors; the length is that of the first vector -/
def colMean {σ : Type} [Inhabited σ] (avg : List σ → σ) (cols : List (List σ)) : List σ :=
  (List.range (cols.headD []).length).map (fun p => avg (cols.map (fun col => col.getD p default)))

/-- `_predict_with_ensemble(psms, models, max_workers)` with prediction chunk size `c` -/
def ensemble {ρ σ : Type} [Inhabited σ] (c nmodels : Nat) (rows : List ρ) (score : Nat → ρ → σ)
    (avg : List σ → σ) : List σ :=
  colMean avg (ensembleRaw c nmodels rows score)

/-- **Specification**: row `r` gets the average of the outputs of all models on `r` -/
def ensembleSpec {ρ σ : Type} (nmodels : Nat) (rows : List ρ) (score : Nat → ρ → σ)
    (avg : List σ → σ) : List σ :=
  rows.map (fun r => avg ((List.range nmodels).map (fun m => score m r)))

/-- reset path (brew.py:196-207): the *original* model alone scores every chunk, the result is
calibrated as a whole (`calAll` = `OnDiskPsmDataset.calibrate_scores`, the subject of C11) -/
def resetScores {ρ σ τ : Type} [Inhabited σ] (c : Nat) (rows : List ρ) (orig : ρ → σ) (target : ρ → Bool)
    (avg : List σ → σ) (calAll : List (σ × Bool) → τ) : τ :=
  calAll ((ensemble c 1 rows (fun _ => orig) avg).zip (rows.map target))

def resetSpec {ρ σ τ : Type} (rows : List ρ) (orig : ρ → σ) (target : ρ → Bool)
    (calAll : List (σ × Bool) → τ) : τ :=
  calAll ((rows.map orig).zip (rows.map target))

/-! ## 2. several collections -/

/-- `[pd.concat(df) for df in zip(*train_psms_reordered)]` for one fold (pin.py:392-396):
per file the pieces gathered from the chunks (in whatever order the threads appended them) are
concatenated and re-indexed by that file's training index; the files follow one another in the
order of `psms`.  `pieces[file]` = list of pieces, `trains[file]` = index list. -/
def materialiseColls {ρ : Type} (pieces : List (List (List (Nat × ρ)))) (trains : List (List Nat)) :
    List (Option ρ) :=
  (pieces.zip trains).flatMap (fun pt => reindex pt.1.flatten pt.2)

/-- **Specification**: rows `trains[file]` of every file, file after file -/
def materialiseCollsSpec {ρ : Type} (files : List (List ρ)) (trains : List (List Nat)) : List (Option ρ) :=
  (files.zip trains).flatMap (fun ft => ft.2.map (fun i => ft.1[i]?))

/-- scores of all collections as `brew` computes them (brew.py:196-249): `reset` → original model
+ calibration of the whole collection; `ens` → ensemble; otherwise `_predict` (per-fold routing and
per-fold calibration).  A collection is `(rows, routing)`.  The same `c` serves every collection. -/
def collScores {ρ σ : Type} [Inhabited σ] (reset ens : Bool) (c nfolds : Nat) (coll : List ρ × List Nat)
    (score : Nat → ρ → σ) (orig : ρ → σ) (target : ρ → Bool) (avg : List σ → σ)
    (cal : List (σ × Bool) → σ → σ) (calAll : List (σ × Bool) → List σ) : List σ :=
  if reset then resetScores c coll.1 orig target avg calAll
  else if ens then ensemble c nfolds coll.1 score avg
  else predict c nfolds coll.1 coll.2 score target cal

def brewScores {ρ σ : Type} [Inhabited σ] (reset ens : Bool) (c nfolds : Nat) (colls : List (List ρ × List Nat))
    (score : Nat → ρ → σ) (orig : ρ → σ) (target : ρ → Bool) (avg : List σ → σ)
    (cal : List (σ × Bool) → σ → σ) (calAll : List (σ × Bool) → List σ) : List (List σ) :=
  colls.map (fun coll => collScores reset ens c nfolds coll score orig target avg cal calAll)

/-- **Specification** of `brewScores`: no chunk size in it -/
def collScoresSpec {ρ σ : Type} (reset ens : Bool) (nfolds : Nat) (coll : List ρ × List Nat)
    (score : Nat → ρ → σ) (orig : ρ → σ) (target : ρ → Bool) (avg : List σ → σ)
    (cal : List (σ × Bool) → σ → σ) (calAll : List (σ × Bool) → List σ) : List σ :=
  if reset then resetSpec coll.1 orig target calAll
  else if ens then ensembleSpec nfolds coll.1 score avg
  else predictSpec coll.1 coll.2 score target cal

/-! ## 3. `CONFIDENCE_CHUNK_SIZE` in `assign_confidence` beyond the per-chunk sort -/

/-- `zip(file_iterator, scores_slices, …)` (confidence.py:818-846): the `i`-th chunk of the
metadata reader is paired with the `i`-th slice of `create_chunks(score, CONFIDENCE_CHUNK_SIZE)`;
inside `_save_sorted_metadata_chunks` the slice becomes the `score` column of the chunk
(`chunk_metadata.assign(score=score_chunk)`, confidence.py:865) -/
def attachScores {μ σ : Type} (c : Nat) (md : List μ) (sc : List σ) : List (List (μ × σ)) :=
  List.zipWith List.zip (chunksOf c md) (chunksOf c sc)

/-- the metadata row with its score column filled in -/
def withScore (p : Row × Int) : Row := { p.1 with score := p.2 }

/-- the whole table with the score column: what the chunked path must be equivalent to -/
def scoredRows (md : List Row) (sc : List Int) : List Row := (md.zip sc).map withScore

/-- state of one level's buffer in the scan: batches already handed to the level writer, and the
current batch (confidence.py:715-717, 745-760) -/
abbrev BatchState (α : Type) := List (List α) × List α

/-- `batches[level].append(data_row); batch_counts[level] += 1;
if batch_counts[level] == CONFIDENCE_CHUNK_SIZE: handles[level].append_data(df); reset` -/
def batchStep {α : Type} (c : Nat) (st : BatchState α) (r : α) : BatchState α :=
  if (st.2 ++ [r]).length = c then (st.1 ++ [st.2 ++ [r]], []) else (st.1, st.2 ++ [r])

/-- all frames appended to one level writer: the full batches, then (after the loop, always)
the remaining rows (confidence.py:755-762) -/
def levelBatches {α : Type} (c : Nat) (rows : List α) : List (List α) :=
  (rows.foldl (batchStep c) ([], [])).1 ++ [(rows.foldl (batchStep c) ([], [])).2]

/-- `write_confidences` (confidence_writer.py:131-152) fed by `write_to_disk`
(confidence.py:141-176): the level file is read back in chunks of `c` rows, the q-value, PEP and
target arrays are cut with `create_chunks(…, c)`, the four streams are zipped; of every chunk the
target rows go to the first file and the decoy rows to the second. -/
def writeChunked {α β γ : Type} (c : Nat) (rows : List α) (q : List β) (p : List γ) (t : List Bool) :
    List (α × β × γ) × List (α × β × γ) :=
  let data := List.zipWith List.zip (chunksOf c rows) (List.zipWith List.zip (chunksOf c q) (chunksOf c p))
  let chs := List.zipWith List.zip data (chunksOf c t)
  (chs.flatMap (fun ch => (ch.filter (fun x => x.2)).map (fun x => x.1)),
   chs.flatMap (fun ch => (ch.filter (fun x => !x.2)).map (fun x => x.1)))

/-- **Specification** of the two result files of one level: the target rows / the decoy rows of
the level file in file order, each next to its own q-value and PEP -/
def writeWhole {α β γ : Type} (rows : List α) (q : List β) (p : List γ) (t : List Bool) :
    List (α × β × γ) × List (α × β × γ) :=
  let z := (rows.zip (q.zip p)).zip t
  ((z.filter (fun x => x.2)).map (fun x => x.1), (z.filter (fun x => !x.2)).map (fun x => x.1))

/-- the level files of one collection along the chunked path: scores attached chunk by chunk,
every chunk sorted (and de-duplicated) into its temporary file, k-way merge, streaming scan with
the level rows leaving in batches of `c` (the level file is the concatenation of the batches).
As in `Mk.confidenceLevels` the stable merge sort stands for one admissible arrangement. -/
def chunkedLevels (c : Nat) (dedup : Bool) (nLevels : Nat) (md : List Row) (sc : List Int) :
    List Row × List (List Row) :=
  let files := (attachScores c md sc).map
    (fun ch => chunkFile dedup ((ch.map withScore).mergeSort rowBetter))
  let merged := files.flatten.mergeSort rowBetter
  let out := scan dedup nLevels merged
  ((levelBatches c out.1).flatten, out.2.map (fun l => (levelBatches c l).flatten))

/-- `targets.<level>` / `decoys.<level>` for the PSM level and every roll-up level
(`LinearConfidence._assign_confidence`, confidence.py:395-449): q-values by `tdc` on the level
file, PEPs by the kernel `pep` (C06; a parameter here), written chunk by chunk -/
def resultFiles (c : Nat) (dedup : Bool) (nLevels : Nat) (pep : List Row → List Rat)
    (md : List Row) (sc : List Int) : List (List (Row × Rat × Rat) × List (Row × Rat × Rat)) :=
  ((chunkedLevels c dedup nLevels md sc).1 :: (chunkedLevels c dedup nLevels md sc).2).map
    (fun rows => writeChunked c rows (levelQvalues rows) (pep rows) (rows.map (fun r => r.target)))

/-- **Specification** of the result files: the un-chunked description on top of the existing
model of the level files -/
def resultFilesSpec (levels : List Row × List (List Row)) (pep : List Row → List Rat) :
    List (List (Row × Rat × Rat) × List (Row × Rat × Rat)) :=
  (levels.1 :: levels.2).map
    (fun rows => writeWhole rows (levelQvalues rows) (pep rows) (rows.map (fun r => r.target)))

end Mk.Cross
