import MokapotVerif.Model.Fit
/-!
# `Model.fit` / `Model.predict` at the level of the dataset  (second audit pass of C12)

`Model/Fit.lean` starts from a ready-made row matrix `rows`, feature columns `cols` and — at
prediction — from a list of stored names, a `transform` and a `score` that nothing ties to what
`fit` produced.  This file adds the missing links of the code's data flow (added, nothing above is
rewritten):

* which columns of the DataFrame are the features, and in which order
  (`PsmDataset.__init__`, dataset.py:108-113; `PsmDataset.features`, dataset.py:143-146);
* `self.features = psms.features.columns.tolist()`, `norm_feat = self.scaler.fit_transform(psms.features.values)`
  (model.py:286-288): the stored names and the columns of the training matrix are bound pairwise,
  the scaler is *fitted* here;
* `direction=<feature name>` resolved against those names (`psms.features[model.direction]`, model.py:587);
* a trained model as an object (`Trained`: stored names, scaler state, estimator state) and
  `Model.decision_function` / `Model.predict` of *that* object on another dataset (model.py:210-242).

No Mathlib.  The feature values and the scores share the type `α` (floats in the code).
`γ` is the type of a raw column, `σ` the state of the scaler, `ν` the type of column names.
-/
namespace Mk.Fit
variable {α γ θ ν σ : Type}

/-! ## the dataset: which columns are features, in which order -/

/-- `PsmDataset.__init__`: with `feature_columns=None` the features are all columns of the frame that
are not one of the declared (target / spectrum / peptide / optional) columns, in the physical order
of the frame; otherwise the given names in the given order (`utils.tuplize`).
src: mokapot/dataset.py:108-113 -/
def featureNames [DecidableEq ν] (frameNames used : List ν) (fc : Option (List ν)) : List ν :=
  fc.getD (frameNames.filter (fun c => !used.contains c))

/-- one column of `self.data.loc[:, names]`: the column called `nm`, with its name -/
def namedCol [DecidableEq ν] (frame : List (ν × γ)) (nm : ν) : Option (ν × γ) :=
  (lookupCol frame nm).map (fun c => (nm, c))

/-- `psms.features` = `self.data.loc[:, self._feature_columns]`: the columns *called* `names`, in the
order of `names` (not in the physical order of the frame); `none` is the `KeyError` of pandas for
a name the frame does not have.
src: mokapot/dataset.py:143-146 -/
def featureFrame [DecidableEq ν] (frame : List (ν × γ)) (names : List ν) : Option (List (ν × γ)) :=
  if names.all (fun nm => (lookupCol frame nm).isSome) then some (names.filterMap (namedCol frame)) else none

/-! ## the scaler and the trained model as an object -/

/-- the scikit-learn transformer interface as `Model` uses it: `fit_transform(X)` is
`transform(X)` with the state `fit(X)` learned from the same matrix; `transform` is a positional
function of the row-major matrix.  (`scaler="as-is"`: `DummyScaler`, state `Unit`, identity.) -/
structure Scaler (α σ : Type) where
  fit : List (List α) → σ
  transform : σ → List (List α) → List (List α)

/-- what `Model.fit` leaves behind when it succeeds: `self.features`, the fitted `self.scaler`,
the fitted `self.estimator` (`is_trained = True`).  src: mokapot/model.py:286-288, 337-345 -/
structure Trained (ν σ θ : Type) where
  features : List ν
  scaler : σ
  theta : θ

/-- the settings of a `Model`; `direction` is a feature *name* -/
structure FullCfg (ν : Type) where
  shuffle : Bool
  perm : List Nat
  maxIter : Nat
  override : Bool
  direction : Option ν

def FullCfg.toCfg (c : FullCfg ν) (dir : Option Nat) : FitCfg := ⟨c.shuffle, c.perm, c.maxIter, c.override, dir⟩

/-- the position of a name that is present; `none` is the `KeyError` -/
def nameIndex [DecidableEq ν] (names : List ν) (nm : ν) : Option (Option Nat) :=
  if names.contains nm then some (some (names.idxOf nm)) else none

/-- `psms.features[model.direction]`: the position of the direction feature among the feature
columns; outer `none` is the `KeyError` for a name that is not a feature.
src: mokapot/model.py:587 -/
def dirIndex [DecidableEq ν] (names : List ν) (d : Option ν) : Option (Option Nat) :=
  (d.map (nameIndex names)).getD (some none)

/-- the outcome of `Model.fit` and the trained model (present iff the outcome is `ok`) -/
structure FullOut (ν σ θ α : Type) where
  out : FitOut (List α) θ
  model : Option (Trained ν σ θ)

/-- `Model.fit` from the feature frame on: start labels from the raw columns, stored names = the
names of the feature frame, `norm_feat = scaler.fit_transform(features.values)`, then the loop of
`fitModel` on the scaled rows.
src: mokapot/model.py:277-347 -/
def fitFullCore (sc : Scaler α σ) (est : Est (List α) α θ) (le : α → α → Bool) (thr : Rat) (cfg : FullCfg ν) (th0 : θ)
    (targets : List Bool) (feats : List (ν × List α)) (dir : Option Nat) : FullOut ν σ θ α :=
  let raw := rowsOf targets.length (feats.map (·.2))
  let s := sc.fit raw
  let out := fitModel est le thr (cfg.toCfg dir) th0 (sc.transform s raw) (feats.map (·.2)) targets
  ⟨out, out.theta.map (fun th => ⟨feats.map (·.1), s, th⟩)⟩

/-- `Model.fit(psms)` of an untrained model on a `LinearPsmDataset` built from the DataFrame `frame`
(all its columns, in physical order) with the declared columns `used` and the `feature_columns`
option `fc`.  The two target checks come before any feature is looked at; `none` is the `KeyError`
for a feature (or direction) name the frame does not have.
src: mokapot/model.py:244-347, mokapot/dataset.py:108-113, 143-146 -/
def fitFull [DecidableEq ν] (sc : Scaler α σ) (est : Est (List α) α θ) (le : α → α → Bool) (thr : Rat)
    (cfg : FullCfg ν) (th0 : θ) (frame : List (ν × List α)) (used : List ν) (fc : Option (List ν))
    (targets : List Bool) : Option (FullOut ν σ θ α) :=
  if targets.all (· == false) then some ⟨⟨.noTargets, [], none⟩, none⟩
  else if targets.all (· == true) then some ⟨⟨.noDecoys, [], none⟩, none⟩
  else (featureFrame frame (featureNames (frame.map (·.1)) used fc)).bind (fun feats =>
    (dirIndex (feats.map (·.1)) cfg.direction).map (fitFullCore sc est le thr cfg th0 targets feats))

/-- `Model.decision_function(psms)` of a trained model object on another dataset: the features of
that dataset by *its* `feature_columns`, selected by the *stored* names, transformed by the *stored*
scaler, scored by the *stored* estimator.  The `is_trained` guard comes first; outer `none` is the
`KeyError` of `psms.features`.
src: mokapot/model.py:210-242 -/
def predictFull [DecidableEq ν] (sc : Scaler α σ) (score : θ → List α → α) (m : Option (Trained ν σ θ)) (n : Nat)
    (frame : List (ν × List α)) (used : List ν) (fc : Option (List ν)) : Option (Except PredErr (List α)) :=
  (m.map (fun t => (featureFrame frame (featureNames (frame.map (·.1)) used fc)).map (fun feats =>
      predictScaled true (sc.transform t.scaler) (score t.theta) t.features n feats))).getD
    (some (.error .notFitted))

/-- the scores the estimator of a trained model gives to the rows it was trained on -/
def trainingScores (sc : Scaler α σ) (score : θ → List α → α) (t : Trained ν σ θ) (n : Nat)
    (cols : List (List α)) : List α :=
  (sc.transform t.scaler (rowsOf n cols)).map (score t.theta)

/-- the row-permuted presentation of a DataFrame: every column in the row order `p` -/
def permuteRows (frame : List (ν × List α)) (p : List Nat) : List (ν × List α) :=
  frame.map (fun c => (c.1, gather c.2 p))

end Mk.Fit
