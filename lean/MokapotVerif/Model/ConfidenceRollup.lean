import MokapotVerif.Model.ConfidenceBatch
/-!
# The stand-alone roll-up tool as a whole (`mokapot.brew_rollup.do_rollup`)

src: mokapot/brew_rollup.py:205-235 (`DEFAULT_PARENT_LEVELS`, `compute_rollup_levels`),
259-454 (`do_rollup`).

`Model/Confidence.lean: rollupTool` is the inner loop on an already merged stream for levels
numbered by the caller.  This file adds what surrounds it: which levels the tool rolls up to for
a given `--level` (a fixpoint computation over the parent map, filtered by the columns present
in the input files), the input side (targets files get `is_decoy = False`, decoys files `True`,
all of them merged by `MergedTabularDataReader` on descending score — model
`Merge.kmergeChecked`, C14 — which *rejects* unsorted files), and the output side (q-values on
the retained rows of a level, split into `targets.<level>s` and `decoys.<level>s`, both always
written).

Level and column names are `List Char` (kernel-reducible).
-/
namespace Mk

abbrev RollupName := List Char

/-- `DEFAULT_PARENT_LEVELS` as (child, parent) pairs in dict order.
src: brew_rollup.py:205-210 -/
def rollupDefaultParents : List (RollupName × RollupName) :=
  [ ("precursor".toList, "psm".toList),
    ("modified_peptide".toList, "precursor".toList),
    ("peptide".toList, "modified_peptide".toList),
    ("peptide_group".toList, "precursor".toList) ]

/-- the values `--level` accepts.  src: brew_rollup.py:69-77 -/
def rollupCliLevels : List RollupName :=
  ["psm".toList, "precursor".toList, "modifiedpeptide".toList, "peptide".toList, "peptidegroup".toList]

/-- body of `for child, parent in parent_levels.items()`: append a child whose parent is
already a level.  src: brew_rollup.py:222-225 -/
def rlStep (lv : List RollupName) (cp : RollupName × RollupName) : List RollupName :=
  if lv.contains cp.2 && !lv.contains cp.1 then lv ++ [cp.1] else lv

/-- one pass over the parent map -/
def rlPass (parents : List (RollupName × RollupName)) (lv : List RollupName) : List RollupName := parents.foldl rlStep lv

/-- `while changed:` — `changed` is set exactly when a pass appended something.  Fuel: a pass
that changes something adds a key of the map that was not a level before. -/
def rlLoop (parents : List (RollupName × RollupName)) : Nat → List RollupName → List RollupName
  | 0, lv => lv
  | fuel + 1, lv =>
    if (rlPass parents lv).length = lv.length then lv else rlLoop parents fuel (rlPass parents lv)

/-- `compute_rollup_levels(base_level, parent_levels)`.  src: brew_rollup.py:213-226 -/
def rollupLevelNames (parents : List (RollupName × RollupName)) (base : RollupName) : List RollupName :=
  rlLoop parents (parents.length + 1) [base]

/-- `STANDARD_COLUMN_NAME_MAP` (input column name ↦ standard name) in dict order.
src: brew_rollup.py:229-241 -/
def rollupStdMap : List (RollupName × RollupName) :=
  [ ("SpecId".toList, "psm_id".toList), ("PSMId".toList, "psm_id".toList),
    ("Precursor".toList, "precursor".toList), ("pcm".toList, "precursor".toList),
    ("PCM".toList, "precursor".toList), ("Peptide".toList, "peptide".toList),
    ("PeptideGroup".toList, "peptide_group".toList), ("peptidegroup".toList, "peptide_group".toList),
    ("ModifiedPeptide".toList, "modified_peptide".toList),
    ("modifiedpeptide".toList, "modified_peptide".toList), ("q-value".toList, "q_value".toList) ]

/-- `STANDARD_COLUMN_NAME_MAP.get(name, name)` -/
def rollupStdName (name : RollupName) : RollupName := (rollupStdMap.lookup name).getD name

/-- the levels the tool rolls up to: `compute_rollup_levels` started from the *column name* of
the `--level` value (the command line spells `modifiedpeptide` / `peptidegroup`, the columns and
the parent map `modified_peptide` / `peptide_group`), then
`levels = [level for level in levels if level in reader.get_column_names()]`.
src: brew_rollup.py:326-340 -/
def toolLevels (parents : List (RollupName × RollupName)) (base : RollupName) (cols : List RollupName) : List RollupName :=
  (rollupLevelNames parents (rollupStdName base)).filter (fun l => cols.contains l)

/-- `is_decoy` is computed from the kind of file a row was read from (brew_rollup.py:287-308) -/
def rollupRetag (t : Bool) (rows : List Row) : List Row := rows.map (fun r => { r with target := t })

/-- position of a level's id column among the key columns of the rows -/
def rollupKeyIdx (cands : List RollupName) (lv : RollupName) : Nat := cands.idxOf lv

/-- rows written to the temp file of a level: first row per id of the merged stream
(`if id not in seen: seen.add(id); temp_writers[level].append_data(line)`, brew_rollup.py:394-412) -/
def toolLevelRows (cands : List RollupName) (merged : List Row) (lv : RollupName) : List Row :=
  dedupFirst (fun r => r.key (rollupKeyIdx cands lv)) [] merged

structure RollupToolOut where
  level : RollupName
  targets : List ConfLine
  decoys : List ConfLine
  deriving Repr

/-- q-values on the temp file of the level, then `data.loc[targets]` / `data.loc[~targets]`
(brew_rollup.py:431-454) -/
def toolWrite (cands : List RollupName) (merged : List Row) (lv : RollupName) : RollupToolOut :=
  ⟨lv, (splitTD (toolLevelRows cands merged lv)).1, (splitTD (toolLevelRows cands merged lv)).2⟩

/-- outcome of the merged reader: `none` — raises before the first row (no reader, or a file
without rows); `(_, true)` — `ValueError` because a file is not sorted -/
def toolOutcome {β : Type} (f : List Row → β) : Option (List Row × Bool) → Except String β
  | none => .error "no-rows"
  | some (_, true) => .error "unsorted"
  | some (merged, false) => .ok (f merged)

/-- `do_rollup`: the files `roll.targets.<level>s` / `roll.decoys.<level>s` per level.
`tfiles` / `dfiles`: the rows of the `*.targets.<base>s` / `*.decoys.<base>s` files in sorted
name order (the merged reader lists the decoy readers first, so that a score tie between a
target and a decoy is taken from the decoy file first); `cols`: the column names of the merged reader; `cands`: the level names whose id
columns the rows carry as keys. -/
def rollupRun (parents : List (RollupName × RollupName)) (base : RollupName) (cols cands : List RollupName)
    (tfiles dfiles : List (List Row)) : Except String (List RollupToolOut) :=
  toolOutcome (fun merged => (toolLevels parents base cols).map (toolWrite cands merged))
    (Merge.kmergeChecked rowLeB true (dfiles.map (rollupRetag false) ++ tfiles.map (rollupRetag true)))

end Mk
