import MokapotVerif.Model.PepsKernel
/-!
# Third extension of the C06 model: the histogram side of `hist_nnls`, `from_peps`, `from_counts`
and the NNLS *systems* handed to `scipy.optimize.nnls`

(imports only `Model/PepsKernel.lean`; no Mathlib)

Until now everything between the raw scores and the NNLS solution of `hist_nnls` was one abstract
kernel (`es`, `d`).  Modelled here, line by line:

1. `hist_data_from_scores` (peps.py:328-351): `np.histogram(scores[targets], bins=edges)` and
   `np.histogram(scores[~targets], bins=edges)` on the *joint* bin edges — numpy's cumulative
   histogram (`searchsorted(.., 'left')` for every edge but the last, `'right'` for the last, then
   `np.diff`), the bin midpoints `0.5 * (bins[:-1] + bins[1:])`, and `density=True`
   (`n / diff(edges) / n.sum()`, used by `qvalues_from_counts`).
2. `estimate_trials_and_successes(decoy_counts, target_counts, restrict=False)` (peps.py:354-377):
   `n = target_counts`, `k = factor * decoy_counts`, `factor = estimate_pi0_by_slope(target_counts,
   decoy_counts)`.
3. `fit_nnls(n, k, ascending=False)` (peps.py:289-325): the reversed problem, the system matrix
   `diag(n) @ tril(ones)`, the replacement rows of empty bins (`A[nz,nz] = 1`,
   `A[nz, min(nz+1, N-1)] = -1`, `w[nz] = 1`, `k[nz] = 0`), the weights `n ** 0.5`.
   `monotonize_nnls(x, w, ascending=False)` (peps.py:133-158): `tril(ones)` weighted by `sqrt(w)`.
4. the pipelines `hist_nnls`, `from_peps` (default), `from_counts` from the **bin edges** on.

What stays a parameter: `np.histogram_bin_edges(scores, bins="auto")` (a function of the score
vector), the float product `threshold * max(decoy_counts)`, `np.polyfit`'s slope, and the NNLS
solver (a function of the system).
-/
namespace Mk.Peps

/-! ## 1. np.histogram with explicit bin edges -/

/-- `sa.searchsorted(e, 'left')`: the number of values `< e`.  src: numpy `_search_sorted_inclusive`,
called from mokapot/peps.py:344-349 -/
def cumBelow (xs : List Rat) (e : Rat) : Nat := xs.countP (fun x => decide (x < e))

/-- `sa.searchsorted(e, 'right')`: the number of values `≤ e` (the last edge only) -/
def cumUpTo (xs : List Rat) (e : Rat) : Nat := xs.countP (fun x => decide (x ≤ e))

/-- the cumulative histogram `cum_n` over the edges: `'left'` for all edges but the last,
`'right'` for the last.  src: mokapot/peps.py:344-349 (np.histogram, explicit edges) -/
def histCum (xs : List Rat) : List Rat → List Nat
  | [] => []
  | [e] => [cumUpTo xs e]
  | e :: e' :: rest => cumBelow xs e :: histCum xs (e' :: rest)

/-- `np.diff` on the cumulative counts -/
def diffNat : List Nat → List Int
  | a :: b :: rest => ((b : Int) - (a : Int)) :: diffNat (b :: rest)
  | _ => []

/-- `np.histogram(xs, bins=edges)[0]`.  src: mokapot/peps.py:344-349 -/
def histCounts (xs edges : List Rat) : List Int := diffNat (histCum xs edges)

/-- `eval_scores = 0.5 * (bins[:-1] + bins[1:])`.  src: mokapot/peps.py:350 -/
def histMid : List Rat → List Rat
  | a :: b :: rest => (1 / 2 : Rat) * (a + b) :: histMid (b :: rest)
  | _ => []

/-- `np.diff(bin_edges)` -/
def diffRat : List Rat → List Rat
  | a :: b :: rest => (b - a) :: diffRat (b :: rest)
  | _ => []

def intSum (cs : List Int) : Int := cs.foldr (· + ·) 0

def ratOfInt (z : Int) : Rat := (z : Rat)

/-- `density=True`: `n / db / n.sum()`.  src: mokapot/peps.py:344-349, qvalues.py:283-285 -/
def histDensity (cs : List Int) (edges : List Rat) : List Rat :=
  List.zipWith (fun c w => ratOfInt c / w / ratOfInt (intSum cs)) cs (diffRat edges)

/-- `hist_data_from_scores(scores, targets, bins=edges)`: `(eval_scores, target_counts, decoy_counts)`.
src: mokapot/peps.py:328-351 -/
def histDataOf (edges : List Rat) (xs : List Psm) : List Rat × List Int × List Int :=
  (histMid edges, histCounts (targetScores xs) edges, histCounts (decoyScores xs) edges)

/-- declarative side: is `x` in the bin `[lo, hi)` (`[lo, hi]` for the last bin) -/
def inBin (lo hi : Rat) (last : Bool) (x : Rat) : Bool :=
  decide (lo ≤ x) && (if last then decide (x ≤ hi) else decide (x < hi))

/-- declarative side: the number of values in each bin -/
def histSpec (xs : List Rat) : List Rat → List Nat
  | [] => []
  | [_] => []
  | [a, b] => [xs.countP (inBin a b true)]
  | a :: b :: c :: rest => xs.countP (inBin a b false) :: histSpec xs (b :: c :: rest)

/-! ## 2./3. the NNLS systems -/

/-- entry `(i, j)` of the matrix of `fit_nnls` for a bin with `n[i] = ni`: `diag(n) @ tril(ones)`, and
for an empty bin the replacement row `A[nz, nz] = 1` then `A[nz, min(nz+1, N-1)] = -1` (for the last
row both assignments hit the diagonal: `-1` stays).  src: mokapot/peps.py:291-301 -/
def fitEntry (N : Nat) (ni : Rat) (i j : Nat) : Rat :=
  if ni = 0 then (if j = min (i + 1) (N - 1) then -1 else if j = i then 1 else 0)
  else (if j ≤ i then ni else 0)

/-- the matrix `A` of `fit_nnls(n, k)` (ascending problem).  src: mokapot/peps.py:291-301 -/
def fitRows (n : List Rat) : List (List Rat) :=
  n.zipIdx.map (fun p => (List.range n.length).map (fitEntry n.length p.1 p.2))

/-- the right-hand side: `k[nz] = 0`.  src: mokapot/peps.py:303 -/
def fitRhs (n k : List Rat) : List Rat :=
  List.zipWith (fun ni ki => if ni = 0 then 0 else ki) n k

/-- the squares of the weights `w = n ** 0.5`, `w[nz] = 1`.  src: mokapot/peps.py:294, 302 -/
def fitW2 (n : List Rat) : List Rat := n.map (fun ni => if ni = 0 then 1 else ni)

/-- `np.tril(np.ones((N, N)))`: the matrix of `monotonize_nnls`.  src: mokapot/peps.py:148-149 -/
def monoRows (N : Nat) : List (List Rat) :=
  (List.range N).map (fun i => (List.range N).map (fun j => if j ≤ i then (1 : Rat) else 0))

/-- `np.dot` of a row with the unknowns -/
def dotRat (row d : List Rat) : Rat := (List.zipWith (· * ·) row d).foldr (· + ·) 0

/-! ## 4. pipelines from the bin edges on -/

/-- the kernels of one `hist_nnls` / `from_peps` call that remain abstract:
`np.histogram_bin_edges(scores, bins="auto")` (of the score vector in input order),
`threshold * max(decoy_counts)` and `np.polyfit`'s slope (of the two count vectors; the slope is read only
when there is a left flank), and `scipy.optimize.nnls` (of rows, right-hand side, squared weights:
the solver sees `diag(sqrt(w2)) @ rows`, `sqrt(w2) * rhs`) -/
structure HistKern where
  binEdges : List Rat → List Rat
  prod : List Rat → Rat
  polyfit : List Rat → List Rat → Rat
  nnls : List (List Rat) → List Rat → List Rat → List Rat

def countsRat (cs : List Int) : List Rat := cs.map ratOfInt

/-- `factor = estimate_pi0_by_slope(target_counts, decoy_counts)` inside
`estimate_trials_and_successes`.  src: mokapot/peps.py:367 -/
def histFactorOf (k : HistKern) (tc dc : List Rat) : Rat :=
  pi0BySlopeOf (k.prod dc) dc (k.polyfit dc tc)

/-- the NNLS solution `d` of `fit_nnls(n, k, ascending=False)` with `n = target_counts`,
`k = factor * decoy_counts` (`restrict=False`): the problem is reversed (`n[::-1]`, `k[::-1]`), the result
is `np.cumsum(d)[::-1]` (= `revCumsum d`).  src: mokapot/peps.py:402-408, 289-290, 370-377 -/
def histFitOf (k : HistKern) (edges : List Rat) (xs : List Psm) : List Rat :=
  let tc := countsRat (histCounts (targetScores xs) edges)
  let dc := countsRat (histCounts (decoyScores xs) edges)
  let n := tc.reverse
  let kk := (dc.map (fun c => histFactorOf k tc dc * c)).reverse
  k.nnls (fitRows n) (fitRhs n kk) (fitW2 n)

/-- `peps_from_scores_hist_nnls(scores, targets)` from the bin edges on.
src: mokapot/peps.py:380-418 -/
def histNnlsFullOf (k : HistKern) (xs : List Psm) : Option (List Rat) :=
  histNnlsOf (histMid (k.binEdges (xs.map (·.1)))) (histFitOf k (k.binEdges (xs.map (·.1))) xs) (xs.map (·.1))

/-- the function of the score that `hist_nnls` evaluates on the data set `xs` (declarative side) -/
def histFullFun (k : HistKern) (xs : List Psm) (x : Rat) : Rat :=
  histPepFun (histMid (k.binEdges (xs.map (·.1)))) (histFitOf k (k.binEdges (xs.map (·.1))) xs) x

/-- `qvalues_from_peps(scores, targets)` (`peps=None`) from the bin edges on.
src: mokapot/qvalues.py:238-260 -/
def fromPepsFullOf (k : HistKern) (xs : List Psm) (ind : List Nat) : Option (List Rat) :=
  fromPepsHistOf (histMid (k.binEdges (xs.map (·.1)))) (histFitOf k (k.binEdges (xs.map (·.1))) xs) xs ind

/-- `qvalues_from_counts(scores, targets)` from the bin edges on: the two histograms with
`density=True`, `pi0 = estimate_pi0_by_slope(target_density, decoy_density)`.
src: mokapot/qvalues.py:283-306 -/
def fromCountsFullOf (k : HistKern) (xs : List Psm) (ind : List Nat) : Option (List Rat) :=
  let edges := k.binEdges (xs.map (·.1))
  let td := histDensity (histCounts (targetScores xs) edges) edges
  let dd := histDensity (histCounts (decoyScores xs) edges) edges
  fromCountsSlopeOf (k.prod dd) dd (k.polyfit dd td) xs ind

/-- the `pi0` of `qvalues_from_counts` on the data set `xs` (declarative side) -/
def fromCountsFullPi0 (k : HistKern) (xs : List Psm) : Rat :=
  pi0BySlopeOf
    (k.prod (histDensity (histCounts (decoyScores xs) (k.binEdges (xs.map (·.1)))) (k.binEdges (xs.map (·.1)))))
    (histDensity (histCounts (decoyScores xs) (k.binEdges (xs.map (·.1)))) (k.binEdges (xs.map (·.1))))
    (k.polyfit (histDensity (histCounts (decoyScores xs) (k.binEdges (xs.map (·.1)))) (k.binEdges (xs.map (·.1))))
      (histDensity (histCounts (targetScores xs) (k.binEdges (xs.map (·.1)))) (k.binEdges (xs.map (·.1)))))

end Mk.Peps
