import MokapotVerif.Model.BrewMulti
/-!
# Block-wise code paths of `brew` (second extension of the C02 model)

Added to `Model/Brew.lean` / `Model/BrewMulti.lean`, following the code's data flow:

* `make_train_sets` with the block size of its inner loop (`chunk_range`, brew.py:334-346) as a
  parameter — the loop `while k + chunk_range < ds` is a size-dependent branch that no file
  below 5 000 000 rows enters; the harness drives it by lowering the literal;
* `_predict` with its **two** chunkers kept apart (brew.py:416-435): the rows come from the
  reader's chunk iterator, the routing vector is cut by `utils.create_chunks`, and chunk `i` of the
  one is attached to chunk `i` of the other by `psms_slice["fold"] = model_test_idx.pop(0)`
  (`Model/Brew.lean` chunks the zipped list once);
* the list-of-models entry when a model carries no fold number (`Model.fold` is `None` unless
  the model went through `brew`'s fit loop): `fitted.sort(key=fold)` then raises `TypeError`
  (brew.py:154-195).

Core Lean only.
-/
namespace Mk.Brew

/-! ## `make_train_sets`, block size as a parameter -/

/-- training indices of one file for one held-out fold with `chunk_range = cr` (brew.py:334-346):
`k = 0; while k + cr < ds: … k += cr`, then the rest.  For `cr ≥ 1` the loop runs at most
`ds / cr ≤ ds` times, so the fuel `ds` is never exhausted. -/
def trainFileCr (cr ds : Nat) (fold : List Nat) : List Nat := complementLoop cr ds fold ds 0

/-- `foldEnums` with block size `cr` -/
def foldEnumsCr (cr : Nat) (testIdx : List (List (List Nat))) (dataSize : List Nat)
    (enum : Nat → Nat → List Nat → List Nat) (f : Nat) : List (List Nat) :=
  dataSize.zipIdx.map (fun dk => enum f dk.2 (trainFileCr cr dk.1 ((testIdx.getD dk.2 []).getD f [])))

/-- `make_train_sets` (brew.py:310-363) with `chunk_range = cr`; `makeTrainSets` is the instance
`cr = 5 000 000` -/
def makeTrainSetsCr (cr : Nat) (testIdx : List (List (List Nat))) (cap : Option Nat) (dataSize : List Nat)
    (enum : Nat → Nat → List Nat → List Nat) (draw : Nat → Nat → Nat → List Nat) :
    Option (List (List (List Nat))) :=
  (List.range (zipLen testIdx)).mapM (fun f =>
    capFold (capsOf cap dataSize.length) (foldEnumsCr cr testIdx dataSize enum f)
      ((List.range dataSize.length).map (draw f)))

/-! ## `_predict` with the reader's chunks and `create_chunks` kept apart -/

/-- `psms_slice["fold"] = model_test_idx.pop(0)` (brew.py:431): pandas refuses an array whose
length differs from the chunk's (`ValueError: Length of values … does not match length of
index`) = `none`; otherwise row `j` of the chunk gets entry `j` of the routing chunk -/
def pairChunk {β : Type} (rc : List β) (ic : List Nat) : Option (List (β × Nat)) :=
  if rc.length = ic.length then some (rc.zip ic) else none

/-- the loop `for i, psms_slice in enumerate(file_iterator)` (brew.py:430-431): one routing chunk
is popped per chunk read.  Popping from the empty list is an `IndexError` (= `none`); routing
chunks left over when the reader is exhausted are dropped (`del model_test_idx`, brew.py:461). -/
def pairChunks {β : Type} : List (List β) → List (List Nat) → Option (List (List (β × Nat)))
  | [], _ => some []
  | _ :: _, [] => none
  | rc :: rcs, ic :: ics =>
    (pairChunk rc ic).bind (fun ch => (pairChunks rcs ics).map (fun chs => ch :: chs))

/-- the part of `_predict` after the chunks are tagged (brew.py:432-486), for any list of tagged
chunks `((row index, row), fold)`; `n` = number of rows read (`len(sum(orig_idx, []))`).
`predict c` is the instance "one chunker for both". -/
def predictChunks {ρ σ : Type} [Inhabited σ] (nfolds n : Nat) (chs : List (List ((Nat × ρ) × Nat)))
    (score : Nat → ρ → σ) (target : ρ → Bool) (cal : List (σ × Bool) → σ → σ) : List σ :=
  let perFold := (List.range nfolds).map (fun f =>
    let rs := foldRows f chs
    let raw := rs.map (fun x => score f x.2)
    let g := cal (raw.zip (rs.map (fun x => target x.2)))
    (rs.map (·.1)).zip (raw.map g))
  let all := perFold.flatten
  (List.range n).map (fun p => (all.lookup p).getD default)

/-- `utils.create_chunks(data=mod_idx, chunk_size=c)` (utils.py:79-100, brew.py:427-429) -/
def routingChunks (c : Nat) (routing : List Nat) : List (List Nat) := chunks c routing

/-- `_predict` for one collection (brew.py:416-486): `readerChunks` is what
`_psms.read_data(columns, chunk_size=CHUNK_SIZE_ROWS_PREDICTION)` yields — rows with their row
label, in chunks of whatever sizes the reader produces (a parameter: text and Parquet readers,
row groups) —, `c` the chunk size handed to `create_chunks` -/
def predictTwo {ρ σ : Type} [Inhabited σ] (readerChunks : List (List (Nat × ρ))) (c nfolds : Nat)
    (routing : List Nat) (score : Nat → ρ → σ) (target : ρ → Bool)
    (cal : List (σ × Bool) → σ → σ) : Option (List σ) :=
  (pairChunks readerChunks (routingChunks c routing)).map (fun chs =>
    predictChunks nfolds (chs.map List.length).sum chs score target cal)

/-- the rows of a file with their labels `0 … n-1` (what a reader attaches as index) -/
def indexed {ρ : Type} (rows : List ρ) : List (Nat × ρ) := rows.zipIdx.map (fun x => (x.2, x.1))

/-- consecutive pieces of the given lengths (driver / examples: a reader's chunking described by
its chunk lengths) -/
def cutBy {β : Type} : List Nat → List β → List (List β)
  | [], _ => []
  | l :: ls, xs => xs.take l :: cutBy ls (xs.drop l)

/-! ## trained models given, fold number possibly absent -/

/-- can `list.sort` compare the keys?  `None < None` and `None < int` raise `TypeError`; a list of
fewer than two entries is never compared -/
def foldsComparable (fs : List (Option Nat)) : Bool := decide (fs.length < 2) || fs.all Option.isSome

/-- `brew(psms, model=[m₁ … mₖ])` (brew.py:154-195) with entries `(fold attribute, model,
is_trained)`, the fold attribute being `None` for a model that was not fitted by `brew`
(model.py:156): count and `is_trained` are tested first (inside the `try`), then
`fitted.sort(key=lambda x: x[0].fold)` raises `TypeError` when a key is `None` -/
def pretrainedOpt {μ : Type} (ms : List (Option Nat × μ × Bool)) (folds : Nat) :
    Except String (List (Nat × μ)) :=
  if ms.length ≠ folds then .error "ValueError"
  else if ms.all (fun m => m.2.2) then
    (if foldsComparable (ms.map (fun m => m.1)) then
      .ok (sortByFold (ms.map (fun m => (m.1.getD 0, m.2.1))))
     else .error "TypeError")
  else .error "RuntimeError"

end Mk.Brew
