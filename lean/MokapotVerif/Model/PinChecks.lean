import MokapotVerif.Model.Pin
/-!
# Second extension of the PIN / Parquet parsing model  (GAPS-C10.md, "Second pass")

Import-free (core Lean + `Model/Pin.lean`, which is left untouched).  Two
additions, each following the data flow of the code:

* **the constructor of the on-disk dataset as an entry point** —
  `OnDiskPsmDataset.__init__` (dataset.py:476-526) stores the fields it is given
  and, when a file name is given, re-reads the header of the file and tests every
  column name it was handed (`check_column` / `check_columns`, in a fixed order;
  the first name that fails is named in the `ValueError`).  `Model/Pin.lean` has
  the tests (`datasetChecks`) but only ever applies them to datasets produced by
  the parser, where they never fire; here the constructor is modelled for *any*
  field values (`onDiskInit`, `onDiskCulprit`).
* **the types of the metadata columns** — `nonfeat_types =
  [col_types[columns.index(col)] for col in nonfeat]` (pin.py:207): the reader's
  column types (a list parallel to the header) looked up by the position of the
  first occurrence of every metadata column (`metadataTypes`);
* **unsigned 64-bit label columns** — `convert_targets_column` as repaired in
  `dea5393`: `astype(int)` wraps an unsigned value above the int64 range, and a
  column whose values are *changed* by the cast is refused (`convertTargetsU64`).
-/
namespace Mk.Pin

/-! ## 1. `OnDiskPsmDataset.__init__` -/

/-- the names tested by the constructor, in the order of the calls
`check_columns(self.columns); check_column(self.target_column); … ;
check_column(self.specId_column)` (a field that is `None` is skipped: `toList`).
src: mokapot/dataset.py:512-526 -/
def Dataset.checkedNames (d : Dataset) : List Name :=
  d.columns ++ [d.target, d.peptide, d.protein] ++ d.spectrum ++ d.features ++ d.metadata ++ d.level
    ++ d.filename.toList ++ [d.scan] ++ d.calcmass.toList ++ d.expmass.toList ++ d.rt.toList
    ++ d.charge.toList ++ [d.specid]

/-- the first name, in the order of the tests, that fails `check_column` (the
column named in the `ValueError`).  src: mokapot/dataset.py:500-505 -/
def firstFailing (fileCols names : List Name) : Option Name :=
  names.find? (fun c => !checkColumn fileCols c)

/-- `OnDiskPsmDataset.__init__`: `fileCols = none` stands for `filename=None` (the
fields are stored, nothing is tested); otherwise `fileCols` is the header re-read
from the file and a dataset naming a column the file does not have is refused.
src: mokapot/dataset.py:476-526 -/
def onDiskInit (fileCols : Option (List Name)) (d : Dataset) : Except PinErr Dataset :=
  if fileCols.isNone then .ok d
  else if datasetChecks (fileCols.getD []) d then .ok d
  else .error .columnCheck

/-- the column named in the error message of the constructor (none: no error) -/
def onDiskCulprit (fileCols : Option (List Name)) (d : Dataset) : Option Name :=
  if fileCols.isNone then none else firstFailing (fileCols.getD []) d.checkedNames

/-- **Specification of the checks** (declarative): every non-empty name the
dataset mentions — under any of its fifteen fields — is a column of the file
(exact letter case). -/
def NamesKnown (fileCols : List Name) (d : Dataset) : Prop :=
  ∀ n ∈ d.checkedNames, n ≠ [] → n ∈ fileCols

/-! ## 2. Types of the metadata columns -/
variable {τ : Type}

/-- `col_types[columns.index(col)]` for the reader's two parallel lists zipped
(`tcols = zip(columns, col_types)`; the readers return one type per column):
the type at the position of the *first* column called `col`; `none` where
`list.index` raises `ValueError`.  src: mokapot/parsers/pin.py:207 -/
def typeAt (tcols : List (Name × τ)) (col : Name) : Option τ := tcols.lookup col

/-- `[col_types[columns.index(col)] for col in nonfeat]`. src: mokapot/parsers/pin.py:207 -/
def nonfeatTypes (tcols : List (Name × τ)) : List Name → Option (List τ)
  | [] => some []
  | c :: cs => (typeAt tcols c).bind fun x => (nonfeatTypes tcols cs).map (fun xs => x :: xs)

/-- `metadata_column_types` of the dataset `read_percolator` builds: the look-ups
of pin.py:173-194, then line 207 over `nonfeat` (`none`: `list.index` raised).
src: mokapot/parsers/pin.py:170-207, 261 -/
def metadataTypes (args : PinArgs) (tcols : List (Name × τ)) : Except PinErr (Option (List τ)) :=
  (lookupColumns args (tcols.map (·.1))).bind fun k =>
    .ok (nonfeatTypes tcols (k.nonfeat (tcols.map (·.1))))

/-! ## 3. Unsigned 64-bit label columns -/

/-- `astype(int)` on a uint64 column: the value modulo 2^64, taken into the signed range
(the identity on -2^63 … 2^63 - 1).  src: mokapot/utils.py:211 -/
def wrap64 (i : Int) : Int := (i + 9223372036854775808) % 18446744073709551616 - 9223372036854775808

/-- `convert_targets_column` (after the repair `dea5393`) on an integer column that
pandas / pyarrow type as unsigned 64-bit: the column is cast with `astype(int)` (wraps),
a column with a value changed by the cast is refused (`changed`), the range test and the
comparison with 1 are made on the cast values.  src: mokapot/utils.py:208-226 -/
def convertTargetsU64 (cells : List Cell) : Except PinErr (List Bool) :=
  if cells.all Cell.isBool then .ok (cells.map Cell.boolVal)
  else if !cells.all Cell.isInt then .error .labelCast
  else if cells.any (fun c => wrap64 c.intVal != c.intVal) || cells.any (fun c => wrap64 c.intVal < -1)
      || cells.any (fun c => wrap64 c.intVal > 1) then
    .error .labelRange
  else .ok (cells.map (fun c => wrap64 c.intVal == 1))

end Mk.Pin
