import MokapotVerif.Model.FitFull
/-!
# `Model.save` / `save_model` / `load_model` over a file store  (third audit pass of C12)

The clause "a saved and re-loaded model predicts identically" had no model at all: the harness made
one round trip per fitted model, each to a fresh file.  What *mokapot* (not `pickle`) does around the
round trip is modelled here:

* `Model.save(out_file)` = `open(out_file, "wb+")` + `pickle.dump(self, …)`: the file called
  `out_file` is replaced by the dump of the object's **current** state (model.py:184-208);
  `save_model(model, out_file)` is `model.save(out_file)` (model.py:470-491);
* `load_model(model_file)` (model.py:494-538) reads the file **as it is now**, every time it is called:
  first `pd.read_csv(model_file, sep="\t", nrows=2).loc[1, :]` (the Percolator-weights probe); a
  `KeyError` (fewer than two data rows) or a `UnicodeDecodeError` (a binary file) leads to
  `pickle.load`; anything else the probe raises (`FileNotFoundError`, `EmptyDataError`, …) propagates;
  a file the probe *can* read goes down the weights branch, which on this installation raises
  (`ValueError` at model.py:526, pandas >= 2; see `gaps/GAPS-C12.md` §4) — `LoadErr.weightsBranch`.

`pickle` itself is a parameter (`Pickle`: `dump`, `load`, and what the csv probe makes of some bytes);
the theorems assume only `load (dump m) = some m` and that the probe cannot read a dump.
`π` = path, `β` = file contents, `μ` = the state of a `Model` object (in the theorems about
predictions: `Option (Trained ν σ θ)`, `none` = untrained).  No Mathlib.
-/
namespace Mk.Fit
variable {π β μ : Type}

/-- what `pd.read_csv(f, sep="\t", nrows=2).loc[1, :]` makes of a file: a second data row, a
`KeyError` (no row labelled 1), a `UnicodeDecodeError`, or another exception.
src: mokapot/model.py:519-520 -/
inductive CsvProbe where
  | row | keyError | unicodeError | otherError
  deriving DecidableEq, Repr

/-- how `load_model` can fail -/
inductive LoadErr where
  | missing        -- no such file (`FileNotFoundError` out of `read_csv`)
  | weightsBranch  -- the probe read two rows: model.py:523-530 (raises at :526 on this installation)
  | unpickle       -- `pickle.load` refused the contents
  | other          -- the probe raised something that is not caught (model.py:533)
  deriving DecidableEq, Repr

/-- `pickle` and the csv probe, as far as `load_model` depends on them -/
structure Pickle (β μ : Type) where
  dump : μ → β
  load : β → Option μ
  probe : β → CsvProbe

/-- the files: the most recent write to a path is found first -/
abbrev Store (π β : Type) := List (π × β)

/-- `open(p, "wb+")` … `write(b)`: whatever `p` held is gone -/
def Store.write (fs : Store π β) (p : π) (b : β) : Store π β := (p, b) :: fs

/-- `Model.save(out_file)` / `save_model(model, out_file)`: the current state of the object, pickled,
replaces the file.  src: mokapot/model.py:184-208, 470-491 -/
def saveModel (pk : Pickle β μ) (fs : Store π β) (m : μ) (p : π) : Store π β := fs.write p (pk.dump m)

/-- `with open(model_file, "rb") as mod_in: model = pickle.load(mod_in)`.  src: mokapot/model.py:535-536 -/
def unpickle (pk : Pickle β μ) (b : β) : Except LoadErr μ := ((pk.load b).map Except.ok).getD (.error .unpickle)

/-- the `try` / `except (KeyError, UnicodeDecodeError)` of `load_model`: which branch the outcome of
the probe selects.  src: mokapot/model.py:518-536 -/
def loadDispatch : CsvProbe → Except LoadErr μ → Except LoadErr μ
  | .row, _ => .error .weightsBranch
  | .keyError, r => r
  | .unicodeError, r => r
  | .otherError, _ => .error .other

/-- `load_model` on given file contents -/
def loadBody (pk : Pickle β μ) (b : β) : Except LoadErr μ := loadDispatch (pk.probe b) (unpickle pk b)

/-- `load_model(model_file)`: a function of the *present* contents of that one file.
src: mokapot/model.py:494-538 -/
def loadModel [BEq π] (pk : Pickle β μ) (fs : Store π β) (p : π) : Except LoadErr μ :=
  ((fs.lookup p).map (loadBody pk)).getD (.error .missing)

/-- one step of a session with the model files: `save_model(m, p)`, some other program writing `b`
to `p`, `load_model(p)` -/
inductive StoreOp (π β μ : Type) where
  | save (m : μ) (p : π)
  | put (b : β) (p : π)
  | load (p : π)

/-- the path an operation writes to -/
def StoreOp.writes : StoreOp π β μ → Option π
  | .save _ p => some p
  | .put _ p => some p
  | .load _ => none

/-- a session: the results of its `load_model` calls, in order -/
def storeRun [BEq π] (pk : Pickle β μ) : Store π β → List (StoreOp π β μ) → List (Except LoadErr μ)
  | _, [] => []
  | fs, .save m p :: r => storeRun pk (saveModel pk fs m p) r
  | fs, .put b p :: r => storeRun pk (fs.write p b) r
  | fs, .load p :: r => loadModel pk fs p :: storeRun pk fs r

/-- the files after a session -/
def storeAfter (pk : Pickle β μ) : Store π β → List (StoreOp π β μ) → Store π β
  | fs, [] => fs
  | fs, .save m p :: r => storeAfter pk (saveModel pk fs m p) r
  | fs, .put b p :: r => storeAfter pk (fs.write p b) r
  | fs, .load _ :: r => storeAfter pk fs r

/-! ## the declarative side: last write wins -/

/-- the contents an operation writes -/
def StoreOp.written (pk : Pickle β μ) : StoreOp π β μ → Option (π × β)
  | .save m p => some (p, pk.dump m)
  | .put b p => some (p, b)
  | .load _ => none

/-- the contents of `p` after the operations `hist` (oldest first) on an empty directory: what the
**last** operation that wrote to `p` wrote; loads do not count -/
def lastWritten [BEq π] (pk : Pickle β μ) (hist : List (StoreOp π β μ)) (p : π) : Option β :=
  ((hist.reverse.filterMap (StoreOp.written pk)).find? (fun w => w.1 == p)).map (·.2)

/-- the specification of a session on an empty directory: every `load_model(p)` answers from what
was last written to `p` before it -/
def storeSpecFrom [BEq π] (pk : Pickle β μ) (hist : List (StoreOp π β μ)) :
    List (StoreOp π β μ) → List (Except LoadErr μ)
  | [] => []
  | .load p :: r =>
      (((lastWritten pk hist p).map (loadBody pk)).getD (.error .missing)) :: storeSpecFrom pk (hist ++ [.load p]) r
  | .save m p :: r => storeSpecFrom pk (hist ++ [.save m p]) r
  | .put b p :: r => storeSpecFrom pk (hist ++ [.put b p]) r

/-- what the re-loaded object predicts (`Model.predict` of whatever `load_model` returned) -/
def predictLoaded {α ν σ θ : Type} [DecidableEq ν] (sc : Scaler α σ) (score : θ → List α → α)
    (r : Except LoadErr (Option (Trained ν σ θ))) (n : Nat) (frame : List (ν × List α)) (used : List ν)
    (fc : Option (List ν)) : Except LoadErr (Option (Except PredErr (List α))) :=
  r.map (fun m => predictFull sc score m n frame used fc)

end Mk.Fit
