import MokapotVerif.Model.Confidence
import MokapotVerif.Model.Merge
/-!
# `assign_confidence`, the parts between the scan and the result files

`Model/Confidence.lean` describes *which* rows reach a level; this file adds *how* they get
there, following the data flow of the code:

* the scan loop does not write a level file row by row: it collects `batches[level]`, hands a
  batch to the writer whenever `batch_counts[level] == CONFIDENCE_CHUNK_SIZE`, resets both, and
  flushes every batch once more after the loop (confidence.py:716-757);
* `LinearConfidence.write_to_disk` / `write_confidences` read the level file back in chunks of
  `CONFIDENCE_CHUNK_SIZE` rows, chunk the q-value and target arrays *separately*
  (`create_chunks`), `zip` the chunk iterators and select the rows of each chunk with the
  boolean masks `targets_chunk` / `~targets_chunk` (confidence.py:140-190,
  confidence_writer.py:62-158);
* the merged stream is the result of `utils.merge_sort` (model: `Merge.kmerge`, C14) on the
  temporary chunk files.

No Mathlib import.
-/
namespace Mk

/-! ## Batched writing of the level files (confidence.py:716-757) -/

/-- one level file under construction: `batches[level]`, `batch_counts[level]` and the rows the
writer `handles[level]` has already received -/
structure ConfBatch where
  rows : List Row
  count : Nat
  file : List Row
  deriving Repr

def ConfBatch.empty : ConfBatch := ⟨[], 0, []⟩

/-- `if batch_counts[level] == CONFIDENCE_CHUNK_SIZE: append_data(batch); count = 0; batch = []`
src: confidence.py:739-748 -/
def ConfBatch.flushFull (c : Nat) (b : ConfBatch) : ConfBatch :=
  if b.count = c then ⟨[], 0, b.file ++ b.rows⟩ else b

/-- `batches[level].append(data_row); batch_counts[level] += 1` followed by the test above.
src: confidence.py:737-748 -/
def ConfBatch.push (c : Nat) (b : ConfBatch) (r : Row) : ConfBatch :=
  ConfBatch.flushFull c ⟨b.rows ++ [r], b.count + 1, b.file⟩

/-- the flush after the loop (`for level, batch in batches.items(): append_data(batch)`) and
`finalize`.  src: confidence.py:749-760 -/
def ConfBatch.close (b : ConfBatch) : List Row := b.file ++ b.rows

/-- per roll-up level: seen-set and batch -/
abbrev BLvl := List Nat × ConfBatch

structure BScanState where
  seenPsm : List Nat
  psm : ConfBatch
  lvls : List BLvl
  deriving Repr

/-- one roll-up level for one row (`continue` on a seen key) -/
def blevelStep (c l : Nat) (p : BLvl) (r : Row) : BLvl :=
  if p.1.contains (r.key l) then p else (r.key l :: p.1, p.2.push c r)

/-- one iteration of `for data_row in sorted_file_iterator` with the batches made explicit.
src: confidence.py:720-748 -/
def bscanStep (c : Nat) (dedup : Bool) (st : BScanState) (r : Row) : BScanState :=
  if dedup && st.seenPsm.contains r.spec then st
  else
    { seenPsm := if dedup then r.spec :: st.seenPsm else st.seenPsm,
      psm := st.psm.push c r,
      lvls := st.lvls.mapIdx (fun l p => blevelStep c l p r) }

def bscanInit (nLevels : Nat) : BScanState :=
  { seenPsm := [], psm := ConfBatch.empty, lvls := List.replicate nLevels ([], ConfBatch.empty) }

/-- the level files as they stand after the loop, the final flush and `finalize` -/
def bscan (c : Nat) (dedup : Bool) (nLevels : Nat) (merged : List Row) : List Row × List (List Row) :=
  let st := merged.foldl (bscanStep c dedup) (bscanInit nLevels)
  (st.psm.close, st.lvls.map (fun p => p.2.close))

/-! ## Chunk-wise writing of the result files -/

/-- a line of a result file: the row (identifier, peptide, level columns, proteins, score) and
its q-value -/
abbrev ConfLine := Row × Rat

/-- `frame.loc[mask]`: the entries whose mask bit is set, in order -/
def confMaskSel {β : Type} (xs : List β) (mask : List Bool) : List β :=
  ((xs.zip mask).filter (fun p => p.2)).map (fun p => p.1)

/-- lines of one chunk: `data_chunk[qvalue_column] = qvals_chunk` (pandas raises when the
lengths differ: `none`) -/
def chunkLines (d : List Row) (q : List Rat) (t : List Bool) : Option (List ConfLine) :=
  if d.length = q.length ∧ d.length = t.length then some (d.zip q) else none

/-- the loop `for data_chunk, qvals_chunk, peps_chunk, targets_chunk in zip(...)`: the targets
writer receives `data_chunk.loc[targets_chunk]`, the decoys writer (if any)
`data_chunk.loc[~targets_chunk]`.  `zip` stops at the shortest iterator.
src: confidence_writer.py:139-152 -/
def writeChunksGo (decoys : Bool) :
    List (List Row) → List (List Rat) → List (List Bool) → List ConfLine × List ConfLine →
      Option (List ConfLine × List ConfLine)
  | d :: ds, q :: qs, t :: ts, acc =>
    (chunkLines d q t).bind fun ls =>
      writeChunksGo decoys ds qs ts
        (acc.1 ++ confMaskSel ls t, if decoys then acc.2 ++ confMaskSel ls (t.map (fun b => !b)) else acc.2)
  | _, _, _, acc => some acc

/-- `write_to_disk` + `write_confidences` for one level file: the data are re-read in chunks of
`c` rows (`get_chunked_data_iterator(CONFIDENCE_CHUNK_SIZE)`), the q-value array and the target
array are cut by `create_chunks(…, CONFIDENCE_CHUNK_SIZE)`.  Result: what is appended to the
targets file and to the decoys file.  src: confidence.py:140-190, confidence_writer.py:62-158 -/
def writeChunked (c : Nat) (decoys : Bool) (rows : List Row) (qs : List Rat) (tg : List Bool) :
    Option (List ConfLine × List ConfLine) :=
  writeChunksGo decoys (chunksOf c rows) (chunksOf c qs) (chunksOf c tg) ([], [])

/-- one level file → (targets lines, decoys lines): q-values by `tdc` on the level rows
(confidence.py:397-414), the target mask is the level file's own label column
(confidence.py:399) -/
def confWriteLevelFile (c : Nat) (decoys : Bool) (rows : List Row) : Option (List ConfLine × List ConfLine) :=
  writeChunked c decoys rows (levelQvalues rows) (rows.map (fun r => r.target))

/-! ## The pipeline of one collection with the real merge -/

/-- "`b` is at least as good as `a`" — the comparison `max_score < score` of `get_next_row`
works on -/
def rowLeB (a b : Row) : Bool := decide (a.score ≤ b.score)

/-- level files of one collection (PSM level first): chunk the table, sort every chunk
(stable merge sort as one admissible `sort_values`), de-duplicate per chunk iff the flag is
set, merge with `utils.merge_sort`, scan with batches.  `none`: `merge_sort` raises (a table
without rows).  src: confidence.py:693-760, 795-878 -/
def confidenceLevelFiles (c : Nat) (dedup : Bool) (nLevels : Nat) (rows : List Row) :
    Option (List (List Row)) :=
  let files := (chunksOf c rows).map (fun ch => chunkFile dedup (ch.mergeSort rowBetter))
  (Merge.kmerge rowLeB files).map (fun merged =>
    (bscan c dedup nLevels merged).1 :: (bscan c dedup nLevels merged).2)

end Mk
