import MokapotVerif.Model.PinTsv
/-!
# Second extension of the PIN → TSV model  (gap analysis: GAPS-C19.md, "Second pass")

Import-free (core Lean + `Model/PinTsv.lean`, which stays untouched).  Two additions on the
model side, two on the specification side:

* **the calls of `f_out.write`** — `pinToTsvWrites` is `pin_to_valid_tsv` as the sequence of
  strings handed to `f_out.write` *up to the point where the function returns or raises*
  (`pinToTsvLines` of the first model only reports the exception);
* **what is on disk afterwards, also when the code raises** — `toolMainFs` (output file of the
  command line tool), `verifyStepFs` / `verifyFilesFs` (the PIN file and the temporary
  `<pin>.tsv` of the CLI verify step; a stale `<pin>.tsv` of an earlier run may exist);
* **document-level validity** — `docValidSpec`: what `is_valid_tsv` has to answer on the text of
  an abstract PIN document, read off the document (no DefaultDirection line, one protein per row);
* **losslessness read backwards** — `unfoldRow`: splitting the protein column of an output row
  at the protein separator gives back the fields of the PIN row.
-/
namespace Mk

/-! ## `pin_to_valid_tsv` call by call -/

/-- the part after the header: `next(f_in)` raises `StopIteration` when there is no second
line (nothing more has been written then); otherwise one write per line, the second line
skipped when it starts with `DefaultDirection`.
src: mokapot/parsers/pin_to_tsv.py:199-220 -/
def pinBodyWrites (sepC : Char) (sepP : Str) (idx nCol : Nat) : List Str → List Str × Option PinErr
  | [] => ([], some .stopIteration)
  | l2 :: more =>
    (secondOut sepC sepP idx nCol (chomp l2)
       ++ more.map (fun line => convertLine sepC sepP idx nCol (chomp line) ++ ['\n']), none)

/-- the header is written (line 193) *before* `parse_pin_header_columns` asserts that there is
a `Proteins` column (line 194).  src: mokapot/parsers/pin_to_tsv.py:192-194, 22-55 -/
def pinAfterHeaderWrites (sepC : Char) (sepP : Str) (header : Str) (rest : List Str) :
    List Str × Option PinErr :=
  let columns := splitOn sepC (chomp header)
  if columns.contains proteinsName then
    ((header ++ ['\n']) :: (pinBodyWrites sepC sepP (columns.idxOf proteinsName) columns.length rest).1,
     (pinBodyWrites sepC sepP (columns.idxOf proteinsName) columns.length rest).2)
  else ([header ++ ['\n']], some .assertion)

/-- `pin_to_valid_tsv` on the lines the input yields: the strings passed to `f_out.write`, in
order, until the function returns (`none`) or raises (`some e`).  An empty input raises before
anything is written.  src: mokapot/parsers/pin_to_tsv.py:154-220 -/
def pinToTsvWrites (sepC : Char) (sepP : Str) : List Str → List Str × Option PinErr
  | [] => ([], some .stopIteration)
  | h :: rest => pinAfterHeaderWrites sepC sepP (chomp h) rest

/-! ## what is on disk afterwards -/

/-- the command line tool: `path_out` is opened with `'w'` (created or truncated, whatever it
held — `_oldOut`, `none` = absent) before the conversion starts and receives every write made
until the function returns or raises; result = content of `path_out` and the exception.
src: mokapot/parsers/pin_to_tsv.py:223-239 -/
def toolMainFs (sepC : Option Char) (sepP : Option Str) (rawIn : Str) (_oldOut : Option Str) :
    Str × Option PinErr :=
  ((pinToTsvWrites (sepC.getD '\t') (sepP.getD [':']) (pyLines (univNl rawIn))).1.flatten,
   (pinToTsvWrites (sepC.getD '\t') (sepP.getD [':']) (pyLines (univNl rawIn))).2)

/-- the two paths the CLI verify step touches for one PSM file: the file itself and the
temporary `<pin>.tsv` (`none` = does not exist) -/
structure StepFs where
  pin : Str
  tsv : Option Str
  deriving Repr, DecidableEq

/-- the conversion branch: `<pin>.tsv` is opened with `'w'` and receives the writes; only when
`pin_to_valid_tsv` returns is it moved over the PIN file (`shutil.move`), so an exception
leaves the PIN file as it was and the partial `<pin>.tsv` behind.
src: mokapot/mokapot.py:67-73 -/
def convertStepFs (raw : Str) : StepFs × Option PinErr :=
  if (pinToTsvWrites '\t' [':'] (pyLines (univNl raw))).2.isNone then
    ({ pin := (pinToTsvWrites '\t' [':'] (pyLines (univNl raw))).1.flatten, tsv := none }, none)
  else
    ({ pin := raw, tsv := some (pinToTsvWrites '\t' [':'] (pyLines (univNl raw))).1.flatten },
     (pinToTsvWrites '\t' [':'] (pyLines (univNl raw))).2)

/-- dispatch on the answer of `is_valid_tsv`: an exception there (fewer than two lines) or a
valid file leave both paths alone — a stale `<pin>.tsv` stays.  src: mokapot/mokapot.py:65-67 -/
def stepFsOfValid (raw : Str) (oldTsv : Option Str) : Except PinErr Bool → StepFs × Option PinErr
  | .error e => ({ pin := raw, tsv := oldTsv }, some e)
  | .ok true => ({ pin := raw, tsv := oldTsv }, none)
  | .ok false => convertStepFs raw

/-- the CLI verify step on one stored file next to a possibly existing `<pin>.tsv`.
src: mokapot/mokapot.py:65-73 -/
def verifyStepFs (raw : Str) (oldTsv : Option Str) : StepFs × Option PinErr :=
  stepFsOfValid raw oldTsv (isValid '\t' (univNl raw))

/-- a file the loop has not reached -/
def untouchedFs (f : Str × Option Str) : StepFs := { pin := f.1, tsv := f.2 }

/-- the loop over the PSM files (distinct paths): the first exception aborts it, the files
after the failing one are not reached.  src: mokapot/mokapot.py:64-73 -/
def verifyFilesFsLoop : List (Str × Option Str) → List StepFs × Option PinErr
  | [] => ([], none)
  | f :: fs =>
    if (verifyStepFs f.1 f.2).2.isNone then
      ((verifyStepFs f.1 f.2).1 :: (verifyFilesFsLoop fs).1, (verifyFilesFsLoop fs).2)
    else ((verifyStepFs f.1 f.2).1 :: fs.map untouchedFs, (verifyStepFs f.1 f.2).2)

/-- the whole step with its `--verify_pin` guard.  src: mokapot/mokapot.py:63-73 -/
def verifyFilesFs (verifyPin : Bool) (files : List (Str × Option Str)) : List StepFs × Option PinErr :=
  if verifyPin then verifyFilesFsLoop files else (files.map untouchedFs, none)

/-! ## specification side -/

/-- the whitespace padding of a row does not contain the column separator (a tab used as
padding *is* a column separator for `is_valid_tsv`, which does not chomp) -/
def PinRow.padsFree (sepC : Char) (r : PinRow) : Bool := !r.padL.contains sepC && !r.padR.contains sepC

def PinDoc.padsFree (sepC : Char) (d : PinDoc) : Bool :=
  !d.hpadL.contains sepC && !d.hpadR.contains sepC && d.rows.all (PinRow.padsFree sepC)

/-- the DefaultDirection line, if any, starts with `DefaultDirection` (no whitespace before it) -/
def PinDoc.ddPlain (d : PinDoc) : Bool := (d.dd.map isDD).getD true

/-- every PSM lists exactly one protein: all lines have as many fields as the header -/
def PinDoc.rectangular (d : PinDoc) : Bool := d.rows.all (fun r => r.prots.length == 1)

/-- **specification of the validity test at document level**: a PIN document is a valid TSV
exactly when it has no DefaultDirection line and all its lines have as many fields as the header -/
def docValidSpec (d : PinDoc) : Bool := d.dd.isNone && d.rectangular

/-- what `is_valid_tsv` makes of the line after the header when that is the document's
DefaultDirection line: it is only recognised when nothing precedes the word (the validity
test does not chomp, the converter does) -/
def ddAccepted (sepC : Char) (d : PinDoc) : Bool :=
  (d.dd.map (fun x => !isDD x && nFields sepC x == d.cols.length)).getD true

/-- undo the folding of one output row: the field at the protein column is split at the
(one character) protein separator -/
def unfoldRow (p : Char) (idx : Nat) (row : List Str) : List Str :=
  row.take idx ++ splitOn p (row.getD idx []) ++ row.drop (idx + 1)

/-- no protein name contains the protein separator -/
def PinDoc.protsFree (p : Char) (d : PinDoc) : Bool := d.rows.all (fun r => r.prots.all (fun x => !x.contains p))

end Mk
