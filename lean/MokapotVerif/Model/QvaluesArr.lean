import MokapotVerif.Model.Qvalues
/-!
# Array-level model of `tdc` and `_fdr2qvalue`  (mokapot/qvalues.py:81-192, dataset.py:700-739)

`Model/Qvalues.lean` describes the sweep of `tdc` as one fused recursion (`go`).  This
file follows the code's data flow array by array instead, with the `desc` flag explicit:

    validate labels / lengths            qvalues.py:84-102   `checkInput`
    argsort, gather                      qvalues.py:110-116  parameter `sorted` / `mergeSort`
    cum_targets, cum_decoys, num_total   qvalues.py:117-119  `cumsumBy`
    fdr (guarded division)               qvalues.py:122-127  `zipWith fdrRaw`
    np.unique(scores, return_counts)     qvalues.py:130      `npUniqueCounts`
    flips (fdr, num_total; counts if not desc)  qvalues.py:134-138  `reverse`, `wfCounts`
    _fdr2qvalue loop                     qvalues.py:147-192  `fdr2qLoop`
    flip back, un-sort                   qvalues.py:141-142  `reverse`, `lookupIdx`

Scores live in a type `α` with the *natural* order `leq a b` ("a ≤ b"); the direction is
the Boolean `desc`.  Import-free.
-/
namespace Mk.Qv
open Mk
variable {α : Type}

/-- "`b` is at least as good as `a`": `a ≤ b` when higher scores are better
(`np.argsort(-scores)`), `b ≤ a` otherwise (`np.argsort(scores)`).
src: mokapot/qvalues.py:110-113 -/
def dirLe (leq : α → α → Bool) (desc : Bool) (a b : α) : Bool := if desc then leq a b else leq b a

/-- equality of two scores as `np.unique` sees it -/
def tieOf (leq : α → α → Bool) (a b : α) : Bool := leq a b && leq b a

/-- a target counts 1 in `target.cumsum()` -/
def targetInd (b : Bool) : Nat := if b then 1 else 0
/-- a decoy counts 1 in `((target - 1) ** 2).cumsum()` -/
def decoyInd (b : Bool) : Nat := if b then 0 else 1

/-- `x.cumsum()` of the indicator `f` over the (sorted) label array, started at `acc`.
src: mokapot/qvalues.py:117-118 -/
def cumsumBy (f : Bool → Nat) (acc : Nat) : List Bool → List Nat
  | [] => []
  | b :: bs => (acc + f b) :: cumsumBy f (acc + f b) bs

/-- does `x` tie with the first element of the list? -/
def tiesHead (tie : α → α → Bool) (x : α) : List α → Bool
  | [] => false
  | y :: _ => tie x y

/-- one more member for the first run -/
def bumpHead : List Nat → List Nat
  | [] => [1]
  | c :: cs => (c + 1) :: cs

/-- lengths of the maximal runs of equal neighbours (the multiplicities that
`np.unique(..., return_counts=True)` reports for a sorted array) -/
def runLengths (tie : α → α → Bool) : List α → List Nat
  | [] => []
  | x :: xs => if tiesHead tie x xs then bumpHead (runLengths tie xs) else 1 :: runLengths tie xs

/-- `np.unique(scores, return_counts=True)[1]`: sort ascending, count each distinct value.
src: mokapot/qvalues.py:130 -/
def npUniqueCounts (leq : α → α → Bool) (scores : List α) : List Nat :=
  runLengths (tieOf leq) (scores.mergeSort leq)

/-- the counts in worst-to-best order: `np.unique` is ascending, which is worst first when
higher is better; otherwise `indices = np.flip(indices)`.  src: mokapot/qvalues.py:136-138 -/
def wfCounts (leq : α → α → Bool) (desc : Bool) (scores : List α) : List Nat :=
  if desc then npUniqueCounts leq scores else (npUniqueCounts leq scores).reverse

/-- `np.argmax`: index of the first maximum -/
def argmaxGo (best bi i : Nat) : List Nat → Nat
  | [] => bi
  | x :: xs => if best < x then argmaxGo x i (i + 1) xs else argmaxGo best bi (i + 1) xs

def argmaxNat : List Nat → Nat
  | [] => 0
  | x :: xs => argmaxGo x 0 1 xs

/-- one group of `_fdr2qvalue`: `curr_fdr = fdr_group[np.argmax(n_group)]`, then
`if curr_fdr < min_q: min_q = curr_fdr`; the value is the new `min_q`.
src: mokapot/qvalues.py:181-186 -/
def grpMin (minQ : Rat) (fdrGroup : List Rat) (nGroup : List Nat) : Rat :=
  if fdrGroup.getD (argmaxNat nGroup) 1 < minQ then fdrGroup.getD (argmaxNat nGroup) 1 else minQ

/-- the loop of `_fdr2qvalue` over the groups (`indices[idx]` members each), arrays given
from the current position on (`prev_idx` has been dropped already).  Positions that no group
covers keep the initial `np.ones`.  An empty group makes `np.argmax` raise: `none`.
src: mokapot/qvalues.py:172-192 -/
def fdr2qLoop (minQ : Rat) (fdr : List Rat) (numTotal : List Nat) : List Nat → Option (List Rat)
  | [] => some (fdr.map fun _ => 1)
  | c :: cs =>
    if (numTotal.take c).isEmpty then none
    else
      (fdr2qLoop (grpMin minQ (fdr.take c) (numTotal.take c)) (fdr.drop c) (numTotal.drop c) cs).map
        (fun r => List.replicate (fdr.take c).length (grpMin minQ (fdr.take c) (numTotal.take c)) ++ r)

/-- `_fdr2qvalue(fdr, num_total, met, indices)`; only the length of `met` is used by the
code, and it equals the number of groups.  Precondition of the helper (always met by
`tdc`): both arrays have one length.  src: mokapot/qvalues.py:147-192 -/
def fdr2qvalue (fdr : List Rat) (numTotal : List Nat) (counts : List Nat) : Option (List Rat) :=
  if fdr.length = numTotal.length then fdr2qLoop 1 fdr numTotal counts else none

/-- the middle of `tdc` on the gathered (best-first) arrays, with the worst-first group
sizes given and running counts started at `T`, `D` (0, 0 in the code).
src: mokapot/qvalues.py:117-141 -/
def sweepCounts (countsWF : List Nat) (T D : Nat) (l : List (α × Bool)) : Option (List Rat) :=
  let target := l.map (·.2)
  let cumT := cumsumBy targetInd T target
  let cumD := cumsumBy decoyInd D target
  let numTotal := List.zipWith (· + ·) cumT cumD
  let fdr := List.zipWith fdrRaw cumT cumD
  (fdr2qvalue fdr.reverse numTotal.reverse countsWF).map List.reverse

/-- … with the group sizes taken from `np.unique` as the code does -/
def sweepArr (leq : α → α → Bool) (desc : Bool) (l : List (α × Bool)) : Option (List Rat) :=
  sweepCounts (wfCounts leq desc (l.map (·.1))) 0 0 l

/-- q-values in input order for *some* result `sorted` of the `argsort` (index-tagged rows). -/
def tdcArrOf (leq : α → α → Bool) (desc : Bool) (n : Nat) (sorted : List ((α × Bool) × Nat)) :
    Option (List Rat) :=
  (sweepArr leq desc (sorted.map (·.1))).map fun qs =>
    (List.range n).map (fun i => lookupIdx i ((sorted.map (·.2)).zip qs))

/-- executable array-level `tdc` (merge sort as the `argsort`). src: mokapot/qvalues.py:104-144 -/
def tdcArr (leq : α → α → Bool) (desc : Bool) (xs : List (α × Bool)) : Option (List Rat) :=
  tdcArrOf leq desc xs.length (xs.zipIdx.mergeSort (better (dirLe leq desc)))

/-! ## Input validation of `tdc` (qvalues.py:84-102) and the entry points built on it -/

inductive TdcErr where
  | notBoolean       -- ValueError "'target' should be boolean"
  | lengthMismatch   -- ValueError "'scores' and 'target' must be the same length"
  deriving DecidableEq, Repr

/-- labels first (qvalues.py:84-100), then the length check (qvalues.py:101-102); the
validated input is the list of (score, is-target) rows. -/
def checkInput (scores : List α) (labels : LabelArr) : Except TdcErr (List (α × Bool)) :=
  (decodeLabels labels).elim (.error .notBoolean) fun bs =>
    if scores.length = bs.length then .ok (scores.zip bs) else .error .lengthMismatch

/-- `tdc(scores, target, desc)` as called: validation, then the sweep. -/
def tdcChecked (leq : α → α → Bool) (desc : Bool) (scores : List α) (labels : LabelArr) :
    Except TdcErr (List Rat) :=
  (checkInput scores labels).map (tdc (dirLe leq desc))

/-- `qvalues_from_scores(scores, targets, "tdc")` = `tdc(scores, targets, desc=True)`.
src: mokapot/qvalues.py:18-20, 195-214 -/
def qvaluesFromScoresTdc (leq : α → α → Bool) (scores : List α) (labels : LabelArr) :
    Except TdcErr (List Rat) :=
  tdcChecked leq true scores labels

/-- `_update_labels` on arrays: the labels pass `tdc`'s validation, then
`+1` target with `q ≤ eval_fdr`, `-1` decoy, `0` other target.  src: mokapot/dataset.py:735-739 -/
def updateLabelsChecked (leq : α → α → Bool) (desc : Bool) (thr : Rat) (scores : List α)
    (labels : LabelArr) : Except TdcErr (List Int) :=
  (checkInput scores labels).map (updateLabels (dirLe leq desc) thr)

/-- `targets.values.astype(bool)`: every non-zero entry is a target (no validation).
src: mokapot/dataset.py:732-733 -/
def astypeBool : LabelArr → List Bool
  | .bools bs => bs
  | .ints is => is.map (fun i => !(i == 0))
  | .floats fs => fs.map (fun f => !(f == 0))

/-- `_update_labels` with the targets given as a pandas Series. src: mokapot/dataset.py:730-739 -/
def updateLabelsSeries (leq : α → α → Bool) (desc : Bool) (thr : Rat) (scores : List α)
    (labels : LabelArr) : Except TdcErr (List Int) :=
  updateLabelsChecked leq desc thr scores (.bools (astypeBool labels))

end Mk.Qv
