import MokapotVerif.Model.PinChecks
/-!
# Third extension of the PIN model: what the tasks return and what is logged
(mokapot/parsers/pin.py:236-243, 281, 294-296), and a file without data rows

* A scan task returns `list(na_mask[na_mask].index)`: the scanned columns with a missing
  value in the column order of `na_mask`, which starts from
  `list(set(column) - set(spectra))` — a hash order.  The order is a parameter `σ`
  (a re-arrangement of the scanned columns); a task without a hit returns `None`.
* `read_percolator` drops the `None`s, flattens, and — only when MORE THAN ONE feature
  is dropped (`len(features_to_drop) > 1`, the code as it is) — logs one warning line
  per dropped feature.
* A reader that yields no row chunk (the Parquet reader on a file without rows) leaves
  `df_spectra_list` empty: `pd.concat([])` raises "No objects to concatenate".
Import-free (core Lean only).
-/
namespace Mk.Pin

/-- the return value of one scan task, `none` = Python `None` (no column with a missing value);
`σ` is the column order of `na_mask`. src: mokapot/parsers/pin.py:281, 294-296 -/
def scanDropOrd (σ : List Name → List Name) (t : Table) (ids : List Name) (r m : Nat)
    (chunk : List Name) : List Name :=
  (σ (scannedCols ids chunk)).filter (naInColumn t r m)

/-- `[drop for drop in features_to_drop if drop]` then `flatten(...)`.
src: mokapot/parsers/pin.py:236-237 -/
def flattenDrops (drops : List (List Name)) : List Name :=
  (drops.filter (fun d => !d.isEmpty)).flatten

/-- the `"  - %s"` warning lines: one per dropped feature, but only if more than one
feature is dropped. src: mokapot/parsers/pin.py:238-243 -/
def dropWarnings (dropped : List Name) : List Name :=
  if 1 < dropped.length then dropped else []

/-- `features_to_drop` of a call that reaches line 236 (the look-ups, the scan, `pd.concat`
and the label conversion succeeded — the constructor checks come later).
src: mokapot/parsers/pin.py:217-237 -/
def featuresToDrop (σ : List Name → List Name) (args : PinArgs) (c r : Nat) (t : Table) :
    Except PinErr (List Name) :=
  (readPercolatorSched args c r t id).bind fun _ =>
  (lookupColumns args t.header).bind fun k =>
    .ok (flattenDrops ((featSlices k t.header c).map
      (scanDropOrd σ t (k.spectra ++ [k.labels]) r (numRowChunks t.nrows r))))

/-- the feature names in the warning lines of `read_percolator`.
src: mokapot/parsers/pin.py:236-243 -/
def readPercolatorWarnings (σ : List Name → List Name) (args : PinArgs) (c r : Nat) (t : Table) :
    Except PinErr (List Name) :=
  (featuresToDrop σ args c r t).map dropWarnings

/-- executable instance: `na_mask` in chunk order -/
def readPercolatorWarningsId (args : PinArgs) (c r : Nat) (t : Table) : Except PinErr (List Name) :=
  readPercolatorWarnings id args c r t

/-- declarative: the columns that are not metadata of the parsed dataset `d` and hold a
missing value, in file order -/
def specDropped (t : Table) (d : Dataset) : List Name :=
  t.header.filter (fun c => !d.metadata.contains c && hasMissing t c)

end Mk.Pin
