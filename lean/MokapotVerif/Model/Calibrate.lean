import MokapotVerif.Model.Qvalues
/-!
# Model of per-fold score calibration  (mokapot/dataset.py, mokapot/brew.py)

Core Lean only (the one import is the import-free q-value model, needed because
`calibrate_scores` starts with `_update_labels`, i.e. `tdc`).

Scores are exact rationals.  The code computes `(scores - t) / (t - d)` in IEEE
arithmetic and never tests `t - d`, so the quotient is modelled with values in
`XR` (a rational, `+inf`, `-inf` or `nan`): nothing is defaulted where the real
code returns a non-finite number, and where it raises the model returns an
`Except.error`.
-/
namespace Mk.Calibrate

/-! ## IEEE-shaped results -/

/-- result of one floating-point division: finite, `+inf`, `-inf`, `nan` -/
inductive XR where
  | fin (r : Rat)
  | pinf
  | ninf
  | nan
  deriving DecidableEq, Repr, Inhabited

/-- `a / b` as numpy evaluates it on float arrays: `x/0 = ±inf`, `0/0 = nan`
(RuntimeWarning only, no exception). -/
def xdiv (a b : Rat) : XR :=
  if b = 0 then (if 0 < a then XR.pinf else if a < 0 then XR.ninf else XR.nan) else XR.fin (a / b)

/-- the errors of `calibrate_scores` / `_predict` -/
inductive CalErr where
  | empty        -- ValueError of `np.hstack([])` / `np.concatenate([])` in `_predict`: a fold without rows
  | noPositive   -- RuntimeError "No target PSMs were below the 'eval_fdr' threshold."
  deriving DecidableEq, Repr, Inhabited

/-! ## Pieces of `calibrate_scores` -/

/-- score order used by `tdc`: `desc=True` means larger is better.
src: mokapot/qvalues.py:104-107 (`scores.argsort()[::-1]` vs. `scores.argsort()`) -/
def calLe (desc : Bool) (a b : Rat) : Bool := if desc then decide (a ≤ b) else decide (b ≤ a)

/-- `scores[labels == l]` (boolean-mask indexing keeps the input order).
src: mokapot/dataset.py:767,773,774 -/
def selectLab (l : Int) (scores : List Rat) (labels : List Int) : List Rat :=
  ((scores.zip labels).filter (fun p => p.2 == l)).map (fun p => p.1)

/-- `np.min` of a non-empty array given as head and tail -/
def minFrom (x : Rat) (xs : List Rat) : Rat := xs.foldl min x

/-- `np.min(a)`; `none` for the empty array -/
def minList : List Rat → Option Rat
  | [] => none
  | x :: xs => some (minFrom x xs)

/-- `np.median` on an ascending sorted array: the middle element for odd
length, the mean of the two middle elements for even length, `none`
(numpy: `nan` + RuntimeWarning) for the empty array.
src: numpy `median` as used in mokapot/dataset.py:774 (and 562) -/
def medianSorted (s : List Rat) : Option Rat :=
  if s.length = 0 then none
  else if s.length % 2 = 1 then some (s.getD (s.length / 2) 0)
  else some ((s.getD (s.length / 2 - 1) 0 + s.getD (s.length / 2) 0) / 2)

/-- insert into an ascending list -/
def insertAsc (a : Rat) : List Rat → List Rat
  | [] => [a]
  | b :: l => if a ≤ b then a :: b :: l else b :: insertAsc a l

/-- ascending sort (the `partition`/sort inside `np.median`; the ascending arrangement of
rationals is unique, so the sorting algorithm is immaterial — insertion sort is used because
it is structurally recursive and evaluates inside the kernel) -/
def sortAsc : List Rat → List Rat
  | [] => []
  | a :: l => insertAsc a (sortAsc l)

/-- `np.median(a)` -/
def median (l : List Rat) : Option Rat := medianSorted (sortAsc l)

/-- one entry of `(scores - target_score) / (target_score - decoy_score)`;
`d = none` is `decoy_score = nan`, which makes every entry `nan`.
src: mokapot/dataset.py:776 (and 564) -/
def calOne (t : Rat) (d : Option Rat) (s : Rat) : XR :=
  Option.elim d XR.nan (fun dv => xdiv (s - t) (t - dv))

/-- `calibrate_scores` after the labels are known.
src: mokapot/dataset.py:767-776 (and the identical 555-564) -/
def calibrateWith (labels : List Int) (scores : List Rat) : Except CalErr (List XR) :=
  Option.elim (minList (selectLab 1 scores labels))
    (Except.error CalErr.noPositive)                                  -- `if not pos.sum(): raise RuntimeError`
    (fun t => Except.ok (scores.map (calOne t (median (selectLab (-1) scores labels)))))

/-- `calibrate_scores(scores, targets, eval_fdr, desc)` on rows `(score, is_target)`.
src: mokapot/dataset.py:743-776; `OnDiskPsmDataset.calibrate_scores` (528-564) is the
same body after reading the target column from the file.  Zero rows: `tdc` returns an
empty array for Boolean targets, so the code ends in the same RuntimeError. -/
def calibrate (desc : Bool) (thr : Rat) (xs : List (Rat × Bool)) : Except CalErr (List XR) :=
  calibrateWith (updateLabels (calLe desc) thr xs) (xs.map (fun x => x.1))

/-! ## Declarative specification of one calibration -/

/-- the targets accepted at `thr`: targets whose defining-formula q-value is `≤ thr` -/
def accepted (desc : Bool) (thr : Rat) (xs : List (Rat × Bool)) : List Rat :=
  (xs.filter (fun x => x.2 && decide (qSpec (calLe desc) xs x.1 ≤ thr))).map (fun x => x.1)

/-- the decoy scores -/
def decoys (xs : List (Rat × Bool)) : List Rat := (xs.filter (fun x => !x.2)).map (fun x => x.1)

/-- `a` is the lowest value of `l` -/
def IsLeastOf (l : List Rat) (a : Rat) : Prop := a ∈ l ∧ ∀ b ∈ l, a ≤ b

/-- `a` is the order statistic of rank `k` (0-based) of `l`: it occurs in `l`, at most `k`
entries are strictly smaller and more than `k` entries are smaller or equal. -/
def IsOrderStat (l : List Rat) (k : Nat) (a : Rat) : Prop :=
  a ∈ l ∧ l.countP (fun x => decide (x < a)) ≤ k ∧ k < l.countP (fun x => decide (x ≤ a))

/-- `m` is the median of the non-empty list `l`: the mean of the order statistics of rank
`(n-1)/2` and `n/2` (the same element when `n` is odd). -/
def IsMedianOf (l : List Rat) (m : Rat) : Prop :=
  ∃ a b, IsOrderStat l ((l.length - 1) / 2) a ∧ IsOrderStat l (l.length / 2) b ∧ m = (a + b) / 2

/-- executable search for an order statistic (used by the spec op of the driver only) -/
def orderStat? (l : List Rat) (k : Nat) : Option Rat :=
  l.find? (fun a => decide (l.countP (fun x => decide (x < a)) ≤ k) && decide (k < l.countP (fun x => decide (x ≤ a))))

/-- executable search for the least element (spec op only) -/
def least? (l : List Rat) : Option Rat := l.find? (fun a => l.all (fun b => decide (a ≤ b)))

/-- the defining formula of the calibration with anchors `t ↦ 0`, `d ↦ -1` -/
def calF (t d s : Rat) : Rat := (s - t) / (t - d)

/-- spec ingredient: the lowest accepted target score, found by search -/
def specT? (desc : Bool) (thr : Rat) (xs : List (Rat × Bool)) : Option Rat := least? (accepted desc thr xs)

/-- spec ingredient: the decoy median, from the two middle order statistics found by search -/
def specD? (xs : List (Rat × Bool)) : Option Rat :=
  Option.bind (orderStat? (decoys xs) (((decoys xs).length - 1) / 2)) (fun a =>
  Option.bind (orderStat? (decoys xs) ((decoys xs).length / 2)) (fun b => some ((a + b) / 2)))

/-- the defining formula `(s - t) / (t - d)` evaluated directly from the declarative
ingredients; `none` where the property promises nothing (no accepted target, no decoy,
`t = d`).  Used by the driver op `calspec`; independent of `calibrate`'s algorithm. -/
def calSpec? (desc : Bool) (thr : Rat) (xs : List (Rat × Bool)) : Option (List Rat) :=
  Option.bind (specT? desc thr xs) (fun t =>
  Option.bind (specD? xs) (fun d =>
    if t = d then none else some (xs.map (fun x => calF t d x.1))))

/-! ## Per-fold application inside `_predict`  (mokapot/brew.py:414-476) -/

/-- a row as seen by `_predict`: the fold its spectrum was assigned to, the raw output of
*that fold's* model on the row (`model.predict` of `models[fold]`), and the target flag -/
structure FRow where
  fold : Nat
  raw : Rat
  target : Bool
  deriving Repr, Inhabited

/-- `utils.create_chunks` / the chunked reader: consecutive blocks of `c` rows (fuel = length).
src: mokapot/utils.py:79-110, mokapot/brew.py:422-427 -/
def chunksFuel {β : Type} (c : Nat) : Nat → List β → List (List β)
  | 0, _ => []
  | fuel + 1, l => if l.isEmpty then [] else l.take c :: chunksFuel c fuel (l.drop c)

def chunks {β : Type} (c : Nat) (l : List β) : List (List β) := chunksFuel c l.length l

/-- `get_index_values(psms_slice, "fold", f, orig_idx)`: the rows of one chunk that belong
to fold `f`, in file order, each with its original row number (an empty slice is skipped
and contributes nothing). src: mokapot/brew.py:384-387, 428-440 -/
def sliceOf (f : Nat) (chunk : List (FRow × Nat)) : List (FRow × Nat) :=
  chunk.filter (fun r => r.1.fold == f)

/-- the rows accumulated for fold `f` over all chunks (`np.hstack(fold_scores[f])`,
`np.hstack(targets[f])`, `orig_idx[f]`). src: mokapot/brew.py:428-457 -/
def foldRowsChunked (c : Nat) (f : Nat) (rows : List (FRow × Nat)) : List (FRow × Nat) :=
  (chunks c rows).flatMap (sliceOf f)

/-- one fold: `np.hstack` of an empty list raises ValueError, otherwise `calibrate_scores`
with the default `desc=True`. src: mokapot/brew.py:463-469 -/
def calibrateFold (thr : Rat) (fr : List (FRow × Nat)) : Except CalErr (List XR) :=
  if fr.isEmpty then Except.error CalErr.empty
  else calibrate true thr (fr.map (fun r => (r.1.raw, r.1.target)))

/-- calibrate every fold in fold order, stopping at the first failure
(`for mod in models: ... calibrate_scores(...)`). src: mokapot/brew.py:460-477 -/
def calibrateAll (thr : Rat) : List (List (FRow × Nat)) → Except CalErr (List (List XR))
  | [] => Except.ok []
  | fr :: rest =>
    Except.bind (calibrateFold thr fr) (fun v =>
    Except.bind (calibrateAll thr rest) (fun vs => Except.ok (v :: vs)))

/-- first value stored under key `i`; the final
`np.concatenate(scores)[np.argsort(sum(orig_idx, []))]`. src: mokapot/brew.py:480-481 -/
def lookupX (i : Nat) : List (Nat × XR) → XR
  | [] => XR.nan
  | (j, v) :: rest => if j = i then v else lookupX i rest

/-- `_predict` for one collection: `k` models/folds, prediction chunk size `c`, evaluation
FDR `thr`; the returned list is in the original row order.  (`k = 0`: `np.concatenate([])`
raises.) src: mokapot/brew.py:394-481 -/
def predictFolds (c k : Nat) (thr : Rat) (rows : List FRow) : Except CalErr (List XR) :=
  if k = 0 then Except.error CalErr.empty
  else
    Except.bind (calibrateAll thr ((List.range k).map (fun f => foldRowsChunked c f rows.zipIdx))) (fun cal =>
      Except.ok ((List.range rows.length).map (fun i =>
        lookupX i ((((List.range k).flatMap (fun f => foldRowsChunked c f rows.zipIdx)).map (fun r => r.2)).zip
          cal.flatten))))

/-- **Specification** of per-fold calibration: the rows of fold `f` (nothing else) -/
def foldOf (f : Nat) (rows : List FRow) : List (Rat × Bool) :=
  (rows.filter (fun r => r.fold == f)).map (fun r => (r.raw, r.target))

/-- the returned scores restricted to the rows of fold `f` (in file order) — the
observation point of the property -/
def restrictTo (f : Nat) (rows : List FRow) (out : List XR) : List XR :=
  ((rows.zip out).filter (fun p => p.1.fold == f)).map (fun p => p.2)

/-! ## The decision-function gate of `_predict` and the loop over collections
(mokapot/brew.py:414-416, 460-481, consumed by `list(_predict(...))` at brew.py:246-254)

`predictFolds` above is the case in which every fold's estimator exposes
`decision_function` and one collection is scored.  The code decides *per model* whether
the fold is calibrated (`try: mod.estimator.decision_function … except AttributeError:
scores.append(np.hstack(fold_scores.pop(0)))`) and runs the whole procedure once per
collection, with fresh accumulators, inside a generator that `brew` consumes with `list`. -/

/-- `for a in l: out.append(g(a))` where `g` may raise: the first failure stops the loop and
nothing is returned. src: mokapot/brew.py:460-476 (`for mod in models:`), 246-254
(`list(_predict(...))` over the collections) -/
def mapE {α β ε : Type} (g : α → Except ε β) : List α → Except ε (List β)
  | [] => Except.ok []
  | a :: rest => Except.bind (g a) (fun v => Except.bind (mapE g rest) (fun vs => Except.ok (v :: vs)))

/-- one pass of `for mod in models:`; `df` says whether `mod.estimator.decision_function`
exists.  With it the fold is calibrated (`calibrateFold`); without it (AttributeError) the
fold's raw scores are appended unchanged — `np.hstack` of an empty list raises ValueError in
both branches. src: mokapot/brew.py:460-476 -/
def calibrateFoldDF (thr : Rat) (df : Bool) (fr : List (FRow × Nat)) : Except CalErr (List XR) :=
  if df then calibrateFold thr fr
  else if fr.isEmpty then Except.error CalErr.empty
  else Except.ok (fr.map (fun r => XR.fin r.1.raw))

/-- `_predict` for one collection with one flag per model (`dfs[f]` = the estimator of
`models[f]` exposes `decision_function`); `len(models) = dfs.length` folds.
src: mokapot/brew.py:414-481 -/
def predictFoldsDF (c : Nat) (dfs : List Bool) (thr : Rat) (rows : List FRow) : Except CalErr (List XR) :=
  if dfs.length = 0 then Except.error CalErr.empty
  else
    Except.bind (mapE (fun p => calibrateFoldDF thr p.1 (foldRowsChunked c p.2 rows.zipIdx)) dfs.zipIdx) (fun cal =>
      Except.ok ((List.range rows.length).map (fun i =>
        lookupX i ((((List.range dfs.length).flatMap (fun f => foldRowsChunked c f rows.zipIdx)).map (fun r => r.2)).zip
          cal.flatten))))

/-- `list(_predict(models_idx, psms, models, test_fdr, …))`: every collection is scored
with the same models and its own accumulators (`fold_scores`, `targets`, `orig_idx` are
created inside the loop); an error in one collection stops the run — no scores at all
are returned, also not for the collections before it.
src: mokapot/brew.py:414-421 (loop head and accumulators), 246-254 (`list(...)`) -/
def predictColls (c : Nat) (dfs : List Bool) (thr : Rat) (colls : List (List FRow)) :
    Except CalErr (List (List XR)) :=
  mapE (predictFoldsDF c dfs thr) colls

/-- **Specification** of one fold's returned scores under the gate: the calibration of that
fold's rows when the fold's estimator has a decision function, the raw scores otherwise -/
def foldSpecDF (thr : Rat) (df : Bool) (xs : List (Rat × Bool)) : Except CalErr (List XR) :=
  if df then calibrate true thr xs else Except.ok (xs.map (fun x => XR.fin x.1))

/-! ## Re-scaling a fold model's output (spec transformation, second audit pass)

A fold's estimator is only determined up to a positive affine map of its decision function
(an SVM's margin scale and intercept differ from fold to fold); "comparable across folds"
means the returned scores do not depend on that choice.  These functions describe the
transformation; nothing in the code corresponds to them. -/

/-- the positive affine map `s ↦ a·s + b` of a raw score -/
def rescale (a b s : Rat) : Rat := a * s + b

/-- every score of one calibration input re-scaled (targets unchanged) -/
def rescaleRows (a b : Rat) (xs : List (Rat × Bool)) : List (Rat × Bool) :=
  xs.map (fun x => (rescale a b x.1, x.2))

/-- one row of `_predict` with the output of *its fold's* model re-scaled by that fold's
`(A f, B f)`; fold and target flag unchanged -/
def rescaleRow (A B : Nat → Rat) (r : FRow) : FRow :=
  { fold := r.fold, raw := rescale (A r.fold) (B r.fold) r.raw, target := r.target }

/-- all rows, every fold model with its own scale and offset -/
def rescaleFolds (A B : Nat → Rat) (rows : List FRow) : List FRow := rows.map (rescaleRow A B)

/-! ## The order of the fold models  (mokapot/brew.py:194-195, second audit pass)

`_predict` pairs `models[f]` with the rows whose fold number is `f` and asks `models[f]` for its
`decision_function`.  `models` is not the list the caller passed: `brew` sorts the (pre-trained
or freshly fitted) models by their `fold` attribute first.  A model is represented by
`(fold attribute, exposes decision_function)`. -/

/-- insert into a list sorted by the fold attribute, in front of entries with the same attribute -/
def insertByFold (m : Nat × Bool) : List (Nat × Bool) → List (Nat × Bool)
  | [] => [m]
  | x :: l => if m.1 ≤ x.1 then m :: x :: l else x :: insertByFold m l

/-- `fitted.sort(key=lambda x: x[0].fold)`: stable (equal attributes keep the order of the list).
src: mokapot/brew.py:194 -/
def sortByFold : List (Nat × Bool) → List (Nat × Bool)
  | [] => []
  | m :: l => insertByFold m (sortByFold l)

/-- the flags `_predict` sees, fold by fold: `models, resets = zip(*fitted)` after the sort.
src: mokapot/brew.py:194-195, 462-464 -/
def gateFlags (models : List (Nat × Bool)) : List Bool := (sortByFold models).map (fun m => m.2)

/-- `_predict` as `brew` calls it with the models in the order the caller listed them.
src: mokapot/brew.py:194-195, 243-251 -/
def predictModels (c : Nat) (models : List (Nat × Bool)) (thr : Rat) (rows : List FRow) : Except CalErr (List XR) :=
  predictFoldsDF c (gateFlags models) thr rows

end Mk.Calibrate
