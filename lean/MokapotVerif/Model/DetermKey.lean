import MokapotVerif.Model.Brew
import MokapotVerif.Model.Determ
/-!
# Determinism (C08), third pass: the fold key of `OnDiskPsmDataset._split`

## 5. The spectrum key that decides the cross-validation fold

`_split` (dataset.py:634-699) turns every row `x` of the spectrum-key columns into ONE integer,
`crc32(str(tuple(x[:2])).encode())` (dataset.py:667-673), argsorts these integers, cuts the sorted array at group
starts and shuffles inside every piece.  Which PSMs make up a fold is therefore decided by that integer alone.  For
the result to be the same in every interpreter session it must be a function of the cell VALUES: `zlib.crc32` of the
UTF-8 text of the tuple is; the builtin `hash()` of a tuple that holds a `str` (the optional `filename` column is the
FIRST spectrum column, pin.py:195) is salted per process by `PYTHONHASHSEED`.

Numeric key columns are first widened to 64 bit (dataset.py:654-665, since the repair D53), so that the printed
scalar type does not depend on the storage width.  The model computes the key from the `repr` texts of the cells of a row
(after that widening) (CPython / numpy `repr` is trusted; the
harness sends the texts): `tupleText` is `str(tuple(..))` of at most two cells, `crc32` is the checksum itself
(bit by bit, polynomial 0xEDB88320 reflected, as zlib), `foldKey` the composition.  A `Session` stands for what
differs between two interpreter sessions — the salted string hash; the code as it is does not consult it
(`foldKeyIn`), the refuted variant does (Mutants/Determ.lean: `builtinHashKey`).
-/
namespace Mk.Determ

/-- src: mokapot/dataset.py:668 (`zlib.crc32`) — one shift step of the reflected CRC-32 register, polynomial 0xEDB88320 -/
def crcBit (c : Nat) : Nat := if c % 2 = 1 then (c / 2) ^^^ 0xEDB88320 else c / 2

/-- src: mokapot/dataset.py:668 (`zlib.crc32`) — eight shift steps -/
def crcBits8 (c : Nat) : Nat := crcBit (crcBit (crcBit (crcBit (crcBit (crcBit (crcBit (crcBit c)))))))

/-- src: mokapot/dataset.py:668 (`zlib.crc32`) — one input byte `b` folded into the register `c` -/
def crcByte (c b : Nat) : Nat := crcBits8 (c ^^^ (b % 256))

/-- src: mokapot/dataset.py:668 (`zlib.crc32(data)`): register preset to 2^32-1, final complement -/
def crc32 (bytes : List Nat) : Nat := (bytes.foldl crcByte 0xFFFFFFFF) ^^^ 0xFFFFFFFF

/-- src: mokapot/dataset.py:669 — the UTF-8 bytes of a text (`str.encode()`) -/
def utf8 (s : String) : List Nat := s.toUTF8.toList.map UInt8.toNat

/-- src: mokapot/dataset.py:669 — `str(tuple(cells))` given the `repr` text of every cell: `()`, `(a,)`, `(a, b, …)` -/
def tupleText : List String → String
  | [] => "()"
  | [a] => "(" ++ a ++ ",)"
  | a :: b :: rest => "(" ++ ", ".intercalate (a :: b :: rest) ++ ")"

/-- src: mokapot/dataset.py:668-670 — `crc32 ∘ encode ∘ str ∘ tuple` on the cell texts handed to it -/
def keyHash (cells : List String) : Nat := crc32 (utf8 (tupleText cells))

/-- src: mokapot/dataset.py:667-673 — the fold key of one row: `crc32(str(tuple(x[:2])).encode())`; `cells` are the
`repr` texts of ALL spectrum-key cells of the row, only the first two enter -/
def foldKey (cells : List String) : Nat := keyHash (cells.take 2)

/-- src: CPython `PYTHONHASHSEED` (no counterpart in mokapot/dataset.py:667-673 as it is; parameter of the refuted variant) —
what differs between two interpreter sessions as far as keys are concerned: the salted hash of `str` values
(`PYTHONHASHSEED`) applied to the text of the key cells -/
structure Session where
  strHash : List String → Nat

/-- src: mokapot/dataset.py:667-673 — the key as the code computes it inside a session: the session is not consulted -/
def foldKeyIn (_S : Session) (cells : List String) : Nat := foldKey cells

/-- src: mokapot/dataset.py:654-699 — `_split` of one file before the in-fold shuffles: keys, `argsort` (stable
merge sort as the executable instance; the theorems take any argsort), cuts at group starts; `none` = IndexError -/
def splitRows (rows : List (List String)) (folds : Nat) : Option (List (List Nat)) :=
  Mk.Brew.split (rows.map foldKey) folds

/-- src: mokapot/brew.py:151 — `[_psms._split(folds, rng) for _psms in psms]` before the in-fold shuffles, given the
argsort of every collection's key column; `none` = the IndexError of one of them -/
def splitAllWith (sorteds : List (List (Nat × Nat))) (folds : Nat) : Option (List (List (List Nat))) :=
  sorteds.mapM (fun s => Mk.Brew.splitWith s folds)

/-- src: mokapot/brew.py:151 — the fold sizes of all collections, the argument of `splitDraws` / `mainDrawsOf` -/
def foldSizesOf (fss : List (List (List Nat))) : List (List Nat) := fss.map (fun fs => fs.map List.length)

end Mk.Determ
