/-!
# Model of the two k-way merges  (mokapot/utils.py, mokapot/streaming.py)

Import-free.  Rows live in an arbitrary type `α`; `le a b` reads "the score of
`a` is at most the score of `b`" (a total preorder on rows: distinct rows may
tie).  The code's strict float comparisons are expressed through it:
`x < y` is `!(le y x)`, `x > y` is `!(le x y)` (scores are finite, no NaN).

State of a running merge: the list, in key/index order, of the *open* inputs,
each a pair `(current row, rows the iterator still holds)`.  This is
`current_row_dict`/`row_iterator_dict` of `merge_sort` (Python dicts keep
insertion order, replacing a value keeps its position, `del` removes it) and
`current_rows`/`row_iterators`/`values` of `MergedTabularDataReader`.
-/
namespace Mk.Merge
variable {α : Type}

/-- an open input: its current row and the rest of its row iterator -/
abbrev Src (α : Type) := α × List α

/-- all rows an open input will still deliver -/
def srcRows (s : Src α) : List α := s.1 :: s.2

/-! ## Reading an input in chunks -/

/-- consecutive chunks of at most `c` rows (`pd.read_csv(chunksize=c)`,
`ParquetFile.iter_batches(c)`, `DataFrameReader.get_chunked_data_iterator`),
by recursion on a fuel that `kmChunks` sets to the number of rows.
src: mokapot/tabular_data.py:211-220, 254-259, 306-316 -/
def kmChunksFuel (c : Nat) : Nat → List α → List (List α)
  | 0, _ => []
  | fuel + 1, xs => if xs.isEmpty then [] else xs.take c :: kmChunksFuel c fuel (xs.drop c)

def kmChunks (c : Nat) (xs : List α) : List (List α) := kmChunksFuel c xs.length xs

/-- the per-file row iterator: read chunk by chunk, yield the rows of each chunk.
src: mokapot/utils.py:132-148 (`csv_row_iterator`, `parquet_row_iterator`),
mokapot/streaming.py:251-254 (`row_iterator_from_chunked`) -/
def kmRowIter (c : Nat) (xs : List α) : List α := (kmChunks c xs).flatten

/-- `next(row_iter)` on a fresh iterator: the first row becomes the current row;
an input without rows contributes nothing here (and makes the merge raise, see `kmerge`). -/
def openSrc : List α → List (Src α)
  | [] => []
  | x :: xs => [(x, xs)]

/-- `next(row_iterator)` on an open input: the successor state, or nothing when the
iterator is exhausted (`StopIteration` → the input is deleted). -/
def nextSrc : Src α → List (Src α)
  | (_, []) => []
  | (_, r :: rs) => [(r, rs)]

/-! ## Choosing the input to emit from -/

/-- left-to-right scan keeping the best value seen so far and its index; the best is
replaced only when `better best x` holds, so on ties the *first* index wins.
`better b x = (b < x)` is the loop of `get_next_row` and `np.argmax`;
`better b x = (x < b)` is `np.argmin`.
src: mokapot/utils.py:113-119, mokapot/streaming.py:268-271 -/
def scanBest (better : α → α → Bool) : α → Nat → Nat → List α → Nat
  | _, bi, _, [] => bi
  | b, bi, i, x :: xs =>
    if better b x then scanBest better x i (i + 1) xs else scanBest better b bi (i + 1) xs

/-- index chosen among the current rows (0 on an empty list, which never occurs) -/
def argFirst (better : α → α → Bool) : List α → Nat
  | [] => 0
  | x :: xs => scanBest better x 0 1 xs

/-- the open input at position `i`, as a list of length ≤ 1 (`current_rows[i]`) -/
def srcAt (st : List (Src α)) (i : Nat) : List (Src α) := (st.drop i).take 1

/-- replace input `i` by its successor, or delete it when exhausted; all other
inputs keep their relative order.
src: mokapot/utils.py:121-125, mokapot/streaming.py:276-298 -/
def advanceAt (st : List (Src α)) (i : Nat) : List (Src α) :=
  st.take i ++ (srcAt st i).flatMap nextSrc ++ st.drop (i + 1)

/-- number of rows still to be delivered -/
def srcTotal (st : List (Src α)) : Nat := (st.flatMap srcRows).length

/-! ## `mokapot.utils.merge_sort` -/

/-- `max_score < score` -/
def ltMax (le : α → α → Bool) (best x : α) : Bool := !(le x best)

/-- the `while row_iterator_dict != {}` loop: pick the first input whose current
score is maximal, yield its current row, advance or delete that input.
src: mokapot/utils.py:107-127, 163-166 -/
def mergeLoop (le : α → α → Bool) : Nat → List (Src α) → List α
  | 0, _ => []
  | fuel + 1, st =>
    if st.isEmpty then [] else
    let i := argFirst (ltMax le) (st.map (·.1))
    (srcAt st i).map (·.1) ++ mergeLoop le fuel (advanceAt st i)

/-- `merge_sort(paths, score_column)` on the already-parsed rows of the files.
`none`: the code raises (`paths[0]` on an empty list → `IndexError`; `next()` on a
file without rows inside the generator → `RuntimeError`).
src: mokapot/utils.py:150-166 -/
def kmerge (le : α → α → Bool) (inputs : List (List α)) : Option (List α) :=
  if inputs.isEmpty || inputs.any List.isEmpty then none
  else some (mergeLoop le (srcTotal (inputs.flatMap openSrc)) (inputs.flatMap openSrc))

/-- the same with the chunked per-file row iterators made explicit
(`MERGE_SORT_CHUNK_SIZE = c`) -/
def kmergeFiles (le : α → α → Bool) (c : Nat) (files : List (List α)) : Option (List α) :=
  kmerge le (files.map (kmRowIter c))

/-! ## `mokapot.streaming.MergedTabularDataReader.get_row_iterator` -/

/-- `np.argmax(values)` if `descending` else `np.argmin(values)` (first index on ties).
src: mokapot/streaming.py:268-271 -/
def pickIdx (le : α → α → Bool) (desc : Bool) (vals : List α) : Nat :=
  if desc then argFirst (fun b x => !(le x b)) vals else argFirst (fun b x => !(le b x)) vals

/-- the sortedness check made when an input is advanced:
descending: `new_value > values[i]`, ascending: `new_value < values[i]` → `ValueError`.
src: mokapot/streaming.py:283-292 -/
def violates (le : α → α → Bool) (desc : Bool) : Src α → Bool
  | (_, []) => false
  | (cur, new :: _) => if desc then !(le new cur) else !(le cur new)

/-- the `while len(row_iterators)` loop.  Result: the rows yielded, and whether the
generator then raised `ValueError`.
src: mokapot/streaming.py:264-298 -/
def checkedLoop (le : α → α → Bool) (desc : Bool) : Nat → List (Src α) → List α × Bool
  | 0, _ => ([], false)
  | fuel + 1, st =>
    if st.isEmpty then ([], false) else
    let i := pickIdx le desc (st.map (·.1))
    let cur := srcAt st i
    if cur.any (violates le desc) then (cur.map (·.1), true)
    else
      let r := checkedLoop le desc fuel (advanceAt st i)
      (cur.map (·.1) ++ r.1, r.2)

/-- `MergedTabularDataReader(readers, col, descending).get_row_iterator()` on the rows
of the readers.  `none`: the code raises before the first row (`assert len(readers) > 0`;
`next()` on a reader without rows → `RuntimeError`).
src: mokapot/streaming.py:176-203, 211-298 -/
def kmergeChecked (le : α → α → Bool) (desc : Bool) (inputs : List (List α)) :
    Option (List α × Bool) :=
  if inputs.isEmpty || inputs.any List.isEmpty then none
  else some (checkedLoop le desc (srcTotal (inputs.flatMap openSrc)) (inputs.flatMap openSrc))

/-- with `reader_chunk_size = c` made explicit -/
def kmergeCheckedFiles (le : α → α → Bool) (desc : Bool) (c : Nat) (files : List (List α)) :
    Option (List α × Bool) :=
  kmergeChecked le desc (files.map (kmRowIter c))

/-- `get_chunked_data_iterator(chunk_size)` of the merged reader / `merge_readers`
(chunk size 1): the yielded rows regrouped into frames of `chunk_size` rows.
src: mokapot/streaming.py:300-316, 331-345 -/
def kmRechunk (c : Nat) (out : List α) : List (List α) := kmChunks c out

/-! ## Specification (declarative; the checkers below are what the driver evaluates) -/

/-- the rows of an input up to (excluding) the first row that breaks the declared order,
continuing after a row `cur` -/
def sortedPrefixFrom (le : α → α → Bool) (desc : Bool) : α → List α → List α
  | _, [] => []
  | cur, new :: rest =>
    if (if desc then le new cur else le cur new) then new :: sortedPrefixFrom le desc new rest else []

/-- longest prefix of an input that is sorted as declared -/
def sortedPrefix (le : α → α → Bool) (desc : Bool) : List α → List α
  | [] => []
  | x :: xs => x :: sortedPrefixFrom le desc x xs

/-- adjacent-pair check "sorted as declared" (non-increasing if `desc`) -/
def sortedDirB (le : α → α → Bool) (desc : Bool) : List α → Bool
  | [] => true
  | [_] => true
  | a :: b :: rest => (if desc then le b a else le a b) && sortedDirB le desc (b :: rest)

/-- is `xs` contained in `pool` as a multiset? -/
def subMultiB [BEq α] : List α → List α → Bool
  | [], _ => true
  | x :: xs, pool => pool.contains x && subMultiB xs (pool.erase x)

/-- spec of `merge_sort`: every input row exactly once; non-increasing when the
inputs were.  Answers the violated clause. -/
def specMerge [BEq α] (le : α → α → Bool) (inputs : List (List α)) (out : List α) : String :=
  if !(out.isPerm inputs.flatten) then "fail-perm"
  else if inputs.all (sortedDirB le true) && !(sortedDirB le true out) then "fail-sorted"
  else "ok"

/-- spec of the checked table merger: `ValueError` iff some input is not sorted as
declared; the yielded rows are sorted as declared in every case; without an error
they are exactly the input rows, with an error they are distinct input rows. -/
def specChecked [BEq α] (le : α → α → Bool) (desc : Bool) (inputs : List (List α))
    (out : List α) (err : Bool) : String :=
  if err == inputs.all (sortedDirB le desc) then "fail-error-iff-unsorted"
  else if !(sortedDirB le desc out) then "fail-sorted"
  else if !err && !(out.isPerm inputs.flatten) then "fail-perm"
  else if err && !(subMultiB out inputs.flatten) then "fail-subperm"
  else "ok"

end Mk.Merge

namespace Mk.Merge
variable {α β : Type}

/-! ## The tie rule made declarative: stable sort of the concatenated inputs

Both loops take, among the inputs whose current row scores highest, the one with the
*smallest index* (`max_score < score` replaces the best only on a strict improvement;
`np.argmax`/`np.argmin` return the first extreme index).  Declaratively: rows of equal
score come out in the order (input index, position in the input), i.e. the result is the
*stable* sort by decreasing score of the inputs written one after the other. -/

/-- insert `x` into a non-increasing list: behind every row that scores strictly higher,
in front of the first row that does not (so `x` precedes the rows it ties with) -/
def insDesc (le : α → α → Bool) (x : α) : List α → List α
  | [] => [x]
  | y :: ys => if !(le y x) then y :: insDesc le x ys else x :: y :: ys

/-- stable sort by decreasing score (insertion sort from the right: an earlier row is
inserted later and therefore lands in front of the rows it ties with) -/
def stableSortDesc (le : α → α → Bool) (xs : List α) : List α := xs.foldr (insDesc le) []

/-- stable sort in the declared direction (`desc = false`: by increasing score) -/
def stableSortAs (le : α → α → Bool) (desc : Bool) (xs : List α) : List α :=
  if desc then stableSortDesc le xs else stableSortDesc (fun a b => le b a) xs

/-! ## `get_row_iterator(columns=…)` / `read(columns=…)` / `get_chunked_data_iterator(…, columns=…)` -/

/-- with a column selection every reader is asked for the selected columns only
(`reader.get_chunked_data_iterator(chunk_size, columns=columns)`), so each row is projected
(`proj`) *before* it is compared, checked and yielded; the priority value is then looked up
in the projected row.  `hasKey = false`: the priority column was not selected, the lookup
raises (`KeyError`, `ValueError` for record rows) after the first rows were fetched and
before anything is yielded — `none`, as for an input without rows.
src: mokapot/streaming.py:211-215, 251-266 -/
def kmergeCheckedCols (leβ : β → β → Bool) (hasKey : Bool) (proj : α → β) (desc : Bool)
    (c : Nat) (files : List (List α)) : Option (List β × Bool) :=
  if hasKey then kmergeCheckedFiles leβ desc c (files.map (List.map proj)) else none

end Mk.Merge

namespace Mk.Merge
variable {α : Type}

/-! ## What the entry points hand to their consumer -/

/-- the `while not finished` loop of `get_chunked_data_iterator(chunk_size = c)`: every yielded
row is appended to `rows` (`acc`); a frame is handed on as soon as it holds `c` rows; at the
regular end a non-empty rest is handed on as the last frame; when the row iterator raises
`ValueError` (`err`) the exception propagates at once and the collected rest is lost.
src: mokapot/streaming.py:300-316 -/
def kmFramesGo (c : Nat) (err : Bool) : List α → List α → List (List α)
  | acc, [] => if !err && !acc.isEmpty then [acc] else []
  | acc, x :: xs =>
    if (acc ++ [x]).length == c then (acc ++ [x]) :: kmFramesGo c err [] xs
    else kmFramesGo c err (acc ++ [x]) xs

/-- `get_chunked_data_iterator(c)` / `merge_readers` (`c = 1`) on the result `(rows, raised?)`
of the row iterator: the frames the consumer receives, and whether it then sees the `ValueError`.
src: mokapot/streaming.py:300-316, 331-345 -/
def kmDeliverFrames (c : Nat) (r : List α × Bool) : List (List α) × Bool :=
  (kmFramesGo c r.2 [] r.1, r.2)

/-- `read()`: all rows in one table, or nothing but the `ValueError`.
src: mokapot/streaming.py:318-323 -/
def kmDeliverRead (r : List α × Bool) : List α × Bool := if r.2 then ([], true) else (r.1, false)

end Mk.Merge

namespace Mk.Merge
variable {α : Type}

/-! ## Second pass: which row iterator `merge_sort` uses (path suffixes, mixed lists) -/

/-- `paths[0].suffix == ".parquet"` in `merge_sort`; `suffix in PARQUET_SUFFIXES` in
`TabularDataReader.from_path`.  A file whose name ends in `.parquet` holds Parquet data, every
other file is text (whatever its suffix: `.csv`, `.pin`, `.tab`, `.psms`, … or — read as text
after a warning — `.tsv`, `.txt`, no suffix at all).
src: mokapot/utils.py:151, mokapot/tabular_data.py:34, 91-103 -/
def kmIsParquet (suffix : String) : Bool := suffix == ".parquet"

/-- can the row iterator that `merge_sort` chose from the *first* path read a file with this
suffix?  `parquet_row_iterator` opens every path with `pq.ParquetFile` (a text file →
`ArrowInvalid`); `csv_row_iterator` goes through `TabularDataReader.from_path`, which looks at
the file's own suffix (Parquet reader for `.parquet`, text reader otherwise), so it reads both.
src: mokapot/utils.py:130-148, 151-154 -/
def kmReadable (firstIsParquet : Bool) (suffix : String) : Bool :=
  !firstIsParquet || kmIsParquet suffix

/-- `merge_sort(paths, score_column)` on files given as `(suffix, rows)`: the row iterator is
chosen from the suffix of the first path only and applied to every path.  `none`: the code
raises before the first row (no path, a file without rows, or a text file in a list whose
first path is Parquet).
src: mokapot/utils.py:150-166 -/
def kmergePaths (le : α → α → Bool) (c : Nat) (files : List (String × List α)) :
    Option (List α) :=
  if files.all (fun f => kmReadable (kmIsParquet ((files.map (·.1)).headD "")) f.1)
  then kmergeFiles le c (files.map (·.2)) else none

/-! ## Parquet files written in several row groups -/

/-- the row iterator over a Parquet file that was written in row groups of `g` rows
(mokapot's own writers append chunk by chunk: one row group per chunk) and is read in batches
of at most `c` rows that do not span a row-group border (whether pyarrow lets a batch span a
border depends on its version; `kmRowIter` is the spanning case).
src: mokapot/utils.py:141-147, mokapot/tabular_data.py:315-333 -/
def kmRowIterGroups (g c : Nat) (xs : List α) : List α :=
  ((kmChunks g xs).map (kmRowIter c)).flatten

/-! ## Scores that are ±∞ -/

/-- a float score that is not NaN: finite (an integer here) or ±∞ -/
inductive XScore where
  | negInf
  | fin (v : Int)
  | posInf
deriving DecidableEq, Repr

/-- IEEE `<=` on non-NaN floats -/
def xle : XScore → XScore → Bool
  | .negInf, _ => true
  | _, .posInf => true
  | .fin a, .fin b => decide (a ≤ b)
  | _, _ => false

/-- rows `(score, id)` whose score may be ±∞, ordered by score -/
def xleRow (a b : XScore × Nat) : Bool := xle a.1 b.1

end Mk.Merge

namespace Mk.Merge
variable {α : Type}

/-! ## A table merger whose inputs are table mergers

`MergedTabularDataReader` is itself a `TabularDataReader`, so mergers can be stacked: the outer
merger asks every inner one for `get_chunked_data_iterator(chunk_size = outer reader_chunk_size)`
and walks through the rows of the frames it receives.  When an inner merger meets an unsorted
input, its `ValueError` surfaces in the outer merger's `next(row_iterators[i])` — which only
expects `StopIteration` — after the rows of the complete frames have been consumed, and
propagates.  The outer merger therefore sees an inner one as "these rows, then an exception
instead of the end"; that is modelled by a row `none` placed behind them which is *beyond the
best* in the declared direction, so that reaching it is exactly an order violation
(`violates`): the current row is yielded, then the error is raised. -/

/-- the score order extended by the marker `none` = "the inner merger raises here": above every
row in descending mode, below every row in ascending mode -/
def leRaise (le : α → α → Bool) (desc : Bool) : Option α → Option α → Bool
  | some a, some b => le a b
  | none, none => true
  | none, some _ => !desc
  | some _, none => desc

/-- what the outer merger sees of an inner merger that delivered `(frames, raised?)` -/
def nestedInput (r : List (List α) × Bool) : List (Option α) :=
  r.1.flatten.map some ++ (if r.2 then [none] else [])

/-- does the inner merger raise before its first frame is complete? -/
def startsRaised : List (Option α) → Bool
  | none :: _ => true
  | _ => false

/-- the results `(frames, raised?)` of the inner mergers (reader chunk size `cin`) as delivered
by `get_chunked_data_iterator(chunk_size = cout)`; `none` for one that raises at once (no reader,
or a reader without rows).
src: mokapot/streaming.py:256-262, 300-316 -/
def nestedInner (le : α → α → Bool) (desc : Bool) (cin cout : Nat) (groups : List (List (List α))) :
    List (Option (List (List α) × Bool)) :=
  groups.map (fun g => (kmergeCheckedFiles le desc cin g).map (kmDeliverFrames cout))

/-- `MergedTabularDataReader([MergedTabularDataReader(g, col, desc, cin) for g in groups], col, desc,
cout).get_row_iterator()`: rows yielded, and whether `ValueError` was then raised.
src: mokapot/streaming.py:211-298 (outer), 300-316 (inner, as a reader of the outer one) -/
def kmergeNested (le : α → α → Bool) (desc : Bool) (cin cout : Nat)
    (groups : List (List (List α))) : Option (List α × Bool) :=
  if (nestedInner le desc cin cout groups).any Option.isNone then none
  else if (((nestedInner le desc cin cout groups).filterMap id).map nestedInput).any startsRaised
  then some ([], true)
  else (kmergeChecked (leRaise le desc) desc
      (((nestedInner le desc cin cout groups).filterMap id).map nestedInput)).map
    (fun r => (r.1.filterMap id, r.2))

end Mk.Merge
