import MokapotVerif.Model.Decoys
/-!
# C18, third pass — every FASTA input: empty files, blank lines before the first record

`FastaRec`/`fastaFileText` (second pass) describe a file that *begins* with a record.  A file
as a person or a tool leaves it may also be empty, or begin with blank lines; several such
files may be given in any order (an empty one first).  The description below covers that:
a file is a number of blank lines followed by any number of records (none: an empty file, or
one that holds line breaks only).  `Props/C18AnyInput.lean` proves that the reader
(`parseFasta`, the repaired line fasta.py:332) recovers `(name, concatenated lines)` of every
record of every file, in order, without any side condition on which file is empty or where the
blank lines are.  (Import of the core model only; no Mathlib.)
-/
namespace Mk.Decoys

/-- a FASTA file as it is laid out on disk: `lead` blank lines, then the records (possibly none) -/
structure FastaFile where
  lead : Nat
  recs : List FastaRec

/-- text of a file (line ends written as `\n`): the blank lines, then every record on lines of
its own -/
def FastaFile.text (f : FastaFile) : List Char := List.replicate f.lead '\n' ++ fastaFileText f.recs

/-- the proteins a list of files denotes: the records of all files in file and record order -/
def fastaInputEntries (fs : List FastaFile) : List (List Char × List Char) :=
  (fs.flatMap (·.recs)).map FastaRec.entry

/-- the reader on the texts of several files (line ends `\n`, `\r\n` or `\r` per file).
src: mokapot/parsers/fasta.py:313-357 -/
def parseFastaInput (fss : List (Eol × FastaFile)) : Option (List (List Char × List Char)) :=
  parseFasta (fss.map (fun p => encodeEol p.1 p.2.text))

end Mk.Decoys
