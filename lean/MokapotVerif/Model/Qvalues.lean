/-!
# Model of target-decoy q-values  (mokapot/qvalues.py, mokapot/dataset.py)

Import-free.  Scores live in an arbitrary type `α` with a Boolean relation
`le a b` read as "`b` is at least as good as `a`" (for `desc=True` this is
`a ≤ b`, for `desc=False` it is `a ≥ b`).  q-values are exact rationals.
-/
namespace Mk
variable {α : Type}

/-- `(decoys + 1) / targets`, 1 when there is no target.
src: mokapot/qvalues.py:122-127 (`np.divide(..., out=ones, where=cum_targets != 0)`) -/
def fdrRaw (T D : Nat) : Rat := if T = 0 then 1 else ((D + 1 : Nat) : Rat) / (T : Rat)

/-- minimum of a list of rationals, capped at 1 (`min_q = 1` in `_fdr2qvalue`). -/
def minOver (ys : List Rat) : Rat := ys.foldr min 1

/-- running target/decoy counts (`cum_targets`, `cum_decoys`). -/
def step (b : Bool) (T D : Nat) : Nat × Nat := if b then (T + 1, D) else (T, D + 1)

/-- Is the element with score `s` the last of its tie group, given the rest of
the best-first sorted list?  (`np.unique(..., return_counts=True)` groups.) -/
def isEnd (le : α → α → Bool) (s : α) : List (α × Bool) → Bool
  | [] => true
  | (s', _) :: _ => !(le s s')

/-- `_fdr2qvalue` on a best-first sorted list with running counts `T`, `D` of the
elements before it.  The FDR of a tie group is the one at its last element
(`fdr_group[np.argmax(n_group)]` after the flip), the q-value is the running
minimum from the worst group to the best, and every member of a group gets
the group's value.  src: mokapot/qvalues.py:109-141, 147-192 -/
def go (le : α → α → Bool) (T D : Nat) : List (α × Bool) → List Rat
  | [] => []
  | (s, b) :: rest =>
    let TD := step b T D
    let qs := go le TD.1 TD.2 rest
    (if isEnd le s rest then min (fdrRaw TD.1 TD.2) (qs.headD 1) else qs.headD 1) :: qs

/-- first value stored under key `i` (default 1); the un-sort
`qvals[np.argsort(srt_idx)]` of qvalues.py:142 -/
def lookupIdx (i : Nat) : List (Nat × Rat) → Rat
  | [] => 1
  | (j, q) :: rest => if j = i then q else lookupIdx i rest

/-- q-values of `xs` given *some* arrangement `sorted` of the index-tagged
input (the result of `np.argsort`, whose order among ties is unspecified). -/
def tdcOf (le : α → α → Bool) (n : Nat) (sorted : List ((α × Bool) × Nat)) : List Rat :=
  let qs := go le 0 0 (sorted.map (·.1))
  let tagged := (sorted.map (·.2)).zip qs
  (List.range n).map (fun i => lookupIdx i tagged)

/-- best-first comparison used for sorting -/
def better (le : α → α → Bool) (a b : (α × Bool) × Nat) : Bool := le b.1.1 a.1.1

/-- executable `tdc`: sort best-first (stable merge sort as one admissible
`argsort`), sweep, restore the input order. src: mokapot/qvalues.py:28-144 -/
def tdc (le : α → α → Bool) (xs : List (α × Bool)) : List Rat :=
  tdcOf le xs.length (xs.zipIdx.mergeSort (better le))

/-- number of targets / decoys scoring at least as well as threshold `t` -/
def cntT (le : α → α → Bool) (l : List (α × Bool)) (t : α) : Nat := l.countP (fun y => le t y.1 && y.2)
def cntD (le : α → α → Bool) (l : List (α × Bool)) (t : α) : Nat := l.countP (fun y => le t y.1 && !y.2)

/-- **Specification** (the defining formula of C01): minimum, over all thresholds
`t` among the scores that are at or worse than `s`, of
`(decoys ≥ t + 1) / (targets ≥ t)`, capped at 1, and 1 where no target qualifies. -/
def qSpec (le : α → α → Bool) (l : List (α × Bool)) (s : α) : Rat :=
  minOver ((l.filter (fun t => le t.1 s)).map (fun t => fdrRaw (cntT le l t.1) (cntD le l t.1)))

/-- training labels: +1 target with q ≤ thr, -1 decoy, 0 other target.
src: mokapot/dataset.py:734-739 -/
def labelOf (thr : Rat) (target : Bool) (q : Rat) : Int :=
  if !target then -1 else if q > thr then 0 else 1

def updateLabels (le : α → α → Bool) (thr : Rat) (xs : List (α × Bool)) : List Int :=
  List.zipWith (fun x q => labelOf thr x.2 q) xs (tdc le xs)

/-! ## Label decoding glue of `tdc` (qvalues.py:81-102) -/

inductive LabelArr where
  | bools (bs : List Bool)
  | ints (is : List Int)       -- any integer dtype
  | floats (fs : List Rat)     -- floating dtype (values as rationals)

/-- integer arrays are accepted iff every entry is 0 or 1 (`max ≤ 1 ∧ min ≥ 0`),
float arrays iff every entry equals 0.0 or 1.0; otherwise `ValueError`. -/
def decodeLabels : LabelArr → Option (List Bool)
  | .bools bs => some bs
  | .ints is => if is.all (fun i => i == 0 || i == 1) then some (is.map (· == 1)) else none
  | .floats fs => if fs.all (fun f => f == 0 || f == 1) then some (fs.map (· == 1)) else none

end Mk
