import MokapotVerif.Model.GroupingStr
import MokapotVerif.Model.Decoys
import MokapotVerif.Model.Digest
/-!
# `read_fasta` from the file contents on, calls in one interpreter, key order of `protein_map`
(C16, third extension)

`Model/Grouping.lean` starts at the digested entries, `Model/GroupingExt.lean` at the parsed
`(name, sequence)` entries.  The public entry point starts at *files*:

* **A.** `fasta = _parse_fasta_files(fasta_files)`, `prot, seq = _parse_protein(entry)`
  (fasta.py:81-86): the reader (`parseFastaR`) is built from the pieces transcribed for C18
  (universal-newline text mode, `split("\n>")`, `splitlines`, name = header up to the first blank,
  `IndexError` on a record without a line) around the repaired line
  `("\n" + "\n".join(texts)).split("\n>")[1:]`.  `readFastaText` is the whole
  of `read_fasta` as a function of the decoded file contents and the options of the call.
* **B.** the key order of `protein_map`: the `proteins` dict is rebuilt in ascending order of
  the number of peptides (stable `sorted`, fasta.py:110-112) *before* the loop that fills
  `decoy_map` (fasta.py:120-128); `Out.proteinMap` of the base model is in FASTA order.
* **C.** several calls in one interpreter: `read_fasta` / `digest` keep no module-level state
  (fasta.py:1-13 holds only `LOGGER`), so a process is modelled as a state-threading loop
  whose state the code neither reads nor writes (`fastaStep`); a memo keyed on an incomplete
  option tuple is the refuted variant of `Mutants/GroupingText.lean`.
-/
namespace Mk.Grouping
variable {α β : Type} [DecidableEq α] [DecidableEq β]

/-! ## A. from the file contents -/

/-- `_parse_fasta_files`: `("\n" + "\n".join(texts)).split("\n>")[1:]` (the line as repaired in /repo
f95d0dc: every record, the first included, is preceded by the separator; what stands before the first
separator — nothing, blank lines, the breaks that join empty files — is dropped).  Text-mode `open`
translates the line ends (`univNL`).  src: mokapot/parsers/fasta.py:313-332 -/
def parseFilesR (files : List (List Char)) : List (List Char) :=
  (Mk.Decoys.splitRecords ('\n' :: Mk.Decoys.joinWith ['\n'] (files.map Mk.Decoys.univNL))).drop 1

/-- `[_parse_protein(entry) for entry in fasta]`; `none` = `IndexError` (`entry[0]` of a record
without a line).  src: mokapot/parsers/fasta.py:85-86, 335-357 -/
def parseFastaR (files : List (List Char)) : Option (List (List Char × List Char)) :=
  Mk.Decoys.sequenceOpt ((parseFilesR files).map Mk.Decoys.parseProtein)

/-- `read_fasta` from the decoded contents of the files on, for some arrangement `srt` of the
proteins by decreasing size and any enumeration of the match sets.  Outer `none` = the
`IndexError` of `_parse_protein` on an empty record (a bare `>` at the end of the input); inner `none` =
`ValueError("Only decoy proteins were found")`.  src: mokapot/parsers/fasta.py:74-187 -/
def readFastaTextOf (pre : List Char) (enum : Nat → List (GKey (List Char)) → List (GKey (List Char)))
    (dig : List Char → List β) (files : List (List Char)) (srt : List (Prot (List Char) β)) :
    Option (Option (Out (List Char) β)) :=
  (parseFastaR files).map
    (fun es => readFastaSeqOf (isDecoyPre pre) (mkDecoyPre pre) enum dig es srt)

/-- executable `read_fasta` on file contents (stable sorts; match sets in insertion order or,
`rev`, reversed) -/
def readFastaText (pre : List Char) (rev : Bool) (dig : List Char → List β) (files : List (List Char)) :
    Option (Option (Out (List Char) β)) :=
  (parseFastaR files).map
    (fun es => readFastaSeq (isDecoyPre pre) (mkDecoyPre pre) rev dig es)

/-- does that run stay clear of `KeyError`s? -/
def readFastaTextSafe (rev : Bool) (dig : List Char → List β) (files : List (List Char)) : Bool :=
  ((parseFastaR files).map (fun es => readFastaSeqSafe rev dig es)).getD true

/-! ## B. key order of `protein_map` -/

/-- `{k: v for k, v in sorted(proteins.items(), key=lambda i: len(i[1]))}`: the `proteins` dict
in ascending order of the number of peptides, ties in insertion (FASTA) order.
src: mokapot/parsers/fasta.py:110-112 -/
def sortAsc (prots : List (Prot α β)) : List (Prot α β) :=
  prots.mergeSort (fun a b => decide (a.2.length ≤ b.2.length))

/-- the targets in the order in which `for prot_name in proteins:` meets them.
src: mokapot/parsers/fasta.py:120-121 -/
def targetsInOrder (isDecoy : α → Bool) (prots : List (Prot α β)) : List (Prot α β) :=
  (sortAsc prots).filter (fun e => !isDecoy e.1)

/-- the items of `decoy_map` (= `Proteins.protein_map`) in dict order.
src: mokapot/parsers/fasta.py:110-128 -/
def decoyMapOrdered (isDecoy : α → Bool) (mkDecoy : α → α) (prots : List (Prot α β)) : List (α × α) :=
  decoyMap isDecoy mkDecoy (sortAsc prots)

/-! ## C. calls in one interpreter -/

/-- a loop of calls in one process: `step` gets the interpreter state left by the earlier
calls and returns the new state with the call's result -/
def runProcess {σ κ ρ : Type} (step : σ → κ → σ × ρ) : σ → List κ → List ρ
  | _, [] => []
  | s, c :: cs => (step s c).2 :: runProcess step (step s c).1 cs

/-- the arguments of one `read_fasta` call (enzyme by residue classes as in the digest model of
C17) and the contents of the files it names -/
structure FastaCall where
  files : List (List Char)
  enzyme : Enzyme
  mc : Nat
  clip : Bool
  lo : Nat
  hi : Nat
  semi : Bool
  pre : List Char

/-- the result of one call taken alone -/
def readFastaCall (rev : Bool) (c : FastaCall) : Option (Option (Out (List Char) Pep)) :=
  readFastaText c.pre rev (fun s => digest c.enzyme s c.mc c.lo c.hi c.clip c.semi) c.files

/-- one call inside a process.  `read_fasta`, `digest`, `_cleave`, `_group_proteins` work on
locals only: the module has no mutable global (`LOGGER` apart), the state is handed on as it is.
src: mokapot/parsers/fasta.py:1-13, 74-187, 298-309 -/
def fastaStep (rev : Bool) (st : Unit) (c : FastaCall) : Unit × Option (Option (Out (List Char) Pep)) :=
  (st, readFastaCall rev c)

end Mk.Grouping
