import MokapotVerif.Model.QvaluesKey
/-!
# The count type of `tdc`, and the defining formula on a histogram  (mokapot/qvalues.py:117-127)

`Model/QvaluesArr.lean` keeps `cum_targets` / `cum_decoys` / `num_total` in `Nat`.  The code keeps
them in a numpy dtype (`bool.cumsum()` → the platform integer, int64), and a change of that dtype
(seeded change C01e: `cumsum(dtype=np.float32)`) is invisible to a model whose counts are natural
numbers.  This file makes the count type a parameter: `ρ n` is what the dtype stores for the exact
value `n` of one addition (`cntI64`: int64, exact below 2^63; `roundNat24`: float32, exact up to
2^24 and stalling there; `cntSat B`: a counter that saturates at `B`).

Second part: the defining formula evaluated on a *histogram* of the input (one row per tie group:
score, number of targets, number of decoys) — the closed form that long inputs are compared with
(counts far beyond what a row-by-row model evaluation can reach).  Import-free.
-/
namespace Mk.Qv
open Mk
variable {α : Type}

/-- `x.cumsum(dtype=…)`: sequential running sum, every partial sum stored in the count type.
src: mokapot/qvalues.py:117-118 -/
def cumsumByR (ρ : Nat → Nat) (f : Bool → Nat) (acc : Nat) : List Bool → List Nat
  | [] => []
  | b :: bs => ρ (acc + f b) :: cumsumByR ρ f (ρ (acc + f b)) bs

/-- `(cum_decoys + 1) / cum_targets` with the zero-target guard; `cum_decoys + 1` is formed in the
count type.  src: mokapot/qvalues.py:122-127 -/
def fdrRawR (ρ : Nat → Nat) (T D : Nat) : Rat :=
  if T = 0 then 1 else ((ρ (D + 1) : Nat) : Rat) / (T : Rat)

/-- int64 (`target.cumsum()` of a Boolean array on a 64-bit platform): exact below 2^63; an
array cannot have that many elements, the wrap beyond is never reached.
src: mokapot/qvalues.py:117-119 -/
def cntI64 (n : Nat) : Nat := n % 2 ^ 63

/-- a counter that cannot pass `B` -/
def cntSat (B n : Nat) : Nat := if n ≤ B then n else B

/-- the middle of `tdc` with the count type explicit (compare `sweepCounts`).
src: mokapot/qvalues.py:117-141 -/
def sweepCountsR (ρ : Nat → Nat) (countsWF : List Nat) (T D : Nat) (l : List (α × Bool)) :
    Option (List Rat) :=
  let target := l.map (·.2)
  let cumT := cumsumByR ρ targetInd T target
  let cumD := cumsumByR ρ decoyInd D target
  let numTotal := List.zipWith (fun a b => ρ (a + b)) cumT cumD
  let fdr := List.zipWith (fdrRawR ρ) cumT cumD
  (fdr2qvalue fdr.reverse numTotal.reverse countsWF).map List.reverse

/-- … with the group sizes taken from `np.unique` as the code does.  src: mokapot/qvalues.py:117-141 -/
def sweepArrR (ρ : Nat → Nat) (leq : α → α → Bool) (desc : Bool) (l : List (α × Bool)) :
    Option (List Rat) :=
  sweepCountsR ρ (wfCounts leq desc (l.map (·.1))) 0 0 l

/-- q-values in input order for some result `sorted` of the `argsort`, counts kept in `ρ`.
src: mokapot/qvalues.py:115-142 -/
def tdcArrOfR (ρ : Nat → Nat) (leq : α → α → Bool) (desc : Bool) (n : Nat)
    (sorted : List ((α × Bool) × Nat)) : Option (List Rat) :=
  (sweepArrR ρ leq desc (sorted.map (·.1))).map fun qs =>
    (List.range n).map (fun i => lookupIdx i ((sorted.map (·.2)).zip qs))

/-- executable array-level `tdc` with the count type explicit.  src: mokapot/qvalues.py:104-144 -/
def tdcArrR (ρ : Nat → Nat) (leq : α → α → Bool) (desc : Bool) (xs : List (α × Bool)) :
    Option (List Rat) :=
  tdcArrOfR ρ leq desc xs.length (xs.zipIdx.mergeSort (better (dirLe leq desc)))

/-- `tdc` as called (validation, cast of integer scores, sort, sweep) with int64 counts — the
code as it is.  src: mokapot/qvalues.py:81-144 -/
def tdcEntryR (ρ : Nat → Nat) (desc : Bool) (scores : ScoreArr) (labels : LabelArr) :
    Except TdcErr (Option (List Rat)) :=
  (checkInput (prepScores scores) labels).map (tdcArrR ρ leqQ desc)

/-! ## The defining formula on a histogram -/

/-- a tie group in compressed form: (score, number of targets, number of decoys) -/
abbrev Blk (α : Type) := α × Nat × Nat

/-- the rows a histogram row stands for -/
def expandBlock (b : Blk α) : List (α × Bool) :=
  List.replicate b.2.1 (b.1, true) ++ List.replicate b.2.2 (b.1, false)

/-- the PSM list a histogram stands for (in some order; the q-values do not depend on it) -/
def expandBlocks (bs : List (Blk α)) : List (α × Bool) := bs.flatMap expandBlock

/-- targets scoring at least as well as threshold `t`: what `cum_targets` holds at the end of
`t`'s tie group.  src: mokapot/qvalues.py:117 -/
def blkT (le : α → α → Bool) (bs : List (Blk α)) (t : α) : Nat :=
  ((bs.filter (fun b => le t b.1)).map (·.2.1)).sum

/-- decoys scoring at least as well as threshold `t`.  src: mokapot/qvalues.py:118 -/
def blkD (le : α → α → Bool) (bs : List (Blk α)) (t : α) : Nat :=
  ((bs.filter (fun b => le t b.1)).map (·.2.2)).sum

/-- FDR at every histogram row's score taken as the threshold.  src: mokapot/qvalues.py:122-127 -/
def blkFdrTable (le : α → α → Bool) (bs : List (Blk α)) : List (α × Rat) :=
  bs.map (fun t => (t.1, fdrRaw (blkT le bs t.1) (blkD le bs t.1)))

/-- minimum of the tabulated FDRs over the thresholds at or worse than `s`, capped at 1 -/
def minAtOrWorse (le : α → α → Bool) (tab : List (α × Rat)) (s : α) : Rat :=
  minOver ((tab.filter (fun t => le t.1 s)).map (·.2))

/-- **the defining formula on the histogram**: q-value of a PSM with score `s` -/
def qBlocksAt (le : α → α → Bool) (bs : List (Blk α)) (s : α) : Rat :=
  minAtOrWorse le (blkFdrTable le bs) s

/-- one q-value per histogram row (the FDR table is computed once) -/
def qBlocks (le : α → α → Bool) (bs : List (Blk α)) : List Rat :=
  let tab := blkFdrTable le bs
  bs.map (fun b => minAtOrWorse le tab b.1)

end Mk.Qv
