import MokapotVerif.Model.ConfidenceKey
import MokapotVerif.Model.ConfidenceRollup
/-!
# The seen-set of the roll-up tool on the cells it is given (`brew_rollup.do_rollup`)

src: mokapot/brew_rollup.py:399-421 (`seen_entities`, `id = line[id_col]`, `if id not in seen`),
mokapot/streaming.py:170-260 (`MergedTabularDataReader`: every reader is read
`reader_chunk_size = 10000` rows at a time), mokapot/tabular_data.py:203-229
(`CSVFileReader.get_column_types`: from the first two rows; `get_chunked_data_iterator`:
`pd.read_csv(chunksize=…)`, dtype inferred *per chunk*).

`Model/ConfidenceRollup.lean: toolLevelRows` numbers the values of a level column (`Row.key`):
key *equality* is abstract there.  This file says what that equality is for the tool.  A row of the
merged stream reaches the level loop as a `dict` whose level cell is whatever pandas made of the
text of the file in the chunk that held the row: a number when every cell of that chunk's column
reads as a number, the text itself otherwise (`confReadCell`).  The dtype is a *parameter* of each
row (it depends on the neighbours in the chunk and on the chunk size).

* `toolRawKey` — the tool up to /repo `c6f4cd0` (before `349eaa8`): the seen-set holds the raw Python values
  (`17 == 17.0`, `hash` equal; `"17" != 17`).
* `toolEntityKey` — the tool since `349eaa8` (FINDING-C03.md, D56): `id = _entity_key([id])`, the key function of
  `assign_confidence` (`Model/ConfidenceKey.lean: confEntityKey`).

No Mathlib import.
-/
namespace Mk

/-- one row of the merged stream as one level of the tool's loop sees it.
src: mokapot/brew_rollup.py:401-408 (`for line in reader.get_row_iterator(…)`, `line[id_col]`) -/
structure ToolCellRow where
  id : Nat
  /-- dtype pandas gave the level column in the reader chunk that held the row -/
  dtype : ConfDtype
  /-- the cell as the input file spells it -/
  text : List Char
  score : Int
  deriving Repr, DecidableEq

/-- `if id not in seen: seen.add(id); temp_writers[level].append_data(line)` for a key of any
type (`dedupFirst` of `Model/Confidence.lean` is the instance `κ = Nat`).
src: brew_rollup.py:409-421 -/
def toolDedupBy {α κ : Type} [DecidableEq κ] (key : α → κ) : List κ → List α → List α
  | _, [] => []
  | seen, r :: rest =>
    if seen.contains (key r) then toolDedupBy key seen rest
    else r :: toolDedupBy key (key r :: seen) rest

/-- membership of a raw Python value in a `set`: numbers by value (`17 == 17.0`, `-0.0 == 0.0`,
equal hashes), `True == 1`, a `str` only equals the same `str`.
src: brew_rollup.py:414-419 as of c6f4cd0, before the repair 349eaa8 (`id = line[id_col]`, `if id not in seen`) -/
def toolRawKey : ConfCell → ConfKeyAtom
  | .bool b => confNormNum (if b then 1 else 0) 0 false
  | .num m e _ => confNormNum m e false
  | .text s => .text s

/-- the tool as it is (since 349eaa8): `id = _entity_key([id])`.  src: mokapot/brew_rollup.py:415-425,
confidence.py `_entity_key` -/
def toolEntityKey (c : ConfCell) : List ConfKeyAtom := confEntityKey [c]

/-- the cell the row iterator delivers for a row.
src: mokapot/tabular_data.py:220-229 (`pd.read_csv(chunksize=…)`), streaming.py:210-260 -/
def ToolCellRow.cell (r : ToolCellRow) : ConfCell := confReadCell r.dtype r.text

/-- rows written to the temporary file of the level, the tool as it was (raw values in the seen-set).
src: mokapot/brew_rollup.py:399-421 -/
def toolCellRowsRaw (merged : List ToolCellRow) : List ToolCellRow :=
  toolDedupBy (fun r => toolRawKey r.cell) [] merged

/-- … and the tool as it is since 349eaa8.  src: mokapot/brew_rollup.py:400-427 -/
def toolCellRows (merged : List ToolCellRow) : List ToolCellRow :=
  toolDedupBy (fun r => toolEntityKey r.cell) [] merged

/-- *the entity of a row*: the value its cell has in the file (numbers by value, other text by
itself) — no dtype, no chunk -/
def ToolCellRow.entity (r : ToolCellRow) : ConfKeyAtom := confCanonical (.text r.text)

/-- **Specification of the level on cells**: non-increasing scores, one row per entity, only input
rows, every input row represented by a row of its entity scoring at least as well -/
def ToolCellSpec (input out : List ToolCellRow) : Prop :=
  out.Pairwise (fun a b => b.score ≤ a.score) ∧
  (out.map ToolCellRow.entity).Nodup ∧
  (∀ r ∈ out, r ∈ input) ∧
  (∀ r ∈ input, ∃ o ∈ out, o.entity = r.entity ∧ r.score ≤ o.score)

/-- decidable version for the driver (evaluated on the real tool's output) -/
def toolCellSpecB (input out : List ToolCellRow) : Bool :=
  (out.zip out.tail).all (fun p => decide (p.2.score ≤ p.1.score)) &&
  (out.map ToolCellRow.entity).eraseDups.length == out.length &&
  out.all (fun r => input.contains r) &&
  input.all (fun r => out.any (fun o => o.entity == r.entity && decide (r.score ≤ o.score)))

end Mk
