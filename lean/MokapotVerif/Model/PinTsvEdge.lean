import MokapotVerif.Model.PinTsvPass2
/-!
# Third pass of C19: empty / blank fields at the edges of a line

Since commit 750c44b of /repo the converter removes only the line terminator of every line
(`rstrip("\r\n")`, model `chomp`); before, `str.strip()` also removed blanks, tabs — and with
them an empty first or last field (finding D49).  The model functions themselves live in
`Model/PinTsv.lean` (`chomp`, `pinBody`, `pinAfterHeader`, `pinToTsvLines`, `parseHeaderCols`);
this file adds the specification-side notions the new theorems use.  Import-free.
-/
namespace Mk

/-- `line.rstrip("\r\n") + "\n"`: what the converter writes for a line it does not fold.
src: mokapot/parsers/pin_to_tsv.py:192-193,212-220 -/
def rewriteLine (l : Str) : Str := chomp l ++ ['\n']

/-- a document stored plainly: no carriage return before any line end, last line terminated -/
def PinDoc.plain (d : PinDoc) : Bool :=
  d.hpadR.isEmpty && d.rows.all (fun r => r.padR.isEmpty) && d.trailingNl

/-- some line of the document has an empty or blank field at one of its ends — the shape the
old `strip()` damaged -/
def edgeSensitive (fs : List Str) : Bool :=
  ((fs.head?.map (fun f => f.isEmpty || (f.head?.map pyIsSpace).getD false)).getD false) ||
  ((fs.getLast?.map (fun f => f.isEmpty || (f.getLast?.map pyIsSpace).getD false)).getD false)

def PinDoc.edgeSensitive (d : PinDoc) : Bool :=
  Mk.edgeSensitive d.cols || d.rows.any (fun r => Mk.edgeSensitive r.fields)

/-- the three forms in which the end of a line reaches `pin_to_valid_tsv`: unterminated (last
line), `"\n"`, `"\r\n"` (source that does not translate newlines) -/
def lineEnds : List Str := [[], ['\n'], ['\r', '\n']]

end Mk
