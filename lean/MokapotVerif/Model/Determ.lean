/-!
# Determinism (C08): how the seeded generator is threaded through `brew`, and loops over sets

Two models, both import-free and executable.

## 1. Generator threading  (anchor "explicit numpy Generators threaded through brew / Model / split")

`brew` owns ONE `numpy.random.Generator` (`rng = np.random.default_rng(rng)`, brew.py:108) and
* hands it to the model (`model.rng = rng`, brew.py:117-121; the setter `Model.rng`, model.py:179-182,
  and `PsmDataset.rng`, dataset.py:171-174, are `np.random.default_rng(rng)`, which returns a Generator
  argument itself: the model and `brew` SHARE the object),
* draws the fold shuffles from it, collection after collection, fold after fold (brew.py:148,
  dataset.py:686-687),
* draws the sub-sampling of the training sets from it (`make_train_sets`, brew.py:318-359, consumed
  eagerly by `list(...)` at brew.py:169-176),
* and only then starts the fits: every fold receives `copy.deepcopy(model)` (brew.py:183-186), i.e. a
  PRIVATE copy of the generator in the state reached after the draws above; `Model.fit` draws one
  permutation of the training rows from it (model.py:291).

The generator is abstract (`Gen`: a state type and a step function); a draw request is a `Draw`.
The fits run in joblib worker threads: which fit draws next is a *schedule* (a list of task numbers),
a parameter of the model over which the theorems quantify.  A task owns a *cell* of a heap of generator
states; `deepcopy` gives every task a fresh cell, the refuted variant (Mutants/Determ.lean) lets all
tasks share the caller's cell.

## 2. Loops over sets that fill a dictionary

`for k in S: d[k] = f(k, d.get(k))` over a hash-ordered set `S` (fasta.py:98-101, 553-560): Python dicts
keep insertion order, so the *content* of `d` does not depend on the enumeration of `S` but its *key
order* does.  `dUpd`/`keyedLoop` model exactly that (update in place, new keys appended).

## 3. The seed of the hyper-parameter search (second pass)

`PercolatorModel.__init__` (model.py:430-436) draws the `random_state` of the grid search's `KFold` from the
generator it is CONSTRUCTED with — before `brew` replaces the model's generator (`model.rng = rng`, brew.py:121).
What reaches the fit of a fold is therefore the pair (that cross-validation seed, the row permutation of §1).
With `model=None` `brew` builds `PercolatorModel(rng=rng)` on ITS OWN generator (brew.py:109-112, since the repair of
D39): one `integers` draw precedes the fold shuffles on that path (`defaultModelDraws`, `mainDrawsOf`).  Before the
repair it was `PercolatorModel()`: a generator seeded from OS entropy (refuted variant in Mutants/Determ.lean).

## 4. The seed handed to `assign_confidence` (second pass)

`assign_confidence(..., rng=R)` hands `R` unchanged to every collection's `LinearConfidence` (confidence.py:813,
74, 372-379), `picked_protein` hands it to `group_without_decoys` → `match_decoy` (`targets.sample(frac=1,
random_state=R)`, peptides.py:39; target-only FASTA only) and then to `utils.groupby_max` (`df.sample(frac=1,
random_state=R)`, utils.py:33).  pandas turns an int into a NEW generator per call and uses a Generator object as it
is: an int seed restarts every shuffle from the same state, a Generator is advanced shuffle after shuffle,
collection after collection (`SeedArg`, `runSeeded`).
-/
namespace Mk.Determ

/-! ## 1. Generator threading -/

/-- a request to a `numpy.random.Generator`, with the sizes that determine how much state it consumes -/
inductive Draw where
  /-- `rng.shuffle(x)` with `len(x) = n` (dataset.py:687) -/
  | shuffle (n : Nat)
  /-- `rng.choice(x, k, replace=False)` with `len(x) = n` (brew.py:356-358) -/
  | choice (n k : Nat)
  /-- `rng.permutation(np.arange(n))` (model.py:291) -/
  | permutation (n : Nat)
  /-- `rng.integers(lo, hi)` (model.py:436: the seed of the grid search's `KFold`) -/
  | integers (lo hi : Nat)
  deriving DecidableEq, Repr

/-- an abstract bit generator: a draw returns a value and the next state -/
structure Gen (σ ν : Type) where
  step : σ → Draw → ν × σ

variable {σ ν : Type}

/-- the values and the final state of a sequence of draws made one after the other on one generator
(src: numpy.random.Generator — every method call advances the one bit generator of the object) -/
def runDraws (G : Gen σ ν) : σ → List Draw → List ν × σ
  | s, [] => ([], s)
  | s, d :: ds => ((G.step s d).1 :: (runDraws G (G.step s d).2 ds).1, (runDraws G (G.step s d).2 ds).2)

/-- src: mokapot/brew.py:148, mokapot/dataset.py:686-687 — `[_psms._split(folds, rng) for _psms in psms]`:
one `shuffle` per fold piece, collection after collection (`foldSizes[c][j]` = size of fold `j` of collection `c`) -/
def splitDraws (foldSizes : List (List Nat)) : List Draw :=
  foldSizes.flatMap (fun fs => fs.map Draw.shuffle)

/-- src: mokapot/brew.py:327-334 — `subset_max_train // len(data_size)` per file, the remainder added to the last -/
def perFileMax (subsetMax nFiles : Nat) : List Nat :=
  (List.replicate (nFiles - 1) (subsetMax / nFiles)) ++
    (if nFiles = 0 then [] else [subsetMax / nFiles + (subsetMax - nFiles * (subsetMax / nFiles))])

/-- src: mokapot/brew.py:337-345 — size of the training part of one file for fold `j`: all rows but those of its fold `j` -/
def trainSize (fs : List Nat) (j : Nat) : Nat := fs.sum - fs.getD j 0

/-- src: mokapot/brew.py:346-359 — one file of one fold: `if cur < train_idx_size: rng.choice(train_idx[i], cur)`;
note that `train_idx_size` is the TOTAL over the files and is not updated -/
def subsetDrawFile (total : Nat) (cn : Nat × Nat) : Option Draw :=
  if cn.1 < total then some (Draw.choice cn.2 cn.1) else none

/-- src: mokapot/brew.py:346-359 — the draws of one fold (`trains[i]` = training rows of file `i`) -/
def subsetDrawsFold (perFile : List Nat) (trains : List Nat) : List Draw :=
  if 0 < perFile.length && perFile.sum < trains.sum then
    (perFile.zip trains).filterMap (subsetDrawFile trains.sum)
  else []

/-- src: mokapot/brew.py:336-345 — the training-part sizes of fold `j`, file by file -/
def trainsOfFold (foldSizes : List (List Nat)) (j : Nat) : List Nat := foldSizes.map (fun fs => trainSize fs j)

/-- src: mokapot/brew.py:336 — number of folds that `zip(*test_idx)` runs over: the shortest list -/
def nFolds : List (List Nat) → Nat
  | [] => 0
  | fs :: rest => rest.foldl (fun m g => min m g.length) fs.length

/-- src: mokapot/brew.py:326-334 — `perFile` of the call: empty when `subset_max_train is None` -/
def perFileOf (subsetMax : Option Nat) (nFiles : Nat) : List Nat :=
  (subsetMax.map (fun m => perFileMax m nFiles)).getD []

/-- src: mokapot/brew.py:318-359 — `make_train_sets`: the draws of all folds, fold after fold -/
def subsetDraws (subsetMax : Option Nat) (foldSizes : List (List Nat)) : List Draw :=
  (List.range (nFolds foldSizes)).flatMap
    (fun j => subsetDrawsFold (perFileOf subsetMax foldSizes.length) (trainsOfFold foldSizes j))

/-- src: mokapot/brew.py:356-358 — number of training rows of one file after sub-sampling -/
def keptFile (total : Nat) (cn : Nat × Nat) : Nat := if cn.1 < total then cn.1 else cn.2

/-- src: mokapot/brew.py:346-359, mokapot/parsers/pin.py:349-396 — rows handed to the fit of fold `j`
(= length of the permutation drawn at model.py:291) -/
def fitRows (subsetMax : Option Nat) (foldSizes : List (List Nat)) (j : Nat) : Nat :=
  if 0 < (perFileOf subsetMax foldSizes.length).length
      && (perFileOf subsetMax foldSizes.length).sum < (trainsOfFold foldSizes j).sum then
    (((perFileOf subsetMax foldSizes.length).zip (trainsOfFold foldSizes j)).map
      (keptFile (trainsOfFold foldSizes j).sum)).sum
  else (trainsOfFold foldSizes j).sum

/-- src: mokapot/brew.py:148-176 — everything `brew` itself draws from its generator, in order;
`pretrained` = a list of trained models was given (brew.py:151-168: no training sets are made) -/
def mainDraws (pretrained : Bool) (subsetMax : Option Nat) (foldSizes : List (List Nat)) : List Draw :=
  splitDraws foldSizes ++ (if pretrained then [] else subsetDraws subsetMax foldSizes)

/-- src: mokapot/model.py:291 — the requests of the fit of fold `j` on its own generator -/
def fitDraws (subsetMax : Option Nat) (foldSizes : List (List Nat)) (j : Nat) : List Draw :=
  [Draw.permutation (fitRows subsetMax foldSizes j)]

/-- pointwise update of a function on `Nat` (heap cell / task slot); modelling device, no source counterpart -/
def upd {α : Type} (f : Nat → α) (i : Nat) (v : α) : Nat → α := fun j => if j = i then v else f j

/-- src: mokapot/brew.py:183-186 (`Parallel(n_jobs=max_workers, require="sharedmem")`: threads sharing one heap) —
the state of the worker pool: generator states by cell, the requests each task still has to make,
the values each task has received so far -/
structure Pool (σ ν : Type) where
  heap : Nat → σ
  pending : Nat → List Draw
  out : Nat → List ν

/-- src: mokapot/model.py:291 (`self.rng.permutation(..)` on the model's own generator object) —
task `i` makes its next request `d` (the rest being `rest`) on its cell -/
def fire (G : Gen σ ν) (cell : Nat → Nat) (st : Pool σ ν) (i : Nat) (d : Draw) (rest : List Draw) : Pool σ ν :=
  { heap := upd st.heap (cell i) (G.step (st.heap (cell i)) d).2
    pending := upd st.pending i rest
    out := upd st.out i (st.out i ++ [(G.step (st.heap (cell i)) d).1]) }

/-- task `i` is scheduled with the remaining requests `reqs`: nothing happens when it has finished
(src: joblib threading backend — which thread runs next is not controlled by mokapot) -/
def stepReq (G : Gen σ ν) (cell : Nat → Nat) (st : Pool σ ν) (i : Nat) : List Draw → Pool σ ν
  | [] => st
  | d :: rest => fire G cell st i d rest

/-- one scheduling decision: task `i` runs until its next draw -/
def stepTask (G : Gen σ ν) (cell : Nat → Nat) (st : Pool σ ν) (i : Nat) : Pool σ ν :=
  stepReq G cell st i (st.pending i)

/-- the pool under a schedule (the order in which the worker threads reach their draws) -/
def runPool (G : Gen σ ν) (cell : Nat → Nat) (st : Pool σ ν) (sched : List Nat) : Pool σ ν :=
  sched.foldl (stepTask G cell) st

/-- src: mokapot/brew.py:183-186 — `copy.deepcopy(model)` per fold: task `j` (fold `j`) owns cell `j + 1`,
initialised with the state `s1` that the caller's generator (cell 0) has when the fits are submitted -/
def copiedCell (j : Nat) : Nat := j + 1

/-- the pool at the moment the fits are submitted: every cell holds `s1`; fold `j < k` has the requests `reqs j` -/
def poolInit (s1 : σ) (k : Nat) (reqs : Nat → List Draw) : Pool σ ν :=
  { heap := fun _ => s1, pending := fun j => if j < k then reqs j else [], out := fun _ => [] }

/-- src: mokapot/brew.py:108-186 — `brew` from the generator state `s0`: the main draws on the caller's
generator, then the fits of the `k` folds on their private copies under the schedule `sched` -/
def brewPool (G : Gen σ ν) (s0 : σ) (pretrained : Bool) (subsetMax : Option Nat) (foldSizes : List (List Nat))
    (sched : List Nat) : Pool σ ν :=
  runPool G copiedCell
    (poolInit (runDraws G s0 (mainDraws pretrained subsetMax foldSizes)).2
      (if pretrained then 0 else nFolds foldSizes) (fitDraws subsetMax foldSizes))
    sched

/-- a schedule lets every task `j < k` make all its requests -/
def completeFor (k : Nat) (reqs : Nat → List Draw) (sched : List Nat) : Bool :=
  (List.range k).all (fun j => decide ((reqs j).length ≤ sched.count j))

/-- how far a request moves the toy generator -/
def drawCost : Draw → Nat
  | .shuffle n => 1 + n
  | .choice n k => 2 + n + k
  | .permutation n => 3 + n
  | .integers lo hi => 4 + lo + hi

/-- a toy generator for the driver and the refuted variants: the value is the state, every draw moves
the state by a request-dependent amount -/
def toyGen : Gen Nat Nat := { step := fun s d => (s, s * 3 + drawCost d) }

/-! ## 2. Loops over sets that fill a dictionary -/

variable {κ α : Type} [DecidableEq κ]

/-- `d.get(k)` on an insertion-ordered dictionary (src: CPython dict, used at fasta.py:93-101, 155-163) -/
def dGet : List (κ × α) → κ → Option α
  | [], _ => none
  | (k', v) :: rest, k => if k' = k then some v else dGet rest k

/-- `d[k] = v`: in place when the key exists, appended otherwise (CPython dict order) -/
def dSet : List (κ × α) → κ → α → List (κ × α)
  | [], k, v => [(k, v)]
  | (k', v') :: rest, k, v => if k' = k then (k', v) :: rest else (k', v') :: dSet rest k v

/-- `d[k] = f(k, d.get(k))` -/
def dUpd (f : κ → Option α → α) (d : List (κ × α)) (k : κ) : List (κ × α) := dSet d k (f k (dGet d k))

/-- src: mokapot/parsers/fasta.py:98-101 (`for pep in peps: peptides[pep].add(prot)`), 553-560 (`for pep in
grouped[new_prot]: peptides[pep]…`) — a loop over the enumeration `ks` of a set whose body touches only the
entry of its own key -/
def keyedLoop (f : κ → Option α → α) (d : List (κ × α)) (ks : List κ) : List (κ × α) := ks.foldl (dUpd f) d

/-- the keys in dictionary order (`list(d.keys())`) -/
def dKeys (d : List (κ × α)) : List κ := d.map Prod.fst

/-! ## 3. The cross-validation seed of the model that `brew` trains -/

variable {σ ν : Type}

/-- src: mokapot/model.py:430-436 — `rng = np.random.default_rng(rng)` … `KFold(3, shuffle=True,
random_state=rng.integers(1, 1e6))`: the constructor makes ONE draw on the generator it is given (state `m0`);
the value seeds the cross-validation of the hyper-parameter search, the generator is left one draw further -/
def percolatorInit (G : Gen σ ν) (m0 : σ) : ν × σ := G.step m0 (Draw.integers 1 1000000)

/-- src: mokapot/brew.py:109-112 — where the model that `brew` trains comes from -/
inductive ModelArg (σ : Type) where
  /-- `model=None`: `brew` itself builds `PercolatorModel(rng=rng)` on its own generator -/
  | default
  /-- the caller built the model on a generator in state `m0` (`PercolatorModel(rng=seed)`, as the command line
  entry point does, mokapot.py:110-116: `m0` is the state `default_rng(seed)` starts in) -/
  | built (m0 : σ)

/-- src: mokapot/brew.py:109-112, mokapot/model.py:430-436 — the seed of the grid search's cross-validation in the
model that `brew` deep-copies for every fold; `s0` is the state `brew`'s own generator starts in (`entropy`, the
state of a generator made without a seed, is not used by the code as it is; it is the parameter of the refuted
variant) -/
def modelCvSeed (G : Gen σ ν) (_entropy s0 : σ) : ModelArg σ → ν
  | .default => (percolatorInit G s0).1
  | .built m0 => (percolatorInit G m0).1

/-- src: mokapot/brew.py:108-121 — the state in which `brew`'s generator makes its own first draw (the fold
shuffles): with the default model the constructor's draw comes first -/
def brewStart (G : Gen σ ν) (s0 : σ) : ModelArg σ → σ
  | .default => (percolatorInit G s0).2
  | .built _ => s0

/-- src: mokapot/brew.py:109-112 — what building the default model draws from `brew`'s generator -/
def defaultModelDraws : List Draw := [Draw.integers 1 1000000]

/-- src: mokapot/brew.py:108-176 — everything `brew` itself draws from its generator, in order, also for
`model=None` (`defaultModel`): the constructor's draw, then `mainDraws` -/
def mainDrawsOf (defaultModel pretrained : Bool) (subsetMax : Option Nat) (foldSizes : List (List Nat)) : List Draw :=
  (if defaultModel then defaultModelDraws else []) ++ mainDraws pretrained subsetMax foldSizes

/-- src: mokapot/brew.py:108-186, mokapot/model.py:291, 618-650 — everything random that reaches the fit of fold `j`:
the cross-validation seed baked into the model and the row permutation drawn from the fold's copy of `brew`'s generator -/
def trainInputs (G : Gen σ ν) (entropy s0 : σ) (m : ModelArg σ) (subsetMax : Option Nat) (foldSizes : List (List Nat))
    (sched : List Nat) (j : Nat) : ν × List ν :=
  (modelCvSeed G entropy s0 m, (brewPool G (brewStart G s0 m) false subsetMax foldSizes sched).out j)

/-! ## 4. The seed handed to `assign_confidence` -/

/-- src: pandas `sample(random_state=…)` as called at mokapot/peptides.py:39 and mokapot/utils.py:33 — what the
`rng` argument of `assign_confidence` is: an int (every `sample` call builds its own generator, in the state `init`
that the int determines) or a Generator object (used as it is, and advanced) -/
inductive SeedArg (σ : Type) where
  | seed (init : σ)
  | gen

/-- one `sample(frac=1, random_state=R)`: the value drawn and the state the CALLER's generator is left in -/
def seededStep (G : Gen σ ν) : SeedArg σ → σ → Draw → ν × σ
  | .seed init, s, d => ((G.step init d).1, s)
  | .gen, s, d => G.step s d

/-- the shuffles of a confidence run, one after the other (`s` = state of the caller's generator) -/
def runSeeded (G : Gen σ ν) (arg : SeedArg σ) : σ → List Draw → List ν × σ
  | s, [] => ([], s)
  | s, d :: ds => ((seededStep G arg s d).1 :: (runSeeded G arg (seededStep G arg s d).2 ds).1,
                   (runSeeded G arg (seededStep G arg s d).2 ds).2)

/-- src: mokapot/picked_protein.py:56-64, 200-208, 114; mokapot/peptides.py:39; mokapot/utils.py:29-39 — the shuffles
of the protein level of ONE collection: with a target-only FASTA first `match_decoy` shuffles the `nTargets`
unique target peptides of the FASTA, then `groupby_max` shuffles the `nRows` peptide rows that have a protein
group (pandas: `random_state.choice(n, size=n, replace=False)`) -/
def protDraws (hasDecoys : Bool) (nTargets nRows : Nat) : List Draw :=
  (if hasDecoys then [] else [Draw.choice nTargets nTargets]) ++ [Draw.choice nRows nRows]

/-- src: mokapot/confidence.py:643-819 — `for _psms, score, desc, prefix in zip(…)`: the collections one after the
other, every one with the same `rng` argument (`rows[c]` = peptide rows with a protein group in collection `c`) -/
def confDraws (hasDecoys : Bool) (nTargets : Nat) (rows : List Nat) : List Draw :=
  rows.flatMap (protDraws hasDecoys nTargets)

end Mk.Determ
